/-
  C07 — the executable `processBatch` / `runEvent` of Model/Runner.lean (the functions the oracle runs and
  L1 compares with the real code) keep the cache coherent and the slots exclusively owned.

  This closes the gap between the hand-written operation alphabet `Step` of Properties/C07.lean and the
  executable model: the theorems here are about `innerLoop`, `phase1`, `phase3`, `processBatch`,
  `runEvent`, `runEvents` themselves (mixed batches of several sequences included).
-/
import OllamaVerif.Properties.C07

namespace OllamaVerif.C07
open OllamaVerif OllamaVerif.Runner
set_option linter.unusedSimpArgs false
set_option linter.unusedVariables false

/-! ## small facts about slots -/

theorem setSlot_length (l : List Slot) (i : Nat) (f : Slot → Slot) : (setSlot l i f).length = l.length := by
  simp [setSlot]

theorem getSlot_setSlot (l : List Slot) (i j : Nat) (f : Slot → Slot) (hi : i < l.length) :
    getSlot (setSlot l i f) j = if j = i then f (getSlot l i) else getSlot l j := by
  by_cases h : j = i
  · subst h; simp only [if_true]; exact getSlot_setSlot_same l j f hi
  · simp only [h, if_false]; exact getSlot_setSlot_other l i j f h

/-- what an operation on slot `s` leaves alone -/
structure Frame (s : Nat) (c c' : Cache) : Prop where
  numCtx : c'.numCtx = c.numCtx
  window : c'.window = c.window
  resetEnd : c'.resetEnd = c.resetEnd
  len : c'.slots.length = c.slots.length
  other : ∀ j, j ≠ s → getSlot c'.slots j = getSlot c.slots j
  inUse : (getSlot c'.slots s).inUse = (getSlot c.slots s).inUse

theorem Frame.refl (s : Nat) (c : Cache) : Frame s c c := ⟨rfl, rfl, rfl, rfl, fun _ _ => rfl, rfl⟩

theorem Frame.trans {s : Nat} {a b c : Cache} (h1 : Frame s a b) (h2 : Frame s b c) : Frame s a c :=
  ⟨h2.numCtx.trans h1.numCtx, h2.window.trans h1.window, h2.resetEnd.trans h1.resetEnd, h2.len.trans h1.len,
   fun j hj => (h2.other j hj).trans (h1.other j hj), h2.inUse.trans h1.inUse⟩

theorem frame_setSlot (c : Cache) (i : Nat) (f : Slot → Slot) (cells' : List Cell) (hi : i < c.slots.length)
    (hf : (f (getSlot c.slots i)).inUse = (getSlot c.slots i).inUse) :
    Frame i c { c with cells := cells', slots := setSlot c.slots i f } :=
  ⟨rfl, rfl, rfl, setSlot_length _ _ _, fun j hj => getSlot_setSlot_other _ _ _ _ hj,
   by simp only [getSlot_setSlot_same _ _ _ hi]; exact hf⟩

/-! ## ShiftCacheSlot frees room (reviewer item E4) -/

theorem shiftDiscard_full (numCtx len keep : Nat) (hk : keep < numCtx) (hfull : numCtx ≤ len) :
    0 < shiftDiscard numCtx len keep ∧ keep + shiftDiscard numCtx len keep ≤ len ∧
      len - shiftDiscard numCtx len keep + 1 ≤ numCtx := by
  unfold shiftDiscard
  simp only
  omega

/-- shape of a successful ShiftCacheSlot: only slot `i`'s record and the cells change; the record does not
    grow, and **when the context was full the shift frees room**: afterwards at least one more input fits -/
theorem shift_ok_shape (c : Cache) (i keep : Nat) (c' : Cache) (hi : i < c.slots.length)
    (h : shiftCacheSlot c i keep = .ok c') :
    Frame i c c' ∧ (getSlot c'.slots i).inputs.length ≤ (getSlot c.slots i).inputs.length ∧
      (c.numCtx ≤ (getSlot c.slots i).inputs.length → (getSlot c'.slots i).inputs.length + 1 ≤ c.numCtx) := by
  unfold shiftCacheSlot at h
  by_cases hk : keep ≥ c.numCtx
  · simp [hk] at h
  · simp only [hk, if_false] at h
    generalize hd : shiftDiscard c.numCtx (getSlot c.slots i).inputs.length keep = d at h
    by_cases hd0 : d = 0
    · simp only [hd0, if_true, ShiftRes.ok.injEq] at h
      subst h
      refine ⟨Frame.refl _ _, Nat.le_refl _, fun hfull => ?_⟩
      have := (shiftDiscard_full c.numCtx _ keep (by omega) hfull).1
      omega
    · simp only [hd0, if_false] at h
      split at h
      · cases h
      · simp only [ShiftRes.ok.injEq] at h
        subst h
        refine ⟨frame_setSlot c i _ _ hi rfl, ?_, fun hfull => ?_⟩
        · simp only [getSlot_setSlot_same _ _ _ hi, List.length_append, List.length_take, List.length_drop]
          omega
        · have := shiftDiscard_full c.numCtx _ keep (by omega) hfull
          rw [hd] at this
          simp only [getSlot_setSlot_same _ _ _ hi, List.length_append, List.length_take, List.length_drop]
          omega

/-- shape of ShiftCacheSlot's failure path: the record is emptied, everything else of the slots is kept -/
theorem shift_re_shape (c : Cache) (i keep : Nat) (c' : Cache) (ins : List Tok) (hi : i < c.slots.length)
    (h : shiftCacheSlot c i keep = .reprocess c' ins) :
    Frame i c c' ∧ (getSlot c'.slots i).inputs = [] := by
  unfold shiftCacheSlot at h
  by_cases hk : keep ≥ c.numCtx
  · simp [hk] at h
  · simp only [hk, if_false] at h
    split at h
    · cases h
    · split at h
      · simp only [ShiftRes.reprocess.injEq] at h
        obtain ⟨rfl, _⟩ := h
        exact ⟨frame_setSlot c i _ _ hi rfl, by simp only [getSlot_setSlot_same _ _ _ hi]⟩
      · cases h

/-! ## NewSequence (reviewer item E4): prompts longer than the context -/

/-- **NewSequence truncates to the context.**  The inputs never exceed the context, `numKeep` is below it,
    the first `numKeep` inputs are the prompt's first `numKeep`, the rest is a suffix of the prompt, and a
    prompt that fits is passed through unchanged. -/
theorem newSequence_spec (numCtx : Nat) (prompt : List Tok) (keep : Int) (ins : List Tok) (k : Nat)
    (h : newSequence numCtx prompt keep = .ok (ins, k)) :
    ins ≠ [] ∧ ins.length ≤ max numCtx prompt.length ∧ (0 < numCtx → ins.length ≤ numCtx ∧ k < numCtx) ∧
      ins.take k = prompt.take k ∧ (∃ d, ins.drop k = prompt.drop d) ∧
      (prompt.length ≤ numCtx → ins = prompt) := by
  unfold newSequence at h
  by_cases hp : prompt.isEmpty
  · simp [hp] at h
  · simp only [hp, Bool.false_eq_true, if_false] at h
    have hpl : 0 < prompt.length := by
      cases prompt with
      | nil => simp at hp
      | cons a as => simp
    generalize hk1 : (if keep < 0 then (prompt.length : Int) else keep) = k1 at h
    generalize hk2 : min k1 ((numCtx : Int) - 1) = k2 at h
    have hk2le : k2 ≤ (numCtx : Int) - 1 := by rw [← hk2]; omega
    by_cases hlong : prompt.length > numCtx
    · simp only [hlong, if_true] at h
      split at h
      · cases h
      · next hge =>
        simp only [Except.ok.injEq, Prod.mk.injEq] at h
        obtain ⟨rfl, rfl⟩ := h
        have hlt : k2 + ((prompt.length : Int) - numCtx) < prompt.length := by omega
        refine ⟨?_, ?_, ?_, ?_, ?_, fun hh => by omega⟩
        · intro hnil
          have : (List.take k2.toNat prompt ++ List.drop (k2 + ((prompt.length : Int) - numCtx)).toNat prompt).length = 0 := by
            rw [hnil]; rfl
          simp only [List.length_append, List.length_take, List.length_drop] at this
          omega
        · simp only [List.length_append, List.length_take, List.length_drop]; omega
        · intro hc
          simp only [List.length_append, List.length_take, List.length_drop]; omega
        · have hl : (List.take k2.toNat prompt).length = k2.toNat := by
            simp only [List.length_take]; omega
          rw [List.take_append_of_le_length (by omega)]
          simp [List.take_take]
        · refine ⟨(k2 + ((prompt.length : Int) - numCtx)).toNat, ?_⟩
          have hl : (List.take k2.toNat prompt).length = k2.toNat := by
            simp only [List.length_take]; omega
          rw [List.drop_append_of_le_length (by omega)]
          have : List.drop k2.toNat (List.take k2.toNat prompt) = [] := by
            apply List.drop_eq_nil_of_le; omega
          simp [this]
    · simp only [hlong, if_false, Except.ok.injEq, Prod.mk.injEq] at h
      obtain ⟨rfl, rfl⟩ := h
      refine ⟨?_, by omega, fun hc => ⟨by omega, by omega⟩, rfl, ⟨k2.toNat, rfl⟩, fun _ => rfl⟩
      intro hnil; rw [hnil] at hpl; simp at hpl

/-! ## batch assembly (`innerLoop`, `phase1`) -/

/-- the batch assembled so far, seen per slot: for slot `j` it holds the inputs `pend j` at positions
    record length, record length + 1, … ; the context is never exceeded -/
def BV (c : Cache) (batch : List BTok) (pend : Nat → List Tok) : Prop :=
  (∀ j, j < c.slots.length →
      view (batch.map BTok.cell) j = canonFrom (getSlot c.slots j).inputs.length (pend j) ∧
      (getSlot c.slots j).inputs.length + (pend j).length ≤ c.numCtx) ∧
  ∀ t ∈ batch, t.pos < c.numCtx

def upd (f : Nat → List Tok) (s : Nat) (v : List Tok) : Nat → List Tok := fun j => if j = s then v else f j

/-- fixed facts of a runner on a plain causal cache whose failed-shift reset clears the sequence -/
structure Cfg (c : Cache) : Prop where
  win : c.window = none
  fix : c.resetEnd = maxI32
  ctx : (c.numCtx : Int) < maxI32

theorem Cfg.frame {s : Nat} {c c' : Cache} (h : Cfg c) (f : Frame s c c') : Cfg c' :=
  ⟨f.window.trans h.win, f.resetEnd.trans h.fix, by rw [f.numCtx]; exact h.ctx⟩

/-- invariant of the inner loop for the sequence owning slot `s` -/
structure IL (s : Nat) (pend0 : Nat → List Tok) (c0 : Cache) (st : P1) : Prop where
  coh : Coherent st.cache
  fr : Frame s c0 st.cache
  slot : st.seq.slot = s
  bv : BV st.cache st.batch (upd pend0 s st.seq.pending)

theorem view_map_append (a b : List BTok) (j : Nat) :
    view ((a ++ b).map BTok.cell) j = view (a.map BTok.cell) j ++ view (b.map BTok.cell) j := by
  rw [List.map_append, view_append]

theorem canonFrom_snoc (k : Nat) (l : List Tok) (t : Tok) :
    canonFrom k (l ++ [t]) = canonFrom k l ++ [(((k + l.length : Nat) : Int), t, ((k + l.length : Nat) : Int))] := by
  rw [canonFrom_append]; rfl

/-- adding one input of the sequence owning slot `s` to the batch -/
theorem IL_add (s : Nat) (pend0 : Nat → List Tok) (c0 : Cache) (st : P1) (inp : Tok) (i : Nat)
    (h : IL s pend0 c0 st) (hs : s < c0.slots.length)
    (hroom : (getSlot st.cache.slots s).inputs.length + st.seq.pending.length + 1 ≤ st.cache.numCtx) :
    IL s pend0 c0 (addInput st st.cache st.seq inp i) := by
  obtain ⟨coh, fr, slot, bv⟩ := h
  have hs' : s < st.cache.slots.length := by rw [fr.len]; exact hs
  have hid : (getSlot st.cache.slots s).id = s := by
    rw [getSlot_eq _ _ hs']; exact (coh.2 s hs').1
  refine ⟨coh, fr, slot, ?_, ?_⟩
  · intro j hj
    have hj' : j < st.cache.slots.length := hj
    obtain ⟨hv, hl⟩ := bv.1 j hj'
    simp only [addInput, slot, hid]
    rw [view_map_append]
    by_cases hjs : j = s
    · subst hjs
      simp only [upd, if_true] at hv hl ⊢
      rw [hv, canonFrom_snoc]
      refine ⟨?_, by simp only [List.length_append, List.length_singleton]; omega⟩
      congr 1
      simp [view_cons, BTok.cell, Cell.has, Cell.key]
    · simp only [upd, hjs, if_false] at hv hl ⊢
      refine ⟨?_, hl⟩
      rw [hv]
      have : view ([(⟨inp, (getSlot st.cache.slots s).inputs.length + st.seq.pending.length, s⟩ : BTok)].map BTok.cell) j = [] := by
        simp [view_cons, BTok.cell, Cell.has, hjs]
      rw [this, List.append_nil]
  · intro t ht
    simp only [addInput, slot, List.mem_append, List.mem_singleton] at ht ⊢
    rcases ht with ht | rfl
    · exact bv.2 t ht
    · simp only; omega

/-- **The batch-assembly loop of processBatch keeps the cache coherent** — including the context shift it
    triggers (success path and failure path with its `continue`) — touches only the slot of its own
    sequence, and assigns positions record length + pending length below the context size. -/
theorem innerLoop_IL (bs seqIdx s : Nat) (pend0 : Nat → List Tok) (c0 : Cache) (hcfg : Cfg c0)
    (hs : s < c0.slots.length) (hu : (getSlot c0.slots s).inUse = true) :
    ∀ (l : List Tok) (i : Nat) (st st' : P1), IL s pend0 c0 st → innerLoop bs seqIdx l i st = .ok st' →
      IL s pend0 c0 st' := by
  intro l
  induction l with
  | nil =>
    intro i st st' h hr
    simp only [innerLoop, pure, Except.pure, Except.ok.injEq] at hr
    subst hr; exact h
  | cons inp rest ih =>
    intro i st st' h hr
    unfold innerLoop at hr
    by_cases hfull : st.batch.length + 1 > bs
    · simp only [hfull, if_true, pure, Except.pure, Except.ok.injEq] at hr
      subst hr
      split
      · exact ⟨h.coh, h.fr, h.slot, h.bv⟩
      · exact h
    · simp only [hfull, if_false] at hr
      have hs' : s < st.cache.slots.length := by rw [h.fr.len]; exact hs
      have hcfg' : Cfg st.cache := hcfg.frame h.fr
      have hu' : (getSlot st.cache.slots s).inUse = true := by rw [h.fr.inUse]; exact hu
      by_cases hover : (getSlot st.cache.slots st.seq.slot).inputs.length + st.seq.pending.length + 1 > st.cache.numCtx
      · simp only [hover, if_true] at hr
        by_cases hpe : st.seq.pending.isEmpty
        · simp only [hpe, Bool.not_true, Bool.false_eq_true, if_false] at hr
          have hpnil : st.seq.pending = [] := by simpa using hpe
          rw [h.slot] at hr hover
          have hlen := (h.bv.1 s hs').2
          simp only [upd, if_true, hpnil, List.length_nil, Nat.add_zero] at hlen
          rw [hpnil] at hover
          simp only [List.length_nil, Nat.add_zero] at hover
          have hlenI : ((getSlot st.cache.slots s).inputs.length : Int) < maxI32 := by
            have := hcfg'.ctx; omega
          cases hsh : shiftCacheSlot st.cache s st.seq.numKeep with
          | errKeep => simp [hsh, throw, throwThe, MonadExceptOf.throw] at hr
          | reprocess c ins =>
            simp only [hsh] at hr
            obtain ⟨hfr, hnil⟩ := shift_re_shape st.cache s _ c ins hs' hsh
            have hcoh := coherent_shift st.cache h.coh s _ hs' hu' hlenI c (Or.inr ⟨hcfg'.fix, ins, hsh⟩)
            apply ih (i + 1) _ st' _ hr
            refine ⟨hcoh, h.fr.trans hfr, rfl, ?_, ?_⟩
            · intro j hj
              simp only at hj
              have hj' : j < st.cache.slots.length := by rw [← hfr.len]; exact hj
              obtain ⟨hv, hl⟩ := h.bv.1 j hj'
              simp only [hfr.numCtx]
              by_cases hjs : j = s
              · subst hjs
                simp only [upd, if_true, hpnil, canonFrom, List.length_nil] at hv ⊢
                exact ⟨hv, by rw [hnil]; simp⟩
              · simp only [upd, hjs, if_false] at hv hl ⊢
                rw [hfr.other j hjs]; exact ⟨hv, hl⟩
            · intro t ht; simp only [hfr.numCtx]; exact h.bv.2 t ht
          | ok c =>
            simp only [hsh] at hr
            obtain ⟨hfr, _, hroom⟩ := shift_ok_shape st.cache s _ c hs' hsh
            have hcoh := coherent_shift st.cache h.coh s _ hs' hu' hlenI c (Or.inl hsh)
            apply ih (i + 1) _ st' _ hr
            have hmid : IL s pend0 c0 { st with cache := c } := by
              refine ⟨hcoh, h.fr.trans hfr, h.slot, ?_, ?_⟩
              · intro j hj
                simp only at hj
                have hj' : j < st.cache.slots.length := by rw [← hfr.len]; exact hj
                obtain ⟨hv, hl⟩ := h.bv.1 j hj'
                simp only [hfr.numCtx]
                by_cases hjs : j = s
                · subst hjs
                  simp only [upd, if_true, hpnil, canonFrom, List.length_nil] at hv ⊢
                  exact ⟨hv, by have := hroom (by omega); omega⟩
                · simp only [upd, hjs, if_false] at hv hl ⊢
                  rw [hfr.other j hjs]; exact ⟨hv, hl⟩
              · intro t ht; simp only [hfr.numCtx]; exact h.bv.2 t ht
            have := IL_add s pend0 c0 { st with cache := c } inp i hmid hs (by
              simp only [hpnil, List.length_nil, Nat.add_zero, hfr.numCtx]
              exact hroom (by omega))
            exact this
        · simp only [hpe, Bool.not_false, if_true, pure, Except.pure, Except.ok.injEq] at hr
          subst hr; exact h
      · simp only [hover, if_false] at hr
        apply ih (i + 1) _ st' _ hr
        rw [h.slot] at hover
        exact IL_add s pend0 c0 st inp i h hs (by omega)

/-! ## ownership of slots by live sequences (history-level exclusivity) -/

/-- entry `i` of `s.seqs` is the live sequence `sq` -/
def Live (sv : Server) (i : Nat) (sq : Seq) : Prop := sv.seqs[i]? = some (some sq)

/-- **Every live sequence owns its slot, exclusively**: the slot exists, is marked in use, and no two
    live sequences have the same slot. -/
structure Owned (sv : Server) : Prop where
  valid : ∀ i sq, Live sv i sq → sq.slot < sv.cache.slots.length ∧ (getSlot sv.cache.slots sq.slot).inUse = true
  distinct : ∀ i i' sq sq', Live sv i sq → Live sv i' sq' → sq.slot = sq'.slot → i = i'

theorem getD_live (l : List (Option Seq)) (i : Nat) (sq : Seq) (h : l.getD i none = some sq) :
    l[i]? = some (some sq) := by
  rw [List.getD_eq_getElem?_getD] at h
  cases hh : l[i]? with
  | none => simp [hh] at h
  | some x => simp only [hh, Option.getD_some] at h; rw [h]

theorem live_lt (l : List (Option Seq)) (i : Nat) (sq : Seq) (h : l[i]? = some (some sq)) : i < l.length := by
  rcases Nat.lt_or_ge i l.length with h1 | h1
  · exact h1
  · rw [List.getElem?_eq_none h1] at h; cases h

theorem live_set (l : List (Option Seq)) (i : Nat) (v : Option Seq) (hi : i < l.length) (i' : Nat) (sq' : Seq) :
    (setSeq l i v)[i']? = some (some sq') ↔ (i' = i ∧ v = some sq') ∨ (i' ≠ i ∧ l[i']? = some (some sq')) := by
  unfold setSeq
  by_cases h : i' = i
  · subst h
    rw [List.getElem?_set_self hi]
    simp
  · rw [List.getElem?_set_ne (fun e => h e.symm)]
    simp [h]

theorem coherent_release (c : Cache) (hc : Coherent c) (i : Nat) (hi : i < c.slots.length) :
    Coherent { c with slots := setSlot c.slots i fun s => { s with inUse := false } } := by
  obtain ⟨hid, hok⟩ := hc.2 i hi
  exact coherent_update c hc i hi (fun s => { s with inUse := false }) c.cells hid hc.1
    (fun t _ => List.Perm.refl _) ⟨hok.1, fun h => by cases h⟩

/-- invariant of the outer loop of batch assembly -/
structure PInv (sv : Server) (batch : List BTok) (pend : Nat → List Tok) : Prop where
  coh : Coherent sv.cache
  cfg : Cfg sv.cache
  own : Owned sv
  bv : BV sv.cache batch pend
  lp : ∀ i sq, Live sv i sq → sq.pending = pend sq.slot
  np : ∀ j, j < sv.cache.slots.length → (∀ i sq, Live sv i sq → sq.slot ≠ j) → pend j = []

theorem live_inj {sv : Server} {i : Nat} {a b : Seq} (h1 : Live sv i a) (h2 : Live sv i b) : a = b := by
  unfold Live at h1 h2; rw [h1] at h2; simpa using h2

/-- the server after `removeSequence` of entry `i` owning slot `s` -/
def releaseSv (sv : Server) (i s : Nat) : Server :=
  { sv with cache := { sv.cache with slots := setSlot sv.cache.slots s fun s => { s with inUse := false } },
            seqs := setSeq sv.seqs i none }

/-- the server after the inner loop of entry `i` -/
def innerSv (sv : Server) (i : Nat) (p : P1) (ins : List Tok) : Server :=
  { sv with cache := p.cache, seqs := setSeq sv.seqs i (some { p.seq with inputs := ins }) }

/-- removeSequence inside batch assembly (numPredict reached): the slot is released by its owner -/
theorem PInv_release (sv : Server) (batch : List BTok) (pend : Nat → List Tok) (i : Nat) (sq : Seq)
    (h : PInv sv batch pend) (hl : Live sv i sq) (hpe : sq.pending = []) :
    PInv (releaseSv sv i sq.slot) batch pend := by
  have hi : i < sv.seqs.length := live_lt _ _ _ hl
  obtain ⟨hsv, hsu⟩ := h.own.valid i sq hl
  have hlive : ∀ i' sq', Live (releaseSv sv i sq.slot) i' sq' → i' ≠ i ∧ Live sv i' sq' := by
    intro i' sq' h'
    unfold Live releaseSv at h'
    simp only at h'
    rcases (live_set _ _ _ hi _ _).mp h' with ⟨_, h2⟩ | h2
    · cases h2
    · exact h2
  have hback : ∀ i' sq', i' ≠ i → Live sv i' sq' → Live (releaseSv sv i sq.slot) i' sq' := by
    intro i' sq' hne h'
    unfold Live releaseSv; simp only
    exact (live_set _ _ _ hi _ _).mpr (Or.inr ⟨hne, h'⟩)
  refine ⟨coherent_release _ h.coh _ hsv, ⟨h.cfg.win, h.cfg.fix, h.cfg.ctx⟩, ⟨?_, ?_⟩, ⟨?_, h.bv.2⟩, ?_, ?_⟩ <;> simp only [releaseSv]
  · intro i' sq' h'
    obtain ⟨hne, hold⟩ := hlive i' sq' h'
    obtain ⟨h1, h2⟩ := h.own.valid i' sq' hold
    have hs : sq'.slot ≠ sq.slot := fun e => hne (h.own.distinct i' i sq' sq hold hl e)
    simp only [setSlot_length]
    exact ⟨h1, by rw [getSlot_setSlot_other _ _ _ _ hs]; exact h2⟩
  · intro i1 i2 s1 s2 h1 h2 he
    exact h.own.distinct i1 i2 s1 s2 (hlive _ _ h1).2 (hlive _ _ h2).2 he
  · intro j hj
    simp only [setSlot_length] at hj
    obtain ⟨hv, hl'⟩ := h.bv.1 j hj
    simp only [getSlot_setSlot _ _ _ _ hsv]
    by_cases hjs : j = sq.slot
    · simp only [hjs, if_true] at hv hl' ⊢; exact ⟨hv, hl'⟩
    · simp only [hjs, if_false]; exact ⟨hv, hl'⟩
  · intro i' sq' h'
    exact h.lp i' sq' (hlive _ _ h').2
  · intro j hj hno
    simp only [setSlot_length] at hj
    by_cases hjs : j = sq.slot
    · rw [hjs, ← h.lp i sq hl]; exact hpe
    · apply h.np j hj
      intro i'' sq'' hl''
      by_cases hii : i'' = i
      · subst hii
        have := live_inj hl hl''
        subst this
        exact fun e => hjs e.symm
      · exact hno i'' sq'' (hback _ _ hii hl'')

/-- the state after the inner loop of one sequence -/
theorem PInv_inner (sv : Server) (batch : List BTok) (pend : Nat → List Tok) (i : Nat) (sq : Seq) (p : P1)
    (ins : List Tok) (h : PInv sv batch pend) (hl : Live sv i sq) (hp : IL sq.slot pend sv.cache p) :
    PInv (innerSv sv i p ins) p.batch
      (upd pend sq.slot p.seq.pending) := by
  have hi : i < sv.seqs.length := live_lt _ _ _ hl
  obtain ⟨hsv, hsu⟩ := h.own.valid i sq hl
  have hlive : ∀ i' sq', Live (innerSv sv i p ins) i' sq' →
      (i' = i ∧ sq' = { p.seq with inputs := ins }) ∨ (i' ≠ i ∧ Live sv i' sq') := by
    intro i' sq' h'
    unfold Live innerSv at h'
    simp only at h'
    rcases (live_set _ _ _ hi _ _).mp h' with ⟨h1, h2⟩ | h2
    · exact Or.inl ⟨h1, by simpa using h2.symm⟩
    · exact Or.inr h2
  have hback : ∀ i' sq', i' ≠ i → Live sv i' sq' →
      Live (innerSv sv i p ins) i' sq' := by
    intro i' sq' hne h'
    unfold Live innerSv; simp only
    exact (live_set _ _ _ hi _ _).mpr (Or.inr ⟨hne, h'⟩)
  have hself : Live (innerSv sv i p ins) i { p.seq with inputs := ins } := by
    unfold Live innerSv; simp only
    exact (live_set _ _ _ hi _ _).mpr (Or.inl ⟨rfl, rfl⟩)
  refine ⟨hp.coh, h.cfg.frame hp.fr, ⟨?_, ?_⟩, hp.bv, ?_, ?_⟩ <;> simp only [innerSv]
  · intro i' sq' h'
    rcases hlive i' sq' h' with ⟨_, rfl⟩ | ⟨hne, hold⟩
    · simp only [hp.slot, hp.fr.len, hp.fr.inUse]; exact ⟨hsv, hsu⟩
    · obtain ⟨h1, h2⟩ := h.own.valid i' sq' hold
      have hs : sq'.slot ≠ sq.slot := fun e => hne (h.own.distinct i' i sq' sq hold hl e)
      rw [hp.fr.len, hp.fr.other _ hs]; exact ⟨h1, h2⟩
  · intro i1 i2 s1 s2 h1 h2 he
    rcases hlive i1 s1 h1 with ⟨e1, rfl⟩ | ⟨n1, o1⟩ <;> rcases hlive i2 s2 h2 with ⟨e2, rfl⟩ | ⟨n2, o2⟩
    · rw [e1, e2]
    · simp only [hp.slot] at he
      exact absurd (h.own.distinct i i2 sq s2 hl o2 he).symm n2
    · simp only [hp.slot] at he
      exact absurd (h.own.distinct i1 i s1 sq o1 hl he) n1
    · exact h.own.distinct i1 i2 s1 s2 o1 o2 he
  · intro i' sq' h'
    rcases hlive i' sq' h' with ⟨_, rfl⟩ | ⟨hne, hold⟩
    · simp only [hp.slot, upd, if_true]
    · have hs : sq'.slot ≠ sq.slot := fun e => hne (h.own.distinct i' i sq' sq hold hl e)
      simp only [upd, hs, if_false]; exact h.lp i' sq' hold
  · intro j hj hno
    by_cases hjs : j = sq.slot
    · exact absurd (by simp only [hp.slot]; exact hjs.symm) (hno i _ hself)
    · simp only [upd, hjs, if_false]
      rw [hp.fr.len] at hj
      apply h.np j hj
      intro i'' sq'' hl''
      by_cases hii : i'' = i
      · subst hii
        have := live_inj hl hl''
        subst this
        exact fun e => hjs e.symm
      · exact hno i'' sq'' (hback _ _ hii hl'')

theorem removeSequence_batch (sv : Server) (o : StepObs) (i : Nat) (sq : Seq) (r : Nat) :
    (removeSequence sv o i sq r).2.batch = o.batch ∧
    (removeSequence sv o i sq r).1 = releaseSv sv i sq.slot := by
  unfold removeSequence
  constructor
  · simp only; split <;> rfl
  · rfl

theorem upd_self (f : Nat → List Tok) (s : Nat) : upd f s (f s) = f := by
  funext j; unfold upd; split
  · next h => rw [h]
  · rfl

/-- sequences that already have inputs in the batch are not visited again by the remaining `k` iterations -/
def Fut (sv : Server) (seqIdx k : Nat) : Prop :=
  ∀ i sq, Live sv i sq → sq.pending ≠ [] → ∀ m, 1 ≤ m → m ≤ k → (seqIdx + m) % sv.seqs.length ≠ i

theorem mod_add_ne (n idx m : Nat) (hidx : idx < n) (h1 : 1 ≤ m) (hm : m < n) : (idx + m) % n ≠ idx := by
  intro h
  have h2 : (idx + m) % n = idx % n := by rw [h, Nat.mod_eq_of_lt hidx]
  have h3 := Nat.sub_mod_eq_zero_of_mod_eq h2
  rw [Nat.add_sub_cancel_left, Nat.mod_eq_of_lt hm] at h3
  omega

/-- **Batch assembly (the outer loop of processBatch) keeps the cache coherent and the slots owned**, for any
    number of sequences batched together. -/
theorem phase1_PInv : ∀ (k : Nat) (st st' : Ph1), phase1 k st = .ok st' → k ≤ st.sv.seqs.length →
    Fut st.sv st.seqIdx k → (∃ pend, PInv st.sv st.obs.batch pend) →
    (∃ pend, PInv st'.sv st'.obs.batch pend) ∧ st'.sv.seqs.length = st.sv.seqs.length := by
  intro k
  induction k with
  | zero =>
    intro st st' hr _ _ h
    simp only [phase1, pure, Except.pure, Except.ok.injEq] at hr
    subst hr; exact ⟨h, rfl⟩
  | succ k ih =>
    intro st st' hr hk hfut h
    obtain ⟨pend, h⟩ := h
    unfold phase1 at hr
    simp only at hr
    generalize hidx : (st.seqIdx + 1) % st.sv.seqs.length = idx at hr
    have hn : 0 < st.sv.seqs.length := by omega
    have hidxlt : idx < st.sv.seqs.length := by rw [← hidx]; exact Nat.mod_lt _ hn
    -- the remaining iterations seen from the new index
    have hshift : ∀ m, (idx + m) % st.sv.seqs.length = (st.seqIdx + (m + 1)) % st.sv.seqs.length := by
      intro m
      rw [← hidx, Nat.mod_add_mod]
      congr 1; omega
    cases hq : st.sv.seqs.getD idx none with
    | none =>
      simp only [hq] at hr
      have := ih _ st' hr (by simp only; omega) (by
        intro i sq hl hp m h1 h2
        simp only at hl ⊢
        rw [hshift]; exact hfut i sq hl hp (m + 1) (by omega) (by omega)) ⟨pend, h⟩
      exact this
    | some sq =>
      simp only [hq] at hr
      have hl : Live st.sv idx sq := getD_live _ _ _ hq
      have hpe : sq.pending = [] := by
        cases hp : sq.pending with
        | nil => rfl
        | cons a as =>
          exact absurd hidx (hfut idx sq hl (by rw [hp]; simp) 1 (by omega) (by omega))
      split at hr
      · obtain ⟨hb, hsv⟩ := removeSequence_batch st.sv st.obs idx sq 1
        obtain ⟨hres, hlen⟩ := ih _ st' hr (by simp only [hsv, releaseSv, setSeq, List.length_set]; omega) (by
          intro i sq' hl' hp m h1 h2
          simp only [hsv] at hl' ⊢
          have hi : idx < st.sv.seqs.length := hidxlt
          unfold Live releaseSv at hl'
          simp only at hl'
          rcases (live_set _ _ _ hi _ _).mp hl' with ⟨_, h2'⟩ | ⟨_, hold⟩
          · cases h2'
          · simp only [releaseSv, setSeq, List.length_set]
            rw [hshift]; exact hfut i sq' hold hp (m + 1) (by omega) (by omega)) ⟨pend, by
          simp only [hb, hsv]
          exact PInv_release st.sv st.obs.batch pend idx sq h hl hpe⟩
        refine ⟨hres, ?_⟩
        rw [hlen]; simp only [hsv, releaseSv, setSeq, List.length_set]
      · cases hin : innerLoop st.sv.batchSize idx sq.inputs 0
            { cache := st.sv.cache, seq := sq, batch := st.obs.batch, outs := st.outs, resume := st.resume } with
        | error e => simp [hin, bind, Except.bind] at hr
        | ok p =>
          simp only [hin, bind, Except.bind] at hr
          obtain ⟨hsv, hsu⟩ := h.own.valid idx sq hl
          have hil := innerLoop_IL st.sv.batchSize idx sq.slot pend st.sv.cache h.cfg hsv hsu sq.inputs 0 _ p
            ⟨h.coh, Frame.refl _ _, rfl, by simp only [h.lp idx sq hl, upd_self]; exact h.bv⟩ hin
          obtain ⟨hres, hlen⟩ := ih _ st' hr (by simp only [setSeq, List.length_set]; omega) (by
            intro i sq' hl' hp m h1 h2
            simp only at hl' ⊢
            unfold Live at hl'
            simp only at hl'
            simp only [setSeq, List.length_set]
            rcases (live_set _ _ _ hidxlt _ _).mp hl' with ⟨hii, _⟩ | ⟨_, hold⟩
            · rw [hii]; exact mod_add_ne _ _ _ hidxlt h1 (by omega)
            · rw [hshift]; exact hfut i sq' hold hp (m + 1) (by omega) (by omega))
            ⟨_, PInv_inner st.sv st.obs.batch pend idx sq p _ h hl hil⟩
          refine ⟨hres, ?_⟩
          rw [hlen]; simp only [setSeq, List.length_set]

end OllamaVerif.C07
