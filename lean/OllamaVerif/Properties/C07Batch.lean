/-
  C07 — the executable `processBatch` / `runEvent` of Model/Runner.lean (the functions the oracle runs and
  L1 compares with the real code) keep the cache coherent and the slots exclusively owned.

  This closes the gap between the hand-written operation alphabet `Step` of Properties/C07.lean and the
  executable model: the theorems here are about `innerLoop`, `phase1`, `phase3`, `processBatch`,
  `runEvent`, `runEvents` themselves (mixed batches of several sequences included).
-/
import OllamaVerif.Properties.C07

namespace OllamaVerif.C07
open OllamaVerif OllamaVerif.Runner
set_option linter.unusedSimpArgs false
set_option linter.unusedVariables false

/-! ## small facts about slots -/

theorem setSlot_length (l : List Slot) (i : Nat) (f : Slot → Slot) : (setSlot l i f).length = l.length := by
  simp [setSlot]

theorem getSlot_setSlot (l : List Slot) (i j : Nat) (f : Slot → Slot) (hi : i < l.length) :
    getSlot (setSlot l i f) j = if j = i then f (getSlot l i) else getSlot l j := by
  by_cases h : j = i
  · subst h; simp only [if_true]; exact getSlot_setSlot_same l j f hi
  · simp only [h, if_false]; exact getSlot_setSlot_other l i j f h

/-- what an operation on slot `s` leaves alone -/
structure Frame (s : Nat) (c c' : Cache) : Prop where
  numCtx : c'.numCtx = c.numCtx
  window : c'.window = c.window
  resetEnd : c'.resetEnd = c.resetEnd
  len : c'.slots.length = c.slots.length
  other : ∀ j, j ≠ s → getSlot c'.slots j = getSlot c.slots j
  inUse : (getSlot c'.slots s).inUse = (getSlot c.slots s).inUse

theorem Frame.refl (s : Nat) (c : Cache) : Frame s c c := ⟨rfl, rfl, rfl, rfl, fun _ _ => rfl, rfl⟩

theorem Frame.trans {s : Nat} {a b c : Cache} (h1 : Frame s a b) (h2 : Frame s b c) : Frame s a c :=
  ⟨h2.numCtx.trans h1.numCtx, h2.window.trans h1.window, h2.resetEnd.trans h1.resetEnd, h2.len.trans h1.len,
   fun j hj => (h2.other j hj).trans (h1.other j hj), h2.inUse.trans h1.inUse⟩

theorem frame_setSlot (c : Cache) (i : Nat) (f : Slot → Slot) (cells' : List Cell) (hi : i < c.slots.length)
    (hf : (f (getSlot c.slots i)).inUse = (getSlot c.slots i).inUse) :
    Frame i c { c with cells := cells', slots := setSlot c.slots i f } :=
  ⟨rfl, rfl, rfl, setSlot_length _ _ _, fun j hj => getSlot_setSlot_other _ _ _ _ hj,
   by simp only [getSlot_setSlot_same _ _ _ hi]; exact hf⟩

/-! ## ShiftCacheSlot frees room (reviewer item E4) -/

theorem shiftDiscard_full (numCtx len keep : Nat) (hk : keep < numCtx) (hfull : numCtx ≤ len) :
    0 < shiftDiscard numCtx len keep ∧ keep + shiftDiscard numCtx len keep ≤ len ∧
      len - shiftDiscard numCtx len keep + 1 ≤ numCtx := by
  unfold shiftDiscard
  simp only
  omega

/-- shape of a successful ShiftCacheSlot: only slot `i`'s record and the cells change; the record does not
    grow, and **when the context was full the shift frees room**: afterwards at least one more input fits -/
theorem shift_ok_shape (c : Cache) (i keep : Nat) (c' : Cache) (hi : i < c.slots.length)
    (h : shiftCacheSlot c i keep = .ok c') :
    Frame i c c' ∧ (getSlot c'.slots i).inputs.length ≤ (getSlot c.slots i).inputs.length ∧
      (c.numCtx ≤ (getSlot c.slots i).inputs.length → (getSlot c'.slots i).inputs.length + 1 ≤ c.numCtx) := by
  unfold shiftCacheSlot at h
  by_cases hk : keep ≥ c.numCtx
  · simp [hk] at h
  · simp only [hk, if_false] at h
    generalize hd : shiftDiscard c.numCtx (getSlot c.slots i).inputs.length keep = d at h
    by_cases hd0 : d = 0
    · simp only [hd0, if_true, ShiftRes.ok.injEq] at h
      subst h
      refine ⟨Frame.refl _ _, Nat.le_refl _, fun hfull => ?_⟩
      have := (shiftDiscard_full c.numCtx _ keep (by omega) hfull).1
      omega
    · simp only [hd0, if_false] at h
      split at h
      · cases h
      · simp only [ShiftRes.ok.injEq] at h
        subst h
        refine ⟨frame_setSlot c i _ _ hi rfl, ?_, fun hfull => ?_⟩
        · simp only [getSlot_setSlot_same _ _ _ hi, List.length_append, List.length_take, List.length_drop]
          omega
        · have := shiftDiscard_full c.numCtx _ keep (by omega) hfull
          rw [hd] at this
          simp only [getSlot_setSlot_same _ _ _ hi, List.length_append, List.length_take, List.length_drop]
          omega

/-- shape of ShiftCacheSlot's failure path: the record is emptied, everything else of the slots is kept -/
theorem shift_re_shape (c : Cache) (i keep : Nat) (c' : Cache) (ins : List Tok) (hi : i < c.slots.length)
    (h : shiftCacheSlot c i keep = .reprocess c' ins) :
    Frame i c c' ∧ (getSlot c'.slots i).inputs = [] := by
  unfold shiftCacheSlot at h
  by_cases hk : keep ≥ c.numCtx
  · simp [hk] at h
  · simp only [hk, if_false] at h
    split at h
    · cases h
    · split at h
      · simp only [ShiftRes.reprocess.injEq] at h
        obtain ⟨rfl, _⟩ := h
        exact ⟨frame_setSlot c i _ _ hi rfl, by simp only [getSlot_setSlot_same _ _ _ hi]⟩
      · cases h

/-! ## NewSequence (reviewer item E4): prompts longer than the context -/

/-- **NewSequence truncates to the context.**  The inputs never exceed the context, `numKeep` is below it,
    the first `numKeep` inputs are the prompt's first `numKeep`, the rest is a suffix of the prompt, and a
    prompt that fits is passed through unchanged. -/
theorem newSequence_spec (numCtx : Nat) (prompt : List Tok) (keep : Int) (ins : List Tok) (k : Nat)
    (h : newSequence numCtx prompt keep = .ok (ins, k)) :
    ins ≠ [] ∧ ins.length ≤ max numCtx prompt.length ∧ (0 < numCtx → ins.length ≤ numCtx ∧ k < numCtx) ∧
      ins.take k = prompt.take k ∧ (∃ d, ins.drop k = prompt.drop d) ∧
      (prompt.length ≤ numCtx → ins = prompt) := by
  unfold newSequence at h
  by_cases hp : prompt.isEmpty
  · simp [hp] at h
  · simp only [hp, Bool.false_eq_true, if_false] at h
    have hpl : 0 < prompt.length := by
      cases prompt with
      | nil => simp at hp
      | cons a as => simp
    generalize hk1 : (if keep < 0 then (prompt.length : Int) else keep) = k1 at h
    generalize hk2 : min k1 ((numCtx : Int) - 1) = k2 at h
    have hk2le : k2 ≤ (numCtx : Int) - 1 := by rw [← hk2]; omega
    by_cases hlong : prompt.length > numCtx
    · simp only [hlong, if_true] at h
      split at h
      · cases h
      · next hge =>
        simp only [Except.ok.injEq, Prod.mk.injEq] at h
        obtain ⟨rfl, rfl⟩ := h
        have hlt : k2 + ((prompt.length : Int) - numCtx) < prompt.length := by omega
        refine ⟨?_, ?_, ?_, ?_, ?_, fun hh => by omega⟩
        · intro hnil
          have : (List.take k2.toNat prompt ++ List.drop (k2 + ((prompt.length : Int) - numCtx)).toNat prompt).length = 0 := by
            rw [hnil]; rfl
          simp only [List.length_append, List.length_take, List.length_drop] at this
          omega
        · simp only [List.length_append, List.length_take, List.length_drop]; omega
        · intro hc
          simp only [List.length_append, List.length_take, List.length_drop]; omega
        · have hl : (List.take k2.toNat prompt).length = k2.toNat := by
            simp only [List.length_take]; omega
          rw [List.take_append_of_le_length (by omega)]
          simp [List.take_take]
        · refine ⟨(k2 + ((prompt.length : Int) - numCtx)).toNat, ?_⟩
          have hl : (List.take k2.toNat prompt).length = k2.toNat := by
            simp only [List.length_take]; omega
          rw [List.drop_append_of_le_length (by omega)]
          have : List.drop k2.toNat (List.take k2.toNat prompt) = [] := by
            apply List.drop_eq_nil_of_le; omega
          simp [this]
    · simp only [hlong, if_false, Except.ok.injEq, Prod.mk.injEq] at h
      obtain ⟨rfl, rfl⟩ := h
      refine ⟨?_, by omega, fun hc => ⟨by omega, by omega⟩, rfl, ⟨k2.toNat, rfl⟩, fun _ => rfl⟩
      intro hnil; rw [hnil] at hpl; simp at hpl

/-! ## batch assembly (`innerLoop`, `phase1`) -/

/-- the batch assembled so far, seen per slot: for slot `j` it holds the inputs `pend j` at positions
    record length, record length + 1, … ; the context is never exceeded -/
def BV (c : Cache) (batch : List BTok) (pend : Nat → List Tok) : Prop :=
  (∀ j, j < c.slots.length →
      view (batch.map BTok.cell) j = canonFrom (getSlot c.slots j).inputs.length (pend j) ∧
      (getSlot c.slots j).inputs.length + (pend j).length ≤ c.numCtx) ∧
  ∀ t ∈ batch, t.pos < c.numCtx

def upd (f : Nat → List Tok) (s : Nat) (v : List Tok) : Nat → List Tok := fun j => if j = s then v else f j

/-- fixed facts of a runner on a plain causal cache whose failed-shift reset clears the sequence -/
structure Cfg (c : Cache) : Prop where
  win : c.window = none
  fix : c.resetEnd = maxI32
  ctx : (c.numCtx : Int) < maxI32

theorem Cfg.frame {s : Nat} {c c' : Cache} (h : Cfg c) (f : Frame s c c') : Cfg c' :=
  ⟨f.window.trans h.win, f.resetEnd.trans h.fix, by rw [f.numCtx]; exact h.ctx⟩

/-- invariant of the inner loop for the sequence owning slot `s` -/
structure IL (s : Nat) (pend0 : Nat → List Tok) (c0 : Cache) (st : P1) : Prop where
  coh : Coherent st.cache
  fr : Frame s c0 st.cache
  slot : st.seq.slot = s
  bs : ∀ t ∈ st.batch, t.seq < st.cache.slots.length
  oo : ∀ bi ∈ st.outs, bi < st.batch.length
  bv : BV st.cache st.batch (upd pend0 s st.seq.pending)

theorem view_map_append (a b : List BTok) (j : Nat) :
    view ((a ++ b).map BTok.cell) j = view (a.map BTok.cell) j ++ view (b.map BTok.cell) j := by
  rw [List.map_append, view_append]

theorem canonFrom_snoc (k : Nat) (l : List Tok) (t : Tok) :
    canonFrom k (l ++ [t]) = canonFrom k l ++ [(((k + l.length : Nat) : Int), t, ((k + l.length : Nat) : Int))] := by
  rw [canonFrom_append]; rfl

/-- adding one input of the sequence owning slot `s` to the batch -/
theorem IL_add (s : Nat) (pend0 : Nat → List Tok) (c0 : Cache) (st : P1) (inp : Tok) (i : Nat)
    (h : IL s pend0 c0 st) (hs : s < c0.slots.length)
    (hroom : (getSlot st.cache.slots s).inputs.length + st.seq.pending.length + 1 ≤ st.cache.numCtx) :
    IL s pend0 c0 (addInput st st.cache st.seq inp i) := by
  obtain ⟨coh, fr, slot, bs, oo, bv⟩ := h
  have hs' : s < st.cache.slots.length := by rw [fr.len]; exact hs
  have hid : (getSlot st.cache.slots s).id = s := by
    rw [getSlot_eq _ _ hs']; exact (coh.2 s hs').1
  refine ⟨coh, fr, slot, ?_, ?_, ?_, ?_⟩
  · intro t ht
    simp only [addInput, slot, hid, List.mem_append, List.mem_singleton] at ht ⊢
    rcases ht with ht | rfl
    · exact bs t ht
    · exact hs'
  · intro bi hbi
    simp only [addInput, List.length_append, List.length_singleton] at hbi ⊢
    split at hbi
    · rcases List.mem_append.mp hbi with h1 | h1
      · have := oo bi h1; omega
      · simp only [List.mem_singleton] at h1; omega
    · have := oo bi hbi; omega
  · intro j hj
    have hj' : j < st.cache.slots.length := hj
    obtain ⟨hv, hl⟩ := bv.1 j hj'
    simp only [addInput, slot, hid]
    rw [view_map_append]
    by_cases hjs : j = s
    · subst hjs
      simp only [upd, if_true] at hv hl ⊢
      rw [hv, canonFrom_snoc]
      refine ⟨?_, by simp only [List.length_append, List.length_singleton]; omega⟩
      congr 1
      simp [view_cons, BTok.cell, Cell.has, Cell.key]
    · simp only [upd, hjs, if_false] at hv hl ⊢
      refine ⟨?_, hl⟩
      rw [hv]
      have : view ([(⟨inp, (getSlot st.cache.slots s).inputs.length + st.seq.pending.length, s⟩ : BTok)].map BTok.cell) j = [] := by
        simp [view_cons, BTok.cell, Cell.has, hjs]
      rw [this, List.append_nil]
  · intro t ht
    simp only [addInput, slot, List.mem_append, List.mem_singleton] at ht ⊢
    rcases ht with ht | rfl
    · exact bv.2 t ht
    · simp only; omega

/-- **The batch-assembly loop of processBatch keeps the cache coherent** — including the context shift it
    triggers (success path and failure path with its `continue`) — touches only the slot of its own
    sequence, and assigns positions record length + pending length below the context size. -/
theorem innerLoop_IL (bs seqIdx s : Nat) (pend0 : Nat → List Tok) (c0 : Cache) (hcfg : Cfg c0)
    (hs : s < c0.slots.length) (hu : (getSlot c0.slots s).inUse = true) :
    ∀ (l : List Tok) (i : Nat) (st st' : P1), IL s pend0 c0 st → innerLoop bs seqIdx l i st = .ok st' →
      IL s pend0 c0 st' := by
  intro l
  induction l with
  | nil =>
    intro i st st' h hr
    simp only [innerLoop, pure, Except.pure, Except.ok.injEq] at hr
    subst hr; exact h
  | cons inp rest ih =>
    intro i st st' h hr
    unfold innerLoop at hr
    by_cases hfull : st.batch.length + 1 > bs
    · simp only [hfull, if_true, pure, Except.pure, Except.ok.injEq] at hr
      subst hr
      split
      · exact ⟨h.coh, h.fr, h.slot, h.bs, h.oo, h.bv⟩
      · exact h
    · simp only [hfull, if_false] at hr
      have hs' : s < st.cache.slots.length := by rw [h.fr.len]; exact hs
      have hcfg' : Cfg st.cache := hcfg.frame h.fr
      have hu' : (getSlot st.cache.slots s).inUse = true := by rw [h.fr.inUse]; exact hu
      by_cases hover : (getSlot st.cache.slots st.seq.slot).inputs.length + st.seq.pending.length + 1 > st.cache.numCtx
      · simp only [hover, if_true] at hr
        by_cases hpe : st.seq.pending.isEmpty
        · simp only [hpe, Bool.not_true, Bool.false_eq_true, if_false] at hr
          have hpnil : st.seq.pending = [] := by simpa using hpe
          rw [h.slot] at hr hover
          have hlen := (h.bv.1 s hs').2
          simp only [upd, if_true, hpnil, List.length_nil, Nat.add_zero] at hlen
          rw [hpnil] at hover
          simp only [List.length_nil, Nat.add_zero] at hover
          have hlenI : ((getSlot st.cache.slots s).inputs.length : Int) < maxI32 := by
            have := hcfg'.ctx; omega
          cases hsh : shiftCacheSlot st.cache s st.seq.numKeep with
          | errKeep => simp [hsh, throw, throwThe, MonadExceptOf.throw] at hr
          | reprocess c ins =>
            simp only [hsh] at hr
            obtain ⟨hfr, hnil⟩ := shift_re_shape st.cache s _ c ins hs' hsh
            have hcoh := coherent_shift st.cache h.coh s _ hs' hu' hlenI c (Or.inr ⟨hcfg'.fix, ins, hsh⟩)
            apply ih (i + 1) _ st' _ hr
            refine ⟨hcoh, h.fr.trans hfr, rfl, fun t ht => by simp only [hfr.len]; exact h.bs t ht, h.oo, ?_, ?_⟩
            · intro j hj
              simp only at hj
              have hj' : j < st.cache.slots.length := by rw [← hfr.len]; exact hj
              obtain ⟨hv, hl⟩ := h.bv.1 j hj'
              simp only [hfr.numCtx]
              by_cases hjs : j = s
              · subst hjs
                simp only [upd, if_true, hpnil, canonFrom, List.length_nil] at hv ⊢
                exact ⟨hv, by rw [hnil]; simp⟩
              · simp only [upd, hjs, if_false] at hv hl ⊢
                rw [hfr.other j hjs]; exact ⟨hv, hl⟩
            · intro t ht; simp only [hfr.numCtx]; exact h.bv.2 t ht
          | ok c =>
            simp only [hsh] at hr
            obtain ⟨hfr, _, hroom⟩ := shift_ok_shape st.cache s _ c hs' hsh
            have hcoh := coherent_shift st.cache h.coh s _ hs' hu' hlenI c (Or.inl hsh)
            apply ih (i + 1) _ st' _ hr
            have hmid : IL s pend0 c0 { st with cache := c } := by
              refine ⟨hcoh, h.fr.trans hfr, h.slot, fun t ht => by simp only [hfr.len]; exact h.bs t ht, h.oo, ?_, ?_⟩
              · intro j hj
                simp only at hj
                have hj' : j < st.cache.slots.length := by rw [← hfr.len]; exact hj
                obtain ⟨hv, hl⟩ := h.bv.1 j hj'
                simp only [hfr.numCtx]
                by_cases hjs : j = s
                · subst hjs
                  simp only [upd, if_true, hpnil, canonFrom, List.length_nil] at hv ⊢
                  exact ⟨hv, by have := hroom (by omega); omega⟩
                · simp only [upd, hjs, if_false] at hv hl ⊢
                  rw [hfr.other j hjs]; exact ⟨hv, hl⟩
              · intro t ht; simp only [hfr.numCtx]; exact h.bv.2 t ht
            have := IL_add s pend0 c0 { st with cache := c } inp i hmid hs (by
              simp only [hpnil, List.length_nil, Nat.add_zero, hfr.numCtx]
              exact hroom (by omega))
            exact this
        · simp only [hpe, Bool.not_false, if_true, pure, Except.pure, Except.ok.injEq] at hr
          subst hr; exact h
      · simp only [hover, if_false] at hr
        apply ih (i + 1) _ st' _ hr
        rw [h.slot] at hover
        exact IL_add s pend0 c0 st inp i h hs (by omega)

/-! ## ownership of slots by live sequences (history-level exclusivity) -/

/-- entry `i` of `s.seqs` is the live sequence `sq` -/
def Live (sv : Server) (i : Nat) (sq : Seq) : Prop := sv.seqs[i]? = some (some sq)

/-- **Every live sequence owns its slot, exclusively**: the slot exists, is marked in use, and no two
    live sequences have the same slot. -/
structure Owned (sv : Server) : Prop where
  valid : ∀ i sq, Live sv i sq → sq.slot < sv.cache.slots.length ∧ (getSlot sv.cache.slots sq.slot).inUse = true
  distinct : ∀ i i' sq sq', Live sv i sq → Live sv i' sq' → sq.slot = sq'.slot → i = i'

theorem getD_live (l : List (Option Seq)) (i : Nat) (sq : Seq) (h : l.getD i none = some sq) :
    l[i]? = some (some sq) := by
  rw [List.getD_eq_getElem?_getD] at h
  cases hh : l[i]? with
  | none => simp [hh] at h
  | some x => simp only [hh, Option.getD_some] at h; rw [h]

theorem live_lt (l : List (Option Seq)) (i : Nat) (sq : Seq) (h : l[i]? = some (some sq)) : i < l.length := by
  rcases Nat.lt_or_ge i l.length with h1 | h1
  · exact h1
  · rw [List.getElem?_eq_none h1] at h; cases h

theorem live_set (l : List (Option Seq)) (i : Nat) (v : Option Seq) (hi : i < l.length) (i' : Nat) (sq' : Seq) :
    (setSeq l i v)[i']? = some (some sq') ↔ (i' = i ∧ v = some sq') ∨ (i' ≠ i ∧ l[i']? = some (some sq')) := by
  unfold setSeq
  by_cases h : i' = i
  · subst h
    rw [List.getElem?_set_self hi]
    simp
  · rw [List.getElem?_set_ne (fun e => h e.symm)]
    simp [h]

theorem coherent_release (c : Cache) (hc : Coherent c) (i : Nat) (hi : i < c.slots.length) :
    Coherent { c with slots := setSlot c.slots i fun s => { s with inUse := false } } := by
  obtain ⟨hid, hok⟩ := hc.2 i hi
  exact coherent_update c hc i hi (fun s => { s with inUse := false }) c.cells hid hc.1
    (fun t _ => List.Perm.refl _) ⟨hok.1, fun h => by cases h⟩

/-- invariant of the outer loop of batch assembly -/
structure PInv (sv : Server) (batch : List BTok) (pend : Nat → List Tok) : Prop where
  coh : Coherent sv.cache
  cfg : Cfg sv.cache
  own : Owned sv
  bv : BV sv.cache batch pend
  lp : ∀ i sq, Live sv i sq → sq.pending = pend sq.slot
  np : ∀ j, j < sv.cache.slots.length → (∀ i sq, Live sv i sq → sq.slot ≠ j) → pend j = []

theorem live_inj {sv : Server} {i : Nat} {a b : Seq} (h1 : Live sv i a) (h2 : Live sv i b) : a = b := by
  unfold Live at h1 h2; rw [h1] at h2; simpa using h2

/-- the server after `removeSequence` of entry `i` owning slot `s` -/
def releaseSv (sv : Server) (i s : Nat) : Server :=
  { sv with cache := { sv.cache with slots := setSlot sv.cache.slots s fun s => { s with inUse := false } },
            seqs := setSeq sv.seqs i none }

/-- the server after the inner loop of entry `i` -/
def innerSv (sv : Server) (i : Nat) (p : P1) (ins : List Tok) : Server :=
  { sv with cache := p.cache, seqs := setSeq sv.seqs i (some { p.seq with inputs := ins }) }

/-- removeSequence inside batch assembly (numPredict reached): the slot is released by its owner -/
theorem PInv_release (sv : Server) (batch : List BTok) (pend : Nat → List Tok) (i : Nat) (sq : Seq)
    (h : PInv sv batch pend) (hl : Live sv i sq) (hpe : sq.pending = []) :
    PInv (releaseSv sv i sq.slot) batch pend := by
  have hi : i < sv.seqs.length := live_lt _ _ _ hl
  obtain ⟨hsv, hsu⟩ := h.own.valid i sq hl
  have hlive : ∀ i' sq', Live (releaseSv sv i sq.slot) i' sq' → i' ≠ i ∧ Live sv i' sq' := by
    intro i' sq' h'
    unfold Live releaseSv at h'
    simp only at h'
    rcases (live_set _ _ _ hi _ _).mp h' with ⟨_, h2⟩ | h2
    · cases h2
    · exact h2
  have hback : ∀ i' sq', i' ≠ i → Live sv i' sq' → Live (releaseSv sv i sq.slot) i' sq' := by
    intro i' sq' hne h'
    unfold Live releaseSv; simp only
    exact (live_set _ _ _ hi _ _).mpr (Or.inr ⟨hne, h'⟩)
  refine ⟨coherent_release _ h.coh _ hsv, ⟨h.cfg.win, h.cfg.fix, h.cfg.ctx⟩, ⟨?_, ?_⟩, ⟨?_, h.bv.2⟩, ?_, ?_⟩ <;> simp only [releaseSv]
  · intro i' sq' h'
    obtain ⟨hne, hold⟩ := hlive i' sq' h'
    obtain ⟨h1, h2⟩ := h.own.valid i' sq' hold
    have hs : sq'.slot ≠ sq.slot := fun e => hne (h.own.distinct i' i sq' sq hold hl e)
    simp only [setSlot_length]
    exact ⟨h1, by rw [getSlot_setSlot_other _ _ _ _ hs]; exact h2⟩
  · intro i1 i2 s1 s2 h1 h2 he
    exact h.own.distinct i1 i2 s1 s2 (hlive _ _ h1).2 (hlive _ _ h2).2 he
  · intro j hj
    simp only [setSlot_length] at hj
    obtain ⟨hv, hl'⟩ := h.bv.1 j hj
    simp only [getSlot_setSlot _ _ _ _ hsv]
    by_cases hjs : j = sq.slot
    · simp only [hjs, if_true] at hv hl' ⊢; exact ⟨hv, hl'⟩
    · simp only [hjs, if_false]; exact ⟨hv, hl'⟩
  · intro i' sq' h'
    exact h.lp i' sq' (hlive _ _ h').2
  · intro j hj hno
    simp only [setSlot_length] at hj
    by_cases hjs : j = sq.slot
    · rw [hjs, ← h.lp i sq hl]; exact hpe
    · apply h.np j hj
      intro i'' sq'' hl''
      by_cases hii : i'' = i
      · subst hii
        have := live_inj hl hl''
        subst this
        exact fun e => hjs e.symm
      · exact hno i'' sq'' (hback _ _ hii hl'')

/-- the state after the inner loop of one sequence -/
theorem PInv_inner (sv : Server) (batch : List BTok) (pend : Nat → List Tok) (i : Nat) (sq : Seq) (p : P1)
    (ins : List Tok) (h : PInv sv batch pend) (hl : Live sv i sq) (hp : IL sq.slot pend sv.cache p) :
    PInv (innerSv sv i p ins) p.batch
      (upd pend sq.slot p.seq.pending) := by
  have hi : i < sv.seqs.length := live_lt _ _ _ hl
  obtain ⟨hsv, hsu⟩ := h.own.valid i sq hl
  have hlive : ∀ i' sq', Live (innerSv sv i p ins) i' sq' →
      (i' = i ∧ sq' = { p.seq with inputs := ins }) ∨ (i' ≠ i ∧ Live sv i' sq') := by
    intro i' sq' h'
    unfold Live innerSv at h'
    simp only at h'
    rcases (live_set _ _ _ hi _ _).mp h' with ⟨h1, h2⟩ | h2
    · exact Or.inl ⟨h1, by simpa using h2.symm⟩
    · exact Or.inr h2
  have hback : ∀ i' sq', i' ≠ i → Live sv i' sq' →
      Live (innerSv sv i p ins) i' sq' := by
    intro i' sq' hne h'
    unfold Live innerSv; simp only
    exact (live_set _ _ _ hi _ _).mpr (Or.inr ⟨hne, h'⟩)
  have hself : Live (innerSv sv i p ins) i { p.seq with inputs := ins } := by
    unfold Live innerSv; simp only
    exact (live_set _ _ _ hi _ _).mpr (Or.inl ⟨rfl, rfl⟩)
  refine ⟨hp.coh, h.cfg.frame hp.fr, ⟨?_, ?_⟩, hp.bv, ?_, ?_⟩ <;> simp only [innerSv]
  · intro i' sq' h'
    rcases hlive i' sq' h' with ⟨_, rfl⟩ | ⟨hne, hold⟩
    · simp only [hp.slot, hp.fr.len, hp.fr.inUse]; exact ⟨hsv, hsu⟩
    · obtain ⟨h1, h2⟩ := h.own.valid i' sq' hold
      have hs : sq'.slot ≠ sq.slot := fun e => hne (h.own.distinct i' i sq' sq hold hl e)
      rw [hp.fr.len, hp.fr.other _ hs]; exact ⟨h1, h2⟩
  · intro i1 i2 s1 s2 h1 h2 he
    rcases hlive i1 s1 h1 with ⟨e1, rfl⟩ | ⟨n1, o1⟩ <;> rcases hlive i2 s2 h2 with ⟨e2, rfl⟩ | ⟨n2, o2⟩
    · rw [e1, e2]
    · simp only [hp.slot] at he
      exact absurd (h.own.distinct i i2 sq s2 hl o2 he).symm n2
    · simp only [hp.slot] at he
      exact absurd (h.own.distinct i1 i s1 sq o1 hl he) n1
    · exact h.own.distinct i1 i2 s1 s2 o1 o2 he
  · intro i' sq' h'
    rcases hlive i' sq' h' with ⟨_, rfl⟩ | ⟨hne, hold⟩
    · simp only [hp.slot, upd, if_true]
    · have hs : sq'.slot ≠ sq.slot := fun e => hne (h.own.distinct i' i sq' sq hold hl e)
      simp only [upd, hs, if_false]; exact h.lp i' sq' hold
  · intro j hj hno
    by_cases hjs : j = sq.slot
    · exact absurd (by simp only [hp.slot]; exact hjs.symm) (hno i _ hself)
    · simp only [upd, hjs, if_false]
      rw [hp.fr.len] at hj
      apply h.np j hj
      intro i'' sq'' hl''
      by_cases hii : i'' = i
      · subst hii
        have := live_inj hl hl''
        subst this
        exact fun e => hjs e.symm
      · exact hno i'' sq'' (hback _ _ hii hl'')

theorem removeSequence_outs (sv : Server) (o : StepObs) (i : Nat) (sq : Seq) (r : Nat) :
    (removeSequence sv o i sq r).2.outs = o.outs := by
  unfold removeSequence
  simp only; split <;> rfl

theorem removeSequence_batch (sv : Server) (o : StepObs) (i : Nat) (sq : Seq) (r : Nat) :
    (removeSequence sv o i sq r).2.batch = o.batch ∧
    (removeSequence sv o i sq r).1 = releaseSv sv i sq.slot := by
  unfold removeSequence
  constructor
  · simp only; split <;> rfl
  · rfl

theorem upd_self (f : Nat → List Tok) (s : Nat) : upd f s (f s) = f := by
  funext j; unfold upd; split
  · next h => rw [h]
  · rfl

/-- sequences that already have inputs in the batch are not visited again by the remaining `k` iterations -/
def Fut (sv : Server) (seqIdx k : Nat) : Prop :=
  ∀ i sq, Live sv i sq → sq.pending ≠ [] → ∀ m, 1 ≤ m → m ≤ k → (seqIdx + m) % sv.seqs.length ≠ i

theorem mod_add_ne (n idx m : Nat) (hidx : idx < n) (h1 : 1 ≤ m) (hm : m < n) : (idx + m) % n ≠ idx := by
  intro h
  have h2 : (idx + m) % n = idx % n := by rw [h, Nat.mod_eq_of_lt hidx]
  have h3 := Nat.sub_mod_eq_zero_of_mod_eq h2
  rw [Nat.add_sub_cancel_left, Nat.mod_eq_of_lt hm] at h3
  omega

/-- every batch token belongs to an existing slot; every output index points into the batch -/
def BO (st : Ph1) : Prop :=
  (∀ t ∈ st.obs.batch, t.seq < st.sv.cache.slots.length) ∧ (∀ bi ∈ st.outs, bi < st.obs.batch.length) ∧
    st.obs.outs = []

/-- **Batch assembly (the outer loop of processBatch) keeps the cache coherent and the slots owned**, for any
    number of sequences batched together. -/
theorem phase1_PInv : ∀ (k : Nat) (st st' : Ph1), phase1 k st = .ok st' → k ≤ st.sv.seqs.length →
    Fut st.sv st.seqIdx k → (∃ pend, PInv st.sv st.obs.batch pend) → BO st →
    (∃ pend, PInv st'.sv st'.obs.batch pend) ∧ st'.sv.seqs.length = st.sv.seqs.length ∧ BO st' := by
  intro k
  induction k with
  | zero =>
    intro st st' hr _ _ h hbo
    simp only [phase1, pure, Except.pure, Except.ok.injEq] at hr
    subst hr; exact ⟨h, rfl, hbo⟩
  | succ k ih =>
    intro st st' hr hk hfut h hbo
    obtain ⟨pend, h⟩ := h
    unfold phase1 at hr
    simp only at hr
    generalize hidx : (st.seqIdx + 1) % st.sv.seqs.length = idx at hr
    have hn : 0 < st.sv.seqs.length := by omega
    have hidxlt : idx < st.sv.seqs.length := by rw [← hidx]; exact Nat.mod_lt _ hn
    -- the remaining iterations seen from the new index
    have hshift : ∀ m, (idx + m) % st.sv.seqs.length = (st.seqIdx + (m + 1)) % st.sv.seqs.length := by
      intro m
      rw [← hidx, Nat.mod_add_mod]
      congr 1; omega
    cases hq : st.sv.seqs.getD idx none with
    | none =>
      simp only [hq] at hr
      have := ih _ st' hr (by simp only; omega) (by
        intro i sq hl hp m h1 h2
        simp only at hl ⊢
        rw [hshift]; exact hfut i sq hl hp (m + 1) (by omega) (by omega)) ⟨pend, h⟩ hbo
      exact this
    | some sq =>
      simp only [hq] at hr
      have hl : Live st.sv idx sq := getD_live _ _ _ hq
      have hpe : sq.pending = [] := by
        cases hp : sq.pending with
        | nil => rfl
        | cons a as =>
          exact absurd hidx (hfut idx sq hl (by rw [hp]; simp) 1 (by omega) (by omega))
      split at hr
      · obtain ⟨hb, hsv⟩ := removeSequence_batch st.sv st.obs idx sq 1
        obtain ⟨hres, hlen⟩ := ih _ st' hr (by simp only [hsv, releaseSv, setSeq, List.length_set]; omega) (by
          intro i sq' hl' hp m h1 h2
          simp only [hsv] at hl' ⊢
          have hi : idx < st.sv.seqs.length := hidxlt
          unfold Live releaseSv at hl'
          simp only at hl'
          rcases (live_set _ _ _ hi _ _).mp hl' with ⟨_, h2'⟩ | ⟨_, hold⟩
          · cases h2'
          · simp only [releaseSv, setSeq, List.length_set]
            rw [hshift]; exact hfut i sq' hold hp (m + 1) (by omega) (by omega)) ⟨pend, by
          simp only [hb, hsv]
          exact PInv_release st.sv st.obs.batch pend idx sq h hl hpe⟩ (by
          unfold BO
          simp only [hb, hsv, releaseSv, setSlot_length, removeSequence_outs]
          exact hbo)
        refine ⟨hres, ?_, hlen.2⟩
        rw [hlen.1]; simp only [hsv, releaseSv, setSeq, List.length_set]
      · cases hin : innerLoop st.sv.batchSize idx sq.inputs 0
            { cache := st.sv.cache, seq := sq, batch := st.obs.batch, outs := st.outs, resume := st.resume } with
        | error e => simp [hin, bind, Except.bind] at hr
        | ok p =>
          simp only [hin, bind, Except.bind] at hr
          obtain ⟨hsv, hsu⟩ := h.own.valid idx sq hl
          have hil := innerLoop_IL st.sv.batchSize idx sq.slot pend st.sv.cache h.cfg hsv hsu sq.inputs 0 _ p
            ⟨h.coh, Frame.refl _ _, rfl, hbo.1, hbo.2.1, by simp only [h.lp idx sq hl, upd_self]; exact h.bv⟩ hin
          obtain ⟨hres, hlen⟩ := ih _ st' hr (by simp only [setSeq, List.length_set]; omega) (by
            intro i sq' hl' hp m h1 h2
            simp only at hl' ⊢
            unfold Live at hl'
            simp only at hl'
            simp only [setSeq, List.length_set]
            rcases (live_set _ _ _ hidxlt _ _).mp hl' with ⟨hii, _⟩ | ⟨_, hold⟩
            · rw [hii]; exact mod_add_ne _ _ _ hidxlt h1 (by omega)
            · rw [hshift]; exact hfut i sq' hold hp (m + 1) (by omega) (by omega))
            ⟨_, PInv_inner st.sv st.obs.batch pend idx sq p _ h hl hil⟩ ⟨hil.bs, hil.oo, hbo.2.2⟩
          refine ⟨hres, ?_, hlen.2⟩
          rw [hlen.1]; simp only [setSeq, List.length_set]

/-! ## Forward: the whole mixed batch is stored at once -/

theorem findGo_free (n : Nat) : ∀ (cs pre : List Cell) (i start count r : Nat),
    pre.length = i → start + count = i → (∀ x ∈ pre.drop start, x.seqs = []) →
    findGo n cs i start count = some r → ∀ x ∈ ((pre ++ cs).drop r).take n, x.seqs = [] := by
  intro cs
  induction cs with
  | nil => intro pre i start count r _ _ _ h; simp [findGo] at h
  | cons c cs ih =>
    intro pre i start count r hlen hsc hfree h
    unfold findGo at h
    have hassoc : pre ++ c :: cs = (pre ++ [c]) ++ cs := by simp
    by_cases hce : c.seqs.isEmpty
    · have hc : c.seqs = [] := by simpa using hce
      simp only [hce, if_true] at h
      by_cases hn : count + 1 ≥ n
      · simp only [hn, if_true, Option.some.injEq] at h
        subst h
        intro x hx
        rw [hassoc, List.drop_append_of_le_length (by simp; omega)] at hx
        rw [List.take_append_of_le_length (by simp; omega)] at hx
        have hx2 := List.mem_of_mem_take hx
        rw [List.drop_append_of_le_length (by omega)] at hx2
        rcases List.mem_append.mp hx2 with h1 | h1
        · exact hfree x h1
        · simp only [List.mem_singleton] at h1
          rw [h1]; exact hc
      · simp only [hn, if_false] at h
        rw [hassoc]
        apply ih (pre ++ [c]) (i + 1) start (count + 1) r (by simp; omega) (by omega) _ h
        intro x hx
        rw [List.drop_append_of_le_length (by omega)] at hx
        rcases List.mem_append.mp hx with h1 | h1
        · exact hfree x h1
        · simp only [List.mem_singleton] at h1; rw [h1]; exact hc
    · simp only [hce, Bool.false_eq_true, if_false] at h
      rw [hassoc]
      apply ih (pre ++ [c]) (i + 1) (i + 1) 0 r (by simp; omega) (by omega) _ h
      intro x hx
      rw [List.drop_eq_nil_of_le (by simp; omega)] at hx
      cases hx

/-- `findStartLoc` returns the start of a run of free cells -/
theorem findStartLoc_free (cells : List Cell) (n loc : Nat) (h : findStartLoc cells n = some loc) :
    ∀ x ∈ (cells.drop loc).take n, x.seqs = [] := by
  have := findGo_free n cells [] 0 0 0 loc rfl rfl (by simp) h
  simpa using this

/-- the cache holds, for every slot, the record followed by the slot's part of the batch -/
def PC (c : Cache) (pend : Nat → List Tok) : Prop :=
  PosBound c.cells ∧ ∀ j, ∀ hj : j < c.slots.length, c.slots[j].id = j ∧
    SlotOK c.cells { c.slots[j] with inputs := c.slots[j].inputs ++ pend j }

theorem slot_append_nil (sl : Slot) : ({ sl with inputs := sl.inputs ++ [] } : Slot) = sl := by
  cases sl; simp

/-- **Batching several sequences together**: one `store` of a batch that interleaves the runs of several
    slots (each at positions record length + k) leaves every slot's sequence holding exactly its record
    followed by its own part of the batch.  `cells0` is any relocation of the cells (defrag). -/
theorem store_PC (c : Cache) (batch : List BTok) (pend : Nat → List Tok) (loc : Nat) (cells0 : List Cell)
    (hc : Coherent c) (hcfg : Cfg c) (hbv : BV c batch pend)
    (hpu : ∀ j, j < c.slots.length → pend j ≠ [] → (getSlot c.slots j).inUse = true)
    (hperm : ∀ s, s < c.slots.length → (view cells0 s).Perm (view c.cells s)) (hb0 : PosBound cells0)
    (hfree : ∀ x ∈ (cells0.drop loc).take batch.length, x.seqs = []) :
    PC { c with cells := store cells0 loc batch } pend := by
  refine ⟨store_bound cells0 loc batch hb0 (fun t ht => by have := hbv.2 t ht; have := hcfg.ctx; omega), ?_⟩
  intro j hj
  have hj' : j < c.slots.length := hj
  obtain ⟨hid, hok⟩ := hc.2 j hj'
  obtain ⟨hv, hl⟩ := hbv.1 j hj'
  rw [getSlot_eq _ _ hj'] at hv hl
  refine ⟨hid, ?_⟩
  have hsv := store_view cells0 loc batch j hfree
  rw [hv] at hsv
  have hsv2 : (view (store cells0 loc batch) j).Perm
      (view c.cells j ++ canonFrom c.slots[j].inputs.length (pend j)) :=
    hsv.trans (List.Perm.append_right _ (hperm j hj'))
  by_cases hp : pend j = []
  · simp only [hp, canonFrom, List.append_nil] at hsv2
    show SlotOK (store cells0 loc batch) { c.slots[j] with inputs := c.slots[j].inputs ++ pend j }
    rw [hp, slot_append_nil]
    exact SlotOK_perm c.cells _ _ (by rw [hid]; exact hsv2) hok
  · have hu : c.slots[j].inUse = true := by
      have := hpu j hj' hp; rw [getSlot_eq _ _ hj'] at this; exact this
    have hall : ∀ x ∈ view c.cells j, x.1 < (c.slots[j].inputs.length : Int) := by
      have := hok.2 hu; rw [hid] at this; exact this
    have hV : (view c.cells j).Perm (canon c.slots[j].inputs) := by
      have := hok.1
      rw [hid, filter_all _ _ (fun x hx => by simpa using hall x hx)] at this
      exact this
    have hnew : (view (store cells0 loc batch) j).Perm (canon (c.slots[j].inputs ++ pend j)) := by
      refine hsv2.trans ?_
      unfold canon
      rw [canonFrom_append, Nat.zero_add]
      exact List.Perm.append_right _ hV
    have hall' : ∀ x ∈ view (store cells0 loc batch) j, x.1 < ((c.slots[j].inputs ++ pend j).length : Int) := by
      intro x hx
      have := canonFrom_mem 0 _ x (hnew.mem_iff.mp hx)
      omega
    refine ⟨?_, ?_⟩
    · simp only [hid]
      rw [filter_all _ _ (fun x hx => by simpa using hall' x hx)]
      exact hnew
    · intro _; simp only [hid]; exact hall'

/-! ## after Forward: records appended, stop cut, release (`phase3`) -/

/-- invariant of the per-sequence loop after Forward: entries below `d` are done, entries from `l` on still
    have their part of the batch in `pend` -/
structure R (sv : Server) (pend : Nat → List Tok) (d l : Nat) : Prop where
  pc : PC sv.cache pend
  cfg : Cfg sv.cache
  own : Owned sv
  lenb : ∀ j, j < sv.cache.slots.length →
    (getSlot sv.cache.slots j).inputs.length + (pend j).length ≤ sv.cache.numCtx
  np : ∀ j, j < sv.cache.slots.length → (∀ i sq, Live sv i sq → sq.slot ≠ j) → pend j = []
  dn : ∀ i sq, Live sv i sq → i < d → sq.pending = [] ∧ pend sq.slot = []
  lp : ∀ i sq, Live sv i sq → l ≤ i → sq.pending = pend sq.slot

theorem PC_update (c : Cache) (pend pend' : Nat → List Tok) (s : Nat) (hs : s < c.slots.length) (g : Slot → Slot)
    (hpc : PC c pend) (hid : (g c.slots[s]).id = s) (hother : ∀ j, j ≠ s → pend' j = pend j)
    (hself : SlotOK c.cells { g c.slots[s] with inputs := (g c.slots[s]).inputs ++ pend' s }) :
    PC { c with slots := setSlot c.slots s g } pend' := by
  refine ⟨hpc.1, fun j hj => ?_⟩
  have hj' : j < c.slots.length := by simpa [setSlot] using hj
  simp only [setSlot, List.getElem_modify]
  by_cases hsj : s = j
  · subst hsj; simp only [if_true]; exact ⟨hid, hself⟩
  · simp only [hsj, if_false]
    rw [hother j (fun e => hsj e.symm)]
    exact hpc.2 j hj'

theorem live_getD (sv : Server) (i : Nat) (sq : Seq) (h : Live sv i sq) : sv.seqs.getD i none = some sq := by
  unfold Live at h
  rw [List.getD_eq_getElem?_getD, h]; rfl

/-- the entry is empty: nothing to do -/
theorem R_skip (sv : Server) (pend : Nat → List Tok) (i : Nat) (h : R sv pend i i)
    (hn : sv.seqs.getD i none = none) : R sv pend (i + 1) (i + 1) := by
  refine ⟨h.pc, h.cfg, h.own, h.lenb, h.np, ?_, fun i' sq hl hle => h.lp i' sq hl (by omega)⟩
  intro i' sq hl hlt
  by_cases hi : i' = i
  · subst hi; rw [live_getD sv i' sq hl] at hn; cases hn
  · exact h.dn i' sq hl (by omega)

/-- `seq.cache.Inputs = append(seq.cache.Inputs, seq.pendingInputs...)` for entry `i` -/
theorem R_append (sv : Server) (pend : Nat → List Tok) (i : Nat) (sq : Seq) (h : R sv pend i i) (hl : Live sv i sq) :
    R { sv with cache := { sv.cache with slots := setSlot sv.cache.slots sq.slot fun s => { s with inputs := s.inputs ++ sq.pending } } }
      (upd pend sq.slot []) i (i + 1) := by
  obtain ⟨hsv, hsu⟩ := h.own.valid i sq hl
  have hp : sq.pending = pend sq.slot := h.lp i sq hl (Nat.le_refl _)
  have hlive : ∀ i' sq', Live { sv with cache := { sv.cache with slots := setSlot sv.cache.slots sq.slot fun s => { s with inputs := s.inputs ++ sq.pending } } } i' sq' ↔ Live sv i' sq' := fun _ _ => Iff.rfl
  refine ⟨?_, ⟨h.cfg.win, h.cfg.fix, h.cfg.ctx⟩, ⟨?_, ?_⟩, ?_, ?_, ?_, ?_⟩
  · apply PC_update sv.cache pend _ sq.slot hsv _ h.pc (h.pc.2 _ hsv).1
    · intro j hj; simp only [upd, hj, if_false]
    · have := (h.pc.2 _ hsv).2
      simp only [upd, if_true, List.append_nil]
      rw [← hp] at this
      exact this
  · intro i' sq' hl'
    obtain ⟨h1, h2⟩ := h.own.valid i' sq' hl'
    simp only [setSlot_length, getSlot_setSlot _ _ _ _ hsv]
    refine ⟨h1, ?_⟩
    split
    · next e => rw [e] at h2; exact h2
    · exact h2
  · exact h.own.distinct
  · intro j hj
    simp only [setSlot_length] at hj
    simp only [getSlot_setSlot _ _ _ _ hsv]
    by_cases hjs : j = sq.slot
    · have := h.lenb j hj
      simp only [hjs, if_true, upd, List.length_append, List.length_nil, hp] at this ⊢
      omega
    · simp only [hjs, if_false, upd]; exact h.lenb j hj
  · intro j hj hno
    simp only [setSlot_length] at hj
    by_cases hjs : j = sq.slot
    · simp only [upd, hjs, if_true]
    · simp only [upd, hjs, if_false]; exact h.np j hj hno
  · intro i' sq' hl' hlt
    obtain ⟨h1, h2⟩ := h.dn i' sq' hl' hlt
    refine ⟨h1, ?_⟩
    by_cases hjs : sq'.slot = sq.slot
    · simp only [upd, hjs, if_true]
    · simp only [upd, hjs, if_false]; exact h2
  · intro i' sq' hl' hle
    have hne : sq'.slot ≠ sq.slot := fun e => by
      have := h.own.distinct i' i sq' sq hl' hl e; omega
    simp only [upd, hne, if_false]
    exact h.lp i' sq' hl' (by omega)

/-- entry `i` stays alive with nothing pending -/
theorem R_setseq (sv : Server) (pend : Nat → List Tok) (i : Nat) (sq sq' : Seq) (h : R sv pend i (i + 1))
    (hpe : pend sq.slot = []) (hl : Live sv i sq) (hslot : sq'.slot = sq.slot) (hpend : sq'.pending = []) :
    R { sv with seqs := setSeq sv.seqs i (some sq') } pend (i + 1) (i + 1) := by
  have hi : i < sv.seqs.length := live_lt _ _ _ hl
  have hlive : ∀ i' s', Live { sv with seqs := setSeq sv.seqs i (some sq') } i' s' →
      (i' = i ∧ s' = sq') ∨ (i' ≠ i ∧ Live sv i' s') := by
    intro i' s' h'
    unfold Live at h'
    simp only at h'
    rcases (live_set _ _ _ hi _ _).mp h' with ⟨h1, h2⟩ | h2
    · exact Or.inl ⟨h1, by simpa using h2.symm⟩
    · exact Or.inr h2
  have hback : ∀ i' s', i' ≠ i → Live sv i' s' → Live { sv with seqs := setSeq sv.seqs i (some sq') } i' s' := by
    intro i' s' hne h'
    unfold Live; simp only
    exact (live_set _ _ _ hi _ _).mpr (Or.inr ⟨hne, h'⟩)
  have hself : Live { sv with seqs := setSeq sv.seqs i (some sq') } i sq' := by
    unfold Live; simp only
    exact (live_set _ _ _ hi _ _).mpr (Or.inl ⟨rfl, rfl⟩)
  refine ⟨h.pc, h.cfg, ⟨?_, ?_⟩, h.lenb, ?_, ?_, ?_⟩
  · intro i' s' h'
    rcases hlive i' s' h' with ⟨_, rfl⟩ | ⟨_, hold⟩
    · rw [hslot]; exact h.own.valid i sq hl
    · exact h.own.valid i' s' hold
  · intro i1 i2 s1 s2 h1 h2 he
    rcases hlive i1 s1 h1 with ⟨e1, rfl⟩ | ⟨n1, o1⟩ <;> rcases hlive i2 s2 h2 with ⟨e2, rfl⟩ | ⟨n2, o2⟩
    · rw [e1, e2]
    · rw [hslot] at he
      exact absurd (h.own.distinct i i2 sq s2 hl o2 he).symm n2
    · rw [hslot] at he
      exact absurd (h.own.distinct i1 i s1 sq o1 hl he) n1
    · exact h.own.distinct i1 i2 s1 s2 o1 o2 he
  · intro j hj hno
    apply h.np j hj
    intro i'' sq'' hl''
    by_cases hii : i'' = i
    · subst hii
      have := live_inj hl hl''
      subst this
      rw [← hslot]; exact hno i'' sq' hself
    · exact hno i'' sq'' (hback _ _ hii hl'')
  · intro i' s' h' hlt
    rcases hlive i' s' h' with ⟨_, rfl⟩ | ⟨hne, hold⟩
    · exact ⟨hpend, by rw [hslot]; exact hpe⟩
    · exact h.dn i' s' hold (by omega)
  · intro i' s' h' hle
    rcases hlive i' s' h' with ⟨e, _⟩ | ⟨hne, hold⟩
    · omega
    · exact h.lp i' s' hold hle

/-- entry `i` ends: its slot's record is cut to `t` inputs (`t ≥` length: plain release) and the slot is
    released by its owner -/
theorem R_finish (sv : Server) (pend : Nat → List Tok) (i : Nat) (sq : Seq) (g : Slot → Slot) (t : Nat)
    (h : R sv pend i (i + 1)) (hpe : pend sq.slot = []) (hl : Live sv i sq)
    (hg : g (getSlot sv.cache.slots sq.slot) =
      { getSlot sv.cache.slots sq.slot with inputs := (getSlot sv.cache.slots sq.slot).inputs.take t, inUse := false }) :
    R { sv with cache := { sv.cache with slots := setSlot sv.cache.slots sq.slot g }, seqs := setSeq sv.seqs i none }
      pend (i + 1) (i + 1) := by
  have hi : i < sv.seqs.length := live_lt _ _ _ hl
  obtain ⟨hsv, hsu⟩ := h.own.valid i sq hl
  have hg' : g sv.cache.slots[sq.slot] =
      { sv.cache.slots[sq.slot] with inputs := sv.cache.slots[sq.slot].inputs.take t, inUse := false } := by
    rw [← getSlot_eq _ _ hsv]; exact hg
  have hlive : ∀ i' s', Live { sv with cache := { sv.cache with slots := setSlot sv.cache.slots sq.slot g }, seqs := setSeq sv.seqs i none } i' s' →
      i' ≠ i ∧ Live sv i' s' := by
    intro i' s' h'
    unfold Live at h'
    simp only at h'
    rcases (live_set _ _ _ hi _ _).mp h' with ⟨_, h2⟩ | h2
    · cases h2
    · exact h2
  have hback : ∀ i' s', i' ≠ i → Live sv i' s' →
      Live { sv with cache := { sv.cache with slots := setSlot sv.cache.slots sq.slot g }, seqs := setSeq sv.seqs i none } i' s' := by
    intro i' s' hne h'
    unfold Live; simp only
    exact (live_set _ _ _ hi _ _).mpr (Or.inr ⟨hne, h'⟩)
  refine ⟨?_, ⟨h.cfg.win, h.cfg.fix, h.cfg.ctx⟩, ⟨?_, ?_⟩, ?_, ?_, ?_, ?_⟩
  · apply PC_update sv.cache pend pend sq.slot hsv g h.pc
    · rw [hg']; exact (h.pc.2 _ hsv).1
    · intro j _; rfl
    · obtain ⟨_, hok⟩ := h.pc.2 _ hsv
      rw [hpe, slot_append_nil] at hok
      rw [hg', hpe]
      simp only [List.append_nil]
      refine ⟨?_, fun hh => by cases hh⟩
      simp only
      have hn : (sv.cache.slots[sq.slot].inputs.take t).length ≤ sv.cache.slots[sq.slot].inputs.length := by
        simp [List.length_take]; omega
      have := cut_perm (view sv.cache.cells sv.cache.slots[sq.slot].id) sv.cache.slots[sq.slot].inputs _ hn hok.1
      rw [take_length_take] at this
      exact this
  · intro i' s' h'
    obtain ⟨hne, hold⟩ := hlive i' s' h'
    obtain ⟨h1, h2⟩ := h.own.valid i' s' hold
    have hs : s'.slot ≠ sq.slot := fun e => hne (h.own.distinct i' i s' sq hold hl e)
    simp only [setSlot_length]
    exact ⟨h1, by rw [getSlot_setSlot_other _ _ _ _ hs]; exact h2⟩
  · intro i1 i2 s1 s2 h1 h2 he
    exact h.own.distinct i1 i2 s1 s2 (hlive _ _ h1).2 (hlive _ _ h2).2 he
  · intro j hj
    simp only [setSlot_length] at hj
    have := h.lenb j hj
    simp only [getSlot_setSlot _ _ _ _ hsv]
    by_cases hjs : j = sq.slot
    · simp only [hjs, if_true, hg, List.length_take] at this ⊢; omega
    · simp only [hjs, if_false]; exact this
  · intro j hj hno
    simp only [setSlot_length] at hj
    by_cases hjs : j = sq.slot
    · rw [hjs]; exact hpe
    · apply h.np j hj
      intro i'' sq'' hl''
      by_cases hii : i'' = i
      · subst hii
        have := live_inj hl hl''
        subst this
        exact fun e => hjs e.symm
      · exact hno i'' sq'' (hback _ _ hii hl'')
  · intro i' s' h' hlt
    obtain ⟨hne, hold⟩ := hlive i' s' h'
    exact h.dn i' s' hold (by omega)
  · intro i' s' h' hle
    obtain ⟨hne, hold⟩ := hlive i' s' h'
    exact h.lp i' s' hold hle

theorem setSlot_setSlot (l : List Slot) (i : Nat) (f g : Slot → Slot) :
    setSlot (setSlot l i f) i g = setSlot l i (fun s => g (f s)) := by
  unfold setSlot
  apply List.ext_getElem?
  intro j
  simp only [List.getElem?_modify]
  by_cases h : i = j
  · simp [h]; cases l[j]? <;> simp
  · simp [h]

theorem R_weaken (sv : Server) (pend : Nat → List Tok) (i : Nat) (h : R sv pend i i) : R sv pend i (i + 1) :=
  ⟨h.pc, h.cfg, h.own, h.lenb, h.np, h.dn, fun i' sq hl hle => h.lp i' sq hl (by omega)⟩

/-- **The per-sequence work after Forward** (append the pending inputs to the record, EOS / numPredict /
    stop string with its cut of the record, release of the slot by its owner) keeps the invariant. -/
theorem phase3Seq_R (logits : List Tok) (i : Nat) (sv : Server) (o : StepObs) (sq : Seq) (pend : Nat → List Tok)
    (h : R sv pend i i) (hl : Live sv i sq) :
    (∃ pend', R (phase3Seq logits i sv o sq).1 pend' (i + 1) (i + 1)) ∧
      (phase3Seq logits i sv o sq).1.seqs.length = sv.seqs.length := by
  -- after the append
  have hmid : ∃ pend1, R (appendPending sv sq) pend1 i (i + 1) ∧ pend1 sq.slot = [] ∧
      Live (appendPending sv sq) i sq ∧ (appendPending sv sq).seqs.length = sv.seqs.length := by
    unfold appendPending
    by_cases hp : sq.pending.isEmpty
    · simp only [hp, if_true]
      have hpn : sq.pending = [] := by simpa using hp
      exact ⟨pend, R_weaken sv pend i h, by rw [← h.lp i sq hl (Nat.le_refl _)]; exact hpn, hl, trivial⟩
    · simp only [hp, Bool.false_eq_true, if_false]
      exact ⟨_, R_append sv pend i sq h hl, by simp [upd], hl, trivial⟩
  obtain ⟨pend1, hR, hpe, hl1, hlen⟩ := hmid
  unfold phase3Seq
  simp only
  generalize appendPending sv sq = sv1 at hR hpe hl1 hlen ⊢
  have hrel : ∀ (sq' : Seq) (o' : StepObs), sq'.slot = sq.slot →
      (∃ pend', R (removeSequence sv1 o' i sq' 0).1 pend' (i + 1) (i + 1)) ∧
        (removeSequence sv1 o' i sq' 0).1.seqs.length = sv.seqs.length := by
    intro sq' o' hs
    rw [(removeSequence_batch sv1 o' i sq' 0).2, hs]
    refine ⟨⟨pend1, ?_⟩, by simp only [releaseSv, setSeq, List.length_set]; exact hlen⟩
    exact R_finish sv1 pend1 i sq _ (getSlot sv1.cache.slots sq.slot).inputs.length hR hpe hl1 (by simp)
  have hset : ∀ (sq' : Seq) (o' : StepObs), sq'.slot = sq.slot → sq'.pending = [] →
      (∃ pend', R ({ sv1 with seqs := setSeq sv1.seqs i (some sq') }, o').1 pend' (i + 1) (i + 1)) ∧
        ({ sv1 with seqs := setSeq sv1.seqs i (some sq') }, o').1.seqs.length = sv.seqs.length := by
    intro sq' o' hs hp
    exact ⟨⟨pend1, R_setseq sv1 pend1 i sq sq' hR hpe hl1 hs hp⟩, by simp only [setSeq, List.length_set]; exact hlen⟩
  split
  · exact hset _ _ rfl rfl
  · split
    · exact hrel _ _ rfl
    · split
      · -- stop string: cut of the record, then release
        rw [(removeSequence_batch _ _ i _ 0).2]
        simp only [releaseSv, setSlot_setSlot]
        refine ⟨⟨pend1, ?_⟩, by simp only [setSeq, List.length_set]; exact hlen⟩
        exact R_finish sv1 pend1 i sq _ _ hR hpe hl1 rfl
      · split
        · exact hset _ _ rfl rfl
        · exact hset _ _ rfl rfl

/-- the whole per-sequence loop -/
theorem phase3_R (logits : List Tok) : ∀ (k i : Nat) (sv : Server) (o : StepObs) (pend : Nat → List Tok),
    R sv pend i i →
    (∃ pend', R (phase3 logits k i sv o).1 pend' (i + k) (i + k)) ∧ (phase3 logits k i sv o).1.seqs.length = sv.seqs.length := by
  intro k
  induction k with
  | zero => intro i sv o pend h; exact ⟨⟨pend, h⟩, rfl⟩
  | succ k ih =>
    intro i sv o pend h
    unfold phase3
    cases hq : sv.seqs.getD i none with
    | none =>
      simp only
      have := ih (i + 1) sv o pend (R_skip sv pend i h hq)
      rw [show i + (k + 1) = i + 1 + k by omega]
      exact this
    | some sq =>
      simp only
      obtain ⟨⟨pend', h'⟩, hlen⟩ := phase3Seq_R logits i sv o sq pend h (getD_live _ _ _ hq)
      have := ih (i + 1) _ (phase3Seq logits i sv o sq).2 pend' h'
      rw [show i + (k + 1) = i + 1 + k by omega]
      exact ⟨this.1, this.2.trans hlen⟩

/-! ## processBatch as a whole -/

/-- **The invariant of the runner between two events**: the cache is coherent, every live sequence owns
    its slot exclusively, no record exceeds the context, nothing is pending. -/
structure SInv (sv : Server) : Prop where
  coh : Coherent sv.cache
  cfg : Cfg sv.cache
  own : Owned sv
  lenb : ∀ j, j < sv.cache.slots.length → (getSlot sv.cache.slots j).inputs.length ≤ sv.cache.numCtx
  idle : ∀ i sq, Live sv i sq → sq.pending = []

/-- the initial state of batch assembly -/
def ph1Init (sv : Server) : Ph1 :=
  { sv := sv, obs := {}, outs := [], resume := none, seqIdx := (sv.nextSeq + sv.seqs.length - 1) % sv.seqs.length }

theorem seqEntries_eq_view (cells : List Cell) (s : Nat) : seqEntries cells s = view cells s := rfl

/-- what the model's check of an adopted layout establishes -/
theorem relocOK_spec (cells0 cs : List Cell) (n : Nat) (h : relocOK cells0 cs n = true) :
    (∀ s, s < n → (view cs s).Perm (view cells0 s)) ∧ PosBound cs := by
  unfold relocOK at h
  simp only [Bool.and_eq_true, List.all_eq_true, decide_eq_true_eq, List.mem_range] at h
  refine ⟨fun s hs => ?_, fun c hc => h.1 c hc⟩
  have := h.2 s hs
  rw [seqEntries_eq_view, seqEntries_eq_view] at this
  exact List.isPerm_iff.mp this

theorem canonFrom_eq_nil (k : Nat) (l : List Tok) (h : canonFrom k l = []) : l = [] := by
  cases l with
  | nil => rfl
  | cons a as => simp [canonFrom] at h

theorem processBatch_unfold (sv : Server) (adopt : Option (List Cell)) (sv' : Server) (o : StepObs)
    (h : processBatch sv adopt = .ok (sv', o)) :
    ∃ p, phase1 sv.seqs.length (ph1Init sv) = .ok p ∧
      ((p.obs.batch = [] ∧ sv'.cache = p.sv.cache ∧ sv'.seqs = p.sv.seqs) ∨
       (p.obs.batch ≠ [] ∧ ∃ cells loc logits nx,
          ((cells = evict p.sv.cache.window p.sv.cache.cells p.obs.batch ∧ adopt = none) ∨
            (adopt = some cells ∧
              relocOK (evict p.sv.cache.window p.sv.cache.cells p.obs.batch) cells p.sv.cache.slots.length = true)) ∧
          findStartLoc cells p.obs.batch.length = some loc ∧
          logits = (p.outs.map fun bi =>
            nextTok p.sv.vocab p.sv.eosMod (visibleW p.sv.cache.window (store cells loc p.obs.batch)
              (p.obs.batch.getD bi ⟨0, 0, 0⟩).seq (p.obs.batch.getD bi ⟨0, 0, 0⟩).pos)) ∧
          (sv', o) = phase3 logits sv.seqs.length 0
            { p.sv with nextSeq := nx, cache := { p.sv.cache with cells := store cells loc p.obs.batch } }
            { p.obs with outs := (p.outs.zip logits).map fun (bi, t) => ((p.obs.batch.getD bi ⟨0, 0, 0⟩).seq, t) })) := by
  unfold processBatch at h
  simp only [bind, Except.bind] at h
  cases hp : phase1 sv.seqs.length
      { sv := sv, obs := {}, outs := [], resume := none, seqIdx := (sv.nextSeq + sv.seqs.length - 1) % sv.seqs.length } with
  | error e => simp [hp] at h
  | ok p =>
    refine ⟨p, hp, ?_⟩
    simp only [hp] at h
    by_cases hb : p.obs.batch.isEmpty
    · simp only [hb, if_true, pure, Except.pure, Except.ok.injEq, Prod.mk.injEq] at h
      left
      refine ⟨by simpa using hb, ?_, ?_⟩
      · rw [← h.1]
      · rw [← h.1]
    · simp only [hb, Bool.false_eq_true, if_false] at h
      right
      refine ⟨by simpa using hb, ?_⟩
      cases hf : findStartLoc (evict p.sv.cache.window p.sv.cache.cells p.obs.batch) p.obs.batch.length with
      | some loc =>
        simp only [hf] at h
        cases adopt with
        | some cs => simp [throw, throwThe, MonadExceptOf.throw] at h
        | none =>
          simp only [pure, Except.pure, Except.ok.injEq] at h
          exact ⟨_, loc, _, _, Or.inl ⟨rfl, rfl⟩, hf, rfl, h.symm⟩
      | none =>
        simp only [hf] at h
        cases adopt with
        | none => simp [throw, throwThe, MonadExceptOf.throw] at h
        | some cs =>
          simp only at h
          cases hro : relocOK (evict p.sv.cache.window p.sv.cache.cells p.obs.batch) cs p.sv.cache.slots.length with
          | false => simp [hro, throw, throwThe, MonadExceptOf.throw] at h
          | true =>
            simp only [hro, Bool.not_true, Bool.false_eq_true, if_false] at h
            cases hf2 : findStartLoc cs p.obs.batch.length with
            | none => simp [hf2, throw, throwThe, MonadExceptOf.throw] at h
            | some loc =>
              simp only [hf2, pure, Except.pure, Except.ok.injEq] at h
              exact ⟨cs, loc, _, _, Or.inr ⟨rfl, hro⟩, hf2, rfl, h.symm⟩

theorem SInv_of_R (sv : Server) (pend : Nat → List Tok) (n : Nat) (hn : n = sv.seqs.length) (h : R sv pend n n) :
    SInv sv := by
  have hdn : ∀ i sq, Live sv i sq → sq.pending = [] ∧ pend sq.slot = [] := fun i sq hl =>
    h.dn i sq hl (by rw [hn]; exact live_lt _ _ _ hl)
  have hp : ∀ j, j < sv.cache.slots.length → pend j = [] := by
    intro j hj
    by_cases hex : ∃ i sq, Live sv i sq ∧ sq.slot = j
    · obtain ⟨i, sq, hl, rfl⟩ := hex; exact (hdn i sq hl).2
    · exact h.np j hj (fun i sq hl e => hex ⟨i, sq, hl, e⟩)
  refine ⟨⟨h.pc.1, fun j hj => ?_⟩, h.cfg, h.own, ?_, fun i sq hl => (hdn i sq hl).1⟩
  · obtain ⟨hid, hok⟩ := h.pc.2 j hj
    rw [hp j hj, slot_append_nil] at hok
    exact ⟨hid, hok⟩
  · intro j hj
    have := h.lenb j hj
    omega

/-- **processBatch keeps the runner's invariant.**  For every server state satisfying `SInv` (plain causal
    cache, failed-shift reset = MaxInt32), any number of live sequences batched together, any batch size,
    shifts on either path, stop cuts and releases: if the executable `processBatch` of the model — the
    function the oracle runs and L1 compares with the real code after every event — returns normally, the
    cache is coherent again, every live sequence still owns its slot exclusively, no record exceeds the
    context, and nothing is left pending. -/
theorem processBatch_SInv (sv : Server) (adopt : Option (List Cell)) (sv' : Server) (o : StepObs)
    (hinv : SInv sv) (h : processBatch sv adopt = .ok (sv', o)) :
    SInv sv' ∧ sv'.seqs.length = sv.seqs.length := by
  obtain ⟨p, hp1, hrest⟩ := processBatch_unfold sv adopt sv' o h
  have hP0 : PInv (ph1Init sv).sv (ph1Init sv).obs.batch (fun _ => []) := by
    refine ⟨hinv.coh, hinv.cfg, hinv.own, ⟨fun j hj => ⟨rfl, by have := hinv.lenb j hj; simp only [ph1Init, List.length_nil, Nat.add_zero]; exact this⟩, fun t ht => by cases ht⟩,
      fun i sq hl => hinv.idle i sq hl, fun _ _ _ => rfl⟩
  obtain ⟨⟨pend, hP⟩, hlen, hbo⟩ := phase1_PInv sv.seqs.length (ph1Init sv) p hp1 (Nat.le_refl _)
    (fun i sq hl hne => absurd (hinv.idle i sq hl) hne) ⟨_, hP0⟩ (by
      unfold BO ph1Init
      refine ⟨?_, ?_, rfl⟩
      · intro t ht; cases ht
      · intro bi hbi; cases hbi)
  have hlen' : p.sv.seqs.length = sv.seqs.length := hlen
  have hpu : ∀ j, j < p.sv.cache.slots.length → pend j ≠ [] → (getSlot p.sv.cache.slots j).inUse = true := by
    intro j hj hne
    by_cases hex : ∃ i sq, Live p.sv i sq ∧ sq.slot = j
    · obtain ⟨i, sq, hl, rfl⟩ := hex; exact (hP.own.valid i sq hl).2
    · exact absurd (hP.np j hj (fun i sq hl e => hex ⟨i, sq, hl, e⟩)) hne
  rcases hrest with ⟨hb, hc, hs⟩ | ⟨hb, cells, loc, logits, nx, hcells, hfind, _, hres⟩
  · -- nothing to decode
    have hpn : ∀ j, j < p.sv.cache.slots.length → pend j = [] := by
      intro j hj
      have := (hP.bv.1 j hj).1
      rw [hb] at this
      exact canonFrom_eq_nil _ _ this.symm
    have hlive : ∀ i sq, Live sv' i sq → Live p.sv i sq := by
      intro i sq hl; unfold Live at hl ⊢; rw [← hs]; exact hl
    refine ⟨⟨by rw [hc]; exact hP.coh, by rw [hc]; exact hP.cfg, ⟨?_, ?_⟩, ?_, ?_⟩, by rw [hs]; exact hlen'⟩
    · intro i sq hl; rw [hc]; exact hP.own.valid i sq (hlive i sq hl)
    · intro i i' sq sq' h1 h2 he; exact hP.own.distinct i i' sq sq' (hlive _ _ h1) (hlive _ _ h2) he
    · intro j hj
      rw [hc] at hj ⊢
      have := (hP.bv.1 j hj).2; omega
    · intro i sq hl
      have hl' := hlive i sq hl
      rw [hP.lp i sq hl']
      exact hpn _ (hP.own.valid i sq hl').1
  · -- Forward: StartForward (+ defrag), Put; then the per-sequence loop
    have hwin : p.sv.cache.window = none := hP.cfg.win
    have hrel : (∀ s, s < p.sv.cache.slots.length → (view cells s).Perm (view p.sv.cache.cells s)) ∧ PosBound cells := by
      rcases hcells with ⟨rfl, _⟩ | ⟨_, hro⟩
      · rw [hwin]; exact ⟨fun s _ => List.Perm.refl _, hP.coh.1⟩
      · rw [hwin] at hro; exact relocOK_spec _ _ _ hro
    have hfree := findStartLoc_free cells _ loc hfind
    have hpc := store_PC p.sv.cache p.obs.batch pend loc cells hP.coh hP.cfg hP.bv hpu hrel.1 hrel.2 hfree
    have hR0 : R { p.sv with nextSeq := nx, cache := { p.sv.cache with cells := store cells loc p.obs.batch } } pend 0 0 :=
      ⟨hpc, ⟨hP.cfg.win, hP.cfg.fix, hP.cfg.ctx⟩, ⟨hP.own.valid, hP.own.distinct⟩, fun j hj => (hP.bv.1 j hj).2, hP.np,
        fun i sq _ hlt => by omega, fun i sq hl _ => hP.lp i sq hl⟩
    obtain ⟨⟨pend', hR⟩, hl3⟩ := phase3_R logits sv.seqs.length 0 _ { p.obs with outs := (p.outs.zip logits).map fun (bi, t) => ((p.obs.batch.getD bi ⟨0, 0, 0⟩).seq, t) } pend hR0
    rw [← hres] at hR hl3
    simp only at hR hl3
    rw [Nat.zero_add] at hR
    have hl4 : sv'.seqs.length = sv.seqs.length := hl3.trans hlen'
    exact ⟨SInv_of_R sv' pend' _ hl4.symm hR, hl4⟩

/-! ## what processBatch samples depends only on the effective input -/

theorem phase3Seq_outs (logits : List Tok) (i : Nat) (sv : Server) (o : StepObs) (sq : Seq) :
    (phase3Seq logits i sv o sq).2.outs = o.outs := by
  unfold phase3Seq
  simp only
  split
  · rfl
  · split
    · exact removeSequence_outs ..
    · split
      · exact removeSequence_outs ..
      · split
        · rfl
        · simp only; split <;> rfl

theorem phase3_outs (logits : List Tok) : ∀ (k i : Nat) (sv : Server) (o : StepObs),
    (phase3 logits k i sv o).2.outs = o.outs := by
  intro k
  induction k with
  | zero => intro i sv o; rfl
  | succ k ih =>
    intro i sv o
    unfold phase3
    split
    · exact ih ..
    · simp only; rw [ih, phase3Seq_outs]

theorem getD_mem {α} (l : List α) (i : Nat) (d : α) (h : i < l.length) : l.getD i d ∈ l := by
  rw [List.getD_eq_getElem?_getD, List.getElem?_eq_getElem h]
  exact List.getElem_mem h

theorem mem_zip_map {α β} (f : α → β) : ∀ (l : List α) (a : α) (b : β), (a, b) ∈ l.zip (l.map f) → a ∈ l ∧ b = f a := by
  intro l
  induction l with
  | nil => intro a b h; simp at h
  | cons x xs ih =>
    intro a b h
    simp only [List.map_cons, List.zip_cons_cons, List.mem_cons, Prod.mk.injEq] at h
    rcases h with ⟨rfl, rfl⟩ | h
    · exact ⟨List.mem_cons_self .., rfl⟩
    · obtain ⟨h1, h2⟩ := ih a b h
      exact ⟨List.mem_cons_of_mem _ h1, h2⟩

theorem key_mem_view (batch : List BTok) (b : BTok) (h : b ∈ batch) :
    b.cell.key ∈ view (batch.map BTok.cell) b.seq := by
  unfold view
  apply List.mem_map.mpr
  refine ⟨b.cell, List.mem_filter.mpr ⟨List.mem_map.mpr ⟨b, h, rfl⟩, ?_⟩, rfl⟩
  simp [BTok.cell, Cell.has]

/-- **The tokens processBatch samples are a function of the effective input only.**  For every output of a
    pass (slot `j`, token `t`): `t` is the scripted model's answer to `record ++ pending` of slot `j` — the
    slot's record when Forward starts followed by its own inputs of this batch — seen up to the output's
    position, each input at its own position; i.e. what a fresh runner with an empty cache is shown when it
    processes that effective input from position 0 (`forward_exposes` on a new cache).  Whatever prefixes were
    reused, forked or shifted before, and whatever other sequences share the batch. -/
theorem processBatch_outputs (sv : Server) (adopt : Option (List Cell)) (sv' : Server) (o : StepObs)
    (hinv : SInv sv) (h : processBatch sv adopt = .ok (sv', o)) :
    ∃ (p : Ph1) (pend : Nat → List Tok), phase1 sv.seqs.length (ph1Init sv) = .ok p ∧
      ∀ x ∈ o.outs, x.1 < p.sv.cache.slots.length ∧ ∃ pos : Nat,
        (getSlot p.sv.cache.slots x.1).inputs.length ≤ pos ∧
        pos < (getSlot p.sv.cache.slots x.1).inputs.length + (pend x.1).length ∧
        x.2 = nextTok p.sv.vocab p.sv.eosMod (idealHistory ((getSlot p.sv.cache.slots x.1).inputs ++ pend x.1) pos) := by
  obtain ⟨p, hp1, hrest⟩ := processBatch_unfold sv adopt sv' o h
  have hP0 : PInv (ph1Init sv).sv (ph1Init sv).obs.batch (fun _ => []) := by
    refine ⟨hinv.coh, hinv.cfg, hinv.own, ⟨fun j hj => ⟨rfl, by have := hinv.lenb j hj; simp only [ph1Init, List.length_nil, Nat.add_zero]; exact this⟩, fun t ht => by cases ht⟩,
      fun i sq hl => hinv.idle i sq hl, fun _ _ _ => rfl⟩
  obtain ⟨⟨pend, hP⟩, hlen, hbo⟩ := phase1_PInv sv.seqs.length (ph1Init sv) p hp1 (Nat.le_refl _)
    (fun i sq hl hne => absurd (hinv.idle i sq hl) hne) ⟨_, hP0⟩ (by
      unfold BO ph1Init
      refine ⟨?_, ?_, rfl⟩
      · intro t ht; cases ht
      · intro bi hbi; cases hbi)
  refine ⟨p, pend, hp1, ?_⟩
  have hpu : ∀ j, j < p.sv.cache.slots.length → pend j ≠ [] → (getSlot p.sv.cache.slots j).inUse = true := by
    intro j hj hne
    by_cases hex : ∃ i sq, Live p.sv i sq ∧ sq.slot = j
    · obtain ⟨i, sq, hl, rfl⟩ := hex; exact (hP.own.valid i sq hl).2
    · exact absurd (hP.np j hj (fun i sq hl e => hex ⟨i, sq, hl, e⟩)) hne
  rcases hrest with ⟨hb, _, _⟩ | ⟨hb, cells, loc, logits, nx, hcells, hfind, hlog, hres⟩
  · -- nothing decoded: no outputs (processBatch returns phase1's observations)
    intro x hx
    exfalso
    have ho : o = p.obs := by
      unfold processBatch at h
      simp only [bind, Except.bind] at h
      have hp1' := hp1
      unfold ph1Init at hp1'
      simp only [hp1', hb, List.isEmpty_nil, if_true, pure, Except.pure, Except.ok.injEq, Prod.mk.injEq] at h
      exact h.2.symm
    rw [ho, hbo.2.2] at hx
    cases hx
  · have hwin : p.sv.cache.window = none := hP.cfg.win
    have hrel : (∀ s, s < p.sv.cache.slots.length → (view cells s).Perm (view p.sv.cache.cells s)) ∧ PosBound cells := by
      rcases hcells with ⟨rfl, _⟩ | ⟨_, hro⟩
      · rw [hwin]; exact ⟨fun s _ => List.Perm.refl _, hP.coh.1⟩
      · rw [hwin] at hro; exact relocOK_spec _ _ _ hro
    have hfree := findStartLoc_free cells _ loc hfind
    have hpc := store_PC p.sv.cache p.obs.batch pend loc cells hP.coh hP.cfg hP.bv hpu hrel.1 hrel.2 hfree
    have houts : o.outs = (p.outs.zip logits).map fun (bi, t) => ((p.obs.batch.getD bi ⟨0, 0, 0⟩).seq, t) := by
      have : o = (phase3 logits sv.seqs.length 0
          { p.sv with nextSeq := nx, cache := { p.sv.cache with cells := store cells loc p.obs.batch } }
          { p.obs with outs := (p.outs.zip logits).map fun (bi, t) => ((p.obs.batch.getD bi ⟨0, 0, 0⟩).seq, t) }).2 := by
        rw [← hres]
      rw [this, phase3_outs]
    intro x hx
    rw [houts] at hx
    obtain ⟨⟨bi, t⟩, hmem, rfl⟩ := List.mem_map.mp hx
    rw [hlog] at hmem
    obtain ⟨hbi, ht⟩ := mem_zip_map _ _ _ _ hmem
    simp only
    have hbl := hbo.2.1 bi hbi
    have hb := getD_mem p.obs.batch bi ⟨0, 0, 0⟩ hbl
    generalize p.obs.batch.getD bi ⟨0, 0, 0⟩ = b at hb ht ⊢
    have hj : b.seq < p.sv.cache.slots.length := hbo.1 b hb
    obtain ⟨hv, hl⟩ := hP.bv.1 b.seq hj
    have hkey := key_mem_view p.obs.batch b hb
    rw [hv] at hkey
    have hrange := canonFrom_mem _ _ _ hkey
    simp only [BTok.cell, Cell.key] at hrange
    have hpne : pend b.seq ≠ [] := by
      intro hnil; rw [hnil] at hkey; cases hkey
    have hu := hpu b.seq hj hpne
    refine ⟨hj, b.pos, by omega, by omega, ?_⟩
    rw [ht, hwin]
    apply nextTok_perm
    obtain ⟨hid, hok⟩ := hpc.2 b.seq hj
    simp only at hid hok
    rw [getSlot_eq _ _ hj] at hu ⊢
    have hall := hok.2 hu
    have hV := hok.1
    simp only [hid] at hall hV
    rw [filter_all _ _ (fun x hx => by simpa using hall x hx)] at hV
    show (visible (store cells loc p.obs.batch) b.seq (b.pos : Int)).Perm _
    rw [visible_eq_view]
    unfold idealHistory
    exact (hV.filter _).map _

/-- the right-hand side of `processBatch_outputs` is what a fresh runner produces: any coherent cache whose
    slot `i` has an empty record (a new runner after LoadCacheSlot, or one that erased everything) and that
    processes the whole effective input `eff` from position 0 shows exactly `idealHistory eff p` at position `p` -/
theorem ideal_is_fresh (vocab eosMod : Nat) (fresh : Cache) (hf : Coherent fresh) (i : Nat) (hif : i < fresh.slots.length)
    (eff : List Tok) (locf : Nat) (huf : (getSlot fresh.slots i).inUse = true)
    (hempty : (getSlot fresh.slots i).inputs = [])
    (hfreef : ∀ x ∈ (fresh.cells.drop locf).take eff.length, x.seqs = [])
    (hpos : (eff.length : Int) < maxI32) (p : Int) :
    nextTok vocab eosMod (idealHistory eff p) =
      nextTok vocab eosMod (visible (forward fresh i eff locf).cells i p) := by
  have h2 := forward_exposes fresh hf i hif eff locf huf hfreef
    (by rw [hempty]; simp only [List.length_nil]; omega) p
  rw [hempty, List.nil_append] at h2
  exact (nextTok_perm _ _ _ _ h2).symm

/-- non-vacuity of `ideal_is_fresh` / `processBatch_outputs`: in the demo history the first pass batches the
    prompts' first inputs; a brand-new runner that loads `1 2 3 4` and forwards it meets every hypothesis -/
example : ∃ c1 i rest,
    loadCacheSlot (mkServer maxI32 2 6 2 true true 7 0).cache [1, 2, 3, 4] 1 (fun _ _ _ => true) = .ok (c1, i, rest) ∧
    rest = [1, 2, 3, 4] ∧ (getSlot c1.slots i).inputs = [] ∧ (getSlot c1.slots i).inUse = true ∧
    (∀ x ∈ (c1.cells.drop 0).take 4, x.seqs = []) := by
  refine ⟨_, _, _, rfl, rfl, rfl, rfl, by decide⟩

/-! ## fresh-runner equivalence chained over a generation (no overflow in between) -/

/-- greedy generation for the request owning slot `i`: Forward of `ins` (any free placement), the token for the
    last position is sampled and fed back as the next input; `out` are the tokens sampled -/
inductive Gen (vocab eosMod : Nat) (i : Nat) : Cache → List Tok → List Tok → Prop
  | nil (c : Cache) (ins : List Tok) : Gen vocab eosMod i c ins []
  | cons (c : Cache) (ins : List Tok) (loc : Nat) (t : Tok) (out : List Tok) :
      ins ≠ [] → i < c.slots.length → (getSlot c.slots i).inUse = true →
      (∀ x ∈ (c.cells.drop loc).take ins.length, x.seqs = []) →
      ((getSlot c.slots i).inputs.length : Int) + ins.length < maxI32 →
      t = nextTok vocab eosMod (visible (forward c i ins loc).cells i
            (((getSlot c.slots i).inputs.length + ins.length - 1 : Nat) : Int)) →
      Gen vocab eosMod i (forward c i ins loc) [t] out → Gen vocab eosMod i c ins (t :: out)

/-- what the scripted model generates for an effective input, with no cache at all -/
def genIdeal (vocab eosMod : Nat) : List Tok → Nat → List Tok
  | _, 0 => []
  | eff, n + 1 =>
    let t := nextTok vocab eosMod (idealHistory eff ((eff.length - 1 : Nat) : Int))
    t :: genIdeal vocab eosMod (eff ++ [t]) n

theorem forward_record (c : Cache) (i : Nat) (hi : i < c.slots.length) (new : List Tok) (loc : Nat) :
    (getSlot (forward c i new loc).slots i).inputs = (getSlot c.slots i).inputs ++ new := by
  unfold forward
  simp only [getSlot_setSlot_same _ _ _ hi]

/-- **Generation from any coherent cache depends only on the effective input**: all tokens of a greedy
    generation (each fed back through the cache) are those of `genIdeal (record ++ ins)`. -/
theorem gen_ideal (vocab eosMod i : Nat) (c : Cache) (ins out : List Tok) (h : Gen vocab eosMod i c ins out) :
    Coherent c → out = genIdeal vocab eosMod ((getSlot c.slots i).inputs ++ ins) out.length := by
  induction h with
  | nil c ins => intro _; rfl
  | cons c ins loc t out hne hi hu hfree hpos ht _ ih =>
    intro hc
    have hexp := forward_exposes c hc i hi ins loc hu hfree hpos
      (((getSlot c.slots i).inputs.length + ins.length - 1 : Nat) : Int)
    have hlen : ((getSlot c.slots i).inputs ++ ins).length - 1 = (getSlot c.slots i).inputs.length + ins.length - 1 := by
      simp only [List.length_append]
    have ht' : t = nextTok vocab eosMod (idealHistory ((getSlot c.slots i).inputs ++ ins)
        ((((getSlot c.slots i).inputs ++ ins).length - 1 : Nat) : Int)) := by
      rw [ht, hlen]; exact nextTok_perm _ _ _ _ hexp
    have hc' := coherent_forward c hc i hi ins loc hu hfree hpos
    have := ih hc'
    rw [forward_record c i hi] at this
    simp only [List.length_cons, genIdeal]
    rw [← ht', ← this]

/-- **Fresh-runner equivalence over a whole generation.**  A request that resumes on a cached prefix (any
    coherent cache: reuse, fork, earlier shifts) and a fresh runner whose slot record is empty and which processes
    the whole effective input `record ++ rest` generate the same tokens, as long as neither overflows the context
    in between (an overflow changes the effective input by a shift; the shift itself is covered by the invariant). -/
theorem fresh_equiv_generation (vocab eosMod i : Nat) (c fresh : Cache) (rest out out' : List Tok)
    (hc : Coherent c) (hf : Coherent fresh) (hempty : (getSlot fresh.slots i).inputs = [])
    (hg : Gen vocab eosMod i c rest out)
    (hg' : Gen vocab eosMod i fresh ((getSlot c.slots i).inputs ++ rest) out') (hlen : out.length = out'.length) :
    out = out' := by
  have h1 := gen_ideal vocab eosMod i c rest out hg hc
  have h2 := gen_ideal vocab eosMod i fresh _ out' hg' hf
  rw [hempty, List.nil_append, ← hlen] at h2
  rw [h1, h2]

/-- a new runner after `LoadCacheSlot [1, 2, 3]` -/
def genDemoC : Cache :=
  match loadCacheSlot (mkServer maxI32 2 8 4 true true 5 0).cache [1, 2, 3] 1 (fun _ _ _ => true) with
  | .ok (c, _, _) => c
  | .error _ => (mkServer maxI32 2 8 4 true true 5 0).cache

/-- non-vacuity: the new runner generates two tokens through the cache (slot 0, prompt at cells 0–2, then cell 3) -/
example : Gen 5 0 0 genDemoC [1, 2, 3] (genIdeal 5 0 [1, 2, 3] 2) := by
  show Gen 5 0 0 genDemoC [1, 2, 3] [_, _]
  refine .cons _ _ 0 _ _ (by decide) (by decide) (by decide) (by decide) (by decide) (by decide) ?_
  refine .cons _ _ 3 _ _ (by decide) (by decide) (by decide) (by decide) (by decide) (by decide) ?_
  exact .nil _ _

/-! ## admission (`completion`'s slot-loading block) and whole histories -/

/-- what a successful LoadCacheSlot does to the slots, for a coherent cache -/
theorem load_facts (c : Cache) (hc : Coherent c) (prompt : List Tok) (now : Nat) (cr : CanRes) (c' : Cache) (i : Nat)
    (rest : List Tok) (h : loadCacheSlot c prompt now cr = .ok (c', i, rest)) :
    c'.numCtx = c.numCtx ∧ c'.window = c.window ∧ c'.slots.length = c.slots.length ∧ i < c.slots.length ∧
      (getSlot c.slots i).inUse = false ∧ (getSlot c'.slots i).inUse = true ∧
      (∀ N, (∀ j, j < c.slots.length → (getSlot c.slots j).inputs.length ≤ N) →
        (getSlot c'.slots i).inputs.length ≤ N) := by
  obtain ⟨c1, i0, n, hf, ht⟩ := load_split c prompt now cr c' i rest h
  have sp := findSlot_spec c prompt now c1 i0 n hf
  have hc1 := coherent_find c hc prompt c1 i0 n sp
  obtain ⟨m, _, _, rfl, _, hs⟩ := loadTail_shape c1 i0 n prompt now cr c' i rest ht
  obtain ⟨m', _, hc'⟩ := loadTail_ok c1 i n prompt now cr hc1.1 c' i rest ht
  have hi1 : i < c1.slots.length := by rw [findSpec_length sp]; exact sp.valid
  have hlen : c'.slots.length = c.slots.length := by rw [hs, setSlot_length, findSpec_length sp]
  have hnum : c'.numCtx = c.numCtx ∧ c'.window = c.window := by
    rw [hc']
    rcases sp.shape with rfl | ⟨li, _, _, _, rfl⟩ <;> exact ⟨rfl, rfl⟩
  refine ⟨hnum.1, hnum.2, hlen, sp.valid, sp.free, ?_, ?_⟩
  · rw [hs, getSlot_setSlot_same _ _ _ hi1]
  · intro N hN
    rw [hs, getSlot_setSlot_same _ _ _ hi1]
    simp only [List.length_take]
    rcases sp.shape with rfl | ⟨li, hli, _, _, rfl⟩
    · have := hN i sp.valid; omega
    · simp only [getSlot_setSlot_same _ _ _ sp.valid, List.length_take]
      have := hN li hli; omega

/-- LoadCacheSlot on the server: the invariant is kept and the returned slot belongs to no live sequence -/
theorem SInv_load (sv : Server) (h : SInv sv) (prompt : List Tok) (now : Nat) (cr : CanRes) (c : Cache) (si : Nat)
    (rest : List Tok) (hload : loadCacheSlot sv.cache prompt now cr = .ok (c, si, rest)) :
    SInv { sv with cache := c } ∧ si < c.slots.length ∧ (getSlot c.slots si).inUse = true ∧
      ∀ i sq, Live sv i sq → sq.slot ≠ si := by
  obtain ⟨hnum, hwin, hlen, hsi, hfree, hused, hrec⟩ := load_facts sv.cache h.coh prompt now cr c si rest hload
  obtain ⟨hcoh, hre⟩ := load_coherent sv.cache h.coh prompt now cr c si rest hload
  have hother := load_other_records sv.cache prompt now cr c si rest hload
  have hfresh : ∀ i sq, Live sv i sq → sq.slot ≠ si := by
    intro i sq hl e
    have := (h.own.valid i sq hl).2
    rw [e, hfree] at this; cases this
  refine ⟨⟨hcoh, ⟨hwin.trans h.cfg.win, hre.trans h.cfg.fix, by rw [hnum]; exact h.cfg.ctx⟩, ⟨?_, h.own.distinct⟩, ?_, h.idle⟩,
    by rw [hlen]; exact hsi, hused, hfresh⟩
  · intro i sq hl
    obtain ⟨h1, h2⟩ := h.own.valid i sq hl
    exact ⟨by simp only [hlen]; exact h1, by simp only; rw [hother _ (hfresh i sq hl)]; exact h2⟩
  · intro j hj
    simp only [hlen] at hj
    simp only [hnum]
    by_cases hjs : j = si
    · rw [hjs]; exact hrec _ h.lenb
    · rw [hother j hjs]; exact h.lenb j hj

/-- the new Sequence is entered into `s.seqs` with the slot LoadCacheSlot returned -/
theorem SInv_admit (sv : Server) (h : SInv sv) (i si : Nat) (sq : Seq) (hi : i < sv.seqs.length)
    (hsi : si < sv.cache.slots.length) (hu : (getSlot sv.cache.slots si).inUse = true)
    (hfresh : ∀ i' s', Live sv i' s' → s'.slot ≠ si) (hslot : sq.slot = si) (hp : sq.pending = []) :
    SInv { sv with seqs := sv.seqs.set i (some sq) } := by
  have hlive : ∀ i' s', Live { sv with seqs := sv.seqs.set i (some sq) } i' s' →
      (i' = i ∧ s' = sq) ∨ (i' ≠ i ∧ Live sv i' s') := by
    intro i' s' h'
    unfold Live at h'
    simp only at h'
    rcases (live_set _ _ _ hi _ _).mp h' with ⟨h1, h2⟩ | h2
    · exact Or.inl ⟨h1, by simpa using h2.symm⟩
    · exact Or.inr h2
  refine ⟨h.coh, h.cfg, ⟨?_, ?_⟩, h.lenb, ?_⟩
  · intro i' s' h'
    rcases hlive i' s' h' with ⟨_, rfl⟩ | ⟨_, hold⟩
    · rw [hslot]; exact ⟨hsi, hu⟩
    · exact h.own.valid i' s' hold
  · intro i1 i2 s1 s2 h1 h2 he
    rcases hlive i1 s1 h1 with ⟨e1, rfl⟩ | ⟨n1, o1⟩ <;> rcases hlive i2 s2 h2 with ⟨e2, rfl⟩ | ⟨n2, o2⟩
    · rw [e1, e2]
    · rw [hslot] at he; exact absurd he.symm (hfresh i2 s2 o2)
    · rw [hslot] at he; exact absurd he (hfresh i1 s1 o1)
    · exact h.own.distinct i1 i2 s1 s2 o1 o2 he
  · intro i' s' h'
    rcases hlive i' s' h' with ⟨_, rfl⟩ | ⟨_, hold⟩
    · exact hp
    · exact h.idle i' s' hold

/-- **One event of a history keeps the invariant**: a request admitted by the slot-loading block of
    `completion` (NewSequence, free entry, LoadCacheSlot, new Sequence), a load with every entry busy, or a
    `processBatch`. -/
theorem runEvent_SInv (sv : Server) (now : Nat) (e : Event) (sv' : Server) (h : SInv sv)
    (hr : (runEvent sv now e).2 = some sv') : SInv sv' := by
  cases e with
  | req keep np stops prompt =>
    unfold runEvent at hr
    simp only at hr
    split at hr
    · simp only [Option.some.injEq] at hr; subst hr; exact h
    · split at hr
      · simp only [Option.some.injEq] at hr; subst hr; exact h
      · next i hfi =>
        split at hr
        · simp only [Option.some.injEq] at hr; subst hr; exact h
        · next c si rest hload =>
          simp only [Option.some.injEq] at hr
          subst hr
          obtain ⟨h1, h2, h3, h4⟩ := SInv_load sv h _ now _ c si rest hload
          have hi : i < sv.seqs.length := by
            have := (List.findIdx?_eq_some_iff_getElem.mp hfi)
            exact this.1
          exact SInv_admit { sv with cache := c } h1 i si _ hi h2 h3 h4 rfl rfl
  | busy prompt =>
    unfold runEvent at hr
    simp only at hr
    split at hr
    · simp only [Option.some.injEq] at hr; subst hr; exact h
    · simp only [Option.some.injEq] at hr; subst hr; exact h
    · next c si rest hload =>
      simp only [Option.some.injEq] at hr
      subst hr
      exact (SInv_load sv h _ now _ c si rest hload).1
  | step adopt =>
    unfold runEvent at hr
    simp only at hr
    split at hr
    · simp only [Option.some.injEq] at hr; subst hr; exact h
    · split at hr
      · cases hr
      · cases hr
      · next svn o hpb =>
        simp only [Option.some.injEq] at hr
        subst hr
        exact (processBatch_SInv sv adopt _ o h hpb).1

/-- **Every reachable state of the executable model satisfies the invariant** (induction over the event
    list of `runEvents`, the function the oracle folds over a `hist` line). -/
theorem runEvents_SInv : ∀ (evs : List Event) (sv : Server) (now : Nat) (sv' : Server), SInv sv →
    runEvents sv evs now = some sv' → SInv sv' := by
  intro evs
  induction evs with
  | nil => intro sv now sv' h hr; simp only [runEvents, Option.some.injEq] at hr; subst hr; exact h
  | cons e es ih =>
    intro sv now sv' h hr
    unfold runEvents at hr
    cases hre : (runEvent sv now e).2 with
    | none => simp [hre] at hr
    | some sv1 =>
      simp only [hre] at hr
      exact ih sv1 (now + 1) sv' (runEvent_SInv sv now e sv1 h hre) hr

/-- a brand-new runner (plain causal cache, repaired reset, context below 2^31) satisfies the invariant -/
theorem SInv_init (parallel ctx batch : Nat) (multi canShift : Bool) (vocab eosMod : Nat) (se cc : Bool)
    (hctx : (ctx : Int) < maxI32) :
    SInv { mkServer maxI32 parallel ctx batch multi canShift vocab eosMod with stopEarliest := se, crCounted := cc } := by
  have hnone : ∀ i sq, ¬ Live { mkServer maxI32 parallel ctx batch multi canShift vocab eosMod with stopEarliest := se, crCounted := cc } i sq := by
    intro i sq hl
    unfold Live mkServer at hl
    simp only at hl
    rcases Nat.lt_or_ge i parallel with h1 | h1
    · rw [List.getElem?_replicate_of_lt h1] at hl; cases hl
    · rw [List.getElem?_eq_none (by simpa using h1)] at hl; cases hl
  refine ⟨coherent_init maxI32 parallel ctx batch multi canShift vocab eosMod, ⟨rfl, rfl, hctx⟩,
    ⟨fun i sq hl => absurd hl (hnone i sq), fun i _ sq _ hl => absurd hl (hnone i sq)⟩, ?_, fun i sq hl => absurd hl (hnone i sq)⟩
  intro j hj
  simp only [mkServer, List.length_map, List.length_range] at hj
  have : getSlot ((List.range parallel).map fun i => (⟨i, [], false, 0⟩ : Slot)) j = ⟨j, [], false, 0⟩ := by
    rw [getSlot_eq _ _ (by simpa using hj)]; simp
  simp only [mkServer, this, List.length_nil]; omega

/-- **C07, clauses 1 and 2, for every history of the executable model.**  Start a new runner (any number of
    slots, context size, batch size, slot policy, with or without shiftFn; plain causal cache; tree's reset
    value), run ANY list of events (requests with any prompt / keep / numPredict / stop strings, loads with
    every entry busy, processBatch passes with or without a layout adopted after a defrag).  If the run does not abort, then in the state reached the cached
    contents of every slot correspond exactly to the slot's recorded inputs, and every live sequence owns
    an in-use slot that no other live sequence has. -/
theorem reachable_coherent_owned (parallel ctx batch : Nat) (multi canShift : Bool) (vocab eosMod : Nat) (se cc : Bool)
    (hctx : (ctx : Int) < maxI32) (evs : List Event) (sv : Server)
    (hr : runEvents { mkServer maxI32 parallel ctx batch multi canShift vocab eosMod with stopEarliest := se, crCounted := cc } evs 1 = some sv) :
    Coherent sv.cache ∧ Owned sv := by
  have := runEvents_SInv evs _ 1 sv (SInv_init parallel ctx batch multi canShift vocab eosMod se cc hctx) hr
  exact ⟨this.coh, this.own⟩

/-! ## non-vacuity: a concrete history that meets every hypothesis

  Two slots, context 6, batch size 2, multi-user policy, shiftFn present.  Two concurrent requests (shared
  prefix `1 2`, so their runs are interleaved in mixed batches), the first one generating past the context
  (two successful shifts with `numKeep = 1`), the second one ending by numPredict; then a third request with
  a stop string that reuses the prefix `1 2` of the released slot's record `1 2 5 4 2`. -/

def demoSv : Server := { mkServer maxI32 2 6 2 true true 7 0 with stopEarliest := true, crCounted := true }

def demoEvs : List Event :=
  [.req 1 9 [] [1, 2, 3, 4], .req 0 3 [] [1, 2, 5]] ++ List.replicate 9 (.step none) ++
  [.req 0 2 [['b']] [1, 2, 3]] ++ List.replicate 3 (.step none)

/-- the history runs to the end; final records and ownership flags -/
theorem demo_runs :
    (runEvents demoSv demoEvs 1).map (fun sv => (sv.cache.slots.map (·.inputs), sv.cache.slots.map (·.inUse))) =
      some ([[1, 1, 3, 4, 0, 3], [1, 2, 3, 2]], [false, false]) := by decide

/-- after the 7th event (5 processBatch passes, both requests in every batch) the first slot's record has been
    shifted (`1 2 3 4 0 3` → `1 4 0 3 1`) while the second request is still live -/
theorem demo_mid :
    (runEvents demoSv (demoEvs.take 8) 1).map (fun sv => (sv.cache.slots.map (·.inputs), sv.seqs.map (·.isSome))) =
      some ([[1, 4, 0, 3, 1], [1, 2, 5, 4, 2]], [true, true]) := by decide

example : ∃ sv, runEvents demoSv demoEvs 1 = some sv ∧ Coherent sv.cache ∧ Owned sv := by
  cases h : runEvents demoSv demoEvs 1 with
  | none => have := demo_runs; rw [h] at this; cases this
  | some sv =>
    exact ⟨sv, rfl, reachable_coherent_owned 2 6 2 true true 7 0 true true (by decide) demoEvs sv h⟩

example : ∃ ins k, newSequence 4 [1, 2, 3, 4, 5, 6, 7] 2 = .ok (ins, k) ∧ ins = [1, 2, 6, 7] ∧ k = 2 := ⟨_, _, rfl, rfl, rfl⟩

end OllamaVerif.C07
