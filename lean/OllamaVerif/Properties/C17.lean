/-
  C17 — Streaming, non-streaming and OpenAI-compatible responses carry the same result.

  Property theorems over Model/Stream.lean (helper lemmas in Proofs/Stream.lean).  All theorems
  quantify over EVERY chunk list (= every split of every output), every prompt length, every
  `parse` function; nothing is bounded.
-/
import OllamaVerif.Proofs.Stream

namespace OllamaVerif.C17
open OllamaVerif OllamaVerif.Stream

/-! ## What "the same model output" means -/

/-- what survives of the runner output besides the text: the last chunk's done flag, reason, counts -/
def finalOf : List Chunk → Option (Bool × Nat × Nat × Nat)
  | [] => none
  | c :: cs => let l := lastOr c cs; some (l.done, l.reason, l.pec, l.ec)

/-- two chunk lists are splits of the same output -/
def SameOutput (a b : List Chunk) : Prop := texts a = texts b ∧ finalOf a = finalOf b

instance (a b : List Chunk) : Decidable (SameOutput a b) := by unfold SameOutput; infer_instance

/-! ## /api/generate -/

/-- **Stream concatenation = non-stream reply (generate).**  For every chunk list: the reply of
    `stream:false` is the LAST streamed message with its `response` replaced by the concatenation of
    all streamed `response` fields, that concatenation is the model output, and the stream carries no
    error. -/
theorem generate_equiv (raw : Bool) (pl : Nat) (cs : List Chunk) :
    let st := msgsOf (genStream raw pl cs .ok)
    genOnce raw pl cs .ok = .ok { lastOr default st with resp := (st.map (·.resp)).flatten }
    ∧ (st.map (·.resp)).flatten = texts cs
    ∧ errsOf (genStream raw pl cs .ok) = [] := by
  intro st
  have hst : st = genCallback raw pl cs [] := by
    simp only [st, genStream, genChan]; exact msgsOf_chan _ _
  refine ⟨?_, ?_, ?_⟩
  · unfold genOnce genChan
    rw [onceLoop_chan, hst]
  · rw [hst, genCallback_resp]; rfl
  · simp only [genStream, genChan]; rw [errsOf_chan]

/-- **Re-splitting does not change the non-stream reply (generate)**, nor the error. -/
theorem generate_resplit (raw : Bool) (pl : Nat) (a b : List Chunk) (e : End) (h : SameOutput a b) :
    genOnce raw pl a e = genOnce raw pl b e := by
  cases e with
  | err m => rw [genOnce_err, genOnce_err]
  | ok =>
    obtain ⟨ht, hf⟩ := h
    cases a with
    | nil =>
      cases b with
      | nil => rfl
      | cons c cs => simp [finalOf] at hf
    | cons c cs =>
      cases b with
      | nil => simp [finalOf] at hf
      | cons c2 cs2 =>
        rw [genOnce_ok_cons, genOnce_ok_cons, ← ht]
        simp only [finalOf, Option.some.injEq, Prod.mk.injEq] at hf
        obtain ⟨h1, h2, h3, h4⟩ := hf
        simp [genMsgOf, chunkInfo, h1, h2, h3, h4]

/-- **A failing run (generate)**: `stream:false` answers 500 with the runner's error; the stream
    carries exactly that one error, as its last line. -/
theorem generate_error (raw : Bool) (pl : Nat) (cs : List Chunk) (m : Bytes) :
    genOnce raw pl cs (.err m) = .error m
    ∧ errsOf (genStream raw pl cs (.err m)) = [m]
    ∧ (genStream raw pl cs (.err m)).getLast? = some (.err m) := by
  refine ⟨genOnce_err _ _ _ _, ?_, ?_⟩
  · simp only [genStream, genChan]; rw [errsOf_chan]
  · simp [genStream, genChan, endItems]

/-! ## /api/chat without tools (and every `stream:false` chat) -/

/-- **Stream concatenation = non-stream reply (chat without tools).** -/
theorem chat_equiv (parse : Bytes → List Call) (cs : List Chunk) :
    let st := msgsOf (chatStream parse false cs .ok)
    chatOnce parse false cs .ok = .ok { lastOr default st with content := (st.map (·.content)).flatten }
    ∧ (st.map (·.content)).flatten = texts cs
    ∧ (∀ m ∈ st, m.calls = [])
    ∧ errsOf (chatStream parse false cs .ok) = [] := by
  intro st
  have hst : st = cs.map chatMsgOf := by
    simp only [st, chatStream, chatChan]; rw [msgsOf_chan, chatCallback_unbuffered]
  refine ⟨?_, ?_, ?_, ?_⟩
  · unfold chatOnce chatChan
    rw [onceLoop_chan, chatCallback_unbuffered, hst]
    simp
  · rw [hst]; simp [texts, chatMsgOf, List.map_map, Function.comp_def]
  · rw [hst]; intro m hm
    obtain ⟨c, _, rfl⟩ := List.mem_map.mp hm
    rfl
  · simp only [chatStream, chatChan]; rw [errsOf_chan]

/-- **Re-splitting does not change the non-stream chat reply**, with or without tools: text, tool
    calls, reason and counts depend only on the output. -/
theorem chat_resplit (parse : Bytes → List Call) (tools : Bool) (a b : List Chunk) (e : End)
    (h : SameOutput a b) : chatOnce parse tools a e = chatOnce parse tools b e := by
  cases e with
  | err m => rw [chatOnce_err, chatOnce_err]
  | ok =>
    obtain ⟨ht, hf⟩ := h
    cases a with
    | nil =>
      cases b with
      | nil => rfl
      | cons c cs => simp [finalOf] at hf
    | cons c cs =>
      cases b with
      | nil => simp [finalOf] at hf
      | cons c2 cs2 =>
        rw [chatOnce_ok_cons, chatOnce_ok_cons, ← ht]
        simp only [finalOf, Option.some.injEq, Prod.mk.injEq] at hf
        obtain ⟨h1, h2, h3, h4⟩ := hf
        simp [chunkInfo, h1, h2, h3, h4]

theorem chat_error (parse : Bytes → List Call) (tools : Bool) (cs : List Chunk) (m : Bytes) :
    chatOnce parse tools cs (.err m) = .error m
    ∧ errsOf (chatStream parse tools cs (.err m)) = [m]
    ∧ (chatStream parse tools cs (.err m)).getLast? = some (.err m) := by
  refine ⟨chatOnce_err _ _ _ _, ?_, ?_⟩
  · simp only [chatStream, chatChan]; rw [errsOf_chan]
  · simp [chatStream, chatChan, endItems]

/-! ## /api/chat with tools -/

/-- **Guard: `parse` is prefix-stable on the split** — whenever the text accumulated at a chunk
    boundary parses as tool calls, only empty chunks follow (i.e. no PROPER prefix of the output
    parses at a chunk boundary); and the empty text does not parse. -/
def PrefixStable (parse : Bytes → List Call) (cs : List Chunk) : Prop :=
  parse [] = [] ∧ ∀ k, k < cs.length → parse (texts (cs.take (k + 1))) ≠ [] → texts (cs.drop (k + 1)) = []

instance (parse : Bytes → List Call) (cs : List Chunk) : Decidable (PrefixStable parse cs) := by
  unfold PrefixStable; infer_instance

instance (cs : List Chunk) : Decidable (NoneDone cs) := by
  unfold NoneDone; infer_instance

theorem chatOnce_ok_snoc (parse : Bytes → List Call) (tools : Bool) (init : List Chunk) (l : Chunk) :
    chatOnce parse tools (init ++ [l]) .ok =
      if tools && !(parse (texts (init ++ [l]))).isEmpty
      then .ok { content := [], calls := parse (texts (init ++ [l])), info := chunkInfo l }
      else .ok { content := texts (init ++ [l]), calls := [], info := chunkInfo l } := by
  cases init with
  | nil => rw [List.nil_append, chatOnce_ok_cons]; rfl
  | cons c cs =>
    rw [List.cons_append, chatOnce_ok_cons]
    simp only [lastOr_append_singleton]

/-- aggregated view of a chat stream: concatenated contents, concatenated calls, last message -/
def aggContent (ms : List ChatMsg) : Bytes := (ms.map (·.content)).flatten
def aggCalls (ms : List ChatMsg) : List Call := (ms.map (·.calls)).flatten

theorem texts_eq_nil_cons {c : Chunk} {cs : List Chunk} (h : texts (c :: cs) = []) :
    c.content = [] ∧ texts cs = [] := by
  simpa using h

/-- after the buffer was reset, empty chunks produce nothing until the done chunk, whose message is
    empty -/
theorem chatCallback_empty_tail (parse : Bytes → List Call) (hp : parse [] = []) (init : List Chunk) (l : Chunk)
    (idx : Nat) (hnd : NoneDone init) (hl : l.done = true) (he : texts (init ++ [l]) = []) :
    chatCallback parse true (init ++ [l]) [] idx = [{ content := [], calls := [], info := chunkInfo l }] := by
  induction init with
  | nil =>
    have hc : l.content = [] := (texts_eq_nil_cons he).1
    simp [chatCallback, hc, hp, hl]
  | cons c cs ih =>
    obtain ⟨hc, he'⟩ := texts_eq_nil_cons he
    have hd : c.done = false := hnd c (by simp)
    simp only [List.cons_append, chatCallback, hc, List.append_nil, hp, hd]
    simpa using ih (fun x hx => hnd x (by simp [hx])) he'

/-- the buffered callback from a state in which no call was sent yet -/
theorem chatCallback_buffered_agg (parse : Bytes → List Call) (hp : parse [] = []) (init : List Chunk) (l : Chunk)
    (sb : Bytes) (hnd : NoneDone init) (hl : l.done = true)
    (hg : ∀ k, k < (init ++ [l]).length → parse (sb ++ texts ((init ++ [l]).take (k + 1))) ≠ [] →
      texts ((init ++ [l]).drop (k + 1)) = []) (d : ChatMsg) :
    let ms := chatCallback parse true (init ++ [l]) sb 0
    let t := sb ++ texts (init ++ [l])
    aggContent ms = (if (parse t).isEmpty then t else [])
    ∧ aggCalls ms = setIdx 0 (parse t)
    ∧ (lastOr d ms).info = chunkInfo l := by
  induction init generalizing sb d with
  | nil =>
    simp only [List.nil_append, chatCallback, Bool.not_true, Bool.false_eq_true, ↓reduceIte, hl, texts_cons,
      texts_nil, List.append_nil]
    by_cases h : (parse (sb ++ l.content)).isEmpty = true
    · have h' : parse (sb ++ l.content) = [] := List.isEmpty_iff.mp h
      simp [h', aggContent, aggCalls, setIdx]
    · simp [h, aggContent, aggCalls]
  | cons c cs ih =>
    have hd : c.done = false := hnd c (by simp)
    have hnd' : NoneDone cs := fun x hx => hnd x (by simp [hx])
    by_cases h : (parse (sb ++ c.content)).isEmpty = true
    · -- nothing parses yet: only accumulate
      have h' : parse (sb ++ c.content) = [] := List.isEmpty_iff.mp h
      have hg' : ∀ k, k < (cs ++ [l]).length → parse ((sb ++ c.content) ++ texts ((cs ++ [l]).take (k + 1))) ≠ [] →
          texts ((cs ++ [l]).drop (k + 1)) = [] := by
        intro k hk hne
        have := hg (k + 1) (by simp at hk ⊢; omega) (by simpa [List.append_assoc] using hne)
        simpa using this
      have := ih (sb ++ c.content) hnd' hg' d
      simp only [List.cons_append, chatCallback, Bool.not_true, Bool.false_eq_true, ↓reduceIte, h', hd,
        List.isEmpty_nil, Bool.not_true]
      simpa [List.append_assoc] using this
    · -- first parse: everything that follows is empty
      have hne : parse (sb ++ c.content) ≠ [] := fun e => h (by simp [e])
      have hrest : texts (cs ++ [l]) = [] := by
        have := hg 0 (by simp) (by simpa using hne)
        simpa using this
      have htail := chatCallback_empty_tail parse hp cs l (0 + (parse (sb ++ c.content)).length) hnd' hl hrest
      simp only [List.cons_append, chatCallback, Bool.not_true, Bool.false_eq_true, ↓reduceIte, h,
        Bool.not_false, htail, texts_cons, hrest, List.append_nil]
      simp [aggContent, aggCalls, h]

/-- **Streamed = non-streamed with tools, PARTIAL.**  If the runner follows its protocol (content
    chunks, then one done chunk) and `parse` is prefix-stable on the split, the aggregated stream
    (concatenated contents, concatenated tool calls, last message's reason and counts) equals the
    `stream:false` reply — the calls up to their `index` field: streamed calls are numbered from 0.
    What is missing for the full statement: without `PrefixStable` it is FALSE (`F17a_…` below), and
    the `index` fields agree only for at most one call (`tools_index`, `F17b_…`). -/
theorem tools_equiv_partial (parse : Bytes → List Call) (init : List Chunk) (l : Chunk)
    (hnd : NoneDone init) (hl : l.done = true) (hg : PrefixStable parse (init ++ [l])) :
    let st := msgsOf (chatStream parse true (init ++ [l]) .ok)
    ∃ o, chatOnce parse true (init ++ [l]) .ok = .ok o
      ∧ aggContent st = o.content
      ∧ (aggCalls st).map eraseIdx = o.calls.map eraseIdx
      ∧ aggCalls st = setIdx 0 o.calls
      ∧ (lastOr default st).info = o.info
      ∧ errsOf (chatStream parse true (init ++ [l]) .ok) = [] := by
  intro st
  have hst : st = chatCallback parse true (init ++ [l]) [] 0 := by
    simp only [st, chatStream, chatChan]; exact msgsOf_chan _ _
  obtain ⟨h1, h2, h3⟩ := chatCallback_buffered_agg parse hg.1 init l [] hnd hl (by
    intro k hk hne; exact hg.2 k hk (by simpa using hne)) default
  simp only [List.nil_append] at h1 h2 h3
  rw [chatOnce_ok_snoc, hst]
  have herr : errsOf (chatStream parse true (init ++ [l]) .ok) = [] := by
    simp only [chatStream, chatChan]; rw [errsOf_chan]
  by_cases hp : (parse (texts (init ++ [l]))).isEmpty = true
  · have hp' : parse (texts (init ++ [l])) = [] := List.isEmpty_iff.mp hp
    refine ⟨_, by simp only [hp, Bool.not_true, Bool.and_false, Bool.false_eq_true, ↓reduceIte]; rfl, ?_⟩
    simp [h1, h2, h3, hp, hp', setIdx, herr]
  · refine ⟨_, by simp only [hp, Bool.not_false, Bool.and_true, ↓reduceIte]; rfl, ?_⟩
    simp [h1, h2, h3, hp, setIdx_erase, herr]

/-- **The `index` fields**: streamed calls are numbered 0,1,2,…; the `stream:false` reply leaves
    every index at the parser's 0.  (So they agree iff there is at most one call.) -/
theorem tools_index (parse : Bytes → List Call) (hz : ∀ s, ∀ c ∈ parse s, c.index = 0)
    (init : List Chunk) (l : Chunk)
    (hnd : NoneDone init) (hl : l.done = true) (hg : PrefixStable parse (init ++ [l])) :
    ∃ o, chatOnce parse true (init ++ [l]) .ok = .ok o
      ∧ (aggCalls (msgsOf (chatStream parse true (init ++ [l]) .ok))).map (·.index) = List.range' 0 o.calls.length
      ∧ o.calls.map (·.index) = List.replicate o.calls.length 0 := by
  obtain ⟨o, ho, _, _, hc, _⟩ := tools_equiv_partial parse init l hnd hl hg
  refine ⟨o, ho, ?_, ?_⟩
  · rw [hc, setIdx_index]
  · rw [chatOnce_ok_snoc] at ho
    have : ∀ c ∈ o.calls, c.index = 0 := by
      split at ho
      · injection ho with ho; subst ho; exact hz _
      · injection ho with ho; subst ho; intro c hc; cases hc
    exact List.eq_replicate_iff.mpr ⟨by simp, by
      intro x hx
      obtain ⟨c, hc, rfl⟩ := List.mem_map.mp hx
      exact this c hc⟩

/-! ## A native stream ends with exactly one final message or one error -/

def terminal {α : Type} (done : α → Bool) : Item α → Bool
  | .msg m => done m
  | .err _ => true

/-- exactly one terminal item (done message or error), and it is the last one -/
def OneFinal {α : Type} (done : α → Bool) (items : List (Item α)) : Prop :=
  (items.filter (terminal done)).length = 1 ∧ items.getLast?.map (terminal done) = some true

instance {α : Type} (done : α → Bool) (items : List (Item α)) : Decidable (OneFinal done items) := by
  unfold OneFinal; infer_instance

/-- the runner's protocol: content chunks, then either one done chunk and a nil return, or an error -/
inductive RunnerOK : List Chunk → End → Prop
  | done (init : List Chunk) (l : Chunk) : NoneDone init → l.done = true → RunnerOK (init ++ [l]) .ok
  | fail (cs : List Chunk) (m : Bytes) : NoneDone cs → RunnerOK cs (.err m)

theorem filter_terminal_nonfinal {α : Type} (done : α → Bool) (ms : List α) (h : ∀ m ∈ ms, done m = false) :
    (ms.map Item.msg).filter (terminal done) = [] := by
  induction ms with
  | nil => rfl
  | cons m ms ih =>
    have h1 : done m = false := h m (by simp)
    have h2 : ∀ x ∈ ms, done x = false := fun x hx => h x (by simp [hx])
    simp [terminal, h1, ih h2]

theorem oneFinal_of_snoc {α : Type} (done : α → Bool) (pre : List α) (t : Item α)
    (hpre : ∀ m ∈ pre, done m = false) (ht : terminal done t = true) :
    OneFinal done (pre.map Item.msg ++ [t]) := by
  refine ⟨?_, ?_⟩
  · rw [List.filter_append, filter_terminal_nonfinal done pre hpre]
    simp [ht]
  · simp [ht]

theorem genCallback_append (raw : Bool) (pl : Nat) (a b : List Chunk) (sb : Bytes) :
    genCallback raw pl (a ++ b) sb = genCallback raw pl a sb ++ genCallback raw pl b (sb ++ texts a) := by
  induction a generalizing sb with
  | nil => simp [genCallback]
  | cons c cs ih => simp [genCallback, ih, List.append_assoc]

theorem genCallback_nonfinal (raw : Bool) (pl : Nat) (cs : List Chunk) (sb : Bytes) (h : NoneDone cs) :
    ∀ m ∈ genCallback raw pl cs sb, m.info.done = false := by
  induction cs generalizing sb with
  | nil => intro m hm; simp [genCallback] at hm
  | cons c cs ih =>
    intro m hm
    simp only [genCallback] at hm
    rcases List.mem_cons.mp hm with rfl | hm
    · simp [genMsgOf, chunkInfo, h c (by simp)]
    · exact ih _ (fun x hx => h x (by simp [hx])) m hm

/-- **one_final (generate).** -/
theorem one_final_generate (raw : Bool) (pl : Nat) (cs : List Chunk) (e : End) (h : RunnerOK cs e) :
    OneFinal (fun m : GenMsg => m.info.done) (genStream raw pl cs e) := by
  cases h with
  | done init l hnd hl =>
    simp only [genStream, genChan, endItems, List.append_nil, genCallback_append, genCallback,
      List.map_append, List.map_cons, List.map_nil]
    exact oneFinal_of_snoc _ _ _ (genCallback_nonfinal raw pl init [] hnd) (by simp [terminal, genMsgOf, chunkInfo, hl])
  | fail cs m hnd =>
    simp only [genStream, genChan, endItems]
    exact oneFinal_of_snoc _ _ _ (genCallback_nonfinal raw pl cs [] hnd) rfl

/-- **one_final (chat)**, with or without tools (the buffered tool path included). -/
theorem one_final_chat (parse : Bytes → List Call) (tools : Bool) (cs : List Chunk) (e : End)
    (h : RunnerOK cs e) :
    OneFinal (fun m : ChatMsg => m.info.done) (chatStream parse tools cs e) := by
  cases h with
  | done init l hnd hl =>
    obtain ⟨sb', idx', happ⟩ := chatCallback_append parse tools init [l] [] 0
    obtain ⟨m, hm, hdone⟩ := chatCallback_done_chunk parse tools l sb' idx' hl
    simp only [chatStream, chatChan, endItems, List.append_nil, happ, hm, List.map_append, List.map_cons,
      List.map_nil]
    exact oneFinal_of_snoc _ _ _ (chatCallback_nonfinal parse tools init [] 0 hnd) (by simp [terminal, hdone])
  | fail cs m hnd =>
    simp only [chatStream, chatChan, endItems]
    exact oneFinal_of_snoc _ _ _ (chatCallback_nonfinal parse tools cs [] 0 hnd) rfl

/-! ## OpenAI-compatible endpoints -/

/-- **Non-stream /v1/chat/completions and /v1/completions carry the native reply**: same text and
    calls, `finish_reason` = the native reason (or `tool_calls` when calls are present), usage = the
    native counts; a native error becomes an error object with the same message. -/
theorem openai_once_equiv :
    (∀ m : ChatMsg, ∃ f, oaChatOnce (.ok m) = .chat m.info.named m.content m.calls f (usageOf m.info)
        ∧ f = nonEmpty? (if m.calls.isEmpty then m.info.reason else sToolCalls))
    ∧ (∀ m : GenMsg, oaCmplOnce (.ok m) = .text m.resp (nonEmpty? m.info.reason) (usageOf m.info))
    ∧ (∀ e, oaChatOnce (.error e) = .error e ∧ oaCmplOnce (.error e) = .error e) := by
  refine ⟨?_, fun _ => rfl, fun _ => ⟨rfl, rfl⟩⟩
  intro m
  refine ⟨_, rfl, ?_⟩
  cases h : m.calls.isEmpty <;> simp

theorem msgsOf_cons_err {α : Type} (e : Bytes) (rest : List (Item α)) : msgsOf (Item.err e :: rest) = msgsOf rest := rfl
theorem msgsOf_cons_msg {α : Type} (m : α) (rest : List (Item α)) : msgsOf (Item.msg m :: rest) = m :: msgsOf rest := rfl
theorem asChat_err (e : Bytes) : (asChat (.err e)).content = [] ∧ (asChat (.err e)).calls = [] ∧ (asChat (.err e)).info.done = false :=
  ⟨rfl, rfl, rfl⟩
theorem asGen_err (e : Bytes) : (asGen (.err e)).resp = [] ∧ (asGen (.err e)).info.done = false := ⟨rfl, rfl⟩

theorem oaTailIf_text (d u : Bool) (m : Info) : oaText (if d then oaTail u m else []) = [] := by
  cases d <;> simp [oaTail_text] <;> rfl
theorem oaTailIf_calls (d u : Bool) (m : Info) : oaCalls (if d then oaTail u m else []) = [] := by
  cases d <;> simp [oaTail_calls] <;> rfl
theorem oaTailIf_dones (d u : Bool) (m : Info) : oaDones (if d then oaTail u m else []) = if d then 1 else 0 := by
  cases d <;> simp [oaTail_dones] <;> rfl

theorem oaChatStream_cons (usage : Bool) (it : Item ChatMsg) (rest : List (Item ChatMsg)) (sent : Bool) :
    ∃ f, oaChatStream usage (it :: rest) sent =
      [OaEv.chunk (asChat it).content (asChat it).calls f]
        ++ (if (asChat it).info.done then oaTail usage (asChat it).info else [])
        ++ oaChatStream usage rest (sent || !(asChat it).calls.isEmpty) := ⟨_, rfl⟩

theorem oaCmplStream_cons (usage : Bool) (it : Item GenMsg) (rest : List (Item GenMsg)) :
    ∃ f u, oaCmplStream usage (it :: rest) =
      [OaEv.tchunk (asGen it).resp f u]
        ++ (if (asGen it).info.done then oaTail usage (asGen it).info else [])
        ++ oaCmplStream usage rest := ⟨_, _, rfl⟩

/-- **Streaming /v1/chat/completions carries the native stream**: concatenated deltas = concatenated
    native contents, same tool calls, one `[DONE]` per native done message — for every item list. -/
theorem openai_chat_stream_equiv (usage : Bool) (items : List (Item ChatMsg)) (sent : Bool) :
    oaText (oaChatStream usage items sent) = ((msgsOf items).map (·.content)).flatten
    ∧ oaCalls (oaChatStream usage items sent) = ((msgsOf items).map (·.calls)).flatten
    ∧ oaDones (oaChatStream usage items sent) = ((msgsOf items).filter (·.info.done)).length := by
  induction items generalizing sent with
  | nil => simp [oaChatStream, oaText, oaCalls, oaDones, msgsOf]
  | cons it rest ih =>
    obtain ⟨h1, h2, h3⟩ := ih (sent || !(asChat it).calls.isEmpty)
    obtain ⟨f, hstep⟩ := oaChatStream_cons usage it rest sent
    rw [hstep]
    simp only [oaText_append, oaCalls_append, oaDones_append, oaTailIf_text, oaTailIf_calls, oaTailIf_dones,
      h1, h2, h3]
    cases it with
    | msg m =>
      cases hd : m.info.done <;>
        simp [asChat, hd, oaText, oaCalls, oaDones, msgsOf, Item.msg?, OaEv.text?, OaEv.calls?, OaEv.isDone] <;>
        omega
    | err e =>
      obtain ⟨e1, e2, e3⟩ := asChat_err e
      simp [e1, e2, e3, msgsOf_cons_err, oaText, oaCalls, oaDones, OaEv.text?, OaEv.calls?, OaEv.isDone]

/-- **Streaming /v1/completions carries the native stream.** -/
theorem openai_cmpl_stream_equiv (usage : Bool) (items : List (Item GenMsg)) :
    oaText (oaCmplStream usage items) = ((msgsOf items).map (·.resp)).flatten
    ∧ oaDones (oaCmplStream usage items) = ((msgsOf items).filter (·.info.done)).length := by
  induction items with
  | nil => simp [oaCmplStream, oaText, oaDones, msgsOf]
  | cons it rest ih =>
    obtain ⟨h1, h3⟩ := ih
    obtain ⟨f, u, hstep⟩ := oaCmplStream_cons usage it rest
    rw [hstep]
    simp only [oaText_append, oaDones_append, oaTailIf_text, oaTailIf_dones, h1, h3]
    cases it with
    | msg m =>
      cases hd : m.info.done <;>
        simp [asGen, hd, oaText, oaDones, msgsOf, Item.msg?, OaEv.text?, OaEv.isDone] <;> omega
    | err e =>
      obtain ⟨e1, e3⟩ := asGen_err e
      simp [e1, e3, msgsOf_cons_err, oaText, oaDones, OaEv.text?, OaEv.isDone]


/-! ### shape of a protocol-respecting native chat / generate stream -/

theorem chatStream_shape_ok (parse : Bytes → List Call) (tools : Bool) (init : List Chunk) (l : Chunk)
    (hnd : NoneDone init) (hl : l.done = true) :
    ∃ (pre : List ChatMsg) (m : ChatMsg), chatStream parse tools (init ++ [l]) .ok = pre.map Item.msg ++ [Item.msg m]
      ∧ (∀ x ∈ pre, x.info.done = false) ∧ m.info.done = true := by
  obtain ⟨sb', idx', happ⟩ := chatCallback_append parse tools init [l] [] 0
  obtain ⟨m, hm, hdone⟩ := chatCallback_done_chunk parse tools l sb' idx' hl
  refine ⟨chatCallback parse tools init [] 0, m, ?_, chatCallback_nonfinal parse tools init [] 0 hnd, hdone⟩
  simp [chatStream, chatChan, endItems, happ, hm]

theorem genStream_shape_ok (raw : Bool) (pl : Nat) (init : List Chunk) (l : Chunk)
    (hnd : NoneDone init) (hl : l.done = true) :
    ∃ (pre : List GenMsg) (m : GenMsg), genStream raw pl (init ++ [l]) .ok = pre.map Item.msg ++ [Item.msg m]
      ∧ (∀ x ∈ pre, x.info.done = false) ∧ m.info.done = true := by
  refine ⟨genCallback raw pl init [], genMsgOf raw pl ([] ++ texts init ++ l.content) l, ?_,
    genCallback_nonfinal raw pl init [] hnd, by simp [genMsgOf, chunkInfo, hl]⟩
  simp [genStream, genChan, endItems, genCallback_append, genCallback]

theorem filter_done_nonfinal {α : Type} (done : α → Bool) (pre : List α) (h : ∀ x ∈ pre, done x = false) :
    pre.filter done = [] := by
  apply List.filter_eq_nil_iff.mpr
  intro x hx; simp [h x hx]

theorem oaChatStream_append (usage : Bool) (a b : List (Item ChatMsg)) (sent : Bool) :
    ∃ s', oaChatStream usage (a ++ b) sent = oaChatStream usage a sent ++ oaChatStream usage b s' := by
  induction a generalizing sent with
  | nil => exact ⟨sent, by simp [oaChatStream]⟩
  | cons it rest ih =>
    obtain ⟨s', h⟩ := ih (sent || !(asChat it).calls.isEmpty)
    exact ⟨s', by simp [oaChatStream, h]⟩

theorem oaCmplStream_append (usage : Bool) (a b : List (Item GenMsg)) :
    oaCmplStream usage (a ++ b) = oaCmplStream usage a ++ oaCmplStream usage b := by
  induction a with
  | nil => simp [oaCmplStream]
  | cons it rest ih => simp [oaCmplStream, ih]

theorem oaTail_last (u : Bool) (m : Info) (pre : List OaEv) : (pre ++ oaTail u m).getLast? = some OaEv.done := by
  cases u <;> simp [oaTail]

/-- **A successful run ends, on the OpenAI streaming endpoints, with exactly one `[DONE]`** which is
    the last event (preceded by the usage chunk when `include_usage` is set). -/
theorem openai_stream_one_done (parse : Bytes → List Call) (tools usage raw : Bool) (pl : Nat)
    (cs : List Chunk) (h : RunnerOK cs .ok) :
    (oaDones (oaChatStream usage (chatStream parse tools cs .ok) false) = 1
      ∧ (oaChatStream usage (chatStream parse tools cs .ok) false).getLast? = some OaEv.done)
    ∧ (oaDones (oaCmplStream usage (genStream raw pl cs .ok)) = 1
      ∧ (oaCmplStream usage (genStream raw pl cs .ok)).getLast? = some OaEv.done) := by
  cases h with
  | done init l hnd hl =>
    constructor
    · obtain ⟨pre, m, hs, hpre, hm⟩ := chatStream_shape_ok parse tools init l hnd hl
      refine ⟨?_, ?_⟩
      · rw [(openai_chat_stream_equiv usage _ false).2.2, hs, msgsOf_append, msgsOf_map_msg]
        simp [msgsOf, Item.msg?, List.filter_append, filter_done_nonfinal _ pre hpre, hm]
      · rw [hs]
        obtain ⟨s', happ⟩ := oaChatStream_append usage (pre.map Item.msg) [Item.msg m] false
        rw [happ]
        obtain ⟨f, hstep⟩ := oaChatStream_cons usage (Item.msg m) [] s'
        rw [hstep]
        simp only [asChat, hm, ↓reduceIte, oaChatStream, List.append_nil, ← List.append_assoc]
        exact oaTail_last _ _ _
    · obtain ⟨pre, m, hs, hpre, hm⟩ := genStream_shape_ok raw pl init l hnd hl
      refine ⟨?_, ?_⟩
      · rw [(openai_cmpl_stream_equiv usage _).2, hs, msgsOf_append, msgsOf_map_msg]
        simp [msgsOf, Item.msg?, List.filter_append, filter_done_nonfinal _ pre hpre, hm]
      · rw [hs, oaCmplStream_append]
        obtain ⟨f, u, hstep⟩ := oaCmplStream_cons usage (Item.msg m) []
        rw [hstep]
        simp only [asGen, hm, ↓reduceIte, oaCmplStream, List.append_nil, ← List.append_assoc]
        exact oaTail_last _ _ _

/-- the OpenAI stream writers never emit an error object (pinned behaviour) -/
theorem oaChatStream_no_error (usage : Bool) (items : List (Item ChatMsg)) (sent : Bool) :
    ∀ ev ∈ oaChatStream usage items sent, ev.isError = false := by
  induction items generalizing sent with
  | nil => intro ev h; simp [oaChatStream] at h
  | cons it rest ih =>
    intro ev h
    obtain ⟨f, hstep⟩ := oaChatStream_cons usage it rest sent
    rw [hstep] at h
    simp only [List.mem_append, List.mem_singleton] at h
    rcases h with (rfl | h) | h
    · rfl
    · cases hd : (asChat it).info.done <;> cases usage <;> simp [hd, oaTail] at h <;>
        (try rcases h with rfl | rfl) <;> (try subst h) <;> rfl
    · exact ih _ ev h

theorem oaCmplStream_no_error (usage : Bool) (items : List (Item GenMsg)) :
    ∀ ev ∈ oaCmplStream usage items, ev.isError = false := by
  induction items with
  | nil => intro ev h; simp [oaCmplStream] at h
  | cons it rest ih =>
    intro ev h
    obtain ⟨f, u, hstep⟩ := oaCmplStream_cons usage it rest
    rw [hstep] at h
    simp only [List.mem_append, List.mem_singleton] at h
    rcases h with (rfl | h) | h
    · rfl
    · cases hd : (asGen it).info.done <;> cases usage <;> simp [hd, oaTail] at h <;>
        (try rcases h with rfl | rfl) <;> (try subst h) <;> rfl
    · exact ih ev h

/-- **F17c as a theorem of the (pinned) model: a failing run is invisible on the OpenAI streaming
    endpoints** — for EVERY output and failure point the SSE stream contains neither an error object
    nor `[DONE]`, although the native stream ends with the error (`chat_error`, `generate_error`). -/
theorem openai_stream_failure_swallowed (parse : Bytes → List Call) (tools usage raw : Bool) (pl : Nat)
    (cs : List Chunk) (m : Bytes) (h : RunnerOK cs (.err m)) :
    (oaDones (oaChatStream usage (chatStream parse tools cs (.err m)) false) = 0
      ∧ ∀ ev ∈ oaChatStream usage (chatStream parse tools cs (.err m)) false, ev.isError = false)
    ∧ (oaDones (oaCmplStream usage (genStream raw pl cs (.err m))) = 0
      ∧ ∀ ev ∈ oaCmplStream usage (genStream raw pl cs (.err m)), ev.isError = false) := by
  cases h with
  | fail cs m hnd =>
    refine ⟨⟨?_, oaChatStream_no_error _ _ _⟩, ⟨?_, oaCmplStream_no_error _ _⟩⟩
    · rw [(openai_chat_stream_equiv usage _ false).2.2]
      simp only [chatStream, chatChan]
      rw [msgsOf_chan, filter_done_nonfinal _ _ (chatCallback_nonfinal parse tools cs [] 0 hnd)]
      rfl
    · rw [(openai_cmpl_stream_equiv usage _).2]
      simp only [genStream, genChan]
      rw [msgsOf_chan, filter_done_nonfinal _ _ (genCallback_nonfinal raw pl cs [] hnd)]
      rfl

/-! ## The repaired variants (proposed fixes) restore the property in the model -/

theorem oaChatStream_single_append (usage : Bool) (x : ChatMsg) (rest : List (Item ChatMsg)) (sent : Bool) :
    oaChatStream usage (Item.msg x :: rest) sent
      = oaChatStream usage [Item.msg x] sent ++ oaChatStream usage rest (sent || !x.calls.isEmpty) := by
  simp [oaChatStream, asChat]

theorem oaChatStreamFixed_run (usage : Bool) (pre : List ChatMsg) (m : Bytes) (hm : m.isEmpty = false) (sent : Bool) :
    oaChatStreamFixed usage (pre.map Item.msg ++ [Item.err m]) sent
      = oaChatStream usage (pre.map Item.msg) sent ++ [OaEv.error m] := by
  induction pre generalizing sent with
  | nil => simp [oaChatStreamFixed, oaChatStream, hm]
  | cons x xs ih =>
    simp only [List.map_cons, List.cons_append, oaChatStreamFixed, ih]
    rw [oaChatStream_single_append usage x (xs.map Item.msg) sent, List.append_assoc]

theorem oaCmplStreamFixed_run (usage : Bool) (pre : List GenMsg) (m : Bytes) (hm : m.isEmpty = false) :
    oaCmplStreamFixed usage (pre.map Item.msg ++ [Item.err m])
      = oaCmplStream usage (pre.map Item.msg) ++ [OaEv.error m] := by
  induction pre with
  | nil => simp [oaCmplStreamFixed, oaCmplStream, hm]
  | cons x xs ih =>
    simp only [List.map_cons, List.cons_append, oaCmplStreamFixed, ih]
    simp [oaCmplStream, asGen]

theorem filter_isError_nil (evs : List OaEv) (h : ∀ ev ∈ evs, ev.isError = false) : evs.filter OaEv.isError = [] := by
  apply List.filter_eq_nil_iff.mpr
  intro x hx; simp [h x hx]

/-- the stream's last event is the error object for `m`, it is the only error object, and there is no `[DONE]` -/
def ReportsOnce (m : Bytes) (evs : List OaEv) : Prop :=
  evs.getLast? = some (OaEv.error m) ∧ (evs.filter OaEv.isError).length = 1 ∧ oaDones evs = 0

/-- **F17c repaired (proposed_fixes/C17-F17c.patch)**: with the patched writers a failing run ends, on
    the OpenAI streaming endpoints, with exactly one error event carrying the runner's message, as
    the last event, and no `[DONE]`. -/
theorem openai_stream_failure_reported_fixed (parse : Bytes → List Call) (tools usage raw : Bool) (pl : Nat)
    (cs : List Chunk) (m : Bytes) (h : RunnerOK cs (.err m)) (hm : m.isEmpty = false) :
    ReportsOnce m (oaChatStreamV true usage (chatStream parse tools cs (.err m)))
    ∧ ReportsOnce m (oaCmplStreamV true usage (genStream raw pl cs (.err m))) := by
  cases h with
  | fail cs m hnd =>
    constructor
    · simp only [ReportsOnce, oaChatStreamV, ↓reduceIte, chatStream, chatChan, endItems]
      rw [oaChatStreamFixed_run usage _ m hm false]
      refine ⟨by simp, ?_, ?_⟩
      · rw [List.filter_append, filter_isError_nil _ (oaChatStream_no_error usage _ false)]
        rfl
      · rw [oaDones_append, (openai_chat_stream_equiv usage _ false).2.2, msgsOf_map_msg,
          filter_done_nonfinal _ _ (chatCallback_nonfinal parse tools cs [] 0 hnd)]
        rfl
    · simp only [ReportsOnce, oaCmplStreamV, ↓reduceIte, genStream, genChan, endItems]
      rw [oaCmplStreamFixed_run usage _ m hm]
      refine ⟨by simp, ?_, ?_⟩
      · rw [List.filter_append, filter_isError_nil _ (oaCmplStream_no_error usage _)]
        rfl
      · rw [oaDones_append, (openai_cmpl_stream_equiv usage _).2, msgsOf_map_msg,
          filter_done_nonfinal _ _ (genCallback_nonfinal raw pl cs [] hnd)]
        rfl


/-! ### F17a/b repaired (proposed_fixes/C17-F17ab.patch) -/

/-- once the calls of the accumulated text were sent, empty chunks produce nothing until the done
    chunk, whose message is empty -/
theorem chatCallbackFixed_empty_tail (parse : Bytes → List Call) (init : List Chunk) (l : Chunk) (sb : Bytes)
    (hnd : NoneDone init) (hl : l.done = true) (he : texts (init ++ [l]) = []) (hpos : 0 < (parse sb).length) :
    chatCallbackFixed parse (init ++ [l]) sb (parse sb).length
      = [{ content := [], calls := [], info := chunkInfo l }] := by
  have hz : ((parse sb).length == 0) = false := by
    cases h : (parse sb).length with
    | zero => omega
    | succ n => rfl
  induction init with
  | nil =>
    have hc : l.content = [] := (texts_eq_nil_cons he).1
    simp [chatCallbackFixed, hc, hl, hz]
  | cons c cs ih =>
    obtain ⟨hc, he'⟩ := texts_eq_nil_cons he
    have hd : c.done = false := hnd c (by simp)
    simp only [List.cons_append, chatCallbackFixed, hc, List.append_nil, hd, Nat.lt_irrefl, decide_false,
      Bool.and_false, Bool.false_eq_true, ↓reduceIte]
    exact ih (fun x hx => hnd x (by simp [hx])) he'

theorem chatCallbackFixed_agg (parse : Bytes → List Call) (init : List Chunk) (l : Chunk)
    (sb : Bytes) (hnd : NoneDone init) (hl : l.done = true)
    (hg : ∀ k, k < (init ++ [l]).length → parse (sb ++ texts ((init ++ [l]).take (k + 1))) ≠ [] →
      texts ((init ++ [l]).drop (k + 1)) = []) (d : ChatMsg) :
    let ms := chatCallbackFixed parse (init ++ [l]) sb 0
    let t := sb ++ texts (init ++ [l])
    aggContent ms = (if (parse t).isEmpty then t else [])
    ∧ aggCalls ms = setIdx 0 (parse t)
    ∧ (lastOr d ms).info = chunkInfo l := by
  induction init generalizing sb d with
  | nil =>
    simp only [List.nil_append, chatCallbackFixed, hl, texts_cons, texts_nil, List.append_nil]
    by_cases h : (parse (sb ++ l.content)).isEmpty = true
    · have h' : parse (sb ++ l.content) = [] := List.isEmpty_iff.mp h
      simp [h', aggContent, aggCalls, setIdx]
    · have hpos : 0 < (parse (sb ++ l.content)).length := by
        cases hh : parse (sb ++ l.content) with
        | nil => simp [hh] at h
        | cons _ _ => simp
      simp [h, hpos, aggContent, aggCalls]
  | cons c cs ih =>
    have hd : c.done = false := hnd c (by simp)
    have hnd' : NoneDone cs := fun x hx => hnd x (by simp [hx])
    by_cases h : (parse (sb ++ c.content)).isEmpty = true
    · have h' : parse (sb ++ c.content) = [] := List.isEmpty_iff.mp h
      have hg' : ∀ k, k < (cs ++ [l]).length → parse ((sb ++ c.content) ++ texts ((cs ++ [l]).take (k + 1))) ≠ [] →
          texts ((cs ++ [l]).drop (k + 1)) = [] := by
        intro k hk hne
        have := hg (k + 1) (by simp at hk ⊢; omega) (by simpa [List.append_assoc] using hne)
        simpa using this
      have := ih (sb ++ c.content) hnd' hg' d
      simp only [List.cons_append, chatCallbackFixed, h', hd, List.isEmpty_nil, Bool.not_true, Bool.false_and,
        Bool.false_eq_true, ↓reduceIte]
      simpa [List.append_assoc] using this
    · have hne : parse (sb ++ c.content) ≠ [] := fun e => h (by simp [e])
      have hpos : 0 < (parse (sb ++ c.content)).length := by
        cases hh : parse (sb ++ c.content) with
        | nil => exact absurd hh hne
        | cons _ _ => simp
      have hrest : texts (cs ++ [l]) = [] := by
        have := hg 0 (by simp) (by simpa using hne)
        simpa using this
      have htail := chatCallbackFixed_empty_tail parse cs l (sb ++ c.content) hnd' hl hrest hpos
      simp only [List.cons_append, chatCallbackFixed, h, Bool.not_false, hpos, decide_true, Bool.and_self,
        ↓reduceIte, htail, texts_cons, hrest, List.append_nil]
      simp [aggContent, aggCalls, h]

/-- **F17a/b repaired**: with the patched handler, under the same protocol and guard as
    `tools_equiv_partial`, the aggregated stream equals the `stream:false` reply INCLUDING the
    `index` fields (and `parse [] = []` is no longer needed: the buffer is never reset). -/
theorem tools_equiv_fixed (parse : Bytes → List Call) (init : List Chunk) (l : Chunk)
    (hnd : NoneDone init) (hl : l.done = true)
    (hg : ∀ k, k < (init ++ [l]).length → parse (texts ((init ++ [l]).take (k + 1))) ≠ [] →
      texts ((init ++ [l]).drop (k + 1)) = []) :
    ∃ o, chatOnceV true parse true (init ++ [l]) .ok = .ok o
      ∧ aggContent (msgsOf (chatStreamV true parse true (init ++ [l]) .ok)) = o.content
      ∧ aggCalls (msgsOf (chatStreamV true parse true (init ++ [l]) .ok)) = o.calls
      ∧ (lastOr default (msgsOf (chatStreamV true parse true (init ++ [l]) .ok))).info = o.info := by
  have hst : msgsOf (chatStreamV true parse true (init ++ [l]) .ok) = chatCallbackFixed parse (init ++ [l]) [] 0 := by
    simp only [chatStreamV, Bool.and_self, ↓reduceIte]; exact msgsOf_chan _ _
  obtain ⟨h1, h2, h3⟩ := chatCallbackFixed_agg parse init l [] hnd hl (by
    intro k hk hne; exact hg k hk (by simpa using hne)) default
  simp only [List.nil_append] at h1 h2 h3
  rw [hst]
  unfold chatOnceV
  rw [chatOnce_ok_snoc]
  by_cases hp : (parse (texts (init ++ [l]))).isEmpty = true
  · have hp' : parse (texts (init ++ [l])) = [] := List.isEmpty_iff.mp hp
    simp [h1, h2, h3, hp, hp', setIdx]
  · simp [h1, h2, h3, hp]

/-! ## Witnesses of the defects the model shares with the code (all checked by the kernel) -/

def sA : Bytes := [97]      -- "a"
def sB : Bytes := [98]      -- "b"
def sObj : Bytes := [123, 125]  -- "{}"
def sHi : Bytes := [104, 105]   -- "hi"
def sBoom : Bytes := [98, 111, 111, 109]  -- "boom"

def callA : Call := ⟨sA, sObj, 0⟩
def callB : Call := ⟨sB, sObj, 0⟩

/-- `{"name":"a","arguments":{}}` -/
def pieceA : Bytes := [123, 34, 110, 97, 109, 101, 34, 58, 34, 97, 34, 44, 34, 97, 114, 103, 117, 109, 101, 110, 116, 115, 34, 58, 123, 125, 125]
/-- `{"name":"b",` -/
def pieceB1 : Bytes := [123, 34, 110, 97, 109, 101, 34, 58, 34, 98, 34, 44]
/-- `"arguments":{}}` -/
def pieceB2 : Bytes := [34, 97, 114, 103, 117, 109, 101, 110, 116, 115, 34, 58, 123, 125, 125]

/-- the values of the real `parseToolCalls` on the accumulated texts of the F17 run (observed by the
    harness on every run: the corpus contains this output) -/
def parseF17 (s : Bytes) : List Call :=
  if s = pieceA ++ pieceB1 then [callA]
  else if s = pieceA ++ pieceB1 ++ pieceB2 then [callA, callB]
  else if s = pieceA then [callA]
  else []

def nd (b : Bytes) : Chunk := ⟨b, false, 0, 0, 0⟩
def fin : Chunk := ⟨[], true, 0, 5, 7⟩

/-- **F17a**: the output `{"name":"a",…}{"name":"b",` | `"arguments":{}}` streams `[a]` and loses
    `b`; the same chunks with `stream:false` (and the unsplit output when streamed) give `[a,b]`. -/
theorem F17a_split_loses_call :
    ((msgsOf (chatStream parseF17 true [nd (pieceA ++ pieceB1), nd pieceB2, fin] .ok)).map (·.calls)).flatten = [callA]
    ∧ (chatOnce parseF17 true [nd (pieceA ++ pieceB1), nd pieceB2, fin] .ok).toOption.map (·.calls) = some [callA, callB]
    ∧ ((msgsOf (chatStream parseF17 true [nd (pieceA ++ pieceB1 ++ pieceB2), fin] .ok)).map (·.calls)).flatten
        = [callA, { callB with index := 1 }]
    ∧ ¬ PrefixStable parseF17 [nd (pieceA ++ pieceB1), nd pieceB2, fin] := by
  decide

/-- **F17b**: even on a split where the guard holds, the streamed calls are indexed 0,1 and the
    non-streamed ones 0,0. -/
theorem F17b_index_mismatch :
    ((msgsOf (chatStream parseF17 true [nd (pieceA ++ pieceB1 ++ pieceB2), fin] .ok)).map
        (fun m => m.calls.map (·.index))).flatten = [0, 1]
    ∧ (chatOnce parseF17 true [nd (pieceA ++ pieceB1 ++ pieceB2), fin] .ok).toOption.map
        (fun m => m.calls.map (·.index)) = some [0, 0]
    ∧ PrefixStable parseF17 [nd (pieceA ++ pieceB1 ++ pieceB2), fin] := by
  decide

/-- **F17c**: runner fails after one chunk: the native stream ends with the error, the OpenAI stream
    ends with an EMPTY delta chunk — no error object, no `[DONE]`. -/
theorem F17c_openai_stream_error_swallowed :
    chatStream parseF17 false [nd (sHi)] (.err (sBoom))
      = [.msg ⟨sHi, [], ⟨true, false, [], 0, 0⟩⟩, .err (sBoom)]
    ∧ oaChatStream true (chatStream parseF17 false [nd (sHi)] (.err (sBoom))) false
      = [.chunk (sHi) [] none, .chunk [] [] none] := by
  decide

/-- **F17d**: `Completion` returns nil without a done chunk: the native stream has no terminal item
    (and with tools the buffered text is never sent). -/
theorem F17d_silent_end_no_final :
    ¬ OneFinal (fun m : GenMsg => m.info.done) (genStream false 3 [nd (sHi)] .ok)
    ∧ chatStream parseF17 true [nd (sHi)] .ok = []
    ∧ (chatOnce parseF17 true [nd (sHi)] .ok).toOption.map (·.content) = some (sHi) := by
  decide

/-! ## Non-vacuity: the hypotheses are met by non-trivial concrete values -/

example : RunnerOK [nd ([72, 101, 108]), nd ([108, 111]), fin] .ok :=
  RunnerOK.done [nd ([72, 101, 108]), nd ([108, 111])] fin (by decide) rfl

example : RunnerOK [nd ([72, 101, 108])] (.err (sBoom)) := RunnerOK.fail _ _ (by decide)

example : SameOutput [nd ([72, 101, 108]), nd ([108, 111]), fin] [nd ([72]), nd ([101, 108, 108, 111]), nd [], fin]
    ∧ [nd ([72, 101, 108]), nd ([108, 111]), fin] ≠ [nd ([72]), nd ([101, 108, 108, 111]), nd [], fin] := by
  decide

/-- the guard of `tools_equiv_partial` holds on a split of a real tool-call output into three
    chunks, and the conclusion is about a non-empty call list -/
example : NoneDone [nd pieceA, nd [], nd (pieceB1 ++ pieceB2)]
    ∧ ¬ PrefixStable parseF17 ([nd pieceA, nd [], nd (pieceB1 ++ pieceB2)] ++ [fin]) := by decide

example : NoneDone [nd (pieceA ++ pieceB1 ++ pieceB2), nd []]
    ∧ PrefixStable parseF17 ([nd (pieceA ++ pieceB1 ++ pieceB2), nd []] ++ [fin])
    ∧ parseF17 (texts ([nd (pieceA ++ pieceB1 ++ pieceB2), nd []] ++ [fin])) = [callA, callB] := by
  decide

/-! ## The handlers end to end: every point at which the runner may fail -/

theorem genCallbackT_none (raw : Bool) (pl : Nat) (cs : List Chunk) (sb : Bytes) :
    genCallbackT none raw pl cs sb = (genCallback raw pl cs sb).map Item.msg := by
  induction cs generalizing sb with
  | nil => rfl
  | cons c cs ih => simp [genCallbackT, genCallback, ih]

/-- Tokenize is only called on a done chunk of a non-raw request -/
theorem genCallbackT_quiet (tf : Option Bytes) (raw : Bool) (pl : Nat) (cs : List Chunk) (sb : Bytes)
    (h : raw = true ∨ NoneDone cs) :
    genCallbackT tf raw pl cs sb = (genCallback raw pl cs sb).map Item.msg := by
  induction cs generalizing sb with
  | nil => rfl
  | cons c cs ih =>
    have h' : raw = true ∨ NoneDone cs := h.imp id (fun hn x hx => hn x (by simp [hx]))
    have hc : (c.done && !raw) = false := by
      rcases h with h | h
      · simp [h]
      · simp [h c (by simp)]
    cases tf <;> simp [genCallbackT, genCallback, ih _ h', hc]

theorem genCallbackT_append (tf : Option Bytes) (raw : Bool) (pl : Nat) (a b : List Chunk) (sb : Bytes) :
    genCallbackT tf raw pl (a ++ b) sb = genCallbackT tf raw pl a sb ++ genCallbackT tf raw pl b (sb ++ texts a) := by
  induction a generalizing sb with
  | nil => simp [genCallbackT]
  | cons c cs ih => simp [genCallbackT, ih, List.append_assoc]

theorem sawDone_snoc (init : List Chunk) (l : Chunk) (hl : l.done = true) : sawDone (init ++ [l]) = true := by
  simp [sawDone, hl]

theorem sawDone_noneDone (cs : List Chunk) (h : NoneDone cs) : sawDone cs = false := by
  simp only [sawDone, List.any_eq_false]
  intro x hx; simp [h x hx]

theorem endItemsV_pinned {α : Type} (cs : List Chunk) (e : End) : (endItemsV false cs e : List (Item α)) = endItems e := by
  cases e <;> rfl

/-- the item GenerateHandler's callback sends for the done chunk -/
def genDoneItem (tf : Option Bytes) (raw : Bool) (pl : Nat) (sb' : Bytes) (l : Chunk) : Item GenMsg :=
  match tf with
  | some m => if l.done && !raw then Item.err m else Item.msg (genMsgOf raw pl sb' l)
  | none => Item.msg (genMsgOf raw pl sb' l)

theorem genDoneItem_terminal (tf : Option Bytes) (raw : Bool) (pl : Nat) (sb' : Bytes) (l : Chunk) (hl : l.done = true) :
    terminal (fun m : GenMsg => m.info.done) (genDoneItem tf raw pl sb' l) = true := by
  unfold genDoneItem
  cases tf with
  | none => simp [terminal, genMsgOf, chunkInfo, hl]
  | some m => cases raw <;> simp [terminal, genMsgOf, chunkInfo, hl]

/-- shape of GenerateHandler's channel for a run that delivers its done chunk -/
theorem genItemsH_done (v : Variant) (f : Fault) (raw : Bool) (pl : Nat) (init : List Chunk) (l : Chunk)
    (hnd : NoneDone init) (hl : l.done = true) :
    genItemsH v f raw pl (init ++ [l]) .ok
      = (genCallback raw pl init []).map Item.msg ++ [genDoneItem f.ctxTok raw pl ([] ++ texts init ++ l.content) l] := by
  simp only [genItemsH, genCallbackT_append, genCallbackT_quiet _ _ _ _ _ (Or.inr hnd), endItemsV,
    sawDone_snoc init l hl, Bool.not_true, Bool.and_false, Bool.false_eq_true, ↓reduceIte, List.append_nil]
  cases f.ctxTok <;> simp [genCallbackT, genDoneItem]

theorem genItemsH_fail (v : Variant) (f : Fault) (raw : Bool) (pl : Nat) (cs : List Chunk) (m : Bytes)
    (hnd : NoneDone cs) :
    genItemsH v f raw pl cs (.err m) = (genCallback raw pl cs []).map Item.msg ++ [Item.err m] := by
  simp [genItemsH, genCallbackT_quiet _ _ _ _ _ (Or.inr hnd), endItemsV]

/-- **one_final, every failure point (generate)**: whichever runner method fails (scheduler/load,
    Detokenize of a supplied context, Tokenize for the `context` field, Completion after k chunks),
    a streamed /api/generate is either ONE 500 error body or an NDJSON stream with exactly one
    terminal item (done message or error), which is last. -/
theorem one_final_generate_faults (v : Variant) (f : Fault) (raw hist : Bool) (pl : Nat) (cs : List Chunk) (e : End)
    (h : RunnerOK cs e) :
    match generateStreamH v f raw hist pl cs e with
    | .error _ => True
    | .ok items => OneFinal (fun m : GenMsg => m.info.done) items := by
  unfold generateStreamH
  cases f.genPre hist with
  | some m => trivial
  | none =>
    cases h with
    | done init l hnd hl =>
      simp only [genItemsH_done v f raw pl init l hnd hl]
      exact oneFinal_of_snoc _ _ _ (genCallback_nonfinal raw pl init [] hnd) (genDoneItem_terminal _ _ _ _ _ hl)
    | fail cs m hnd =>
      simp only [genItemsH_fail v f raw pl cs m hnd]
      exact oneFinal_of_snoc _ _ _ (genCallback_nonfinal raw pl cs [] hnd) rfl

/-- the error a (streamed / non-streamed) reply reports -/
def streamError {α : Type} : Except Bytes (List (Item α)) → Option Bytes
  | .error m => some m
  | .ok items => (errsOf items).head?

def onceError {α : Type} : Except Bytes α → Option Bytes
  | .error m => some m
  | .ok _ => none

theorem errsOf_snoc_err {α : Type} (ms : List α) (m : Bytes) : errsOf (ms.map Item.msg ++ [Item.err m]) = [m] := by
  rw [errsOf_append, errsOf_map_msg]; rfl

theorem errsOf_snoc_msg {α : Type} (ms : List α) (x : α) : errsOf (ms.map Item.msg ++ [Item.msg x]) = [] := by
  rw [errsOf_append, errsOf_map_msg]; rfl

theorem onceLoop_snoc_err {α : Type} (content : α → Bytes) (ms : List α) (m : Bytes) (r : α) :
    onceLoop content (ms.map Item.msg ++ [Item.err m]) [] r = .error m := onceLoop_err content ms m [] [] r

theorem onceLoop_snoc_msg {α : Type} (content : α → Bytes) (ms : List α) (x : α) (r : α) :
    onceLoop content (ms.map Item.msg ++ [Item.msg x]) [] r = .ok (((ms ++ [x]).map content).flatten, x) := by
  have := onceLoop_msgs content (ms ++ [x]) [] r
  simp only [List.map_append, List.map_cons, List.map_nil, List.nil_append, lastOr_append_singleton] at this
  simpa using this

/-- **stream = non-stream in outcome, every failure point (generate)**: the non-streamed request
    fails with message `m` iff the streamed one reports exactly the error `m` (as a 500 body or as
    its only error line); in particular a Tokenize failure after the done chunk turns BOTH into the
    error (no done message is streamed: `one_final_generate_faults`). -/
theorem generate_outcome_equiv (v : Variant) (f : Fault) (raw hist : Bool) (pl : Nat) (cs : List Chunk) (e : End)
    (h : RunnerOK cs e) :
    streamError (generateStreamH v f raw hist pl cs e) = onceError (generateOnceH v f raw hist pl cs e)
    ∧ (match generateStreamH v f raw hist pl cs e with
       | .error _ => True
       | .ok items => (errsOf items).length ≤ 1) := by
  unfold generateStreamH generateOnceH
  cases f.genPre hist with
  | some m => exact ⟨rfl, trivial⟩
  | none =>
    cases h with
    | done init l hnd hl =>
      simp only [genItemsH_done v f raw pl init l hnd hl]
      unfold genDoneItem
      cases hf : f.ctxTok with
      | none =>
        simp only [onceLoop_snoc_msg, streamError, onceError, errsOf_snoc_msg]
        exact ⟨rfl, by simp⟩
      | some m =>
        cases raw
        · simp only [hl, Bool.not_false, Bool.and_self, ↓reduceIte, onceLoop_snoc_err, streamError, onceError,
            errsOf_snoc_err]
          exact ⟨rfl, by simp⟩
        · simp only [hl, Bool.not_true, Bool.and_false, Bool.false_eq_true, ↓reduceIte, onceLoop_snoc_msg,
            streamError, onceError, errsOf_snoc_msg]
          exact ⟨rfl, by simp⟩
    | fail cs m hnd =>
      simp only [genItemsH_fail v f raw pl cs m hnd, onceLoop_snoc_err, streamError, onceError, errsOf_snoc_err]
      exact ⟨rfl, by simp⟩


/-! ### chat -/

theorem chatCallbackFixed_nonfinal (parse : Bytes → List Call) (cs : List Chunk) (sb : Bytes) (idx : Nat)
    (hnd : NoneDone cs) : ∀ m ∈ chatCallbackFixed parse cs sb idx, m.info.done = false := by
  induction cs generalizing sb idx with
  | nil => intro m hm; simp [chatCallbackFixed] at hm
  | cons c cs ih =>
    have hd : c.done = false := hnd c (by simp)
    have hnd' : NoneDone cs := fun x hx => hnd x (by simp [hx])
    intro m hm
    simp only [chatCallbackFixed] at hm
    split at hm
    · rcases List.mem_cons.mp hm with rfl | h
      · simp [chunkInfo, hd]
      · exact ih _ _ hnd' m h
    · rw [if_neg (by simp [hd])] at hm
      exact ih _ _ hnd' m hm

theorem chatCallbackFixed_done_chunk (parse : Bytes → List Call) (l : Chunk) (sb : Bytes) (idx : Nat)
    (hl : l.done = true) : ∃ m, chatCallbackFixed parse [l] sb idx = [m] ∧ m.info.done = true := by
  simp only [chatCallbackFixed]
  split
  · exact ⟨_, rfl, by simp [chunkInfo, hl]⟩
  · first
      | exact ⟨_, rfl, by simp [chunkInfo, hl]⟩
      | (rw [if_pos hl]; exact ⟨_, rfl, by simp [chunkInfo, hl]⟩)

theorem chatCallbackFixed_append (parse : Bytes → List Call) (init rest : List Chunk) (sb : Bytes) (idx : Nat) :
    ∃ sb' idx', chatCallbackFixed parse (init ++ rest) sb idx
      = chatCallbackFixed parse init sb idx ++ chatCallbackFixed parse rest sb' idx' := by
  induction init generalizing sb idx with
  | nil => exact ⟨sb, idx, by simp [chatCallbackFixed]⟩
  | cons c cs ih =>
    simp only [List.cons_append, chatCallbackFixed]
    split
    · obtain ⟨sb', idx', h⟩ := ih (sb ++ c.content) (parse (sb ++ c.content)).length
      exact ⟨sb', idx', by simp [h]⟩
    · split
      · obtain ⟨sb', idx', h⟩ := ih (sb ++ c.content) idx
        exact ⟨sb', idx', by simp [h]⟩
      · exact ih (sb ++ c.content) idx

/-- the messages of ChatHandler's callback, pinned or repaired -/
def chatMsgsV (v : Variant) (parse : Bytes → List Call) (buffered : Bool) (cs : List Chunk) : List ChatMsg :=
  if v.toolsStream && buffered then chatCallbackFixed parse cs [] 0 else chatCallback parse buffered cs [] 0

theorem chatItemsH_eq (v : Variant) (parse : Bytes → List Call) (buffered : Bool) (cs : List Chunk) (e : End) :
    chatItemsH v parse buffered cs e = (chatMsgsV v parse buffered cs).map Item.msg ++ endItemsV v.incomplete cs e := rfl

theorem chatMsgsV_nonfinal (v : Variant) (parse : Bytes → List Call) (buffered : Bool) (cs : List Chunk)
    (hnd : NoneDone cs) : ∀ m ∈ chatMsgsV v parse buffered cs, m.info.done = false := by
  unfold chatMsgsV
  split
  · exact chatCallbackFixed_nonfinal parse cs [] 0 hnd
  · exact chatCallback_nonfinal parse buffered cs [] 0 hnd

theorem chatMsgsV_done (v : Variant) (parse : Bytes → List Call) (buffered : Bool) (init : List Chunk) (l : Chunk)
    (hnd : NoneDone init) (hl : l.done = true) :
    ∃ (pre : List ChatMsg) (m : ChatMsg), chatMsgsV v parse buffered (init ++ [l]) = pre ++ [m]
      ∧ (∀ x ∈ pre, x.info.done = false) ∧ m.info.done = true := by
  unfold chatMsgsV
  split
  · obtain ⟨sb', idx', happ⟩ := chatCallbackFixed_append parse init [l] [] 0
    obtain ⟨m, hm, hdone⟩ := chatCallbackFixed_done_chunk parse l sb' idx' hl
    exact ⟨_, m, by rw [happ, hm], chatCallbackFixed_nonfinal parse init [] 0 hnd, hdone⟩
  · obtain ⟨sb', idx', happ⟩ := chatCallback_append parse buffered init [l] [] 0
    obtain ⟨m, hm, hdone⟩ := chatCallback_done_chunk parse buffered l sb' idx' hl
    exact ⟨_, m, by rw [happ, hm], chatCallback_nonfinal parse buffered init [] 0 hnd, hdone⟩

/-- **one_final, every failure point (chat)**, pinned or repaired tool path, with or without tools. -/
theorem one_final_chat_faults (v : Variant) (f : Fault) (parse : Bytes → List Call) (tools hist : Bool)
    (cs : List Chunk) (e : End) (h : RunnerOK cs e) :
    match chatStreamH v f parse tools hist cs e with
    | .error _ => True
    | .ok items => OneFinal (fun m : ChatMsg => m.info.done) items := by
  unfold chatStreamH
  cases f.chatPre hist with
  | some m => trivial
  | none =>
    simp only [chatItemsH_eq]
    cases h with
    | done init l hnd hl =>
      obtain ⟨pre, m, hs, hpre, hm⟩ := chatMsgsV_done v parse tools init l hnd hl
      simp only [hs, endItemsV, sawDone_snoc init l hl, Bool.not_true, Bool.and_false, Bool.false_eq_true,
        ↓reduceIte, List.append_nil, List.map_append, List.map_cons, List.map_nil]
      exact oneFinal_of_snoc _ _ _ hpre (by simp [terminal, hm])
    | fail cs m hnd =>
      simp only [endItemsV]
      exact oneFinal_of_snoc _ _ _ (chatMsgsV_nonfinal v parse tools cs hnd) rfl

theorem onceError_ite {α : Type} (c : Prop) [Decidable c] (a b : α) :
    onceError (if c then (Except.ok a : Except Bytes α) else .ok b) = none := by
  split <;> rfl

/-- **stream = non-stream in outcome, every failure point (chat)**. -/
theorem chat_outcome_equiv (v : Variant) (f : Fault) (parse : Bytes → List Call) (tools hist : Bool)
    (cs : List Chunk) (e : End) (h : RunnerOK cs e) :
    streamError (chatStreamH v f parse tools hist cs e) = onceError (chatOnceH v f parse tools hist cs e) := by
  unfold chatStreamH chatOnceH
  cases f.chatPre hist with
  | some m => rfl
  | none =>
    simp only [chatItemsH_eq]
    cases h with
    | done init l hnd hl =>
      simp only [endItemsV, sawDone_snoc init l hl, Bool.not_true, Bool.and_false, Bool.false_eq_true,
        ↓reduceIte, List.append_nil, onceLoop_msgs, streamError, errsOf_map_msg, List.head?_nil]
      exact (onceError_ite _ _ _).symm
    | fail cs m hnd =>
      simp only [endItemsV, onceLoop_snoc_err, streamError, errsOf_snoc_err]
      rfl

/-! ### F17d repaired (proposed_fixes/C17-F17d.patch): a run without a done chunk is reported -/

/-- with the repaired handlers, a run in which `Completion` returns nil without ever delivering a
    done chunk ends with exactly one error (`sIncomplete`) on the stream, and the non-streamed
    request fails with the same message: `one_final` then holds for EVERY run whose chunks before the
    end are not done (`RunnerOK` or silent end). -/
theorem one_final_generate_fixedD (v : Variant) (hv : v.incomplete = true) (f : Fault) (raw hist : Bool) (pl : Nat)
    (cs : List Chunk) (hnd : NoneDone cs) :
    (match generateStreamH v f raw hist pl cs .ok with
      | .error _ => True
      | .ok items => OneFinal (fun m : GenMsg => m.info.done) items ∧ items.getLast? = some (Item.err sIncomplete))
    ∧ streamError (generateStreamH v f raw hist pl cs .ok) = onceError (generateOnceH v f raw hist pl cs .ok) := by
  unfold generateStreamH generateOnceH
  cases f.genPre hist with
  | some m => exact ⟨trivial, rfl⟩
  | none =>
    have hi : genItemsH v f raw pl cs .ok = (genCallback raw pl cs []).map Item.msg ++ [Item.err sIncomplete] := by
      simp [genItemsH, genCallbackT_quiet _ _ _ _ _ (Or.inr hnd), endItemsV, hv, sawDone_noneDone cs hnd]
    simp only [hi, onceLoop_snoc_err, streamError, errsOf_snoc_err]
    exact ⟨⟨oneFinal_of_snoc _ _ _ (genCallback_nonfinal raw pl cs [] hnd) rfl, by simp⟩, rfl⟩

theorem one_final_chat_fixedD (v : Variant) (hv : v.incomplete = true) (f : Fault) (parse : Bytes → List Call)
    (tools hist : Bool) (cs : List Chunk) (hnd : NoneDone cs) :
    (match chatStreamH v f parse tools hist cs .ok with
      | .error _ => True
      | .ok items => OneFinal (fun m : ChatMsg => m.info.done) items ∧ items.getLast? = some (Item.err sIncomplete))
    ∧ streamError (chatStreamH v f parse tools hist cs .ok) = onceError (chatOnceH v f parse tools hist cs .ok) := by
  unfold chatStreamH chatOnceH
  cases f.chatPre hist with
  | some m => exact ⟨trivial, rfl⟩
  | none =>
    simp only [chatItemsH_eq, endItemsV, hv, sawDone_noneDone cs hnd, Bool.not_false, Bool.and_self, ↓reduceIte,
      onceLoop_snoc_err, streamError, errsOf_snoc_err]
    exact ⟨⟨oneFinal_of_snoc _ _ _ (chatMsgsV_nonfinal v parse tools cs hnd) rfl, by simp⟩, rfl⟩

/-- **witness of the seeded change C17-D's class**: a complete run whose `context` tokenization fails:
    stream = chunk, then the error (no done message); non-stream = the error. -/
theorem tokenize_failure_after_done :
    generateStreamH ⟨false, true, true, true⟩ (.tok sBoom) false false 3 [nd sHi, fin] .ok
      = .ok [.msg ⟨sHi, ⟨true, false, [], 0, 0⟩, none⟩, .err sBoom]
    ∧ generateOnceH ⟨false, true, true, true⟩ (.tok sBoom) false false 3 [nd sHi, fin] .ok = .error sBoom
    ∧ generateStreamH ⟨false, true, true, true⟩ (.tok sBoom) true false 3 [nd sHi, fin] .ok
      = .ok [.msg ⟨sHi, ⟨true, false, [], 0, 0⟩, none⟩, .msg ⟨[], ⟨true, true, sStop, 5, 7⟩, none⟩] :=
  ⟨rfl, rfl, rfl⟩

/-! ## `api.Client` sees what is on the wire -/

theorem client_view_msgs {α : Type} [Inhabited α] (ms : List α) : clientView (ms.map Item.msg) = (ms, none) := by
  induction ms with
  | nil => rfl
  | cons m ms ih => simp [clientView, ih]

/-- messages up to the first (non-empty) error line are delivered to the callback, that error is
    returned, nothing after it is looked at -/
theorem client_view_err {α : Type} [Inhabited α] (ms : List α) (m : Bytes) (rest : List (Item α)) (hm : m.isEmpty = false) :
    clientView (ms.map Item.msg ++ Item.err m :: rest) = (ms, some m) := by
  induction ms with
  | nil => simp [clientView, hm]
  | cons x xs ih => simp [clientView, ih]

/-- **Through `api.Client` (generate)**: for a successful run the callback receives exactly the
    streamed messages and `Generate` returns nil, so client-side aggregation of the stream (concatenate
    `response`, keep the last message) equals the `stream:false` reply; for a failing run both
    `Generate` calls return the runner's error. -/
theorem client_generate_equiv (raw : Bool) (pl : Nat) (cs : List Chunk) :
    (let v := clientView (genStream raw pl cs .ok)
     v.2 = none ∧ genOnce raw pl cs .ok = .ok { lastOr default v.1 with resp := (v.1.map (·.resp)).flatten })
    ∧ ∀ m, m.isEmpty = false →
        (clientView (genStream raw pl cs (.err m))).2 = some m ∧ genOnce raw pl cs (.err m) = .error m := by
  constructor
  · have h : clientView (genStream raw pl cs .ok) = (genCallback raw pl cs [], none) := by
      simp only [genStream, genChan, endItems, List.append_nil]; exact client_view_msgs _
    have hst : msgsOf (genStream raw pl cs .ok) = genCallback raw pl cs [] := by
      simp only [genStream, genChan]; exact msgsOf_chan _ _
    have := (generate_equiv raw pl cs).1
    simp only [hst] at this
    simp only [h]
    exact ⟨trivial, this⟩
  · intro m hm
    refine ⟨?_, genOnce_err _ _ _ _⟩
    simp only [genStream, genChan, endItems]
    rw [client_view_err _ m [] hm]

/-- **Through `api.Client` (chat without tools)**. -/
theorem client_chat_equiv (parse : Bytes → List Call) (cs : List Chunk) :
    (let v := clientView (chatStream parse false cs .ok)
     v.2 = none ∧ chatOnce parse false cs .ok = .ok { lastOr default v.1 with content := (v.1.map (·.content)).flatten })
    ∧ ∀ (tools : Bool) (m : Bytes), m.isEmpty = false →
        (clientView (chatStream parse tools cs (.err m))).2 = some m ∧ chatOnce parse tools cs (.err m) = .error m := by
  constructor
  · have h : clientView (chatStream parse false cs .ok) = (chatCallback parse false cs [] 0, none) := by
      simp only [chatStream, chatChan, endItems, List.append_nil]; exact client_view_msgs _
    have hst : msgsOf (chatStream parse false cs .ok) = chatCallback parse false cs [] 0 := by
      simp only [chatStream, chatChan]; exact msgsOf_chan _ _
    have := (chat_equiv parse cs).1
    simp only [hst] at this
    simp only [h]
    exact ⟨trivial, this⟩
  · intro tools m hm
    refine ⟨?_, chatOnce_err _ _ _ _⟩
    simp only [chatStream, chatChan, endItems]
    rw [client_view_err _ m [] hm]

/-! ## The repaired tool path under the weaker guard it actually needs -/

theorem setIdx_take (i n : Nat) (cs : List Call) : setIdx i (cs.take n) = (setIdx i cs).take n := by
  induction cs generalizing i n with
  | nil => simp [setIdx]
  | cons c cs ih =>
    cases n with
    | zero => simp [setIdx]
    | succ n => simp [setIdx, ih]

theorem setIdx_prefix {q p : List Call} (h : q <+: p) : setIdx 0 q = (setIdx 0 p).take q.length := by
  have := List.prefix_iff_eq_take.mp h
  rw [← setIdx_take, ← this]

theorem take_drop_glue {α : Type} (L : List α) (idx q : Nat) (h1 : idx ≤ q) (h2 : q ≤ L.length) :
    (L.take q).drop idx ++ L.drop q = L.drop idx := by
  have h : idx ≤ (L.take q).length := by simp; omega
  rw [← List.drop_append_of_le_length h, List.take_append_drop]

/-- **Guard: `parse` is monotone along the split** — the calls found in the text accumulated at
    any chunk boundary are a prefix of the calls found in the whole output. -/
def ParseMonotone (parse : Bytes → List Call) (cs : List Chunk) : Prop :=
  ∀ k, k < cs.length → parse (texts (cs.take (k + 1))) <+: parse (texts cs)

instance (parse : Bytes → List Call) (cs : List Chunk) : Decidable (ParseMonotone parse cs) := by
  unfold ParseMonotone; infer_instance

theorem chatCallbackFixed_mono (parse : Bytes → List Call) (P : List Call) (init : List Chunk) (l : Chunk)
    (sb : Bytes) (idx : Nat) (hnd : NoneDone init) (hl : l.done = true) (hidx : idx ≤ P.length)
    (hP : parse (sb ++ texts (init ++ [l])) = P)
    (hg : ∀ k, k < (init ++ [l]).length → parse (sb ++ texts ((init ++ [l]).take (k + 1))) <+: P) (d : ChatMsg) :
    let ms := chatCallbackFixed parse (init ++ [l]) sb idx
    aggCalls ms = (setIdx 0 P).drop idx
    ∧ aggContent ms = (if P.isEmpty && idx == 0 then sb ++ texts (init ++ [l]) else [])
    ∧ (lastOr d ms).info = chunkInfo l := by
  induction init generalizing sb idx d with
  | nil =>
    simp only [List.nil_append, texts_cons, texts_nil, List.append_nil] at hP
    simp only [List.nil_append, chatCallbackFixed, hl, hP, texts_cons, texts_nil, List.append_nil]
    by_cases h : (!P.isEmpty && decide (idx < P.length)) = true
    · simp only [h, ↓reduceIte]
      have hne : P.isEmpty = false := by
        cases hh : P.isEmpty
        · rfl
        · simp [hh] at h
      simp [aggCalls, aggContent, hne]
    · simp only [h, Bool.false_eq_true, ↓reduceIte]
      have hd : (setIdx 0 P).drop idx = [] := by
        apply List.drop_eq_nil_of_le
        simp only [setIdx_length]
        cases hh : P.isEmpty
        · simp [hh] at h; omega
        · have : P = [] := List.isEmpty_iff.mp hh
          simp [this]
      cases hh : P.isEmpty
      · have : idx = P.length := by simp [hh] at h; omega
        have hpos : 0 < P.length := by
          cases hp : P with
          | nil => simp [hp] at hh
          | cons _ _ => simp
        have hz : (idx == 0) = false := by
          cases hi : idx with
          | zero => omega
          | succ n => rfl
        simp [aggCalls, aggContent, hd, hz]
      · simp [aggCalls, aggContent, hd]
  | cons c cs ih =>
    have hdn : c.done = false := hnd c (by simp)
    have hnd' : NoneDone cs := fun x hx => hnd x (by simp [hx])
    have hQ : parse (sb ++ c.content) <+: P := by
      have := hg 0 (by simp)
      simpa using this
    have hP' : parse ((sb ++ c.content) ++ texts (cs ++ [l])) = P := by
      simpa [List.append_assoc] using hP
    have hg' : ∀ k, k < (cs ++ [l]).length →
        parse ((sb ++ c.content) ++ texts ((cs ++ [l]).take (k + 1))) <+: P := by
      intro k hk
      have := hg (k + 1) (by simp at hk ⊢; omega)
      simpa [List.append_assoc] using this
    have hQlen : (parse (sb ++ c.content)).length ≤ P.length := hQ.length_le
    simp only [List.cons_append, chatCallbackFixed, hdn]
    by_cases h : (!(parse (sb ++ c.content)).isEmpty && decide (idx < (parse (sb ++ c.content)).length)) = true
    · simp only [h, ↓reduceIte]
      have hlt : idx < (parse (sb ++ c.content)).length := by
        simp only [Bool.and_eq_true, decide_eq_true_eq] at h; exact h.2
      obtain ⟨i1, i2, i3⟩ := ih (sb ++ c.content) (parse (sb ++ c.content)).length hnd' hQlen hP' hg'
        { content := [], calls := List.drop idx (setIdx 0 (parse (sb ++ c.content))), info := chunkInfo c }
      have hPne : P.isEmpty = false := by
        cases hp : P with
        | nil =>
          have : (parse (sb ++ c.content)).length ≤ 0 := by simpa [hp] using hQlen
          omega
        | cons _ _ => rfl
      refine ⟨?_, ?_, ?_⟩
      · simp only [aggCalls, List.map_cons, List.flatten_cons] at i1 ⊢
        rw [i1, setIdx_prefix hQ]
        exact take_drop_glue _ _ _ (Nat.le_of_lt hlt) (by simpa using hQlen)
      · simp only [aggContent, List.map_cons, List.flatten_cons, List.nil_append] at i2 ⊢
        rw [i2]; simp [hPne]
      · simpa using i3
    · simp only [h, Bool.false_eq_true, ↓reduceIte]
      obtain ⟨i1, i2, i3⟩ := ih (sb ++ c.content) idx hnd' hidx hP' hg' d
      refine ⟨i1, ?_, i3⟩
      rw [i2]; simp [List.append_assoc]

/-- **F17a/b repaired, under monotonicity only**: with the patched handler, a protocol-respecting run
    on which `parse` is monotone streams exactly the `stream:false` reply — text, tool calls WITH
    their indices, reason and counts — whatever the split.  (`PrefixStable` implies nothing here:
    this guard also covers F17's own input, where a proper prefix parses.) -/
theorem tools_equiv_fixed_monotone (parse : Bytes → List Call) (init : List Chunk) (l : Chunk)
    (hnd : NoneDone init) (hl : l.done = true) (hg : ParseMonotone parse (init ++ [l])) :
    ∃ o, chatOnceV true parse true (init ++ [l]) .ok = .ok o
      ∧ aggContent (msgsOf (chatStreamV true parse true (init ++ [l]) .ok)) = o.content
      ∧ aggCalls (msgsOf (chatStreamV true parse true (init ++ [l]) .ok)) = o.calls
      ∧ (lastOr default (msgsOf (chatStreamV true parse true (init ++ [l]) .ok))).info = o.info := by
  have hst : msgsOf (chatStreamV true parse true (init ++ [l]) .ok) = chatCallbackFixed parse (init ++ [l]) [] 0 := by
    simp only [chatStreamV, Bool.and_self, ↓reduceIte]; exact msgsOf_chan _ _
  obtain ⟨h1, h2, h3⟩ := chatCallbackFixed_mono parse (parse (texts (init ++ [l]))) init l [] 0 hnd hl
    (Nat.zero_le _) (by simp) (by intro k hk; simpa using hg k hk) default
  simp only [List.nil_append, List.drop_zero] at h1 h2 h3
  rw [hst]
  unfold chatOnceV
  rw [chatOnce_ok_snoc]
  by_cases hp : (parse (texts (init ++ [l]))).isEmpty = true
  · have hp' : parse (texts (init ++ [l])) = [] := List.isEmpty_iff.mp hp
    simp [h1, h2, h3, hp, hp', setIdx]
  · simp [h1, h2, h3, hp]

/-- the guard holds on F17's split (and `PrefixStable` does not) -/
example : ParseMonotone parseF17 [nd (pieceA ++ pieceB1), nd pieceB2, fin]
    ∧ ¬ PrefixStable parseF17 [nd (pieceA ++ pieceB1), nd pieceB2, fin] := by decide


/-- non-vacuity of the fault / repaired-variant theorems: a complete run with a failing Tokenize, and a
    silent end under the F17d repair, evaluated by the kernel -/
example : generateStreamH ⟨false, false, true, true⟩ .none false false 3 [nd sHi] .ok
      = .ok [.msg ⟨sHi, ⟨true, false, [], 0, 0⟩, none⟩, .err sIncomplete]
    ∧ generateOnceH ⟨false, false, true, true⟩ .none false false 3 [nd sHi] .ok = .error sIncomplete
    ∧ chatStreamH ⟨false, false, true, false⟩ (.tok sBoom) parseF17 false true [nd sHi, fin] .ok = .error sBoom
    ∧ chatStreamH ⟨false, false, true, false⟩ (.tok sBoom) parseF17 false false [nd sHi, fin] .ok
      = .ok [.msg ⟨sHi, [], ⟨true, false, [], 0, 0⟩⟩, .msg ⟨[], [], ⟨true, true, sStop, 5, 7⟩⟩] :=
  ⟨rfl, rfl, rfl, rfl⟩

/-! ## `api.Client` and the length of the lines -/

/-- **whatever the length, up to what the client's buffer holds**: if every line on the wire is
    shorter than the scanner limit, the limit plays no role — `client_generate_equiv` /
    `client_chat_equiv` (stated with `clientView`) apply to what `api.Client` does. -/
theorem client_view_fits {α : Type} [Inhabited α] (limit : Nat) (fixed : Bool) (l : List (Item α × Nat))
    (h : ∀ p ∈ l, p.2 < limit) : clientViewL limit fixed l = clientView (l.map (·.1)) := by
  induction l with
  | nil => rfl
  | cons p rest ih =>
    obtain ⟨it, n⟩ := p
    have hn : ¬ limit ≤ n := by have := h (it, n) (by simp); simp at this; omega
    have ih' := ih (fun q hq => h q (by simp [hq]))
    cases it with
    | msg m => simp [clientViewL, clientView, hn, ih']
    | err e => simp [clientViewL, clientView, hn, ih']

/-- **F17e as a theorem of the pinned client, and its repair**: at the first line of `limit` bytes or
    more the client stops; the messages before it were delivered, that line and EVERYTHING after it
    (a final done message included) are not; pinned: nil is returned (no final message, no error);
    repaired (C17-F17e.patch): the scanner's error is returned. -/
theorem client_long_line {α : Type} [Inhabited α] (limit : Nat) (fixed : Bool) (pre : List (α × Nat))
    (hpre : ∀ p ∈ pre, p.2 < limit) (it : Item α) (n : Nat) (rest : List (Item α × Nat)) (hn : limit ≤ n) :
    clientViewL limit fixed (pre.map (fun p => (Item.msg p.1, p.2)) ++ (it, n) :: rest)
      = (pre.map (·.1), if fixed then some sTooLong else none) := by
  induction pre with
  | nil => simp [clientViewL, hn]
  | cons p ps ih =>
    have hp : ¬ limit ≤ p.2 := by have := hpre p (by simp); omega
    have ih' := ih (fun q hq => hpre q (by simp [hq]))
    simp [clientViewL, hp, ih']

/-- witness: a 513093-byte reply line (a 513000-byte output) with the unchanged 512000-byte buffer -/
theorem F17e_client_drops_long_reply :
    clientViewL 512000 false [(Item.msg (default : GenMsg), 513093), (Item.msg (default : GenMsg), 120)] = ([], none)
    ∧ clientViewL 512000 true [(Item.msg (default : GenMsg), 513093), (Item.msg (default : GenMsg), 120)]
        = ([], some sTooLong)
    ∧ clientViewL 512000 false [(Item.msg (default : GenMsg), 511999), (Item.msg (default : GenMsg), 120)]
        = ([default, default], none) := ⟨rfl, rfl, rfl⟩


/-! ## Round 7: the streaming tool path, exactly (no guard) -/

/-- what the pinned streaming tool path extracts from a chunk list: the builder is parsed at every
    chunk and RESET when it parses — a greedy segmentation of the output at chunk boundaries -/
def greedyCalls (parse : Bytes → List Call) : List Chunk → Bytes → List Call
  | [], _ => []
  | c :: cs, sb =>
    if (parse (sb ++ c.content)).isEmpty then greedyCalls parse cs (sb ++ c.content)
    else parse (sb ++ c.content) ++ greedyCalls parse cs []

theorem setIdx_append (i : Nat) (a b : List Call) : setIdx i (a ++ b) = setIdx i a ++ setIdx (i + a.length) b := by
  induction a generalizing i with
  | nil => simp [setIdx]
  | cons x xs ih => simp [setIdx, ih, Nat.add_assoc, Nat.add_comm 1]

theorem aggCalls_cons (m : ChatMsg) (ms : List ChatMsg) : aggCalls (m :: ms) = m.calls ++ aggCalls ms := by
  simp [aggCalls]

theorem aggContent_cons (m : ChatMsg) (ms : List ChatMsg) : aggContent (m :: ms) = m.content ++ aggContent ms := by
  simp [aggContent]

/-- **the calls of the streaming tool path, for EVERY chunk list** (no protocol, no guard) -/
theorem chatCallback_calls_exact (parse : Bytes → List Call) (cs : List Chunk) (sb : Bytes) (idx : Nat) :
    aggCalls (chatCallback parse true cs sb idx) = setIdx idx (greedyCalls parse cs sb) := by
  induction cs generalizing sb idx with
  | nil => simp [chatCallback, greedyCalls, aggCalls, setIdx]
  | cons c cs ih =>
    by_cases h : (parse (sb ++ c.content)).isEmpty = true
    · cases hd : c.done <;>
        simp [chatCallback, greedyCalls, h, hd, aggCalls_cons, ih]
    · simp [chatCallback, greedyCalls, h, aggCalls_cons, ih, setIdx_append]

/-- **streamed `index` fields, every chunk list, every ending**: the calls of a streamed reply are
    numbered 0,1,…,n-1 in the order they are sent — whatever the split, with or without the runner
    protocol, with or without `PrefixStable`. -/
theorem tools_index_all (parse : Bytes → List Call) (cs : List Chunk) (e : End) :
    (aggCalls (msgsOf (chatStream parse true cs e))).map (·.index)
      = List.range' 0 (aggCalls (msgsOf (chatStream parse true cs e))).length := by
  have hst : msgsOf (chatStream parse true cs e) = chatCallback parse true cs [] 0 := by
    simp only [chatStream, chatChan]; exact msgsOf_chan _ _
  rw [hst, chatCallback_calls_exact, setIdx_index, setIdx_length]

theorem setIdx_congr (i : Nat) (a b : List Call) (h : a.map eraseIdx = b.map eraseIdx) : setIdx i a = setIdx i b := by
  induction a generalizing i b with
  | nil => cases b <;> simp_all [setIdx]
  | cons x xs ih =>
    cases b with
    | nil => simp at h
    | cons y ys =>
      simp only [List.map_cons, List.cons.injEq] at h
      obtain ⟨h1, h2⟩ := h
      have : ({ x with index := i } : Call) = { y with index := i } := by
        cases x; cases y; simp_all [eraseIdx]
      simp [setIdx, this, ih _ _ h2]

/-- the content of the streaming tool path for a protocol-respecting run -/
theorem chatCallback_content_exact (parse : Bytes → List Call) (init : List Chunk) (l : Chunk) (sb : Bytes) (idx : Nat)
    (hnd : NoneDone init) (hl : l.done = true) (hlc : l.content = []) :
    (aggContent (chatCallback parse true (init ++ [l]) sb idx)
      = if idx == 0 && (greedyCalls parse (init ++ [l]) sb).isEmpty then sb ++ texts init else [])
    ∧ ∀ d, (lastOr d (chatCallback parse true (init ++ [l]) sb idx)).info = chunkInfo l := by
  induction init generalizing sb idx with
  | nil =>
    by_cases h : (parse (sb ++ l.content)).isEmpty = true
    · have h' : (parse sb).isEmpty = true := by simpa [hlc] using h
      constructor
      · simp [chatCallback, greedyCalls, hl, aggContent, hlc, h']
      · intro d; simp [chatCallback, h, hl]
    · have h' : (parse sb).isEmpty = false := by simpa [hlc] using h
      constructor
      · simp [chatCallback, greedyCalls, aggContent, hlc, h']
      · intro d; simp [chatCallback, h]
  | cons c cs ih =>
    have hd : c.done = false := hnd c (by simp)
    have hnd' : NoneDone cs := fun x hx => hnd x (by simp [hx])
    by_cases h : (parse (sb ++ c.content)).isEmpty = true
    · obtain ⟨i1, i2⟩ := ih (sb ++ c.content) idx hnd'
      constructor
      · simp only [List.cons_append, chatCallback, greedyCalls, h, hd, Bool.not_true, Bool.false_eq_true, ↓reduceIte]
        rw [i1]; simp [List.append_assoc]
      · intro d
        simp only [List.cons_append, chatCallback, h, hd, Bool.not_true, Bool.false_eq_true, ↓reduceIte]
        exact i2 d
    · have hpos : 0 < (parse (sb ++ c.content)).length := by
        cases hh : parse (sb ++ c.content) with
        | nil => simp [hh] at h
        | cons _ _ => simp
      obtain ⟨i1, i2⟩ := ih [] (idx + (parse (sb ++ c.content)).length) hnd'
      have hz : (idx + (parse (sb ++ c.content)).length == 0) = false := by
        cases hh : idx + (parse (sb ++ c.content)).length with
        | zero => omega
        | succ n => rfl
      constructor
      · simp only [List.cons_append, chatCallback, greedyCalls, h, Bool.not_true, Bool.false_eq_true, ↓reduceIte,
          Bool.not_false, aggContent_cons, i1, hz, Bool.false_and, List.nil_append]
        have : (parse (sb ++ c.content) ++ greedyCalls parse (cs ++ [l]) []).isEmpty = false := by
          cases hh : parse (sb ++ c.content) with
          | nil => simp [hh] at h
          | cons _ _ => rfl
        simp [this]
      · intro d
        simp only [List.cons_append, chatCallback, h, Bool.not_true, Bool.false_eq_true, ↓reduceIte, Bool.not_false,
          lastOr_cons]
        exact i2 _


theorem chatOnceH_ok_snoc (v : Variant) (parse : Bytes → List Call) (tools hist : Bool) (init : List Chunk) (l : Chunk)
    (hl : l.done = true) :
    chatOnceH v .none parse tools hist (init ++ [l]) .ok =
      .ok (if tools && !(parse (texts (init ++ [l]))).isEmpty
      then { content := [], calls := if v.toolsIndex then setIdx 0 (parse (texts (init ++ [l]))) else parse (texts (init ++ [l])),
                 info := chunkInfo l }
      else { content := texts (init ++ [l]), calls := [], info := chunkInfo l }) := by
  have h1 : (List.map (fun x : ChatMsg => x.content) (List.map chatMsgOf (init ++ [l]))).flatten = texts (init ++ [l]) := by
    simp [texts, chatMsgOf, List.map_map, Function.comp_def]
  have h2 : lastOr (default : ChatMsg) (List.map chatMsgOf (init ++ [l])) = chatMsgOf l := by
    rw [List.map_append]; exact lastOr_append_singleton _ _ _
  simp only [chatOnceH, Fault.chatPre, chatItemsH, Bool.and_false, Bool.false_eq_true, ↓reduceIte,
    chatCallback_unbuffered, endItemsV, sawDone_snoc init l hl, Bool.not_true, List.append_nil, onceLoop_msgs,
    List.nil_append, h1, h2]
  split <;> simp [chatMsgOf]

/-- **Streamed = non-streamed with tools, EXACTLY (the tree as it is: F17b repaired, F17a present).**
    For a protocol-respecting run whose final message is empty (what the real runner sends) and a
    parser that finds nothing in the empty text: the aggregated stream — concatenated contents,
    concatenated tool calls WITH their indices, last message's reason and counts — equals the
    `stream:false` reply IF AND ONLY IF the greedy segmentation of the output at the chunk boundaries
    finds the same calls as one parse of the whole output.  `PrefixStable` is one sufficient condition
    (`tools_equiv_partial`); F17a is exactly the failure of the right-hand side. -/
theorem tools_equiv_iff (v : Variant) (hv : v.toolsStream = false) (hi : v.toolsIndex = true)
    (parse : Bytes → List Call) (hist : Bool) (init : List Chunk) (l : Chunk)
    (hnd : NoneDone init) (hl : l.done = true) (hlc : l.content = []) :
    ∃ o st, chatOnceH v .none parse true hist (init ++ [l]) .ok = .ok o
      ∧ chatStreamH v .none parse true hist (init ++ [l]) .ok = .ok (st.map Item.msg)
      ∧ (lastOr default st).info = o.info
      ∧ ((aggContent st = o.content ∧ aggCalls st = o.calls)
          ↔ (greedyCalls parse (init ++ [l]) []).map eraseIdx = (parse (texts (init ++ [l]))).map eraseIdx) := by
  have hte : texts (init ++ [l]) = texts init := by simp [texts_append, hlc]
  obtain ⟨c1, c2⟩ := chatCallback_content_exact parse init l [] 0 hnd hl hlc
  have c3 := chatCallback_calls_exact parse (init ++ [l]) [] 0
  refine ⟨_, chatCallback parse true (init ++ [l]) [] 0, chatOnceH_ok_snoc v parse true hist init l hl, ?_, ?_, ?_⟩
  · simp [chatStreamH, Fault.chatPre, chatItemsH, hv, endItemsV, sawDone_snoc init l hl]
  · rw [c2]; split <;> rfl
  · rw [c1, c3, hi]
    simp only [beq_self_eq_true, Bool.true_and, List.nil_append, ↓reduceIte, hte]
    by_cases hp : (parse (texts init)).isEmpty = true
    · have hp' : parse (texts init) = [] := List.isEmpty_iff.mp hp
      simp only [hp', List.isEmpty_nil, Bool.not_true, Bool.false_eq_true, ↓reduceIte, List.map_nil,
        List.map_eq_nil_iff]
      constructor
      · rintro ⟨_, h2⟩
        cases hg : greedyCalls parse (init ++ [l]) [] with
        | nil => rfl
        | cons x xs => rw [hg] at h2; simp [setIdx] at h2
      · intro hg; simp [hg, setIdx]
    · have hne : parse (texts init) ≠ [] := fun e => hp (by simp [e])
      simp only [hp, Bool.not_false, ↓reduceIte]
      constructor
      · rintro ⟨_, h2⟩
        have := congrArg (List.map eraseIdx) h2
        simpa [setIdx_erase] using this
      · intro hg
        have hgne : (greedyCalls parse (init ++ [l]) []).isEmpty = false := by
          cases hh : greedyCalls parse (init ++ [l]) [] with
          | nil => rw [hh] at hg; simp at hg; exact absurd hg.symm (fun e => hne e.symm)
          | cons _ _ => rfl
        exact ⟨by simp [hgne], setIdx_congr 0 _ _ hg⟩

/-- non-vacuity / both directions on concrete runs: F17a's split makes the right-hand side false, the
    unsplit output makes it true -/
example : (greedyCalls parseF17 [nd (pieceA ++ pieceB1), nd pieceB2, fin] []).map eraseIdx
        ≠ (parseF17 (texts [nd (pieceA ++ pieceB1), nd pieceB2, fin])).map eraseIdx
    ∧ (greedyCalls parseF17 [nd (pieceA ++ pieceB1 ++ pieceB2), fin] []).map eraseIdx
        = (parseF17 (texts [nd (pieceA ++ pieceB1 ++ pieceB2), fin])).map eraseIdx
    ∧ greedyCalls parseF17 [nd (pieceA ++ pieceB1 ++ pieceB2), fin] [] = [callA, callB] := by decide


/-! ## Round 7: finish_reason and usage on the OpenAI streaming endpoints -/

/-- the `finish_reason` field of every delta / text chunk of an OpenAI stream, in order -/
def OaEv.finish? : OaEv → Option (Option Bytes)
  | .chunk _ _ f => some f
  | .tchunk _ f _ => some f
  | _ => none

def OaEv.usage? : OaEv → Option Usage
  | .usage u => some u
  | _ => none

def oaFinishes (evs : List OaEv) : List (Option Bytes) := evs.filterMap OaEv.finish?
/-- the usage-only chunks (`choices: []`) of an OpenAI stream -/
def oaUsages (evs : List OaEv) : List Usage := evs.filterMap OaEv.usage?

theorem oaFinishes_append (a b : List OaEv) : oaFinishes (a ++ b) = oaFinishes a ++ oaFinishes b := by
  simp [oaFinishes, List.filterMap_append]
theorem oaUsages_append (a b : List OaEv) : oaUsages (a ++ b) = oaUsages a ++ oaUsages b := by
  simp [oaUsages, List.filterMap_append]

theorem oaTail_finishes (u : Bool) (m : Info) : oaFinishes (oaTail u m) = [] := by
  cases u <;> rfl
theorem oaTail_usages (u : Bool) (m : Info) : oaUsages (oaTail u m) = if u then [usageOf m] else [] := by
  cases u <;> rfl

/-- a message the callbacks build for a chunk that is not done carries no `done_reason` -/
def Quiet (i : Info) : Prop := i.done = false ∧ i.reason = []

theorem chunkInfo_quiet (c : Chunk) (h : c.done = false) : Quiet (chunkInfo c) := by
  simp [Quiet, chunkInfo, h]

theorem chatCallback_quiet (parse : Bytes → List Call) (b : Bool) (cs : List Chunk) (sb : Bytes) (idx : Nat)
    (hnd : NoneDone cs) : ∀ m ∈ chatCallback parse b cs sb idx, Quiet m.info := by
  induction cs generalizing sb idx with
  | nil => intro m hm; simp [chatCallback] at hm
  | cons c cs ih =>
    have hd : c.done = false := hnd c (by simp)
    have hnd' : NoneDone cs := fun x hx => hnd x (by simp [hx])
    intro m hm
    simp only [chatCallback] at hm
    split at hm
    · rcases List.mem_cons.mp hm with rfl | h
      · exact chunkInfo_quiet c hd
      · exact ih _ _ hnd' m h
    · split at hm
      · rcases List.mem_cons.mp hm with rfl | h
        · exact chunkInfo_quiet c hd
        · exact ih _ _ hnd' m h
      · rw [if_neg (by simp [hd])] at hm
        exact ih _ _ hnd' m hm

theorem genCallback_quiet (raw : Bool) (pl : Nat) (cs : List Chunk) (sb : Bytes) (hnd : NoneDone cs) :
    ∀ m ∈ genCallback raw pl cs sb, Quiet m.info := by
  induction cs generalizing sb with
  | nil => intro m hm; simp [genCallback] at hm
  | cons c cs ih =>
    intro m hm
    simp only [genCallback] at hm
    rcases List.mem_cons.mp hm with rfl | hm
    · exact chunkInfo_quiet c (hnd c (by simp))
    · exact ih _ (fun x hx => hnd x (by simp [hx])) m hm

/-- the writer's `toolCallSent` flag after a list of messages = "some message so far carried calls" -/
theorem oaChatStream_msgs_append (usage : Bool) (pre : List ChatMsg) (rest : List (Item ChatMsg)) (sent : Bool) :
    oaChatStream usage (pre.map Item.msg ++ rest) sent
      = oaChatStream usage (pre.map Item.msg) sent ++ oaChatStream usage rest (sent || !(aggCalls pre).isEmpty) := by
  induction pre generalizing sent with
  | nil => simp [oaChatStream, aggCalls]
  | cons x xs ih =>
    have hb : ((sent || !x.calls.isEmpty) || !(aggCalls xs).isEmpty) = (sent || !(x.calls ++ aggCalls xs).isEmpty) := by
      cases sent <;> cases hx : x.calls <;> cases ha : aggCalls xs <;> simp
    simp only [List.map_cons, List.cons_append, oaChatStream, asChat, ih, List.append_assoc, aggCalls_cons, hb]

theorem oaChatStream_quiet (usage : Bool) (pre : List ChatMsg) (sent : Bool) (hq : ∀ m ∈ pre, Quiet m.info) :
    oaFinishes (oaChatStream usage (pre.map Item.msg) sent) = List.replicate pre.length none
    ∧ oaUsages (oaChatStream usage (pre.map Item.msg) sent) = [] := by
  induction pre generalizing sent with
  | nil => simp [oaChatStream, oaFinishes, oaUsages]
  | cons x xs ih =>
    obtain ⟨hd, hr⟩ := hq x (by simp)
    obtain ⟨i1, i2⟩ := ih (sent || !x.calls.isEmpty) (fun m hm => hq m (by simp [hm]))
    simp only [List.map_cons, oaChatStream, asChat, hd, hr, List.isEmpty_nil, ↓reduceIte, Bool.false_eq_true,
      List.append_nil, List.singleton_append, List.length_cons, List.replicate_succ]
    constructor
    · simp only [oaFinishes, List.filterMap_cons, OaEv.finish?] at i1 ⊢; rw [i1]
    · simp only [oaUsages, List.filterMap_cons, OaEv.usage?] at i2 ⊢; exact i2

theorem oaCmplStream_quiet (usage : Bool) (pre : List GenMsg) (hq : ∀ m ∈ pre, Quiet m.info) :
    oaFinishes (oaCmplStream usage (pre.map Item.msg)) = List.replicate pre.length none
    ∧ oaUsages (oaCmplStream usage (pre.map Item.msg)) = [] := by
  induction pre with
  | nil => simp [oaCmplStream, oaFinishes, oaUsages]
  | cons x xs ih =>
    obtain ⟨hd, hr⟩ := hq x (by simp)
    obtain ⟨i1, i2⟩ := ih (fun m hm => hq m (by simp [hm]))
    simp only [List.map_cons, oaCmplStream, asGen, hd, hr, ↓reduceIte, Bool.false_eq_true,
      List.append_nil, List.singleton_append, List.length_cons, List.replicate_succ]
    constructor
    · simp only [oaFinishes, List.filterMap_cons, OaEv.finish?] at i1 ⊢; rw [i1]; rfl
    · simp only [oaUsages, List.filterMap_cons, OaEv.usage?] at i2 ⊢; exact i2

/-- **finish_reason and usage of a streamed /v1/chat/completions.**  For every protocol-respecting
    successful run (every split, with or without tools): every delta but the last has
    `finish_reason: null`; the last one carries `tool_calls` if an EARLIER delta carried tool calls,
    otherwise the native `done_reason` (null when that is empty); with `include_usage` exactly one usage
    chunk follows, holding the final message's counts — the figures the non-streamed reply reports
    (`openai_once_equiv`); without it there is none. -/
theorem openai_chat_stream_finish_usage (parse : Bytes → List Call) (tools usage : Bool) (cs : List Chunk)
    (h : RunnerOK cs .ok) :
    ∃ (pre : List ChatMsg) (m : ChatMsg), msgsOf (chatStream parse tools cs .ok) = pre ++ [m] ∧ m.info.done = true
      ∧ oaFinishes (oaChatStream usage (chatStream parse tools cs .ok) false)
          = List.replicate pre.length none
            ++ [if m.info.reason.isEmpty then none else if (aggCalls pre).isEmpty then some m.info.reason else some sToolCalls]
      ∧ oaUsages (oaChatStream usage (chatStream parse tools cs .ok) false) = (if usage then [usageOf m.info] else []) := by
  cases h with
  | done init l hnd hl =>
    obtain ⟨sb', idx', happ⟩ := chatCallback_append parse tools init [l] [] 0
    obtain ⟨m, hm, hdone⟩ := chatCallback_done_chunk parse tools l sb' idx' hl
    have hs : chatStream parse tools (init ++ [l]) .ok = (chatCallback parse tools init [] 0).map Item.msg ++ [Item.msg m] := by
      simp [chatStream, chatChan, endItems, happ, hm]
    obtain ⟨q1, q2⟩ := oaChatStream_quiet usage (chatCallback parse tools init [] 0) false
      (chatCallback_quiet parse tools init [] 0 hnd)
    refine ⟨chatCallback parse tools init [] 0, m, ?_, hdone, ?_, ?_⟩
    · rw [hs, msgsOf_append, msgsOf_map_msg]; rfl
    · rw [hs, oaChatStream_msgs_append, oaFinishes_append, q1]
      simp only [oaChatStream, asChat, hdone, ↓reduceIte, List.append_nil, Bool.false_or]
      rw [oaFinishes_append]
      have : oaFinishes ((if usage = true then [OaEv.usage (usageOf m.info)] else []) ++ [OaEv.done]) = [] :=
        oaTail_finishes usage m.info
      rw [this]
      cases hc : (aggCalls (chatCallback parse tools init [] 0)).isEmpty <;> simp [oaFinishes, OaEv.finish?]
    · rw [hs, oaChatStream_msgs_append, oaUsages_append, q2]
      simp only [oaChatStream, asChat, hdone, ↓reduceIte, List.append_nil, List.nil_append]
      rw [oaUsages_append]
      have : oaUsages ((if usage = true then [OaEv.usage (usageOf m.info)] else []) ++ [OaEv.done])
          = if usage then [usageOf m.info] else [] := oaTail_usages usage m.info
      rw [this]; simp [oaUsages, OaEv.usage?]

/-- **finish_reason and usage of a streamed /v1/completions**: every text chunk but the last has
    `finish_reason: null`, the last one the native `done_reason`; one usage chunk with the final counts
    iff `include_usage`. -/
theorem openai_cmpl_stream_finish_usage (raw usage : Bool) (pl : Nat) (cs : List Chunk) (h : RunnerOK cs .ok) :
    ∃ (pre : List GenMsg) (m : GenMsg), msgsOf (genStream raw pl cs .ok) = pre ++ [m] ∧ m.info.done = true
      ∧ oaFinishes (oaCmplStream usage (genStream raw pl cs .ok)) = List.replicate pre.length none ++ [nonEmpty? m.info.reason]
      ∧ oaUsages (oaCmplStream usage (genStream raw pl cs .ok)) = (if usage then [usageOf m.info] else []) := by
  cases h with
  | done init l hnd hl =>
    have hs : genStream raw pl (init ++ [l]) .ok
        = (genCallback raw pl init []).map Item.msg ++ [Item.msg (genMsgOf raw pl (texts init ++ l.content) l)] := by
      simp [genStream, genChan, endItems, genCallback_append, genCallback]
    have hdone : (genMsgOf raw pl (texts init ++ l.content) l).info.done = true := by simp [genMsgOf, chunkInfo, hl]
    obtain ⟨q1, q2⟩ := oaCmplStream_quiet usage (genCallback raw pl init []) (genCallback_quiet raw pl init [] hnd)
    refine ⟨genCallback raw pl init [], _, ?_, hdone, ?_, ?_⟩
    · rw [hs, msgsOf_append, msgsOf_map_msg]; rfl
    · rw [hs, oaCmplStream_append, oaFinishes_append, q1]
      simp only [oaCmplStream, asGen, hdone, ↓reduceIte, List.append_nil]
      rw [oaFinishes_append]
      have : oaFinishes ((if usage = true then [OaEv.usage (usageOf (genMsgOf raw pl (texts init ++ l.content) l).info)] else []) ++ [OaEv.done]) = [] :=
        oaTail_finishes usage _
      rw [this]; simp [oaFinishes, OaEv.finish?]
    · rw [hs, oaCmplStream_append, oaUsages_append, q2]
      simp only [oaCmplStream, asGen, hdone, ↓reduceIte, List.append_nil, List.nil_append]
      rw [oaUsages_append]
      have : oaUsages ((if usage = true then [OaEv.usage (usageOf (genMsgOf raw pl (texts init ++ l.content) l).info)] else []) ++ [OaEv.done])
          = if usage then [usageOf (genMsgOf raw pl (texts init ++ l.content) l).info] else [] := oaTail_usages usage _
      rw [this]; simp [oaUsages, OaEv.usage?]


/-! ## Round 7: the handler level (`*H`, every variant) coincides with the base functions on protocol runs -/

theorem lastOr_chatMsgOf_calls (cs : List Chunk) (d : ChatMsg) (hd : d.calls = []) :
    (lastOr d (cs.map chatMsgOf)).calls = [] := by
  induction cs generalizing d with
  | nil => exact hd
  | cons c cs ih => exact ih (chatMsgOf c) rfl

/-- **the end-to-end handler models reduce to the base functions** (about which `generate_equiv`,
    `generate_resplit`, `chat_equiv`, `chat_resplit`, `openai_*`, `client_*` are stated) on every
    protocol-respecting run in which no fault fires — for EVERY variant (the F17d repair only adds an item
    to runs that end without a done chunk, which `RunnerOK` excludes). -/
theorem handlers_eq_base (v : Variant) (f : Fault) (raw hasCtx : Bool) (pl : Nat) (parse : Bytes → List Call)
    (tools hist : Bool) (cs : List Chunk) (e : End) (h : RunnerOK cs e) :
    (f.genPre hasCtx = none → (f.ctxTok = none ∨ raw = true) →
      generateStreamH v f raw hasCtx pl cs e = .ok (genStream raw pl cs e)
      ∧ generateOnceH v f raw hasCtx pl cs e = genOnce raw pl cs e)
    ∧ (f.chatPre hist = none → (v.toolsStream && tools) = false →
      chatStreamH v f parse tools hist cs e = .ok (chatStream parse tools cs e)
      ∧ chatOnceH v f parse tools hist cs e = chatOnceV v.toolsIndex parse tools cs e) := by
  have hend : ∀ {α : Type}, (endItemsV v.incomplete cs e : List (Item α)) = endItems e := by
    intro α
    cases h with
    | done init l hnd hl => simp [endItemsV, endItems, sawDone_snoc init l hl]
    | fail cs m hnd => rfl
  constructor
  · intro hp hq
    have hcb : genCallbackT f.ctxTok raw pl cs [] = (genCallback raw pl cs []).map Item.msg := by
      rcases hq with hq | hq
      · rw [hq]; exact genCallbackT_none raw pl cs []
      · exact genCallbackT_quiet _ _ _ _ _ (Or.inl hq)
    simp only [generateStreamH, generateOnceH, hp, genItemsH, hcb, hend]
    exact ⟨rfl, rfl⟩
  · intro hp hv
    simp only [chatStreamH, chatOnceH, hp, chatItemsH, hv, Bool.false_eq_true, ↓reduceIte, hend,
      Bool.and_false]
    refine ⟨rfl, ?_⟩
    unfold chatOnceV chatOnce chatChan
    rw [onceLoop_chan, chatCallback_unbuffered]
    cases e with
    | err m => rfl
    | ok =>
      have hcalls : (lastOr (default : ChatMsg) (cs.map chatMsgOf)).calls = [] := lastOr_chatMsgOf_calls cs default rfl
      simp only
      by_cases hc : (tools && !(parse (List.map (fun x : ChatMsg => x.content) (List.map chatMsgOf cs)).flatten).isEmpty) = true
      · simp only [hc, ↓reduceIte]
        cases v.toolsIndex <;> rfl
      · simp only [hc, Bool.false_eq_true, ↓reduceIte]
        cases v.toolsIndex
        · rfl
        · simp [hcalls, setIdx]

/-! ## Round 7: through `api.Client`, every reply ends with exactly one final message or one error -/

/-- number of terminal events a caller of `api.Client.Generate/Chat` observes: final (done) messages
    delivered to its callback + the returned error -/
def clientTerminals {α : Type} (done : α → Bool) (v : List α × Option Bytes) : Nat :=
  (v.1.filter done).length + (if v.2.isSome then 1 else 0)

theorem oneFinal_shape {α : Type} (done : α → Bool) (items : List (Item α)) (h : OneFinal done items) :
    ∃ (pre : List α) (t : Item α), items = pre.map Item.msg ++ [t] ∧ (∀ m ∈ pre, done m = false)
      ∧ terminal done t = true := by
  induction items with
  | nil => simp [OneFinal] at h
  | cons it rest ih =>
    obtain ⟨h1, h2⟩ := h
    cases rest with
    | nil =>
      refine ⟨[], it, by simp, by simp, ?_⟩
      simpa using h2
    | cons it2 rest2 =>
      have hlast : (it2 :: rest2).getLast?.map (terminal done) = some true := by
        simpa [List.getLast?_cons_cons] using h2
      have hcnt : 1 ≤ ((it2 :: rest2).filter (terminal done)).length := by
        have hne : (it2 :: rest2) ≠ [] := by simp
        have hmem := List.getLast_mem hne
        have hterm : terminal done ((it2 :: rest2).getLast hne) = true := by
          rw [List.getLast?_eq_some_getLast hne] at hlast
          simpa using hlast
        exact List.length_pos_of_mem (List.mem_filter.mpr ⟨hmem, hterm⟩)
      have hit : terminal done it = false := by
        cases ht : terminal done it
        · rfl
        · rw [List.filter_cons_of_pos ht, List.length_cons] at h1; omega
      have h1' : ((it2 :: rest2).filter (terminal done)).length = 1 := by
        rw [List.filter_cons_of_neg (by simp [hit])] at h1; exact h1
      obtain ⟨pre, t, he, hpre, ht⟩ := ih ⟨h1', hlast⟩
      cases it with
      | err e => simp [terminal] at hit
      | msg m =>
        refine ⟨m :: pre, t, by simp [he], ?_, ht⟩
        intro x hx
        rcases List.mem_cons.mp hx with rfl | hx
        · simpa [terminal] using hit
        · exact hpre x hx

/-- **through `api.Client`**: if the wire carries exactly one terminal item, last (`one_final_*`), its
    error lines are not the empty string and every line is shorter than the scanner limit
    (`client_view_fits`), then the caller observes exactly one terminal event — one final message
    delivered and nil returned, or no final message and that error returned — and every message on the
    wire was delivered. -/
theorem client_one_final {α : Type} [Inhabited α] (done : α → Bool) (items : List (Item α))
    (h : OneFinal done items) (hne : ∀ e ∈ errsOf items, e.isEmpty = false) :
    clientTerminals done (clientView items) = 1
    ∧ (clientView items).1 = msgsOf items
    ∧ (clientView items).2 = (errsOf items).head? := by
  obtain ⟨pre, t, rfl, hpre, ht⟩ := oneFinal_shape done items h
  cases t with
  | msg m =>
    have hv : clientView (pre.map Item.msg ++ [Item.msg m]) = (pre ++ [m], none) := by
      have := client_view_msgs (pre ++ [m])
      simpa using this
    have hd : done m = true := by simpa [terminal] using ht
    rw [hv]
    refine ⟨?_, by rw [msgsOf_append, msgsOf_map_msg]; rfl, by rw [errsOf_append, errsOf_map_msg]; rfl⟩
    simp [clientTerminals, List.filter_append, filter_done_nonfinal done pre hpre, hd]
  | err e =>
    have he : e.isEmpty = false := hne e (by rw [errsOf_append, errsOf_map_msg]; simp [errsOf, Item.err?])
    rw [client_view_err pre e [] he]
    refine ⟨?_, by rw [msgsOf_append, msgsOf_map_msg]; simp [msgsOf, Item.msg?], by rw [errsOf_append, errsOf_map_msg]; rfl⟩
    simp [clientTerminals, filter_done_nonfinal done pre hpre]

/-! ## Round 7 (review): the headline clauses on the handlers and writers the tree runs -/

/-- the repaired OpenAI stream writers (`oaErr = true`, in /repo) coincide with the pinned ones on a
    stream without error lines — so `openai_chat_stream_equiv`, `openai_cmpl_stream_equiv`,
    `openai_*_stream_finish_usage`, `openai_stream_one_done` are statements about the writers the tree runs -/
theorem oaStreamFixed_eq_pinned (usage : Bool) :
    (∀ (ms : List ChatMsg) (sent : Bool),
      oaChatStreamFixed usage (ms.map Item.msg) sent = oaChatStream usage (ms.map Item.msg) sent)
    ∧ (∀ ms : List GenMsg, oaCmplStreamFixed usage (ms.map Item.msg) = oaCmplStream usage (ms.map Item.msg)) := by
  constructor
  · intro ms
    induction ms with
    | nil => intro sent; rfl
    | cons x xs ih =>
      intro sent
      simp only [List.map_cons, oaChatStreamFixed, ih]
      exact (oaChatStream_single_append usage x (xs.map Item.msg) sent).symm
  · intro ms
    induction ms with
    | nil => rfl
    | cons x xs ih =>
      simp only [List.map_cons, oaCmplStreamFixed, ih]
      simp [oaCmplStream, asGen]

theorem oaStreamV_eq_pinned (fixed usage : Bool) :
    (∀ ms : List ChatMsg, oaChatStreamV fixed usage (ms.map Item.msg) = oaChatStream usage (ms.map Item.msg) false)
    ∧ (∀ ms : List GenMsg, oaCmplStreamV fixed usage (ms.map Item.msg) = oaCmplStream usage (ms.map Item.msg)) := by
  obtain ⟨h1, h2⟩ := oaStreamFixed_eq_pinned usage
  constructor
  · intro ms; cases fixed <;> simp [oaChatStreamV, h1]
  · intro ms; cases fixed <;> simp [oaCmplStreamV, h2]

theorem lastOr_mem {α : Type} (d : α) (xs : List α) : lastOr d xs = d ∨ lastOr d xs ∈ xs := by
  induction xs generalizing d with
  | nil => exact Or.inl rfl
  | cons x xs ih =>
    rcases ih x with h | h
    · exact Or.inr (by simp [h])
    · exact Or.inr (by simp [h])

/-- **Stream concatenation = non-stream reply, on the tree's handlers (generate).**  For EVERY variant
    and every protocol-respecting successful run (every split of every output): the `stream:false` reply
    of `generateOnceH` is the last message of `generateStreamH`'s stream with `response` := the
    concatenation of all streamed `response`s (so reason, counts and `context` are the last message's);
    that concatenation is the output; no error line. -/
theorem generate_equiv_H (v : Variant) (raw hasCtx : Bool) (pl : Nat) (cs : List Chunk) (h : RunnerOK cs .ok) :
    ∃ items, generateStreamH v .none raw hasCtx pl cs .ok = .ok items
      ∧ generateOnceH v .none raw hasCtx pl cs .ok
          = .ok { lastOr default (msgsOf items) with resp := ((msgsOf items).map (·.resp)).flatten }
      ∧ ((msgsOf items).map (·.resp)).flatten = texts cs
      ∧ errsOf items = [] := by
  obtain ⟨h1, h2⟩ := (handlers_eq_base v .none raw hasCtx pl (fun _ => []) false false cs .ok h).1 rfl (Or.inl rfl)
  obtain ⟨e1, e2, e3⟩ := generate_equiv raw pl cs
  exact ⟨_, h1, by rw [h2]; exact e1, e2, e3⟩

/-- **… (chat without tools), on the tree's handlers.** -/
theorem chat_equiv_H (v : Variant) (parse : Bytes → List Call) (hist : Bool) (cs : List Chunk) (h : RunnerOK cs .ok) :
    ∃ items, chatStreamH v .none parse false hist cs .ok = .ok items
      ∧ chatOnceH v .none parse false hist cs .ok
          = .ok { lastOr default (msgsOf items) with content := ((msgsOf items).map (·.content)).flatten }
      ∧ ((msgsOf items).map (·.content)).flatten = texts cs
      ∧ (∀ m ∈ msgsOf items, m.calls = [])
      ∧ errsOf items = [] := by
  obtain ⟨h1, h2⟩ := (handlers_eq_base v .none false false 0 parse false hist cs .ok h).2 rfl (by simp)
  obtain ⟨e1, e2, e3, e4⟩ := chat_equiv parse cs
  refine ⟨_, h1, ?_, e2, e3, e4⟩
  rw [h2]
  unfold chatOnceV
  rw [e1]
  have hc : (lastOr (default : ChatMsg) (msgsOf (chatStream parse false cs .ok))).calls = [] := by
    rcases lastOr_mem (default : ChatMsg) (msgsOf (chatStream parse false cs .ok)) with hh | hh
    · rw [hh]; rfl
    · exact e3 _ hh
  cases v.toolsIndex
  · rfl
  · simp [hc, setIdx]

/-- **the OpenAI streaming endpoints carry the native content, on the tree's path**: for every variant,
    every protocol-respecting successful run without tools: the concatenated deltas of
    /v1/chat/completions (resp. texts of /v1/completions) are the model output, i.e. the `content` /
    `text` of the NON-streamed OpenAI reply for the same run. -/
theorem openai_stream_once_agree (v : Variant) (usage raw hasCtx hist : Bool) (pl : Nat) (parse : Bytes → List Call)
    (cs : List Chunk) (h : RunnerOK cs .ok) :
    (∃ items o, chatStreamH v .none parse false hist cs .ok = .ok items
        ∧ chatOnceH v .none parse false hist cs .ok = .ok o
        ∧ oaText (oaChatStreamV v.oaErr usage items) = o.content
        ∧ oaCalls (oaChatStreamV v.oaErr usage items) = o.calls
        ∧ oaChatOnce (.ok o) = .chat o.info.named (texts cs) [] (nonEmpty? o.info.reason) (usageOf o.info))
    ∧ (∃ items o, generateStreamH v .none raw hasCtx pl cs .ok = .ok items
        ∧ generateOnceH v .none raw hasCtx pl cs .ok = .ok o
        ∧ oaText (oaCmplStreamV v.oaErr usage items) = o.resp
        ∧ oaCmplOnce (.ok o) = .text (texts cs) (nonEmpty? o.info.reason) (usageOf o.info)) := by
  constructor
  · obtain ⟨items, h1, h2, h3, h4, h5⟩ := chat_equiv_H v parse hist cs h
    have hit : items = (msgsOf items).map Item.msg := by
      have hb := (handlers_eq_base v .none false false 0 parse false hist cs .ok h).2 rfl (by simp)
      rw [hb.1] at h1
      injection h1 with h1
      subst h1
      simp [chatStream, chatChan, endItems, msgsOf_map_msg]
    have hcalls : (lastOr (default : ChatMsg) (msgsOf items)).calls = [] := by
      rcases lastOr_mem (default : ChatMsg) (msgsOf items) with hh | hh
      · rw [hh]; rfl
      · exact h4 _ hh
    refine ⟨items, _, h1, h2, ?_, ?_, ?_⟩
    · rw [hit, (oaStreamV_eq_pinned v.oaErr usage).1, (openai_chat_stream_equiv usage _ false).1, msgsOf_map_msg]
    · rw [hit, (oaStreamV_eq_pinned v.oaErr usage).1, (openai_chat_stream_equiv usage _ false).2.1, msgsOf_map_msg]
      simp only [hcalls]
      apply List.flatten_eq_nil_iff.mpr
      intro l hl
      obtain ⟨m, hm, rfl⟩ := List.mem_map.mp hl
      exact h4 m hm
    · simp [oaChatOnce, hcalls, h3]
  · obtain ⟨items, h1, h2, h3, h4⟩ := generate_equiv_H v raw hasCtx pl cs h
    have hit : items = (msgsOf items).map Item.msg := by
      have hb := (handlers_eq_base v .none raw hasCtx pl parse false hist cs .ok h).1 rfl (Or.inl rfl)
      rw [hb.1] at h1
      injection h1 with h1
      subst h1
      simp [genStream, genChan, endItems, msgsOf_map_msg]
    refine ⟨items, _, h1, h2, ?_, ?_⟩
    · rw [hit, (oaStreamV_eq_pinned v.oaErr usage).2, (openai_cmpl_stream_equiv usage _).1, msgsOf_map_msg]
    · simp [oaCmplOnce, h3]

/-! ### finish_reason: stream vs non-stream on /v1/chat/completions with tools -/

/-- invariant of the streaming tool path: the builder is empty or does not parse -/
theorem chatCallback_final_no_calls (parse : Bytes → List Call) (hp : parse [] = []) (init : List Chunk) (l : Chunk)
    (sb : Bytes) (idx : Nat) (hsb : sb = [] ∨ parse sb = []) (hnd : NoneDone init) (hl : l.done = true) (hlc : l.content = []) :
    ∃ pre m, chatCallback parse true (init ++ [l]) sb idx = pre ++ [m] ∧ m.calls = [] ∧ m.info = chunkInfo l
      ∧ (∀ x ∈ pre, Quiet x.info) := by
  induction init generalizing sb idx with
  | nil =>
    have hps : parse (sb ++ l.content) = [] := by
      rw [hlc, List.append_nil]
      rcases hsb with rfl | h
      · exact hp
      · exact h
    exact ⟨[], { content := if idx == 0 then sb ++ l.content else l.content, calls := [], info := chunkInfo l },
      by simp [chatCallback, hps, hl], rfl, rfl, by simp⟩
  | cons c cs ih =>
    have hd : c.done = false := hnd c (by simp)
    have hnd' : NoneDone cs := fun x hx => hnd x (by simp [hx])
    by_cases h : (parse (sb ++ c.content)).isEmpty = true
    · have h' : parse (sb ++ c.content) = [] := List.isEmpty_iff.mp h
      obtain ⟨pre, m, e1, e2, e3, e4⟩ := ih (sb ++ c.content) idx (Or.inr h') hnd'
      exact ⟨pre, m, by simp [chatCallback, h, hd, e1], e2, e3, e4⟩
    · obtain ⟨pre, m, e1, e2, e3, e4⟩ := ih [] (idx + (parse (sb ++ c.content)).length) (Or.inl rfl) hnd'
      refine ⟨{ content := [], calls := setIdx idx (parse (sb ++ c.content)), info := chunkInfo c } :: pre, m,
        by simp [chatCallback, h, e1], e2, e3, ?_⟩
      intro x hx
      rcases List.mem_cons.mp hx with rfl | hx
      · exact chunkInfo_quiet c hd
      · exact e4 x hx

/-- **finish_reason agrees between the streamed and the non-streamed /v1/chat/completions** (tools in
    the request; the tree: F17a present, F17b repaired): protocol-respecting run, empty final message,
    `parse [] = []`, a `done_reason` that is not the empty string, and the streamed calls equal the
    non-streamed ones (the right-hand side of `tools_equiv_iff`) ⇒ the last delta's `finish_reason` is the
    non-streamed reply's: `tool_calls` if there are calls, the native reason otherwise.
    Without `l.content = []` this is FALSE: `finish_reason_on_done_chunk`. -/
theorem openai_finish_agree (v : Variant) (hv : v.toolsStream = false) (hi : v.toolsIndex = true)
    (parse : Bytes → List Call) (hp : parse [] = []) (usage hist : Bool) (init : List Chunk) (l : Chunk)
    (hnd : NoneDone init) (hl : l.done = true) (hlc : l.content = []) (hr : (reasonStr l.reason).isEmpty = false)
    (hg : (greedyCalls parse (init ++ [l]) []).map eraseIdx = (parse (texts (init ++ [l]))).map eraseIdx) :
    ∃ items o f, chatStreamH v .none parse true hist (init ++ [l]) .ok = .ok items
      ∧ chatOnceH v .none parse true hist (init ++ [l]) .ok = .ok o
      ∧ (oaFinishes (oaChatStreamV v.oaErr usage items)).getLast? = some f
      ∧ oaChatOnce (.ok o) = .chat o.info.named o.content o.calls f (usageOf o.info) := by
  obtain ⟨pre, m, e1, e2, e3, e4⟩ := chatCallback_final_no_calls parse hp init l [] 0 (Or.inl rfl) hnd hl hlc
  have hcalls := chatCallback_calls_exact parse (init ++ [l]) [] 0
  have hagg : aggCalls pre = setIdx 0 (greedyCalls parse (init ++ [l]) []) := by
    rw [← hcalls, e1]; simp [aggCalls, e2]
  have hstream : chatStreamH v .none parse true hist (init ++ [l]) .ok = .ok ((pre ++ [m]).map Item.msg) := by
    simp [chatStreamH, Fault.chatPre, chatItemsH, hv, endItemsV, sawDone_snoc init l hl, e1]
  have hreason : m.info.reason = reasonStr l.reason := by rw [e3]; simp [chunkInfo, hl]
  have hdone : m.info.done = true := by rw [e3]; simp [chunkInfo, hl]
  have hq : ∀ x ∈ pre, Quiet x.info := e4
  refine ⟨_, _, (if (greedyCalls parse (init ++ [l]) []).isEmpty then some (reasonStr l.reason) else some sToolCalls),
    hstream, chatOnceH_ok_snoc v parse true hist init l hl, ?_, ?_⟩
  · rw [(oaStreamV_eq_pinned v.oaErr usage).1, List.map_append, oaChatStream_msgs_append, oaFinishes_append,
      (oaChatStream_quiet usage pre false hq).1]
    simp only [List.map_cons, List.map_nil, oaChatStream, asChat, hdone, ↓reduceIte, List.append_nil, Bool.false_or]
    rw [oaFinishes_append]
    have : oaFinishes ((if usage = true then [OaEv.usage (usageOf m.info)] else []) ++ [OaEv.done]) = [] :=
      oaTail_finishes usage m.info
    rw [this]
    have hr' : reasonStr l.reason ≠ [] := by intro e; simp [e] at hr
    have hae : (aggCalls pre = []) ↔ (greedyCalls parse (init ++ [l]) [] = []) := by
      rw [hagg]; cases greedyCalls parse (init ++ [l]) [] <;> simp [setIdx]
    simp [oaFinishes, OaEv.finish?, hreason, hr', hae]
  · have hne : (parse (texts (init ++ [l]))).isEmpty = (greedyCalls parse (init ++ [l]) []).isEmpty := by
      have := congrArg List.length hg
      simp only [List.length_map] at this
      cases h1 : parse (texts (init ++ [l])) <;> cases h2 : greedyCalls parse (init ++ [l]) [] <;> simp_all
    simp only [Bool.true_and, hi, ↓reduceIte, hne, hreason, hagg]
    cases hgc : (greedyCalls parse (init ++ [l]) []).isEmpty
    · have : (setIdx 0 (parse (texts (init ++ [l])))).isEmpty = false := by rw [setIdx_isEmpty, hne, hgc]
      simp [oaChatOnce, chunkInfo, hl, this, setIdx_isEmpty, hgc, nonEmpty?, sToolCalls, hr]
    · simp [oaChatOnce, chunkInfo, hl, setIdx_isEmpty, hgc, nonEmpty?, hr]

/-- **the gap of `openai_finish_agree`, on record** (model = code: `toChunk` reads `toolCallSent` before
    `writeResponse` updates it): when the call is completed BY the done chunk's own content, the streamed
    /v1/chat/completions ends with `finish_reason: "stop"` while the non-streamed reply says `tool_calls`.
    **Finding F17f** (confirmed on the real router by `TestVerifC17F17f`, no model involved): `llm.LlamaServer` is an
    interface and nothing forbids content on the done chunk (the repo's own handler tests feed exactly such a
    chunk); llama.cpp's runner happens to send an empty final message (and llm/server.go delivers a content+done
    line as two callbacks), so the shipped runner does not trigger it. -/
theorem finish_reason_on_done_chunk :
    let v : Variant := ⟨false, true, true, true⟩
    let l : Chunk := ⟨pieceA, true, 0, 5, 7⟩
    (oaFinishes (oaChatStreamV v.oaErr false ((chatCallback parseF17 true [l] [] 0).map Item.msg))) = [some sStop]
    ∧ (chatOnceH v .none parseF17 true false [l] .ok).toOption.map (fun o => oaChatOnce (.ok o))
        = some (.chat true [] [callA] (some sToolCalls) ⟨5, 7, 12⟩)
    ∧ (oaFinishes (oaChatStreamV v.oaErr false ((chatCallback parseF17 true [nd pieceA, fin] [] 0).map Item.msg)))
        = [none, some sToolCalls] := by
  decide

/-! ### the runner protocol as one named assumption -/

/-- everything `llmServer.Completion` (llm/server.go, NOT among the anchored files, not tied) can do to the
    callback: content chunks, then one done chunk and nil (`fn(c); return nil`), or an error, or — token
    repeat abort with a live context, clean EOF — nil without a done chunk.  The handlers are NOT robust
    outside it (chunks or an error after a done chunk give two terminal items: `runner_protocol_needed`). -/
def CompletionShape (cs : List Chunk) (e : End) : Prop := RunnerOK cs e ∨ (NoneDone cs ∧ e = .ok)

/-- **exactly one final message or one error for everything `Completion` can do**, the tree's variant
    (`incomplete = true`), every fault, generate and chat, streamed — and the non-streamed request fails
    iff the streamed one reports that error. -/
theorem one_final_all (v : Variant) (hv : v.incomplete = true) (f : Fault) (raw hasCtx : Bool) (pl : Nat)
    (parse : Bytes → List Call) (tools hist : Bool) (cs : List Chunk) (e : End) (h : CompletionShape cs e) :
    (match generateStreamH v f raw hasCtx pl cs e with
      | .error _ => True
      | .ok items => OneFinal (fun m : GenMsg => m.info.done) items)
    ∧ (match chatStreamH v f parse tools hist cs e with
      | .error _ => True
      | .ok items => OneFinal (fun m : ChatMsg => m.info.done) items)
    ∧ streamError (generateStreamH v f raw hasCtx pl cs e) = onceError (generateOnceH v f raw hasCtx pl cs e)
    ∧ streamError (chatStreamH v f parse tools hist cs e) = onceError (chatOnceH v f parse tools hist cs e) := by
  rcases h with h | ⟨hnd, rfl⟩
  · exact ⟨one_final_generate_faults v f raw hasCtx pl cs e h, one_final_chat_faults v f parse tools hist cs e h,
      (generate_outcome_equiv v f raw hasCtx pl cs e h).1, chat_outcome_equiv v f parse tools hist cs e h⟩
  · obtain ⟨g1, g2⟩ := one_final_generate_fixedD v hv f raw hasCtx pl cs hnd
    obtain ⟨c1, c2⟩ := one_final_chat_fixedD v hv f parse tools hist cs hnd
    refine ⟨?_, ?_, g2, c2⟩
    · cases hs : generateStreamH v f raw hasCtx pl cs .ok with
      | error m => trivial
      | ok items => rw [hs] at g1; exact g1.1
    · cases hs : chatStreamH v f parse tools hist cs .ok with
      | error m => trivial
      | ok items => rw [hs] at c1; exact c1.1

theorem runnerOK_err_noneDone {cs : List Chunk} {m : Bytes} (h : RunnerOK cs (.err m)) : NoneDone cs := by
  generalize he : End.err m = e at h
  cases h with
  | done init l _ _ => cases he
  | fail cs m' hnd => exact hnd

/-- the protocol is necessary, not decorative: an error after the done chunk, or a second done chunk,
    gives two terminal items on the tree's handlers -/
theorem runner_protocol_needed :
    let v : Variant := ⟨false, true, true, true⟩
    ¬ OneFinal (fun m : GenMsg => m.info.done) (genItemsH v .none false 3 [nd sHi, fin] (.err sBoom))
    ∧ ¬ OneFinal (fun m : GenMsg => m.info.done) (genItemsH v .none false 3 [nd sHi, fin, fin] .ok)
    ∧ ¬ CompletionShape [nd sHi, fin] (.err sBoom) := by
  refine ⟨by decide, by decide, ?_⟩
  rintro (h | ⟨h, _⟩)
  · exact absurd (runnerOK_err_noneDone h fin (by simp)) (by decide)
  · exact absurd (h fin (by simp)) (by decide)

/-- the values of the real `parseToolCalls` on one more accumulated text of the F17 output -/
def parseF17x (s : Bytes) : List Call := if s = pieceB1 ++ pieceB2 then [callB] else parseF17 s

/-- non-vacuity of `tools_equiv_iff` / `openai_finish_agree` with BOTH sides true on a real split: two
    calls over three chunks, cut between the calls -/
example : (greedyCalls parseF17x [nd pieceA, nd (pieceB1 ++ pieceB2), fin] []).map eraseIdx
        = (parseF17x (texts [nd pieceA, nd (pieceB1 ++ pieceB2), fin])).map eraseIdx
    ∧ greedyCalls parseF17x [nd pieceA, nd (pieceB1 ++ pieceB2), fin] [] = [callA, callB]
    ∧ NoneDone [nd pieceA, nd (pieceB1 ++ pieceB2)] ∧ fin.content = [] ∧ parseF17x [] = []
    ∧ (reasonStr fin.reason).isEmpty = false := by decide

/-! ## Round 7: every request — replies written before the runner is started -/

/-- the new layer adds nothing for the requests the earlier theorems are about: a non-empty request,
    tools supported, unclassified scheduler error, no `raw`+`context` — steps 1–6 reduce to
    `Fault.genPre` / `Fault.chatPre` with status 500 -/
theorem genPreH_plain (q : ReqShape) (hq : q.plain) (raw hasCtx : Bool) (hr : (raw && hasCtx) = false) (f : Fault) :
    genPreH q raw hasCtx f = match f.genPre hasCtx with | some m => .fail 500 m | none => .go := by
  obtain ⟨h1, _, h3⟩ := hq
  cases f <;> cases hasCtx <;> simp_all [genPreH, Fault.genPre, schedStatus, schedMsg]

theorem chatPreH_plain (q : ReqShape) (hq : q.plain) (hist : Bool) (f : Fault) :
    chatPreH q hist f = match f.chatPre hist with | some m => .fail 500 m | none => .go := by
  obtain ⟨h1, h2, h3⟩ := hq
  cases f <;> cases hist <;> simp_all [chatPreH, Fault.chatPre, schedStatus, schedMsg]

/-- when steps 1–6 let the request through, the reply is what the handler models of the earlier rounds
    produce (so every theorem about `generateStreamH` / `generateOnceH` applies) -/
theorem generateR_go (v : Variant) (stream : Bool) (q : ReqShape) (f : Fault) (raw hasCtx : Bool) (pl : Nat)
    (cs : List Chunk) (e : End) (h : genPreH q raw hasCtx f = .go) :
    f.genPre hasCtx = none
    ∧ generateR v stream q f raw hasCtx pl cs e
        = if stream then streamReply (generateStreamH v f raw hasCtx pl cs e)
          else onceReply (generateOnceH v f raw hasCtx pl cs e) := by
  refine ⟨?_, by simp [generateR, h]⟩
  unfold genPreH at h
  split at h; · cases h
  split at h; · cases h
  split at h; · cases h
  split at h; · cases h
  split at h
  · cases h
  · assumption

theorem chatR_go (v : Variant) (stream : Bool) (q : ReqShape) (f : Fault) (parse : Bytes → List Call) (tools hist : Bool)
    (cs : List Chunk) (e : End) (h : chatPreH q hist f = .go) :
    f.chatPre hist = none
    ∧ chatR v stream q f parse tools hist cs e
        = if stream then streamReply (chatStreamH v f parse tools hist cs e)
          else onceReply (chatOnceH v f parse tools hist cs e) := by
  refine ⟨?_, by simp [chatR, h]⟩
  unfold chatPreH at h
  split at h; · cases h
  split at h; · cases h
  split at h; · cases h
  split at h; · cases h
  split at h
  · cases h
  · assumption

/-- **a request that never reaches the runner is answered identically with and without `stream`**:
    same status, same single body — for every request shape, every fault, every class of scheduler
    error.  (Steps 1–6 do not look at the stream flag.) -/
theorem prestream_reply_same (v : Variant) (q : ReqShape) (f : Fault) (raw hasCtx : Bool) (pl : Nat)
    (parse : Bytes → List Call) (tools hist : Bool) (cs : List Chunk) (e : End) :
    (genPreH q raw hasCtx f ≠ .go →
      generateR v true q f raw hasCtx pl cs e = generateR v false q f raw hasCtx pl cs e)
    ∧ (chatPreH q hist f ≠ .go →
      chatR v true q f parse tools hist cs e = chatR v false q f parse tools hist cs e) := by
  constructor
  · intro h; unfold generateR; cases hp : genPreH q raw hasCtx f <;> simp_all
  · intro h; unfold chatR; cases hp : chatPreH q hist f <;> simp_all

/-- such a reply is one error body with a 4xx/5xx status or one final (done) message -/
def SingleFinal {α : Type} (done : α → Bool) : Reply α → Prop
  | .fail s _ => 400 ≤ s
  | .body m => done m = true
  | .stream _ => False

theorem schedStatus_ge (k : SchedErr) : 400 ≤ schedStatus k := by cases k <;> decide

theorem prestream_reply_single (v : Variant) (stream : Bool) (q : ReqShape) (f : Fault) (raw hasCtx : Bool) (pl : Nat)
    (parse : Bytes → List Call) (tools hist : Bool) (cs : List Chunk) (e : End) :
    (genPreH q raw hasCtx f ≠ .go →
      SingleFinal (fun m : GenMsg => m.info.done) (generateR v stream q f raw hasCtx pl cs e))
    ∧ (chatPreH q hist f ≠ .go →
      SingleFinal (fun m : ChatMsg => m.info.done) (chatR v stream q f parse tools hist cs e)) := by
  constructor
  · intro h
    unfold generateR
    cases hp : genPreH q raw hasCtx f with
    | go => exact absurd hp h
    | early r => rfl
    | fail s m =>
      simp only [SingleFinal]
      unfold genPreH at hp
      split at hp; · cases hp
      split at hp; · cases hp; decide
      split at hp; · cases hp; exact schedStatus_ge _
      split at hp; · cases hp
      split at hp
      · cases hp; decide
      · cases hp
  · intro h
    unfold chatR
    cases hp : chatPreH q hist f with
    | go => exact absurd hp h
    | early r => rfl
    | fail s m =>
      simp only [SingleFinal]
      unfold chatPreH at hp
      split at hp; · cases hp
      split at hp; · cases hp; decide
      split at hp; · cases hp; exact schedStatus_ge _
      split at hp; · cases hp
      split at hp
      · cases hp; decide
      · cases hp

/-- **exactly one final message or one error, for EVERY request** (streamed /api/generate and
    /api/chat): whatever the request shape, the class of scheduler error, the fault and the variant, a
    protocol-respecting runner yields one error body, one final body, or an NDJSON stream with exactly
    one terminal item, which is last. -/
theorem one_final_every_request (v : Variant) (q : ReqShape) (f : Fault) (raw hasCtx : Bool) (pl : Nat)
    (parse : Bytes → List Call) (tools hist : Bool) (cs : List Chunk) (e : End) (h : RunnerOK cs e) :
    (match generateR v true q f raw hasCtx pl cs e with
      | .fail s _ => 400 ≤ s
      | .body m => m.info.done = true
      | .stream items => OneFinal (fun m : GenMsg => m.info.done) items)
    ∧ (match chatR v true q f parse tools hist cs e with
      | .fail s _ => 400 ≤ s
      | .body m => m.info.done = true
      | .stream items => OneFinal (fun m : ChatMsg => m.info.done) items) := by
  constructor
  · by_cases hp : genPreH q raw hasCtx f = .go
    · obtain ⟨h1, h2⟩ := generateR_go v true q f raw hasCtx pl cs e hp
      rw [h2]
      have := one_final_generate_faults v f raw hasCtx pl cs e h
      simp only [↓reduceIte]
      cases hs : generateStreamH v f raw hasCtx pl cs e with
      | error m => simp [generateStreamH, h1] at hs
      | ok items => rw [hs] at this; exact this
    · have := (prestream_reply_single v true q f raw hasCtx pl parse tools hist cs e).1 hp
      cases hr : generateR v true q f raw hasCtx pl cs e <;> rw [hr] at this <;> first | exact this | exact this.elim
  · by_cases hp : chatPreH q hist f = .go
    · obtain ⟨h1, h2⟩ := chatR_go v true q f parse tools hist cs e hp
      rw [h2]
      have := one_final_chat_faults v f parse tools hist cs e h
      simp only [↓reduceIte]
      cases hs : chatStreamH v f parse tools hist cs e with
      | error m => simp [chatStreamH, h1] at hs
      | ok items => rw [hs] at this; exact this
    · have := (prestream_reply_single v true q f raw hasCtx pl parse tools hist cs e).2 hp
      cases hr : chatR v true q f parse tools hist cs e <;> rw [hr] at this <;> first | exact this | exact this.elim

/-- **`keep_alive: 0` with nothing to generate never asks for a runner**: the reply is the `unload`
    message whatever the scheduler would have answered, streamed or not, on both endpoints. -/
theorem unload_before_scheduling (v : Variant) (stream : Bool) (q : ReqShape) (he : q.empty = true) (hk : q.keepAlive0 = true)
    (f : Fault) (raw hasCtx : Bool) (pl : Nat) (parse : Bytes → List Call) (tools hist : Bool) (cs : List Chunk) (e : End) :
    generateR v stream q f raw hasCtx pl cs e = .body (earlyGen sUnload)
    ∧ chatR v stream q f parse tools hist cs e = .body (earlyChat sUnload) := by
  simp [generateR, chatR, genPreH, chatPreH, he, hk]

/-- **the OpenAI endpoints on a request that never reaches the runner**: an error body keeps its
    status and text; a `load` reply in stream mode is one chunk with `finish_reason: "load"`, the usage
    chunk if asked for, and `[DONE]` last — exactly one `[DONE]`, no error. -/
theorem openai_prestream (v : Variant) (stream usage : Bool) (s : Nat) (m r : Bytes) (hr : r.isEmpty = false) :
    oaChatR v stream usage (.fail s m) = (s, [.error m])
    ∧ oaCmplR v stream usage (.fail s m) = (s, [.error m])
    ∧ oaChatR v true usage (.body (earlyChat r))
        = (200, [.chunk [] [] (some r)] ++ (if usage then [.usage ⟨0, 0, 0⟩] else []) ++ [.done])
    ∧ oaCmplR v true usage (.body (earlyGen r))
        = (200, [.tchunk [] (some r) (if usage then some ⟨0, 0, 0⟩ else none)] ++ (if usage then [.usage ⟨0, 0, 0⟩] else []) ++ [.done])
    ∧ oaChatR v false usage (.body (earlyChat r)) = (200, [.chat true [] [] (some r) ⟨0, 0, 0⟩])
    ∧ oaCmplR v false usage (.body (earlyGen r)) = (200, [.text [] (some r) ⟨0, 0, 0⟩]) := by
  refine ⟨rfl, rfl, ?_, ?_, ?_, ?_⟩
  · cases h : v.oaErr <;> cases usage <;>
      simp [oaChatR, oaChatStreamV, oaChatStreamFixed, oaChatStream, asChat, earlyChat, earlyInfo, h, hr, usageOf]
  · cases h : v.oaErr <;> cases usage <;>
      simp [oaCmplR, oaCmplStreamV, oaCmplStreamFixed, oaCmplStream, asGen, earlyGen, earlyInfo, h, hr, usageOf, nonEmpty?]
  · simp [oaChatR, oaChatOnce, earlyChat, earlyInfo, hr, usageOf, nonEmpty?]
  · simp [oaCmplR, oaCmplOnce, earlyGen, earlyInfo, hr, usageOf, nonEmpty?]


/-- **through `api.Client`, EVERY request ends with exactly one final message or one error**: whatever
    the handler wrote (an error body with any status, a single final body, a stream with one terminal
    item), a caller of `Generate`/`Chat` observes exactly one terminal event — provided error texts are
    not the empty string and the lines fit the scanner (`client_view_fits`). -/
theorem client_every_reply {α : Type} [Inhabited α] (done : α → Bool) (r : Reply α)
    (h : match r with
         | .fail _ _ => True
         | .body m => done m = true
         | .stream items => OneFinal done items)
    (hne : ∀ e ∈ errsOf r.lines, e.isEmpty = false) :
    clientTerminals done (clientView r.lines) = 1 := by
  have hof : OneFinal done r.lines := by
    cases r with
    | fail s m => exact ⟨rfl, rfl⟩
    | body m => exact ⟨by simp [Reply.lines, terminal, h], by simp [Reply.lines, terminal, h]⟩
    | stream items => exact h
  exact (client_one_final done r.lines hof hne).1

/-- non-vacuity: every outcome of steps 1–6 occurs, in the order of the code (kernel-evaluated) -/
example :
    let q : ReqShape := ⟨false, false, false, sA, sB, .maxQueue⟩
    genPreH { q with empty := true, keepAlive0 := true } true true (.load sBoom) = .early sUnload
    ∧ genPreH { q with empty := true } true true (.load sBoom) = .fail 400 sRawCtx
    ∧ genPreH { q with empty := true } false true (.load sBoom) = .fail 503 sBoom
    ∧ genPreH { q with empty := true, cls := .notExist } false true (.load sBoom) = .fail 404 (sNotFound1 ++ sA ++ sNotFound2)
    ∧ genPreH { q with empty := true } false true (.detok sBoom) = .early sLoad
    ∧ genPreH q false true (.detok sBoom) = .fail 500 sBoom
    ∧ genPreH q false false (.detok sBoom) = .go
    ∧ chatPreH { q with noToolSupport := true } true (.load sBoom) = .fail 400 (sB ++ sNoTools)
    ∧ chatPreH { q with cls := .canceled } true (.load sBoom) = .fail 499 sCanceled
    ∧ chatPreH { q with empty := true } true (.tok sBoom) = .early sLoad
    ∧ chatPreH q true (.tok sBoom) = .fail 500 sBoom
    ∧ chatPreH q false (.tok sBoom) = .go := by decide


/-- **F17f** (genuine, in /repo; model = code): `finish_reason_on_done_chunk` above.  With
    proposed_fixes/C17-F17f.patch (`oaChatStreamFF`) the same run ends with `tool_calls` on the stream as
    in the non-streamed reply, and runs whose calls arrive earlier are unchanged. -/
theorem F17f_repaired_finish_reason :
    let l : Chunk := ⟨pieceA, true, 0, 5, 7⟩
    oaFinishes (oaChatStreamFF false ((chatCallback parseF17 true [l] [] 0).map Item.msg) false) = [some sToolCalls]
    ∧ oaChatStreamFF true ((chatCallback parseF17 true [nd pieceA, fin] [] 0).map Item.msg) false
        = oaChatStreamFixed true ((chatCallback parseF17 true [nd pieceA, fin] [] 0).map Item.msg) false
    ∧ oaChatStreamFF true ((chatCallback parseF17 false [nd sHi, fin] [] 0).map Item.msg ++ [Item.err sBoom]) false
        = oaChatStreamFixed true ((chatCallback parseF17 false [nd sHi, fin] [] 0).map Item.msg ++ [Item.err sBoom]) false := by
  decide

/-! ## Round 7: the runner protocol is what `llmServer.Completion` does (hypothesis discharged on its model) -/

theorem shape_prepend (pre cs : List Chunk) (e : End) (hpre : NoneDone pre) (h : CompletionShape cs e) :
    CompletionShape (pre ++ cs) e := by
  have happ : ∀ xs, NoneDone xs → NoneDone (pre ++ xs) := by
    intro xs hx c hc
    rcases List.mem_append.mp hc with h1 | h1
    · exact hpre c h1
    · exact hx c h1
  rcases h with h | ⟨h, rfl⟩
  · cases h with
    | done init l hnd hl =>
      rw [← List.append_assoc]
      exact Or.inl (RunnerOK.done (pre ++ init) l (happ init hnd) hl)
    | fail cs m hnd => exact Or.inl (RunnerOK.fail _ m (happ cs hnd))
  · exact Or.inr ⟨happ cs h, rfl⟩

/-- **`CompletionShape` holds of everything the modelled `Completion` hands to the callback**, for every
    runner body: lines in any order and number, blank and undecodable lines, content on the done line,
    lines after the done line, token repeats, clean and broken ends, an HTTP failure. -/
theorem completion_shape (em : Bytes) (httpFail : Bool) (ls : List RLine) (be : BodyEnd) :
    CompletionShape (completionCall em httpFail ls be).1 (completionCall em httpFail ls be).2 := by
  have hloop : ∀ (ls : List RLine) (lt : Bytes) (n : Nat),
      CompletionShape (completionLoop em ls be lt n).1 (completionLoop em ls be lt n).2 := by
    intro ls
    induction ls with
    | nil =>
      intro lt n
      cases be
      · exact Or.inr ⟨(by intro c hc; cases hc), rfl⟩
      · exact Or.inl (RunnerOK.fail [] em (by intro c hc; cases hc))
    | cons l rest ih =>
      intro lt n
      cases l with
      | blank => exact ih lt n
      | bad => exact Or.inl (RunnerOK.fail [] em (by intro c hc; cases hc))
      | resp c =>
        have hpre : NoneDone (if c.content.isEmpty then [] else [(⟨c.content, false, 0, 0, 0⟩ : Chunk)]) := by
          intro x hx
          split at hx
          · cases hx
          · simp at hx; subst hx; rfl
        simp only [completionLoop]
        by_cases hrep : (if (trimAscii c.content == lt) = true then n + 1 else 0) > 30
        · rw [if_pos hrep]; exact Or.inr ⟨(by intro c hc; cases hc), rfl⟩
        · rw [if_neg hrep]
          by_cases hd : c.done = true
          · rw [if_pos hd]; exact Or.inl (RunnerOK.done _ c hpre hd)
          · rw [if_neg hd]; exact shape_prepend _ _ _ hpre (ih _ _)
  unfold completionCall
  split
  · exact Or.inl (RunnerOK.fail [] em (by intro c hc; cases hc))
  · exact hloop ls [] 0

/-- **exactly one final message or one error, end to end from the runner's body**: whatever the runner
    writes, the tree's handlers (every fault, generate and chat, tools or not) stream exactly one
    terminal item, last, or answer one 500 — `one_final_all` with its hypothesis discharged. -/
theorem one_final_from_runner_body (v : Variant) (hv : v.incomplete = true) (f : Fault) (raw hasCtx : Bool) (pl : Nat)
    (parse : Bytes → List Call) (tools hist : Bool) (em : Bytes) (httpFail : Bool) (ls : List RLine) (be : BodyEnd) :
    let r := completionCall em httpFail ls be
    (match generateStreamH v f raw hasCtx pl r.1 r.2 with
      | .error _ => True
      | .ok items => OneFinal (fun m : GenMsg => m.info.done) items)
    ∧ (match chatStreamH v f parse tools hist r.1 r.2 with
      | .error _ => True
      | .ok items => OneFinal (fun m : ChatMsg => m.info.done) items) := by
  intro r
  have h := one_final_all v hv f raw hasCtx pl parse tools hist r.1 r.2 (completion_shape em httpFail ls be)
  exact ⟨h.1, h.2.1⟩

/-- non-vacuity and the recorded quirk: a `content`+`done` runner line reaches the callback twice (so the
    text is duplicated downstream); lines after the done line never do; 31 equal tokens end the call
    with nil and no done chunk -/
example :
    completionCall sBoom false [.resp (nd sHi), .blank, .resp ⟨sA, true, 1, 3, 4⟩, .resp (nd sB)] .clean
      = ([nd sHi, nd sA, ⟨sA, true, 1, 3, 4⟩], .ok)
    ∧ completionCall sBoom false [.resp (nd sHi), .bad, .resp fin] .clean = ([nd sHi], .err sBoom)
    ∧ completionCall sBoom false [.resp (nd sHi)] .broken = ([nd sHi], .err sBoom)
    ∧ (completionCall sBoom false (List.replicate 40 (.resp (nd sA))) .clean).2 = .ok
    ∧ (completionCall sBoom false (List.replicate 40 (.resp (nd sA))) .clean).1.length = 31
    ∧ completionCall sBoom true [.resp fin] .clean = ([], .err sBoom) := by decide

/-! ## Round 7: the OpenAI chat stream writer /repo runs since 9e8f7fa39 (`oaChatStreamFF`) -/

/-- forget the `finish_reason` of a delta -/
def eraseFinish : OaEv → OaEv
  | .chunk c cs _ => .chunk c cs none
  | e => e

/-- **the F17f repair changes `finish_reason` fields only**: event for event the repaired writer equals the
    previous one (`oaChatStreamFixed`) up to the `finish_reason` of the deltas — so text, tool calls, usage
    chunks, `[DONE]` and error events (`openai_chat_stream_equiv`, `openai_stream_one_done`,
    `openai_chat_stream_finish_usage`'s usage half, `openai_stream_failure_reported_fixed`) carry over. -/
theorem oaChatStreamFF_erase (usage : Bool) (items : List (Item ChatMsg)) (sent : Bool) :
    (oaChatStreamFF usage items sent).map eraseFinish = (oaChatStreamFixed usage items sent).map eraseFinish := by
  induction items generalizing sent with
  | nil => rfl
  | cons it rest ih =>
    cases it with
    | err e =>
      by_cases he : e.isEmpty = true
      · simp [oaChatStreamFF, oaChatStreamFixed, he, ih]
      · simp [oaChatStreamFF, oaChatStreamFixed, he, ih, eraseFinish]
    | msg m =>
      simp only [oaChatStreamFF, oaChatStreamFixed, oaChatStream, asChat, List.append_nil, List.map_append, ih]
      simp [eraseFinish] <;> rfl

theorem oaText_erase (evs : List OaEv) : oaText (evs.map eraseFinish) = oaText evs := by
  induction evs with
  | nil => rfl
  | cons e es ih => cases e <;> simp_all [oaText, eraseFinish, OaEv.text?]

theorem oaCalls_erase (evs : List OaEv) : oaCalls (evs.map eraseFinish) = oaCalls evs := by
  induction evs with
  | nil => rfl
  | cons e es ih => cases e <;> simp_all [oaCalls, eraseFinish, OaEv.calls?]

theorem oaDones_erase (evs : List OaEv) : oaDones (evs.map eraseFinish) = oaDones evs := by
  induction evs with
  | nil => rfl
  | cons e es ih => cases e <;> simp_all [oaDones, eraseFinish, OaEv.isDone, List.filter_cons]

theorem oaUsages_erase (evs : List OaEv) : oaUsages (evs.map eraseFinish) = oaUsages evs := by
  induction evs with
  | nil => rfl
  | cons e es ih => cases e <;> simp_all [oaUsages, eraseFinish, OaEv.usage?, List.filterMap_cons]

/-- **streaming /v1/chat/completions carries the native stream, the writer of the tree**: for every item
    list — concatenated deltas = concatenated native contents, same calls, one `[DONE]` per native done
    message, same usage chunks as the previous writer. -/
theorem openai_chat_stream_equiv_FF (usage : Bool) (ms : List ChatMsg) :
    oaText (oaChatStreamFF usage (ms.map Item.msg) false) = (ms.map (·.content)).flatten
    ∧ oaCalls (oaChatStreamFF usage (ms.map Item.msg) false) = (ms.map (·.calls)).flatten
    ∧ oaDones (oaChatStreamFF usage (ms.map Item.msg) false) = (ms.filter (·.info.done)).length
    ∧ oaUsages (oaChatStreamFF usage (ms.map Item.msg) false) = oaUsages (oaChatStream usage (ms.map Item.msg) false) := by
  have h := oaChatStreamFF_erase usage (ms.map Item.msg) false
  have hp := (oaStreamFixed_eq_pinned usage).1 ms false
  obtain ⟨e1, e2, e3⟩ := openai_chat_stream_equiv usage (ms.map Item.msg) false
  rw [msgsOf_map_msg] at e1 e2 e3
  refine ⟨?_, ?_, ?_, ?_⟩
  · rw [← oaText_erase, h, oaText_erase, hp, e1]
  · rw [← oaCalls_erase, h, oaCalls_erase, hp, e2]
  · rw [← oaDones_erase, h, oaDones_erase, hp, e3]
  · rw [← oaUsages_erase, h, oaUsages_erase, hp]

/-- the repaired writer over messages: `finish_reason` of the deltas -/
theorem oaChatStreamFF_finishes (usage : Bool) (pre : List ChatMsg) (m : ChatMsg) (sent : Bool)
    (hq : ∀ x ∈ pre, Quiet x.info) (hd : m.info.done = true) :
    oaFinishes (oaChatStreamFF usage ((pre ++ [m]).map Item.msg) sent)
      = List.replicate pre.length none
        ++ [if m.info.reason.isEmpty then none
            else if sent || !(aggCalls (pre ++ [m])).isEmpty then some sToolCalls else some m.info.reason] := by
  induction pre generalizing sent with
  | nil =>
    simp only [List.nil_append, List.map_cons, List.map_nil, oaChatStreamFF, hd, ↓reduceIte, List.append_nil,
      List.length_nil, List.replicate_zero, aggCalls_cons]
    rw [oaFinishes_append]
    have : oaFinishes ((if usage = true then [OaEv.usage (usageOf m.info)] else []) ++ [OaEv.done]) = [] :=
      oaTail_finishes usage m.info
    rw [this]
    simp [oaFinishes, OaEv.finish?, aggCalls]
  | cons x xs ih =>
    obtain ⟨hxd, hxr⟩ := hq x (by simp)
    have ih' := ih (sent || !x.calls.isEmpty) (fun y hy => hq y (by simp [hy]))
    simp only [List.cons_append, List.map_cons, oaChatStreamFF, hxd, hxr, List.isEmpty_nil, ↓reduceIte,
      Bool.false_eq_true, List.append_nil, List.singleton_append, List.length_cons, List.replicate_succ]
    simp only [oaFinishes, List.filterMap_cons, OaEv.finish?, List.nil_append] at ih' ⊢
    rw [ih']
    have hb : ((sent || !x.calls.isEmpty) || !(aggCalls (xs ++ [m])).isEmpty) = (sent || !(aggCalls (x :: (xs ++ [m]))).isEmpty) := by
      rw [aggCalls_cons]
      cases sent <;> cases hx : x.calls <;> cases ha : aggCalls (xs ++ [m]) <;> simp
    simp [hb]

theorem chatCallback_done_chunk_info (parse : Bytes → List Call) (b : Bool) (l : Chunk) (sb : Bytes) (idx : Nat)
    (hl : l.done = true) : ∃ m, chatCallback parse b [l] sb idx = [m] ∧ m.info = chunkInfo l := by
  simp only [chatCallback]
  split
  · exact ⟨_, rfl, rfl⟩
  · split
    all_goals first | exact ⟨_, rfl, rfl⟩ | (exfalso; simp_all)

/-- **finish_reason agrees between the streamed and the non-streamed /v1/chat/completions on the tree**
    (writer since 9e8f7fa39; F17a present, F17b repaired), tools in the request: for a
    protocol-respecting run — the final message may carry content — with a non-empty `done_reason`, whenever
    the streamed calls are the non-streamed ones (right-hand side of `tools_equiv_iff`), the last delta's
    `finish_reason` is the non-streamed reply's.  No `l.content = []`, no `parse [] = []`: F17f is gone. -/
theorem openai_finish_agree_FF (v : Variant) (hv : v.toolsStream = false) (hi : v.toolsIndex = true)
    (parse : Bytes → List Call) (usage hist : Bool) (init : List Chunk) (l : Chunk)
    (hnd : NoneDone init) (hl : l.done = true) (hr : (reasonStr l.reason).isEmpty = false)
    (hg : (greedyCalls parse (init ++ [l]) []).map eraseIdx = (parse (texts (init ++ [l]))).map eraseIdx) :
    ∃ (ms : List ChatMsg) (o : ChatMsg) (f : Option Bytes), chatStreamH v .none parse true hist (init ++ [l]) .ok = .ok (ms.map Item.msg)
      ∧ chatOnceH v .none parse true hist (init ++ [l]) .ok = .ok o
      ∧ (oaFinishes (oaChatStreamFF usage (ms.map Item.msg) false)).getLast? = some f
      ∧ oaChatOnce (.ok o) = .chat o.info.named o.content o.calls f (usageOf o.info) := by
  obtain ⟨sb', idx', happ⟩ := chatCallback_append parse true init [l] [] 0
  obtain ⟨m, hm, hinfo⟩ := chatCallback_done_chunk_info parse true l sb' idx' hl
  have hdone : m.info.done = true := by rw [hinfo]; simp [chunkInfo, hl]
  have hms : chatCallback parse true (init ++ [l]) [] 0 = chatCallback parse true init [] 0 ++ [m] := by rw [happ, hm]
  have hq := chatCallback_quiet parse true init [] 0 hnd
  have hcalls := chatCallback_calls_exact parse (init ++ [l]) [] 0
  have hreason : m.info.reason = reasonStr l.reason := by rw [hinfo]; simp [chunkInfo, hl]
  have hstream : chatStreamH v .none parse true hist (init ++ [l]) .ok
      = .ok ((chatCallback parse true init [] 0 ++ [m]).map Item.msg) := by
    simp [chatStreamH, Fault.chatPre, chatItemsH, hv, endItemsV, sawDone_snoc init l hl, hms]
  refine ⟨_, _, (if (greedyCalls parse (init ++ [l]) []).isEmpty then some (reasonStr l.reason) else some sToolCalls),
    hstream, chatOnceH_ok_snoc v parse true hist init l hl, ?_, ?_⟩
  · rw [oaChatStreamFF_finishes usage _ m false hq hdone]
    have hr' : reasonStr l.reason ≠ [] := by intro e; simp [e] at hr
    have hae : (aggCalls (chatCallback parse true init [] 0 ++ [m]) = []) ↔ (greedyCalls parse (init ++ [l]) [] = []) := by
      rw [← hms, hcalls]; cases greedyCalls parse (init ++ [l]) [] <;> simp [setIdx]
    simp only [List.getLast?_append, List.getLast?_singleton, Option.some_or, hreason, Bool.false_or]
    by_cases hgc : greedyCalls parse (init ++ [l]) [] = []
    · simp [hr', hae.mpr hgc, hgc]
    · have : aggCalls (chatCallback parse true init [] 0 ++ [m]) ≠ [] := fun h => hgc (hae.mp h)
      simp [hr', this, hgc]
  · have hne : (parse (texts (init ++ [l]))).isEmpty = (greedyCalls parse (init ++ [l]) []).isEmpty := by
      have := congrArg List.length hg
      simp only [List.length_map] at this
      cases h1 : parse (texts (init ++ [l])) <;> cases h2 : greedyCalls parse (init ++ [l]) [] <;> simp_all
    simp only [Bool.true_and, hi, ↓reduceIte, hne]
    cases hgc : (greedyCalls parse (init ++ [l]) []).isEmpty
    · have : (setIdx 0 (parse (texts (init ++ [l])))).isEmpty = false := by rw [setIdx_isEmpty, hne, hgc]
      simp [oaChatOnce, chunkInfo, hl, this, nonEmpty?, sToolCalls, hr]
    · simp [oaChatOnce, chunkInfo, hl, nonEmpty?, hr]

/-! ## Round 7: progress replies (pull / push / create): non-streamed = the first terminal item of the stream -/

/-- **`stream:false` on a progress endpoint answers with the first terminal item of what `stream:true`
    would have written** (the `success` message, or the first error), and with a 500 when there is none —
    for every item list. -/
theorem progress_once_is_first_terminal (items : List PItem) :
    waitForStreamM items = match items.find? PItem.terminal with
      | some t => t.reply
      | none => .error 500 sUnexpectedEnd := by
  induction items with
  | nil => rfl
  | cons it rest ih =>
    by_cases h : it.terminal = true
    · simp [waitForStreamM, List.find?_cons, h]
    · simp only [Bool.not_eq_true] at h
      simp [waitForStreamM, List.find?_cons, h, ih]

/-- a progress stream that ends with exactly one terminal item (what the producers do: they return after
    `success` or after sending an error): the non-streamed request succeeds iff that item is `success`, and
    fails with that item's status and text otherwise -/
theorem progress_equiv (pre : List Bytes) (t : PItem) (hpre : ∀ s ∈ pre, s ≠ sSuccess) (ht : t.terminal = true) :
    waitForStreamM (pre.map PItem.progress ++ [t]) = t.reply := by
  induction pre with
  | nil => simp [waitForStreamM, ht]
  | cons s ss ih =>
    have hs : (PItem.progress s).terminal = false := by
      simp [PItem.terminal, hpre s (by simp)]
    simp only [List.map_cons, List.cons_append, waitForStreamM, hs, Bool.false_eq_true, ↓reduceIte]
    exact ih (fun x hx => hpre x (by simp [hx]))

example : waitForStreamM [.progress sHi, .progress sSuccess, .err (some sBoom) none] = .success
    ∧ waitForStreamM [.progress sHi, .err (some sBoom) (some 400), .progress sSuccess] = .error 400 sBoom
    ∧ waitForStreamM [.err none none] = .error 500 sBadErrFormat
    ∧ waitForStreamM [.progress sHi] = .error 500 sUnexpectedEnd
    ∧ waitForStreamM [.other] = .error 500 sBadProgress := by decide

end OllamaVerif.C17
