/-
  C16 — the memory estimate never plans more on a GPU than it has free.

  Property theorems about the executable model `Memory.estimate` / `Memory.predictFit`
  (llm/memory.go EstimateGPULayers / PredictServerFit), for every input: any number of blocks,
  any layer-size profile, any GPU list, any num_gpu, any overhead.

  * `layers_le`, `split_sum`, `counts_sum`, `cpu_zero`, `fit_only_if_placed` hold without any
    side condition (also when the uint64 sums wrap around).
  * `alloc_le_free_partial`, `total_ge_vram_partial` hold under the explicit decidable guard
    `NoWrap` (no sum the estimator forms reaches 2^64).  Without the guard they are false of the
    model *and of the code* — witness `W1_overhead_wraps` (finding W1).
-/
import OllamaVerif.Proofs.Memory

namespace OllamaVerif.C16
open OllamaVerif.Memory

/-- per-GPU layer counts of the plan (what `TensorSplit` prints when there are ≥ 2 GPUs) -/
def planCounts (inp : Inp) : List Nat := (plan (mkCore inp) inp.gpus).gs.map (·.count)

/-- **The no-wrap guard** (both code variants; in the fixed variant `ovSafe = true` the overhead
    term is absent, see `Room`), a decidable predicate on the estimator's inputs (through the
    constants `mkCore` derives from them, each already a uint64):
    * for every GPU `g` and every layer size `L` the estimator may try on it (each block's
      `layerSize`, and the output layer):
      `overhead + gzo + max(gP,gF) + g.minimum + 2*layer0 + g.free + L < 2^64`;
    * `Σ free + blocks * lastLayerSize + memoryLayerOutput < 2^64` (the summaries). -/
def NoWrap (inp : Inp) : Prop :=
  RoomAll (mkCore inp) inp.gpus ∧
  (inp.gpus.map (·.free)).sum + (mkCore inp).layerSizes.length * lastLayer (mkCore inp)
    + (mkCore inp).memOut < W

instance (c : Core) (f m L : Nat) : Decidable (Room c f m L) := by unfold Room; infer_instance
instance (c : Core) (gpus : List Gpu) : Decidable (RoomAll c gpus) := by unfold RoomAll; infer_instance
instance (inp : Inp) : Decidable (NoWrap inp) := by unfold NoWrap; infer_instance

/-- a simple sufficient condition for the guard: everything the estimator adds up is small
    (the realistic envelope: 2^40 B = 1 TiB per quantity, < 2^16 blocks, ≤ 2^8 GPUs) -/
theorem noWrap_of_small (inp : Inp)
    (hov : inp.overhead < 2 ^ 40)
    (hcore : (mkCore inp).gzo < 2 ^ 40 ∧ (mkCore inp).gP < 2 ^ 40 ∧ (mkCore inp).gF < 2 ^ 40 ∧
      (mkCore inp).layer0 < 2 ^ 40 ∧ (mkCore inp).memOut < 2 ^ 40 ∧ lastLayer (mkCore inp) < 2 ^ 40 ∧
      ∀ L ∈ (mkCore inp).layerSizes, L < 2 ^ 40)
    (hblocks : inp.blocks.length < 2 ^ 16)
    (hgpus : ∀ g ∈ inp.gpus, g.free < 2 ^ 40 ∧ g.minimum < 2 ^ 40)
    (hn : inp.gpus.length ≤ 2 ^ 8) : NoWrap inp := by
  obtain ⟨h1, h2, h3, h4, h5, h6, h7⟩ := hcore
  have hmax : (mkCore inp).maxg < 2 ^ 40 := by unfold Core.maxg; omega
  constructor
  · intro g hg L hL
    obtain ⟨hf, hm⟩ := hgpus g hg
    have hL' : L < 2 ^ 40 := by
      simp only [List.mem_cons] at hL
      rcases hL with rfl | hL
      · exact h5
      · exact h7 L hL
    unfold Room W
    rw [mkCore_overhead]
    split <;> omega
  · have hsum : ∀ (l : List Gpu), (∀ g ∈ l, g.free < 2 ^ 40) →
        (l.map (·.free)).sum ≤ l.length * 2 ^ 40 := by
      intro l
      induction l with
      | nil => intro _; simp
      | cons a rest ih =>
        intro h
        have := h a (by simp)
        have := ih (fun g hg => h g (by simp [hg]))
        simp only [List.map_cons, List.sum_cons, List.length_cons]
        omega
    have hs := hsum inp.gpus (fun g hg => (hgpus g hg).1)
    have hb : (mkCore inp).layerSizes.length * lastLayer (mkCore inp) ≤ 2 ^ 16 * 2 ^ 40 := by
      rw [mkCore_blocks]
      exact Nat.mul_le_mul (by omega) (by omega)
    have hs' : inp.gpus.length * 2 ^ 40 ≤ 2 ^ 8 * 2 ^ 40 := Nat.mul_le_mul_right _ hn
    unfold W
    omega

/-! ### shape of the estimate -/

def partialReq (inp : Inp) : Nat := accW 0 ((plan (mkCore inp) inp.gpus).gs.map (·.alloc))

/-- the two shapes `EstimateGPULayers` returns: the early returns (cpu library, or no layer
    placed) and the full summary -/
theorem estimate_cases (inp : Inp) :
    let p := plan (mkCore inp) inp.gpus
    let e := estimate inp
    e.total = wr (partialReq inp + p.overflow) ∧
    (((inp.lib = Lib.cpu ∨ p.lc = 0) ∧ e.layers = 0 ∧ e.vram = 0 ∧ e.graph = 0 ∧ e.sizes = [] ∧
        e.split = none) ∨
     (inp.lib ≠ Lib.cpu ∧ p.lc ≠ 0 ∧ e.layers = p.lc ∧ e.vram = partialReq inp ∧
        e.sizes = p.gs.map (·.alloc) ∧
        e.split = if inp.gpus.length > 1 then some (p.gs.map (·.count)) else none)) := by
  by_cases h1 : inp.lib = Lib.cpu
  · simp [estimate, partialReq, h1]
  · by_cases h2 : (plan (mkCore inp) inp.gpus).lc = 0
    · simp [estimate, partialReq, h1, h2]
    · simp [estimate, partialReq, h1, h2]

/-! ### unconditional clauses -/

/-- **Layer count bounds.**  Never more layers than the model has (blocks + output), and never
    more than a non-negative `num_gpu`. -/
theorem layers_le (inp : Inp) :
    (estimate inp).layers ≤ inp.blocks.length + 1 ∧
    (0 ≤ inp.numGPU → ((estimate inp).layers : Int) ≤ inp.numGPU) := by
  have hp := plan_count (mkCore inp) inp.gpus
  simp only [mkCore_blocks, mkCore_numGPU] at hp
  obtain ⟨_, h1, h2⟩ := hp
  obtain ⟨_, hc | hc⟩ := estimate_cases inp
  · rw [hc.2.1]; exact ⟨by omega, fun h => by simpa using h⟩
  · rw [hc.2.2.1]; exact ⟨h1, h2⟩

/-- **Per-GPU counts.**  Whenever layers are reported, the plan has one count per GPU and the
    counts sum to the reported layer count; with ≥ 2 GPUs these counts are the tensor split. -/
theorem counts_sum (inp : Inp) (h : 0 < (estimate inp).layers) :
    (planCounts inp).sum = (estimate inp).layers ∧
    (planCounts inp).length = inp.gpus.length ∧
    (estimate inp).sizes.length = inp.gpus.length ∧
    (1 < inp.gpus.length → (estimate inp).split = some (planCounts inp)) := by
  have hp := (plan_count (mkCore inp) inp.gpus).1
  have hlen := plan_length (mkCore inp) inp.gpus
  obtain ⟨_, hc | hc⟩ := estimate_cases inp
  · rw [hc.2.1] at h; omega
  · obtain ⟨_, _, hl, _, hs, hsp⟩ := hc
    rw [hl, hs, hsp]
    simp only [planCounts, List.length_map, hlen]
    refine ⟨hp, trivial, trivial, ?_⟩
    intro hn
    simp [hn]

/-- **Tensor split sums to the layer count** (and has one entry per GPU). -/
theorem split_sum (inp : Inp) (l : List Nat) (h : (estimate inp).split = some l) :
    l.sum = (estimate inp).layers ∧ l.length = inp.gpus.length := by
  have hp := (plan_count (mkCore inp) inp.gpus).1
  have hlen := plan_length (mkCore inp) inp.gpus
  obtain ⟨_, hc | hc⟩ := estimate_cases inp
  · rw [hc.2.2.2.2.2] at h; cases h
  · obtain ⟨_, _, hl, _, _, hsp⟩ := hc
    rw [hsp] at h
    split at h
    · injection h with h
      subst h
      rw [hl]
      simp only [List.length_map, hlen]
      exact ⟨hp, trivial⟩
    · cases h

/-- **CPU ⇒ nothing offloaded.** -/
theorem cpu_zero (inp : Inp) (h : inp.lib = Lib.cpu) :
    (estimate inp).layers = 0 ∧ (estimate inp).vram = 0 ∧ (estimate inp).graph = 0 ∧
    (estimate inp).sizes = [] ∧ (estimate inp).split = none := by
  obtain ⟨_, hc | hc⟩ := estimate_cases inp
  · exact hc.2
  · exact absurd h hc.1

/-! ### clauses under the no-wrap guard -/

/-- **No GPU is planned beyond its free memory less the overhead.**  For GPU `i` with reported
    size `a`: either nothing at all was put on it (`a = 0`, the GPU was not admitted) or
    `a + overhead ≤ free`; and strictly below for every GPU that received a layer.  (`a` includes
    the GPU minimum, the one-layer buffer, gpu-zero projector overhead, layers, graph.) -/
theorem alloc_le_free_partial (inp : Inp) (hnw : NoWrap inp) (i : Nat) (g : Gpu) (a : Nat)
    (hg : inp.gpus[i]? = some g) (ha : (estimate inp).sizes[i]? = some a) :
    (a = 0 ∨ a + inp.overhead ≤ g.free) ∧
    (∀ n, (planCounts inp)[i]? = some n → 0 < n → a + inp.overhead < g.free) := by
  obtain ⟨hfin, hfree⟩ := plan_final (mkCore inp) inp.gpus hnw.1
  obtain ⟨_, hc | hc⟩ := estimate_cases inp
  · rw [hc.2.2.2.2.1] at ha; simp at ha
  · rw [hc.2.2.2.2.1, List.getElem?_map] at ha
    cases hs : (plan (mkCore inp) inp.gpus).gs[i]? with
    | none => rw [hs] at ha; simp at ha
    | some s =>
      rw [hs] at ha
      simp only [Option.map_some, Option.some.injEq] at ha
      have hfr : s.free = g.free := by
        have := congrArg (fun l => l[i]?) hfree
        simp only [List.getElem?_map, hs, hg, Option.map_some, Option.some.injEq] at this
        exact this
      have hok := hfin s (List.mem_of_getElem? hs)
      unfold FinalOk at hok
      rw [mkCore_overhead, hfr, ha] at hok
      refine ⟨hok.1, ?_⟩
      intro n hn hpos
      simp only [planCounts, List.getElem?_map, hs, Option.map_some, Option.some.injEq] at hn
      exact hok.2 (by omega)

/-- **TotalSize ≥ VRAMSize**, and VRAMSize is the exact sum of the per-GPU sizes. -/
theorem total_ge_vram_partial (inp : Inp) (hnw : NoWrap inp) :
    (estimate inp).vram ≤ (estimate inp).total ∧
    (0 < (estimate inp).layers → (estimate inp).vram = (estimate inp).sizes.sum) := by
  obtain ⟨hfin, hfree⟩ := plan_final (mkCore inp) inp.gpus hnw.1
  have hov := plan_overflow_le (mkCore inp) inp.gpus
  have hle := sum_alloc_le (plan (mkCore inp) inp.gpus).gs (fun s hs => (hfin s hs).alloc_le)
  rw [hfree] at hle
  have hguard := hnw.2
  have hacc : partialReq inp = ((plan (mkCore inp) inp.gpus).gs.map (·.alloc)).sum := by
    have := accW_eq ((plan (mkCore inp) inp.gpus).gs.map (·.alloc)) 0 (by omega)
    simpa [partialReq] using this
  have htot : wr (partialReq inp + (plan (mkCore inp) inp.gpus).overflow)
      = partialReq inp + (plan (mkCore inp) inp.gpus).overflow := wr_id (by omega)
  obtain ⟨ht, hc | hc⟩ := estimate_cases inp
  · rw [hc.2.1, hc.2.2.1]; exact ⟨by omega, fun h => by omega⟩
  · obtain ⟨_, _, _, hv, hs, _⟩ := hc
    rw [ht, hv, hs, htot]
    exact ⟨by omega, fun _ => hacc⟩

/-! ### PredictServerFit -/

theorem predictFitLoop_true (common : Inp) : ∀ (groups : List (Lib × List Gpu)) (v0 v : Nat),
    predictFitLoop common v0 groups = (true, v) →
    ∃ lib gpus, (lib, gpus) ∈ groups ∧
      let e := estimate { common with lib := lib, gpus := gpus }
      v = e.vram ∧ 0 < e.layers ∧
      (common.numGPU < 0 → e.layers = common.blocks.length + 1) ∧
      (0 ≤ common.numGPU → (e.layers : Int) = common.numGPU) := by
  intro groups
  induction groups with
  | nil => intro v0 v h; simp [predictFitLoop] at h
  | cons grp rest ih =>
    intro v0 v h
    obtain ⟨lib, gpus⟩ := grp
    simp only [predictFitLoop] at h
    cases hc : fitCond common.numGPU common.blocks.length
        (estimate { common with lib := lib, gpus := gpus }).layers with
    | true =>
      rw [hc] at h
      simp only [↓reduceIte, Prod.mk.injEq, true_and] at h
      refine ⟨lib, gpus, by simp, ?_⟩
      have hl := layers_le { common with lib := lib, gpus := gpus }
      simp only at hl
      unfold fitCond at hc
      by_cases hneg : common.numGPU < 0
      · simp only [hneg, ↓reduceIte, decide_eq_true_eq] at hc
        exact ⟨h.symm, hc.1, fun _ => by omega, fun hp => by omega⟩
      · simp only [hneg, ↓reduceIte, decide_eq_true_eq] at hc
        have := hl.2 (by omega)
        exact ⟨h.symm, hc.1, fun hn => absurd hn hneg, fun _ => by omega⟩
    | false =>
      rw [hc] at h
      simp only [Bool.false_eq_true, ↓reduceIte] at h
      obtain ⟨l, g, hm, hh⟩ := ih _ _ h
      exact ⟨l, g, by simp [hm], hh⟩

/-- **A complete fit is declared only if all requested layers were placed.**  In the code "fits
    completely" means: for some library group, the estimate places at least one layer and
    `num_gpu < 0` (auto): *all* `blocks + 1` layers; `num_gpu ≥ 0`: exactly the `num_gpu` layers
    the request asks for (so for `num_gpu > blocks + 1` a fit is never declared).  The returned
    VRAM figure is that group's. -/
theorem fit_only_if_placed (common : Inp) (groups : List (Lib × List Gpu)) (v : Nat)
    (h : predictFit common groups = (true, v)) :
    ∃ lib gpus, (lib, gpus) ∈ groups ∧
      let e := estimate { common with lib := lib, gpus := gpus }
      v = e.vram ∧ 0 < e.layers ∧
      (common.numGPU < 0 → e.layers = common.blocks.length + 1) ∧
      (0 ≤ common.numGPU → (e.layers : Int) = common.numGPU) :=
  predictFitLoop_true common groups 0 v h

/-- with `num_gpu` beyond the model's layer count a complete fit is never declared -/
theorem fit_never_when_numGPU_huge (common : Inp) (groups : List (Lib × List Gpu))
    (h : (common.blocks.length + 1 : Nat) < common.numGPU) :
    (predictFit common groups).1 = false := by
  cases hp : predictFit common groups with
  | mk b v =>
    cases b with
    | false => rfl
    | true =>
      obtain ⟨lib, gpus, _, hh⟩ := fit_only_if_placed common groups v hp
      have hl := (layers_le { common with lib := lib, gpus := gpus }).1
      simp only at hh hl
      have := hh.2.2.2 (by omega)
      omega

/-! ### `ByLibrary` and `PredictServerFit` on the whole GPU list -/

/-- **`ByLibrary` partitions the list**: group sizes add up to the list length, no group is empty
    (the estimator reads `gpus[0]`), every member carries its group's `Library[_Variant]` key. -/
theorem byLibrary_partition (l : List FGpu) :
    groupTotal (byLibrary l) = l.length ∧
    (∀ g ∈ byLibrary l, g.members ≠ []) ∧
    (∀ g ∈ byLibrary l, ∀ m ∈ g.members, m.key = g.key) := byLibrary_spec l

/-- `fit_only_if_placed` for the real entry point: the groups are the ones `ByLibrary` forms. -/
theorem fit_all_only_if_placed (common : Inp) (all : List FGpu) (v : Nat)
    (h : predictFitAll common all = (true, v)) :
    ∃ g ∈ byLibrary all, g.members ≠ [] ∧
      let e := estimate { common with lib := g.lib, gpus := g.gpus }
      v = e.vram ∧ 0 < e.layers ∧
      (common.numGPU < 0 → e.layers = common.blocks.length + 1) ∧
      (0 ≤ common.numGPU → (e.layers : Int) = common.numGPU) := by
  obtain ⟨lib, gpus, hm, hh⟩ := fit_only_if_placed common _ v h
  simp only [List.mem_map] at hm
  obtain ⟨g, hg, heq⟩ := hm
  simp only [Prod.mk.injEq] at heq
  obtain ⟨h1, h2⟩ := heq
  subst h1; subst h2
  exact ⟨g, hg, (byLibrary_spec all).2.1 g hg, hh⟩

/-! ### the scheduler's full-fit decision (server/sched.go `pickBestFullFitByLibrary`) -/

/-- `gpus[0].Library` of a list -/
def headLib : List FGpu → Lib
  | [] => Lib.other
  | x :: _ => x.lib

/-- **A full fit is declared only for a list on which all requested layers are placed — the very
    list that is returned.**  If `pickBestFullFitByLibrary` returns `L` (non-nil) and parallelism `p`,
    then `p` is one of the values tried, `L` is non-empty, consists of GPUs of the inventory that share
    one `Library[_Variant]`, is sorted by free memory (descending), and `EstimateGPULayers` run **on `L`
    in the returned order** with the options of that `p` (what `NewLlamaServer` does next) places every
    requested layer: all `blocks+1` for `num_gpu < 0`, exactly `num_gpu` otherwise. -/
theorem full_fit_places_all (commonOf : Nat → Inp) (np : Int) (dp : Nat) (spread : Bool)
    (all L : List FGpu) (p : Nat) (h : pickFull commonOf np dp spread all = some (L, p)) :
    p ∈ toTry np dp ∧ L ≠ [] ∧ (∀ m ∈ L, m ∈ all) ∧ (∃ k, ∀ m ∈ L, m.key = k) ∧ DescSorted L ∧
    let common := commonOf p
    let e := estimate { common with lib := headLib L, gpus := L.map (·.gpu) }
    0 < e.layers ∧
    (common.numGPU < 0 → e.layers = common.blocks.length + 1) ∧
    (0 ≤ common.numGPU → (e.layers : Int) = common.numGPU) := by
  obtain ⟨hp, hfit, g, hg, hL⟩ := pickFullGroups_some commonOf _ spread _ L p h
  obtain ⟨_, hne, hkeys⟩ := byLibrary_spec all
  have hmemAll := byLibrary_mem all g hg
  have hsub : ∀ m ∈ L, m ∈ sortDesc g.members := by
    rcases hL with rfl | ⟨x, hx, rfl⟩
    · exact fun m hm => hm
    · intro m hm; simp at hm; subst hm; exact hx
  have hLne : L ≠ [] := by
    rcases hL with rfl | ⟨x, _, rfl⟩
    · intro hnil
      have hlen := length_sortDesc g.members
      rw [hnil] at hlen
      have hne' := hne g hg
      cases hm : g.members with
      | nil => exact hne' hm
      | cons a b => rw [hm] at hlen; simp at hlen
    · simp
  have hkey : ∀ m ∈ L, m.key = g.key :=
    fun m hm => hkeys g hg m ((mem_sortDesc m g.members).mp (hsub m hm))
  have hsorted : DescSorted L := by
    rcases hL with rfl | ⟨x, _, rfl⟩
    · exact sortDesc_sorted _
    · simp [DescSorted]
  refine ⟨hp, hLne, fun m hm => hmemAll m ((mem_sortDesc m g.members).mp (hsub m hm)),
    ⟨g.key, hkey⟩, hsorted, ?_⟩
  have hby := byLibrary_homog g.key L hLne hkey
  have hlib : (⟨g.key, L⟩ : Group).lib = headLib L := by
    cases L <;> rfl
  unfold predictFitAll at hfit
  rw [hby] at hfit
  simp only [List.map_cons, List.map_nil, hlib, Group.gpus] at hfit
  cases hpf : predictFit (commonOf p) [(headLib L, L.map (·.gpu))] with
  | mk b v =>
    rw [hpf] at hfit
    simp only at hfit
    subst hfit
    obtain ⟨lib, gpus, hm, hh⟩ := fit_only_if_placed (commonOf p) _ v hpf
    simp only [List.mem_singleton, Prod.mk.injEq] at hm
    obtain ⟨h1, h2⟩ := hm
    subst h1; subst h2
    exact hh.2

/-- `pickBestPartialFitByLibrary` returns the whole inventory (≤ 1 library) or one ByLibrary group -/
theorem pickPartial_is_group (common : Inp) (all : List FGpu) :
    pickPartial common all = all ∨ ∃ g ∈ byLibrary all, pickPartial common all = g.members := by
  unfold pickPartial
  simp only
  split
  · exact Or.inl rfl
  · split
    · rename_i g hg
      exact Or.inr ⟨g, List.mem_of_getElem? hg, rfl⟩
    · rename_i hnone
      -- the index returned by the loop is always in range; the `none` arm is unreachable but
      -- harmless: treat via the empty group not existing ⇒ show by the loop bound
      exact Or.inr (by
        exfalso
        have hb : ∀ (gs : List Group) (i best fit : Nat), fit < i + gs.length →
            bestLoop common i gs best fit < i + gs.length := by
          intro gs
          induction gs with
          | nil => intro i best fit h; simpa [bestLoop] using h
          | cons a rest ih =>
            intro i best fit h
            simp only [bestLoop, List.length_cons]
            split
            · have := ih (i + 1) ((predictFitAll common a.members).2) i (by omega)
              omega
            · have := ih (i + 1) best fit (by simp only [List.length_cons] at h; omega)
              omega
        have hlt := hb (byLibrary all) 0 0 0 (by omega)
        simp only [Nat.zero_add] at hlt
        rw [List.getElem?_eq_none_iff] at hnone
        omega)

/-! ### the scheduler's adjustment of the free figure (server/sched.go `updateFreeSpace`) -/

/-- **The adjusted free memory never exceeds the reported one.**  For every GPU list (duplicate
    IDs, any total/free figures, free > total included), every set of loaded runners and every
    prediction map (sums wrap mod 2^64 as in the code): the free figure `updateFreeSpace` leaves
    for GPU `i` is at most the one the GPU reported. -/
theorem free_never_raised (gpus : List SGpu) (runners : List Runner) (i : Nat) (g : SGpu) (f : Nat)
    (hg : gpus[i]? = some g) (hf : (updateFree gpus runners)[i]? = some f) : f ≤ g.free := by
  unfold updateFree at hf
  split at hf
  · simp only [List.getElem?_map, hg, Option.map_some, Option.some.injEq] at hf
    subst hf
    exact adjust_le_free _ _
  · simp only [List.getElem?_map, hg, Option.map_some, Option.some.injEq] at hf
    omega

/-- and when some runner is loaded and the prediction does not exceed the total, adjusted free +
    predicted usage ≤ total memory -/
theorem free_within_total (gpus : List SGpu) (runners : List Runner) (i : Nat) (g : SGpu) (f : Nat)
    (hany : runners.any (·.isSome) = true) (hp : predOf gpus runners g.key ≤ g.total)
    (hg : gpus[i]? = some g) (hf : (updateFree gpus runners)[i]? = some f) :
    f + predOf gpus runners g.key ≤ g.total := by
  unfold updateFree at hf
  simp only [hany, ↓reduceIte, List.getElem?_map, hg, Option.map_some, Option.some.injEq] at hf
  subst hf
  exact adjust_le_total _ _ hp

/-- **Composition: estimator on adjusted GPUs ⇒ within the REPORTED free memory.**  If GPU `i`
    of the estimator's input carries the free figure that `updateFreeSpace` left for GPU `j` of
    the reported list (the scheduler filters, groups and sorts the adjusted list before it calls
    the estimator, hence the free correspondence `i ↦ j`), then under the no-wrap guard the size
    planned on it is 0 or `size + overhead ≤` the free memory GPU `j` *reported*. -/
theorem sched_alloc_le_reported (inp : Inp) (hnw : NoWrap inp)
    (rep : List SGpu) (runners : List Runner) (i j : Nat) (g : Gpu) (r : SGpu) (a : Nat)
    (hg : inp.gpus[i]? = some g) (hr : rep[j]? = some r)
    (hadj : (updateFree rep runners)[j]? = some g.free)
    (ha : (estimate inp).sizes[i]? = some a) :
    a = 0 ∨ a + inp.overhead ≤ r.free := by
  have h1 := (alloc_le_free_partial inp hnw i g a hg ha).1
  have h2 := free_never_raised rep runners j r g.free hr hadj
  rcases h1 with h | h
  · exact Or.inl h
  · exact Or.inr (by omega)

/-- **History level: what is planned for the next model plus what was predicted for the loaded
    ones fits in the GPU's total memory.**  Same correspondence as `sched_alloc_le_reported`; some
    runner is loaded and its/their summed prediction for the GPU does not exceed the total. -/
theorem planned_plus_predicted_le_total (inp : Inp) (hnw : NoWrap inp)
    (rep : List SGpu) (runners : List Runner) (i j : Nat) (g : Gpu) (r : SGpu) (a : Nat)
    (hany : runners.any (·.isSome) = true) (hp : predOf rep runners r.key ≤ r.total)
    (hg : inp.gpus[i]? = some g) (hr : rep[j]? = some r)
    (hadj : (updateFree rep runners)[j]? = some g.free)
    (ha : (estimate inp).sizes[i]? = some a) :
    a = 0 ∨ a + inp.overhead + predOf rep runners r.key ≤ r.total := by
  have h1 := (alloc_le_free_partial inp hnw i g a hg ha).1
  have h2 := free_within_total rep runners j r g.free hany hp hr hadj
  rcases h1 with h | h
  · exact Or.inl h
  · exact Or.inr (by omega)

/-- `EstimatedVRAMByGPU` (what feeds the predictions) reports 0 or a size of the estimate -/
theorem vramByGPU_is_planned_size (ids sizes : List Nat) (id : Nat) :
    vramByGPU ids sizes id = 0 ∨
    ∃ k : Nat, ids[k]? = some id ∧ sizes[k]? = some (vramByGPU ids sizes id) :=
  vramByGPU_spec ids sizes id

/-- the seeded change "always trust our numbers" (`FreeMemory = Total - predicted` unconditionally)
    is excluded by `free_never_raised`: with 1000 total, 100 reported free and 300 predicted it would
    hand 700 to the estimator; the code hands 100. Also: predicted > total ⇒ 0; no runner ⇒ unchanged;
    two list entries with the same (Library, ID) count the prediction twice. -/
example :
    updateFree [⟨0, 0, 1000, 100⟩] [some [(0, 300)]] = [100] ∧
    updateFree [⟨0, 0, 1000, 900⟩] [some [(0, 300)]] = [700] ∧
    updateFree [⟨0, 0, 1000, 900⟩] [some [(0, 1300)]] = [0] ∧
    updateFree [⟨0, 0, 1000, 900⟩] [none] = [900] ∧
    updateFree [⟨0, 0, 1000, 900⟩, ⟨0, 0, 1000, 900⟩] [some [(0, 300)]] = [400, 400] := by decide

/-! ### witnesses and non-vacuity -/

/-- a one-block model on one GPU with 100 bytes free; `overhead` is the parameter -/
def w1 (overhead : Nat) : Inp :=
  { lib := .other, gpus := [⟨100, 0⟩], overhead := overhead, projs := [], vision := (0, 0),
    blk0 := some 10, blocks := [(some 10, 0)], graphPartial := 1, graphFull := 1, gqa := 1,
    outNorm := none, output := none, tokenEmbd := none, numGPU := -1 }

/-- **Witness of finding W1.**  `OLLAMA_GPU_OVERHEAD = 2^64 - 10`: the admission sum and the
    placement sum wrap around, the GPU is admitted and gets the layer: 21 bytes planned on a GPU
    whose free memory (100) is far below the overhead alone.  With overhead 50 the same model
    behaves (21 + 50 ≤ 100); with overhead 90 nothing is placed. -/
theorem W1_overhead_wraps :
    (estimate (w1 18446744073709551606)).sizes = [21] ∧
    (estimate (w1 18446744073709551606)).layers = 1 ∧
    ¬ (21 + (w1 18446744073709551606).overhead ≤ 100) ∧
    ¬ NoWrap (w1 18446744073709551606) ∧
    (estimate (w1 50)).sizes = [21] ∧ NoWrap (w1 50) ∧
    (estimate (w1 90)).layers = 0 := by decide

/-! ### the fixed variant (proposed fix C16-W1): the overhead is in no sum -/

/-- In the fixed variant the guard does not depend on the overhead at all. -/
theorem noWrap_fixed_any_overhead (inp : Inp) (hv : inp.ovSafe = true) (o : Nat) :
    NoWrap inp ↔ NoWrap { inp with overhead := o } := by
  have hc : mkCore { inp with overhead := o } = { mkCore inp with overhead := o } := by
    simp [mkCore, projTotals, graphs, layer0, memOut, kvTotal]
  have hvc : (mkCore inp).ovSafe = true := by rw [mkCore_ovSafe]; exact hv
  unfold NoWrap RoomAll
  rw [hc]
  simp only [Room, hvc, ↓reduceIte, lastLayer, Core.maxg]

/-- **Fixed variant: the allocation clause for every overhead.**  With fix C16-W1 applied, if the
    remaining sums (`gzo + max(gP,gF) + minimum + 2*layer0 + free + L`, none of which contains the
    overhead) stay below 2^64 for overhead 0, then for *every* value of `OLLAMA_GPU_OVERHEAD` each
    reported size is 0 or `size + overhead ≤ free`. -/
theorem alloc_le_free_fixed (inp : Inp) (hv : inp.ovSafe = true)
    (hnw : NoWrap { inp with overhead := 0 }) (i : Nat) (g : Gpu) (a : Nat)
    (hg : inp.gpus[i]? = some g) (ha : (estimate inp).sizes[i]? = some a) :
    (a = 0 ∨ a + inp.overhead ≤ g.free) ∧
    (∀ n, (planCounts inp)[i]? = some n → 0 < n → a + inp.overhead < g.free) := by
  have h : NoWrap inp := by
    have := (noWrap_fixed_any_overhead { inp with overhead := 0 } hv inp.overhead).mp hnw
    exact this
  exact alloc_le_free_partial inp h i g a hg ha

/-- the W1 input under the fixed variant: nothing is planned, for the wrapping overhead too -/
theorem W1_fixed_variant :
    (estimate { w1 18446744073709551606 with ovSafe := true }).layers = 0 ∧
    (estimate { w1 18446744073709551606 with ovSafe := true }).sizes = [] ∧
    NoWrap { w1 18446744073709551606 with ovSafe := true } ∧
    (estimate { w1 50 with ovSafe := true }).sizes = [21] := by decide

/-- 10 blocks of 10 bytes, one GPU with 100 bytes free, partial-offload graph figure 2^64 - 15 -/
def w2 : Inp :=
  { lib := .other, gpus := [⟨100, 0⟩], overhead := 0, projs := [], vision := (0, 0),
    blk0 := some 10, blocks := List.replicate 10 (some 10, 0), graphPartial := 18446744073709551601,
    graphFull := 1, gqa := 1, outNorm := none, output := none, tokenEmbd := none, numGPU := -1,
    ovSafe := true }

/-- **The remaining guard is needed after the fix.**  A graph-size figure near 2^64 (reachable
    only through wrapped `GraphSize` arithmetic, e.g. an absurd `num_ctx`) makes the admission sum
    `gzo+graph+min+2*layer` and every placement sum `used+layer` wrap: all 10 layers go to a GPU
    with 100 bytes free (111 bytes planned), in the fixed variant as well as in the pinned one. -/
theorem W2_graph_wraps_fixed :
    (estimate w2).layers = 10 ∧ (estimate w2).sizes = [111] ∧ ¬ NoWrap w2 ∧
    (estimate { w2 with ovSafe := false }).sizes = [111] := by decide

/-- two GPUs; the second reports a minimum-memory figure of 2^64 - 15 and 100 bytes free -/
def w3 : Inp :=
  { lib := .other, gpus := [⟨1000, 0⟩, ⟨100, 18446744073709551601⟩], overhead := 0, projs := [],
    vision := (0, 0), blk0 := some 10, blocks := [(some 10, 0)], graphPartial := 1, graphFull := 1,
    gqa := 1, outNorm := none, output := none, tokenEmbd := none, numGPU := -1, ovSafe := true }

/-- **Witness of finding W2 (remaining wrap-around after fix C16-W1).**  A GPU minimum-memory
    figure near 2^64 makes the admission requirement `gzo+graph+minimum+2*layer` wrap to 6: the
    GPU (100 bytes free) is admitted and reported with `minimum + layer = 2^64 - 5` bytes planned
    (no layer lands on it; the layer goes to the other GPU). -/
theorem W3_minimum_wraps_fixed :
    (estimate w3).layers = 1 ∧ (estimate w3).split = some [1, 0] ∧
    (estimate w3).sizes = [21, 18446744073709551611] ∧ ¬ NoWrap w3 := by decide

/-- a two-GPU, three-block model with an output layer, uneven layers -/
def ex2 : Inp :=
  { lib := .other, gpus := [⟨400, 10⟩, ⟨150, 5⟩], overhead := 7, projs := [(3, 2)], vision := (0, 0),
    blk0 := some 20, blocks := [(some 20, 4), (none, 4), (some 31, 4)], graphPartial := 9,
    graphFull := 6, gqa := 1, outNorm := some 1, output := some 12, tokenEmbd := some 50,
    numGPU := -1 }

/-- non-vacuity: the guard holds for a non-trivial input on which layers are spread over both
    GPUs, and the theorems' hypotheses (`sizes[i]? = some a`, `split = some l`) are met -/
example : NoWrap ex2 ∧ (estimate ex2).layers = 4 ∧ (estimate ex2).split = some [2, 2] ∧
    (estimate ex2).sizes = [107, 75] ∧ (estimate ex2).vram = 182 ∧ (estimate ex2).total = 182 ∧
    predictFit ex2 [(.other, ex2.gpus)] = (true, 182) := by decide

end OllamaVerif.C16
