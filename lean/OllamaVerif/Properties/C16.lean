/-
  C16 — the memory estimate never plans more on a GPU than it has free.

  Property theorems about the executable model `Memory.estimate` / `Memory.predictFit`
  (llm/memory.go EstimateGPULayers / PredictServerFit), for every input: any number of blocks,
  any layer-size profile, any GPU list, any num_gpu, any overhead.

  * `layers_le`, `split_sum`, `counts_sum`, `cpu_zero`, `fit_only_if_placed` hold without any
    side condition (also when the uint64 sums wrap around).
  * `alloc_le_free_partial`, `total_ge_vram_partial` hold under the explicit decidable guard
    `NoWrap` (no sum the estimator forms reaches 2^64).  Without the guard they are false of the
    model *and of the code* — witness `W1_overhead_wraps` (finding W1).
-/
import OllamaVerif.Proofs.Memory

namespace OllamaVerif.C16
open OllamaVerif.Memory

/-- per-GPU layer counts of the plan (what `TensorSplit` prints when there are ≥ 2 GPUs) -/
def planCounts (inp : Inp) : List Nat := (plan (mkCore inp) inp.gpus).gs.map (·.count)

/-- **The no-wrap guard** (both code variants; in the fixed variant `ovSafe = true` the overhead
    term is absent, see `Room`), a decidable predicate on the estimator's inputs (through the
    constants `mkCore` derives from them, each already a uint64):
    * for every GPU `g` and every layer size `L` the estimator may try on it (each block's
      `layerSize`, and the output layer):
      `overhead + gzo + max(gP,gF) + g.minimum + 2*layer0 + g.free + L < 2^64`;
    * `Σ free + blocks * lastLayerSize + memoryLayerOutput < 2^64` (the summaries). -/
def NoWrap (inp : Inp) : Prop :=
  RoomAll (mkCore inp) inp.gpus ∧
  (inp.gpus.map (·.free)).sum + (mkCore inp).layerSizes.length * lastLayer (mkCore inp)
    + (mkCore inp).memOut < W

instance (c : Core) (f m L : Nat) : Decidable (Room c f m L) := by unfold Room; infer_instance
instance (c : Core) (gpus : List Gpu) : Decidable (RoomAll c gpus) := by unfold RoomAll; infer_instance
instance (inp : Inp) : Decidable (NoWrap inp) := by unfold NoWrap; infer_instance

/-- a simple sufficient condition for the guard: everything the estimator adds up is small
    (the realistic envelope: 2^40 B = 1 TiB per quantity, < 2^16 blocks, ≤ 2^8 GPUs) -/
theorem noWrap_of_small (inp : Inp)
    (hov : inp.overhead < 2 ^ 40)
    (hcore : (mkCore inp).gzo < 2 ^ 40 ∧ (mkCore inp).gP < 2 ^ 40 ∧ (mkCore inp).gF < 2 ^ 40 ∧
      (mkCore inp).layer0 < 2 ^ 40 ∧ (mkCore inp).memOut < 2 ^ 40 ∧ lastLayer (mkCore inp) < 2 ^ 40 ∧
      ∀ L ∈ (mkCore inp).layerSizes, L < 2 ^ 40)
    (hblocks : inp.blocks.length < 2 ^ 16)
    (hgpus : ∀ g ∈ inp.gpus, g.free < 2 ^ 40 ∧ g.minimum < 2 ^ 40)
    (hn : inp.gpus.length ≤ 2 ^ 8) : NoWrap inp := by
  obtain ⟨h1, h2, h3, h4, h5, h6, h7⟩ := hcore
  have hmax : (mkCore inp).maxg < 2 ^ 40 := by unfold Core.maxg; omega
  constructor
  · intro g hg L hL
    obtain ⟨hf, hm⟩ := hgpus g hg
    have hL' : L < 2 ^ 40 := by
      simp only [List.mem_cons] at hL
      rcases hL with rfl | hL
      · exact h5
      · exact h7 L hL
    unfold Room W
    rw [mkCore_overhead]
    split <;> omega
  · have hsum : ∀ (l : List Gpu), (∀ g ∈ l, g.free < 2 ^ 40) →
        (l.map (·.free)).sum ≤ l.length * 2 ^ 40 := by
      intro l
      induction l with
      | nil => intro _; simp
      | cons a rest ih =>
        intro h
        have := h a (by simp)
        have := ih (fun g hg => h g (by simp [hg]))
        simp only [List.map_cons, List.sum_cons, List.length_cons]
        omega
    have hs := hsum inp.gpus (fun g hg => (hgpus g hg).1)
    have hb : (mkCore inp).layerSizes.length * lastLayer (mkCore inp) ≤ 2 ^ 16 * 2 ^ 40 := by
      rw [mkCore_blocks]
      exact Nat.mul_le_mul (by omega) (by omega)
    have hs' : inp.gpus.length * 2 ^ 40 ≤ 2 ^ 8 * 2 ^ 40 := Nat.mul_le_mul_right _ hn
    unfold W
    omega

theorem resolve_bound (B : Nat) : ∀ (bl : List (Option Nat × Nat)) (prev : Nat), prev < B →
    (∀ b ∈ bl, b.1.getD 0 + b.2 < B) → ∀ L ∈ resolve prev bl, L < B := by
  intro bl
  induction bl with
  | nil => intro prev _ _ L hL; simp [resolve] at hL
  | cons b rest ih =>
    intro prev hp hb L hL
    obtain ⟨w, kv⟩ := b
    have hb0 := hb (w, kv) (by simp)
    cases w with
    | none =>
      simp only [resolve, List.mem_cons] at hL
      rcases hL with rfl | hL
      · exact hp
      · exact ih prev hp (fun b hb' => hb b (by simp [hb'])) L hL
    | some w =>
      simp only [resolve, List.mem_cons] at hL
      have hw : wr (w + kv) < B := Nat.lt_of_le_of_lt (wr_le _) (by simpa using hb0)
      rcases hL with rfl | hL
      · exact hw
      · exact ih _ hw (fun b hb' => hb b (by simp [hb'])) L hL

/-- **The guard from bounds on the RAW inputs** (what the estimator reads from the file and the
    environment, before any of its own sums): projector / vision figures, per-block weight + KV sizes,
    the two `GraphSize` figures and the GQA fallback `gqa * Σ kv / 6`, the output tensors, every GPU's
    free / minimum memory and the overhead each below 2^40 (1 TiB), fewer than 2^16 blocks, at most 2^8
    GPUs.  Unlike `noWrap_of_small` no hypothesis mentions a derived (possibly already wrapped) constant. -/
theorem noWrap_of_small_raw (inp : Inp)
    (hov : inp.overhead < 2 ^ 40)
    (hproj : (inp.projs.map (·.1)).sum + (inp.projs.map (·.2)).sum < 2 ^ 40 ∧ inp.vision.1 + inp.vision.2 < 2 ^ 40)
    (hblk0 : inp.blk0.getD 0 + (inp.blocks.head?.map (·.2)).getD 0 < 2 ^ 40)
    (hblocks : ∀ b ∈ inp.blocks, b.1.getD 0 + b.2 < 2 ^ 40)
    (hgraph : inp.graphPartial < 2 ^ 40 ∧ inp.graphFull < 2 ^ 40 ∧ inp.gqa * (inp.blocks.map (·.2)).sum < 6 * 2 ^ 40)
    (hout : inp.outNorm.getD 0 + inp.output.getD 0 < 2 ^ 40 ∧ inp.outNorm.getD 0 + inp.tokenEmbd.getD 0 < 2 ^ 40)
    (hn : inp.blocks.length < 2 ^ 16)
    (hgpus : ∀ g ∈ inp.gpus, g.free < 2 ^ 40 ∧ g.minimum < 2 ^ 40)
    (hng : inp.gpus.length ≤ 2 ^ 8) : NoWrap inp := by
  have hl0 : layer0 inp < 2 ^ 40 := by
    unfold layer0
    cases hb : inp.blocks with
    | nil => rw [hb] at hblk0; simpa using hblk0
    | cons b rest =>
      rw [hb] at hblk0
      simp only [List.head?_cons, Option.map_some, Option.getD_some] at hblk0
      exact Nat.lt_of_le_of_lt (wr_le _) hblk0
  have hls : ∀ L ∈ resolve (layer0 inp) inp.blocks, L < 2 ^ 40 :=
    resolve_bound (2 ^ 40) inp.blocks (layer0 inp) hl0 hblocks
  have hgz : (mkCore inp).gzo < 2 ^ 40 := by
    have h1 := accW_le (inp.projs.map (·.1)) 0
    have h2 := accW_le (inp.projs.map (·.2)) 0
    have : (mkCore inp).gzo = wr ((projTotals inp).1 + (projTotals inp).2) := rfl
    rw [this]
    refine Nat.lt_of_le_of_lt (wr_le _) ?_
    unfold projTotals
    simp only
    split
    · exact hproj.2
    · simp only; omega
  have hkv : kvTotal inp ≤ (inp.blocks.map (·.2)).sum := by
    have := accW_le (inp.blocks.map (·.2)) 0
    simpa [kvTotal] using this
  have hgp0 : (if inp.graphPartial == 0 then wr (inp.gqa * kvTotal inp) / 6 else inp.graphPartial) < 2 ^ 40 := by
    split
    · have h1 : wr (inp.gqa * kvTotal inp) ≤ inp.gqa * (inp.blocks.map (·.2)).sum :=
        Nat.le_trans (wr_le _) (Nat.mul_le_mul_left _ hkv)
      have := hgraph.2.2
      omega
    · exact hgraph.1
  have hgs : (graphs inp).1 < 2 ^ 40 ∧ (graphs inp).2 < 2 ^ 40 := by
    unfold graphs
    simp only
    have hgf0 : (if inp.graphFull == 0 then (if inp.graphPartial == 0 then wr (inp.gqa * kvTotal inp) / 6 else inp.graphPartial)
        else inp.graphFull) < 2 ^ 40 := by
      split
      · exact hgp0
      · exact hgraph.2.1
    split
    · exact ⟨hgf0, hgf0⟩
    · split
      · exact ⟨hgp0, hgp0⟩
      · exact ⟨hgp0, hgf0⟩
  have hmo : memOut inp < 2 ^ 40 := by
    unfold memOut
    simp only
    cases ho : inp.output with
    | some o => rw [ho] at hout; simp only [Option.getD_some] at hout; exact Nat.lt_of_le_of_lt (wr_le _) hout.1
    | none =>
      cases ht : inp.tokenEmbd with
      | some t => rw [ht] at hout; simp only [Option.getD_some] at hout; exact Nat.lt_of_le_of_lt (wr_le _) hout.2
      | none =>
        rw [ho] at hout
        simp only [Option.getD_none, Nat.add_zero] at hout
        exact hout.1
  have hlast : lastLayer (mkCore inp) < 2 ^ 40 := by
    have : lastLayer (mkCore inp) = (resolve (layer0 inp) inp.blocks).getLastD (layer0 inp) := rfl
    rw [this]
    cases hr : resolve (layer0 inp) inp.blocks with
    | nil => simpa using hl0
    | cons a rest =>
      have hmem : (a :: rest).getLastD (layer0 inp) ∈ a :: rest := by
        rw [List.getLastD_eq_getLast?, List.getLast?_eq_some_getLast (by simp)]
        exact List.getLast_mem _
      rw [hr] at hls
      exact hls _ hmem
  exact noWrap_of_small inp hov
    ⟨hgz, hgs.1, hgs.2, hl0, hmo, hlast, fun L hL => hls L hL⟩ hn hgpus hng


/-! ### shape of the estimate -/

def partialReq (inp : Inp) : Nat := accW 0 ((plan (mkCore inp) inp.gpus).gs.map (·.alloc))

/-- the two shapes `EstimateGPULayers` returns: the early returns (cpu library, or no layer
    placed) and the full summary -/
theorem estimate_cases (inp : Inp) :
    let p := plan (mkCore inp) inp.gpus
    let e := estimate inp
    e.total = wr (partialReq inp + p.overflow) ∧
    (((inp.lib = Lib.cpu ∨ p.lc = 0) ∧ e.layers = 0 ∧ e.vram = 0 ∧ e.graph = 0 ∧ e.sizes = [] ∧
        e.split = none) ∨
     (inp.lib ≠ Lib.cpu ∧ p.lc ≠ 0 ∧ e.layers = p.lc ∧ e.vram = partialReq inp ∧
        e.sizes = p.gs.map (·.alloc) ∧
        e.split = if inp.gpus.length > 1 then some (p.gs.map (·.count)) else none)) := by
  by_cases h1 : inp.lib = Lib.cpu
  · simp [estimate, partialReq, h1]
  · by_cases h2 : (plan (mkCore inp) inp.gpus).lc = 0
    · simp [estimate, partialReq, h1, h2]
    · simp [estimate, partialReq, h1, h2]

/-! ### unconditional clauses -/

/-- **Layer count bounds.**  Never more layers than the model has (blocks + output), and never
    more than a non-negative `num_gpu`. -/
theorem layers_le (inp : Inp) :
    (estimate inp).layers ≤ inp.blocks.length + 1 ∧
    (0 ≤ inp.numGPU → ((estimate inp).layers : Int) ≤ inp.numGPU) := by
  have hp := plan_count (mkCore inp) inp.gpus
  simp only [mkCore_blocks, mkCore_numGPU] at hp
  obtain ⟨_, h1, h2⟩ := hp
  obtain ⟨_, hc | hc⟩ := estimate_cases inp
  · rw [hc.2.1]; exact ⟨by omega, fun h => by simpa using h⟩
  · rw [hc.2.2.1]; exact ⟨h1, h2⟩

/-- **Per-GPU counts.**  Whenever layers are reported, the plan has one count per GPU and the
    counts sum to the reported layer count; with ≥ 2 GPUs these counts are the tensor split. -/
theorem counts_sum (inp : Inp) (h : 0 < (estimate inp).layers) :
    (planCounts inp).sum = (estimate inp).layers ∧
    (planCounts inp).length = inp.gpus.length ∧
    (estimate inp).sizes.length = inp.gpus.length ∧
    (1 < inp.gpus.length → (estimate inp).split = some (planCounts inp)) := by
  have hp := (plan_count (mkCore inp) inp.gpus).1
  have hlen := plan_length (mkCore inp) inp.gpus
  obtain ⟨_, hc | hc⟩ := estimate_cases inp
  · rw [hc.2.1] at h; omega
  · obtain ⟨_, _, hl, _, hs, hsp⟩ := hc
    rw [hl, hs, hsp]
    simp only [planCounts, List.length_map, hlen]
    refine ⟨hp, trivial, trivial, ?_⟩
    intro hn
    simp [hn]

/-- **Tensor split sums to the layer count** (and has one entry per GPU). -/
theorem split_sum (inp : Inp) (l : List Nat) (h : (estimate inp).split = some l) :
    l.sum = (estimate inp).layers ∧ l.length = inp.gpus.length := by
  have hp := (plan_count (mkCore inp) inp.gpus).1
  have hlen := plan_length (mkCore inp) inp.gpus
  obtain ⟨_, hc | hc⟩ := estimate_cases inp
  · rw [hc.2.2.2.2.2] at h; cases h
  · obtain ⟨_, _, hl, _, _, hsp⟩ := hc
    rw [hsp] at h
    split at h
    · injection h with h
      subst h
      rw [hl]
      simp only [List.length_map, hlen]
      exact ⟨hp, trivial⟩
    · cases h

/-- **CPU ⇒ nothing offloaded.** -/
theorem cpu_zero (inp : Inp) (h : inp.lib = Lib.cpu) :
    (estimate inp).layers = 0 ∧ (estimate inp).vram = 0 ∧ (estimate inp).graph = 0 ∧
    (estimate inp).sizes = [] ∧ (estimate inp).split = none := by
  obtain ⟨_, hc | hc⟩ := estimate_cases inp
  · exact hc.2
  · exact absurd h hc.1

/-! ### clauses under the no-wrap guard -/

/-- **No GPU is planned beyond its free memory less the overhead.**  For GPU `i` with reported
    size `a`: either nothing at all was put on it (`a = 0`, the GPU was not admitted) or
    `a + overhead ≤ free`; and strictly below for every GPU that received a layer.  (`a` includes
    the GPU minimum, the one-layer buffer, gpu-zero projector overhead, layers, graph.) -/
theorem alloc_le_free_partial (inp : Inp) (hnw : NoWrap inp) (i : Nat) (g : Gpu) (a : Nat)
    (hg : inp.gpus[i]? = some g) (ha : (estimate inp).sizes[i]? = some a) :
    (a = 0 ∨ a + inp.overhead ≤ g.free) ∧
    (∀ n, (planCounts inp)[i]? = some n → 0 < n → a + inp.overhead < g.free) := by
  obtain ⟨hfin, hfree⟩ := plan_final (mkCore inp) inp.gpus hnw.1
  obtain ⟨_, hc | hc⟩ := estimate_cases inp
  · rw [hc.2.2.2.2.1] at ha; simp at ha
  · rw [hc.2.2.2.2.1, List.getElem?_map] at ha
    cases hs : (plan (mkCore inp) inp.gpus).gs[i]? with
    | none => rw [hs] at ha; simp at ha
    | some s =>
      rw [hs] at ha
      simp only [Option.map_some, Option.some.injEq] at ha
      have hfr : s.free = g.free := by
        have := congrArg (fun l => l[i]?) hfree
        simp only [List.getElem?_map, hs, hg, Option.map_some, Option.some.injEq] at this
        exact this
      have hok := hfin s (List.mem_of_getElem? hs)
      unfold FinalOk at hok
      rw [mkCore_overhead, hfr, ha] at hok
      refine ⟨hok.1, ?_⟩
      intro n hn hpos
      simp only [planCounts, List.getElem?_map, hs, Option.map_some, Option.some.injEq] at hn
      exact hok.2 (by omega)

/-- **TotalSize ≥ VRAMSize**, and VRAMSize is the exact sum of the per-GPU sizes. -/
theorem total_ge_vram_partial (inp : Inp) (hnw : NoWrap inp) :
    (estimate inp).vram ≤ (estimate inp).total ∧
    (0 < (estimate inp).layers → (estimate inp).vram = (estimate inp).sizes.sum) := by
  obtain ⟨hfin, hfree⟩ := plan_final (mkCore inp) inp.gpus hnw.1
  have hov := plan_overflow_le (mkCore inp) inp.gpus
  have hle := sum_alloc_le (plan (mkCore inp) inp.gpus).gs (fun s hs => (hfin s hs).alloc_le)
  rw [hfree] at hle
  have hguard := hnw.2
  have hacc : partialReq inp = ((plan (mkCore inp) inp.gpus).gs.map (·.alloc)).sum := by
    have := accW_eq ((plan (mkCore inp) inp.gpus).gs.map (·.alloc)) 0 (by omega)
    simpa [partialReq] using this
  have htot : wr (partialReq inp + (plan (mkCore inp) inp.gpus).overflow)
      = partialReq inp + (plan (mkCore inp) inp.gpus).overflow := wr_id (by omega)
  obtain ⟨ht, hc | hc⟩ := estimate_cases inp
  · rw [hc.2.1, hc.2.2.1]; exact ⟨by omega, fun h => by omega⟩
  · obtain ⟨_, _, _, hv, hs, _⟩ := hc
    rw [ht, hv, hs, htot]
    exact ⟨by omega, fun _ => hacc⟩

/-- **The bound the code really enforces.**  The estimator reserves the LARGER of the two graphs while it
    places layers and charges the applicable one at the end, so under the guard the reported size leaves
    room for the difference too: `size + (max(gP,gF) - Graph) + overhead ≤ free` (strict for a GPU with
    layers), where `Graph` is the graph figure of the estimate.  Stronger than `alloc_le_free_partial`
    whenever the two graphs differ (single non-metal GPU). -/
theorem alloc_with_reserve_partial (inp : Inp) (hnw : NoWrap inp) (i : Nat) (g : Gpu) (a : Nat)
    (hg : inp.gpus[i]? = some g) (ha : (estimate inp).sizes[i]? = some a) :
    (a = 0 ∨ a + ((mkCore inp).maxg - (estimate inp).graph) + inp.overhead ≤ g.free) ∧
    (∀ n, (planCounts inp)[i]? = some n → 0 < n →
      a + ((mkCore inp).maxg - (estimate inp).graph) + inp.overhead < g.free) := by
  obtain ⟨hfin, hfree⟩ := plan_final_strong (mkCore inp) inp.gpus hnw.1
  have hgraph : inp.lib ≠ Lib.cpu → (plan (mkCore inp) inp.gpus).lc ≠ 0 →
      (estimate inp).graph = if (plan (mkCore inp) inp.gpus).fully then (mkCore inp).gF else (mkCore inp).gP := by
    intro h1 h2
    simp [estimate, h1, h2]
  obtain ⟨_, hc | hc⟩ := estimate_cases inp
  · rw [hc.2.2.2.2.1] at ha; simp at ha
  · rw [hc.2.2.2.2.1, List.getElem?_map] at ha
    cases hs : (plan (mkCore inp) inp.gpus).gs[i]? with
    | none => rw [hs] at ha; simp at ha
    | some s =>
      rw [hs] at ha
      simp only [Option.map_some, Option.some.injEq] at ha
      have hfr : s.free = g.free := by
        have := congrArg (fun l => l[i]?) hfree
        simp only [List.getElem?_map, hs, hg, Option.map_some, Option.some.injEq] at this
        exact this
      have hok := hfin s (List.mem_of_getElem? hs)
      unfold FinalOkS at hok
      rw [mkCore_overhead, hfr, ha, ← hgraph hc.1 hc.2.1] at hok
      refine ⟨hok.1, ?_⟩
      intro n hn hpos
      simp only [planCounts, List.getElem?_map, hs, Option.map_some, Option.some.injEq] at hn
      exact hok.2 (by omega)


/-! ### PredictServerFit -/

theorem predictFitLoop_true (common : Inp) : ∀ (groups : List (Lib × List Gpu)) (v0 v : Nat),
    predictFitLoop common v0 groups = (true, v) →
    ∃ lib gpus, (lib, gpus) ∈ groups ∧
      let e := estimate { common with lib := lib, gpus := gpus }
      v = e.vram ∧ 0 < e.layers ∧
      (common.numGPU < 0 → e.layers = common.blocks.length + 1) ∧
      (0 ≤ common.numGPU → (e.layers : Int) = common.numGPU) := by
  intro groups
  induction groups with
  | nil => intro v0 v h; simp [predictFitLoop] at h
  | cons grp rest ih =>
    intro v0 v h
    obtain ⟨lib, gpus⟩ := grp
    simp only [predictFitLoop] at h
    cases hc : fitCond common.numGPU common.blocks.length
        (estimate { common with lib := lib, gpus := gpus }).layers with
    | true =>
      rw [hc] at h
      simp only [↓reduceIte, Prod.mk.injEq, true_and] at h
      refine ⟨lib, gpus, by simp, ?_⟩
      have hl := layers_le { common with lib := lib, gpus := gpus }
      simp only at hl
      unfold fitCond at hc
      by_cases hneg : common.numGPU < 0
      · simp only [hneg, ↓reduceIte, decide_eq_true_eq] at hc
        exact ⟨h.symm, hc.1, fun _ => by omega, fun hp => by omega⟩
      · simp only [hneg, ↓reduceIte, decide_eq_true_eq] at hc
        have := hl.2 (by omega)
        exact ⟨h.symm, hc.1, fun hn => absurd hn hneg, fun _ => by omega⟩
    | false =>
      rw [hc] at h
      simp only [Bool.false_eq_true, ↓reduceIte] at h
      obtain ⟨l, g, hm, hh⟩ := ih _ _ h
      exact ⟨l, g, by simp [hm], hh⟩

/-- **A complete fit is declared only if all requested layers were placed.**  In the code "fits
    completely" means: for some library group, the estimate places at least one layer and
    `num_gpu < 0` (auto): *all* `blocks + 1` layers; `num_gpu ≥ 0`: exactly the `num_gpu` layers
    the request asks for (so for `num_gpu > blocks + 1` a fit is never declared).  The returned
    VRAM figure is that group's. -/
theorem fit_only_if_placed (common : Inp) (groups : List (Lib × List Gpu)) (v : Nat)
    (h : predictFit common groups = (true, v)) :
    ∃ lib gpus, (lib, gpus) ∈ groups ∧
      let e := estimate { common with lib := lib, gpus := gpus }
      v = e.vram ∧ 0 < e.layers ∧
      (common.numGPU < 0 → e.layers = common.blocks.length + 1) ∧
      (0 ≤ common.numGPU → (e.layers : Int) = common.numGPU) :=
  predictFitLoop_true common groups 0 v h

/-- **The clause as the property states it** ("declared to fit completely only if ALL of its layers
    were placed"), under the guard that excludes a user limit below the model's layer count: for
    `num_gpu < 0` (auto) or `num_gpu ≥ blocks+1`, a declared fit means some library group's estimate
    places every one of the `blocks+1` layers.  Without the guard the clause is false of the model and
    of the code (finding N1, witness `N1_fit_with_partial_offload`): `PredictServerFit` compares with
    the user's `num_gpu`, not with the model's layer count. -/
theorem fit_only_if_every_layer_placed_partial (common : Inp) (groups : List (Lib × List Gpu)) (v : Nat)
    (hguard : common.numGPU < 0 ∨ ((common.blocks.length + 1 : Nat) : Int) ≤ common.numGPU)
    (h : predictFit common groups = (true, v)) :
    ∃ lib gpus, (lib, gpus) ∈ groups ∧
      (estimate { common with lib := lib, gpus := gpus }).layers = common.blocks.length + 1 ∧
      v = (estimate { common with lib := lib, gpus := gpus }).vram := by
  obtain ⟨lib, gpus, hm, hh⟩ := fit_only_if_placed common groups v h
  refine ⟨lib, gpus, hm, ?_, hh.1⟩
  have hl := (layers_le { common with lib := lib, gpus := gpus }).1
  simp only at hh hl
  rcases hguard with hneg | hge
  · exact hh.2.2.1 hneg
  · have := hh.2.2.2 (by omega)
    omega

/-- with `num_gpu` beyond the model's layer count a complete fit is never declared -/
theorem fit_never_when_numGPU_huge (common : Inp) (groups : List (Lib × List Gpu))
    (h : (common.blocks.length + 1 : Nat) < common.numGPU) :
    (predictFit common groups).1 = false := by
  cases hp : predictFit common groups with
  | mk b v =>
    cases b with
    | false => rfl
    | true =>
      obtain ⟨lib, gpus, _, hh⟩ := fit_only_if_placed common groups v hp
      have hl := (layers_le { common with lib := lib, gpus := gpus }).1
      simp only at hh hl
      have := hh.2.2.2 (by omega)
      omega

/-! ### `ByLibrary` and `PredictServerFit` on the whole GPU list -/

/-- **`ByLibrary` partitions the list**: group sizes add up to the list length, no group is empty
    (the estimator reads `gpus[0]`), every member carries its group's `Library[_Variant]` key. -/
theorem byLibrary_partition (l : List FGpu) :
    groupTotal (byLibrary l) = l.length ∧
    (∀ g ∈ byLibrary l, g.members ≠ []) ∧
    (∀ g ∈ byLibrary l, ∀ m ∈ g.members, m.key = g.key) := byLibrary_spec l

/-- `fit_only_if_placed` for the real entry point: the groups are the ones `ByLibrary` forms. -/
theorem fit_all_only_if_placed (common : Inp) (all : List FGpu) (v : Nat)
    (h : predictFitAll common all = (true, v)) :
    ∃ g ∈ byLibrary all, g.members ≠ [] ∧
      let e := estimate { common with lib := g.lib, gpus := g.gpus }
      v = e.vram ∧ 0 < e.layers ∧
      (common.numGPU < 0 → e.layers = common.blocks.length + 1) ∧
      (0 ≤ common.numGPU → (e.layers : Int) = common.numGPU) := by
  obtain ⟨lib, gpus, hm, hh⟩ := fit_only_if_placed common _ v h
  simp only [List.mem_map] at hm
  obtain ⟨g, hg, heq⟩ := hm
  simp only [Prod.mk.injEq] at heq
  obtain ⟨h1, h2⟩ := heq
  subst h1; subst h2
  exact ⟨g, hg, (byLibrary_spec all).2.1 g hg, hh⟩

/-! ### the scheduler's full-fit decision (server/sched.go `pickBestFullFitByLibrary`) -/

/-- `gpus[0].Library` of a list -/
def headLib : List FGpu → Lib
  | [] => Lib.other
  | x :: _ => x.lib

/-- **A full fit is declared only for a list on which all requested layers are placed — the very
    list that is returned.**  If `pickBestFullFitByLibrary` returns `L` (non-nil) and parallelism `p`,
    then `p` is one of the values tried, `L` is non-empty, consists of GPUs of the inventory that share
    one `Library[_Variant]`, is sorted by free memory (descending), and `EstimateGPULayers` run **on `L`
    in the returned order** with the options of that `p` (what `NewLlamaServer` does next) places every
    requested layer: all `blocks+1` for `num_gpu < 0`, exactly `num_gpu` otherwise. -/
theorem full_fit_places_all (commonOf : Nat → Inp) (np : Int) (dp : Nat) (spread : Bool)
    (all L : List FGpu) (p : Nat) (h : pickFull commonOf np dp spread all = some (L, p)) :
    p ∈ toTry np dp ∧ L ≠ [] ∧ (∀ m ∈ L, m ∈ all) ∧ (∃ k, ∀ m ∈ L, m.key = k) ∧ DescSorted L ∧
    let common := commonOf p
    let e := estimate { common with lib := headLib L, gpus := L.map (·.gpu) }
    0 < e.layers ∧
    (common.numGPU < 0 → e.layers = common.blocks.length + 1) ∧
    (0 ≤ common.numGPU → (e.layers : Int) = common.numGPU) := by
  obtain ⟨hp, hfit, g, hg, hL⟩ := pickFullGroups_some commonOf _ spread _ L p h
  obtain ⟨_, hne, hkeys⟩ := byLibrary_spec all
  have hmemAll := byLibrary_mem all g hg
  have hsub : ∀ m ∈ L, m ∈ sortDesc g.members := by
    rcases hL with rfl | ⟨x, hx, rfl⟩
    · exact fun m hm => hm
    · intro m hm; simp at hm; subst hm; exact hx
  have hLne : L ≠ [] := by
    rcases hL with rfl | ⟨x, _, rfl⟩
    · intro hnil
      have hlen := length_sortDesc g.members
      rw [hnil] at hlen
      have hne' := hne g hg
      cases hm : g.members with
      | nil => exact hne' hm
      | cons a b => rw [hm] at hlen; simp at hlen
    · simp
  have hkey : ∀ m ∈ L, m.key = g.key :=
    fun m hm => hkeys g hg m ((mem_sortDesc m g.members).mp (hsub m hm))
  have hsorted : DescSorted L := by
    rcases hL with rfl | ⟨x, _, rfl⟩
    · exact sortDesc_sorted _
    · simp [DescSorted]
  refine ⟨hp, hLne, fun m hm => hmemAll m ((mem_sortDesc m g.members).mp (hsub m hm)),
    ⟨g.key, hkey⟩, hsorted, ?_⟩
  have hby := byLibrary_homog g.key L hLne hkey
  have hlib : (⟨g.key, L⟩ : Group).lib = headLib L := by
    cases L <;> rfl
  unfold predictFitAll at hfit
  rw [hby] at hfit
  simp only [List.map_cons, List.map_nil, hlib, Group.gpus] at hfit
  cases hpf : predictFit (commonOf p) [(headLib L, L.map (·.gpu))] with
  | mk b v =>
    rw [hpf] at hfit
    simp only at hfit
    subst hfit
    obtain ⟨lib, gpus, hm, hh⟩ := fit_only_if_placed (commonOf p) _ v hpf
    simp only [List.mem_singleton, Prod.mk.injEq] at hm
    obtain ⟨h1, h2⟩ := hm
    subst h1; subst h2
    exact hh.2

/-- the scheduler-level form of `fit_only_if_every_layer_placed_partial`: under the same guard on the
    options of the parallelism that is settled on, the list `pickBestFullFitByLibrary` returns holds
    every one of the model's `blocks+1` layers -/
theorem full_fit_places_every_layer_partial (commonOf : Nat → Inp) (np : Int) (dp : Nat) (spread : Bool)
    (all L : List FGpu) (p : Nat) (h : pickFull commonOf np dp spread all = some (L, p))
    (hguard : (commonOf p).numGPU < 0 ∨ (((commonOf p).blocks.length + 1 : Nat) : Int) ≤ (commonOf p).numGPU) :
    (estimate { commonOf p with lib := headLib L, gpus := L.map (·.gpu) }).layers
      = (commonOf p).blocks.length + 1 := by
  have hff := (full_fit_places_all commonOf np dp spread all L p h).2.2.2.2.2
  have hl := (layers_le { commonOf p with lib := headLib L, gpus := L.map (·.gpu) }).1
  dsimp only at hff hl ⊢
  obtain ⟨_, hauto, huser⟩ := hff
  rcases hguard with hneg | hge
  · exact hauto hneg
  · have := huser (by omega)
    omega

/-- `pickBestPartialFitByLibrary` returns the whole inventory (≤ 1 library) or one ByLibrary group -/
theorem pickPartial_is_group (common : Inp) (all : List FGpu) :
    pickPartial common all = all ∨ ∃ g ∈ byLibrary all, pickPartial common all = g.members := by
  unfold pickPartial
  simp only
  split
  · exact Or.inl rfl
  · split
    · rename_i g hg
      exact Or.inr ⟨g, List.mem_of_getElem? hg, rfl⟩
    · rename_i hnone
      -- the index returned by the loop is always in range; the `none` arm is unreachable but
      -- harmless: treat via the empty group not existing ⇒ show by the loop bound
      exact Or.inr (by
        exfalso
        have hb : ∀ (gs : List Group) (i best fit : Nat), fit < i + gs.length →
            bestLoop common i gs best fit < i + gs.length := by
          intro gs
          induction gs with
          | nil => intro i best fit h; simpa [bestLoop] using h
          | cons a rest ih =>
            intro i best fit h
            simp only [bestLoop, List.length_cons]
            split
            · have := ih (i + 1) ((predictFitAll common a.members).2) i (by omega)
              omega
            · have := ih (i + 1) best fit (by simp only [List.length_cons] at h; omega)
              omega
        have hlt := hb (byLibrary all) 0 0 0 (by omega)
        simp only [Nat.zero_add] at hlt
        rw [List.getElem?_eq_none_iff] at hnone
        omega)

/-! ### the scheduler's adjustment of the free figure (server/sched.go `updateFreeSpace`) -/

/-- **The adjusted free memory never exceeds the reported one.**  For every GPU list (duplicate
    IDs, any total/free figures, free > total included), every set of loaded runners and every
    prediction map (sums wrap mod 2^64 as in the code): the free figure `updateFreeSpace` leaves
    for GPU `i` is at most the one the GPU reported. -/
theorem free_never_raised (gpus : List SGpu) (runners : List Runner) (i : Nat) (g : SGpu) (f : Nat)
    (hg : gpus[i]? = some g) (hf : (updateFree gpus runners)[i]? = some f) : f ≤ g.free := by
  unfold updateFree at hf
  split at hf
  · simp only [List.getElem?_map, hg, Option.map_some, Option.some.injEq] at hf
    subst hf
    exact adjust_le_free _ _
  · simp only [List.getElem?_map, hg, Option.map_some, Option.some.injEq] at hf
    omega

/-- and when some runner is loaded and the prediction does not exceed the total, adjusted free +
    predicted usage ≤ total memory -/
theorem free_within_total (gpus : List SGpu) (runners : List Runner) (i : Nat) (g : SGpu) (f : Nat)
    (hany : runners.any (·.isSome) = true) (hp : predOf gpus runners g.key ≤ g.total)
    (hg : gpus[i]? = some g) (hf : (updateFree gpus runners)[i]? = some f) :
    f + predOf gpus runners g.key ≤ g.total := by
  unfold updateFree at hf
  simp only [hany, ↓reduceIte, List.getElem?_map, hg, Option.map_some, Option.some.injEq] at hf
  subst hf
  exact adjust_le_total _ _ hp

/-- **Composition: estimator on adjusted GPUs ⇒ within the REPORTED free memory.**  If GPU `i`
    of the estimator's input carries the free figure that `updateFreeSpace` left for GPU `j` of
    the reported list (the scheduler filters, groups and sorts the adjusted list before it calls
    the estimator, hence the free correspondence `i ↦ j`), then under the no-wrap guard the size
    planned on it is 0 or `size + overhead ≤` the free memory GPU `j` *reported*. -/
theorem sched_alloc_le_reported (inp : Inp) (hnw : NoWrap inp)
    (rep : List SGpu) (runners : List Runner) (i j : Nat) (g : Gpu) (r : SGpu) (a : Nat)
    (hg : inp.gpus[i]? = some g) (hr : rep[j]? = some r)
    (hadj : (updateFree rep runners)[j]? = some g.free)
    (ha : (estimate inp).sizes[i]? = some a) :
    a = 0 ∨ a + inp.overhead ≤ r.free := by
  have h1 := (alloc_le_free_partial inp hnw i g a hg ha).1
  have h2 := free_never_raised rep runners j r g.free hr hadj
  rcases h1 with h | h
  · exact Or.inl h
  · exact Or.inr (by omega)

/-- **History level: what is planned for the next model plus what was predicted for the loaded
    ones fits in the GPU's total memory.**  Same correspondence as `sched_alloc_le_reported`; some
    runner is loaded and its/their summed prediction for the GPU does not exceed the total. -/
theorem planned_plus_predicted_le_total (inp : Inp) (hnw : NoWrap inp)
    (rep : List SGpu) (runners : List Runner) (i j : Nat) (g : Gpu) (r : SGpu) (a : Nat)
    (hany : runners.any (·.isSome) = true) (hp : predOf rep runners r.key ≤ r.total)
    (hg : inp.gpus[i]? = some g) (hr : rep[j]? = some r)
    (hadj : (updateFree rep runners)[j]? = some g.free)
    (ha : (estimate inp).sizes[i]? = some a) :
    a = 0 ∨ a + inp.overhead + predOf rep runners r.key ≤ r.total := by
  have h1 := (alloc_le_free_partial inp hnw i g a hg ha).1
  have h2 := free_within_total rep runners j r g.free hany hp hr hadj
  rcases h1 with h | h
  · exact Or.inl h
  · exact Or.inr (by omega)

/-- `EstimatedVRAMByGPU` (what feeds the predictions) reports 0 or a size of the estimate -/
theorem vramByGPU_is_planned_size (ids sizes : List Nat) (id : Nat) :
    vramByGPU ids sizes id = 0 ∨
    ∃ k : Nat, ids[k]? = some id ∧ sizes[k]? = some (vramByGPU ids sizes id) :=
  vramByGPU_spec ids sizes id

/-- the seeded change "always trust our numbers" (`FreeMemory = Total - predicted` unconditionally)
    is excluded by `free_never_raised`: with 1000 total, 100 reported free and 300 predicted it would
    hand 700 to the estimator; the code hands 100. Also: predicted > total ⇒ 0; no runner ⇒ unchanged;
    two list entries with the same (Library, ID) count the prediction twice. -/
example :
    updateFree [⟨0, 0, 1000, 100⟩] [some [(0, 300)]] = [100] ∧
    updateFree [⟨0, 0, 1000, 900⟩] [some [(0, 300)]] = [700] ∧
    updateFree [⟨0, 0, 1000, 900⟩] [some [(0, 1300)]] = [0] ∧
    updateFree [⟨0, 0, 1000, 900⟩] [none] = [900] ∧
    updateFree [⟨0, 0, 1000, 900⟩, ⟨0, 0, 1000, 900⟩] [some [(0, 300)]] = [400, 400] := by decide

/-! ### the scheduler's load path (server/sched.go `processPending`, GPU branch) -/

/-- the estimator input `NewLlamaServer` forms for a load decision: the options of parallelism `p`
    on the list `L` in the order it was handed over -/
def loadInp (commonOf : Nat → Inp) (L : List FGpu) (p : Nat) : Inp :=
  { commonOf p with lib := headLib L, gpus := L.map (·.gpu) }

theorem withFree_fields (g : IGpu) (fr : Nat) :
    (g.withFree fr).f.key = g.f.key ∧ (g.withFree fr).f.idk = g.f.idk ∧ (g.withFree fr).f.lib = g.f.lib ∧
    (g.withFree fr).f.gpu.minimum = g.f.gpu.minimum ∧ (g.withFree fr).f.gpu.free = fr ∧
    (g.withFree fr).lkey = g.lkey ∧ (g.withFree fr).total = g.total := by
  simp [IGpu.withFree]

/-- **Soundness of the load decision** (the `i ↦ j` hypothesis of `sched_alloc_le_reported`
    discharged on the model of the glue).  If `processPending` decides to load on `L` with parallelism
    `p`: (1) with other models loaded this is a *full* fit; (2) a full fit places every requested layer
    on `L` in that order; (3) every GPU of `L` is a GPU of the reported inventory (same library key, ID,
    minimum memory) whose free figure was not raised, and — with other models loaded — it survived the
    loading filter and, whenever the summed prediction does not exceed the total, free + predicted ≤ total. -/
theorem load_sound (commonOf : Nat → Inp) (np : Int) (dp : Nat) (spread : Bool)
    (inv : List IGpu) (runners : List LRunner) (full : Bool) (L : List FGpu) (p : Nat)
    (h : loadDecision commonOf np dp spread inv runners = .load full L p) :
    (runners ≠ [] → full = true) ∧
    (full = true → 0 < (estimate (loadInp commonOf L p)).layers ∧
      ((commonOf p).numGPU < 0 → (estimate (loadInp commonOf L p)).layers = (commonOf p).blocks.length + 1) ∧
      (0 ≤ (commonOf p).numGPU → ((estimate (loadInp commonOf L p)).layers : Int) = (commonOf p).numGPU)) ∧
    (∀ m ∈ L, ∃ g ∈ inv, m.key = g.f.key ∧ m.idk = g.f.idk ∧ m.lib = g.f.lib ∧
      m.gpu.minimum = g.f.gpu.minimum ∧ m.gpu.free ≤ g.f.gpu.free ∧
      (runners ≠ [] → g ∈ filterLoading runners inv ∧
        (loadPred inv runners g ≤ g.total → m.gpu.free + loadPred inv runners g ≤ g.total))) := by
  unfold loadDecision at h
  by_cases hemp : runners.isEmpty = true
  · have hnil : runners = [] := List.isEmpty_iff.mp hemp
    simp only [hemp, ↓reduceIte] at h
    have hmemInv : ∀ m ∈ inv.map (·.f), ∃ g ∈ inv, m.key = g.f.key ∧ m.idk = g.f.idk ∧ m.lib = g.f.lib ∧
        m.gpu.minimum = g.f.gpu.minimum ∧ m.gpu.free ≤ g.f.gpu.free ∧
        (runners ≠ [] → g ∈ filterLoading runners inv ∧
          (loadPred inv runners g ≤ g.total → m.gpu.free + loadPred inv runners g ≤ g.total)) := by
      intro m hm
      obtain ⟨g, hg, rfl⟩ := List.mem_map.mp hm
      exact ⟨g, hg, rfl, rfl, rfl, rfl, Nat.le_refl _, fun hne => absurd hnil hne⟩
    cases hpf : pickFull commonOf np dp spread (inv.map (·.f)) with
    | some r =>
      obtain ⟨l, q⟩ := r
      rw [hpf] at h
      simp only [Decision.load.injEq] at h
      obtain ⟨hf, hl, hq⟩ := h
      subst hl; subst hq
      have hff := full_fit_places_all commonOf np dp spread _ l q hpf
      refine ⟨fun _ => hf.symm, fun _ => hff.2.2.2.2.2, fun m hm => hmemInv m (hff.2.2.1 m hm)⟩
    | none =>
      rw [hpf] at h
      simp only [Decision.load.injEq] at h
      obtain ⟨hf, hl, _⟩ := h
      refine ⟨fun hne => absurd hnil hne, ?_, ?_⟩
      · intro ht; rw [← hf] at ht; cases ht
      intro m hm
      rw [← hl] at hm
      rcases pickPartial_is_group (commonOf (if np ≤ 0 then 1 else np.toNat)) (inv.map (·.f)) with he | ⟨g, hg, he⟩
      · rw [he] at hm; exact hmemInv m hm
      · rw [he] at hm; exact hmemInv m (byLibrary_mem _ g hg m hm)
  · have hne : runners ≠ [] := fun hn => hemp (by simp [hn])
    simp only [hemp, Bool.false_eq_true, ↓reduceIte] at h
    cases hpf : pickFull commonOf np dp spread ((adjInv inv runners).map (·.f)) with
    | none =>
      rw [hpf] at h
      simp only at h
      split at h <;> cases h
    | some r =>
      obtain ⟨l, q⟩ := r
      rw [hpf] at h
      simp only [Decision.load.injEq] at h
      obtain ⟨hf, hl, hq⟩ := h
      subst hl; subst hq
      have hff := full_fit_places_all commonOf np dp spread _ l q hpf
      refine ⟨fun _ => hf.symm, fun _ => hff.2.2.2.2.2, ?_⟩
      intro m hm
      obtain ⟨a, ha, rfl⟩ := List.mem_map.mp (hff.2.2.1 m hm)
      obtain ⟨g, hg, fr, rfl, hle, htot⟩ := adjInv_mem inv runners hne a ha
      obtain ⟨h1, h2, h3, h4, h5, _, _⟩ := withFree_fields g fr
      refine ⟨g, (filterLoading_sublist runners inv).subset hg, h1, h2, h3, h4, by rw [h5]; exact hle,
        fun _ => ⟨hg, fun hp => by rw [h5]; exact htot hp⟩⟩

/-- **What is planned for the new model fits into what the GPU reported, and — together with what
    was predicted for the loaded models — into the GPU's total memory.**  For a load decision and the
    estimate `NewLlamaServer` computes for it (under the no-wrap guard): the size `a` planned on the
    `i`-th GPU of the list is 0, or `a + overhead ≤` the free memory that GPU **reported** in the
    inventory; and with other models loaded, `a + overhead + predicted ≤ total` whenever the summed
    prediction is within the total (and the GPU survived the loading filter).  No correspondence
    hypothesis: the GPU is found in the inventory. -/
theorem load_alloc_within_reported (commonOf : Nat → Inp) (np : Int) (dp : Nat) (spread : Bool)
    (inv : List IGpu) (runners : List LRunner) (full : Bool) (L : List FGpu) (p : Nat)
    (h : loadDecision commonOf np dp spread inv runners = .load full L p)
    (hnw : NoWrap (loadInp commonOf L p)) (i : Nat) (m : FGpu) (a : Nat)
    (hm : L[i]? = some m) (ha : (estimate (loadInp commonOf L p)).sizes[i]? = some a) :
    ∃ g ∈ inv, m.idk = g.f.idk ∧ m.key = g.f.key ∧
      (a = 0 ∨ a + (commonOf p).overhead ≤ g.f.gpu.free) ∧
      (runners ≠ [] → g ∈ filterLoading runners inv ∧ (loadPred inv runners g ≤ g.total →
        a = 0 ∨ a + (commonOf p).overhead + loadPred inv runners g ≤ g.total)) := by
  obtain ⟨_, _, hmem⟩ := load_sound commonOf np dp spread inv runners full L p h
  obtain ⟨g, hg, hk, hid, _, _, hfree, hrest⟩ := hmem m (List.mem_of_getElem? hm)
  have hgi : (loadInp commonOf L p).gpus[i]? = some m.gpu := by
    simp [loadInp, List.getElem?_map, hm]
  have hal := (alloc_le_free_partial (loadInp commonOf L p) hnw i m.gpu a hgi ha).1
  have hov : (loadInp commonOf L p).overhead = (commonOf p).overhead := rfl
  rw [hov] at hal
  refine ⟨g, hg, hid, hk, ?_, ?_⟩
  · rcases hal with h0 | h1
    · exact Or.inl h0
    · exact Or.inr (by omega)
  · intro hne
    refine ⟨(hrest hne).1, fun hp => ?_⟩
    have := (hrest hne).2 hp
    rcases hal with h0 | h1
    · exact Or.inl h0
    · exact Or.inr (by omega)

/-- **A model is never placed on a GPU on which another model is still loading** (unique GPU IDs in
    the inventory; other models loaded) -/
theorem load_not_on_loading_gpu (commonOf : Nat → Inp) (np : Int) (dp : Nat) (spread : Bool)
    (inv : List IGpu) (runners : List LRunner) (full : Bool) (L : List FGpu) (p : Nat)
    (h : loadDecision commonOf np dp spread inv runners = .load full L p)
    (hids : (idsOf inv).Nodup) (r : LRunner) (hr : r ∈ runners) (hld : r.loading = true)
    (id : Nat) (hid : id ∈ r.ids) : ∀ m ∈ L, m.idk ≠ id := by
  intro m hm
  have hne : runners ≠ [] := List.ne_nil_of_mem hr
  obtain ⟨_, _, hmem⟩ := load_sound commonOf np dp spread inv runners full L p h
  obtain ⟨g, _, _, hidk, _, _, _, hrest⟩ := hmem m hm
  rw [hidk]
  exact filterLoading_gone runners inv hids r hr hld id hid g (hrest hne).1

/-- `processPending` forces `numParallel = 1` for embedding models and for the mllama family -/
theorem effParallel_forced (np : Int) (mllama embed : Bool) (h : mllama = true ∨ embed = true) :
    effParallel np mllama embed = 1 := by
  unfold effParallel
  rcases h with h | h
  · subst h
    by_cases he : embed = true
    · simp [he]
    · by_cases hn : np = 1
      · simp [he, hn]
      · simp [he, hn]
  · simp [h]


/-- **The estimator is never called on an empty list by the load path** (`gpus[0]` would panic): a load
    decision on a non-empty inventory names a non-empty list -/
theorem load_list_nonempty (commonOf : Nat → Inp) (np : Int) (dp : Nat) (spread : Bool)
    (inv : List IGpu) (runners : List LRunner) (full : Bool) (L : List FGpu) (p : Nat)
    (hinv : inv ≠ []) (h : loadDecision commonOf np dp spread inv runners = .load full L p) : L ≠ [] := by
  unfold loadDecision at h
  by_cases hemp : runners.isEmpty = true
  · simp only [hemp, ↓reduceIte] at h
    cases hpf : pickFull commonOf np dp spread (inv.map (·.f)) with
    | some r =>
      obtain ⟨l, q⟩ := r
      rw [hpf] at h
      simp only [Decision.load.injEq] at h
      obtain ⟨_, hl, hq⟩ := h
      subst hl; subst hq
      exact (full_fit_places_all commonOf np dp spread _ l q hpf).2.1
    | none =>
      rw [hpf] at h
      simp only [Decision.load.injEq] at h
      obtain ⟨_, hl, _⟩ := h
      rw [← hl]
      have hne : inv.map (·.f) ≠ [] := by
        intro hn
        exact hinv (List.map_eq_nil_iff.mp hn)
      rcases pickPartial_is_group (commonOf (if np ≤ 0 then 1 else np.toNat)) (inv.map (·.f)) with he | ⟨g, hg, he⟩
      · rw [he]; exact hne
      · rw [he]; exact (byLibrary_partition _).2.1 g hg
  · simp only [hemp, Bool.false_eq_true, ↓reduceIte] at h
    cases hpf : pickFull commonOf np dp spread ((adjInv inv runners).map (·.f)) with
    | none =>
      rw [hpf] at h
      simp only at h
      split at h <;> cases h
    | some r =>
      obtain ⟨l, q⟩ := r
      rw [hpf] at h
      simp only [Decision.load.injEq] at h
      obtain ⟨_, hl, hq⟩ := h
      subst hl; subst hq
      exact (full_fit_places_all commonOf np dp spread _ l q hpf).2.1


/-! ### the CPU branch -/

/-- **CPU mode: next to loaded models a model is started only if its whole requirement fits into the
    free system memory**, and the estimate it is judged by offloads nothing (`cpu_zero`) -/
theorem cpu_load_within_system_memory (commonOf : Nat → Inp) (np : Int) (dp : Nat) (g : FGpu) (n : Nat)
    (full : Bool) (L : List FGpu) (p : Nat) (hlib : g.lib = Lib.cpu) (hn : n ≠ 0)
    (h : cpuDecision commonOf np dp g n = .load full L p) :
    L = [g] ∧ p = cpuParallel np dp ∧
    (estimate { commonOf p with lib := g.lib, gpus := [g.gpu] }).total ≤ g.gpu.free ∧
    (estimate { commonOf p with lib := g.lib, gpus := [g.gpu] }).layers = 0 := by
  unfold cpuDecision at h
  have hn' : (n == 0) = false := by simp [hn]
  simp only [hn', Bool.false_eq_true, ↓reduceIte] at h
  split at h
  · rename_i hle
    simp only [Decision.load.injEq] at h
    obtain ⟨_, hl, hp⟩ := h
    subst hl; subst hp
    exact ⟨rfl, rfl, hle, (cpu_zero _ hlib).1⟩
  · cases h

/-! ### every reachable state of the load path -/

/-- a request for a model that is not loaded, with the inventory reported at that moment -/
structure Req where
  commonOf : Nat → Inp
  np : Int
  dp : Nat
  spread : Bool
  inv : List IGpu

/-- what happens to the set of loaded runners -/
inductive Ev
  | request (r : Req)      -- `processPending` handles a request (GPU branch, model not loaded)
  | finished (k : Nat)     -- runner `k` finishes loading
  | unloaded (k : Nat)     -- runner `k` is unloaded (expired or evicted)

/-- the runner `Scheduler.load` installs: still loading, provisioned on `L`, predicted per-GPU sizes
    = the estimate `NewLlamaServer` computes on `L` -/
def newRunner (r : Req) (L : List FGpu) (p : Nat) : LRunner :=
  ⟨true, L.map (·.idk), (estimate (loadInp r.commonOf L p)).sizes⟩

def stepEv (rs : List LRunner) : Ev → List LRunner
  | .request r =>
    match loadDecision r.commonOf r.np r.dp r.spread r.inv rs with
    | .load _ L p => rs ++ [newRunner r L p]
    | _ => rs
  | .finished k => finishAt k rs
  | .unloaded k => rs.eraseIdx k

def runEvs (rs : List LRunner) (es : List Ev) : List LRunner := es.foldl stepEv rs

/-- what a request must satisfy in state `rs`: unique GPU IDs (so that the `(Library, ID)` classes
    are the ID classes), every GPU's total memory is the fixed `totalOf id` and the reported free
    memory does not exceed it, and the estimate of the decision meets the no-wrap guard -/
def ReqOk (totalOf : Nat → Nat) (rs : List LRunner) (r : Req) : Prop :=
  (idsOf r.inv).Nodup ∧
  (∀ g ∈ r.inv, g.lkey = g.f.idk ∧ g.total = totalOf g.f.idk ∧ g.f.gpu.free ≤ g.total) ∧
  (∀ full L p, loadDecision r.commonOf r.np r.dp r.spread r.inv rs = .load full L p →
    NoWrap (loadInp r.commonOf L p))

def HistOk (totalOf : Nat → Nat) : List LRunner → List Ev → Prop
  | _, [] => True
  | rs, e :: es =>
    (match e with
      | .request r => ReqOk totalOf rs r
      | _ => True) ∧ HistOk totalOf (stepEv rs e) es

theorem step_request_within_total (totalOf : Nat → Nat) (htot : ∀ id, totalOf id < W)
    (rs : List LRunner) (r : Req) (hinv : ∀ id, usedOn rs id ≤ totalOf id) (hok : ReqOk totalOf rs r) :
    ∀ id, usedOn (stepEv rs (.request r)) id ≤ totalOf id := by
  intro id
  obtain ⟨hnd, hgs, hnw⟩ := hok
  simp only [stepEv]
  cases hd : loadDecision r.commonOf r.np r.dp r.spread r.inv rs with
  | evict => exact hinv id
  | delay => exact hinv id
  | load full L p =>
    simp only
    rw [usedOn_append]
    have hspec := vramByGPU_spec (newRunner r L p).ids (newRunner r L p).sizes id
    have hids : (newRunner r L p).ids = L.map (·.idk) := rfl
    have hsz : (newRunner r L p).sizes = (estimate (loadInp r.commonOf L p)).sizes := rfl
    generalize vramByGPU (newRunner r L p).ids (newRunner r L p).sizes id = v at hspec ⊢
    rw [hids, hsz] at hspec
    rcases hspec with h0 | ⟨k, hk1, hk2⟩
    · rw [h0]; exact hinv id
    · simp only [List.getElem?_map] at hk1
      cases hm : L[k]? with
      | none => rw [hm] at hk1; simp at hk1
      | some m =>
        rw [hm] at hk1
        simp only [Option.map_some, Option.some.injEq] at hk1
        obtain ⟨g, hg, hid, _, hfree, hrest⟩ := load_alloc_within_reported r.commonOf r.np r.dp r.spread r.inv rs
          full L p hd (hnw full L p hd) k m v hm hk2
        obtain ⟨hlk, htt, hft⟩ := hgs g hg
        have hidg : g.f.idk = id := by rw [← hid]; exact hk1
        by_cases hemp : rs = []
        · subst hemp
          have : usedOn [] id = 0 := rfl
          rw [this]
          rw [hidg] at htt
          rcases hfree with h | h <;> omega
        · obtain ⟨hav, hpred⟩ := hrest hemp
          have hlt : usedOn rs g.f.idk < W := by
            rw [hidg]; exact Nat.lt_of_le_of_lt (hinv id) (htot id)
          have hpe := loadPred_eq_usedOn r.inv rs g hnd (fun x hx => (hgs x hx).1) hav hlt
          rw [hidg] at hpe htt
          have hple : loadPred r.inv rs g ≤ g.total := by rw [hpe, htt]; exact hinv id
          rcases hpred hple with h | h <;> omega

/-- **Every reachable state: the loaded models together are never planned beyond a GPU's total
    memory.**  Start from any state in which, for every GPU ID, the sizes the loaded runners' estimates
    plan on it sum to at most its total memory (e.g. nothing loaded).  After ANY history of requests
    (each handled by `processPending`'s GPU branch: first model — full or partial fit on the reported
    figures; further models — loading filter, `updateFreeSpace`, full fit only), completions of loads
    and unloads, in which every request is well-formed (`ReqOk`: unique GPU IDs, fixed totals,
    reported free ≤ total, no-wrap guard of the estimate that is loaded), the same holds again. -/
theorem history_within_total (totalOf : Nat → Nat) (htot : ∀ id, totalOf id < W) :
    ∀ (es : List Ev) (rs : List LRunner), (∀ id, usedOn rs id ≤ totalOf id) → HistOk totalOf rs es →
      ∀ id, usedOn (runEvs rs es) id ≤ totalOf id := by
  intro es
  induction es with
  | nil => intro rs h _; exact h
  | cons e rest ih =>
    intro rs hinv hok
    obtain ⟨he, hrest⟩ := hok
    simp only [runEvs, List.foldl_cons]
    apply ih (stepEv rs e) _ hrest
    cases e with
    | request r => exact step_request_within_total totalOf htot rs r hinv he
    | finished k => intro id; simp only [stepEv]; rw [finishAt_usedOn]; exact hinv id
    | unloaded k => intro id; simp only [stepEv]; exact Nat.le_trans (eraseIdx_usedOn_le id rs k) (hinv id)

theorem history_from_empty (totalOf : Nat → Nat) (htot : ∀ id, totalOf id < W) (es : List Ev)
    (hok : HistOk totalOf [] es) : ∀ id, usedOn (runEvs [] es) id ≤ totalOf id :=
  history_within_total totalOf htot es [] (fun _ => Nat.zero_le _) hok


/-! ### `GGML.GraphSize` inside the model -/

/-- **`GraphSize` returns one KV figure per block** (the estimator indexes `kv[i]` for every block
    that has tensors; a shorter slice would panic), for every architecture and every input -/
theorem graphSize_kv_length (m : GMeta) (context batch p kvct : Nat) :
    (graphSize m context batch p kvct).1.length = m.blocks := by
  unfold graphSize kvOf
  simp only
  cases m.arch <;> simp

/-- for figures below 2^53 (8 PiB) the float64 detour is exact: the default (f16) cache costs exactly
    2 bytes per element, q8_0 one, q4_0 half (rounded down) -/
theorem kvBytes_exact (x : Nat) (h : x < 9007199254740992) :
    kvBytes 0 x = 2 * x ∧ kvBytes 1 x = x ∧ kvBytes 2 x = x / 2 := by
  have hr : roundF64 x = x := by unfold roundF64; simp [h]
  unfold kvBytes toU64
  simp only [hr]
  refine ⟨?_, ?_, ?_⟩
  · split <;> omega
  · split <;> omega
  · split <;> omega

/-- the estimator's input with the `GraphSize` part computed by the model from the file-level data:
    `weights[i]` = size of `blk.i` if it has tensors -/
def inpOfGraph (base : Inp) (m : GMeta) (weights : List (Option Nat)) (context batch p kvct : Nat) : Inp :=
  { base with
    blocks := weights.zip (graphSize m context batch p kvct).1
    graphPartial := (graphSize m context batch p kvct).2.1
    graphFull := (graphSize m context batch p kvct).2.2
    gqa := m.heads / m.headsKV }

/-- with `GraphSize` inside the model the layer bound reads in file terms: never more layers than
    `block_count + 1` -/
theorem layers_le_block_count (base : Inp) (m : GMeta) (weights : List (Option Nat)) (context batch p kvct : Nat)
    (hw : weights.length = m.blocks) :
    (estimate (inpOfGraph base m weights context batch p kvct)).layers ≤ m.blocks + 1 := by
  have h := (layers_le (inpOfGraph base m weights context batch p kvct)).1
  have hl : (inpOfGraph base m weights context batch p kvct).blocks.length = m.blocks := by
    simp [inpOfGraph, List.length_zip, graphSize_kv_length, hw]
  rw [hl] at h
  exact h

/-- a 4-block llama-shaped file: 4096-wide, 32 heads, 8 KV heads, vocabulary 32000 -/
def exMeta : GMeta :=
  { arch := .llama, blocks := 4, embedding := 4096, heads := 32, headsKV := 8, keyLen := none, valLen := none,
    vocab := 32000, ffnGateExps := none, ff := 0, ffnGate1 := none, cross := [], ropeFreqs := 0, sliding := 0,
    qkvBias := none }

/-- non-vacuity / sanity: context 2048, batch 512: 8 MiB of f16 KV cache per layer (2048·(128+128)·8·2),
    half of it with q8_0; the two graph figures the real `GraphSize` returns for this file -/
example : (graphSize exMeta 2048 512 1 0).1 = [8388608, 8388608, 8388608, 8388608] ∧
    (graphSize exMeta 2048 512 1 1).1 = [4194304, 4194304, 4194304, 4194304] ∧
    (graphSize exMeta 2048 512 1 0).2 = (189833216, 171968512) ∧
    roundF64 9007199254740993 = 9007199254740992 ∧ roundF64 9007199254740995 = 9007199254740996 := by decide


/-! ### projector / vision figures -/

/-- **`projectorMemoryRequirements` panics exactly on an mllama projector file without a (non-zero)
    `vision.patch_size`** (integer division by zero, reached from `EstimateGPULayers` for every request
    that names that projector); on every other decodable file it returns -/
theorem projReq_panics_iff (m : VMeta) : projReq m = none ↔ (m.mllama = true ∧ m.patchSize = 0) := by
  unfold projReq
  simp only
  by_cases h1 : m.mllama = true
  · by_cases h2 : m.patchSize = 0
    · simp [h1, h2]
    · simp [h1, h2]
  · simp [h1]

/-- `VisionGraphSize` reports nothing for a model without vision blocks, and never panics (the zero patch
    size is tested before the division) -/
theorem visionGraphSize_no_blocks (m : VMeta) (h : m.visionBlocks = 0) : visionGraphSize m = (0, 0) := by
  unfold visionGraphSize
  simp [h]

/-- mllama vision tower 560 px / patch 14 / 4 tiles: 1601 patches with the class embedding, padded to 1608 -/
example : numPatches ⟨true, false, 32, [], 560, 14, 3, 4, 1280, 16, true⟩ = 1601 ∧ paddedPatches 1601 = 1608 ∧
    projReq ⟨true, false, 32, [100, 28], 560, 14, 3, 4, 1280, 16, true⟩ = some (128, 2991947808) ∧
    projReq ⟨true, false, 32, [100, 28], 560, 0, 3, 4, 1280, 16, true⟩ = none := by decide

/-! ### witnesses and non-vacuity -/

/-- a one-block model on one GPU with 100 bytes free; `overhead` is the parameter -/
def w1 (overhead : Nat) : Inp :=
  { lib := .other, gpus := [⟨100, 0⟩], overhead := overhead, projs := [], vision := (0, 0),
    blk0 := some 10, blocks := [(some 10, 0)], graphPartial := 1, graphFull := 1, gqa := 1,
    outNorm := none, output := none, tokenEmbd := none, numGPU := -1 }

/-- **Witness of finding W1.**  `OLLAMA_GPU_OVERHEAD = 2^64 - 10`: the admission sum and the
    placement sum wrap around, the GPU is admitted and gets the layer: 21 bytes planned on a GPU
    whose free memory (100) is far below the overhead alone.  With overhead 50 the same model
    behaves (21 + 50 ≤ 100); with overhead 90 nothing is placed. -/
theorem W1_overhead_wraps :
    (estimate (w1 18446744073709551606)).sizes = [21] ∧
    (estimate (w1 18446744073709551606)).layers = 1 ∧
    ¬ (21 + (w1 18446744073709551606).overhead ≤ 100) ∧
    ¬ NoWrap (w1 18446744073709551606) ∧
    (estimate (w1 50)).sizes = [21] ∧ NoWrap (w1 50) ∧
    (estimate (w1 90)).layers = 0 := by decide

/-! ### the fixed variant (proposed fix C16-W1): the overhead is in no sum -/

/-- In the fixed variant the guard does not depend on the overhead at all. -/
theorem noWrap_fixed_any_overhead (inp : Inp) (hv : inp.ovSafe = true) (o : Nat) :
    NoWrap inp ↔ NoWrap { inp with overhead := o } := by
  have hc : mkCore { inp with overhead := o } = { mkCore inp with overhead := o } := by
    simp [mkCore, projTotals, graphs, layer0, memOut, kvTotal]
  have hvc : (mkCore inp).ovSafe = true := by rw [mkCore_ovSafe]; exact hv
  unfold NoWrap RoomAll
  rw [hc]
  simp only [Room, hvc, ↓reduceIte, lastLayer, Core.maxg]

/-- **Fixed variant: the allocation clause for every overhead.**  With fix C16-W1 applied, if the
    remaining sums (`gzo + max(gP,gF) + minimum + 2*layer0 + free + L`, none of which contains the
    overhead) stay below 2^64 for overhead 0, then for *every* value of `OLLAMA_GPU_OVERHEAD` each
    reported size is 0 or `size + overhead ≤ free`. -/
theorem alloc_le_free_fixed (inp : Inp) (hv : inp.ovSafe = true)
    (hnw : NoWrap { inp with overhead := 0 }) (i : Nat) (g : Gpu) (a : Nat)
    (hg : inp.gpus[i]? = some g) (ha : (estimate inp).sizes[i]? = some a) :
    (a = 0 ∨ a + inp.overhead ≤ g.free) ∧
    (∀ n, (planCounts inp)[i]? = some n → 0 < n → a + inp.overhead < g.free) := by
  have h : NoWrap inp := by
    have := (noWrap_fixed_any_overhead { inp with overhead := 0 } hv inp.overhead).mp hnw
    exact this
  exact alloc_le_free_partial inp h i g a hg ha

/-- the W1 input under the fixed variant: nothing is planned, for the wrapping overhead too -/
theorem W1_fixed_variant :
    (estimate { w1 18446744073709551606 with ovSafe := true }).layers = 0 ∧
    (estimate { w1 18446744073709551606 with ovSafe := true }).sizes = [] ∧
    NoWrap { w1 18446744073709551606 with ovSafe := true } ∧
    (estimate { w1 50 with ovSafe := true }).sizes = [21] := by decide

/-- 10 blocks of 10 bytes, one GPU with 100 bytes free, partial-offload graph figure 2^64 - 15 -/
def w2 : Inp :=
  { lib := .other, gpus := [⟨100, 0⟩], overhead := 0, projs := [], vision := (0, 0),
    blk0 := some 10, blocks := List.replicate 10 (some 10, 0), graphPartial := 18446744073709551601,
    graphFull := 1, gqa := 1, outNorm := none, output := none, tokenEmbd := none, numGPU := -1,
    ovSafe := true }

/-- **The remaining guard is needed after the fix.**  A graph-size figure near 2^64 (reachable
    only through wrapped `GraphSize` arithmetic, e.g. an absurd `num_ctx`) makes the admission sum
    `gzo+graph+min+2*layer` and every placement sum `used+layer` wrap: all 10 layers go to a GPU
    with 100 bytes free (111 bytes planned), in the fixed variant as well as in the pinned one. -/
theorem W2_graph_wraps_fixed :
    (estimate w2).layers = 10 ∧ (estimate w2).sizes = [111] ∧ ¬ NoWrap w2 ∧
    (estimate { w2 with ovSafe := false }).sizes = [111] := by decide

/-- two GPUs; the second reports a minimum-memory figure of 2^64 - 15 and 100 bytes free -/
def w3 : Inp :=
  { lib := .other, gpus := [⟨1000, 0⟩, ⟨100, 18446744073709551601⟩], overhead := 0, projs := [],
    vision := (0, 0), blk0 := some 10, blocks := [(some 10, 0)], graphPartial := 1, graphFull := 1,
    gqa := 1, outNorm := none, output := none, tokenEmbd := none, numGPU := -1, ovSafe := true }

/-- **Witness of finding W2 (remaining wrap-around after fix C16-W1).**  A GPU minimum-memory
    figure near 2^64 makes the admission requirement `gzo+graph+minimum+2*layer` wrap to 6: the
    GPU (100 bytes free) is admitted and reported with `minimum + layer = 2^64 - 5` bytes planned
    (no layer lands on it; the layer goes to the other GPU). -/
theorem W3_minimum_wraps_fixed :
    (estimate w3).layers = 1 ∧ (estimate w3).split = some [1, 0] ∧
    (estimate w3).sizes = [21, 18446744073709551611] ∧ ¬ NoWrap w3 := by decide

/-- a two-GPU, three-block model with an output layer, uneven layers -/
def ex2 : Inp :=
  { lib := .other, gpus := [⟨400, 10⟩, ⟨150, 5⟩], overhead := 7, projs := [(3, 2)], vision := (0, 0),
    blk0 := some 20, blocks := [(some 20, 4), (none, 4), (some 31, 4)], graphPartial := 9,
    graphFull := 6, gqa := 1, outNorm := some 1, output := some 12, tokenEmbd := some 50,
    numGPU := -1 }

/-- non-vacuity: the guard holds for a non-trivial input on which layers are spread over both
    GPUs, and the theorems' hypotheses (`sizes[i]? = some a`, `split = some l`) are met -/
example : NoWrap ex2 ∧ (estimate ex2).layers = 4 ∧ (estimate ex2).split = some [2, 2] ∧
    (estimate ex2).sizes = [107, 75] ∧ (estimate ex2).vram = 182 ∧ (estimate ex2).total = 182 ∧
    predictFit ex2 [(.other, ex2.gpus)] = (true, 182) := by decide



/-- `ex2` in the variant /repo implements (fix C16-W1 applied) -/
def ex2f : Inp := { ex2 with ovSafe := true }

/-- same model, second GPU with 80 B free: it is admitted, takes one layer and then drops out of the
    round-robin (uneven split) -/
def ex3 : Inp := { ex2f with gpus := [⟨400, 10⟩, ⟨80, 5⟩] }

/-- second GPU with 60 B free: not admitted at all (size 0, no layers) -/
def ex5 : Inp := { ex2f with gpus := [⟨400, 10⟩, ⟨60, 5⟩] }

/-- non-vacuity in the tree's variant: the guard holds, layers are spread; a GPU dropping out mid-loop;
    a GPU that is not admitted (the `a = 0` disjunct of `alloc_le_free_partial`) -/
example : NoWrap ex2f ∧ (estimate ex2f).sizes = [107, 75] ∧ (estimate ex2f).split = some [2, 2] ∧
    NoWrap ex3 ∧ (estimate ex3).sizes = [120, 62] ∧ (estimate ex3).split = some [3, 1] ∧ (estimate ex3).layers = 4 ∧
    NoWrap ex5 ∧ (estimate ex5).sizes = [144, 0] ∧ (estimate ex5).split = some [4, 0] := by decide

/-- **Witness of finding N1.**  `num_gpu = 1` on the 4-layer model `ex2f`: `PredictServerFit` answers
    "fits" (VRAM 101 B) although 1 of 4 layers is placed and 70 B of the requirement stay outside the
    GPUs (`TotalSize 171 > VRAMSize 101`).  The guard of `fit_only_if_every_layer_placed_partial`
    excludes exactly this class (`0 ≤ num_gpu < blocks+1`); `num_gpu = 4` and auto place all 4. -/
theorem N1_fit_with_partial_offload :
    predictFit { ex2f with numGPU := 1 } [(.other, ex2f.gpus)] = (true, 101) ∧
    (estimate { ex2f with numGPU := 1 }).layers = 1 ∧ ex2f.blocks.length + 1 = 4 ∧
    (estimate { ex2f with numGPU := 1 }).total = 171 ∧
    predictFit { ex2f with numGPU := 4 } [(.other, ex2f.gpus)] = (true, 182) ∧
    (estimate { ex2f with numGPU := 4 }).layers = 4 := by decide

/-- two GPUs (500 / 400 B total, 400 / 150 B reported free) -/
def exInv : List IGpu :=
  [⟨⟨0, 0, .other, ⟨400, 10⟩⟩, 0, 500⟩, ⟨⟨0, 1, .other, ⟨150, 5⟩⟩, 1, 400⟩]

/-- the list the load path settles on for `exInv` with a runner predicted to use 200 B of GPU 0,
    `OLLAMA_SCHED_SPREAD` set: GPU 0 with its free figure lowered to 300, then GPU 1 -/
def exL : List FGpu := [⟨0, 0, .other, ⟨300, 10⟩⟩, ⟨0, 1, .other, ⟨150, 5⟩⟩]

/-- non-vacuity of the load-path theorems: first model (auto parallel: 4 fits on GPU 0); a loaded
    runner lowers GPU 0 to 300 and, with spread, both GPUs are used; the same runner still loading
    while another one fills GPU 1: requeue; predictions that leave too little: evict -/
example :
    loadDecision (fun _ => ex2f) 0 4 false exInv [] = .load true [⟨0, 0, .other, ⟨400, 10⟩⟩] 4 ∧
    loadDecision (fun _ => ex2f) 1 4 true exInv [⟨false, [0], [200]⟩] = .load true exL 1 ∧
    loadPred exInv [⟨false, [0], [200]⟩] ⟨⟨0, 0, .other, ⟨400, 10⟩⟩, 0, 500⟩ = 200 ∧
    NoWrap (loadInp (fun _ => ex2f) exL 1) ∧ (estimate (loadInp (fun _ => ex2f) exL 1)).sizes = [107, 75] ∧
    loadDecision (fun _ => ex2f) 1 4 false exInv [⟨true, [0], [200]⟩, ⟨false, [1], [300]⟩] = .delay ∧
    loadDecision (fun _ => ex2f) 1 4 false exInv [⟨false, [0, 1], [450, 350]⟩] = .evict ∧
    effParallel 4 true false = 1 ∧ effParallel 0 false false = 0 := by decide

/-- `load_alloc_within_reported` instantiated on that decision: 107 B planned on GPU 0 — within the
    400 B it reported and, with the 200 B predicted for the loaded model, within its 500 B total -/
example : ∃ g ∈ exInv, g.f.idk = 0 ∧ (107 + ex2f.overhead ≤ g.f.gpu.free) ∧
    (107 + ex2f.overhead + loadPred exInv [⟨false, [0], [200]⟩] g ≤ g.total) := by
  have hd : loadDecision (fun _ => ex2f) 1 4 true exInv [⟨false, [0], [200]⟩] = .load true exL 1 := by decide
  have hnw : NoWrap (loadInp (fun _ => ex2f) exL 1) := by decide
  obtain ⟨g, hg, hid, _, h1, h2'⟩ := load_alloc_within_reported (fun _ => ex2f) 1 4 true exInv
    [⟨false, [0], [200]⟩] true exL 1 hd hnw 0 ⟨0, 0, .other, ⟨300, 10⟩⟩ 107 (by decide) (by decide)
  have hg0 : g = ⟨⟨0, 0, .other, ⟨400, 10⟩⟩, 0, 500⟩ := by
    simp only [exInv, List.mem_cons, List.not_mem_nil, or_false] at hg
    rcases hg with rfl | rfl
    · rfl
    · simp at hid
  subst hg0
  have hp : loadPred exInv [⟨false, [0], [200]⟩] ⟨⟨0, 0, .other, ⟨400, 10⟩⟩, 0, 500⟩ ≤ 500 := by decide
  refine ⟨_, hg, rfl, ?_, ?_⟩
  · rcases h1 with h | h
    · omega
    · exact h
  · rcases (h2' (by simp)).2 hp with h | h
    · omega
    · exact h


/-- a history on `exInv` (totals 500 / 400 B): a first model is loaded with spread on both GPUs, its
    load completes, a second copy is requested while the GPUs still report 400 / 150 B free -/
def exHist : List Ev :=
  [.request ⟨fun _ => ex2f, 1, 4, true, exInv⟩, .finished 0, .request ⟨fun _ => ex2f, 1, 4, true, exInv⟩]

def exTotal (id : Nat) : Nat := if id = 0 then 500 else 400

/-- non-vacuity of `history_within_total`: the history is well-formed (`HistOk`), both models end up
    loaded on both GPUs (the second on a free figure of GPU 0 lowered from 400 to 393), and the sums
    planned per GPU (214 and 150 B) are within the totals -/
example : HistOk exTotal [] exHist ∧ (runEvs [] exHist).length = 2 ∧
    usedOn (runEvs [] exHist) 0 = 214 ∧ usedOn (runEvs [] exHist) 1 = 150 := by
  have hinvOk : (idsOf exInv).Nodup ∧
      (∀ g ∈ exInv, g.lkey = g.f.idk ∧ g.total = exTotal g.f.idk ∧ g.f.gpu.free ≤ g.total) := by
    refine ⟨by decide, ?_⟩
    intro g hg
    simp only [exInv, List.mem_cons, List.not_mem_nil, or_false] at hg
    rcases hg with rfl | rfl <;> decide
  refine ⟨⟨⟨hinvOk.1, hinvOk.2, ?_⟩, ⟨trivial, ⟨⟨hinvOk.1, hinvOk.2, ?_⟩, trivial⟩⟩⟩, by decide, by decide, by decide⟩
  · intro full L p h
    have hd : loadDecision (fun _ => ex2f) 1 4 true exInv []
        = .load true [⟨0, 0, .other, ⟨400, 10⟩⟩, ⟨0, 1, .other, ⟨150, 5⟩⟩] 1 := by decide
    rw [hd] at h
    simp only [Decision.load.injEq] at h
    obtain ⟨_, rfl, rfl⟩ := h
    decide
  · intro full L p h
    have hd : loadDecision (fun _ => ex2f) 1 4 true exInv
        (stepEv (stepEv [] (.request ⟨fun _ => ex2f, 1, 4, true, exInv⟩)) (.finished 0))
        = .load true [⟨0, 0, .other, ⟨393, 10⟩⟩, ⟨0, 1, .other, ⟨150, 5⟩⟩] 1 := by decide
    rw [hd] at h
    simp only [Decision.load.injEq] at h
    obtain ⟨_, rfl, rfl⟩ := h
    decide


/-- non-vacuity of `noWrap_of_small_raw`: its raw-input hypotheses hold for `ex3` -/
example : NoWrap ex3 :=
  noWrap_of_small_raw ex3 (by decide) (by decide) (by decide) (by decide) (by decide) (by decide) (by decide)
    (by decide) (by decide)

/-- one GPU, partial graph 9 > full graph 6, everything placed: 5 bytes of the reservation are not charged -/
example : (estimate { ex2f with gpus := [⟨400, 10⟩] }).graph = 6 ∧ (mkCore { ex2f with gpus := [⟨400, 10⟩] }).maxg = 9 ∧
    (estimate { ex2f with gpus := [⟨400, 10⟩] }).sizes = [141] ∧ NoWrap { ex2f with gpus := [⟨400, 10⟩] } := by decide


/-- non-vacuity of the CPU-branch theorem: first model; fits next to two loaded ones; does not fit ⇒ evict -/
example : cpuDecision (fun _ => ex2f) 0 4 ⟨0, 0, .cpu, ⟨1000, 0⟩⟩ 0 = .load false [⟨0, 0, .cpu, ⟨1000, 0⟩⟩] 4 ∧
    cpuDecision (fun _ => ex2f) 1 4 ⟨0, 0, .cpu, ⟨1000, 0⟩⟩ 2 = .load false [⟨0, 0, .cpu, ⟨1000, 0⟩⟩] 1 ∧
    cpuDecision (fun _ => ex2f) 1 4 ⟨0, 0, .cpu, ⟨100, 0⟩⟩ 2 = .evict ∧
    (estimate { ex2f with lib := .cpu, gpus := [⟨1000, 0⟩] }).total = 131 ∧
    (estimate { ex2f with lib := .cpu, gpus := [⟨100, 0⟩] }).total = 134 := by decide

end OllamaVerif.C16
