/-
  C02, second sentence — the scheduler drains.

  "Once all requests have finished and their keep-alive periods have elapsed, every runner that
   was started has been shut down and nothing is reported as loaded."

  Formal statement (good variant, every reachable state): if no scheduler-internal or timer action
  is enabled any more (`Stuck`: both loops, all helper goroutines and all keep-alive timers have
  nothing left to do), every request's context is finished and no load is in flight, then every
  started runner is shut down and `loaded` is empty.  Proof: every open runner has a wake-up
  pending (group 6: it is held, loading, has its timer armed, or an expired event for it is in
  flight) and every holder has a finish event in flight; each of these enables an action.
  The same argument shows that the completed loop is idle and no finish or expired event is left.

  What the theorem does not say: that `Stuck` states are reached (fairness of the Go scheduler and
  of timers is outside the model), and it holds in the region-level model (see the C02 known
  finding F12d for a deadlock that needs a bounded channel).
-/
import OllamaVerif.Proofs.Sched6

namespace OllamaVerif.C02
open OllamaVerif.Sched

/-- scheduler-internal and timer actions (everything except the environment's moves) -/
def isProgress : Act → Bool
  | .submit .. => false
  | .done _ => false
  | .loadDone .. => false
  | .explicitUnload _ => false
  | .setPing .. => false
  | .setPingBlock _ => false
  | .pingDone _ ok => !ok          -- a parked health check times out by itself (10 s): `pingDone r false`
  | _ => true

/-- nothing internal is enabled: both loops, every helper goroutine and every timer are done -/
def Stuck (s : State) : Prop := ∀ a, isProgress a = true → step Variant.good s a = none

theorem unlocked_of_stuck {s : State} (h : InvAll s) (hl : s.loaders = []) (hs : Stuck s) (r : Rid) :
    (s.runners r).locked = false := by
  have h1 : (s.runners r).refMuHeld = false := by
    by_cases hr : r < s.nRunners
    · cases hh : (s.runners r).refMuHeld with
      | false => rfl
      | true =>
        have := h.base.i2.ldr r hr hh
        rw [hl] at this; simp at this
    · rw [h.i7.z r (Nat.le_of_not_lt hr)]
  have h2 : (s.runners r).pingHeld = false := by
    cases hh : (s.runners r).pingHeld with
    | false => rfl
    | true =>
      exfalso
      have hp := h.i7.ph r hh
      unfold PPC.isPinging at hp
      split at hp
      · rename_i q r' heq
        have hrr : r' = r := by simpa using hp
        subst hrr
        have := hs (.pingDone r' false) rfl
        simp [step, heq] at this
      · cases hp
  simp [Runner.locked, h1, h2]

/-- with no load in flight the completed loop always has a move when it is not idle -/
theorem cpc_idle_of_stuck {s : State} (h : InvAll s) (hl : s.loaders = []) (hs : Stuck s) : s.cpc = .idle := by
  cases hc : s.cpc with
  | idle => rfl
  | fin q r =>
    have := hs .cFin rfl
    simp [step, hc, unlocked_of_stuck h hl hs r] at this
  | exp r =>
    have := hs .cExp rfl
    simp only [step, hc, unlocked_of_stuck h hl hs r] at this
    simp at this
    split at this <;> simp at this
  | vram r =>
    have := hs .cVram rfl
    simp [step, hc] at this

theorem queues_empty_of_stuck {s : State} (h : InvAll s) (hl : s.loaders = []) (hs : Stuck s) :
    s.finishedQ = [] ∧ s.expiredQ = [] ∧ s.requeuers = [] ∧ s.timerCbs = [] := by
  have hc := cpc_idle_of_stuck h hl hs
  refine ⟨?_, ?_, ?_, ?_⟩
  · cases hq : s.finishedQ with
    | nil => rfl
    | cons q rest =>
      have := hs .cTakeFinished rfl
      simp only [step, hc, hq] at this
      split at this <;> simp at this
  · cases hq : s.expiredQ with
    | nil => rfl
    | cons r rest =>
      have := hs .cTakeExpired rfl
      simp [step, hc, hq] at this
  · cases hq : s.requeuers with
    | nil => rfl
    | cons r rest =>
      have := hs (.requeue r) rfl
      simp [step, hq] at this
  · cases hq : s.timerCbs with
    | nil => rfl
    | cons r rest =>
      have := hs (.timerCb r) rfl
      simp [step, hq, unlocked_of_stuck h hl hs r] at this

/-- **Drain.** -/
theorem drain {mr mq ds : Nat} {s : State} (hreach : Reach Variant.good (Sched.init mr mq ds) s)
    (hs : Stuck s) (hdone : ∀ q, q < s.nReqs → (s.reqs q).done = true) (hl : s.loaders = []) :
    (∀ r, r < s.nRunners → (s.runners r).closed = true) ∧ s.loaded = [] ∧
    s.cpc = .idle ∧ s.finishedQ = [] ∧ s.expiredQ = [] := by
  have h := reach_invAll hreach
  have hc := cpc_idle_of_stuck h hl hs
  obtain ⟨hf, he, hr, ht⟩ := queues_empty_of_stuck h hl hs
  have hclosed : ∀ r, r < s.nRunners → (s.runners r).closed = true := by
    intro r hrn
    cases hcl : (s.runners r).closed with
    | true => rfl
    | false =>
      exfalso
      have hw := h.i6.w r hrn hcl
      have hun : (s.runners r).refMuHeld = false := by
        have := unlocked_of_stuck h hl hs r
        simp [Runner.locked] at this; exact this.1
      rcases hw with hw | hw | hw | hw | hw | hw | hw
      · -- held: some holder, whose finish event is in flight
        have hc2 := h.base.i4.c2 r hrn
        rw [hun] at hc2
        have hne : (s.runners r).holders ≠ [] := by
          intro e; rw [e] at hc2; simp at hc2; omega
        obtain ⟨q, hq⟩ := List.exists_mem_of_ne_nil _ hne
        have htok := h.i6.t1 r q hrn hq
        have hheld := h.base.i4.g2 r q hrn hq
        have hqlt := (h.base.i4.g1 q r hheld).2.1
        simp only [tokens, hf, hc, CPC.tok, List.append_nil] at htok
        have hmem : q ∈ s.finishWaiters := List.count_pos_iff.mp htok
        have := hs (.finishSend q) rfl
        simp [step, hmem, hdone q hqlt] at this
      · rw [hun] at hw; cases hw
      · have := hs (.timerFire r) rfl
        simp [step, hrn, hw] at this
      · rw [ht] at hw; cases hw
      · rw [he] at hw; cases hw
      · rw [hr] at hw; cases hw
      · rw [hc] at hw; cases hw
  refine ⟨hclosed, ?_, hc, hf, he⟩
  cases hld : s.loaded with
  | nil => rfl
  | cons p rest =>
    have hw := h.base.i3.wf p (by rw [hld]; simp)
    have := hclosed p.2 hw.1
    rw [hw.2.2] at this; cases this

/-- non-vacuity: a drained run.  One request is served, completes, its keep-alive timer fires, the
    runner is unloaded; the final state is reachable, stuck, all requests are done, no load in flight. -/
def drainedTrace : List Act := [
  .submit 0 0 none, .pTake, .pLookup {}, .pLoad true, .loadDone 0 true,
  .done 0, .finishSend 0, .cTakeFinished, .cFin, .timerFire 0, .timerCb 0, .cTakeExpired, .cExp, .cVram, .pDrainUnloaded]

theorem drained_trace_runs :
    (run Variant.good (Sched.init 0 512 1) drainedTrace).map
      (fun s => (s.runners 0).closed && s.loaded.isEmpty && s.loaders.isEmpty && (s.reqs 0).done &&
                s.nReqs == 1 && s.nRunners == 1 && s.ppc == .idle && s.cpc == .idle && s.pendingQ.isEmpty &&
                s.finishedQ.isEmpty && s.expiredQ.isEmpty && s.unloadedQ == 0 && s.finishWaiters.isEmpty &&
                s.requeuers.isEmpty && s.delayed.isEmpty && s.timerCbs.isEmpty && s.unloaders.isEmpty &&
                !(s.runners 0).timerArmed) = some true := by decide

end OllamaVerif.C02
