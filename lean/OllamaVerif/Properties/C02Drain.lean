/-
  C02, second sentence — the scheduler drains.

  "Once all requests have finished and their keep-alive periods have elapsed, every runner that
   was started has been shut down and nothing is reported as loaded."

  Formal statement (good variant, every reachable state): if no scheduler-internal or timer action
  is enabled any more (`Stuck`: both loops, all helper goroutines and all keep-alive timers have
  nothing left to do), every request's context is finished and no load is in flight, then every
  started runner is shut down and `loaded` is empty.  Proof: every open runner has a wake-up
  pending (group 6: it is held, loading, has its timer armed, or an expired event for it is in
  flight) and every holder has a finish event in flight; each of these enables an action.
  The same argument shows that the completed loop is idle and no finish or expired event is left.

  What the theorem does not say: that `Stuck` states are reached (fairness of the Go scheduler and
  of timers is outside the model), and it holds in the region-level model (see the C02 known
  finding F12d for a deadlock that needs a bounded channel).
-/
import OllamaVerif.Proofs.Sched8
import OllamaVerif.Properties.C02

namespace OllamaVerif.C02
open OllamaVerif.Sched

/-- scheduler-internal and timer actions (everything except the environment's moves) -/
def isProgress : Act → Bool
  | .submit .. => false
  | .done _ => false
  | .loadDone .. => false
  | .explicitUnload _ => false
  | .setPing .. => false
  | .setPingBlock _ => false
  | .setPingOpen _ => false
  | .pingDone _ ok => !ok          -- a parked health check times out by itself (10 s): `pingDone r false`
  | _ => true

/-- nothing internal is enabled: both loops, every helper goroutine and every timer are done -/
def Stuck (s : State) : Prop := ∀ a, isProgress a = true → step Variant.good s a = none

theorem unlocked_of_stuck {s : State} (h : InvAll s) (hl : s.loaders = []) (hs : Stuck s) (r : Rid) :
    (s.runners r).locked = false := by
  have h1 : (s.runners r).refMuHeld = false := by
    by_cases hr : r < s.nRunners
    · cases hh : (s.runners r).refMuHeld with
      | false => rfl
      | true =>
        have := h.base.i2.ldr r hr hh
        rw [hl] at this; simp at this
    · rw [h.i7.z r (Nat.le_of_not_lt hr)]
  have h2 : (s.runners r).pingHeld = false := by
    cases hh : (s.runners r).pingHeld with
    | false => rfl
    | true =>
      exfalso
      have hp := h.i7.ph r hh
      unfold PPC.isPinging at hp
      split at hp
      · rename_i q r' heq
        have hrr : r' = r := by simpa using hp
        subst hrr
        have := hs (.pingDone r' false) rfl
        simp [step, heq] at this
      · cases hp
  simp [Runner.locked, h1, h2]

/-- with no load in flight the completed loop always has a move when it is not idle -/
theorem cpc_idle_of_stuck {s : State} (h : InvAll s) (hl : s.loaders = []) (hs : Stuck s) : s.cpc = .idle := by
  cases hc : s.cpc with
  | idle => rfl
  | fin q r =>
    have := hs .cFin rfl
    simp [step, hc, unlocked_of_stuck h hl hs r] at this
  | exp r =>
    have := hs .cExp rfl
    simp only [step, hc, unlocked_of_stuck h hl hs r] at this
    simp at this
    split at this <;> simp at this
  | vram r =>
    have := hs .cVram rfl
    simp [step, hc] at this

theorem queues_empty_of_stuck {s : State} (h : InvAll s) (hl : s.loaders = []) (hs : Stuck s) :
    s.finishedQ = [] ∧ s.expiredQ = [] ∧ s.requeuers = [] ∧ s.timerCbs = [] := by
  have hc := cpc_idle_of_stuck h hl hs
  refine ⟨?_, ?_, ?_, ?_⟩
  · cases hq : s.finishedQ with
    | nil => rfl
    | cons q rest =>
      have := hs .cTakeFinished rfl
      simp only [step, hc, hq] at this
      split at this <;> simp at this
  · cases hq : s.expiredQ with
    | nil => rfl
    | cons r rest =>
      have := hs .cTakeExpired rfl
      simp [step, hc, hq] at this
  · cases hq : s.requeuers with
    | nil => rfl
    | cons r rest =>
      have := hs (.requeue r) rfl
      simp [step, hq] at this
  · cases hq : s.timerCbs with
    | nil => rfl
    | cons r rest =>
      have := hs (.timerCb r) rfl
      simp [step, hq, unlocked_of_stuck h hl hs r] at this

/-- **Drain.** -/
theorem drain {mr mq ds : Nat} {s : State} (hreach : Reach Variant.good (Sched.init mr mq ds) s)
    (hs : Stuck s) (hdone : ∀ q, q < s.nReqs → (s.reqs q).done = true) (hl : s.loaders = []) :
    (∀ r, r < s.nRunners → (s.runners r).closed = true) ∧ s.loaded = [] ∧
    s.cpc = .idle ∧ s.finishedQ = [] ∧ s.expiredQ = [] := by
  have h := reach_invAll hreach
  have hc := cpc_idle_of_stuck h hl hs
  obtain ⟨hf, he, hr, ht⟩ := queues_empty_of_stuck h hl hs
  have hclosed : ∀ r, r < s.nRunners → (s.runners r).closed = true := by
    intro r hrn
    cases hcl : (s.runners r).closed with
    | true => rfl
    | false =>
      exfalso
      have hw := h.i6.w r hrn hcl
      have hun : (s.runners r).refMuHeld = false := by
        have := unlocked_of_stuck h hl hs r
        simp [Runner.locked] at this; exact this.1
      rcases hw with hw | hw | hw | hw | hw | hw | hw
      · -- held: some holder, whose finish event is in flight
        have hc2 := h.base.i4.c2 r hrn
        rw [hun] at hc2
        have hne : (s.runners r).holders ≠ [] := by
          intro e; rw [e] at hc2; simp at hc2; omega
        obtain ⟨q, hq⟩ := List.exists_mem_of_ne_nil _ hne
        have htok := h.i6.t1 r q hrn hq
        have hheld := h.base.i4.g2 r q hrn hq
        have hqlt := (h.base.i4.g1 q r hheld).2.1
        simp only [tokens, hf, hc, CPC.tok, List.append_nil] at htok
        have hmem : q ∈ s.finishWaiters := List.count_pos_iff.mp htok
        have := hs (.finishSend q) rfl
        simp [step, hmem, hdone q hqlt] at this
      · rw [hun] at hw; cases hw
      · have := hs (.timerFire r) rfl
        simp [step, hrn, hw] at this
      · rw [ht] at hw; cases hw
      · rw [he] at hw; cases hw
      · rw [hr] at hw; cases hw
      · rw [hc] at hw; cases hw
  refine ⟨hclosed, ?_, hc, hf, he⟩
  cases hld : s.loaded with
  | nil => rfl
  | cons p rest =>
    have hw := h.base.i3.wf p (by rw [hld]; simp)
    have := hclosed p.2 hw.1
    rw [hw.2.2] at this; cases this

/-- non-vacuity: a drained run.  One request is served, completes, its keep-alive timer fires, the
    runner is unloaded; the final state is reachable, stuck, all requests are done, no load in flight. -/
def drainedTrace : List Act := [
  .submit 0 0 none, .pTake, .pLookup {}, .pLoad true, .loadDone 0 true,
  .done 0, .finishSend 0, .cTakeFinished, .cFin, .timerFire 0, .timerCb 0, .cTakeExpired, .cExp, .cVram, .pDrainUnloaded]

theorem drained_trace_runs :
    (run Variant.good (Sched.init 0 512 1) drainedTrace).map
      (fun s => (s.runners 0).closed && s.loaded.isEmpty && s.loaders.isEmpty && (s.reqs 0).done &&
                s.nReqs == 1 && s.nRunners == 1 && s.ppc == .idle && s.cpc == .idle && s.pendingQ.isEmpty &&
                s.finishedQ.isEmpty && s.expiredQ.isEmpty && s.unloadedQ == 0 && s.finishWaiters.isEmpty &&
                s.requeuers.isEmpty && s.delayed.isEmpty && s.timerCbs.isEmpty && s.unloaders.isEmpty &&
                !(s.runners 0).timerArmed) = some true := by decide

/-- **Every request that can be answered has been answered** (first sentence of C02, liveness half):
    in every reachable state of the good variant in which nothing internal is enabled, no load is
    in flight and every request that holds a runner has finished ("loads in flight finish and the
    requests ahead of it eventually complete"), the pending loop is idle and nothing is queued or
    waiting to be re-queued — so, by `never_lost`, every accepted request has received its single
    reply, or was skipped because its caller had already cancelled it. -/
theorem all_answered {mr mq ds : Nat} {s : State} (hreach : Reach Variant.good (Sched.init mr mq ds) s)
    (hs : Stuck s) (hl : s.loaders = []) (hq : 0 < s.maxQueue)
    (hheld : ∀ r q, r < s.nRunners → q ∈ (s.runners r).holders → (s.reqs q).done = true) :
    s.ppc = .idle ∧ s.pendingQ = [] ∧ s.delayed = [] ∧
    ∀ q, q < s.nReqs → ((s.reqs q).replies = 1 ∨ ((s.reqs q).replies = 0 ∧ (s.reqs q).dropped = true ∧ (s.reqs q).done = true)) := by
  have h8 := reach_invAll8 hreach
  have h := h8.all
  have hc := cpc_idle_of_stuck h hl hs
  obtain ⟨hf, he, hr, ht⟩ := queues_empty_of_stuck h hl hs
  have hunl : ∀ r, (s.runners r).locked = false := unlocked_of_stuck h hl hs
  -- the pending loop is idle
  have hp : s.ppc = .idle := by
    cases hpc : s.ppc with
    | idle => rfl
    | eval q =>
      have := hs (.pLookup {}) rfl
      simp only [step, hpc] at this
      simp at this
      split at this <;> (try split at this) <;> simp at this
    | needsReload q r =>
      have := hs .pNeedsReload rfl
      simp only [step, hpc, hunl r] at this
      simp at this
      repeat' split at this
      all_goals simp at this
    | pinging q r =>
      have := hs (.pingDone r false) rfl
      simp [step, hpc] at this
    | use q r =>
      have := hs .pUse rfl
      simp only [step, hpc, hunl r] at this
      simp at this
      split at this <;> simp at this
    | expire q r =>
      have := hs .pExpire rfl
      simp [step, hpc, hunl r] at this
    | load q =>
      have := hs (.pLoad true) rfl
      simp [step, hpc] at this
    | waitUnload q r =>
      exfalso
      have hu := h8.i8.u q r hpc
      rcases hu with hu | hu | hu | hu | hu | hu | ⟨hu1, hu2⟩
      · have := hs .pWaitUnload rfl
        simp [step, hpc] at this
        omega
      · rw [hc] at hu; cases hu
      · rw [he] at hu; cases hu
      · rw [hc] at hu; cases hu
      · rw [hr] at hu; cases hu
      · rw [ht] at hu; cases hu
      · -- still held with a zero session: some holder, all holders are done, so its finish event can move
        have hrn : r < s.nRunners := by
          by_cases hlt : r < s.nRunners
          · exact hlt
          · rw [h.i7.z r (Nat.le_of_not_lt hlt)] at hu1; cases hu1
        have hun : (s.runners r).refMuHeld = false := by
          have := hunl r; simp [Runner.locked] at this; exact this.1
        have hc2 := h.base.i4.c2 r hrn
        rw [hun] at hc2
        have hne : (s.runners r).holders ≠ [] := by
          intro e; rw [e] at hc2; simp at hc2; omega
        obtain ⟨q', hq'⟩ := List.exists_mem_of_ne_nil _ hne
        have htok := h.i6.t1 r q' hrn hq'
        simp only [tokens, hf, hc, CPC.tok, List.append_nil] at htok
        have hmem : q' ∈ s.finishWaiters := List.count_pos_iff.mp htok
        have := hs (.finishSend q') rfl
        simp [step, hmem, hheld r q' hrn hq'] at this
  have hpq : s.pendingQ = [] := by
    cases hq' : s.pendingQ with
    | nil => rfl
    | cons q rest =>
      have := hs .pTake rfl
      simp only [step, hp, hq'] at this
      split at this <;> simp at this
  have hd : s.delayed = [] := by
    cases hd' : s.delayed with
    | nil => rfl
    | cons q rest =>
      have := hs (.delayedRequeue q) rfl
      simp [step, hd', hpq, hq] at this
  refine ⟨hp, hpq, hd, ?_⟩
  intro q hqn
  have hcount : (pendingSet s).count q = 0 := by
    simp [pendingSet, hpq, hd, hl, hp, PPC.req]
  rcases never_lost hreach q hqn with h1 | h2 | h3
  · exact Or.inl h1.1
  · exact Or.inr ⟨h2.1, h2.2.2.1, h2.2.2.2⟩
  · rw [hcount] at h3; omega

end OllamaVerif.C02
