/-
  C08 — Blob cache entries of the right size always have the right content.

  Property theorems over Model/BlobCache.lean; `hash` is an arbitrary function everywhere (no injectivity, no
  SHA-256 facts): every statement is of the form `hash content = digest`.
-/
import OllamaVerif.Proofs.BlobCache

namespace OllamaVerif.C08
open OllamaVerif OllamaVerif.BlobCache

/-! ## one writer, any source, any crash point -/

/-- **Single-writer crash safety.**  For every source-reader script (any chunking; short, long, corrupted or
    erroring), every current state of the blob file that is itself trusted — in particular absent, shorter
    garbage, longer garbage, the partial file of an earlier crash — and every crash point `p` of
    `copyNamedFile` (any prefix of its effects, the last write cut at any byte), the file left on disk is
    trusted: if `Get` reports it present with the stored size, it hashes to its digest.

    Mechanism (the code writes IN PLACE, there is no temp name): (1) the only file that is left alone is one
    that already has the right size; (2) `O_TRUNC` exactly when the old file is longer, so after `open` the file
    is shorter than `size`; (3) writes are sequential from offset 0 and `checkWriter` lets the length reach
    `size` only with the one write issued after the digest of the whole stream matched; a cut of that write is
    shorter than `size`; (4) every failure ends in `Truncate(0)`, which `Get` reports as absent. -/
theorem single_writer_crash_safe (hash : Bytes → Digest) (d : Digest) (size : Nat) (s : Script)
    (st : FileSt) (h0 : Trusted hash st d size) (p : List Eff)
    (hc : Cut (copyNamedEffs hash st d size s).1 p) :
    Trusted hash (run p st) d size := by
  unfold copyNamedEffs at hc
  split at hc
  · cases hc; exact h0
  · next hne =>
    by_cases hsz : size = 0
    · subst hsz; exact trusted_size_zero hash d _
    · obtain ⟨tail, ht, hshape⟩ := afterStat_shape hash (statTrunc st size) d size s hsz
      rw [hshape] at hc
      cases hc with
      | stop => exact h0
      | next _ _ p' hc' =>
        obtain ⟨g, hopen, hg⟩ := open_short st size hne hsz
        simp only [run_cons, hopen]
        have := copyLoop_cut hash d size g hg tail ht s.chunks [] s.fin p' (seenOK_nil hash d size hsz) hc'
        rwa [overlay_nil] at this

/-- The three starting states named in the property are instances: absent, or garbage of any other length. -/
theorem single_writer_crash_safe_from_garbage (hash : Bytes → Digest) (d : Digest) (size : Nat) (s : Script)
    (st : FileSt) (hst : st = none ∨ ∃ g, st = some g ∧ g.length ≠ size) (p : List Eff)
    (hc : Cut (copyNamedEffs hash st d size s).1 p) :
    Trusted hash (run p st) d size := by
  apply single_writer_crash_safe hash d size s st _ p hc
  rcases hst with rfl | ⟨g, rfl, hg⟩
  · exact trusted_none hash d size
  · intro f hf _ hl; cases hf; exact absurd hl hg

/-- `Import` (temp file + rename): a crash leaves the old file or the complete new one. -/
theorem import_crash_safe (hash : Bytes → Digest) (size : Nat) (s : Script) (st : FileSt)
    (d : Digest) (es : List Eff) (hi : (importEffs hash size s).1 = some (d, es)) (p : List Eff)
    (hc : Cut es p) (sz : Nat) (h0 : Trusted hash st d sz) :
    Trusted hash (run p st) d sz := by
  unfold importEffs at hi
  split at hi
  · cases hi
  · split at hi
    · cases hi
    · simp only [Option.some.injEq, Prod.mk.injEq] at hi
      obtain ⟨rfl, rfl⟩ := hi
      cases hc with
      | stop => exact h0
      | next _ _ p' hc' =>
        cases hc'
        intro f hf _ _
        simp [run, applyEff] at hf
        rw [← hf]

/-- the tie between the strace enumeration and `Cut`: what the oracle's `crash` command evaluates is a cut -/
theorem prefixBefore_is_cut (kd : EffKind) : ∀ (es : List Eff) (n : Nat) (p : List Eff),
    prefixBefore kd n es = some p → Cut es p := by
  intro es
  induction es with
  | nil => intro n p h; simp [prefixBefore] at h
  | cons e es ih =>
    intro n p h
    unfold prefixBefore at h
    split at h
    · split at h
      · cases h; exact Cut.stop _
      · cases hp : prefixBefore kd (n - 1) es with
        | none => simp [hp] at h
        | some q => simp [hp] at h; subst h; exact Cut.next _ _ _ (ih _ _ hp)
    · cases hp : prefixBefore kd n es with
      | none => simp [hp] at h
      | some q => simp [hp] at h; subst h; exact Cut.next _ _ _ (ih _ _ hp)

/-! ## Put / Get -/

@[simp] theorem setBlob_same (k : Disk) (d : Digest) (v : FileSt) : (k.setBlob d v).blob d = v := by
  simp [Disk.setBlob]

theorem setBlob_other (k : Disk) (d d' : Digest) (v : FileSt) (h : d' ≠ d) :
    (k.setBlob d v).blob d' = k.blob d' := by
  simp [Disk.setBlob, h]

/-- what a successful `copyNamedFile` leaves (non-zero size, trusted start): a file of exactly `size` bytes
    whose hash is `d` -/
theorem copyNamed_ok_file (hash : Bytes → Digest) (st : FileSt) (d : Digest) (size : Nat) (s : Script)
    (hsz : size ≠ 0) (h0 : Trusted hash st d size)
    (hok : (copyNamedEffs hash st d size s).2 = .ok) :
    ∃ f, run (copyNamedEffs hash st d size s).1 st = some f ∧ f.length = size ∧ hash f = d := by
  unfold copyNamedEffs at hok ⊢
  split
  · next heq =>
    cases st with
    | none => simp at heq
    | some f =>
      simp only [Option.map_some, Option.some.injEq] at heq
      exact ⟨f, rfl, heq, h0 f rfl (by omega) heq⟩
  · next hne =>
    simp only [hne, if_false] at hok
    rw [afterStat_res _ _ _ _ _ hsz] at hok
    rw [afterStat_effs_ok _ _ _ _ _ hsz hok]
    obtain ⟨g, hopen, hg⟩ := open_short st size hne hsz
    have := copyLoop_ok hash d size g hg s.chunks [] s.fin (seenOK_nil hash d size hsz) hok
    simp only [overlay_nil, List.nil_append] at this
    refine ⟨s.chunks.flatten, ?_, this.2.1, this.2.2⟩
    simp only [run_cons, hopen, run_append, this.1]
    rfl

/-- **A successful store makes the blob retrievable** (sizes > 0; a zero-length blob is never "present":
    upstream pins that in TestPutZero / TestPutGetZero — see `empty_put_not_retrievable`). -/
theorem put_ok_retrievable (hash : Bytes → Digest) (k : Disk) (d : Digest) (size : Nat) (s : Script)
    (hsz : size ≠ 0) (h0 : Trusted hash (k.blob d) d size)
    (hok : (put hash k d size s).2 = .ok) :
    getB (put hash k d size s).1 d = .entry size ∧
    ∃ f, (put hash k d size s).1.blob d = some f ∧ f.length = size ∧ hash f = d := by
  obtain ⟨f, hf, hl, hh⟩ := copyNamed_ok_file hash (k.blob d) d size s hsz h0 hok
  unfold put
  simp only [setBlob_same, getB, hf]
  refine ⟨?_, f, rfl, hl, hh⟩
  simp [hl, hsz]

/-- the designed exception: `Put` of size 0 answers ok and `Get` answers "does not exist" -/
theorem empty_put_not_retrievable :
    let hash : Bytes → Digest := fun b => b
    (put hash Disk.empty [] 0 ⟨[], .eof⟩).2 = .ok ∧
    getB (put hash Disk.empty [] 0 ⟨[], .eof⟩).1 [] = .res .notExist := by decide

/-- `Put` never touches another digest's file -/
theorem put_frame (hash : Bytes → Digest) (k : Disk) (d d' : Digest) (size : Nat) (s : Script)
    (h : d' ≠ d) : (put hash k d size s).1.blob d' = k.blob d' := by
  unfold put; exact setBlob_other _ _ _ _ h

/-! ## Link -/

/-- **Link requires the blob FILE.**  If `Link(name, d)` succeeds, a file named after `d` exists …  -/
theorem link_requires_blob (hash : Bytes → Digest) (fixed : Bool) (k : Disk) (name : Bytes) (d : Digest)
    (hok : (link hash fixed k name d).2 = .ok) : ∃ f, k.blob d = some f := by
  unfold link at hok
  split at hok
  · cases hok
  · split at hok
    · cases hok
    · next f hf => exact ⟨f, hf⟩

/-- the name `h/n/m:t` -/
def nm : Bytes := [0x68, 0x2f, 0x6e, 0x2f, 0x6d, 0x3a, 0x74]

/-- … but NOT that the cache itself considers the blob present (finding F8-zero): a failed `Put` leaves a
    zero-length file (`Truncate(0)`, not `Remove`); `Get` says "does not exist", `Link` succeeds and links
    the name to an empty manifest, and `Resolve` then returns the digest of the empty string. -/

theorem F8zero_link_to_failed_put :
    let hash : Bytes → Digest := fun b => b        -- any function will do; identity keeps it readable
    let d : Digest := [1, 2, 3]
    let k1 := (put hash Disk.empty d 3 ⟨[[1]], .eof⟩).1           -- short source: the Put fails …
    (put hash Disk.empty d 3 ⟨[[1]], .eof⟩).2 = .short ∧
    getB k1 d = .res .notExist ∧                                    -- … the cache reports the blob absent …
    (link hash false k1 nm d).2 = .ok ∧                            -- … and still links the name to it
    (resolve hash (link hash false k1 nm d).1 nm).2 = .digest [] ∧
    (link hash true k1 nm d).2 = .notExist := by decide

/-- the repaired `Link` does require a present blob of the right content -/
theorem link_requires_blob_fixed (hash : Bytes → Digest) (k : Disk) (name : Bytes) (d : Digest)
    (hok : (link hash true k name d).2 = .ok) :
    ∃ f, k.blob d = some f ∧ getB k d = .entry f.length ∧ hash f = d := by
  unfold link at hok
  split at hok
  · cases hok
  · split at hok
    · cases hok
    · next f hf =>
      simp only [if_true] at hok
      split at hok
      · cases hok
      · next hz =>
        refine ⟨f, hf, by simp [getB, hf, hz], ?_⟩
        split at hok
        · next hr =>
          have ht : Trusted hash none d f.length := trusted_none hash d f.length
          obtain ⟨f', hrun, _, hh⟩ := copyNamed_ok_file hash none d f.length ⟨[f], .eof⟩ hz ht hr
          -- the copy of `f` is `f`
          have : (copyNamedEffs hash none d f.length ⟨[f], .eof⟩).2 = .ok := hr
          unfold copyNamedEffs at hrun this
          simp only [Option.map_none, reduceCtorEq, if_false] at hrun this
          rw [afterStat_res _ _ _ _ _ hz] at this
          rw [afterStat_effs_ok _ _ _ _ _ hz this] at hrun
          have hl := copyLoop_ok hash d f.length [] (by simp; omega) [f] [] .eof (seenOK_nil hash d _ hz) this
          simp only [overlay_nil, List.nil_append, List.flatten_cons, List.flatten_nil, List.append_nil] at hl
          exact hl.2.2
        · next hne => exact absurd hok (by simpa using hne)

/-! ## concurrent writers of one blob -/

/-- **Concurrent good writers are safe.**  Any number of writers of the same digest whose sources all deliver
    the true content (any chunkings), any interleaving of their stats, opens and writes, any of them dying at
    any point with its current write cut at any byte (`Ev.tear`), starting from an absent file, a shorter
    file (garbage or a crash's leftover) or an already complete one: at EVERY moment the file is trusted.
    Why: nobody truncates (no file is ever longer than `size`), everybody writes `content`'s own bytes at their
    own offsets sequentially from 0, so the file is always a correct prefix plus leftovers and is full-size
    only when it equals `content`. -/
theorem concurrent_good_writers_safe (hash : Bytes → Digest) (d : Digest) (content : Bytes)
    (hh : hash content = d) (scripts : List Script) (hgood : ∀ s ∈ scripts, GoodScript content s)
    (f0 : FileSt)
    (h0 : f0 = none ∨ ∃ g, f0 = some g ∧
      (g.length < content.length ∨ (g.length = content.length ∧ hash g = d)))
    (evs : List Ev) :
    Trusted hash (exec hash d content.length evs ⟨f0, scripts.map W.init⟩).file d content.length := by
  by_cases hsz : content.length = 0
  · rw [hsz]; exact trusted_size_zero hash d _
  · apply concInv_trusted hash d content hh
    apply exec_inv hash d content hh hsz
    have hinit : ∀ w ∈ scripts.map W.init, ∀ N, WOK content f0 N w := by
      intro w hw N
      simp only [List.mem_map] at hw
      obtain ⟨sc, hsc, rfl⟩ := hw
      exact hgood sc hsc
    rcases h0 with rfl | ⟨g, rfl, hlt | ⟨hl, hg⟩⟩
    · exact Or.inr ⟨0, Nat.zero_le _, rfl, fun w hw => hinit w hw 0⟩
    · exact Or.inr ⟨0, Nat.zero_le _, ⟨g, by simp, by simp; omega, by simp; omega⟩, fun w hw => hinit w hw 0⟩
    · refine Or.inl ⟨g, rfl, hl, hg, ?_⟩
      intro w hw
      simp only [List.mem_map] at hw
      obtain ⟨sc, _, rfl⟩ := hw
      trivial

/-- the identity as "hash function" for the concrete witnesses (any function would do; the theorems above
    never look inside `hash`) -/
def idh : Bytes → Digest := fun b => b

/-- **Finding F9: `concurrent_safe` is FALSE with one misbehaving co-writer.**  Content `[1,2,3,4]`; writer 0 is
    good (chunks `[1,2]`,`[3,4]`), writer 1's source fails at once.  Schedule: 0 stats, opens, writes `[1,2]`;
    1 stats (2 ≠ 4 bytes: proceeds, no O_TRUNC), opens, fails ⇒ `Truncate(0)`; 0 writes `[3,4]` at offset 2
    and returns ok.  Left on disk for good: a 4-byte file `[0,0,3,4]` — present, right size, wrong content,
    acknowledged with `nil` to the good writer.  (Second part: if instead the good writer finishes first, the
    failing writer's `Truncate(0)` destroys the completed, acknowledged blob.) -/
theorem F9_failing_cowriter_breaks_trust :
    let c : Bytes := [1, 2, 3, 4]
    let good : Script := ⟨[[1, 2], [3, 4]], .eof⟩
    let bad : Script := ⟨[], .err⟩
    let s := exec idh c 4
      [.step 0, .step 0, .step 0, .step 1, .step 1, .step 1, .step 0, .step 0, .step 0, .step 1, .step 1]
      ⟨none, [.init good, .init bad]⟩
    (s.file = some [0, 0, 3, 4] ∧ ¬ Trusted idh s.file c 4) ∧
    let s2 := exec idh c 4
      [.step 0, .step 0, .step 0, .step 1, .step 1, .step 0, .step 0, .step 0, .step 1, .step 1, .step 1]
      ⟨none, [.init good, .init bad]⟩
    s2.file = some [] := by
  refine ⟨⟨by decide, ?_⟩, by decide⟩
  intro h
  exact absurd (h [0, 0, 3, 4] (by decide) (by decide) (by decide)) (by decide)

/-- Model-only witness (cannot be forced on the real code without a hook between `os.Stat` and
    `os.OpenFile`): starting from a LONGER garbage file even two good writers can expose a full-size holey
    file for a while, because both may decide on `O_TRUNC` before either opens.  This is why
    `concurrent_good_writers_safe` excludes a longer initial file. -/
theorem good_writers_from_longer_file_transiently_unsafe :
    let c : Bytes := [1, 2, 3, 4]
    let good : Script := ⟨[[1, 2], [3, 4]], .eof⟩
    (exec idh c 4 [.step 0, .step 1, .step 0, .step 0, .step 1, .step 0]
      ⟨some [9, 9, 9, 9, 9], [.init good, .init good]⟩).file = some [0, 0, 3, 4] := by decide

/-! ## chunked writes -/

/-- **Finding F10 at the cache level: a chunked blob is "present with the right size" before all chunks are
    written.**  `Chunked(d,4)` + `Put(Chunk{2,3})` of content `[1,2,3,4]`: the file is `[0,0,3,4]`; `Get` reports
    size 4; it is not trusted; and a later `Put` of the true content is answered `ok` from the size shortcut
    without repairing it. -/
theorem F10_chunk_holes_present_with_full_size :
    let c : Bytes := [1, 2, 3, 4]
    let k := chunk idh Disk.empty c 4 2 3 [3, 4] ⟨[[3, 4]], .eof⟩
    k.2 = .ok ∧ k.1.blob c = some [0, 0, 3, 4] ∧ getB k.1 c = .entry 4 ∧
    ¬ Trusted idh (k.1.blob c) c 4 ∧
    (put idh k.1 c 4 ⟨[c], .eof⟩).2 = .ok ∧ (put idh k.1 c 4 ⟨[c], .eof⟩).1.blob c = some [0, 0, 3, 4] := by
  refine ⟨by decide, by decide, by decide, ?_, by decide, by decide⟩
  intro h
  exact absurd (h [0, 0, 3, 4] (by decide) (by decide) (by decide)) (by decide)

/-! ## Link then Resolve -/

/-- **Finding F8: `Link n d = ok → Resolve n = d` is FALSE** when `n` is already linked to a different manifest
    of the same size: the second `Link` answers ok and changes nothing.  (Second part: the repaired `Link`.) -/
theorem F8_relink_same_size_keeps_old :
    let A : Bytes := [1, 1, 1]
    let B : Bytes := [2, 2, 2]
    let ops : List Op := [.put A 3 ⟨[A], .eof⟩, .put B 3 ⟨[B], .eof⟩, .link nm A, .link nm B, .resolve nm]
    (runOps idh false ops Disk.empty).2 = [.res .ok, .res .ok, .res .ok, .res .ok, .digest A] ∧
    (runOps idh true ops Disk.empty).2 = [.res .ok, .res .ok, .res .ok, .res .ok, .digest B] := by decide

/-- non-vacuity of the hypotheses of the universally quantified theorems above: a good script, a proper
    crash cut with a torn write, a trusted shorter-garbage start -/
example : GoodScript [1, 2, 3, 4] ⟨[[1], [], [2, 3], [4]], .eof⟩ ∧
    Cut (copyNamedEffs idh (some [9, 9]) [1, 2, 3, 4] 4 ⟨[[1], [2, 3, 4]], .eof⟩).1
      [.openCreate false, .pwrite 0 [1], .pwrite 1 [2, 3]] ∧
    Trusted idh (some [9, 9]) [1, 2, 3, 4] 4 ∧
    run [.openCreate false, .pwrite 0 [1], .pwrite 1 [2, 3]] (some [9, 9]) = some [1, 2, 3] := by
  refine ⟨⟨by decide, rfl⟩, ?_, ?_, by decide⟩
  · have : (copyNamedEffs idh (some [9, 9]) [1, 2, 3, 4] 4 ⟨[[1], [2, 3, 4]], .eof⟩).1 =
        [.openCreate false, .pwrite 0 [1], .pwrite 1 [2, 3, 4], .close] := by decide
    rw [this]
    exact Cut.next _ _ _ (Cut.next _ _ _ (Cut.torn 1 [2, 3, 4] [.close] 2))
  · intro f hf _ hl; cases hf; simp at hl

end OllamaVerif.C08
