/-
  C08 — Blob cache entries of the right size always have the right content.

  Property theorems over Model/BlobCache.lean; `hash` is an arbitrary function everywhere (no injectivity, no
  SHA-256 facts): every statement is of the form `hash content = digest`.
-/
import OllamaVerif.Proofs.BlobCache

namespace OllamaVerif.C08
open OllamaVerif OllamaVerif.BlobCache

/-! ## one writer, any source, any crash point -/

/-- **Single-writer crash safety.**  For every source-reader script (any chunking; short, long, corrupted or
    erroring), every current state of the blob file that is itself trusted — in particular absent, shorter
    garbage, longer garbage, the partial file of an earlier crash — and every crash point `p` of
    `copyNamedFile` (any prefix of its effects, the last write cut at any byte), the file left on disk is
    trusted: if `Get` reports it present with the stored size, it hashes to its digest.

    Mechanism (the code writes IN PLACE, there is no temp name): (1) the only file that is left alone is one
    that already has the right size; (2) `O_TRUNC` exactly when the old file is longer, so after `open` the file
    is shorter than `size`; (3) writes are sequential from offset 0 and `checkWriter` lets the length reach
    `size` only with the one write issued after the digest of the whole stream matched; a cut of that write is
    shorter than `size`; (4) every failure ends in `Truncate(0)`, which `Get` reports as absent. -/
theorem single_writer_crash_safe (hash : Bytes → Digest) (d : Digest) (size : Nat) (s : Script)
    (st : FileSt) (h0 : Trusted hash st d size) (p : List Eff)
    (hc : Cut (copyNamedEffs hash st d size s).1 p) :
    Trusted hash (run p st) d size := by
  unfold copyNamedEffs at hc
  split at hc
  · cases hc; exact h0
  · next hne =>
    by_cases hsz : size = 0
    · subst hsz; exact trusted_size_zero hash d _
    · obtain ⟨tail, ht, hshape⟩ := afterStat_shape hash (statTrunc st size) d size s hsz
      rw [hshape] at hc
      cases hc with
      | stop => exact h0
      | next _ _ p' hc' =>
        obtain ⟨g, hopen, hg⟩ := open_short st size hne hsz
        simp only [run_cons, hopen]
        have := copyLoop_cut hash d size g hg tail ht s.chunks [] s.fin p' (seenOK_nil hash d size hsz) hc'
        rwa [overlay_nil] at this

/-- The three starting states named in the property are instances: absent, or garbage of any other length. -/
theorem single_writer_crash_safe_from_garbage (hash : Bytes → Digest) (d : Digest) (size : Nat) (s : Script)
    (st : FileSt) (hst : st = none ∨ ∃ g, st = some g ∧ g.length ≠ size) (p : List Eff)
    (hc : Cut (copyNamedEffs hash st d size s).1 p) :
    Trusted hash (run p st) d size := by
  apply single_writer_crash_safe hash d size s st _ p hc
  rcases hst with rfl | ⟨g, rfl, hg⟩
  · exact trusted_none hash d size
  · intro f hf _ hl; cases hf; exact absurd hl hg

/-- `Import` (temp file + rename): a crash leaves the old file or the complete new one. -/
theorem import_crash_safe (hash : Bytes → Digest) (size : Nat) (s : Script) (st : FileSt)
    (d : Digest) (es : List Eff) (hi : (importEffs hash size s).1 = some (d, es)) (p : List Eff)
    (hc : Cut es p) (sz : Nat) (h0 : Trusted hash st d sz) :
    Trusted hash (run p st) d sz := by
  unfold importEffs at hi
  split at hi
  · cases hi
  · split at hi
    · cases hi
    · simp only [Option.some.injEq, Prod.mk.injEq] at hi
      obtain ⟨rfl, rfl⟩ := hi
      cases hc with
      | stop => exact h0
      | next _ _ p' hc' =>
        cases hc'
        intro f hf _ _
        simp [run, applyEff] at hf
        rw [← hf]

/-- the tie between the strace enumeration and `Cut`: what the oracle's `crash` command evaluates is a cut -/
theorem prefixBefore_is_cut (kd : EffKind) : ∀ (es : List Eff) (n : Nat) (p : List Eff),
    prefixBefore kd n es = some p → Cut es p := by
  intro es
  induction es with
  | nil => intro n p h; simp [prefixBefore] at h
  | cons e es ih =>
    intro n p h
    unfold prefixBefore at h
    split at h
    · split at h
      · cases h; exact Cut.stop _
      · cases hp : prefixBefore kd (n - 1) es with
        | none => simp [hp] at h
        | some q => simp [hp] at h; subst h; exact Cut.next _ _ _ (ih _ _ hp)
    · cases hp : prefixBefore kd n es with
      | none => simp [hp] at h
      | some q => simp [hp] at h; subst h; exact Cut.next _ _ _ (ih _ _ hp)

/-! ## Put / Get -/

@[simp] theorem setBlob_same (k : Disk) (d : Digest) (v : FileSt) : (k.setBlob d v).blob d = v := by
  simp [Disk.setBlob]

theorem setBlob_other (k : Disk) (d d' : Digest) (v : FileSt) (h : d' ≠ d) :
    (k.setBlob d v).blob d' = k.blob d' := by
  simp [Disk.setBlob, h]

/-- what a successful `copyNamedFile` leaves (non-zero size, trusted start): a file of exactly `size` bytes
    whose hash is `d` -/
theorem copyNamed_ok_file (hash : Bytes → Digest) (st : FileSt) (d : Digest) (size : Nat) (s : Script)
    (hsz : size ≠ 0) (h0 : Trusted hash st d size)
    (hok : (copyNamedEffs hash st d size s).2 = .ok) :
    ∃ f, run (copyNamedEffs hash st d size s).1 st = some f ∧ f.length = size ∧ hash f = d := by
  unfold copyNamedEffs at hok ⊢
  split
  · next heq =>
    cases st with
    | none => simp at heq
    | some f =>
      simp only [Option.map_some, Option.some.injEq] at heq
      exact ⟨f, rfl, heq, h0 f rfl (by omega) heq⟩
  · next hne =>
    simp only [hne, if_false] at hok
    rw [afterStat_res _ _ _ _ _ hsz] at hok
    rw [afterStat_effs_ok _ _ _ _ _ hsz hok]
    obtain ⟨g, hopen, hg⟩ := open_short st size hne hsz
    have := copyLoop_ok hash d size g hg s.chunks [] s.fin (seenOK_nil hash d size hsz) hok
    simp only [overlay_nil, List.nil_append] at this
    refine ⟨s.chunks.flatten, ?_, this.2.1, this.2.2⟩
    simp only [run_cons, hopen, run_append, this.1]
    rfl

/-- **A successful store makes the blob retrievable** (sizes > 0; a zero-length blob is never "present":
    upstream pins that in TestPutZero / TestPutGetZero — see `empty_put_not_retrievable`). -/
theorem put_ok_retrievable (hash : Bytes → Digest) (k : Disk) (d : Digest) (size : Nat) (s : Script)
    (hsz : size ≠ 0) (h0 : Trusted hash (k.blob d) d size)
    (hok : (put hash k d size s).2 = .ok) :
    getB (put hash k d size s).1 d = .entry size ∧
    ∃ f, (put hash k d size s).1.blob d = some f ∧ f.length = size ∧ hash f = d := by
  obtain ⟨f, hf, hl, hh⟩ := copyNamed_ok_file hash (k.blob d) d size s hsz h0 hok
  unfold put
  simp only [setBlob_same, getB, hf]
  refine ⟨?_, f, rfl, hl, hh⟩
  simp [hl, hsz]

/-- the designed exception: `Put` of size 0 answers ok and `Get` answers "does not exist" -/
theorem empty_put_not_retrievable :
    let hash : Bytes → Digest := fun b => b
    (put hash Disk.empty [] 0 ⟨[], .eof⟩).2 = .ok ∧
    getB (put hash Disk.empty [] 0 ⟨[], .eof⟩).1 [] = .res .notExist := by decide

/-- `Put` never touches another digest's file -/
theorem put_frame (hash : Bytes → Digest) (k : Disk) (d d' : Digest) (size : Nat) (s : Script)
    (h : d' ≠ d) : (put hash k d size s).1.blob d' = k.blob d' := by
  unfold put; exact setBlob_other _ _ _ _ h

/-! ## Link -/

/-- **Link requires the blob FILE.**  If `Link(name, d)` succeeds, a file named after `d` exists …  -/
theorem link_requires_blob (hash : Bytes → Digest) (fixed : Bool) (k : Disk) (name : Bytes) (d : Digest)
    (hok : (link hash fixed k name d).2 = .ok) : ∃ f, k.blob d = some f := by
  unfold link at hok
  split at hok
  · cases hok
  · split at hok
    · cases hok
    · next f hf => exact ⟨f, hf⟩

/-- the name `h/n/m:t` -/
def nm : Bytes := [0x68, 0x2f, 0x6e, 0x2f, 0x6d, 0x3a, 0x74]

/-- … but NOT that the cache itself considers the blob present (finding F8-zero): a failed `Put` leaves a
    zero-length file (`Truncate(0)`, not `Remove`); `Get` says "does not exist", `Link` succeeds and links
    the name to an empty manifest, and `Resolve` then returns the digest of the empty string. -/

theorem F8zero_link_to_failed_put :
    let hash : Bytes → Digest := fun b => b        -- any function will do; identity keeps it readable
    let d : Digest := [1, 2, 3]
    let k1 := (put hash Disk.empty d 3 ⟨[[1]], .eof⟩).1           -- short source: the Put fails …
    (put hash Disk.empty d 3 ⟨[[1]], .eof⟩).2 = .short ∧
    getB k1 d = .res .notExist ∧                                    -- … the cache reports the blob absent …
    (link hash false k1 nm d).2 = .ok ∧                            -- … and still links the name to it
    (resolve hash (link hash false k1 nm d).1 nm).2 = .digest [] := by decide

/-- the repaired `Link` (proposed_fixes/C08-F8.patch) links only verified bytes: when it answers ok, either
    the name already held a manifest hashing to `d`, or the blob file's own bytes hash to `d` (or are empty:
    zero-length manifests are used by upstream's push tests and stay linkable — finding F8-zero is not
    repaired by the patch) -/
theorem link_requires_blob_fixed (hash : Bytes → Digest) (k : Disk) (name : Bytes) (d : Digest)
    (hok : (link hash true k name d).2 = .ok) :
    ∃ f, k.blob d = some f ∧
      (f = [] ∨ hash f = d ∨
        ∃ want g, nameToPath name = some want ∧ manGet k.mans (manifestPathOf k.mans want) = some g ∧ hash g = d) := by
  unfold link at hok
  cases hp : nameToPath name with
  | none => simp [hp] at hok
  | some want =>
    simp only [hp] at hok
    cases hb : k.blob d with
    | none => simp [hb] at hok
    | some f =>
      simp only [hb, if_true] at hok
      refine ⟨f, rfl, ?_⟩
      split at hok
      · next hm =>
        right; right
        cases hg : manGet k.mans (manifestPathOf k.mans want) with
        | none => simp [hg] at hm
        | some g => simp [hg] at hm; exact ⟨want, g, rfl, hg, hm⟩
      · by_cases hz : f.length = 0
        · left; exact List.eq_nil_of_length_eq_zero hz
        · right; left
          split at hok
          · next hr =>
            unfold copyNamedEffs at hr
            simp only [Option.map_none, reduceCtorEq, if_false] at hr
            rw [afterStat_res _ _ _ _ _ hz] at hr
            have hl := copyLoop_ok hash d f.length [] (by simp; omega) [f] [] .eof (seenOK_nil hash d _ hz) hr
            simp only [List.nil_append, List.flatten_cons, List.flatten_nil, List.append_nil] at hl
            exact hl.2.2
          · next hne => exact absurd hok (by simpa using hne)

/-! ## concurrent writers of one blob -/

/-- **Concurrent good writers are safe.**  Any number of writers of the same digest whose sources all deliver
    the true content (any chunkings), any interleaving of their stats, opens and writes, any of them dying at
    any point with its current write cut at any byte (`Ev.tear`), starting from an absent file, a shorter
    file (garbage or a crash's leftover) or an already complete one: at EVERY moment the file is trusted.
    Why: nobody truncates (no file is ever longer than `size`), everybody writes `content`'s own bytes at their
    own offsets sequentially from 0, so the file is always a correct prefix plus leftovers and is full-size
    only when it equals `content`. -/
theorem concurrent_good_writers_safe (hash : Bytes → Digest) (d : Digest) (content : Bytes)
    (hh : hash content = d) (scripts : List Script) (hgood : ∀ s ∈ scripts, GoodScript content s)
    (f0 : FileSt)
    (h0 : f0 = none ∨ ∃ g, f0 = some g ∧
      (g.length < content.length ∨ (g.length = content.length ∧ hash g = d)))
    (evs : List Ev) :
    Trusted hash (exec hash d content.length evs ⟨f0, scripts.map W.init⟩).file d content.length := by
  by_cases hsz : content.length = 0
  · rw [hsz]; exact trusted_size_zero hash d _
  · apply concInv_trusted hash d content hh
    apply exec_inv hash d content hh hsz
    have hinit : ∀ w ∈ scripts.map W.init, ∀ N, WOK content f0 N w := by
      intro w hw N
      simp only [List.mem_map] at hw
      obtain ⟨sc, hsc, rfl⟩ := hw
      exact hgood sc hsc
    rcases h0 with rfl | ⟨g, rfl, hlt | ⟨hl, hg⟩⟩
    · exact Or.inr ⟨0, Nat.zero_le _, rfl, fun w hw => hinit w hw 0⟩
    · exact Or.inr ⟨0, Nat.zero_le _, ⟨g, by simp, by simp; omega, by simp; omega⟩, fun w hw => hinit w hw 0⟩
    · refine Or.inl ⟨g, rfl, hl, hg, ?_⟩
      intro w hw
      simp only [List.mem_map] at hw
      obtain ⟨sc, _, rfl⟩ := hw
      trivial

/-- the identity as "hash function" for the concrete witnesses (any function would do; the theorems above
    never look inside `hash`) -/
def idh : Bytes → Digest := fun b => b

/-- **Finding F9: `concurrent_safe` is FALSE with one misbehaving co-writer.**  Content `[1,2,3,4]`; writer 0 is
    good (chunks `[1,2]`,`[3,4]`), writer 1's source fails at once.  Schedule: 0 stats, opens, writes `[1,2]`;
    1 stats (2 ≠ 4 bytes: proceeds, no O_TRUNC), opens, fails ⇒ `Truncate(0)`; 0 writes `[3,4]` at offset 2
    and returns ok.  Left on disk for good: a 4-byte file `[0,0,3,4]` — present, right size, wrong content,
    acknowledged with `nil` to the good writer.  (Second part: if instead the good writer finishes first, the
    failing writer's `Truncate(0)` destroys the completed, acknowledged blob.) -/
theorem F9_failing_cowriter_breaks_trust :
    let c : Bytes := [1, 2, 3, 4]
    let good : Script := ⟨[[1, 2], [3, 4]], .eof⟩
    let bad : Script := ⟨[], .err⟩
    let s := exec idh c 4
      [.step 0, .step 0, .step 0, .step 1, .step 1, .step 1, .step 0, .step 0, .step 0, .step 1, .step 1]
      ⟨none, [.init good, .init bad]⟩
    (s.file = some [0, 0, 3, 4] ∧ ¬ Trusted idh s.file c 4) ∧
    let s2 := exec idh c 4
      [.step 0, .step 0, .step 0, .step 1, .step 1, .step 0, .step 0, .step 0, .step 1, .step 1, .step 1]
      ⟨none, [.init good, .init bad]⟩
    s2.file = some [] := by
  refine ⟨⟨by decide, ?_⟩, by decide⟩
  intro h
  exact absurd (h [0, 0, 3, 4] (by decide) (by decide) (by decide)) (by decide)

/-- Model-only witness (cannot be forced on the real code without a hook between `os.Stat` and
    `os.OpenFile`): starting from a LONGER garbage file even two good writers can expose a full-size holey
    file for a while, because both may decide on `O_TRUNC` before either opens.  This is why
    `concurrent_good_writers_safe` excludes a longer initial file. -/
theorem good_writers_from_longer_file_transiently_unsafe :
    let c : Bytes := [1, 2, 3, 4]
    let good : Script := ⟨[[1, 2], [3, 4]], .eof⟩
    (exec idh c 4 [.step 0, .step 1, .step 0, .step 0, .step 1, .step 0]
      ⟨some [9, 9, 9, 9, 9], [.init good, .init good]⟩).file = some [0, 0, 3, 4] := by decide

/-! ## chunked writes -/

/-- **Finding F10 at the cache level: a chunked blob is "present with the right size" before all chunks are
    written.**  `Chunked(d,4)` + `Put(Chunk{2,3})` of content `[1,2,3,4]`: the file is `[0,0,3,4]`; `Get` reports
    size 4; it is not trusted; and a later `Put` of the true content is answered `ok` from the size shortcut
    without repairing it. -/
theorem F10_chunk_holes_present_with_full_size :
    let c : Bytes := [1, 2, 3, 4]
    let k := chunk idh Disk.empty c 4 2 3 [3, 4] ⟨[[3, 4]], .eof⟩
    k.2 = .ok ∧ k.1.blob c = some [0, 0, 3, 4] ∧ getB k.1 c = .entry 4 ∧
    ¬ Trusted idh (k.1.blob c) c 4 ∧
    (put idh k.1 c 4 ⟨[c], .eof⟩).2 = .ok ∧ (put idh k.1 c 4 ⟨[c], .eof⟩).1.blob c = some [0, 0, 3, 4] := by
  refine ⟨by decide, by decide, by decide, ?_, by decide, by decide⟩
  intro h
  exact absurd (h [0, 0, 3, 4] (by decide) (by decide) (by decide)) (by decide)

/-! ## Link then Resolve -/

/-- **Finding F8: `Link n d = ok → Resolve n = d` is FALSE** when `n` is already linked to a different manifest
    of the same size: the second `Link` answers ok and changes nothing.  (Second part: the repaired `Link`.) -/
theorem F8_relink_same_size_keeps_old :
    let A : Bytes := [1, 1, 1]
    let B : Bytes := [2, 2, 2]
    let ops : List Op := [.put A 3 ⟨[A], .eof⟩, .put B 3 ⟨[B], .eof⟩, .link nm A, .link nm B, .resolve nm]
    (runOps idh false false ops Disk.empty).2 = [.res .ok, .res .ok, .res .ok, .res .ok, .digest A] ∧
    (runOps idh true false ops Disk.empty).2 = [.res .ok, .res .ok, .res .ok, .res .ok, .digest B] := by decide

/-- non-vacuity of the hypotheses of the universally quantified theorems above: a good script, a proper
    crash cut with a torn write, a trusted shorter-garbage start -/
example : GoodScript [1, 2, 3, 4] ⟨[[1], [], [2, 3], [4]], .eof⟩ ∧
    Cut (copyNamedEffs idh (some [9, 9]) [1, 2, 3, 4] 4 ⟨[[1], [2, 3, 4]], .eof⟩).1
      [.openCreate false, .pwrite 0 [1], .pwrite 1 [2, 3]] ∧
    Trusted idh (some [9, 9]) [1, 2, 3, 4] 4 ∧
    run [.openCreate false, .pwrite 0 [1], .pwrite 1 [2, 3]] (some [9, 9]) = some [1, 2, 3] := by
  refine ⟨⟨by decide, rfl⟩, ?_, ?_, by decide⟩
  · have : (copyNamedEffs idh (some [9, 9]) [1, 2, 3, 4] 4 ⟨[[1], [2, 3, 4]], .eof⟩).1 =
        [.openCreate false, .pwrite 0 [1], .pwrite 1 [2, 3, 4], .close] := by decide
    rw [this]
    exact Cut.next _ _ _ (Cut.next _ _ _ (Cut.torn 1 [2, 3, 4] [.close] 2))
  · intro f hf _ hl; cases hf; simp at hl

/-- **Resolve returns the hash of the manifest file.**  Whenever `Resolve(name)` (a plain name, no `@digest`)
    answers a digest, a manifest file exists at `manifestPath(name)`, the digest is the hash of exactly its
    bytes, no manifest is touched, and — if the blob slot of that digest was trusted — the bytes are now
    retrievable as a blob of that size. -/
theorem resolve_hash_of_file (hash : Bytes → Digest) (k : Disk) (name : Bytes) (d' : Digest)
    (hnd : (splitNameDigest name).2 = [])
    (h : (resolve hash k name).2 = .digest d') :
    ∃ want data, nameToPath (splitNameDigest name).1 = some want ∧
      manGet k.mans (manifestPathOf k.mans want) = some data ∧ d' = hash data ∧
      (resolve hash k name).1.mans = k.mans ∧
      (data ≠ [] → Trusted hash (k.blob (hash data)) (hash data) data.length →
        getB (resolve hash k name).1 (hash data) = .entry data.length) := by
  unfold resolve at h ⊢
  simp only [hnd, ne_eq, not_true_eq_false, if_false] at h ⊢
  cases hp : nameToPath (splitNameDigest name).1 with
  | none => simp [hp] at h
  | some want =>
    simp only [hp] at h ⊢
    cases hm : manGet k.mans (manifestPathOf k.mans want) with
    | none => simp [hm] at h
    | some data =>
      simp only [hm] at h ⊢
      have hok : (put hash k (hash data) data.length ⟨[data], .eof⟩).2 = .ok := by
        unfold put; exact copyNamed_exact_ok hash _ data
      simp only [hok, Out.digest.injEq] at h ⊢
      refine ⟨want, data, rfl, hm, h.symm, rfl, ?_⟩
      intro hne ht
      have hsz : data.length ≠ 0 := by intro e; exact hne (List.eq_nil_of_length_eq_zero e)
      exact (put_ok_retrievable hash k (hash data) data.length _ hsz ht hok).1

/-- **Link then Resolve (partial).**  `Link(name, d) = ok` and `Resolve(name) = d`, PROVIDED the blob file's
    bytes hash to `d` and the name is not currently linked to a manifest of the same size (the guard excludes
    exactly finding F8; a same-size manifest that happens to be the same bytes is excluded too, harmlessly).
    What is missing for the full statement: `Link` must not apply the same-size shortcut to the mutable
    manifest name (proposed_fixes/C08-F8.patch; see `link_then_resolve_fixed`). -/
theorem link_then_resolve_partial (hash : Bytes → Digest) (k : Disk) (name : Bytes) (d : Digest)
    (f : Bytes) (want : MPath)
    (hat : splitNameDigest name = (name, []))
    (hp : nameToPath name = some want)
    (hb : k.blob d = some f) (hh : hash f = d)
    (hguard : (manGet k.mans (manifestPathOf k.mans want)).map List.length ≠ some f.length) :
    (link hash false k name d).2 = .ok ∧
    (resolve hash (link hash false k name d).1 name).2 = .digest d := by
  subst hh
  have hlink : link hash false k name (hash f) =
      ({ k with mans := manSet k.mans (manifestPathOf k.mans want) (some f) }, .ok) := by
    unfold link
    simp only [hp, hb, Bool.false_eq_true, if_false]
    rw [copyNamed_exact_file hash _ f hguard, copyNamed_exact_ok]
  rw [hlink]
  refine ⟨rfl, ?_⟩
  unfold resolve
  simp only [hat, ne_eq, not_true_eq_false, if_false, hp, manifestPathOf_manSet, manGet_manSet_same]
  have hok : ∀ k', (put hash k' (hash f) f.length ⟨[f], .eof⟩).2 = .ok := by
    intro k'; unfold put; exact copyNamed_exact_ok hash _ f
  simp only [hok]

/-- with the repaired `Link` the guard on the old manifest disappears -/
theorem link_then_resolve_fixed (hash : Bytes → Digest) (k : Disk) (name : Bytes) (d : Digest)
    (f : Bytes) (want : MPath)
    (hat : splitNameDigest name = (name, []))
    (hp : nameToPath name = some want)
    (hb : k.blob d = some f) (hh : hash f = d) :
    (link hash true k name d).2 = .ok ∧
    (resolve hash (link hash true k name d).1 name).2 = .digest d := by
  subst hh
  have hok : ∀ (k' : Disk) (g : Bytes), (put hash k' (hash g) g.length ⟨[g], .eof⟩).2 = .ok := by
    intro k' g; unfold put; exact copyNamed_exact_ok hash _ g
  by_cases hm : (manGet k.mans (manifestPathOf k.mans want)).map hash = some (hash f)
  · -- already linked to a manifest with this digest: nop
    have hlink : link hash true k name (hash f) = (k, .ok) := by
      unfold link; simp only [hp, hb, if_true, hm]
    rw [hlink]
    refine ⟨rfl, ?_⟩
    cases hg : manGet k.mans (manifestPathOf k.mans want) with
    | none => simp [hg] at hm
    | some g =>
      simp only [hg, Option.map_some, Option.some.injEq] at hm
      unfold resolve
      simp only [hat, ne_eq, not_true_eq_false, if_false, hp, hg]
      rw [← hm]
      simp only [hok]
  · have hrun : run (copyNamedEffs hash none (hash f) f.length ⟨[f], .eof⟩).1 none = some f :=
      copyNamed_exact_file hash none f (by simp)
    have hlink : link hash true k name (hash f) =
        ({ k with mans := manSet k.mans (manifestPathOf k.mans want) (some f) }, .ok) := by
      unfold link
      simp only [hp, hb, if_true, hm, if_false, copyNamed_exact_ok, hrun]
    rw [hlink]
    refine ⟨rfl, ?_⟩
    unfold resolve
    simp only [hat, ne_eq, not_true_eq_false, if_false, hp, manifestPathOf_manSet, manGet_manSet_same, hok]

/-- non-vacuity of `link_then_resolve_partial`: name `h/n/m:t`, a 3-byte blob, nothing linked yet -/
example : splitNameDigest nm = (nm, []) ∧ (nameToPath nm).isSome = true ∧
    (manGet Disk.empty.mans (manifestPathOf Disk.empty.mans [[0x68], [0x6e], [0x6d], [0x74]])).map List.length
      ≠ some 3 := by decide
/-! ## every history (no crash, no chunked writes) -/

/-- every blob file is empty or hashes to its name -/
def BlobOK (hash : Bytes → Digest) (k : Disk) : Prop :=
  ∀ d f, k.blob d = some f → f = [] ∨ hash f = d

def FileOKFor (hash : Bytes → Digest) (d : Digest) (st : FileSt) : Prop :=
  ∀ f, st = some f → f = [] ∨ hash f = d

theorem afterStat_effs_fail (hash : Bytes → Digest) (trunc : Bool) (d : Digest) (size : Nat) (s : Script)
    (hsz : size ≠ 0) (hne : (copyLoop hash d size 0 [] s.chunks s.fin).2 ≠ .ok) :
    (afterStat hash trunc d size s).1 =
      .openCreate trunc :: ((copyLoop hash d size 0 [] s.chunks s.fin).1 ++ [.truncate 0, .close]) := by
  unfold afterStat
  simp only [hsz, if_false]
  first
    | (split
       · next h => exact absurd h hne
       · rfl)
    | simp

theorem run_trunc_tail (es : List Eff) (st : FileSt) :
    run (es ++ [.truncate 0, .close]) st = none ∨ run (es ++ [.truncate 0, .close]) st = some [] := by
  rw [run_append]
  cases run es st with
  | none => left; rfl
  | some f => right; simp [run, applyEff, truncTo, zeros]

/-- without a crash `copyNamedFile` leaves the file as it was (same size), empty, or complete and verified -/
theorem copyNamed_final (hash : Bytes → Digest) (st : FileSt) (d : Digest) (size : Nat) (s : Script)
    (h0 : FileOKFor hash d st) : FileOKFor hash d (run (copyNamedEffs hash st d size s).1 st) := by
  unfold copyNamedEffs
  split
  · exact h0
  · next hne =>
    by_cases hsz : size = 0
    · subst hsz
      intro f hf
      left
      cases st with
      | none => simp [afterStat, run, applyEff] at hf; exact hf
      | some g =>
        have hg : g.length ≠ 0 := by intro e; apply hne; simp [e]
        have : statTrunc (some g) 0 = true := by simp [statTrunc]; omega
        simp [afterStat, this, run, applyEff] at hf; exact hf
    · by_cases hok : (copyLoop hash d size 0 [] s.chunks s.fin).2 = .ok
      · rw [afterStat_effs_ok _ _ _ _ _ hsz hok]
        obtain ⟨g, hopen, hg⟩ := open_short st size hne hsz
        have := copyLoop_ok hash d size g hg s.chunks [] s.fin (seenOK_nil hash d size hsz) hok
        simp only [overlay_nil, List.nil_append] at this
        intro f hf
        simp only [run_cons, hopen, run_append, this.1] at hf
        simp [run, applyEff] at hf
        right; rw [← hf]; exact this.2.2
      · rw [afterStat_effs_fail _ _ _ _ _ hsz hok]
        intro f hf
        simp only [run_cons] at hf
        rcases run_trunc_tail (copyLoop hash d size 0 [] s.chunks s.fin).1
          (applyEff (.openCreate (statTrunc st size)) st) with h | h
        · rw [h] at hf; cases hf
        · rw [h] at hf; cases hf; left; rfl

theorem put_blobOK (hash : Bytes → Digest) (k : Disk) (d : Digest) (size : Nat) (s : Script)
    (h : BlobOK hash k) : BlobOK hash (put hash k d size s).1 := by
  intro d' f hf
  unfold put at hf
  by_cases hd : d' = d
  · subst hd
    simp only [setBlob_same] at hf
    exact copyNamed_final hash (k.blob d') d' size s (fun f hf => h d' f hf) f hf
  · rw [setBlob_other _ _ _ _ hd] at hf
    exact h d' f hf

/-- whatever the source does, a `Put` under a negative size leaves the file as it was (refused), or empty -/
theorem copyNamedNeg_file (refuse : Bool) (st : FileSt) (s : Script) :
    run (copyNamedNegEffs refuse st s).1 st = st ∨ run (copyNamedNegEffs refuse st s).1 st = some [] := by
  unfold copyNamedNegEffs
  split
  · left; rfl
  · right
    split
    · cases st <;> simp [run, applyEff, truncTo, zeros]
    · split <;> cases st <;> simp [run, applyEff, truncTo, zeros]

theorem putNeg_blobOK (hash : Bytes → Digest) (refuse : Bool) (k : Disk) (d : Digest) (s : Script)
    (h : BlobOK hash k) : BlobOK hash (putNeg refuse k d s).1 := by
  intro d' f hf
  unfold putNeg at hf
  by_cases hd : d' = d
  · subst hd
    simp only [setBlob_same] at hf
    rcases copyNamedNeg_file refuse (k.blob d') s with h1 | h1
    · rw [h1] at hf; exact h d' f hf
    · rw [h1] at hf; cases hf; left; rfl
  · rw [setBlob_other _ _ _ _ hd] at hf
    exact h d' f hf

theorem edit_blob (k : Disk) (name data : Bytes) : (edit k name data).1.blob = k.blob := by
  unfold edit; split <;> rfl

def noChunk : Op → Bool
  | .chunk .. => false
  | .session .. => false
  | _ => true

theorem linkZ_blob_eq (hash : Bytes → Digest) (zc fixed : Bool) (k : Disk) (name : Bytes) (d : Digest) :
    (linkZ hash zc fixed k name d).1.blob = k.blob := by
  have hl : (link hash fixed k name d).1.blob = k.blob := by
    unfold link
    split
    · rfl
    · split
      · rfl
      · dsimp only
        split
        · split
          · rfl
          · split <;> rfl
        · rfl
  unfold linkZ
  split
  · rfl
  · split
    · rfl
    · exact hl

theorem resolve_blobOK (hash : Bytes → Digest) (k : Disk) (name : Bytes) (h : BlobOK hash k) :
    BlobOK hash (resolve hash k name).1 := by
  simp only [resolve]
  split
  · split <;> exact h
  · split
    · exact h
    · split
      · exact h
      · split <;> exact put_blobOK hash k _ _ _ h

theorem resolve_mans (hash : Bytes → Digest) (k : Disk) (name : Bytes) :
    (resolve hash k name).1.mans = k.mans := by
  simp only [resolve]
  split
  · split <;> rfl
  · split
    · rfl
    · split
      · rfl
      · split <;> rfl

theorem stepOp_blobOK (hash : Bytes → Digest) (fixed zc : Bool) (k : Disk) (op : Op) (hn : noChunk op = true)
    (h : BlobOK hash k) : BlobOK hash (stepOp hash fixed zc k op).1 := by
  cases op with
  | put d size s => exact put_blobOK hash k d size s h
  | importB size s =>
    simp only [stepOp, importB]
    split
    · next d es _ heq =>
      unfold importEffs at heq
      split at heq
      · cases heq
      · split at heq
        · cases heq
        · simp only [Prod.mk.injEq, Option.some.injEq] at heq
          obtain ⟨⟨rfl, rfl⟩, _⟩ := heq
          intro d' f hf
          by_cases hd : d' = hash s.data
          · subst hd
            simp [run, applyEff] at hf
            right; rw [← hf]
          · rw [setBlob_other _ _ _ _ hd] at hf
            exact h d' f hf
    · exact h
  | get d => exact h
  | link name d =>
    have hl : ∀ (fx : Bool), BlobOK hash (link hash fx k name d).1 := by
      intro fx
      simp only [link]
      split
      · exact h
      · split
        · exact h
        · split
          · split
            · exact h
            · split
              · exact h
              · exact h
          · exact h
    simp only [stepOp, linkZ]
    split
    · exact h
    · split
      · exact h
      · exact hl fixed
  | linkR name d =>
    by_cases hfire : linkRFires hash fixed zc k name d = true
    · simp only [stepOp, hfire, if_true]
      intro d' f hf
      rw [linkZ_blob_eq] at hf
      exact resolve_blobOK hash k name h d' f hf
    · simp only [stepOp, hfire, Bool.false_eq_true, if_false]
      intro d' f hf
      rw [linkZ_blob_eq] at hf
      exact h d' f hf
  | unlink name =>
    simp only [stepOp, unlink]
    split
    · exact h
    · split <;> exact h
  | resolve name =>
    simp only [stepOp, resolve]
    split
    · split <;> exact h
    · split
      · exact h
      · split
        · exact h
        · split <;> exact put_blobOK hash k _ _ _ h
  | chunk d size a b cd s => cases hn
  | putNeg d s => exact putNeg_blobOK hash false k d s h
  | edit name data =>
    intro d' f hf
    simp only [stepOp] at hf
    rw [edit_blob] at hf
    exact h d' f hf
  | session d size puts => cases hn

/-- **Every history.**  Starting from a disk whose blob files are each empty or correct (in particular the
    empty disk), after ANY sequence of Put / Import / Get / Link / Unlink / Resolve with arbitrary — faulty —
    sources (no crash; `Chunked` excluded: finding F10), every blob file is absent, empty, or hashes to its
    name …  -/
theorem history_blobs_valid (hash : Bytes → Digest) (fixed zc : Bool) : ∀ (ops : List Op) (k : Disk),
    (∀ op ∈ ops, noChunk op = true) → BlobOK hash k → BlobOK hash (runOps hash fixed zc ops k).1 := by
  intro ops
  induction ops with
  | nil => intro k _ h; exact h
  | cons op ops ih =>
    intro k hn h
    simp only [runOps]
    exact ih _ (fun o ho => hn o (List.mem_cons_of_mem _ ho))
      (stepOp_blobOK hash fixed zc k op (hn op (List.mem_cons_self)) h)

/-- … hence whatever `Get` reports present — under ANY size — has the right content. -/
theorem history_get_trusted (hash : Bytes → Digest) (fixed zc : Bool) (ops : List Op)
    (hn : ∀ op ∈ ops, noChunk op = true) (d : Digest) (n : Nat)
    (hg : getB (runOps hash fixed zc ops Disk.empty).1 d = .entry n) :
    ∃ f, (runOps hash fixed zc ops Disk.empty).1.blob d = some f ∧ f.length = n ∧ hash f = d := by
  have hok := history_blobs_valid hash fixed zc ops Disk.empty hn (by intro d f hf; cases hf)
  unfold getB at hg
  cases hb : (runOps hash fixed zc ops Disk.empty).1.blob d with
  | none => simp [hb] at hg
  | some f =>
    simp only [hb] at hg
    split at hg
    · cases hg
    · next hz =>
      simp only [Out.entry.injEq] at hg
      refine ⟨f, rfl, hg, ?_⟩
      rcases hok d f hb with rfl | h
      · simp at hz
      · exact h

/-! ## Link with the zero-length refusal (proposed_fixes/C08-F8-zero.patch) -/

theorem linkZ_eq_link (hash : Bytes → Digest) (zc fixed : Bool) (k : Disk) (name : Bytes) (d : Digest)
    (h : ¬ (zc = true ∧ k.blob d = some [] ∧ d ≠ hash [])) :
    linkZ hash zc fixed k name d = link hash fixed k name d := by
  unfold linkZ
  cases hp : nameToPath name with
  | none => simp [link, hp]
  | some w => simp only [h, if_false]

/-- Link-then-Resolve for the repaired `Link`, with or without the zero-length refusal: no guard -/
theorem linkZ_then_resolve_fixed (hash : Bytes → Digest) (zc : Bool) (k : Disk) (name : Bytes) (d : Digest)
    (f : Bytes) (want : MPath)
    (hat : splitNameDigest name = (name, []))
    (hp : nameToPath name = some want)
    (hb : k.blob d = some f) (hh : hash f = d) :
    (linkZ hash zc true k name d).2 = .ok ∧
    (resolve hash (linkZ hash zc true k name d).1 name).2 = .digest d := by
  have hno : ¬ (zc = true ∧ k.blob d = some [] ∧ d ≠ hash []) := by
    rintro ⟨_, he, hne⟩
    rw [hb] at he
    cases he
    exact hne hh.symm
  rw [linkZ_eq_link hash zc true k name d hno]
  exact link_then_resolve_fixed hash k name d f want hat hp hb hh

/-- a successful `linkZ` went through `link` -/
theorem linkZ_ok (hash : Bytes → Digest) (zc fixed : Bool) (k : Disk) (name : Bytes) (d : Digest)
    (hok : (linkZ hash zc fixed k name d).2 = .ok) :
    ¬ (zc = true ∧ k.blob d = some [] ∧ d ≠ hash []) ∧ (link hash fixed k name d).2 = .ok := by
  by_cases h : zc = true ∧ k.blob d = some [] ∧ d ≠ hash []
  · unfold linkZ at hok
    cases hp : nameToPath name with
    | none => simp [hp] at hok
    | some w => simp [hp, h] at hok
  · rw [linkZ_eq_link hash zc fixed k name d h] at hok
    exact ⟨h, hok⟩

/-- **Link requires the blob, full strength, for `Link` with both repairs**: if it answers ok, the blob file
    exists and its bytes hash to `d` (so `Get` reports it present unless `d` is the digest of the empty string),
    or the name already holds a manifest hashing to `d`.  This closes finding F8-zero. -/
theorem link_requires_blob_zero_checked (hash : Bytes → Digest) (k : Disk) (name : Bytes) (d : Digest)
    (hok : (linkZ hash true true k name d).2 = .ok) :
    ∃ f, k.blob d = some f ∧
      (hash f = d ∨
        ∃ want g, nameToPath name = some want ∧ manGet k.mans (manifestPathOf k.mans want) = some g ∧ hash g = d) := by
  obtain ⟨hno, hl⟩ := linkZ_ok hash true true k name d hok
  obtain ⟨f, hb, h⟩ := link_requires_blob_fixed hash k name d hl
  refine ⟨f, hb, ?_⟩
  rcases h with rfl | h | h
  · left
    by_cases hd : d = hash []
    · exact hd.symm
    · exact absurd ⟨rfl, hb, hd⟩ hno
  · exact Or.inl h
  · exact Or.inr h

/-- the F8-zero history with the zero-length refusal: the Link is refused -/
theorem F8zero_refused_with_zero_check :
    let d : Digest := [1, 2, 3]
    let k1 := (put idh Disk.empty d 3 ⟨[[1]], .eof⟩).1
    (linkZ idh true true k1 nm d).2 = .notExist ∧ (linkZ idh false true k1 nm d).2 = .ok := by decide

/-! ## name operations are confined to manifests/ -/

/-- **Frame of the name operations.**  `Link` and `Unlink` (any variant, any string as name — hostile ones
    included) leave every blob untouched, and keep every manifest at a path of exactly four safe components
    (`SafePath`: non-empty, not starting with `.`, no `/`), i.e. strictly inside `manifests/`.  The model keeps
    blobs and manifests in two maps; THIS theorem is what justifies that split: a name can never denote a
    file outside `manifests/<h>/<n>/<m>/<t>`. -/
theorem link_confined (hash : Bytes → Digest) (zc fixed : Bool) (k : Disk) (name : Bytes) (d : Digest)
    (hm : AllSafe k.mans) :
    (linkZ hash zc fixed k name d).1.blob = k.blob ∧ AllSafe (linkZ hash zc fixed k name d).1.mans := by
  have hl : (link hash fixed k name d).1.blob = k.blob ∧ AllSafe (link hash fixed k name d).1.mans := by
    unfold link
    cases hp : nameToPath name with
    | none => exact ⟨rfl, hm⟩
    | some want =>
      have hs := manifestPathOf_safe k.mans want hm (nameToPath_safe name want hp)
      simp only
      cases hb : k.blob d with
      | none => exact ⟨rfl, hm⟩
      | some f =>
        simp only
        split
        · split
          · exact ⟨rfl, hm⟩
          · split
            · exact ⟨rfl, manSet_safe _ _ _ hm hs⟩
            · exact ⟨rfl, hm⟩
        · exact ⟨rfl, manSet_safe _ _ _ hm hs⟩
  unfold linkZ
  split
  · exact ⟨rfl, hm⟩
  · split
    · exact ⟨rfl, hm⟩
    · exact hl

theorem unlink_confined (k : Disk) (name : Bytes) (hm : AllSafe k.mans) :
    (unlink k name).1.blob = k.blob ∧ AllSafe (unlink k name).1.mans := by
  unfold unlink
  cases hp : nameToPath name with
  | none => exact ⟨rfl, hm⟩
  | some want =>
    have hs := manifestPathOf_safe k.mans want hm (nameToPath_safe name want hp)
    simp only
    split
    · exact ⟨rfl, hm⟩
    · exact ⟨rfl, manSet_safe k.mans _ none hm hs⟩

/-- over every history (all ops, all names) from the empty disk, every manifest sits at a safe path -/
theorem history_manifests_confined (hash : Bytes → Digest) (fixed zc : Bool) : ∀ (ops : List Op) (k : Disk),
    AllSafe k.mans → AllSafe (runOps hash fixed zc ops k).1.mans := by
  intro ops
  induction ops with
  | nil => intro k h; exact h
  | cons op ops ih =>
    intro k h
    simp only [runOps]
    apply ih
    cases op with
    | put d size s => exact h
    | importB size s =>
      simp only [stepOp, importB]
      split <;> exact h
    | get d => exact h
    | link name d => exact (link_confined hash zc fixed k name d h).2
    | linkR name d =>
      by_cases hfire : linkRFires hash fixed zc k name d = true
      · simp only [stepOp, hfire, if_true]
        exact (link_confined hash zc fixed (resolve hash k name).1 name d (by rw [resolve_mans]; exact h)).2
      · simp only [stepOp, hfire, Bool.false_eq_true, if_false]
        exact (link_confined hash zc fixed k name d h).2
    | unlink name => exact (unlink_confined k name h).2
    | resolve name =>
      simp only [stepOp, resolve]
      split
      · split <;> exact h
      · split
        · exact h
        · split
          · exact h
          · split <;> exact h
    | chunk d size a b cd s => exact h
    | putNeg d s => exact h
    | session d size puts => exact h
    | edit name data =>
      simp only [stepOp, edit]
      cases hp : nameToPath name with
      | none => exact h
      | some want => exact manSet_safe k.mans want (some data) h (nameToPath_safe name want hp)

/-! ## crash – restart – retry histories of one blob file -/

/-- states of one blob file reachable by any number of `Put`s (arbitrary scripts) and `Import`s of content
    hashing to `d`, EACH of which may be cut by a crash at any point (a complete run is a cut too), every `Put`
    under the size `size` -/
inductive CrashReach (hash : Bytes → Digest) (d : Digest) (size : Nat) : FileSt → FileSt → Prop
  | refl (st) : CrashReach hash d size st st
  | put (st st' : FileSt) (s : Script) (p : List Eff) :
      CrashReach hash d size st st' → Cut (copyNamedEffs hash st' d size s).1 p →
      CrashReach hash d size st (run p st')
  | imp (st st' : FileSt) (n : Nat) (s : Script) (es p : List Eff) :
      CrashReach hash d size st st' → (importEffs hash n s).1 = some (d, es) → Cut es p →
      CrashReach hash d size st (run p st')

/-- **Crash histories.**  Any sequence of possibly-crashed writes of `d` keeps the file trusted: what a crash
    leaves is a legitimate start for the retry, for any number of rounds. -/
theorem crash_history_trusted (hash : Bytes → Digest) (d : Digest) (size : Nat) (st st' : FileSt)
    (hr : CrashReach hash d size st st') (h0 : Trusted hash st d size) : Trusted hash st' d size := by
  induction hr with
  | refl => exact h0
  | put st' s p _ hc ih => exact single_writer_crash_safe hash d size s st' ih p hc
  | imp st' n s es p _ hi hc ih => exact import_crash_safe hash n s st' d es hi p hc size ih

/-! ## Link as effects on the manifest file: crash cuts and concurrent Resolve -/

/-- `linkFileEffs` IS what the repaired `Link` does to the manifest of a valid name: same result, and the
    manifest file ends as the effects leave it -/
theorem linkZ_file_effs (hash : Bytes → Digest) (zc : Bool) (k : Disk) (name : Bytes) (d : Digest)
    (want : MPath) (hp : nameToPath name = some want) :
    (linkZ hash zc true k name d).2 =
      (linkFileEffs hash zc (manGet k.mans (manifestPathOf k.mans want)) (k.blob d) d).2 ∧
    manGet (linkZ hash zc true k name d).1.mans (manifestPathOf k.mans want) =
      run (linkFileEffs hash zc (manGet k.mans (manifestPathOf k.mans want)) (k.blob d) d).1
        (manGet k.mans (manifestPathOf k.mans want)) := by
  cases hb : k.blob d with
  | none =>
    have hL : linkZ hash zc true k name d = (k, .notExist) := by
      unfold linkZ link; simp [hp, hb]
    rw [hL]; simp [linkFileEffs]
  | some f =>
    by_cases hz : zc = true ∧ f = [] ∧ d ≠ hash []
    · have hL : linkZ hash zc true k name d = (k, .notExist) := by
        unfold linkZ
        have : zc = true ∧ k.blob d = some [] ∧ d ≠ hash [] := ⟨hz.1, by rw [hb, hz.2.1], hz.2.2⟩
        simp only [hp]
        rw [if_pos this]
      rw [hL]; simp [linkFileEffs, hz]
    · have hz2 : ¬ (zc = true ∧ k.blob d = some [] ∧ d ≠ hash []) := by
        rintro ⟨a, b, c⟩
        rw [hb] at b
        exact hz ⟨a, by simpa using b, c⟩
      rw [linkZ_eq_link hash zc true k name d hz2]
      by_cases hm : (manGet k.mans (manifestPathOf k.mans want)).map hash = some d
      · have hL : link hash true k name d = (k, .ok) := by
          unfold link; simp only [hp, hb, if_true, hm]
        have hE : linkFileEffs hash zc (manGet k.mans (manifestPathOf k.mans want)) (some f) d
            = ([.openRead], .ok) := by
          unfold linkFileEffs; simp only [hz, if_false, hm, if_true]
        rw [hL, hE]; simp [run, applyEff]
      · by_cases hr : (copyNamedEffs hash none d f.length ⟨[f], .eof⟩).2 = .ok
        ·
          have hf : run (copyNamedEffs hash none d f.length ⟨[f], .eof⟩).1 none = some f := by
            by_cases hl : f.length = 0
            · have : f = [] := List.eq_nil_of_length_eq_zero hl
              subst this
              simp [copyNamedEffs, afterStat, statTrunc, run, applyEff]
            · have hr' := hr
              unfold copyNamedEffs at hr' ⊢
              simp only [Option.map_none, reduceCtorEq, if_false] at hr' ⊢
              rw [afterStat_res _ _ _ _ _ hl] at hr'
              rw [afterStat_effs_ok _ _ _ _ _ hl hr']
              have := copyLoop_ok hash d f.length [] (by simp; omega) [f] [] .eof (seenOK_nil hash d _ hl) hr'
              simp only [overlay_nil, List.nil_append, List.flatten_cons, List.flatten_nil, List.append_nil] at this
              simp only [run_cons, run_append, applyEff, statTrunc, this.1]
              rfl
          have hL : link hash true k name d =
              ({ k with mans := manSet k.mans (manifestPathOf k.mans want) (some f) }, .ok) := by
            unfold link; simp only [hp, hb, if_true, hm, if_false, hr, hf]
          have hE : linkFileEffs hash zc (manGet k.mans (manifestPathOf k.mans want)) (some f) d
              = ([.openRead, .replace f], .ok) := by
            unfold linkFileEffs; simp only [hz, if_false, hm, hr]
          rw [hL, hE]
          simp [manGet_manSet_same, run, applyEff]
        · have hL : link hash true k name d = (k, (copyNamedEffs hash none d f.length ⟨[f], .eof⟩).2) := by
            unfold link; simp only [hp, hb, if_true, hm, if_false]
          have hE : linkFileEffs hash zc (manGet k.mans (manifestPathOf k.mans want)) (some f) d
              = ([.openRead], (copyNamedEffs hash none d f.length ⟨[f], .eof⟩).2) := by
            unfold linkFileEffs; simp only [hz, if_false, hm]
          rw [hL, hE]; simp [run, applyEff]

/-- **Link is atomic on the manifest under crashes** (tree variant: temp + rename, zero-length refusal).  Whatever
    the manifest and the blob file are, every crash cut of `Link`'s effects leaves the manifest exactly as it was,
    or holding the blob's complete bytes, which hash to `d`.  No cut exposes an empty or partial manifest. -/
theorem link_crash_atomic (hash : Bytes → Digest) (man blob : FileSt) (d : Digest) (p : List Eff)
    (hc : Cut (linkFileEffs hash true man blob d).1 p) :
    run p man = man ∨ ∃ f, run p man = some f ∧ blob = some f ∧ hash f = d := by
  unfold linkFileEffs at hc
  cases blob with
  | none => cases hc; exact Or.inl rfl
  | some f =>
    simp only at hc
    split at hc
    · cases hc; exact Or.inl rfl
    · next hz =>
      split at hc
      · cases hc with
        | stop => exact Or.inl rfl
        | next _ _ p' hc' => cases hc'; exact Or.inl rfl
      · split at hc
        · next hr =>
          have hh : hash f = d := by
            by_cases hl : f.length = 0
            · have hf : f = [] := List.eq_nil_of_length_eq_zero hl
              by_cases hd : d = hash []
              · rw [hf]; exact hd.symm
              · exact absurd ⟨by trivial, hf, hd⟩ hz
            · unfold copyNamedEffs at hr
              simp only [Option.map_none, reduceCtorEq, if_false] at hr
              rw [afterStat_res _ _ _ _ _ hl] at hr
              have := copyLoop_ok hash d f.length [] (by simp; omega) [f] [] .eof (seenOK_nil hash d _ hl) hr
              simpa using this.2.2
          cases hc with
          | stop => exact Or.inl rfl
          | next _ _ p' hc' =>
            cases hc' with
            | stop => exact Or.inl rfl
            | next _ _ p'' hc'' =>
              cases hc''
              exact Or.inr ⟨f, by simp [run, applyEff], rfl, hh⟩
        · cases hc with
          | stop => exact Or.inl rfl
          | next _ _ p' hc' => cases hc'; exact Or.inl rfl

/-- **Every name that resolves, resolves to a digest somebody asked for.**  Let `S` hold of the digests that
    acknowledged Links of this name asked for, and let the manifest currently hash into `S` (or be absent).  Then at
    every crash cut of a `Link(name, d)` — equivalently, at every moment a concurrent `Resolve` can read the
    manifest while that Link is in flight, since each such moment is a prefix of its effects — the manifest is
    absent or its bytes hash to a digest in `S` or to `d`.  (`Resolve` returns exactly that hash:
    `resolve_hash_of_file`.) -/
theorem link_cut_resolves_asked (hash : Bytes → Digest) (S : Digest → Prop) (man blob : FileSt) (d : Digest)
    (h0 : ∀ g, man = some g → S (hash g)) (p : List Eff)
    (hc : Cut (linkFileEffs hash true man blob d).1 p) :
    ∀ g, run p man = some g → S (hash g) ∨ hash g = d := by
  intro g hg
  rcases link_crash_atomic hash man blob d p hc with h | ⟨f, hf, _, hh⟩
  · rw [h] at hg; exact Or.inl (h0 g hg)
  · rw [hf] at hg; cases hg; exact Or.inr hh

/-- the in-place first Link of seeded change C08-E, as effects, and its cut that the repaired Link cannot have:
    the name exists with EMPTY content after the open, so it resolves to the digest of the empty string -/
theorem inplace_first_link_exposes_empty_manifest :
    let f : Bytes := [1, 2, 3]
    let inplace := (copyNamedEffs idh none f 3 ⟨[f], .eof⟩).1
    Cut inplace [.openCreate false] ∧ run [.openCreate false] none = some [] ∧
    ¬ (∃ p, Cut (linkFileEffs idh true none (some f) f).1 p ∧ run p none = some []) := by
  refine ⟨?_, by decide, ?_⟩
  · have : (copyNamedEffs idh none [1, 2, 3] 3 ⟨[[1, 2, 3]], .eof⟩).1 =
        [.openCreate false, .pwrite 0 [1, 2, 3], .close] := by decide
    rw [this]; exact Cut.next _ _ _ (Cut.stop _)
  · rintro ⟨p, hc, hr⟩
    rcases link_crash_atomic idh none (some [1, 2, 3]) [1, 2, 3] p hc with h | ⟨f, hf, hb, _⟩
    · rw [h] at hr; cases hr
    · rw [hf] at hr; cases hb; cases hr

/-! ## the effect-list shape crash safety rests on (`noEarlyFull`) -/

theorem copyLoop_noEarlyFull (hash : Bytes → Digest) (d : Digest) (size : Nat) (hsz : size ≠ 0) (glen : Nat)
    (hg : glen < size) (tail : List Eff) (ht : IsTail tail) :
    ∀ (chunks : List Bytes) (seen : Bytes) (fin : SrcEnd), seen.length ≤ size →
      noEarlyFull size (max glen seen.length) seen.length
        (((copyLoop hash d size 0 seen chunks fin).1 ++ tail).map Eff.toSize) = true := by
  have htail : ∀ (w : Nat), w ≤ size →
      noEarlyFull size (max glen w) w (tail.map Eff.toSize) = true := by
    intro w hw
    rcases ht with rfl | rfl
    · simp only [List.map_cons, List.map_nil, Eff.toSize, noEarlyFull, Bool.and_true, decide_eq_true_eq]; omega
    · simp only [List.map_cons, List.map_nil, Eff.toSize, noEarlyFull, Bool.and_true, Bool.and_eq_true,
        decide_eq_true_eq]
      constructor <;> omega
  intro chunks
  induction chunks with
  | nil =>
    intro seen fin hs
    have : (copyLoop hash d size 0 seen [] fin).1 = [] := by cases fin <;> simp [copyLoop]
    rw [this, List.nil_append]; exact htail _ hs
  | cons c cs ih =>
    intro seen fin hs
    unfold copyLoop
    split
    · exact ih seen fin hs
    · next hc =>
      split
      · rw [List.nil_append]; exact htail _ hs
      · split
        · rw [List.nil_append]; exact htail _ hs
        · next hne =>
          have hcl : c.length ≠ 0 := by intro e; exact hc (List.eq_nil_of_length_eq_zero e)
          have hle : seen.length + c.length ≤ size := by omega
          have := ih (seen ++ c) fin (by simpa using hle)
          simp only [List.length_append] at this
          simp only [Nat.zero_add, List.cons_append, List.map_cons, Eff.toSize, noEarlyFull, hcl, if_false,
            Bool.and_eq_true, decide_eq_true_eq]
          refine ⟨by omega, ?_⟩
          have e : max (max glen seen.length) (seen.length + c.length) = max glen (seen.length + c.length) := by omega
          rw [e]; exact this

/-- **Every store of the model has the shape**: in the effect list of `copyNamedFile`, for every source script and
    every prior file, no effect brings the file to `size` before `size` data bytes have been written.  This is the
    named hypothesis behind `single_writer_crash_safe`; the check evaluates the same predicate on the real syscall
    trace of stores (L2 `trace-shape`), so a preallocating `ftruncate(size)` is flagged without any crash. -/
theorem copyNamedEffs_noEarlyFull (hash : Bytes → Digest) (st : FileSt) (d : Digest) (size : Nat) (s : Script)
    (hsz : size ≠ 0) :
    noEarlyFull size (fileLen st) 0 ((copyNamedEffs hash st d size s).1.map Eff.toSize) = true := by
  unfold copyNamedEffs
  split
  · rfl
  · next hne =>
    obtain ⟨tail, ht, hshape⟩ := afterStat_shape hash (statTrunc st size) d size s hsz
    rw [hshape]
    have hl := copyLoop_noEarlyFull hash d size hsz
    cases st with
    | none =>
      have := hl 0 (by omega) tail ht s.chunks [] s.fin (by simp)
      simp only [List.map_cons, Eff.toSize, noEarlyFull, statTrunc, fileLen, Option.map_none, Option.getD_none,
        Bool.and_eq_true, decide_eq_true_eq]
      exact ⟨by omega, by simpa using this⟩
    | some f =>
      have hf : f.length ≠ size := by intro e; apply hne; simp [e]
      by_cases hgt : f.length > size
      · have := hl 0 (by omega) tail ht s.chunks [] s.fin (by simp)
        simp only [List.map_cons, Eff.toSize, noEarlyFull, statTrunc, hgt, decide_true, Bool.and_eq_true,
          decide_eq_true_eq]
        exact ⟨by omega, by simpa using this⟩
      · have := hl f.length (by omega) tail ht s.chunks [] s.fin (by simp)
        simp only [List.map_cons, Eff.toSize, noEarlyFull, statTrunc, hgt, decide_false, fileLen, Option.map_some,
          Option.getD_some, Bool.and_eq_true, decide_eq_true_eq]
        exact ⟨by omega, by simpa using this⟩

/-- what the shape excludes (seeded change C08-J): a size-only effect before the data.  The list violates
    `noEarlyFull`, and its cut after two data bytes is a full-size file with a zero tail: present, right size, wrong
    content. -/
theorem prealloc_violates_shape_and_safety :
    let c : Bytes := [1, 2, 3, 4]
    let es : List Eff := [.openCreate false, .truncate 4, .pwrite 0 [1, 2], .pwrite 2 [3, 4], .close]
    noEarlyFull 4 0 0 (es.map Eff.toSize) = false ∧
    Cut es [.openCreate false, .truncate 4, .pwrite 0 [1, 2]] ∧
    run [.openCreate false, .truncate 4, .pwrite 0 [1, 2]] none = some [1, 2, 0, 0] ∧
    ¬ Trusted idh (some [1, 2, 0, 0]) c 4 := by
  refine ⟨by decide, ?_, by decide, ?_⟩
  · exact Cut.next _ _ _ (Cut.next _ _ _ (Cut.next _ _ _ (Cut.stop _)))
  · intro h
    exact absurd (h [1, 2, 0, 0] rfl (by decide) (by decide)) (by decide)

end OllamaVerif.C08
