/-
  C19 — the chat prompt keeps the newest messages that fit, system messages, each image once.

  All theorems are about `Prompt.chatPrompt cfg cost bad msgs` for EVERY configuration `cfg`
  (variant, mllama, projector, context length), EVERY cost function `cost : Nat → Nat`
  (= every template and tokenizer) and EVERY conversation `msgs`.  An `.ok q n sys ret imgs`
  outcome means: `q` tokenizer calls were made, the final `Template.Execute` receives
  `sys ++ ret`, where `ret` is `msgs[n:]` with rewritten contents, and `imgs` is returned.
-/
import OllamaVerif.Proofs.Prompt

namespace OllamaVerif.C19
open OllamaVerif OllamaVerif.Prompt

variable {cfg : Cfg} {cost : Nat → Nat} {bad : Nat → Bool} {msgs : List Msg}
  {q n : Nat} {sys ret : List Msg} {imgs : List ImgOut}

/-- decomposition of a successful call -/
theorem ok_inv (h : chatPrompt cfg cost bad msgs = .ok q n sys ret imgs) :
    ∃ s, 0 < msgs.length ∧
      scan cfg cost bad msgs (msgs.length - 1) (msgs.length - 1) none 0 = .done n s q ∧
      rewriteAll cfg (msgs.drop n) [] = .ok (ret, imgs) ∧ sys = finalSystem cfg msgs n s := by
  unfold chatPrompt at h
  split at h
  · cases h
  · rename_i m ms
    split at h
    · cases h
    · cases h
    · rename_i n' s' q' hs
      split at h
      · cases h
      · rename_i ret' imgs' hr
        injection h with h1 h2 h3 h4 h5
        subst h1; subst h2; subst h3; subst h4; subst h5
        refine ⟨s', by simp, ?_, hr, rfl⟩
        have : (m :: ms).length = ms.length + 1 := by simp
        rw [this] at hs ⊢
        exact scan_start cfg cost bad (m :: ms) ms.length _ _ _ hs

theorem start_lt (h : chatPrompt cfg cost bad msgs = .ok q n sys ret imgs) : n < msgs.length := by
  obtain ⟨s, hpos, hs, _, _⟩ := ok_inv h
  have := (scan_diag cfg cost bad msgs _ _ _ _ _ _ hs).1
  omega

/-- **Retained messages are a suffix of the conversation, in the original order.**  `ret`
    corresponds message by message to `msgs.drop n`: same role, same images, same literal text
    (only `[img]` placeholders, `[img-k]` tags and the mllama marker differ). -/
theorem retained_is_suffix_in_order (h : chatPrompt cfg cost bad msgs = .ok q n sys ret imgs) :
    AllSame (msgs.drop n) ret := by
  obtain ⟨s, _, _, hr, _⟩ := ok_inv h
  exact (rewriteAll_inv cfg _ _ _ _ hr).1

theorem AllSame.getLast {a b : List Msg} (h : AllSame a b) (hne : a ≠ []) :
    ∃ m m', a.getLast? = some m ∧ b.getLast? = some m' ∧ SameMsg m m' := by
  induction h with
  | nil => exact absurd rfl hne
  | @cons m m' ms ms' hm hrest ih =>
    cases hrest with
    | nil => exact ⟨m, m', rfl, rfl, hm⟩
    | @cons m2 m2' ms2 ms2' hm2 hrest2 =>
      obtain ⟨x, x', hx, hx', hs⟩ := ih (by simp)
      refine ⟨x, x', ?_, ?_, hs⟩
      · rw [List.getLast?_cons_cons]; exact hx
      · rw [List.getLast?_cons_cons]; exact hx'

/-- **The latest message is always kept**: the cut index is a valid index, and the last message
    handed to the template is the (rewritten) last message of the conversation. -/
theorem latest_kept (h : chatPrompt cfg cost bad msgs = .ok q n sys ret imgs) :
    n < msgs.length ∧
    ∃ m m', msgs.getLast? = some m ∧ ret.getLast? = some m' ∧ SameMsg m m' := by
  have hlt := start_lt h
  refine ⟨hlt, ?_⟩
  have hne : msgs.drop n ≠ [] := by
    intro hd
    have := congrArg List.length hd
    simp at this; omega
  obtain ⟨m, m', h1, h2, h3⟩ := AllSame.getLast (retained_is_suffix_in_order h) hne
  refine ⟨m, m', ?_, h2, h3⟩
  rw [List.getLast?_drop] at h1
  have : ¬ (msgs.length ≤ n) := by omega
  simpa [this] using h1

/-- **The cut is the first failure.**  Every suffix from `n` on that the loop measured fits,
    and either everything was kept or the next longer suffix does not fit:
    the retained run is the longest suffix all of whose shorter suffixes fit (only the latest
    message if `msgs[L-2:]` already does not fit).  The latest message alone is never measured. -/
theorem retained_first_failure (h : chatPrompt cfg cost bad msgs = .ok q n sys ret imgs) :
    (∀ j, n ≤ j → j + 1 < msgs.length → fits cfg cost msgs j = true) ∧
    (n = 0 ∨ fits cfg cost msgs (n - 1) = false) := by
  obtain ⟨s, _, hs, _, _⟩ := ok_inv h
  obtain ⟨_, h2, h3, _, _⟩ := scan_diag cfg cost bad msgs _ _ _ _ _ _ hs
  exact ⟨fun j h1 hj => h2 j h1 (by omega), h3⟩

/-- **For a cost that is monotone in suffix extension the retained run is the longest suffix
    that fits**: a measured suffix `msgs[j:]` fits iff it is retained. -/
theorem retained_longest_fitting (h : chatPrompt cfg cost bad msgs = .ok q n sys ret imgs)
    (hmono : ∀ i j, i ≤ j → j + 1 < msgs.length →
      total cfg cost msgs j ≤ total cfg cost msgs i) :
    ∀ j, j + 1 < msgs.length → (fits cfg cost msgs j = true ↔ n ≤ j) := by
  obtain ⟨h1, h2⟩ := retained_first_failure h
  have hlt := start_lt h
  intro j hj
  constructor
  · intro hf
    by_cases hnj : n ≤ j
    · exact hnj
    · exfalso
      rcases h2 with h2 | h2
      · omega
      · have hm := hmono j (n - 1) (by omega) (by omega)
        have : fits cfg cost msgs (n - 1) = true := by
          simp only [fits, decide_eq_true_eq] at hf ⊢
          have : (total cfg cost msgs (n - 1) : Int) ≤ (total cfg cost msgs j : Int) := by
            exact Int.ofNat_le.mpr hm
          omega
        rw [this] at h2; cases h2
  · intro hnj; exact h1 j hnj hj

/-- number of tokenizer calls: one per retained message beyond the latest, plus the one that
    failed (if any) -/
theorem tokenizer_calls (h : chatPrompt cfg cost bad msgs = .ok q n sys ret imgs) :
    q = (msgs.length - 1 - n) + (if n = 0 then 0 else 1) := by
  obtain ⟨s, _, hs, _, _⟩ := ok_inv h
  have := scan_diag_evals cfg cost bad msgs _ _ _ _ _ _ hs
  omega

theorem countTag_flatMap_zero (k : Nat) (l : List Msg)
    (h : ∀ m ∈ l, countTag k m.content = 0) : countTag k (l.flatMap (·.content)) = 0 := by
  induction l with
  | nil => rfl
  | cons m ms ih =>
    simp only [List.flatMap_cons, countTag_append]
    rw [h m (by simp), ih (fun x hx => h x (by simp [hx]))]

/-- **Each image of a retained message exactly once, tagged with its index.**  The returned
    images are the retained messages' images, concatenated in order; the `ID` of the image at
    position `k` is `k`; and the rewritten contents handed to the template contain the tag
    `[img-k]` exactly once for every returned image and no other tag.
    Hypothesis (recorded assumption): the incoming contents contain no `[img-k]` tag. -/
theorem images_once_indexed (h : chatPrompt cfg cost bad msgs = .ok q n sys ret imgs)
    (hno : ∀ m ∈ msgs, ∀ k, countTag k m.content = 0) :
    imgs.map (·.src) = (msgs.drop n).flatMap (fun m => m.images.map (·.src)) ∧
    (∀ k (hk : k < imgs.length), (imgs[k]).id = k) ∧
    ∀ k, countTag k (ret.flatMap (·.content)) = if k < imgs.length then 1 else 0 := by
  obtain ⟨s, _, _, hr, _⟩ := ok_inv h
  obtain ⟨_, h2, _, h4, h5⟩ := rewriteAll_inv cfg _ _ _ _ hr
  refine ⟨by simpa using h2, ?_, ?_⟩
  · exact h4 (fun k hk => absurd hk (by simp))
  · intro k
    rw [h5 k, countTag_flatMap_zero k _ (fun m hm => hno m (List.mem_of_mem_drop hm) k)]
    simp

/-- **Each tag sits in the message that owns the image**: walking the retained messages with
    `b` = number of images returned so far, the rewrite adds to a message's content exactly one
    tag `[img-k]` for every `k` in `[b, b + #images of that message)` and nothing else. -/
theorem tags_in_owner (h : chatPrompt cfg cost bad msgs = .ok q n sys ret imgs) :
    Owned 0 (msgs.drop n) ret := by
  obtain ⟨s, _, _, hr, _⟩ := ok_inv h
  exact rewriteAll_owned cfg _ _ _ _ hr

/-- **Images of dropped messages are not sent**: every returned image is an image of a retained
    message; and if the sources of dropped and retained images are different, no image of a
    dropped message is returned. -/
theorem dropped_images_not_sent (h : chatPrompt cfg cost bad msgs = .ok q n sys ret imgs) :
    (∀ o ∈ imgs, ∃ m ∈ msgs.drop n, ∃ im ∈ m.images, im.src = o.src) ∧
    ((∀ m ∈ msgs.take n, ∀ im ∈ m.images, ∀ m2 ∈ msgs.drop n, ∀ im2 ∈ m2.images,
        im.src ≠ im2.src) →
      ∀ m ∈ msgs.take n, ∀ im ∈ m.images, ∀ o ∈ imgs, o.src ≠ im.src) := by
  obtain ⟨s, _, _, hr, _⟩ := ok_inv h
  obtain ⟨_, h2, _, _, _⟩ := rewriteAll_inv cfg _ _ _ _ hr
  have key : ∀ o ∈ imgs, ∃ m ∈ msgs.drop n, ∃ im ∈ m.images, im.src = o.src := by
    intro o ho
    have : o.src ∈ imgs.map (·.src) := List.mem_map.mpr ⟨o, ho, rfl⟩
    rw [h2] at this
    simp only [List.map_nil, List.nil_append, List.mem_flatMap, List.mem_map] at this
    obtain ⟨m, hm, im, him, he⟩ := this
    exact ⟨m, hm, im, him, he⟩
  refine ⟨key, ?_⟩
  intro hd m hm im him o ho heq
  obtain ⟨m2, hm2, im2, him2, he2⟩ := key o ho
  exact hd m hm im him m2 hm2 im2 him2 (by rw [he2, heq])

/-- (historical: the pinned variant `cfg.fixed = false` is no longer in /repo — F4 fixed in c5a6dbad6; `Tie.C19.tree_is_current_variant`
    pins the tree to `fixed = true`.)  What the pinned code passes as system messages: those before index `n - 1`, i.e. the
    slice computed for the iteration that broke -/
theorem system_pinned_exact (h : chatPrompt cfg cost bad msgs = .ok q n sys ret imgs)
    (hv : cfg.fixed = false) : sys = systemsBefore msgs (n - 1) := by
  obtain ⟨s, _, hs, _, hsys⟩ := ok_inv h
  obtain ⟨h1, _, _, h4, h5⟩ := scan_diag cfg cost bad msgs _ _ _ _ _ _ hs
  subst hsys
  simp only [finalSystem, hv]
  by_cases hk : msgs.length - 1 = 0
  · rw [h5 hk]
    have : n = 0 := by omega
    subst this
    simp [systemsBefore]
  · rw [h4 (by omega)]
    simp

/-- **System messages, repaired variant**: exactly the system messages that precede the
    retained run are passed to the template, in order. -/
theorem system_kept_fixed (h : chatPrompt cfg cost bad msgs = .ok q n sys ret imgs)
    (hv : cfg.fixed = true) :
    sys = systemsBefore msgs n ∧
    ∀ m ∈ msgs.take n, m.role = Role.system → m ∈ sys := by
  obtain ⟨s, _, _, _, hsys⟩ := ok_inv h
  have : sys = systemsBefore msgs n := by simp [hsys, finalSystem, hv]
  refine ⟨this, ?_⟩
  intro m hm hr
  rw [this]
  simp [systemsBefore, hm, hr]

/-- (historical, pinned variant.)  **System messages, pinned code (partial)**: the statement holds under the decidable guard
    "nothing was dropped, or the message just before the retained run is not a system message".
    What is missing: the system message AT the cut (finding F4, witness below). -/
theorem system_kept_partial (h : chatPrompt cfg cost bad msgs = .ok q n sys ret imgs)
    (hv : cfg.fixed = false)
    (hguard : n = 0 ∨ ∀ m, msgs[n - 1]? = some m → m.role ≠ Role.system) :
    sys = systemsBefore msgs n ∧
    ∀ m ∈ msgs.take n, m.role = Role.system → m ∈ sys := by
  have hp := system_pinned_exact h hv
  have : sys = systemsBefore msgs n := by
    rw [hp]
    rcases hguard with h0 | hg
    · subst h0; rfl
    · by_cases h0 : n = 0
      · subst h0; rfl
      · have hn : n = (n - 1) + 1 := by omega
        have hlt := start_lt h
        conv => rhs; rw [hn]
        simp only [systemsBefore, List.take_succ, List.filter_append]
        have hget : msgs[n - 1]? = some (msgs[n - 1]'(by omega)) := List.getElem?_eq_getElem (by omega)
        have := hg _ hget
        simp [hget, this]
  refine ⟨this, ?_⟩
  intro m hm hr
  rw [this]
  simp [systemsBefore, hm, hr]

/-- **Repaired variant: the prompt that is sent is one that was measured.**  If anything was
    dropped or more than the latest message was kept (`n + 1 < L`), the list handed to the final
    `Execute` is — up to the image rewrite — exactly `system(n) ++ msgs[n:]`, the argument of
    `cost n`, and that measurement fit the context length.  (On the pinned code the final list
    can lack a system message that was part of the measured one.) -/
theorem measured_prompt_fits_fixed (h : chatPrompt cfg cost bad msgs = .ok q n sys ret imgs)
    (hv : cfg.fixed = true) (hn : n + 1 < msgs.length) :
    sys = systemsBefore msgs n ∧ AllSame (msgs.drop n) ret ∧ fits cfg cost msgs n = true :=
  ⟨(system_kept_fixed h hv).1, retained_is_suffix_in_order h,
    (retained_first_failure h).1 n (Nat.le_refl _) hn⟩

/-- **The piece representation is faithful to the bytes**: parsing raw content and rendering it
    back is the identity, and parsed content contains no tag piece — so for a conversation given
    as raw bytes the hypothesis of `images_once_indexed` always holds in the model; what remains
    an assumption is that the literal text does not itself spell `[img-k]`. -/
theorem pieces_faithful (s : Bytes) :
    renderPieces (splitImg s) = s ∧ ∀ k, countTag k (splitImg s) = 0 :=
  ⟨splitImg_render s, fun k => splitImg_noTag k s⟩

/-- **What the runner does with the result**: every tag of the contents handed to the template
    resolves (`inputs` never reports "invalid image index"), tag `k` resolves to the image at
    position `k` of the returned list, and that is an image of a retained message. -/
theorem runner_resolves_every_tag (h : chatPrompt cfg cost bad msgs = .ok q n sys ret imgs)
    (hno : ∀ m ∈ msgs, ∀ k, countTag k m.content = 0) :
    (∀ k ∈ tagsOf (ret.flatMap (·.content)), ∃ hk : k < imgs.length, resolveTag imgs k = some imgs[k]) ∧
    ∃ l, resolveTags imgs (tagsOf (ret.flatMap (·.content))) = some l ∧
      l.length = (tagsOf (ret.flatMap (·.content))).length := by
  obtain ⟨_, hid, hcount⟩ := images_once_indexed h hno
  have key : ∀ k ∈ tagsOf (ret.flatMap (·.content)), ∃ hk : k < imgs.length, resolveTag imgs k = some imgs[k] := by
    intro k hk
    have hpos := mem_tagsOf_countTag k _ hk
    rw [hcount k] at hpos
    have hlt : k < imgs.length := by
      by_cases hlt : k < imgs.length
      · exact hlt
      · simp [hlt] at hpos
    exact ⟨hlt, resolveTag_of_IdsOk imgs hid k hlt⟩
  refine ⟨key, resolveTags_all imgs _ (fun k hk => ?_)⟩
  obtain ⟨hlt, hr⟩ := key k hk
  exact ⟨_, hr⟩

/-! ### the caller (ChatHandler) -/

/-- the request's latest message is the conversation's latest message -/
theorem handler_latest (mm : List Msg) (s : Bytes) (req : List Msg) (hne : req ≠ []) :
    (handlerMsgs mm s req).getLast? = req.getLast? := by
  cases req with
  | nil => exact absurd rfl hne
  | cons r0 rs =>
    simp only [handlerMsgs]
    split
    · rw [List.getLast?_cons, List.getLast?_append]
      simp [List.getLast?_cons]
    · rw [List.getLast?_append]
      simp [List.getLast?_cons]

/-- the model's SYSTEM comes first unless the request itself starts with a system message -/
theorem handler_model_system_first (mm : List Msg) (s : Bytes) (r0 : Msg) (rs : List Msg)
    (hr : r0.role ≠ Role.system) (hs : s ≠ []) :
    handlerMsgs mm s (r0 :: rs) = ⟨Role.system, splitImg s, []⟩ :: (mm ++ r0 :: rs) := by
  have : s.isEmpty = false := by cases s <;> simp_all
  simp [handlerMsgs, hr, this]

/-- **End to end (repaired chatPrompt)**: the model's SYSTEM message is always handed to the
    template — either among the system messages kept in front of the retained run, or, when
    nothing was dropped, as the first retained message. -/
theorem handler_model_system_reaches_template (mm : List Msg) (s : Bytes) (r0 : Msg) (rs : List Msg)
    (hr : r0.role ≠ Role.system) (hs : s ≠ []) (hv : cfg.fixed = true)
    (h : chatPrompt cfg cost bad (handlerMsgs mm s (r0 :: rs)) = .ok q n sys ret imgs) :
    n = 0 ∨ (⟨Role.system, splitImg s, []⟩ : Msg) ∈ sys := by
  rw [handler_model_system_first mm s r0 rs hr hs] at h
  by_cases h0 : n = 0
  · exact Or.inl h0
  · right
    apply (system_kept_fixed h hv).2
    · cases n with
      | zero => exact absurd rfl h0
      | succ k => simp [List.take]
    · rfl

/-- the template-level function is the generic one instantiated with the executed template -/
theorem templ_ok_exact {tv : TVar} {t : List Node} {mode : Nat} {p : Bytes} {tf : Option Nat}
    {tools : ToolsV}
    (h : chatPromptT cfg tv t mode msgs tf tools = .ok q n sys ret imgs p) :
    chatPrompt cfg (tcost tv t mode msgs tools) (tbad tv t msgs tools tf) msgs = .ok q n sys ret imgs ∧
      execute tv t ((sys ++ ret).map toRMsg) tools = .ok p := by
  unfold chatPromptT at h
  split at h
  · cases h
  · cases h
  · cases h
  · split at h <;> cases h
  · rename_i q' n' sys' ret' imgs' hc
    split at h
    · cases h
    · rename_i p' hp
      injection h with h1 h2 h3 h4 h5 h6
      subst h1; subst h2; subst h3; subst h4; subst h5; subst h6
      exact ⟨hc, hp⟩

theorem templ_ok_generic {tv : TVar} {t : List Node} {mode : Nat} {p : Bytes} {tf : Option Nat}
    {tools : ToolsV}
    (h : chatPromptT cfg tv t mode msgs tf tools = .ok q n sys ret imgs p) :
    ∃ cost bad, chatPrompt cfg cost bad msgs = .ok q n sys ret imgs ∧
      execute tv t ((sys ++ ret).map toRMsg) tools = .ok p :=
  ⟨_, _, (templ_ok_exact h).1, (templ_ok_exact h).2⟩

/-- **collate loses nothing** (both Execute paths start with it): every message's content is
    inside a merged message of the same role, and every system message's content is inside the
    `.System` string. -/
theorem collate_keeps_everything (msgs : List RMsg) (m : RMsg) (hm : m ∈ msgs) :
    (∃ g ∈ (collate msgs).2, g.1 = m.1 ∧ m.2 <:+: g.2) ∧
    (m.1 = Role.system → m.2 <:+: (collate msgs).1) :=
  ⟨collateMsgs_infix msgs m hm, collate_system_infix msgs m hm⟩

/-! ### witness of finding F4 and non-vacuity -/

def txt (b : Bytes) : List Piece := [Piece.lit b]
def bLong : Bytes := [108, 111, 110, 103, 32, 108, 111, 110, 103, 32, 108, 111, 110, 103] -- "long long long"
def bSYS : Bytes := [83, 89, 83]       -- "SYS"
def bHi : Bytes := [104, 105]          -- "hi"

/-- `[user "long long long", system "SYS", user "hi"]` -/
def f4conv : List Msg :=
  [⟨.user, txt bLong, []⟩, ⟨.system, txt bSYS, []⟩, ⟨.user, txt bHi, []⟩]

/-- whitespace-token cost of the legacy template on `system(i) ++ msgs[i:]` -/
def f4cost : Nat → Nat := fun i => [5, 2].getD i 0

/-- (historical: F4 is fixed in /repo.)  **Witness of F4**: context length 1.  The pinned code passes NO system message although
    `SYS` precedes the retained run `[hi]`; the repaired variant passes it. -/
theorem F4_system_at_cut_dropped :
    chatPrompt ⟨false, false, 0, 1⟩ f4cost (fun _ => false) f4conv
      = .ok 1 2 [] [⟨.user, txt bHi, []⟩] [] ∧
    chatPrompt ⟨true, false, 0, 1⟩ f4cost (fun _ => false) f4conv
      = .ok 1 2 [⟨.system, txt bSYS, []⟩] [⟨.user, txt bHi, []⟩] [] ∧
    systemsBefore f4conv 2 = [⟨.system, txt bSYS, []⟩] := by decide

/-- the legacy template of prompt_test.go as `template.Parse` delivers it (leading newline
    trimmed): `{{if .System}}{{.System}} {{end}}{{if .Prompt}}{{.Prompt}} {{end}}{{if .Response}}{{.Response}} {{end}}` -/
def tLegacy : List Node :=
  [.ite (.field .system) [.action (.field .system), .text [32]] false [],
   .ite (.field .prompt) [.action (.field .prompt), .text [32]] false [],
   .ite (.field .response) [.action (.field .response), .text [32]] false []]

/-- the pinned template layer -/
def tv0 : TVar := ⟨0, false⟩

/-- the same through the modelled `Template.Execute`: prompt `"hi "` vs `"SYS hi "` -/
example :
    execute tv0 tLegacy (([⟨.user, txt bHi, []⟩] : List Msg).map toRMsg) = .ok (bHi ++ [32]) ∧
    execute tv0 tLegacy (([⟨.system, txt bSYS, []⟩, ⟨.user, txt bHi, []⟩] : List Msg).map toRMsg)
      = .ok (bSYS ++ [32] ++ bHi ++ [32]) := by decide

/-- (historical: F4b is fixed in /repo with the join repair, `lmode = 2`.)  **Witness of F4b (legacy template loop)**: `[user "hi", assistant "", user "SYS"]` (any
    three byte strings do) rendered by the legacy template: the pinned loop overwrites the
    pending prompt `hi`; the flush repair renders it as its own turn; the join repair keeps it
    in the same turn, separated by a blank line as `collate` would. -/
theorem F4b_legacy_overwrite :
    execute ⟨0, false⟩ tLegacy [(.user, bHi), (.assistant, []), (.user, bSYS)] = .ok (bSYS ++ [32]) ∧
    execute ⟨1, false⟩ tLegacy [(.user, bHi), (.assistant, []), (.user, bSYS)]
      = .ok (bHi ++ [32] ++ bSYS ++ [32]) ∧
    execute ⟨2, false⟩ tLegacy [(.user, bHi), (.assistant, []), (.user, bSYS)]
      = .ok (bHi ++ [10, 10] ++ bSYS ++ [32]) ∧
    execute ⟨0, false⟩ tLegacy [(.user, bHi), (.tool, bLong), (.user, bSYS)] = .ok (bSYS ++ [32]) ∧
    execute ⟨2, false⟩ tLegacy [(.user, bHi), (.tool, bLong), (.user, bSYS)]
      = .ok (bHi ++ [10, 10] ++ bSYS ++ [32]) := by
  decide

/-- `tLegacy` after the `.Response` cut: the text after the field is gone -/
def tLegacyCut : List Node :=
  [.ite (.field .system) [.action (.field .system), .text [32]] false [],
   .ite (.field .prompt) [.action (.field .prompt), .text [32]] false [],
   .ite (.field .response) [.action (.field .response)] false []]

theorem tLegacy_cut (efix : Bool) : cutList efix tLegacy false = .ok true tLegacyCut := by
  cases efix <;> rfl

theorem isEmpty_eq_nil {b : Bytes} (h : b.isEmpty = true) : b = [] := by cases b <;> simp_all

/-- closes goals `c <:+: a ++ x :: (c ++ …)` -/
macro "inf_solve" : tactic => `(tactic|
  repeat (first
    | rfl
    | exact List.nil_infix
    | exact List.infix_refl _
    | exact (List.prefix_append _ _).isInfix
    | apply List.infix_cons
    | apply inf_left))

theorem tLegacy_renders : Renders tLegacy := by
  intro s p r
  cases hs : s.isEmpty <;> cases hp : p.isEmpty <;> cases hr : r.isEmpty <;>
    simp [tLegacy, execList, execNode, eval, evalField, Root.get, legacyRoot, truthy, printVal,
      XOut.append, hs, hp, hr] <;>
    (try rw [isEmpty_eq_nil hs]) <;> (try rw [isEmpty_eq_nil hp]) <;> (try rw [isEmpty_eq_nil hr]) <;>
    (repeat' apply And.intro) <;> inf_solve

theorem tLegacyCut_renders : Renders tLegacyCut := by
  intro s p r
  cases hs : s.isEmpty <;> cases hp : p.isEmpty <;> cases hr : r.isEmpty <;>
    simp [tLegacyCut, execList, execNode, eval, evalField, Root.get, legacyRoot, truthy, printVal,
      XOut.append, hs, hp, hr] <;>
    (try rw [isEmpty_eq_nil hs]) <;> (try rw [isEmpty_eq_nil hp]) <;> (try rw [isEmpty_eq_nil hr]) <;>
    (repeat' apply And.intro) <;> inf_solve

/-- **Join repair, the legacy template of prompt_test.go: nothing is lost.**  For every list of
    messages, the content of every system / user / assistant message is in the prompt. -/
theorem legacy_join_nothing_lost_tLegacy (efix : Bool) (msgs : List RMsg) (m : RMsg) (hm : m ∈ msgs)
    (hrole : m.1 = Role.system ∨ m.1 = Role.user ∨ m.1 = Role.assistant) :
    ∃ b, execute ⟨2, efix⟩ tLegacy msgs = .ok b ∧ m.2 <:+: b :=
  legacy_join_nothing_lost tLegacy tLegacyCut efix true (by decide) (tLegacy_cut efix)
    tLegacy_renders tLegacyCut_renders msgs m hm hrole

/-- **The join repair changes nothing where nothing is lost today**: whenever the slot a message
    is written to is empty (after the flush decision of the pinned code), the repaired step is
    the pinned step. -/
theorem join_step_conservative (t : List Node) (st : Legacy) (m : RMsg)
    (hfree : match m.1 with
      | .system => (!st.prompt.isEmpty || !st.resp.isEmpty) = true ∨ st.sys = []
      | .user => (!st.resp.isEmpty) = true ∨ st.prompt = []
      | .assistant => st.resp = []
      | _ => True) :
    legacyStep 2 t st m = legacyStep 0 t st m := by
  obtain ⟨r, c⟩ := m
  cases r with
  | system =>
    simp only at hfree
    rcases hfree with h | h
    · simp [legacyStep, h, legacyFlush, joinSlot]
    · simp only [legacyStep]
      by_cases hc : (!st.prompt.isEmpty || !st.resp.isEmpty) = true
      · simp [hc, legacyFlush, joinSlot]
      · simp [hc, h, joinSlot]
  | user =>
    simp only at hfree
    rcases hfree with h | h
    · simp [legacyStep, h, legacyFlush, joinSlot]
    · simp only [legacyStep]
      by_cases hc : (!st.resp.isEmpty) = true
      · simp [hc, legacyFlush, joinSlot]
      · simp [hc, h, joinSlot]
  | assistant =>
    simp only at hfree
    simp [legacyStep, hfree, joinSlot]
  | tool => rfl
  | other => rfl

/-- a legacy template whose `.Response` sits in an `if` WITH an `else` branch:
    `{{ .Prompt }}{{ if .System }}{{ .Response }}{{ else }}x{{ end }}` -/
def tElse : List Node :=
  [.action (.field .prompt),
   .ite (.field .system) [.action (.field .response)] true [.text [120]]]

/-- (historical: F4c is fixed in /repo, `efix = true`.)  **Witness of F4c**: on the pinned code every `Execute` of such a template panics in
    `deleteNode` (the else-list is visited after the cut); the repaired `deleteNode` drops the
    else-list and the prompt is rendered. -/
theorem F4c_cut_else_panics :
    execute ⟨0, false⟩ tElse [(.user, bHi)] = .err .panicCut ∧
    execute ⟨0, true⟩ tElse [(.user, bHi)] = .ok bHi ∧
    chatPromptT ⟨true, false, 0, 100⟩ ⟨0, false⟩ tElse 0 [⟨.user, txt bHi, []⟩]
      = .tmplErr .panicCut := by
  decide

/-- non-vacuity: an `.ok` outcome with dropped messages, a kept system message, images renumbered
    after the drop, one placeholder filled and one tag prefixed (hypotheses of every theorem
    above are met: the call succeeds, contents are tag-free, the guard holds). -/
def nvconv : List Msg :=
  [⟨.system, txt [83], []⟩,
   ⟨.user, txt [111, 108, 100], [⟨1, true⟩]⟩,
   ⟨.assistant, txt [114, 101], []⟩,
   ⟨.user, [Piece.lit [97], Piece.slot, Piece.lit [98]], [⟨2, true⟩, ⟨3, true⟩]⟩]

example :
    chatPrompt ⟨false, false, 2, 1600⟩ (fun i => [9, 8, 5].getD i 0) (fun _ => false) nvconv
      = .ok 2 2 [⟨.system, txt [83], []⟩]
          [⟨.assistant, txt [114, 101], []⟩,
           ⟨.user, [Piece.tag 1, Piece.lit [97], Piece.tag 0, Piece.lit [98]], [⟨2, true⟩, ⟨3, true⟩]⟩]
          [⟨0, 2, false⟩, ⟨1, 3, false⟩] ∧
    (∀ m ∈ nvconv, ∀ k, countTag k m.content = 0) := by
  refine ⟨by decide, ?_⟩
  intro m hm k
  simp only [nvconv, List.mem_cons, List.not_mem_nil, or_false] at hm
  rcases hm with rfl | rfl | rfl | rfl <;> simp [countTag, txt]

/-! ### the property's first sentence on the prompt BYTES, for a concrete messages-style template -/

/-- harness style 3 as Parse delivers it: `{{range .Messages}}[{{.Role}}|{{.Content}}]{{end}}` -/
def tInPlace : List Node :=
  [.range (.field .messages)
    [.text [91], .action (.field .role), .text [124], .action (.field .content), .text [93]] false []]

/-- harness style 0: `{{if .System}}S<{{.System}}>{{end}}{{range .Messages}}{{if ne .Role "system"}}[{{.Role}}|{{.Content}}]{{end}}{{end}}` -/
def tHeader : List Node :=
  [.ite (.field .system) [.text [83, 60], .action (.field .system), .text [62]] false [],
   .range (.field .messages)
    [.ite (.ne (.field .role) (.str [115, 121, 115, 116, 101, 109]))
      [.text [91], .action (.field .role), .text [124], .action (.field .content), .text [93]] false []] false []]

/-- folding message bodies: if every body renders, the fold renders and contains each body -/
theorem fold_bodies (body : Option RMsg → XOut) :
    ∀ (l : List RMsg) (acc : Bytes), (∀ m ∈ l, ∃ b, body (some m) = XOut.ok b) →
    ∃ o, l.foldl (fun (a : XOut) m => a.append (body (some m))) (XOut.ok acc) = XOut.ok o ∧ acc <:+: o ∧
      ∀ m ∈ l, ∀ b, body (some m) = XOut.ok b → b <:+: o := by
  intro l
  induction l with
  | nil => intro acc _; exact ⟨acc, rfl, List.infix_refl _, fun m hm => by simp at hm⟩
  | cons a l ih =>
    intro acc hall
    obtain ⟨b, hb⟩ := hall a (by simp)
    obtain ⟨o, ho, hacc, hrest⟩ := ih (acc ++ b) (fun m hm => hall m (by simp [hm]))
    refine ⟨o, ?_, ?_, ?_⟩
    · simp only [List.foldl_cons, hb, XOut.append]; exact ho
    · exact (List.prefix_append acc b).isInfix.trans hacc
    · intro m hm b' hb'
      rcases List.mem_cons.mp hm with h | h
      · subst h
        rw [hb] at hb'; injection hb' with hb'; subst hb'
        exact (List.suffix_append acc b).isInfix.trans hacc
      · exact hrest m h b' hb'

macro "inf_solve2" : tactic => `(tactic|
  repeat (first
    | rfl
    | exact List.nil_infix
    | exact List.infix_refl _
    | exact (List.prefix_append _ _).isInfix
    | apply List.infix_cons
    | apply inf_left))

def inPlaceBody : List Node :=
  [.text [91], .action (.field .role), .text [124], .action (.field .content), .text [93]]

theorem inplace_exec (root : Root) (hl : root.legacy = false) :
    execList root tInPlace none =
      (if root.msgs.isEmpty then execList root [] none
       else root.msgs.foldl (fun (a : XOut) m => a.append (execList root inPlaceBody (some m))) (XOut.ok [])).append
        (XOut.ok []) := by
  obtain ⟨l, s, p, r, ms, tl⟩ := root
  simp only at hl
  subst hl
  rfl

/-- **In-place messages template: every message handed to the template is in the prompt.** -/
theorem inplace_renders_all (tv : TVar) (msgs : List RMsg) (m : RMsg) (hm : m ∈ msgs)
    (tools : ToolsV := {}) :
    ∃ b, execute tv tInPlace msgs tools = .ok b ∧ m.2 <:+: b := by
  obtain ⟨g, hg, _, hg2⟩ := collateMsgs_infix msgs m hm
  have hne : (collateMsgs msgs).isEmpty = false := by
    cases h : collateMsgs msgs with
    | nil => rw [h] at hg; simp at hg
    | cons _ _ => rfl
  have hbody : ∀ x : RMsg, execList ⟨false, (collate msgs).1, [], [], collateMsgs msgs, tools⟩ inPlaceBody (some x)
      = .ok ([91] ++ (roleName x.1 ++ ([124] ++ (x.2 ++ ([93] ++ []))))) := by
    intro x
    simp [inPlaceBody, execList, execNode, eval, evalField, printVal, XOut.append]
  obtain ⟨o, ho, _, hall⟩ := fold_bodies
    (execList ⟨false, (collate msgs).1, [], [], collateMsgs msgs, tools⟩ inPlaceBody)
    (collateMsgs msgs) [] (fun x _ => ⟨_, hbody x⟩)
  refine ⟨o, ?_, ?_⟩
  · have hm' : nodesMention Fld.messages tInPlace = true := by decide
    have := inplace_exec ⟨false, (collate msgs).1, [], [], collateMsgs msgs, tools⟩ rfl
    simp only [hne, Bool.false_eq_true, if_false] at this
    simp only [execute, hm', if_true]
    show execList ⟨false, (collate msgs).1, [], [], (collate msgs).2, tools⟩ tInPlace none = _
    have e2 : (collate msgs).2 = collateMsgs msgs := rfl
    rw [e2, this, ho]
    simp [XOut.append]
  · have := hall g hg _ (hbody g)
    refine (hg2.trans ?_).trans this
    inf_solve2

/-- **The property's first sentence, end to end, for the in-place messages template** (current
    /repo variant): whenever chatPrompt succeeds, the PROMPT BYTES contain the content of every
    system message that precedes the retained run, of every retained message, and in particular of
    the (rewritten) latest message of the conversation. -/
theorem prompt_contains_system_and_retained_inplace {tv : TVar} {mode : Nat} {tf : Option Nat} {p : Bytes}
    {tools : ToolsV} (hv : cfg.fixed = true)
    (h : chatPromptT cfg tv tInPlace mode msgs tf tools = .ok q n sys ret imgs p) :
    (∀ m ∈ msgs.take n, m.role = Role.system → renderPieces m.content <:+: p) ∧
    (∀ m ∈ ret, renderPieces m.content <:+: p) ∧
    (∃ m m', msgs.getLast? = some m ∧ ret.getLast? = some m' ∧ SameMsg m m' ∧
      renderPieces m'.content <:+: p) := by
  obtain ⟨cost, bad, hg, hexec⟩ := templ_ok_generic h
  have key : ∀ m ∈ sys ++ ret, renderPieces m.content <:+: p := by
    intro m hm
    obtain ⟨b, hb, hin⟩ := inplace_renders_all tv ((sys ++ ret).map toRMsg) (toRMsg m)
      (List.mem_map.mpr ⟨m, hm, rfl⟩) tools
    rw [hexec] at hb
    injection hb with hb
    subst hb
    exact hin
  refine ⟨?_, fun m hm => key m (List.mem_append_right _ hm), ?_⟩
  · intro m hm hr
    exact key m (List.mem_append_left _ ((system_kept_fixed hg hv).2 m hm hr))
  · obtain ⟨_, m, m', h1, h2, h3⟩ := latest_kept hg
    exact ⟨m, m', h1, h2, h3, key m' (List.mem_append_right _ (List.mem_of_getLast? h2))⟩


/-! ### the context length ChatHandler cuts for -/

/-- **POST /api/chat cuts for the REQUEST's context length.**  Whatever number of parallel slots
    the scheduler loaded the runner with (its own copy of the options holds
    `runnerNumCtx lim numParallel`), a successful chat retains the longest recent run all of whose
    shorter suffixes fit `requestNumCtx dflt modelParam reqOpt` — request option, else the model's
    PARAMETER, else the default — measured with the model's template on the handler's conversation;
    the outcome does not depend on `numParallel` at all. -/
theorem handler_limit_is_request {fixed : Bool} {tv : TVar} {t : List Node} {dflt : Int}
    {modelParam reqOpt : Option Int} {numParallel : Nat} {mm : List Msg} {s : Bytes} {req : List Msg}
    {q n : Nat} {sys ret : List Msg} {imgs : List ImgOut} {p : Bytes} {tools : ToolsV}
    (h : chatHandler fixed false tv t dflt modelParam reqOpt numParallel mm s req tools = .ok q n sys ret imgs p) :
    (∀ np, chatHandler fixed false tv t dflt modelParam reqOpt np mm s req tools = .ok q n sys ret imgs p) ∧
    ∃ cost bad,
      let cfg : Cfg := ⟨fixed, false, 0, requestNumCtx dflt modelParam reqOpt⟩
      let msgs := handlerMsgs mm s req
      chatPrompt cfg cost bad msgs = .ok q n sys ret imgs ∧
      (∀ j, n ≤ j → j + 1 < msgs.length → ((cost j : Nat) : Int) ≤ requestNumCtx dflt modelParam reqOpt) ∧
      (n = 0 ∨ requestNumCtx dflt modelParam reqOpt < ((cost (n - 1) : Nat) : Int)) := by
  refine ⟨fun np => h, ?_⟩
  unfold chatHandler at h
  simp only [Bool.false_eq_true, if_false] at h
  obtain ⟨cost, bad, hg, _⟩ := templ_ok_generic h
  refine ⟨cost, bad, hg, ?_, ?_⟩
  · intro j h1 h2
    have := (retained_first_failure hg).1 j h1 h2
    simpa [fits, total] using this
  · rcases (retained_first_failure hg).2 with h0 | hf
    · exact Or.inl h0
    · right
      have : ¬ ((cost (n - 1) : Nat) : Int) ≤ requestNumCtx dflt modelParam reqOpt := by
        simpa [fits, total] using hf
      omega

/-- the request's option wins over the model's PARAMETER, which wins over the default -/
theorem requestNumCtx_precedence (dflt m r : Int) :
    requestNumCtx dflt (some m) (some r) = r ∧ requestNumCtx dflt none (some r) = r ∧
    requestNumCtx dflt (some m) none = m ∧ requestNumCtx dflt none none = dflt := by
  simp [requestNumCtx]

/-- first retained index of a successful outcome -/
def cutOf : OutcomeT → Option Nat
  | .ok _ n _ _ _ _ => some n
  | _ => none

/-- **Why the runner's copy must not be used**: `[user "long long long", user "hi"]`, the in-place
    template (3 whitespace tokens for both messages), `num_ctx = 2`, two parallel slots.  Cut for the
    request, only the latest message is sent (`n = 1`); cut for the runner's `NumCtx = 8` (clamped to
    4, times 2 slots) the old message would be sent as well (`n = 0`) — a prompt that does not fit
    the request's context length. -/
theorem handler_runner_opts_would_overflow :
    cutOf (chatHandler true false ⟨2, true⟩ tInPlace 2048 none (some 2) 2 [] []
      [⟨.user, txt bLong, []⟩, ⟨.user, txt bHi, []⟩]) = some 1 ∧
    cutOf (chatHandler true true ⟨2, true⟩ tInPlace 2048 none (some 2) 2 [] []
      [⟨.user, txt bLong, []⟩, ⟨.user, txt bHi, []⟩]) = some 0 ∧
    runnerNumCtx 2 2 = 8 ∧ runnerNumCtx 40 4 = 160 := by
  decide

/-! ### the final prompt is the measured candidate (tools included) -/

/-- **The prompt that is sent fits the context length** (current /repo variant, conversations
    without images, any template of the subset, any tools): whenever more than the latest message
    is retained, the final prompt is byte for byte the candidate that was measured for the retained
    run — the SAME `Values` (messages and tools) go into the measurement and into the final
    `Execute` — and its token count is within `num_ctx`. -/
theorem final_prompt_fits {tv : TVar} {t : List Node} {mode : Nat} {tf : Option Nat} {p : Bytes}
    {tools : ToolsV} (hv : cfg.fixed = true)
    (h : chatPromptT cfg tv t mode msgs tf tools = .ok q n sys ret imgs p)
    (hno : ∀ m ∈ msgs, m.images = []) (hn : n + 1 < msgs.length) :
    renderAt tv t msgs tools n = .ok p ∧ ((tokenCount mode p : Nat) : Int) ≤ cfg.limit := by
  obtain ⟨hg, hexec⟩ := templ_ok_exact h
  obtain ⟨s, _, _, hr, _⟩ := ok_inv hg
  have hsys := (system_kept_fixed hg hv).1
  have hret : ret = msgs.drop n := by
    rw [rewriteAll_noimg cfg _ _ (fun m hm => hno m (List.mem_of_mem_drop hm))] at hr
    injection hr with hr
    injection hr with h1 h2
    exact h1.symm
  have hrender : renderAt tv t msgs tools n = .ok p := by
    unfold renderAt
    rw [← hsys, ← hret]
    exact hexec
  refine ⟨hrender, ?_⟩
  have hfit := (retained_first_failure hg).1 n (Nat.le_refl _) hn
  have hfit' : ((total cfg (tcost tv t mode msgs tools) msgs n : Nat) : Int) ≤ cfg.limit := by
    simpa [fits] using hfit
  have hc : tcost tv t mode msgs tools n = tokenCount mode p := by
    simp [tcost, hrender]
  have ht : total cfg (tcost tv t mode msgs tools) msgs n = tokenCount mode p := by
    simp [total, hc, imgCount_noimg _ (fun m hm => hno m (List.mem_of_mem_drop hm))]
  rw [ht] at hfit'
  exact hfit'


/-! ## Round 7 -/


theorem tLegacy_renders_ordered : RendersOrdered tLegacy := by
  intro s p r
  cases hs : s.isEmpty <;> cases hp : p.isEmpty <;> cases hr : r.isEmpty <;>
    simp [tLegacy, execList, execNode, eval, evalField, Root.get, legacyRoot, truthy, printVal,
      XOut.append, hs, hp, hr] <;>
    (try rw [isEmpty_eq_nil hs]) <;> (try rw [isEmpty_eq_nil hp]) <;> (try rw [isEmpty_eq_nil hr]) <;>
    ord_solve

theorem tLegacyCut_renders_ordered : RendersOrdered tLegacyCut := by
  intro s p r
  cases hs : s.isEmpty <;> cases hp : p.isEmpty <;> cases hr : r.isEmpty <;>
    simp [tLegacyCut, execList, execNode, eval, evalField, Root.get, legacyRoot, truthy, printVal,
      XOut.append, hs, hp, hr] <;>
    (try rw [isEmpty_eq_nil hs]) <;> (try rw [isEmpty_eq_nil hp]) <;> (try rw [isEmpty_eq_nil hr]) <;>
    ord_solve

/-- **Legacy template of prompt_test.go (join repair = current /repo): the conversation is rendered
    in its order.** -/
theorem legacy_join_in_order_tLegacy (efix : Bool) (msgs : List RMsg) (tools : ToolsV := {}) :
    ∃ b, execute ⟨2, efix⟩ tLegacy msgs tools = .ok b ∧ InOrder (contentsOf legacyRole msgs) b :=
  legacy_join_in_order tLegacy tLegacyCut efix true (by decide) (tLegacy_cut efix)
    tLegacy_renders_ordered tLegacyCut_renders_ordered msgs tools

/-- **In-place messages template: the messages are rendered in the order of the conversation.** -/
theorem inplace_in_order (tv : TVar) (msgs : List RMsg) (tools : ToolsV := {}) :
    ∃ b, execute tv tInPlace msgs tools = .ok b ∧ InOrder (contentsOf (fun _ => true) msgs) b := by
  have hbody : ∀ x : RMsg, execList ⟨false, (collate msgs).1, [], [], collateMsgs msgs, tools⟩ inPlaceBody (some x)
      = .ok ([91] ++ (roleName x.1 ++ ([124] ++ (x.2 ++ ([93] ++ []))))) := by
    intro x
    simp [inPlaceBody, execList, execNode, eval, evalField, printVal, XOut.append]
  obtain ⟨o, ho, hord⟩ := fold_bodies_ord (fun _ => true)
    (execList ⟨false, (collate msgs).1, [], [], collateMsgs msgs, tools⟩ inPlaceBody)
    (collateMsgs msgs) [] [] trivial (fun x _ => ⟨_, hbody x, by
      simp only [if_true]
      apply InOrder.one_of_single
      exact ⟨[91] ++ roleName x.1 ++ [124], [93], by simp, trivial⟩⟩)
  have hm' : nodesMention Fld.messages tInPlace = true := by decide
  have hex := inplace_exec ⟨false, (collate msgs).1, [], [], collateMsgs msgs, tools⟩ rfl
  cases hne : (collateMsgs msgs).isEmpty with
  | true =>
    have hnil : collateMsgs msgs = [] := by cases h : collateMsgs msgs <;> simp_all
    refine ⟨[], ?_, ?_⟩
    · simp only [execute, hm', if_true]
      show execList ⟨false, (collate msgs).1, [], [], (collate msgs).2, tools⟩ tInPlace none = _
      have e2 : (collate msgs).2 = collateMsgs msgs := rfl
      rw [e2, hex]
      simp [hne, execList, XOut.append]
    · apply collate_refines (fun _ => true) msgs
      rw [hnil]; trivial
  | false =>
    refine ⟨o, ?_, ?_⟩
    · simp only [hne, Bool.false_eq_true, if_false] at hex
      simp only [execute, hm', if_true]
      show execList ⟨false, (collate msgs).1, [], [], (collate msgs).2, tools⟩ tInPlace none = _
      have e2 : (collate msgs).2 = collateMsgs msgs := rfl
      rw [e2, hex, ho]
      simp [XOut.append]
    · apply collate_refines (fun _ => true) msgs
      simpa using hord





def headerBody : List Node :=
  [.ite (.ne (.field .role) (.str [115, 121, 115, 116, 101, 109]))
      [.text [91], .action (.field .role), .text [124], .action (.field .content), .text [93]] false []]

theorem header_exec (root : Root) (hl : root.legacy = false) :
    execList root tHeader none =
      (if root.system.isEmpty then XOut.ok [] else XOut.ok ([83, 60] ++ (root.system ++ ([62] ++ [])))).append
      ((if root.msgs.isEmpty then execList root [] none
       else root.msgs.foldl (fun (a : XOut) m => a.append (execList root headerBody (some m))) (XOut.ok [])).append
        (XOut.ok [])) := by
  obtain ⟨l, s, p, r, ms, tl⟩ := root
  simp only at hl
  subst hl
  cases hs : s.isEmpty <;>
    simp [tHeader, headerBody, execList, execNode, eval, evalField, Root.get, truthy, printVal, XOut.append, hs]

theorem header_body (root : Root) (x : RMsg) :
    execList root headerBody (some x) =
      .ok (if x.1 = Role.system then [] else [91] ++ (roleName x.1 ++ ([124] ++ (x.2 ++ ([93] ++ []))))) := by
  obtain ⟨r, c⟩ := x
  cases r <;>
    simp [headerBody, execList, execNode, eval, evalField, printVal, truthy, roleName, XOut.append]

theorem header_body_ord (x : RMsg) :
    InOrder (if (fun r => !isSys r) x.1 then one x.2 else [])
      (if x.1 = Role.system then [] else [91] ++ (roleName x.1 ++ ([124] ++ (x.2 ++ ([93] ++ []))))) := by
  obtain ⟨r, c⟩ := x
  have key : ∀ r' : Role, InOrder (one c) ([91] ++ (roleName r' ++ ([124] ++ (c ++ ([93] ++ []))))) := by
    intro r'
    apply InOrder.one_of_single
    exact ⟨[91] ++ roleName r' ++ [124], [93], by simp, trivial⟩
  cases r
  · simp [isSys]; trivial
  all_goals (simp only [isSys, Bool.not_false, if_true, reduceCtorEq, if_false]; exact key _)

/-- **Header messages template (harness style 0): the system messages come first, in order, then the
    other messages in the order of the conversation.** -/
theorem header_in_order (tv : TVar) (msgs : List RMsg) (tools : ToolsV := {}) :
    ∃ b, execute tv tHeader msgs tools = .ok b ∧
      InOrder (contentsOf isSys msgs ++ contentsOf (fun r => !isSys r) msgs) b := by
  let root : Root := ⟨false, (collate msgs).1, [], [], collateMsgs msgs, tools⟩
  obtain ⟨o, ho, hord⟩ := fold_bodies_ord (fun r => !isSys r) (execList root headerBody)
    (collateMsgs msgs) [] [] trivial (fun x _ => ⟨_, header_body root x, header_body_ord x⟩)
  have hm' : nodesMention Fld.messages tHeader = true := by decide
  have hex := header_exec root rfl
  have hsys := collate_system_inorder msgs
  have hrest : ∃ o', (if root.msgs.isEmpty then execList root [] none
       else root.msgs.foldl (fun (a : XOut) m => a.append (execList root headerBody (some m))) (XOut.ok [])) = .ok o' ∧
       InOrder (contentsOf (fun r => !isSys r) msgs) o' := by
    cases hne : (collateMsgs msgs).isEmpty with
    | true =>
      have hnil : collateMsgs msgs = [] := by cases h : collateMsgs msgs <;> simp_all
      refine ⟨[], by simp [root, hne, execList], ?_⟩
      apply collate_refines _ msgs
      rw [hnil]; trivial
    | false =>
      refine ⟨o, by simp only [root, hne, Bool.false_eq_true, if_false]; exact ho, ?_⟩
      apply collate_refines _ msgs
      simpa using hord
  obtain ⟨o', ho', hord'⟩ := hrest
  have hexec : execute tv tHeader msgs tools = execList root tHeader none := by
    simp only [execute, hm', if_true]
    rfl
  rw [hexec, hex, ho']
  cases hs : root.system.isEmpty with
  | true =>
    refine ⟨[] ++ (o' ++ []), by simp [XOut.append], ?_⟩
    have : (collate msgs).1 = [] := by
      have : root.system = (collate msgs).1 := rfl
      rw [← this]; cases h : root.system <;> simp_all
    rw [this] at hsys
    have h0 : InOrder (contentsOf isSys msgs) ([] : Bytes) := hsys
    simpa using InOrder.append h0 hord'
  | false =>
    refine ⟨([83, 60] ++ (root.system ++ ([62] ++ []))) ++ (o' ++ []), by simp [XOut.append], ?_⟩
    have h1 : InOrder (contentsOf isSys msgs) ([83, 60] ++ (root.system ++ ([62] ++ []))) :=
      (hsys.right _).left _
    simpa using InOrder.append h1 hord'

/-- **"In their original order" on the PROMPT BYTES, in-place messages template** (current /repo
    variant): the non-empty contents of the system messages that precede the retained run, then of the
    retained messages (as rewritten), occur in the prompt one after the other in the order of the
    conversation. -/
theorem prompt_in_order_inplace {tv : TVar} {mode : Nat} {tf : Option Nat} {p : Bytes}
    {tools : ToolsV} (hv : cfg.fixed = true)
    (h : chatPromptT cfg tv tInPlace mode msgs tf tools = .ok q n sys ret imgs p) :
    sys = systemsBefore msgs n ∧ AllSame (msgs.drop n) ret ∧
    InOrder (contentsOf (fun _ => true) ((sys ++ ret).map toRMsg)) p := by
  obtain ⟨hg, hexec⟩ := templ_ok_exact h
  obtain ⟨b, hb, hord⟩ := inplace_in_order tv ((sys ++ ret).map toRMsg) tools
  rw [hexec] at hb
  injection hb with hb
  subst hb
  exact ⟨(system_kept_fixed hg hv).1, retained_is_suffix_in_order hg, hord⟩

/-- the same for the header messages template: system messages first, then the rest in order -/
theorem prompt_in_order_header {tv : TVar} {mode : Nat} {tf : Option Nat} {p : Bytes}
    {tools : ToolsV} (hv : cfg.fixed = true)
    (h : chatPromptT cfg tv tHeader mode msgs tf tools = .ok q n sys ret imgs p) :
    sys = systemsBefore msgs n ∧ AllSame (msgs.drop n) ret ∧
    InOrder (contentsOf isSys ((sys ++ ret).map toRMsg) ++
      contentsOf (fun r => !isSys r) ((sys ++ ret).map toRMsg)) p := by
  obtain ⟨hg, hexec⟩ := templ_ok_exact h
  obtain ⟨b, hb, hord⟩ := header_in_order tv ((sys ++ ret).map toRMsg) tools
  rw [hexec] at hb
  injection hb with hb
  subst hb
  exact ⟨(system_kept_fixed hg hv).1, retained_is_suffix_in_order hg, hord⟩

/-- the same for the legacy template of prompt_test.go on the join-repaired legacy loop (current
    /repo): system / user / assistant contents in the order of the conversation -/
theorem prompt_in_order_legacy {efix : Bool} {mode : Nat} {tf : Option Nat} {p : Bytes}
    {tools : ToolsV} (hv : cfg.fixed = true)
    (h : chatPromptT cfg ⟨2, efix⟩ tLegacy mode msgs tf tools = .ok q n sys ret imgs p) :
    sys = systemsBefore msgs n ∧ AllSame (msgs.drop n) ret ∧
    InOrder (contentsOf legacyRole ((sys ++ ret).map toRMsg)) p := by
  obtain ⟨hg, hexec⟩ := templ_ok_exact h
  obtain ⟨b, hb, hord⟩ := legacy_join_in_order_tLegacy efix ((sys ++ ret).map toRMsg) tools
  rw [hexec] at hb
  injection hb with hb
  subst hb
  exact ⟨(system_kept_fixed hg hv).1, retained_is_suffix_in_order hg, hord⟩





/-- **A prompt is always built**: for a non-empty conversation, when no rendering / tokenizing fails and —
    for an mllama model — no message carries more than one image and every image can be preprocessed,
    chatPrompt succeeds (so the statements about `.ok` outcomes are not vacuous for any such input). -/
theorem chatPrompt_total (hne : msgs ≠ []) (hbad : ∀ i, bad i = false)
    (himg : cfg.mllama = true → ∀ m ∈ msgs, m.images.length ≤ 1)
    (hok : ∀ m ∈ msgs, ∀ im ∈ m.images, imgOk cfg im) :
    ∃ q n sys ret imgs, chatPrompt cfg cost bad msgs = .ok q n sys ret imgs := by
  unfold chatPrompt
  cases msgs with
  | nil => exact absurd rfl hne
  | cons m ms =>
    simp only
    obtain ⟨n', s', q', hs⟩ := scan_total cfg cost bad (m :: ms) hbad himg (m :: ms).length ((m :: ms).length - 1) none 0
    rw [hs]
    simp only
    obtain ⟨⟨ret, imgs⟩, hr⟩ := rewriteAll_total cfg ((m :: ms).drop n') []
      (fun x hx => hok x (List.mem_of_mem_drop hx))
    rw [hr]
    exact ⟨_, _, _, _, _, rfl⟩

/-- **The cut is the specified one** (refinement): the first retained index is `specCut` of the
    fit predicate — walk back from the latest message and stop at the first longer run that does not fit. -/
theorem cut_is_spec (h : chatPrompt cfg cost bad msgs = .ok q n sys ret imgs) :
    n = specCut (fits cfg cost msgs) (msgs.length - 1) := by
  obtain ⟨h1, h2⟩ := retained_first_failure h
  have hlt := start_lt h
  exact (specCut_unique _ _ n (by omega) (fun j a b => h1 j a (by omega)) h2).symm





/-- **The returned image list in closed form**: exactly the images of the retained messages, in order,
    image `k` with `ID = k`, preprocessed iff mllama with a projector — nothing else, nothing twice. -/
theorem images_are_spec (h : chatPrompt cfg cost bad msgs = .ok q n sys ret imgs) :
    imgs = specImagesFrom cfg 0 ((msgs.drop n).flatMap (·.images)) := by
  obtain ⟨s, _, _, hr, _⟩ := ok_inv h
  simpa using rewriteAll_spec cfg _ _ _ _ hr


/-! ### non-vacuity of the round-7 theorems -/

/-- `legacy_join_in_order_tLegacy` / `prompt_in_order_legacy` talk about something: an unanswered user turn,
    a late system message, another user turn (the shape seeded change K reorders) — three contents, three
    places in the prompt, in the order of the conversation -/
example :
    execute ⟨2, true⟩ tLegacy [(.user, bHi), (.system, bSYS), (.user, bLong)]
      = .ok (bHi ++ [32] ++ bSYS ++ [32] ++ bLong ++ [32]) ∧
    contentsOf legacyRole [(.user, bHi), (.system, bSYS), (.user, bLong)] = [bHi, bSYS, bLong] := by decide

/-- `InOrder` is not satisfiable by overlapping occurrences: the strings need room one after the other -/
example : ¬ InOrder [bLong, bHi, bLong] (bLong ++ bHi ++ [32]) := by
  intro h
  have := h.length_le
  simp [bLong, bHi] at this

/-- `chatPrompt_total`: its hypotheses hold for `nvconv` on a projector model, and the cut it produces is the
    specified one (`cut_is_spec`), the images the specified ones (`images_are_spec`) -/
example :
    nvconv ≠ [] ∧ (∀ m ∈ nvconv, ∀ im ∈ m.images, imgOk ⟨true, false, 2, 1600⟩ im) ∧
    specCut (fits ⟨true, false, 2, 1600⟩ (fun i => [9, 8, 5].getD i 0) nvconv) (nvconv.length - 1) = 2 ∧
    specImagesFrom ⟨true, false, 2, 1600⟩ 0 ((nvconv.drop 2).flatMap (·.images)) = [⟨0, 2, false⟩, ⟨1, 3, false⟩] := by
  refine ⟨by decide, ?_, by decide, by decide⟩
  intro m _ im _
  exact Or.inl rfl


/-! ### the runner's regexp on the rendered contents -/

theorem AllSame.mem_right {a b : List Msg} (h : AllSame a b) : ∀ m' ∈ b, ∃ m ∈ a, SameMsg m m' := by
  induction h with
  | nil => intro m' hm; simp at hm
  | @cons m m' ms ms' hm hrest ih =>
    intro x hx
    rcases List.mem_cons.mp hx with h | h
    · subst h; exact ⟨m, by simp, hm⟩
    · obtain ⟨y, hy, hs⟩ := ih x h
      exact ⟨y, by simp [hy], hs⟩

/-- **What the runner's `\[img-(\d+)\]` finds in a retained message is exactly what chatPrompt wrote — partial**:
    guard `cleanPieces` (decidable: no `[` of the literal text starts a prefix of `[img-` that completes or runs to
    the end of the text).  What is missing: text that itself spells `[img-N]` — finding F5, witnesses
    `F5_literal_tag_duplicates_image` / `F5_literal_tag_invalid_index` below: the full statement is false. 
    (discharges, for text that is `safeText`, the link between the `tag` pieces the theorems above count and
    the BYTES the runner scans): for every retained message the matches of the rendered content are its tag
    pieces in order, with their numbers; and every one of them resolves to the image at that position. -/
theorem runner_scan_is_tags_partial (h : chatPrompt cfg cost bad msgs = .ok q n sys ret imgs)
    (hclean : ∀ m ∈ msgs, cleanPieces m.content = true)
    (hno : ∀ m ∈ msgs, ∀ k, countTag k m.content = 0) :
    ∀ m' ∈ ret, scanTags (renderPieces m'.content) 0 = tagsOf m'.content ∧
      ∀ k ∈ scanTags (renderPieces m'.content) 0, ∃ hk : k < imgs.length, resolveTag imgs k = some imgs[k] := by
  intro m' hm'
  obtain ⟨m, hm, hs⟩ := AllSame.mem_right (retained_is_suffix_in_order h) m' hm'
  have hc : cleanPieces m'.content = true := by
    rw [cleanPieces_strip, hs.text, ← cleanPieces_strip]
    exact hclean m (List.mem_of_mem_drop hm)
  have e := scanTags_renderPieces m'.content hc
  refine ⟨e, ?_⟩
  intro k hk
  rw [e] at hk
  apply (runner_resolves_every_tag h hno).1 k
  simp only [tagsOf, List.mem_filterMap, List.mem_flatMap] at hk ⊢
  obtain ⟨p, hp, hpk⟩ := hk
  exact ⟨p, ⟨m', hm', hp⟩, hpk⟩

/-- non-vacuity: `safeText` accepts ordinary text, brackets included, and rejects a literal tag or a text
    ending in the middle of one; decimal rendering is what Go prints for the numbers that occur -/
example :
    -- "s[1] [img] [image-3]", "a [img-3]", "x[im"
    safeText [115, 91, 49, 93, 32, 91, 105, 109, 103, 93, 32, 91, 105, 109, 97, 103, 101, 45, 51, 93] = true ∧
    safeText [97, 32, 91, 105, 109, 103, 45, 51, 93] = false ∧ safeText [120, 91, 105, 109] = false ∧
    natBytes 0 = [48] ∧ natBytes 7 = [55] ∧ natBytes 10 = [49, 48] ∧ natBytes 123 = [49, 50, 51] ∧
    scanTags (renderPieces [.tag 12, .lit [97], .slot, .tag 0, .mm]) 0 = [12, 0] := by decide


/-! ### the prompt bytes of the in-place template: tags as the runner reads them; longest fitting run (round 7) -/




/-- **In-place messages template, exact form**: the prompt is the concatenation of `[role|content]` over the
    merged messages -/
theorem inplace_exact (tv : TVar) (msgs : List RMsg) (tools : ToolsV := {}) :
    execute tv tInPlace msgs tools =
      .ok ((collateMsgs msgs).flatMap (fun x => [91] ++ (roleName x.1 ++ ([124] ++ (x.2 ++ ([93] ++ [])))))) := by
  have hbody : ∀ x : RMsg, execList ⟨false, (collate msgs).1, [], [], collateMsgs msgs, tools⟩ inPlaceBody (some x)
      = .ok ([91] ++ (roleName x.1 ++ ([124] ++ (x.2 ++ ([93] ++ []))))) := by
    intro x
    simp [inPlaceBody, execList, execNode, eval, evalField, printVal, XOut.append]
  have hf := fold_bodies_exact (execList ⟨false, (collate msgs).1, [], [], collateMsgs msgs, tools⟩ inPlaceBody)
    (fun x => [91] ++ (roleName x.1 ++ ([124] ++ (x.2 ++ ([93] ++ []))))) (collateMsgs msgs) [] (fun x _ => hbody x)
  have hm' : nodesMention Fld.messages tInPlace = true := by decide
  have hex := inplace_exec ⟨false, (collate msgs).1, [], [], collateMsgs msgs, tools⟩ rfl
  simp only [execute, hm', if_true]
  show execList ⟨false, (collate msgs).1, [], [], (collate msgs).2, tools⟩ tInPlace none = _
  have e2 : (collate msgs).2 = collateMsgs msgs := rfl
  rw [e2, hex]
  cases hne : (collateMsgs msgs).isEmpty with
  | true =>
    have hnil : collateMsgs msgs = [] := by cases h : collateMsgs msgs <;> simp_all
    simp [hnil, execList, XOut.append]
  | false =>
    simp only [Bool.false_eq_true, if_false, hf]
    simp [XOut.append]

/-- the runner's scan of the in-place prompt of a conversation given as pieces -/
theorem inplace_scan (tv : TVar) (l : List PMsg) (tools : ToolsV) (hclean : ∀ m ∈ l, cleanPieces m.2 = true) :
    ∃ p, execute tv tInPlace (l.map rp) tools = .ok p ∧ scanTags p 0 = l.flatMap (fun m => tagsOf m.2) := by
  refine ⟨_, inplace_exact tv (l.map rp) tools, ?_⟩
  rw [collateMsgs_map_rp, List.flatMap_map]
  have e : (collateP l).flatMap (fun x => [91] ++ (roleName (rp x).1 ++ ([124] ++ ((rp x).2 ++ ([93] ++ [])))))
      = renderPieces ((collateP l).flatMap inPlaceP) := by
    rw [renderPieces_flatMap]
    congr 1
    funext x
    exact (inPlaceP_render x).symm
  rw [e, scanTags_renderPieces _ (flatMap_clean inPlaceP _ (fun x hx => inPlaceP_clean x (collateP_clean l hclean x hx))),
    flatMap_tags]
  simp only [inPlaceP_tags]
  exact collateP_tags l

/-- **Each image exactly once in the PROMPT, tagged with its index — on the bytes, as the runner reads them**
    (in-place messages template, current /repo variant, user text `safeText` and tag-free): the matches of the
    runner's `\[img-(\d+)\]` in the prompt are the tags of the kept system messages and of the retained
    messages in order; every index `k < #images` is matched exactly once and no other number is; every
    match resolves in the runner's lookup. -/
theorem prompt_tags_inplace_partial {tv : TVar} {mode : Nat} {tf : Option Nat} {p : Bytes} {tools : ToolsV}
    (h : chatPromptT cfg tv tInPlace mode msgs tf tools = .ok q n sys ret imgs p)
    (hv : cfg.fixed = true)
    (hclean : ∀ m ∈ msgs, cleanPieces m.content = true)
    (hno : ∀ m ∈ msgs, ∀ k, countTag k m.content = 0) :
    scanTags p 0 = (sys ++ ret).flatMap (fun m => tagsOf m.content) ∧
    (∀ k, (scanTags p 0).count k = if k < imgs.length then 1 else 0) ∧
    ∃ l, resolveTags imgs (scanTags p 0) = some l ∧ l.length = (scanTags p 0).length := by
  obtain ⟨hg, hexec⟩ := templ_ok_exact h
  have hsys := (system_kept_fixed hg hv).1
  have hsysmem : ∀ m ∈ sys, m ∈ msgs := by
    intro m hm
    rw [hsys] at hm
    exact List.mem_of_mem_take (List.mem_filter.mp hm).1
  have hretclean : ∀ m' ∈ ret, cleanPieces m'.content = true := by
    intro m' hm'
    obtain ⟨m, hm, hs⟩ := AllSame.mem_right (retained_is_suffix_in_order hg) m' hm'
    rw [cleanPieces_strip, hs.text, ← cleanPieces_strip]
    exact hclean m (List.mem_of_mem_drop hm)
  have hall : ∀ m ∈ (sys ++ ret).map (fun m : Msg => ((m.role, m.content) : PMsg)), cleanPieces m.2 = true := by
    intro m hm
    obtain ⟨x, hx, rfl⟩ := List.mem_map.mp hm
    rcases List.mem_append.mp hx with h1 | h1
    · exact hclean x (hsysmem x h1)
    · exact hretclean x h1
  obtain ⟨p', hp', hscan⟩ := inplace_scan tv ((sys ++ ret).map (fun m : Msg => ((m.role, m.content) : PMsg))) tools hall
  have emap : ((sys ++ ret).map (fun m : Msg => ((m.role, m.content) : PMsg))).map rp = (sys ++ ret).map toRMsg := by
    rw [List.map_map]; rfl
  rw [emap, hexec] at hp'
  injection hp' with hp'
  subst hp'
  have hscan' : scanTags p 0 = (sys ++ ret).flatMap (fun m => tagsOf m.content) := by
    rw [hscan, List.flatMap_map]
  obtain ⟨_, hid, hcount⟩ := images_once_indexed hg hno
  have hcnt : ∀ k, (scanTags p 0).count k = if k < imgs.length then 1 else 0 := by
    intro k
    rw [hscan', ← flatMap_tags (fun m : Msg => m.content), count_tagsOf, List.flatMap_append, countTag_append,
      countTag_flatMap_zero k sys (fun m hm => hno m (hsysmem m hm) k), hcount k]
    simp
  refine ⟨hscan', hcnt, resolveTags_all imgs _ (fun k hk => ?_)⟩
  have hpos : 0 < (scanTags p 0).count k := List.count_pos_iff.mpr hk
  rw [hcnt k] at hpos
  have hlt : k < imgs.length := by
    by_cases hlt : k < imgs.length
    · exact hlt
    · simp [hlt] at hpos
  exact ⟨_, resolveTag_of_IdsOk imgs hid k hlt⟩





/-- cost of a candidate under the in-place template and the byte tokenizer = length of its rendering -/
theorem tcost_inplace_bytes (tv : TVar) (msgs : List Msg) (tools : ToolsV) (i : Nat) :
    tcost tv tInPlace 1 msgs tools i = gl ((cand msgs i).map toRMsg) := by
  have := inplace_exact tv ((cand msgs i).map toRMsg) tools
  unfold tcost renderAt
  show (match execute tv tInPlace ((cand msgs i).map toRMsg) tools with
    | .ok b => tokenCount 1 b | .err _ => 0) = _
  rw [this]
  rfl

/-- **With the in-place template and the byte tokenizer the measured total never grows when the run gets
    shorter** — the hypothesis of `retained_longest_fitting`, proved for this template from the model of
    collate and Execute (dropping a message removes its bytes and at most merges its two neighbours) -/
theorem total_antitone_inplace_bytes (cfg : Cfg) (tv : TVar) (msgs : List Msg) (tools : ToolsV) :
    ∀ i j, i ≤ j → j + 1 < msgs.length →
      total cfg (tcost tv tInPlace 1 msgs tools) msgs j ≤ total cfg (tcost tv tInPlace 1 msgs tools) msgs i := by
  have hstep : ∀ i, i < msgs.length →
      total cfg (tcost tv tInPlace 1 msgs tools) msgs (i+1) ≤ total cfg (tcost tv tInPlace 1 msgs tools) msgs i := by
    intro i hi
    have hc : tcost tv tInPlace 1 msgs tools (i+1) ≤ tcost tv tInPlace 1 msgs tools i := by
      rw [tcost_inplace_bytes, tcost_inplace_bytes]
      rcases cand_step msgs i hi with h | ⟨a, b, x, h1, h2⟩
      · rw [h]; exact Nat.le_refl _
      · rw [h1, h2]
        simp only [List.map_append, List.map_cons]
        exact gl_remove _ _ _
    have hi' := imgCount_drop_step msgs i
    unfold total
    split
    · have := Nat.mul_le_mul_left (imageNumTokens cfg) hi'
      omega
    · omega
  intro i j hij hj
  have := antitone_of_step (fun k => total cfg (tcost tv tInPlace 1 msgs tools) msgs k) msgs.length hstep (j - i) i (by omega)
  have e : i + (j - i) = j := by omega
  rw [e] at this
  exact this

/-- **The retained messages are THE longest recent run that fits** (in-place template, byte tokenizer; every
    conversation, context length, model kind): a run `msgs[j:]` of at least two messages fits iff it is
    retained — no hypothesis on the cost. -/
theorem retained_longest_fitting_inplace_bytes {tv : TVar} {tf : Option Nat} {p : Bytes} {tools : ToolsV}
    (h : chatPromptT cfg tv tInPlace 1 msgs tf tools = .ok q n sys ret imgs p) :
    ∀ j, j + 1 < msgs.length →
      (fits cfg (tcost tv tInPlace 1 msgs tools) msgs j = true ↔ n ≤ j) :=
  retained_longest_fitting (templ_ok_exact h).1 (total_antitone_inplace_bytes cfg tv msgs tools)



def scanOf : OutcomeT → List Nat
  | .ok _ _ _ _ _ p => scanTags p 0
  | _ => []

/-- non-vacuity of `prompt_tags_inplace` and `retained_longest_fitting_inplace_bytes`: `nvconv` through the in-place
    template with the byte tokenizer.  Everything kept (context length 1000): the runner finds tags 0, 2, 1 in the
    prompt (the last user message has its second image's tag prefixed, the first one in the placeholder).  Context
    length 40: cut at 2, tags 1, 0.  The text is `safeText`. -/
example :
    scanOf (chatPromptT ⟨true, false, 0, 1000⟩ ⟨2, true⟩ tInPlace 1 nvconv) = [0, 2, 1] ∧
    cutOf (chatPromptT ⟨true, false, 0, 1000⟩ ⟨2, true⟩ tInPlace 1 nvconv) = some 0 ∧
    scanOf (chatPromptT ⟨true, false, 0, 40⟩ ⟨2, true⟩ tInPlace 1 nvconv) = [1, 0] ∧
    cutOf (chatPromptT ⟨true, false, 0, 40⟩ ⟨2, true⟩ tInPlace 1 nvconv) = some 2 ∧
    (nvconv.all fun m => cleanPieces m.content) = true := by decide


/-! ### the OpenAI-compatible entry (round 7) -/




/-- the loop never returns `errTooManyImages` when no message has more than one image -/
theorem scan_no_err (cfg : Cfg) (cost : Nat → Nat) (bad : Nat → Bool) (msgs : List Msg)
    (himg : ∀ m ∈ msgs, m.images.length ≤ 1) :
    ∀ (k n : Nat) (s : Option Nat) (q : Nat), scan cfg cost bad msgs k n s q ≠ .err := by
  intro k
  induction k with
  | zero => intro n s q h; simp [scan] at h
  | succ k ih =>
    intro n s q
    unfold scan
    have h1 : (cfg.mllama && decide (1 < (imagesAt msgs k).length)) = false := by
      have : ¬ (1 < (imagesAt msgs k).length) := by
        rcases imagesAt_cases msgs k with h | ⟨m, hm', h⟩
        · rw [h]; simp
        · rw [h]; have := himg m hm'; omega
      simp [this]
    simp only [h1, Bool.false_eq_true, if_false]
    split
    · exact ih _ _ _
    · split
      · intro h; cases h
      · split
        · exact ih _ _ _
        · intro h; cases h

/-- chatPrompt never answers "vision model only supports a single image per message" when no message has
    more than one image -/
theorem no_too_many (cfg : Cfg) (cost : Nat → Nat) (bad : Nat → Bool) (msgs : List Msg)
    (himg : ∀ m ∈ msgs, m.images.length ≤ 1) : chatPrompt cfg cost bad msgs ≠ .errTooMany := by
  unfold chatPrompt
  cases msgs with
  | nil => intro h; cases h
  | cons m ms =>
    simp only
    have := scan_no_err cfg cost bad (m :: ms) himg (m :: ms).length ((m :: ms).length - 1) none 0
    split
    · rename_i hs; exact absurd hs this
    · intro h; cases h
    · split <;> (intro h; cases h)

theorem handlerMsgs_all (P : Msg → Prop) (mm : List Msg) (s : Bytes) (req : List Msg)
    (h1 : ∀ m ∈ mm, P m) (h2 : ∀ m ∈ req, P m) (h3 : P ⟨Role.system, splitImg s, []⟩) :
    ∀ m ∈ handlerMsgs mm s req, P m := by
  intro m hm
  unfold handlerMsgs at hm
  cases req with
  | nil => exact h1 m hm
  | cons r0 rs =>
    simp only at hm
    split at hm
    · rcases List.mem_cons.mp hm with h | h
      · subst h; exact h3
      · rcases List.mem_append.mp h with h | h
        · exact h1 m h
        · exact h2 m h
    · rcases List.mem_append.mp hm with h | h
      · exact h1 m h
      · exact h2 m h

/-- **POST /v1/chat/completions (OpenAI-compatible entry)**: the conversation ChatHandler builds from an
    OpenAI request (model MESSAGEs with at most one image each) never makes chatPrompt answer "vision model
    only supports a single image per message" — every image part is its own message — and whenever a prompt
    is built, the images sent are exactly the image parts of the retained converted messages, in order,
    numbered by position (`images_are_spec` on the converted conversation). -/
theorem openai_chat_images (mm : List Msg) (s : Bytes) (req : List OMsg)
    (hmm : ∀ m ∈ mm, m.images.length ≤ 1) :
    chatPrompt cfg cost bad (handlerMsgs mm s (fromOpenAI req)) ≠ .errTooMany ∧
    (∀ q n sys ret imgs, chatPrompt cfg cost bad (handlerMsgs mm s (fromOpenAI req)) = .ok q n sys ret imgs →
      imgs = specImagesFrom cfg 0 (((handlerMsgs mm s (fromOpenAI req)).drop n).flatMap (·.images))) :=
  ⟨no_too_many cfg cost bad _ (handlerMsgs_all _ mm s _ hmm (fromOpenAI_one_image req) (by simp)),
    fun _ _ _ _ _ h => images_are_spec h⟩


/-- non-vacuity of `openai_chat_images`: a user message with a text part, two image parts and another text part
    becomes four messages; an mllama model accepts it (two images in ONE api message would be refused) -/
example :
    fromOpenAI [⟨.user, .parts [.text (txt bHi), .image ⟨1, true⟩, .image ⟨2, true⟩, .text (txt bSYS)]⟩]
      = [⟨.user, txt bHi, []⟩, ⟨.user, [], [⟨1, true⟩]⟩, ⟨.user, [], [⟨2, true⟩]⟩, ⟨.user, txt bSYS, []⟩] ∧
    chatPrompt ⟨true, true, 1, 100⟩ (fun _ => 1) (fun _ => false)
      [⟨.user, txt bHi, [⟨1, true⟩, ⟨2, true⟩]⟩] = .errTooMany := by decide


/-! ### finding F5: a literal `[img-N]` in a message's text -/

/-- "see [img-0]" -/
def bSeeTag0 : Bytes := [115, 101, 101, 32, 91, 105, 109, 103, 45, 48, 93]
/-- "[img-5]" -/
def bTag5 : Bytes := [91, 105, 109, 103, 45, 53, 93]

def imgsOf : OutcomeT → List ImgOut
  | .ok _ _ _ _ imgs _ => imgs
  | _ => []

def promptOf : OutcomeT → Bytes
  | .ok _ _ _ _ _ p => p
  | _ => []

/-- **Witness of F5 (a)**: `[user "see [img-0]" + one image]`, in-place template, everything fits.  The prompt is
    `[user|[img-0]see [img-0]]`: the tag of the single returned image occurs TWICE (once written by chatPrompt,
    once typed by the user), so the runner's scan yields `[0, 0]` and the image is embedded twice — "each image
    exactly once in the prompt" is false for this conversation.  The text is not `cleanPieces`. -/
theorem F5_literal_tag_duplicates_image :
    let conv : List Msg := [⟨.user, splitImg bSeeTag0, [⟨1, true⟩]⟩]
    let out := chatPromptT ⟨true, false, 2, 2048⟩ ⟨2, true⟩ tInPlace 0 conv
    imgsOf out = [⟨0, 1, false⟩] ∧
    promptOf out = [91, 117, 115, 101, 114, 124] ++ [91, 105, 109, 103, 45, 48, 93] ++ bSeeTag0 ++ [93] ∧
    scanOf out = [0, 0] ∧
    (resolveTags (imgsOf out) (scanOf out)).map (·.length) = some 2 ∧
    (conv.all fun m => cleanPieces m.content) = false ∧
    (∀ m ∈ conv, ∀ k, countTag k m.content = 0) := by
  refine ⟨by decide, by decide, by decide, by decide, by decide, ?_⟩
  intro m hm k
  simp only [List.mem_cons, List.not_mem_nil, or_false] at hm
  subst hm
  have : splitImg bSeeTag0 = [Piece.lit bSeeTag0] := by decide
  simp [this, countTag]

/-- **Witness of F5 (b)**: `[user "[img-5]"]` without any image: the prompt mentions image 5, no image is returned,
    and the runner's lookup answers "invalid image index" — the request fails because of six characters of text. -/
theorem F5_literal_tag_invalid_index :
    let out := chatPromptT ⟨true, false, 2, 2048⟩ ⟨2, true⟩ tInPlace 0 [⟨.user, splitImg bTag5, []⟩]
    imgsOf out = [] ∧ scanOf out = [5] ∧ resolveTags (imgsOf out) (scanOf out) = none := by
  decide


/-! ### what the walk guarantees without a monotone cost -/

/-- **The walk stops at the FIRST candidate that is over budget; with a cost that is not monotone this is not the
    longest run that fits.**  Four messages, measured totals `[3, 9, 2]` for the runs starting at 0, 1, 2, context
    length 5: the run `[2:]` fits (2), the run `[1:]` does not (9) — the walk stops and keeps `[2:]` although the whole
    conversation `[0:]` would fit (3).  What holds for EVERY cost is `retained_first_failure` / `cut_is_spec`;
    "longest run that fits" holds exactly when the measured total is monotone in the run (`retained_longest_fitting`),
    which `total_antitone_inplace_bytes` proves for the in-place template with the byte tokenizer and which the real
    tokenizers / collate's merging do not guarantee (the driver counts such conversations: `spec_nonmonotone_cost`). -/
theorem first_failure_not_longest_nonmonotone :
    let conv : List Msg := [⟨.user, txt bHi, []⟩, ⟨.assistant, txt bLong, []⟩, ⟨.user, txt bHi, []⟩, ⟨.assistant, txt bHi, []⟩]
    let cfg : Cfg := ⟨true, false, 0, 5⟩
    let cost : Nat → Nat := fun i => [3, 9, 2].getD i 0
    (match chatPrompt cfg cost (fun _ => false) conv with | .ok _ n _ _ _ => some n | _ => none) = some 2 ∧
    fits cfg cost conv 0 = true ∧ fits cfg cost conv 1 = false ∧ fits cfg cost conv 2 = true := by
  decide


/-- **F5 repaired** (`proposed_fixes/C19-F5-literal-image-tag.patch`: every incoming content goes through
    `strings.ReplaceAll(content, "[img-", "[img -")` before anything else): on the two witnesses the runner finds the
    single image's tag exactly once, resp. no tag at all; text without `[img-` is untouched. -/
theorem F5_repaired_witnesses :
    scanOf (chatPromptT ⟨true, false, 2, 2048⟩ ⟨2, true⟩ tInPlace 0 [⟨.user, splitImg (sanitizeBytes bSeeTag0), [⟨1, true⟩]⟩]) = [0] ∧
    scanOf (chatPromptT ⟨true, false, 2, 2048⟩ ⟨2, true⟩ tInPlace 0 [⟨.user, splitImg (sanitizeBytes bTag5), []⟩]) = [] ∧
    cleanPieces (splitImg (sanitizeBytes bSeeTag0)) = true ∧ cleanPieces (splitImg (sanitizeBytes bTag5)) = true ∧
    sanitizeBytes bLong = bLong ∧ sanitizeBytes bImg = bImg := by decide


/-! ### the header template: exact form, each image once in the prompt bytes (round 7) -/




def headerG (x : RMsg) : Bytes :=
  if x.1 = Role.system then [] else [91] ++ (roleName x.1 ++ ([124] ++ (x.2 ++ ([93] ++ []))))

/-- **Header messages template, exact form** -/
theorem header_exact (tv : TVar) (msgs : List RMsg) (tools : ToolsV := {}) :
    execute tv tHeader msgs tools =
      .ok ((if (collate msgs).1.isEmpty then [] else [83, 60] ++ ((collate msgs).1 ++ ([62] ++ []))) ++
        (collateMsgs msgs).flatMap headerG) := by
  let root : Root := ⟨false, (collate msgs).1, [], [], collateMsgs msgs, tools⟩
  have hf := fold_bodies_exact (execList root headerBody) headerG (collateMsgs msgs) []
    (fun x _ => header_body root x)
  have hm' : nodesMention Fld.messages tHeader = true := by decide
  have hexec : execute tv tHeader msgs tools = execList root tHeader none := by
    simp only [execute, hm', if_true]
    rfl
  rw [hexec, header_exec root rfl]
  have hrest : (if root.msgs.isEmpty then execList root [] none
       else root.msgs.foldl (fun (a : XOut) m => a.append (execList root headerBody (some m))) (XOut.ok [])) =
       .ok ((collateMsgs msgs).flatMap headerG) := by
    cases hne : (collateMsgs msgs).isEmpty with
    | true =>
      have hnil : collateMsgs msgs = [] := by cases h : collateMsgs msgs <;> simp_all
      simp [root, hnil, execList]
    | false =>
      simp only [root, hne, Bool.false_eq_true, if_false]
      simpa using hf
  rw [hrest]
  show (if (collate msgs).1.isEmpty then XOut.ok [] else XOut.ok ([83, 60] ++ ((collate msgs).1 ++ ([62] ++ [])))).append _ = _
  cases hs : (collate msgs).1.isEmpty <;> simp [XOut.append]

/-- the runner's scan of the header prompt of a conversation given as pieces: the tags of the system messages
    (printed in the header), then the tags of the others -/
theorem header_scan (tv : TVar) (l : List PMsg) (tools : ToolsV) (hclean : ∀ m ∈ l, cleanPieces m.2 = true) :
    ∃ p, execute tv tHeader (l.map rp) tools = .ok p ∧
      scanTags p 0 = ((l.filter isSysP).map (·.2)).flatMap tagsOf ++ l.flatMap (fun m => tagsOf (headerP m)) := by
  refine ⟨_, header_exact tv (l.map rp) tools, ?_⟩
  let sysP := joinP ((l.filter isSysP).map (·.2))
  have hsys : (collate (l.map rp)).1 = renderPieces sysP := collate_system_pieces l
  have hsysclean : cleanPieces sysP = true :=
    joinP_clean _ (fun c hc => by
      obtain ⟨m, hm, rfl⟩ := List.mem_map.mp hc
      exact hclean m (List.mem_filter.mp hm).1)
  have hbody : (collateMsgs (l.map rp)).flatMap headerG = renderPieces ((collateP l).flatMap headerP) := by
    rw [collateMsgs_map_rp, List.flatMap_map, renderPieces_flatMap]
    congr 1
    funext x
    exact (headerP_render x).symm
  have hbclean : cleanPieces ((collateP l).flatMap headerP) = true :=
    flatMap_clean headerP _ (fun x hx => headerP_clean x (collateP_clean l hclean x hx))
  have hbtags : tagsOf ((collateP l).flatMap headerP) = l.flatMap (fun m => tagsOf (headerP m)) := by
    rw [flatMap_tags]; exact collateP_tags_nonsys l
  rw [hbody, hsys]
  cases hs : (renderPieces sysP).isEmpty with
  | true =>
    have hnil : renderPieces sysP = [] := by cases h : renderPieces sysP <;> simp_all
    have ht : tagsOf sysP = [] := tagsOf_of_render_nil sysP hnil
    have hts : ((l.filter isSysP).map (·.2)).flatMap tagsOf = [] := by rw [← joinP_tags]; exact ht
    simp only [if_true, List.nil_append, hts]
    rw [scanTags_renderPieces _ hbclean, hbtags]
  | false =>
    have e : [83, 60] ++ (renderPieces sysP ++ ([62] ++ [])) ++ renderPieces ((collateP l).flatMap headerP)
        = renderPieces ([Piece.lit [83, 60]] ++ sysP ++ [Piece.lit [62]] ++ (collateP l).flatMap headerP) := by
      simp [renderPieces_append, renderPieces, renderPiece]
    have hc : cleanPieces ([Piece.lit [83, 60]] ++ sysP ++ [Piece.lit [62]] ++ (collateP l).flatMap headerP) = true := by
      simp only [cleanPieces_append, hsysclean, hbclean, Bool.and_true]
      decide
    simp only [Bool.false_eq_true, if_false]
    rw [e, scanTags_renderPieces _ hc]
    have hj : tagsOf sysP = ((l.filter isSysP).map (·.2)).flatMap tagsOf := joinP_tags _
    simp only [tagsOf_append, hbtags, hj]
    simp [tagsOf]

/-- **Each image exactly once in the PROMPT BYTES, header messages template** (partial: guard `cleanPieces`; finding
    F5 otherwise): every index `k < #images` is matched exactly once by the runner's regexp, no other number is,
    every match resolves. -/
theorem prompt_tags_header_partial {tv : TVar} {mode : Nat} {tf : Option Nat} {p : Bytes} {tools : ToolsV}
    (h : chatPromptT cfg tv tHeader mode msgs tf tools = .ok q n sys ret imgs p)
    (hv : cfg.fixed = true)
    (hclean : ∀ m ∈ msgs, cleanPieces m.content = true)
    (hno : ∀ m ∈ msgs, ∀ k, countTag k m.content = 0) :
    (∀ k, (scanTags p 0).count k = if k < imgs.length then 1 else 0) ∧
    ∃ l, resolveTags imgs (scanTags p 0) = some l ∧ l.length = (scanTags p 0).length := by
  obtain ⟨hg, hexec⟩ := templ_ok_exact h
  have hsys := (system_kept_fixed hg hv).1
  have hsysmem : ∀ m ∈ sys, m ∈ msgs := by
    intro m hm
    rw [hsys] at hm
    exact List.mem_of_mem_take (List.mem_filter.mp hm).1
  have hretclean : ∀ m' ∈ ret, cleanPieces m'.content = true := by
    intro m' hm'
    obtain ⟨m, hm, hs⟩ := AllSame.mem_right (retained_is_suffix_in_order hg) m' hm'
    rw [cleanPieces_strip, hs.text, ← cleanPieces_strip]
    exact hclean m (List.mem_of_mem_drop hm)
  let L : List PMsg := (sys ++ ret).map (fun m : Msg => ((m.role, m.content) : PMsg))
  have hall : ∀ m ∈ L, cleanPieces m.2 = true := by
    intro m hm
    obtain ⟨x, hx, rfl⟩ := List.mem_map.mp hm
    rcases List.mem_append.mp hx with h1 | h1
    · exact hclean x (hsysmem x h1)
    · exact hretclean x h1
  obtain ⟨p', hp', hscan⟩ := header_scan tv L tools hall
  have emap : L.map rp = (sys ++ ret).map toRMsg := by
    simp only [L]; rw [List.map_map]; rfl
  rw [emap, hexec] at hp'
  injection hp' with hp'
  subst hp'
  obtain ⟨_, hid, hcount⟩ := images_once_indexed hg hno
  have hcnt : ∀ k, (scanTags p 0).count k = if k < imgs.length then 1 else 0 := by
    intro k
    rw [hscan, List.count_append, count_partition k L]
    have : L.flatMap (fun m => tagsOf m.2) = (sys ++ ret).flatMap (fun m => tagsOf m.content) := by
      simp only [L]; rw [List.flatMap_map]
    rw [this, ← flatMap_tags (fun m : Msg => m.content), count_tagsOf, List.flatMap_append, countTag_append,
      countTag_flatMap_zero k sys (fun m hm => hno m (hsysmem m hm) k), hcount k]
    simp
  refine ⟨hcnt, resolveTags_all imgs _ (fun k hk => ?_)⟩
  have hpos : 0 < (scanTags p 0).count k := List.count_pos_iff.mpr hk
  rw [hcnt k] at hpos
  have hlt : k < imgs.length := by
    by_cases hlt : k < imgs.length
    · exact hlt
    · simp [hlt] at hpos
  exact ⟨_, resolveTag_of_IdsOk imgs hid k hlt⟩


/-- non-vacuity of `prompt_tags_header_partial`: `nvconv` through the header template, everything kept: the runner
    reads the tags 0, 2, 1; context length 30 (bytes): only the latest message, tags 1, 0 -/
example :
    scanOf (chatPromptT ⟨true, false, 0, 1000⟩ ⟨2, true⟩ tHeader 1 nvconv) = [0, 2, 1] ∧
    cutOf (chatPromptT ⟨true, false, 0, 30⟩ ⟨2, true⟩ tHeader 1 nvconv) = some 3 ∧
    scanOf (chatPromptT ⟨true, false, 0, 30⟩ ⟨2, true⟩ tHeader 1 nvconv) = [1, 0] := by decide


/-! ### longest fitting run without hypothesis, header template (round 7) -/




theorem collate_system_remove (x : RMsg) (hx : x.1 ≠ Role.system) (a b : List RMsg) :
    (collate (a ++ x :: b)).1 = (collate (a ++ b)).1 := by
  unfold collate
  simp [List.filter_append, List.filter_cons, hx]

/-- cost of a candidate under the header template and the byte tokenizer -/
theorem tcost_header_bytes (tv : TVar) (msgs : List Msg) (tools : ToolsV) (i : Nat) :
    tcost tv tHeader 1 msgs tools i =
      (if (collate ((cand msgs i).map toRMsg)).1.isEmpty then 0 else 3 + (collate ((cand msgs i).map toRMsg)).1.length) +
        hgl ((cand msgs i).map toRMsg) := by
  have := header_exact tv ((cand msgs i).map toRMsg) tools
  unfold tcost renderAt
  show (match execute tv tHeader ((cand msgs i).map toRMsg) tools with
    | .ok b => tokenCount 1 b | .err _ => 0) = _
  rw [this]
  simp only [tokenCount, List.length_append]
  have e : ∀ l : List RMsg, (l.flatMap headerG).length = (l.flatMap hBody).length := by
    intro l; rfl
  unfold hgl
  rw [e]
  cases hs : (collate ((cand msgs i).map toRMsg)).1.isEmpty <;> simp <;> omega

/-- the measured total never grows when the run gets shorter: header template, byte tokenizer -/
theorem total_antitone_header_bytes (cfg : Cfg) (tv : TVar) (msgs : List Msg) (tools : ToolsV) :
    ∀ i j, i ≤ j → j + 1 < msgs.length →
      total cfg (tcost tv tHeader 1 msgs tools) msgs j ≤ total cfg (tcost tv tHeader 1 msgs tools) msgs i := by
  have hstep : ∀ i, i < msgs.length →
      total cfg (tcost tv tHeader 1 msgs tools) msgs (i+1) ≤ total cfg (tcost tv tHeader 1 msgs tools) msgs i := by
    intro i hi
    have hc : tcost tv tHeader 1 msgs tools (i+1) ≤ tcost tv tHeader 1 msgs tools i := by
      rw [tcost_header_bytes, tcost_header_bytes]
      have hd : msgs.drop i = msgs[i] :: msgs.drop (i+1) := List.drop_eq_getElem_cons hi
      by_cases hr : msgs[i].role = Role.system
      · have : cand msgs (i+1) = cand msgs i := by
          unfold cand; rw [systemsBefore_succ msgs i hi, hd]; simp [hr]
        rw [this]; exact Nat.le_refl _
      · have h1 : cand msgs i = systemsBefore msgs i ++ msgs[i] :: msgs.drop (i+1) := by
          unfold cand; rw [hd]
        have h2 : cand msgs (i+1) = systemsBefore msgs i ++ msgs.drop (i+1) := by
          unfold cand; rw [systemsBefore_succ msgs i hi]; simp [hr]
        rw [h1, h2]
        simp only [List.map_append, List.map_cons]
        have hx : (toRMsg msgs[i]).1 ≠ Role.system := hr
        rw [collate_system_remove _ hx]
        have := hgl_remove (toRMsg msgs[i]) hx ((systemsBefore msgs i).map toRMsg) ((msgs.drop (i+1)).map toRMsg)
        omega
    have hi' := imgCount_drop_step msgs i
    unfold total
    split
    · have := Nat.mul_le_mul_left (imageNumTokens cfg) hi'
      omega
    · omega
  intro i j hij hj
  have := antitone_of_step (fun k => total cfg (tcost tv tHeader 1 msgs tools) msgs k) msgs.length hstep (j - i) i (by omega)
  have e : i + (j - i) = j := by omega
  rw [e] at this
  exact this

/-- **The retained messages are THE longest recent run that fits** — header messages template, byte tokenizer;
    no hypothesis on the cost. -/
theorem retained_longest_fitting_header_bytes {tv : TVar} {tf : Option Nat} {p : Bytes} {tools : ToolsV}
    (h : chatPromptT cfg tv tHeader 1 msgs tf tools = .ok q n sys ret imgs p) :
    ∀ j, j + 1 < msgs.length →
      (fits cfg (tcost tv tHeader 1 msgs tools) msgs j = true ↔ n ≤ j) :=
  retained_longest_fitting (templ_ok_exact h).1 (total_antitone_header_bytes cfg tv msgs tools)



/-! ### failures have a cause (round 7) -/




/-- **Every failure has its cause** (converse of `chatPrompt_total`): "single image per message" only for an mllama
    model and a message with more than one image; a measuring failure at `i` only if rendering / tokenizing candidate
    `i` fails; a preprocessing failure only for an mllama model with a projector and an undecodable image; the panic
    only for the empty conversation. -/
theorem errors_are_justified :
    (chatPrompt cfg cost bad msgs = .errTooMany → cfg.mllama = true ∧ ∃ m ∈ msgs, 1 < m.images.length) ∧
    (∀ i, chatPrompt cfg cost bad msgs = .execFail i → bad i = true ∧ i < msgs.length) ∧
    (chatPrompt cfg cost bad msgs = .errPreprocess → ¬ ∀ m ∈ msgs, ∀ im ∈ m.images, imgOk cfg im) ∧
    (chatPrompt cfg cost bad msgs = .panicEmpty → msgs = []) := by
  refine ⟨?_, ?_, ?_, ?_⟩
  · intro h
    unfold chatPrompt at h
    cases msgs with
    | nil => cases h
    | cons m ms =>
      simp only at h
      split at h
      · rename_i hs
        obtain ⟨hm, i, _, hi⟩ := scan_err_inv cfg cost bad (m :: ms) _ _ _ _ hs
        refine ⟨hm, ?_⟩
        rcases imagesAt_cases (m :: ms) i with h0 | ⟨x, hx, he⟩
        · rw [h0] at hi; simp at hi
        · exact ⟨x, hx, by rw [← he]; exact hi⟩
      · cases h
      · split at h <;> cases h
  · intro i h
    unfold chatPrompt at h
    cases msgs with
    | nil => cases h
    | cons m ms =>
      simp only at h
      split at h
      · cases h
      · rename_i j hs
        injection h with h
        subst h
        exact scan_fail_inv cfg cost bad (m :: ms) _ _ _ _ _ hs
      · split at h <;> cases h
  · intro h hall
    unfold chatPrompt at h
    cases msgs with
    | nil => cases h
    | cons m ms =>
      simp only at h
      split at h
      · cases h
      · cases h
      · rename_i n s q hs
        obtain ⟨r, hr⟩ := rewriteAll_total cfg ((m :: ms).drop n) []
          (fun x hx => hall x (List.mem_of_mem_drop hx))
        rw [hr] at h
        cases h
  · intro h
    unfold chatPrompt at h
    cases msgs with
    | nil => rfl
    | cons m ms =>
      simp only at h
      split at h
      · cases h
      · cases h
      · split at h <;> cases h


/-- non-vacuity: each failure is reachable, with its cause -/
example :
    chatPrompt ⟨true, true, 2, 100⟩ (fun _ => 1) (fun _ => false) [⟨.user, txt bHi, [⟨1, true⟩, ⟨2, true⟩]⟩] = .errTooMany ∧
    chatPrompt ⟨true, true, 2, 100⟩ (fun _ => 1) (fun _ => false) [⟨.user, txt bHi, [⟨1, false⟩]⟩] = .errPreprocess ∧
    chatPrompt ⟨true, false, 0, 100⟩ (fun _ => 1) (fun i => i == 0) [⟨.user, txt bHi, []⟩, ⟨.user, txt bHi, []⟩] = .execFail 0 ∧
    chatPrompt ⟨true, false, 0, 100⟩ (fun _ => 1) (fun _ => false) [] = .panicEmpty := by decide


/-! ### refinement to the specification, in one statement (round 7) -/

/-- **chatPrompt refines its specification** (current /repo variant; every conversation, context length, cost
    function): if nothing fails — and `chatPrompt_total` / `errors_are_justified` say exactly when that is — the
    outcome is `.ok q n sys ret imgs` with every component in closed form or characterised up to the tags it owns:
    `n = specCut` (walk back from the latest message while the next longer run fits), `q` = the measurements that
    implies, `sys` = the system messages before `n`, `imgs = specImagesFrom` (images of `msgs[n:]`, id = position),
    `ret` = `msgs[n:]` message by message (role, images, literal text) with exactly the tags of its own images added
    (`Owned`), and the latest message is the last one handed to the template. -/
theorem chatPrompt_refines_spec (hv : cfg.fixed = true) (hne : msgs ≠ []) (hbad : ∀ i, bad i = false)
    (himg : cfg.mllama = true → ∀ m ∈ msgs, m.images.length ≤ 1)
    (hok : ∀ m ∈ msgs, ∀ im ∈ m.images, imgOk cfg im) :
    ∃ q sys ret imgs,
      let n := specCut (fits cfg cost msgs) (msgs.length - 1)
      chatPrompt cfg cost bad msgs = .ok q n sys ret imgs ∧
      n < msgs.length ∧
      q = (msgs.length - 1 - n) + (if n = 0 then 0 else 1) ∧
      sys = systemsBefore msgs n ∧
      imgs = specImagesFrom cfg 0 ((msgs.drop n).flatMap (·.images)) ∧
      AllSame (msgs.drop n) ret ∧ Owned 0 (msgs.drop n) ret := by
  obtain ⟨q, n, sys, ret, imgs, h⟩ := chatPrompt_total (cost := cost) hne hbad himg hok
  have hn := cut_is_spec h
  refine ⟨q, sys, ret, imgs, ?_⟩
  simp only
  rw [← hn]
  exact ⟨h, start_lt h, tokenizer_calls h, (system_kept_fixed h hv).1, images_are_spec h,
    retained_is_suffix_in_order h, tags_in_owner h⟩


/-- non-vacuity: the hypotheses hold for `nvconv` on a projector model (and the outcome is the one computed above) -/
example : nvconv ≠ [] ∧ (∀ m ∈ nvconv, ∀ im ∈ m.images, imgOk ⟨true, false, 2, 1600⟩ im) :=
  ⟨by decide, fun _ _ _ _ => Or.inl rfl⟩

end OllamaVerif.C19

/-! ## Round 7: the legacy template on the join-repaired loop in closed form (pieces); each image once in the prompt bytes -/
namespace OllamaVerif.Prompt
open OllamaVerif.C19

/-- a slot followed by a blank, unless it renders empty (`{{if .X}}{{.X}} {{end}}`) -/
def spaceP (c : List Piece) : List Piece := if (renderPieces c).isEmpty then [] else c ++ [Piece.lit [32]]
def bareP (c : List Piece) : List Piece := if (renderPieces c).isEmpty then [] else c

def turnP (s p r : List Piece) : List Piece := spaceP s ++ spaceP p ++ spaceP r
def turnCutP (s p r : List Piece) : List Piece := spaceP s ++ spaceP p ++ bareP r

theorem tLegacy_exec (s p r : Bytes) :
    execList (legacyRoot s p r) tLegacy none =
      .ok ((if s.isEmpty then [] else s ++ [32]) ++ ((if p.isEmpty then [] else p ++ [32]) ++ (if r.isEmpty then [] else r ++ [32]))) := by
  cases hs : s.isEmpty <;> cases hp : p.isEmpty <;> cases hr : r.isEmpty <;>
    simp [tLegacy, execList, execNode, eval, evalField, Root.get, legacyRoot, truthy, printVal, XOut.append, hs, hp, hr]

theorem tLegacyCut_exec (s p r : Bytes) :
    execList (legacyRoot s p r) tLegacyCut none =
      .ok ((if s.isEmpty then [] else s ++ [32]) ++ ((if p.isEmpty then [] else p ++ [32]) ++ (if r.isEmpty then [] else r))) := by
  cases hs : s.isEmpty <;> cases hp : p.isEmpty <;> cases hr : r.isEmpty <;>
    simp [tLegacyCut, execList, execNode, eval, evalField, Root.get, legacyRoot, truthy, printVal, XOut.append, hs, hp, hr]

theorem render_spaceP (c : List Piece) :
    renderPieces (spaceP c) = if (renderPieces c).isEmpty then [] else renderPieces c ++ [32] := by
  unfold spaceP
  split
  · rfl
  · simp [renderPieces_append, renderPieces, renderPiece]

theorem render_bareP (c : List Piece) :
    renderPieces (bareP c) = if (renderPieces c).isEmpty then [] else renderPieces c := by
  unfold bareP
  split <;> rfl

theorem render_turnP (s p r : List Piece) :
    execList (legacyRoot (renderPieces s) (renderPieces p) (renderPieces r)) tLegacy none = .ok (renderPieces (turnP s p r)) := by
  rw [tLegacy_exec]
  simp only [turnP, renderPieces_append, render_spaceP, List.append_assoc]

theorem render_turnCutP (s p r : List Piece) :
    execList (legacyRoot (renderPieces s) (renderPieces p) (renderPieces r)) tLegacyCut none = .ok (renderPieces (turnCutP s p r)) := by
  rw [tLegacyCut_exec]
  simp only [turnCutP, renderPieces_append, render_spaceP, render_bareP, List.append_assoc]

structure LegacyP where
  sys : List Piece
  prompt : List Piece
  resp : List Piece
  out : List Piece

def absL (st : LegacyP) : Legacy :=
  ⟨renderPieces st.sys, renderPieces st.prompt, renderPieces st.resp, .ok (renderPieces st.out)⟩

def joinSlotP (a c : List Piece) : List Piece :=
  if (renderPieces a).isEmpty then c else a ++ [Piece.lit sep2] ++ c

theorem render_joinSlotP (a c : List Piece) :
    renderPieces (joinSlotP a c) = joinSlot (renderPieces a) (renderPieces c) := by
  unfold joinSlotP joinSlot
  split
  · rfl
  · simp [renderPieces_append, renderPieces, renderPiece]

def flushP (st : LegacyP) : LegacyP := ⟨[], [], [], st.out ++ turnP st.sys st.prompt st.resp⟩

theorem abs_flushP (st : LegacyP) : absL (flushP st) = legacyFlush tLegacy (absL st) := by
  simp only [absL, flushP, legacyFlush, render_turnP, XOut.append, renderPieces_append]
  rfl

def stepP (st : LegacyP) (m : PMsg) : LegacyP :=
  match m.1 with
  | .system =>
    let st' := if (!(renderPieces st.prompt).isEmpty || !(renderPieces st.resp).isEmpty) then flushP st else st
    { st' with sys := joinSlotP st'.sys m.2 }
  | .user =>
    let st' := if (!(renderPieces st.resp).isEmpty) then flushP st else st
    { st' with prompt := joinSlotP st'.prompt m.2 }
  | .assistant => { st with resp := joinSlotP st.resp m.2 }
  | _ => st

theorem abs_stepP (st : LegacyP) (m : PMsg) : absL (stepP st m) = legacyStep 2 tLegacy (absL st) (rp m) := by
  obtain ⟨r, c⟩ := m
  cases r with
  | system =>
    show absL (stepP st (Role.system, c)) = legacyStep 2 tLegacy (absL st) (Role.system, renderPieces c)
    rw [legacyStep_join_system]
    simp only [stepP]
    by_cases hc : (!(renderPieces st.prompt).isEmpty || !(renderPieces st.resp).isEmpty) = true
    · have hc' : (!(absL st).prompt.isEmpty || !(absL st).resp.isEmpty) = true := hc
      rw [if_pos hc, if_pos hc', ← abs_flushP]
      simp [absL, setSys, render_joinSlotP]
    · have hc' : ¬ ((!(absL st).prompt.isEmpty || !(absL st).resp.isEmpty) = true) := hc
      rw [if_neg hc, if_neg hc']
      simp [absL, setSys, render_joinSlotP]
  | user =>
    show absL (stepP st (Role.user, c)) = legacyStep 2 tLegacy (absL st) (Role.user, renderPieces c)
    rw [legacyStep_join_user]
    simp only [stepP]
    by_cases hc : (!(renderPieces st.resp).isEmpty) = true
    · have hc' : (!(absL st).resp.isEmpty) = true := hc
      rw [if_pos hc, if_pos hc', ← abs_flushP]
      simp [absL, setPrompt, render_joinSlotP]
    · have hc' : ¬ ((!(absL st).resp.isEmpty) = true) := hc
      rw [if_neg hc, if_neg hc']
      simp [absL, setPrompt, render_joinSlotP]
  | assistant =>
    show absL (stepP st (Role.assistant, c)) = legacyStep 2 tLegacy (absL st) (Role.assistant, renderPieces c)
    rw [legacyStep_join_assistant]
    simp [stepP, absL, setResp, render_joinSlotP]
  | tool => rfl
  | other => rfl

theorem abs_foldP : ∀ (l : List PMsg) (st : LegacyP),
    absL (l.foldl stepP st) = (l.map rp).foldl (legacyStep 2 tLegacy) (absL st) := by
  intro l
  induction l with
  | nil => intro st; rfl
  | cons a l ih =>
    intro st
    simp only [List.foldl_cons, List.map_cons]
    rw [ih, abs_stepP]

def finalP (l : List PMsg) : List Piece :=
  let st := (collateP l).foldl stepP ⟨[], [], [], []⟩
  st.out ++ turnCutP st.sys st.prompt st.resp

/-- **the legacy template of prompt_test.go on the join-repaired loop, in closed form at the level of pieces** -/
theorem legacy_exact (efix : Bool) (l : List PMsg) (tools : ToolsV) :
    execute ⟨2, efix⟩ tLegacy (l.map rp) tools = .ok (renderPieces (finalP l)) := by
  have hmsg : nodesMention Fld.messages tLegacy = false := by decide
  have hfold := abs_foldP (collateP l) ⟨[], [], [], []⟩
  have h0 : absL ⟨[], [], [], []⟩ = ⟨[], [], [], .ok []⟩ := rfl
  rw [h0, ← collateMsgs_map_rp] at hfold
  simp only [execute, collate, hmsg, Bool.false_eq_true, if_false, ← hfold, tLegacy_cut efix]
  simp only [absL, render_turnCutP, XOut.append, finalP, renderPieces_append]

end OllamaVerif.Prompt

namespace OllamaVerif.Prompt
open OllamaVerif.C19

theorem tags_spaceP (c : List Piece) : tagsOf (spaceP c) = tagsOf c := by
  unfold spaceP
  split
  · rename_i h
    have : renderPieces c = [] := by cases hc : renderPieces c <;> simp_all
    rw [tagsOf_of_render_nil c this]; rfl
  · simp [tagsOf_append, tagsOf]

theorem tags_bareP (c : List Piece) : tagsOf (bareP c) = tagsOf c := by
  unfold bareP
  split
  · rename_i h
    have : renderPieces c = [] := by cases hc : renderPieces c <;> simp_all
    rw [tagsOf_of_render_nil c this]; rfl
  · rfl

theorem count_joinSlotP (k : Nat) (a c : List Piece) :
    (tagsOf (joinSlotP a c)).count k = (tagsOf a).count k + (tagsOf c).count k := by
  unfold joinSlotP
  split
  · rename_i h
    have : renderPieces a = [] := by cases hc : renderPieces a <;> simp_all
    rw [tagsOf_of_render_nil a this]; simp
  · simp [tagsOf_append, tagsOf, List.count_append]

def cnt (k : Nat) (st : LegacyP) : Nat :=
  (tagsOf st.out).count k + (tagsOf st.sys).count k + (tagsOf st.prompt).count k + (tagsOf st.resp).count k

theorem tagsOf_nil : tagsOf ([] : List Piece) = [] := rfl

theorem cnt_flushP (k : Nat) (st : LegacyP) : cnt k (flushP st) = cnt k st := by
  simp only [cnt, flushP, turnP, tagsOf_append, tags_spaceP, List.count_append, tagsOf_nil, List.count_nil]
  omega

theorem cnt_stepP (k : Nat) (st : LegacyP) (m : PMsg) :
    cnt k (stepP st m) = cnt k st + (if legacyRole m.1 then (tagsOf m.2).count k else 0) := by
  obtain ⟨r, c⟩ := m
  cases r with
  | system =>
    simp only [stepP, legacyRole, if_true]
    split
    · have := cnt_flushP k st
      simp only [cnt, count_joinSlotP] at this ⊢
      omega
    · simp only [cnt, count_joinSlotP]; omega
  | user =>
    simp only [stepP, legacyRole, if_true]
    split
    · have := cnt_flushP k st
      simp only [cnt, count_joinSlotP] at this ⊢
      omega
    · simp only [cnt, count_joinSlotP]; omega
  | assistant =>
    simp only [stepP, legacyRole, if_true, cnt, count_joinSlotP]; omega
  | tool => simp [stepP, legacyRole]
  | other => simp [stepP, legacyRole]

theorem cnt_foldP (k : Nat) : ∀ (l : List PMsg) (st : LegacyP),
    cnt k (l.foldl stepP st) = cnt k st + (l.flatMap (fun m => if legacyRole m.1 then tagsOf m.2 else [])).count k := by
  intro l
  induction l with
  | nil => intro st; simp
  | cons a l ih =>
    intro st
    simp only [List.foldl_cons, List.flatMap_cons, List.count_append]
    rw [ih, cnt_stepP]
    by_cases h : legacyRole a.1 = true <;> simp [h] <;> omega

theorem collateP_tags_keep (keep : Role → Bool) : ∀ l : List PMsg,
    (collateP l).flatMap (fun m => if keep m.1 then tagsOf m.2 else []) =
      l.flatMap (fun m => if keep m.1 then tagsOf m.2 else []) := by
  intro l
  induction l with
  | nil => rfl
  | cons a l ih =>
    obtain ⟨r, c⟩ := a
    simp only [collateP, List.flatMap_cons]
    rw [← ih]
    cases hc : collateP l with
    | nil => simp
    | cons b tl =>
      obtain ⟨r', c'⟩ := b
      by_cases hr : r = r'
      · subst hr
        by_cases hs : keep r = true
        · simp only [hs, if_true, List.flatMap_cons, tagsOf_append]
          simp [tagsOf]
        · simp [hs]
      · simp [hr]

theorem count_finalP (k : Nat) (l : List PMsg) :
    (tagsOf (finalP l)).count k = (l.flatMap (fun m => if legacyRole m.1 then tagsOf m.2 else [])).count k := by
  have := cnt_foldP k (collateP l) ⟨[], [], [], []⟩
  rw [collateP_tags_keep legacyRole l] at this
  simp only [finalP, turnCutP, tagsOf_append, tags_spaceP, tags_bareP, List.count_append]
  simp only [cnt, tagsOf_nil, List.count_nil] at this
  omega

theorem flatMap_congr' {α β : Type} (f g : α → List β) : ∀ l : List α, (∀ x ∈ l, f x = g x) → l.flatMap f = l.flatMap g := by
  intro l
  induction l with
  | nil => intro _; rfl
  | cons a l ih =>
    intro h
    simp only [List.flatMap_cons, h a (by simp), ih (fun x hx => h x (by simp [hx]))]

/-! cleanliness of the buffers -/

def cleanSt (st : LegacyP) : Prop :=
  cleanPieces st.out = true ∧ cleanPieces st.sys = true ∧ cleanPieces st.prompt = true ∧ cleanPieces st.resp = true

theorem clean_spaceP (c : List Piece) (h : cleanPieces c = true) : cleanPieces (spaceP c) = true := by
  unfold spaceP
  split
  · rfl
  · simp only [cleanPieces_append, h, Bool.true_and]; decide

theorem clean_bareP (c : List Piece) (h : cleanPieces c = true) : cleanPieces (bareP c) = true := by
  unfold bareP
  split
  · rfl
  · exact h

theorem clean_joinSlotP (a c : List Piece) (ha : cleanPieces a = true) (hc : cleanPieces c = true) :
    cleanPieces (joinSlotP a c) = true := by
  unfold joinSlotP
  split
  · exact hc
  · simp only [cleanPieces_append, ha, hc, Bool.and_true, Bool.true_and]; decide

theorem clean_flushP (st : LegacyP) (h : cleanSt st) : cleanSt (flushP st) := by
  obtain ⟨a, b, c, d⟩ := h
  refine ⟨?_, rfl, rfl, rfl⟩
  simp only [flushP, turnP, cleanPieces_append, a, clean_spaceP _ b, clean_spaceP _ c, clean_spaceP _ d, Bool.and_true]

theorem clean_stepP (st : LegacyP) (m : PMsg) (h : cleanSt st) (hm : cleanPieces m.2 = true) : cleanSt (stepP st m) := by
  obtain ⟨r, c⟩ := m
  cases r with
  | system =>
    simp only [stepP]
    split
    · obtain ⟨a, b, c', d⟩ := clean_flushP st h
      exact ⟨a, clean_joinSlotP _ _ b hm, c', d⟩
    · obtain ⟨a, b, c', d⟩ := h
      exact ⟨a, clean_joinSlotP _ _ b hm, c', d⟩
  | user =>
    simp only [stepP]
    split
    · obtain ⟨a, b, c', d⟩ := clean_flushP st h
      exact ⟨a, b, clean_joinSlotP _ _ c' hm, d⟩
    · obtain ⟨a, b, c', d⟩ := h
      exact ⟨a, b, clean_joinSlotP _ _ c' hm, d⟩
  | assistant =>
    obtain ⟨a, b, c', d⟩ := h
    exact ⟨a, b, c', clean_joinSlotP _ _ d hm⟩
  | tool => exact h
  | other => exact h

theorem clean_foldP : ∀ (l : List PMsg) (st : LegacyP), cleanSt st → (∀ m ∈ l, cleanPieces m.2 = true) →
    cleanSt (l.foldl stepP st) := by
  intro l
  induction l with
  | nil => intro st h _; exact h
  | cons a l ih =>
    intro st h hl
    simp only [List.foldl_cons]
    exact ih _ (clean_stepP st a h (hl a (by simp))) (fun m hm => hl m (by simp [hm]))

theorem clean_finalP (l : List PMsg) (h : ∀ m ∈ l, cleanPieces m.2 = true) : cleanPieces (finalP l) = true := by
  obtain ⟨a, b, c, d⟩ := clean_foldP (collateP l) ⟨[], [], [], []⟩ ⟨rfl, rfl, rfl, rfl⟩ (collateP_clean l h)
  simp only [finalP, turnCutP, cleanPieces_append, a, clean_spaceP _ b, clean_spaceP _ c, clean_bareP _ d, Bool.and_true]

end OllamaVerif.Prompt

namespace OllamaVerif.C19
open OllamaVerif OllamaVerif.Prompt
variable {cfg : Cfg} {cost : Nat → Nat} {bad : Nat → Bool} {msgs : List Msg}
  {q n : Nat} {sys ret : List Msg} {imgs : List ImgOut}

/-- **Each image exactly once in the PROMPT BYTES, legacy template on the join-repaired loop** (partial: guard
    `cleanPieces`, finding F5 otherwise; every role is one the legacy loop renders — system, user, assistant): every
    index `k < #images` is matched exactly once by the runner's regexp, no other number is, every match resolves. -/
theorem prompt_tags_legacy_partial {efix : Bool} {mode : Nat} {tf : Option Nat} {p : Bytes} {tools : ToolsV}
    (h : chatPromptT cfg ⟨2, efix⟩ tLegacy mode msgs tf tools = .ok q n sys ret imgs p)
    (hv : cfg.fixed = true)
    (hroles : ∀ m ∈ msgs, legacyRole m.role = true)
    (hclean : ∀ m ∈ msgs, cleanPieces m.content = true)
    (hno : ∀ m ∈ msgs, ∀ k, countTag k m.content = 0) :
    (∀ k, (scanTags p 0).count k = if k < imgs.length then 1 else 0) ∧
    ∃ l, resolveTags imgs (scanTags p 0) = some l ∧ l.length = (scanTags p 0).length := by
  obtain ⟨hg, hexec⟩ := templ_ok_exact h
  have hsys := (system_kept_fixed hg hv).1
  have hsysmem : ∀ m ∈ sys, m ∈ msgs := by
    intro m hm
    rw [hsys] at hm
    exact List.mem_of_mem_take (List.mem_filter.mp hm).1
  have hretsame : ∀ m' ∈ ret, ∃ m ∈ msgs, SameMsg m m' := by
    intro m' hm'
    obtain ⟨m, hm, hs⟩ := AllSame.mem_right (retained_is_suffix_in_order hg) m' hm'
    exact ⟨m, List.mem_of_mem_drop hm, hs⟩
  let L : List PMsg := (sys ++ ret).map (fun m : Msg => ((m.role, m.content) : PMsg))
  have hall : ∀ m ∈ L, cleanPieces m.2 = true ∧ legacyRole m.1 = true := by
    intro m hm
    obtain ⟨x, hx, rfl⟩ := List.mem_map.mp hm
    rcases List.mem_append.mp hx with h1 | h1
    · exact ⟨hclean x (hsysmem x h1), hroles x (hsysmem x h1)⟩
    · obtain ⟨y, hy, hs⟩ := hretsame x h1
      refine ⟨?_, ?_⟩
      · show cleanPieces x.content = true
        rw [cleanPieces_strip, hs.text, ← cleanPieces_strip]; exact hclean y hy
      · show legacyRole x.role = true
        rw [hs.role]; exact hroles y hy
  have hex := legacy_exact efix L tools
  have emap : L.map rp = (sys ++ ret).map toRMsg := by
    simp only [L]; rw [List.map_map]; rfl
  rw [emap, hexec] at hex
  injection hex with hex
  subst hex
  have hscan : scanTags (renderPieces (finalP L)) 0 = tagsOf (finalP L) :=
    scanTags_renderPieces _ (clean_finalP L (fun m hm => (hall m hm).1))
  obtain ⟨_, hid, hcount⟩ := images_once_indexed hg hno
  have hcnt : ∀ k, (scanTags (renderPieces (finalP L)) 0).count k = if k < imgs.length then 1 else 0 := by
    intro k
    rw [hscan, count_finalP k L]
    have e1 : L.flatMap (fun m => if legacyRole m.1 then tagsOf m.2 else []) = L.flatMap (fun m => tagsOf m.2) := by
      apply flatMap_congr'
      intro m hm
      simp [(hall m hm).2]
    have e2 : L.flatMap (fun m => tagsOf m.2) = (sys ++ ret).flatMap (fun m => tagsOf m.content) := by
      simp only [L]; rw [List.flatMap_map]
    rw [e1, e2, ← flatMap_tags (fun m : Msg => m.content), count_tagsOf, List.flatMap_append, countTag_append,
      countTag_flatMap_zero k sys (fun m hm => hno m (hsysmem m hm) k), hcount k]
    simp
  refine ⟨hcnt, resolveTags_all imgs _ (fun k hk => ?_)⟩
  have hpos : 0 < (scanTags (renderPieces (finalP L)) 0).count k := List.count_pos_iff.mpr hk
  rw [hcnt k] at hpos
  have hlt : k < imgs.length := by
    by_cases hlt : k < imgs.length
    · exact hlt
    · simp [hlt] at hpos
  exact ⟨_, resolveTag_of_IdsOk imgs hid k hlt⟩

end OllamaVerif.C19

namespace OllamaVerif.C19
open OllamaVerif OllamaVerif.Prompt

/-- non-vacuity of `prompt_tags_legacy_partial`: `nvconv` (roles system / user / assistant) through the legacy template -/
example :
    scanOf (chatPromptT ⟨true, false, 0, 1000⟩ ⟨2, true⟩ tLegacy 1 nvconv) = [0, 2, 1] ∧
    (nvconv.all fun m => legacyRole m.role) = true := by decide

end OllamaVerif.C19

namespace OllamaVerif.C19
open OllamaVerif OllamaVerif.Prompt

/-! ### the handlers end to end on the prompt bytes (round 7) -/

/-- **POST /v1/chat/completions and POST /api/chat, end to end on the prompt bytes** (in-place template, current
    variant; partial: guard `cleanPieces` on the model's MESSAGEs, the model SYSTEM and the request's texts — finding
    F5 otherwise): whatever the request's context length and the scheduler's slots, when the handler builds a
    prompt the runner's regexp matches every index `k < #images sent` exactly once and nothing else, every match
    resolves, and the images sent are the images (image parts) of the retained messages in order.  `req` is the
    request's message list — for the OpenAI entry `fromOpenAI oreq`. -/
theorem handler_prompt_tags_inplace_partial {tv : TVar} {dflt : Int} {modelParam reqOpt : Option Int} {np : Nat}
    {mm : List Msg} {s : Bytes} {req : List Msg} {tools : ToolsV}
    {q n : Nat} {sys ret : List Msg} {imgs : List ImgOut} {p : Bytes}
    (h : chatHandler true false tv tInPlace dflt modelParam reqOpt np mm s req tools = .ok q n sys ret imgs p)
    (hmm : ∀ m ∈ mm, cleanPieces m.content = true ∧ ∀ k, countTag k m.content = 0)
    (hreq : ∀ m ∈ req, cleanPieces m.content = true ∧ ∀ k, countTag k m.content = 0)
    (hs : cleanPieces (splitImg s) = true) :
    (∀ k, (scanTags p 0).count k = if k < imgs.length then 1 else 0) ∧
    (∃ l, resolveTags imgs (scanTags p 0) = some l ∧ l.length = (scanTags p 0).length) ∧
    imgs = specImagesFrom ⟨true, false, 0, requestNumCtx dflt modelParam reqOpt⟩ 0
      (((handlerMsgs mm s req).drop n).flatMap (·.images)) := by
  unfold chatHandler at h
  simp only [Bool.false_eq_true, if_false] at h
  have hall := handlerMsgs_all (fun m => cleanPieces m.content = true ∧ ∀ k, countTag k m.content = 0) mm s req
    hmm hreq ⟨hs, fun k => splitImg_noTag k s⟩
  obtain ⟨_, h2, h3⟩ := prompt_tags_inplace_partial h rfl (fun m hm => (hall m hm).1) (fun m hm => (hall m hm).2)
  exact ⟨h2, h3, images_are_spec (templ_ok_exact h).1⟩

/-- the OpenAI conversion keeps texts as they are: a converted message's content is a part's text, a string
    content, or empty (image part) -/
theorem fromOpenAI_content (req : List OMsg) (P : List Piece → Prop) (hnil : P [])
    (hstr : ∀ o ∈ req, ∀ c, o.content = .str c → P c)
    (hparts : ∀ o ∈ req, ∀ ps, o.content = .parts ps → ∀ c, OPart.text c ∈ ps → P c) :
    ∀ m ∈ fromOpenAI req, P m.content := by
  intro m hm
  simp only [fromOpenAI, List.mem_flatMap] at hm
  obtain ⟨o, ho, hmo⟩ := hm
  obtain ⟨r, c⟩ := o
  cases c with
  | str c =>
    simp [fromOpenAIMsg] at hmo
    subst hmo
    exact hstr _ ho c rfl
  | parts ps =>
    simp only [fromOpenAIMsg, List.mem_map] at hmo
    obtain ⟨pt, hpt, hp⟩ := hmo
    subst hp
    cases pt with
    | text c => exact hparts _ ho ps rfl c hpt
    | image im => exact hnil


/-- non-vacuity: an OpenAI request with a text part and an image part on the in-place template: the handler's prompt
    mentions the single image exactly once -/
example :
    scanOf (chatHandler true false ⟨2, true⟩ tInPlace 2048 none none 1 [] []
      (fromOpenAI [⟨.user, .parts [.text (txt bHi), .image ⟨7, true⟩]⟩])) = [0] := by decide

end OllamaVerif.C19

namespace OllamaVerif.C19
open OllamaVerif OllamaVerif.Prompt

/-- **First failure is not longest-fitting on a REAL template path with a whitespace tokenizer** (the tokenizer of
    prompt_test.go): `[system a, user b, system c, user d]`, in-place template, context length 1.  The run `[2:]` is
    measured as `[system|a\n\nc][user|d]` — collate joins the two system messages with a blank line: 2 tokens, over
    budget — so the walk stops and keeps only the latest message, although the runs `[1:]` and `[0:]` render to
    `[system|a][user|b][system|c][user|d]`, ONE token, and fit.  (With the byte tokenizer this cannot happen:
    `total_antitone_inplace_bytes`.) -/
theorem first_failure_not_longest_inplace_fields :
    let conv : List Msg := [⟨.system, txt [97], []⟩, ⟨.user, txt [98], []⟩, ⟨.system, txt [99], []⟩, ⟨.user, txt [100], []⟩]
    cutOf (chatPromptT ⟨true, false, 0, 1⟩ ⟨2, true⟩ tInPlace 0 conv) = some 3 ∧
    (List.range 3).map (fun i => tcost ⟨2, true⟩ tInPlace 0 conv {} i) = [1, 1, 2] := by
  decide

end OllamaVerif.C19
