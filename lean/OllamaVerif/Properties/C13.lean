import OllamaVerif.Model.Names
namespace OllamaVerif.C13
end OllamaVerif.C13
