/-
  C13 — Model names and digests cannot address anything outside the model store.

  Property theorems over the byte-level model `OllamaVerif.Names` (Model/Names.lean); helper lemmas are
  in Proofs/Names.lean.  Every theorem is for ALL byte strings / all names (no length or alphabet bound).
-/
import OllamaVerif.Proofs.Names
namespace OllamaVerif.C13
open OllamaVerif OllamaVerif.Names

theorem orMissing_ne {s : Bytes} (h : s ≠ []) : orMissing s = s := by
  cases s with
  | nil => exact absurd rfl h
  | cons x xs => simp [orMissing, orElse]

theorem orElse_ne {s d : Bytes} (h : s ≠ []) : orElse s d = s := by
  cases s with
  | nil => exact absurd rfl h
  | cons x xs => simp [orElse]

structure FQParts (n : Name) : Prop where
  hne : n.host ≠ []
  nne : n.ns ≠ []
  mne : n.model ≠ []
  tne : n.tag ≠ []
  hslash : ∀ c ∈ n.host, c ≠ cSlash
  nslash : ∀ c ∈ n.ns, c ≠ cSlash
  mslash : ∀ c ∈ n.model, c ≠ cSlash
  tslash : ∀ c ∈ n.tag, c ≠ cSlash
  ncolon : ∀ c ∈ n.ns, c ≠ cColon
  mcolon : ∀ c ∈ n.model, c ≠ cColon
  tcolon : ∀ c ∈ n.tag, c ≠ cColon

theorem fqParts_of_isFQM {n : Name} (h : isFQM n = true) : FQParts n := by
  simp only [isFQM, Bool.and_eq_true] at h
  obtain ⟨⟨⟨hh, hn⟩, hm⟩, ht⟩ := h
  exact {
    hne := validPartM_ne_nil hh, nne := validPartM_ne_nil hn, mne := validPartM_ne_nil hm, tne := validPartM_ne_nil ht
    hslash := (validPartM_safe hh).noSlash, nslash := (validPartM_safe hn).noSlash
    mslash := (validPartM_safe hm).noSlash, tslash := (validPartM_safe ht).noSlash
    ncolon := validPart_noColon (by decide) (by decide) (validPartM_charsOk hn)
    mcolon := validPart_noColon (by decide) (by decide) (validPartM_charsOk hm)
    tcolon := validPart_noColon (by decide) (by decide) (validPartM_charsOk ht) }

theorem toStr_fq {n : Name} (p : FQParts n) :
    toStr n = (n.host ++ cSlash :: n.ns ++ cSlash :: n.model) ++ cColon :: n.tag := by
  have h1 : n.host.isEmpty = false := by simpa [List.isEmpty_iff] using p.hne
  have h2 : n.ns.isEmpty = false := by simpa [List.isEmpty_iff] using p.nne
  have h3 : n.tag.isEmpty = false := by simpa [List.isEmpty_iff] using p.tne
  simp [toStr, h1, h2, h3]

theorem print_parse_model_parts {n : Name} (p : FQParts n) : parseNameBare (toStr n) = n := by
  rw [toStr_fq p]
  have hb : n.host ++ cSlash :: n.ns ++ cSlash :: n.model ≠ [] := by simp
  have hcut : cutTag ((n.host ++ cSlash :: n.ns ++ cSlash :: n.model) ++ cColon :: n.tag)
      = (n.host ++ cSlash :: n.ns ++ cSlash :: n.model, n.tag) := by
    unfold cutTag
    rw [splitLast_append _ _ _ cColon (by decide)]
    · simp only [orMissing_ne hb, orMissing_ne p.tne]; simp
    · intro x hx
      have := p.tslash x hx; have := p.tcolon x hx
      simp [*]
  have hc1 : cutPromised cSlash (n.host ++ cSlash :: n.ns ++ cSlash :: n.model)
      = some (n.host ++ cSlash :: n.ns, n.model) := by
    unfold cutPromised
    rw [splitLast_append _ (n.host ++ cSlash :: n.ns) n.model cSlash (by simp)]
    · have : n.host ++ cSlash :: n.ns ≠ [] := by simp
      simp only [orMissing_ne this, orMissing_ne p.mne]
    · intro x hx; simpa using p.mslash x hx
  have hc2 : cutPromised cSlash (n.host ++ cSlash :: n.ns) = some (n.host, n.ns) := by
    unfold cutPromised
    rw [splitLast_append _ n.host n.ns cSlash (by simp)]
    · simp only [orMissing_ne p.hne, orMissing_ne p.nne]
    · intro x hx; simpa using p.nslash x hx
  unfold parseNameBare
  simp only [hcut, hc1, hc2, cutScheme_none n.host p.hslash]


theorem print_parse_names_parts {n : Name} (p : FQParts n) (hlen : (toStr n).length ≤ maxNameLength) :
    parseN (toStr n) = n := by
  unfold parseN
  rw [if_neg (by omega)]
  rw [toStr_fq p] at hlen ⊢
  have hlen' : ((n.host ++ cSlash :: n.ns ++ cSlash :: n.model) ++ cColon :: n.tag).length + 1
      = ((n.host ++ cSlash :: n.ns ++ cSlash :: n.model).length + n.tag.length) + 1 + 1 := by
    simp only [List.length_append, List.length_cons]; omega
  rw [hlen']
  have s1 : splitLast (fun c => c == cSlash || c == cColon)
      ((n.host ++ cSlash :: n.ns ++ cSlash :: n.model) ++ cColon :: n.tag)
      = some (n.host ++ cSlash :: n.ns ++ cSlash :: n.model, n.tag, cColon) := by
    apply splitLast_append _ _ _ cColon (by decide)
    intro x hx
    have := p.tslash x hx; have := p.tcolon x hx
    simp [*]
  have s2 : splitLast (fun c => c == cSlash || c == cColon) (n.host ++ cSlash :: n.ns ++ cSlash :: n.model)
      = some (n.host ++ cSlash :: n.ns, n.model, cSlash) := by
    apply splitLast_append _ (n.host ++ cSlash :: n.ns) n.model cSlash (by decide)
    intro x hx
    have := p.mslash x hx; have := p.mcolon x hx
    simp [*]
  have s3 : splitLast (fun c => c == cSlash) (n.host ++ cSlash :: n.ns) = some (n.host, n.ns, cSlash) := by
    apply splitLast_append _ n.host n.ns cSlash (by simp)
    intro x hx; simpa using p.nslash x hx
  have hcc : (cColon == cColon) = true := by decide
  have hsc : (cSlash == cColon) = false := by decide
  simp only [parseNLoop, s1, s2, s3, hcc, hsc, if_true, Bool.false_eq_true, if_false]


/-! ## 1. accepted parts are safe path components -/

/-- **types/model**: a part accepted by `isValidPart` (any kind) is non-empty, within its length limit, is not
    `.` or `..`, does not start with `.`, and contains none of `/`, `\`, NUL, `@`. -/
theorem valid_part_safe_model (k : Kind) (s : Bytes) (h : validPartM k s = true) :
    SafeComp s ∧ 1 ≤ s.length ∧ s.length ≤ maxLen k := by
  refine ⟨validPartM_safe h, ?_, validPartM_len h⟩
  have := validPartM_ne_nil h
  cases s with
  | nil => exact absurd rfl this
  | cons x xs => simp

/-- **names**: the same for the new parser's `isValidPart` on a non-empty part. -/
theorem valid_part_safe_names (k : Kind) (s : Bytes) (hne : s ≠ []) (h : validPartN k s = true) :
    SafeComp s ∧ s.length ≤ maxLen k := by
  refine ⟨validPartN_safe hne h, ?_⟩
  simp only [validPartN, Bool.and_eq_true, decide_eq_true_eq] at h; exact h.1

/-! ## 2. print / parse round trips -/

theorem merge_fq {n d : Name} (p : FQParts n) : merge n d = n := by
  cases n with
  | mk h ns m t =>
    simp only [merge, orElse_ne p.hne, orElse_ne p.nne, orElse_ne p.tne]

/-- **types/model**: printing a fully qualified name and parsing it (with or without defaults) gives the
    same four parts back. -/
theorem print_parse_model (n : Name) (h : isFQM n = true) :
    parseNameBare (toStr n) = n ∧ parseName (toStr n) = n := by
  have p := fqParts_of_isFQM h
  have hb := print_parse_model_parts p
  exact ⟨hb, by rw [parseName, hb, merge_fq p]⟩

/-- **types/model round trip**: for every byte string `s` that `ParseName` accepts,
    `ParseName(ParseName(s).String()) = ParseName(s)`. -/
theorem roundtrip_model (s : Bytes) (h : isFQM (parseName s) = true) :
    parseName (toStr (parseName s)) = parseName s :=
  (print_parse_model _ h).2

theorem validPartM_eq (k : Kind) (s : Bytes) : validPartM k s = (!s.isEmpty && validPartN k s) := by
  cases s with
  | nil => simp [validPartM, validPartN]
  | cons x xs => simp [validPartM, validPartN]

/-- the two packages' notions of "fully qualified" coincide on every name -/
theorem isFQM_eq_isFQN (n : Name) : isFQM n = isFQN n := by
  simp only [isFQM, isFQN, isValidN, validPartM_eq]
  generalize validPartN .host n.host = a
  generalize validPartN .ns n.ns = b
  generalize validPartN .model n.model = c
  generalize validPartN .tag n.tag = d
  generalize n.host.isEmpty = e
  generalize n.ns.isEmpty = f
  generalize n.model.isEmpty = g
  generalize n.tag.isEmpty = i
  revert a b c d e f g i; decide

theorem toStr_len_fq {n : Name} (h : isFQM n = true) : (toStr n).length ≤ maxNameLength := by
  have p := fqParts_of_isFQM h
  rw [toStr_fq p]
  simp only [isFQM, Bool.and_eq_true] at h
  obtain ⟨⟨⟨hh, hn⟩, hm⟩, ht⟩ := h
  have := validPartM_len hh; have := validPartM_len hn; have := validPartM_len hm; have := validPartM_len ht
  simp only [maxLen] at *
  simp only [List.length_append, List.length_cons, maxNameLength]
  omega

/-- **names**: printing a fully qualified name and parsing it gives the same four parts back. -/
theorem print_parse_names (n : Name) (h : isFQN n = true) : parseN (toStr n) = n := by
  rw [← isFQM_eq_isFQN] at h
  exact print_parse_names_parts (fqParts_of_isFQM h) (toStr_len_fq h)

/-- **names round trip through the registry client**: whatever `Registry.parseName` accepts (any mask, any
    input) prints to a string that parses back to the same name, bare (as the cache's `nameToPath` does) and
    through `parseName` again. -/
theorem roundtrip_names (mask : Name) (s : Bytes) (n : Name) (h : registryParseName mask s = some n) :
    parseN (toStr n) = n ∧ registryParseName mask (toStr n) = some n ∧ isFQN n = true := by
  unfold registryParseName at h
  simp only at h
  split at h
  · rename_i hfq
    cases h
    have hp := print_parse_names _ hfq
    have hfq' := hfq
    rw [← isFQM_eq_isFQN] at hfq'
    refine ⟨hp, ?_, hfq⟩
    unfold registryParseName
    simp only [hp, merge_fq (fqParts_of_isFQM hfq'), hfq, if_true]
  · cases h

/-- a bare `names.Parse` result that is valid and does not have a host without a namespace -/
def bareOk (n : Name) : Bool := isValidN n && (n.host.isEmpty || !n.ns.isEmpty)

/-! ## 3. cross-parser agreement on fully qualified names -/

/-- **cross**: a fully qualified name printed by types/model is read back with the same parts (and as fully
    qualified) by `names.Parse`, and vice versa. -/
theorem cross_parsers (n : Name) :
    (isFQM n = true → isFQN n = true ∧ parseN (toStr n) = n) ∧
    (isFQN n = true → isFQM n = true ∧ parseName (toStr n) = n ∧ parseNameBare (toStr n) = n) := by
  constructor
  · intro h
    have h' : isFQN n = true := by rw [← isFQM_eq_isFQN]; exact h
    exact ⟨h', print_parse_names n h'⟩
  · intro h
    have h' : isFQM n = true := by rw [isFQM_eq_isFQN]; exact h
    exact ⟨h', (print_parse_model n h').2, (print_parse_model n h').1⟩

/-! ## 4. path confinement -/

theorem safe_manifests : SafeComp sManifests := by
  refine ⟨by decide, by decide, by decide, by decide, by decide⟩

theorem safe_blobs : SafeComp sBlobs := by
  refine ⟨by decide, by decide, by decide, by decide, by decide⟩

/-- `filepath.Join(root, sub, rel)` for an absolute root given by safe components `rc`, a safe directory
    name `sub` and a relative path of safe components: exactly `rc ++ sub :: comps`, nothing cleaned away. -/
theorem pathJoin_root (rc : List Bytes) (hrc : rc ≠ []) (hs : ∀ c ∈ rc, CleanComp c) (sub : Bytes)
    (hsub : SafeComp sub) (comps : List Bytes) (hne : comps ≠ []) (hc : ∀ c ∈ comps, SafeComp c) :
    pathJoin [absPath rc, sub, joinWith cSlash comps] = absPath (rc ++ sub :: comps) := by
  have hroot : (absPath rc).isEmpty = false := by simp [absPath]
  have hj : joinWith cSlash [absPath rc, sub, joinWith cSlash comps] = absPath (rc ++ sub :: comps) := by
    obtain ⟨c0, cs, rfl⟩ := List.exists_cons_of_ne_nil hne
    simp only [absPath, joinWith_append cSlash rc (sub :: c0 :: cs) hrc (by simp), joinWith]
    simp
  unfold pathJoin
  simp only [List.dropWhile, hroot]
  rw [hj]
  apply clean_absPath' _ (by simp)
  intro c hcm
  rcases List.mem_append.mp hcm with h | h
  · exact hs c h
  · rcases List.mem_cons.mp h with rfl | h
    · exact hsub.toClean
    · exact (hc c h).toClean

theorem fq_safe {n : Name} (h : isFQM n = true) :
    ∀ c ∈ [n.host, n.ns, n.model, n.tag], SafeComp c := by
  simp only [isFQM, Bool.and_eq_true] at h
  obtain ⟨⟨⟨hh, hn⟩, hm⟩, ht⟩ := h
  intro c hc
  simp only [List.mem_cons, List.not_mem_nil, or_false] at hc
  rcases hc with rfl | rfl | rfl | rfl
  · exact validPartM_safe hh
  · exact validPartM_safe hn
  · exact validPartM_safe hm
  · exact validPartM_safe ht

theorem pathJoin_parts {n : Name} (h : isFQM n = true) :
    pathJoin [n.host, n.ns, n.model, n.tag] = joinWith cSlash [n.host, n.ns, n.model, n.tag] := by
  have p := fqParts_of_isFQM h
  have hh : n.host.isEmpty = false := by simpa [List.isEmpty_iff] using p.hne
  unfold pathJoin
  simp only [List.dropWhile, hh]
  exact clean_relPath _ (by simp) (fq_safe h)

/-- **`Name.Filepath`**: defined exactly for fully qualified names, and then it is the four parts joined by
    `/` — four components, each a safe one. -/
theorem filepath_shape (n : Name) :
    (isFQM n = false → filepathM n = none) ∧
    (isFQM n = true → filepathM n = some (joinWith cSlash [n.host, n.ns, n.model, n.tag]) ∧
      ∀ c ∈ [n.host, n.ns, n.model, n.tag], SafeComp c) := by
  constructor
  · intro h; simp [filepathM, h]
  · intro h; exact ⟨by simp [filepathM, h, pathJoin_parts h], fq_safe h⟩

/-- **Legacy manifest path confinement** (`ModelPath.GetManifestPath`, i.e. `filepath.Join(models,
    "manifests", name.Filepath())`): for every name whatsoever, either the call is refused or the result is
    `<models>/manifests/<host>/<ns>/<model>/<tag>` with exactly these components, each safe — the models
    directory's own components are a prefix, the depth below it is exactly 5, nothing is `..`. -/
theorem manifest_path_confined_legacy (rc : List Bytes) (hrc : rc ≠ []) (hs : ∀ c ∈ rc, CleanComp c)
    (mp : ModelPath) :
    mpManifestPath (absPath rc) mp = none ∨
    (mpManifestPath (absPath rc) mp =
        some (absPath (rc ++ [sManifests, mp.registry, mp.ns, mp.repo, mp.tag])) ∧
      ∀ c ∈ [mp.registry, mp.ns, mp.repo, mp.tag], SafeComp c) := by
  cases hfq : isFQM mp.toName with
  | false => left; simp [mpManifestPath, (filepath_shape mp.toName).1 hfq]
  | true =>
    right
    obtain ⟨hfp, hsafe⟩ := (filepath_shape mp.toName).2 hfq
    refine ⟨?_, hsafe⟩
    simp only [mpManifestPath, hfp]
    exact congrArg some (pathJoin_root rc hrc hs sManifests safe_manifests _ (by simp) hsafe)

/-- the same for every input STRING through `ParseModelPath` -/
theorem rejected_or_confined_legacy (rc : List Bytes) (hrc : rc ≠ []) (hs : ∀ c ∈ rc, CleanComp c) (s : Bytes) :
    mpManifestPath (absPath rc) (parseModelPath s) = none ∨
    ∃ h ns m t, (∀ c ∈ [h, ns, m, t], SafeComp c) ∧
      mpManifestPath (absPath rc) (parseModelPath s) = some (absPath (rc ++ [sManifests, h, ns, m, t])) := by
  rcases manifest_path_confined_legacy rc hrc hs (parseModelPath s) with h | ⟨h, hsafe⟩
  · exact Or.inl h
  · exact Or.inr ⟨_, _, _, _, hsafe, h⟩

/-- **New cache** (`blob.nameToPath`): for every input string, either `errInvalidName` or the relative path
    `<host>/<ns>/<model>/<tag>` of four safe components of the parsed (fully qualified) name. -/
theorem nameToPath_shape (s : Bytes) :
    nameToPath s = none ∨
    (isFQN (parseN s) = true ∧
     nameToPath s = some (joinWith cSlash [(parseN s).host, (parseN s).ns, (parseN s).model, (parseN s).tag]) ∧
     ∀ c ∈ [(parseN s).host, (parseN s).ns, (parseN s).model, (parseN s).tag], SafeComp c) := by
  cases hfq : isFQN (parseN s) with
  | false => left; simp [nameToPath, hfq]
  | true =>
    right
    have hfq' : isFQM (parseN s) = true := by rw [isFQM_eq_isFQN]; exact hfq
    exact ⟨rfl, by simp [nameToPath, hfq, pathJoin_parts hfq'], fq_safe hfq'⟩

/-! ## 5. name relative paths -/

theorem joinWith_splitOn (c : UInt8) (s : Bytes) : joinWith c (splitOn c s) = s := by
  induction s with
  | nil => rfl
  | cons x xs ih =>
    simp only [splitOn]
    split
    · rename_i hx
      have hx' : x = c := by simpa using hx
      obtain ⟨y, ys, hy⟩ := List.exists_cons_of_ne_nil (splitOn_ne_nil c xs)
      rw [hy] at ih ⊢
      simp [joinWith, ih, hx']
    · split
      · rename_i y ys hy
        rw [hy] at ih
        cases ys with
        | nil => simp [joinWith] at ih ⊢; exact ih
        | cons z zs => simp [joinWith] at ih ⊢; exact ih
      · rename_i hy; exact absurd hy (splitOn_ne_nil c xs)

/-- **`ParseNameFromFilepath` ∘ `Filepath` = id** on fully qualified names. -/
theorem filepath_inverse (n : Name) (h : isFQM n = true) :
    filepathM n = some (joinWith cSlash [n.host, n.ns, n.model, n.tag]) ∧
    parseNameFromFilepath (joinWith cSlash [n.host, n.ns, n.model, n.tag]) = n := by
  refine ⟨((filepath_shape n).2 h).1, ?_⟩
  unfold parseNameFromFilepath
  rw [splitOn_joinWith cSlash _ (by simp) (fun p hp => (fq_safe h p hp).noSlash)]
  simp [h]

/-- **Accepted relative paths**: for every byte string `s`, `ParseNameFromFilepath(s)` is either the zero
    name or a fully qualified name whose `Filepath()` is `s` itself (so `s` has exactly four safe components). -/
theorem relpath_accepted (s : Bytes) :
    parseNameFromFilepath s = Name.zero ∨
    (isFQM (parseNameFromFilepath s) = true ∧ filepathM (parseNameFromFilepath s) = some s) := by
  unfold parseNameFromFilepath
  split
  · rename_i h ns m t hsp
    by_cases hfq : isFQM { host := h, ns := ns, model := m, tag := t } = true
    · right
      simp only [hfq, if_true]
      refine ⟨trivial, ?_⟩
      have := joinWith_splitOn cSlash s
      rw [hsp] at this
      rw [((filepath_shape _).2 hfq).1]
      exact congrArg some this
    · left; simp only [hfq]; rfl
  · left; rfl

/-- the legacy path is injective on fully qualified names: names that differ (in case or otherwise) never
    share a path.  Case-insensitive lookup in the legacy store is therefore entirely the business of
    `routes.go getExistingName` (C04). -/
theorem legacy_path_injective (n1 n2 : Name) (h1 : isFQM n1 = true) (h2 : isFQM n2 = true)
    (h : filepathM n1 = filepathM n2) : n1 = n2 := by
  have a := filepath_inverse n1 h1
  have b := filepath_inverse n2 h2
  rw [a.1, b.1] at h
  have h' := Option.some.inj h
  rw [← a.2, ← b.2, h']


/-! ## 6. findings and what the legacy path does about case -/

/-- **Witness of finding N1** (pinned `names.IsValid`): `h//m` parses to host `h`, EMPTY namespace, model `m`;
    it is valid; it prints as `h/m`; that parses back with `h` as the namespace.  The repaired validity
    (`isValidNv true`) rejects it. -/
theorem N1_bare_roundtrip_witness :
    let s : Bytes := [104, 47, 47, 109]
    parseN s = { host := [104], ns := [], model := [109], tag := [] } ∧
    isValidN (parseN s) = true ∧
    toStr (parseN s) = [104, 47, 109] ∧
    parseN (toStr (parseN s)) = { host := [], ns := [104], model := [109], tag := [] } ∧
    isValidNv true (parseN s) = false ∧
    -- the legacy parser rejects the same input, and the client's merged name round-trips
    isFQM (parseName s) = false ∧
    registryParseName defaultMask s = some { host := [104], ns := sLibrary, model := [109], tag := sLatest } := by
  decide

/-- **Legacy path keeps case** (witness): `h/n/M:t` and `h/n/m:t` are both accepted, equal under case folding,
    and map to different legacy manifest paths; the new cache's lookup predicate does not tell them apart. -/
theorem legacy_case_twins_witness :
    let a : Name := { host := [104], ns := [110], model := [77], tag := [116] }
    let b : Name := { host := [104], ns := [110], model := [109], tag := [116] }
    isFQM a = true ∧ isFQM b = true ∧ equalFold (toStr a) (toStr b) = true ∧ filepathM a ≠ filepathM b := by
  decide

/-! ## 7. digests -/

theorem isHexB_not_bad (c : UInt8) (h : isHexB c = true) : badByte c = false ∧ c ≠ cColon ∧ c ≠ cDot := by
  refine ⟨?_, ?_, ?_⟩
  · cases hb : badByte c with
    | false => rfl
    | true =>
      exfalso
      simp only [badByte, Bool.or_eq_true, beq_iff_eq] at hb
      rcases hb with ((hb | hb) | hb) | hb <;> (subst hb; revert h; decide)
  · intro e; subst e; revert h; decide
  · intro e; subst e; revert h; decide

/-- the file name `sha256-<hex>` is a safe component whenever `<hex>` consists of hex digits -/
theorem safe_blob_name (hex : Bytes) (h : ∀ c ∈ hex, isHexB c = true) : SafeComp (sSha256 ++ cDash :: hex) := by
  refine ⟨by simp [sSha256], by simp [sSha256, sDot], by simp [sSha256, sDotDot], ?_, by simp [sSha256, cDot]⟩
  intro c hc
  rcases List.mem_append.mp hc with hc | hc
  · have hsha : ∀ c ∈ sSha256, badByte c = false := by decide
    exact hsha c hc
  · rcases List.mem_cons.mp hc with rfl | hc
    · decide
    · exact (isHexB_not_bad c (h c hc)).1

/-- what the digest regexp accepts: `sha256`, one of `:`/`-`, exactly 64 hex digits, nothing else -/
theorem digest_re_shape (s : Bytes) (h : matchDigestRe s = true) :
    ∃ sep hex, s = sSha256 ++ sep :: hex ∧ (sep = cColon ∨ sep = cDash) ∧ hex.length = 64 ∧
      ∀ c ∈ hex, isHexB c = true := by
  simp only [matchDigestRe, Bool.and_eq_true, beq_iff_eq] at h
  obtain ⟨h6, hrest⟩ := h
  split at hrest
  · rename_i sep hex hdrop
    simp only [Bool.and_eq_true, Bool.or_eq_true, beq_iff_eq, List.all_eq_true] at hrest
    refine ⟨sep, hex, ?_, hrest.1.1, hrest.1.2, hrest.2⟩
    rw [← h6, ← hdrop]; exact (List.take_append_drop 6 s).symm
  · cases hrest

theorem colonToDash_hex (hex : Bytes) (h : ∀ c ∈ hex, isHexB c = true) : colonToDash hex = hex := by
  unfold colonToDash
  have : hex.map (fun c => if c == cColon then cDash else c) = hex.map id :=
    List.map_congr_left (fun c hc => by
      have hx : (c == cColon) = false := by simpa using (isHexB_not_bad c (h c hc)).2.1
      simp [hx])
  rw [this, List.map_id]

/-- **Legacy blob path confinement** (`server.GetBlobsPath`): for every byte string, the call is refused, or
    the string is empty and the result is the blobs directory itself (`<models>/blobs`, the documented
    overload), or the result is `<models>/blobs/sha256-<64 hex digits>`: one safe component below `blobs`. -/
theorem blob_path_confined_legacy (rc : List Bytes) (hrc : rc ≠ []) (hs : ∀ c ∈ rc, CleanComp c) (d : Bytes) :
    getBlobsPath (absPath rc) d = none ∨
    (d = [] ∧ getBlobsPath (absPath rc) d = some (absPath (rc ++ [sBlobs]))) ∨
    ∃ hex, hex.length = 64 ∧ (∀ c ∈ hex, isHexB c = true) ∧ SafeComp (sSha256 ++ cDash :: hex) ∧
      getBlobsPath (absPath rc) d = some (absPath (rc ++ [sBlobs, sSha256 ++ cDash :: hex])) := by
  cases d with
  | nil =>
    right; left
    refine ⟨rfl, ?_⟩
    have hsafe : ∀ c ∈ rc ++ [sBlobs], CleanComp c := by
      intro c hc
      rcases List.mem_append.mp hc with h | h
      · exact hs c h
      · simp only [List.mem_cons, List.not_mem_nil, or_false] at h; subst h; exact safe_blobs.toClean
    have hroot : (absPath rc).isEmpty = false := by simp [absPath]
    have hj : joinWith cSlash [absPath rc, sBlobs, []] = absPath (rc ++ [sBlobs]) ++ [cSlash] := by
      simp only [absPath, joinWith_append cSlash rc [sBlobs] hrc (by simp), joinWith]
      simp
    have hsplit : splitOn cSlash (absPath (rc ++ [sBlobs]) ++ [cSlash]) = [] :: ((rc ++ [sBlobs]) ++ [[]]) := by
      have h0 := splitOn_append cSlash [] (joinWith cSlash (rc ++ [sBlobs]) ++ [cSlash]) (by simp)
      simp only [List.nil_append] at h0
      have h1 : joinWith cSlash (rc ++ [sBlobs]) ++ [cSlash]
          = joinWith cSlash ((rc ++ [sBlobs]) ++ [[]]) := by
        rw [joinWith_append cSlash (rc ++ [sBlobs]) [[]] (by simp) (by simp)]; simp [joinWith]
      have hall : ∀ p ∈ (rc ++ [sBlobs]) ++ [[]], ∀ x ∈ p, x ≠ cSlash := by
        intro p hp
        rcases List.mem_append.mp hp with h | h
        · exact (hsafe p h).2.2.2
        · simp only [List.mem_cons, List.not_mem_nil, or_false] at h; subst h; intro x hx; cases hx
      show splitOn cSlash (cSlash :: joinWith cSlash (rc ++ [sBlobs]) ++ [cSlash]) = _
      rw [List.cons_append, h0, h1, splitOn_joinWith cSlash _ (by simp) hall]
    simp only [getBlobsPath, List.isEmpty_nil, Bool.not_true, Bool.false_and, Bool.false_eq_true, if_false]
    congr 1
    show pathJoin [absPath rc, sBlobs, colonToDash []] = _
    unfold pathJoin
    simp only [colonToDash, List.map_nil, List.dropWhile, hroot]
    rw [hj]
    unfold clean
    have h1 : (absPath (rc ++ [sBlobs]) ++ [cSlash]).isEmpty = false := by simp [absPath]
    have h2 : ((absPath (rc ++ [sBlobs]) ++ [cSlash]).head? == some cSlash) = true := by simp [absPath]
    simp only [h1, h2, hsplit, List.foldl_cons]
    have h3 : cleanStep true [] [] = [] := by simp [cleanStep]
    rw [h3, List.foldl_append, foldl_cleanStep_clean true _ [] hsafe]
    have h4 : ∀ st, cleanStep true st [] = st := by intro st; simp [cleanStep]
    simp only [List.foldl_cons, List.foldl_nil, h4]
    simp [absPath]
  | cons x xs =>
    cases hm : matchDigestRe (x :: xs) with
    | false => left; simp [getBlobsPath, hm]
    | true =>
      right; right
      obtain ⟨sep, hex, hs', hsep, hlen, hhex⟩ := digest_re_shape _ hm
      refine ⟨hex, hlen, hhex, safe_blob_name hex hhex, ?_⟩
      have hc : colonToDash (x :: xs) = sSha256 ++ cDash :: hex := by
        rw [hs']
        have h1 : colonToDash (sSha256 ++ sep :: hex) = colonToDash sSha256 ++ (colonToDash [sep] ++ colonToDash hex) := by
          simp [colonToDash]
        have e1 : colonToDash sSha256 = sSha256 := by decide
        have e2 : colonToDash [cColon] = [cDash] := by decide
        have e3 : colonToDash [cDash] = [cDash] := by decide
        rw [h1, colonToDash_hex hex hhex, e1]
        rcases hsep with rfl | rfl
        · rw [e2]; rfl
        · rw [e3]; rfl
      simp only [getBlobsPath, hm, List.isEmpty_cons, Bool.not_false, Bool.true_and, Bool.not_true,
        Bool.false_eq_true, if_false, hc]
      have := pathJoin_root rc hrc hs sBlobs safe_blobs [sSha256 ++ cDash :: hex] (by simp)
        (by intro c hc; simp only [List.mem_cons, List.not_mem_nil, or_false] at hc; subst hc; exact safe_blob_name hex hhex)
      simp only [joinWith] at this
      rw [this]


/-! ## 8. the new cache: case folding and confinement of `manifestPath` -/

/-- names equal up to ASCII case, part by part (`names.Name.Compare(o) == 0`) -/
def foldEqName (a b : Name) : Prop :=
  a.host.map toLowerB = b.host.map toLowerB ∧ a.ns.map toLowerB = b.ns.map toLowerB ∧
  a.model.map toLowerB = b.model.map toLowerB ∧ a.tag.map toLowerB = b.tag.map toLowerB

theorem pathJoin_manifests (comps : List Bytes) (hne : comps ≠ []) (hc : ∀ c ∈ comps, SafeComp c) :
    pathJoin [sManifests, joinWith cSlash comps] = joinWith cSlash (sManifests :: comps) := by
  obtain ⟨c0, cs, rfl⟩ := List.exists_cons_of_ne_nil hne
  have hm : sManifests.isEmpty = false := by decide
  unfold pathJoin
  simp only [List.dropWhile, hm]
  have : joinWith cSlash [sManifests, joinWith cSlash (c0 :: cs)] = joinWith cSlash (sManifests :: c0 :: cs) := by
    simp [joinWith]
  rw [this]
  apply clean_relPath _ (by simp)
  intro c hcm
  rcases List.mem_cons.mp hcm with rfl | h
  · exact safe_manifests
  · exact hc c h

/-- **Case-insensitive equality ⇒ same manifest path (new cache).**  For every cache directory, every on-disk
    link listing and every two input strings that `nameToPath` accepts and whose parsed names are equal up to
    case: the lookup selects the same link for both; so whenever a manifest for either spelling exists on disk
    both names resolve to that one existing file.  (When none exists each gets the path where ITS spelling
    would be created; nothing on disk is addressed.) -/
theorem fold_same_path (dir : Bytes) (links : List Bytes) (s1 s2 : Bytes)
    (h1 : nameToPath s1 ≠ none) (h2 : nameToPath s2 ≠ none) (hf : foldEqName (parseN s1) (parseN s2)) :
    let want (s : Bytes) := pathJoin [sManifests, joinWith cSlash [(parseN s).host, (parseN s).ns, (parseN s).model, (parseN s).tag]]
    links.find? (equalFold (want s1)) = links.find? (equalFold (want s2)) ∧
    (∀ l, links.find? (equalFold (want s1)) = some l →
      manifestPath dir links s1 = some (pathJoin [dir, l]) ∧ manifestPath dir links s2 = some (pathJoin [dir, l])) ∧
    (links.find? (equalFold (want s1)) = none →
      manifestPath dir links s1 = some (pathJoin [dir, want s1]) ∧
      manifestPath dir links s2 = some (pathJoin [dir, want s2])) := by
  intro want
  rcases nameToPath_shape s1 with h | ⟨_, hp1, hs1⟩
  · exact absurd h h1
  rcases nameToPath_shape s2 with h | ⟨_, hp2, hs2⟩
  · exact absurd h h2
  have hw : (want s1).map toLowerB = (want s2).map toLowerB := by
    simp only [want]
    rw [pathJoin_manifests _ (by simp) hs1, pathJoin_manifests _ (by simp) hs2]
    obtain ⟨a, b, c, d⟩ := hf
    simp [joinWith, List.map_append, a, b, c, d]
  have hpred : equalFold (want s1) = equalFold (want s2) := by
    funext l; simp [equalFold, hw]
  refine ⟨by rw [hpred], ?_, ?_⟩
  · intro l hl
    have hl2 : links.find? (equalFold (want s2)) = some l := by rw [← hpred]; exact hl
    constructor
    · simp only [manifestPath, hp1]; simp only [want] at hl; simp [hl]
    · simp only [manifestPath, hp2]; simp only [want] at hl2; simp [hl2]
  · intro hl
    have hl2 : links.find? (equalFold (want s2)) = none := by rw [← hpred]; exact hl
    constructor
    · simp only [manifestPath, hp1]; simp only [want] at hl; simp [hl, want]
    · simp only [manifestPath, hp2]; simp only [want] at hl2; simp [hl2, want]

/-- **New cache manifest path confinement**: for every input string and every listing, `manifestPath` refuses,
    or returns `<dir>/<l>` for a link `l` of the on-disk listing (produced by `fs.Glob("manifests/*/*/*/*")`),
    or returns `<dir>/manifests/<host>/<ns>/<model>/<tag>` with exactly these safe components. -/
theorem manifest_path_confined_cache (rc : List Bytes) (hrc : rc ≠ []) (hs : ∀ c ∈ rc, CleanComp c)
    (links : List Bytes) (s : Bytes) :
    manifestPath (absPath rc) links s = none ∨
    (∃ l ∈ links, manifestPath (absPath rc) links s = some (pathJoin [absPath rc, l])) ∨
    ∃ h ns m t, (∀ c ∈ [h, ns, m, t], SafeComp c) ∧
      manifestPath (absPath rc) links s = some (absPath (rc ++ [sManifests, h, ns, m, t])) := by
  rcases nameToPath_shape s with h | ⟨_, hp, hsafe⟩
  · left; simp [manifestPath, h]
  · right
    simp only [manifestPath, hp]
    cases hfind : links.find? (equalFold (pathJoin [sManifests,
        joinWith cSlash [(parseN s).host, (parseN s).ns, (parseN s).model, (parseN s).tag]])) with
    | some l => left; exact ⟨l, List.mem_of_find?_eq_some hfind, rfl⟩
    | none =>
      right
      refine ⟨_, _, _, _, hsafe, ?_⟩
      simp only
      rw [pathJoin_manifests _ (by simp) hsafe]
      have := pathJoin_root rc hrc hs sManifests safe_manifests _ (by simp) hsafe
      simp only [joinWith] at this ⊢
      exact congrArg some this

/-- **Registry client**: whatever `parseNameExtended` accepts is either "digest only" (zero name) or a fully
    qualified name, whose printed form the cache's `nameToPath` accepts and maps to its four parts. -/
theorem ext_accepted_fq (mask : Name) (s scheme d : Bytes) (n : Name)
    (h : parseNameExtended mask s = .ok (scheme, n, d)) :
    n = Name.zero ∨ (isFQN n = true ∧
      nameToPath (toStr n) = some (joinWith cSlash [n.host, n.ns, n.model, n.tag])) := by
  unfold parseNameExtended at h
  simp only at h
  split at h
  · cases h
  · split at h
    · cases h
    · split at h
      · left; cases h; rfl
      · split at h
        · rename_i n' hn
          cases h
          right
          obtain ⟨hp, _, hfq⟩ := roundtrip_names mask _ _ hn
          have hfq' : isFQM n = true := by rw [isFQM_eq_isFQN]; exact hfq
          exact ⟨hfq, by simp [nameToPath, hp, hfq, pathJoin_parts hfq']⟩
        · cases h


/-! ## 9. the new cache's blob path -/

theorem lowerHexDigit_hex : ∀ n, n < 16 → isHexB (lowerHexDigit n) = true := by decide

theorem hexEncode_hex (bs : Bytes) : ∀ c ∈ hexEncode bs, isHexB c = true := by
  intro c hc
  simp only [hexEncode, List.mem_flatMap, List.mem_cons, List.not_mem_nil, or_false] at hc
  obtain ⟨b, _, rfl | rfl⟩ := hc
  · exact lowerHexDigit_hex _ (by have := b.toNat_lt; omega)
  · exact lowerHexDigit_hex _ (by omega)

/-- **New cache blob path confinement** (`DiskCache.GetFile`): for every digest value (any bytes), the path is
    `<dir>/blobs/sha256-<lower-case hex>`: exactly one safe component below `blobs`. -/
theorem blob_path_confined_cache (rc : List Bytes) (hrc : rc ≠ []) (hs : ∀ c ∈ rc, CleanComp c) (sum : Bytes) :
    getFile (absPath rc) sum = absPath (rc ++ [sBlobs, sSha256 ++ cDash :: hexEncode sum]) ∧
    SafeComp (sSha256 ++ cDash :: hexEncode sum) := by
  have hsafe := safe_blob_name _ (hexEncode_hex sum)
  have hall : ∀ c ∈ [sSha256 ++ cDash :: hexEncode sum], SafeComp c := by
    intro c hc; simp only [List.mem_cons, List.not_mem_nil, or_false] at hc; subst hc; exact hsafe
  refine ⟨?_, hsafe⟩
  have := pathJoin_root rc hrc hs sBlobs safe_blobs [sSha256 ++ cDash :: hexEncode sum] (by simp) hall
  simp only [joinWith] at this
  unfold getFile
  rw [this]
  apply clean_absPath' _ (by simp)
  intro c hc
  rcases List.mem_append.mp hc with h | h
  · exact hs c h
  · rcases List.mem_cons.mp h with rfl | h
    · exact safe_blobs.toClean
    · exact (hall c h).toClean

/-! ## 9b. bare round trip of the new parser under the repaired validity -/

def noSep (s : Bytes) : Prop := ∀ c ∈ s, (c == cSlash || c == cColon) = false

theorem loop_none (fuel : Nat) (hf : 0 < fuel) (m t0 : Bytes) (hm : noSep m) :
    parseNLoop fuel m t0 = { model := m, tag := t0 } := by
  cases fuel with
  | zero => omega
  | succ k => simp only [parseNLoop, splitLast_none _ m hm]

theorem loop_colon (fuel : Nat) (B t t0 : Bytes) (ht : noSep t) :
    parseNLoop (fuel + 1) (B ++ cColon :: t) t0 = parseNLoop fuel B t := by
  have hcc : (cColon == cColon) = true := by decide
  simp only [parseNLoop, splitLast_append _ B t cColon (by decide) ht, hcc, if_true]

theorem loop_slash (fuel : Nat) (hf : 0 < fuel) (P m t0 : Bytes) (hm : noSep m) :
    parseNLoop fuel (P ++ cSlash :: m) t0 =
      match splitLast (· == cSlash) P with
      | some (h, n, _) => { host := h, ns := n, model := m, tag := t0 }
      | none => { host := [], ns := P, model := m, tag := t0 } := by
  have hsc : (cSlash == cColon) = false := by decide
  cases fuel with
  | zero => omega
  | succ k =>
    simp only [parseNLoop, splitLast_append _ P m cSlash (by decide) hm, hsc, Bool.false_eq_true, if_false]
    rfl

theorem noSep_of_charsOk {k : Kind} {s : Bytes} (hk : k ≠ .host) (hk' : k ≠ .digest) (h : charsOk k s = true) :
    noSep s := by
  intro c hc
  have h1 := restOk_not_bad k c (charsOk_all k s h c hc)
  have h2 := restOk_not_colon k c hk hk' (charsOk_all k s h c hc)
  have h3 : c ≠ cSlash := by intro e; subst e; revert h1; decide
  simp [h3, h2, cColon] 


/-- **names, bare round trip (partial: guard = the repaired validity).**  For EVERY name `n` (not only parse
    results): if `n` is valid and does not have a host without a namespace — i.e. `isValidNv true n`, the
    validity after proposed_fixes/C13-N1.patch — then `Parse(n.String()) = n`.  Without the guard the
    statement is false (`N1_bare_roundtrip_witness`). -/
theorem roundtrip_names_bare_partial (n : Name) (hv : isValidNv true n = true) : parseN (toStr n) = n := by
  obtain ⟨h, ns, m, t⟩ := n
  simp only [isValidNv, isValidN, validPartN, Bool.and_eq_true, Bool.or_eq_true, Bool.not_eq_true',
    decide_eq_true_eq, Bool.true_and, Bool.and_eq_false_iff, Bool.not_eq_false'] at hv
  obtain ⟨⟨⟨⟨hh, hn⟩, ht⟩, hmne, hmlen, hmc⟩, hguard⟩ := hv
  have hm : noSep m := noSep_of_charsOk (by decide) (by decide) hmc
  have hlen : (toStr ⟨h, ns, m, t⟩).length ≤ maxNameLength := by
    have a : h.length ≤ 350 := by
      rcases hh with hh | hh
      · simp [List.isEmpty_iff] at hh; simp [hh]
      · exact hh.1
    have b : ns.length ≤ 80 := by
      rcases hn with hn | hn
      · simp [List.isEmpty_iff] at hn; simp [hn]
      · exact hn.1
    have c : t.length ≤ 80 := by
      rcases ht with ht | ht
      · simp [List.isEmpty_iff] at ht; simp [ht]
      · exact ht.1
    have d : m.length ≤ 80 := hmlen
    simp only [toStr, maxNameLength]
    split <;> split <;> split <;> simp only [List.length_append, List.length_cons, List.length_nil] <;> omega
  unfold parseN
  rw [if_neg (by omega)]
  cases t with
  | nil =>
    cases ns with
    | nil =>
      cases h with
      | nil => simp only [toStr, List.isEmpty_nil, if_true, List.nil_append, List.append_nil]
               exact loop_none _ (by omega) m [] hm
      | cons x xs => simp at hguard
    | cons y ys =>
      have hns : noSep (y :: ys) := by
        rcases hn with hn | hn
        · simp at hn
        · exact noSep_of_charsOk (by decide) (by decide) hn.2
      have hnsl : ∀ c ∈ (y :: ys), ((fun c => c == cSlash) c) = false := by
        intro c hc; have := hns c hc; simp only [Bool.or_eq_false_iff] at this; exact this.1
      cases h with
      | nil =>
        simp only [toStr, List.isEmpty_nil, List.isEmpty_cons, if_true, Bool.false_eq_true, if_false,
          List.nil_append, List.append_nil]
        have e : (y :: ys ++ [cSlash]) ++ m = (y :: ys) ++ cSlash :: m := by simp
        rw [e, loop_slash _ (by omega) (y :: ys) m [] hm, splitLast_none _ _ hnsl]
      | cons x xs =>
        have hhs : ∀ c ∈ (x :: xs), c ≠ cSlash := by
          rcases hh with hh | hh
          · simp at hh
          · exact (charsOk_safe .host _ (by simp) hh.2).noSlash
        simp only [toStr, List.isEmpty_cons, Bool.false_eq_true, if_false, List.isEmpty_nil, if_true,
          List.append_nil]
        have e : (x :: xs ++ [cSlash]) ++ ((y :: ys ++ [cSlash]) ++ m)
            = ((x :: xs) ++ cSlash :: (y :: ys)) ++ cSlash :: m := by simp
        rw [e, loop_slash _ (by omega) _ m [] hm,
          splitLast_append _ (x :: xs) (y :: ys) cSlash (by simp) hnsl]
  | cons z zs =>
    have htn : noSep (z :: zs) := by
      rcases ht with ht | ht
      · simp at ht
      · exact noSep_of_charsOk (by decide) (by decide) ht.2
    cases ns with
    | nil =>
      cases h with
      | nil =>
        simp only [toStr, List.isEmpty_nil, List.isEmpty_cons, if_true, Bool.false_eq_true, if_false,
          List.nil_append]
        rw [loop_colon _ m (z :: zs) [] htn]
        exact loop_none _ (by simp only [List.length_append, List.length_cons]; omega) m _ hm
      | cons x xs => simp at hguard
    | cons y ys =>
      have hns : noSep (y :: ys) := by
        rcases hn with hn | hn
        · simp at hn
        · exact noSep_of_charsOk (by decide) (by decide) hn.2
      have hnsl : ∀ c ∈ (y :: ys), ((fun c => c == cSlash) c) = false := by
        intro c hc; have := hns c hc; simp only [Bool.or_eq_false_iff] at this; exact this.1
      cases h with
      | nil =>
        simp only [toStr, List.isEmpty_nil, List.isEmpty_cons, if_true, Bool.false_eq_true, if_false,
          List.nil_append]
        have e : (y :: ys ++ [cSlash]) ++ (m ++ cColon :: z :: zs)
            = ((y :: ys) ++ cSlash :: m) ++ cColon :: (z :: zs) := by simp
        rw [e, loop_colon _ _ (z :: zs) [] htn, loop_slash _ (by simp only [List.length_append, List.length_cons]; omega) (y :: ys) m _ hm,
          splitLast_none _ _ hnsl]
      | cons x xs =>
        have hhs : ∀ c ∈ (x :: xs), c ≠ cSlash := by
          rcases hh with hh | hh
          · simp at hh
          · exact (charsOk_safe .host _ (by simp) hh.2).noSlash
        simp only [toStr, List.isEmpty_cons, Bool.false_eq_true, if_false]
        have e : (x :: xs ++ [cSlash]) ++ ((y :: ys ++ [cSlash]) ++ (m ++ cColon :: z :: zs))
            = (((x :: xs) ++ cSlash :: (y :: ys)) ++ cSlash :: m) ++ cColon :: (z :: zs) := by simp
        rw [e, loop_colon _ _ (z :: zs) [] htn, loop_slash _ (by simp only [List.length_append, List.length_cons]; omega) _ m _ hm,
          splitLast_append _ (x :: xs) (y :: ys) cSlash (by simp) hnsl]

/-! ## 9c. current tree: N1 is repaired upstream, the bare round trip holds at full strength -/

/-- `IsFullyQualified` is the same predicate under the pinned and the repaired `IsValid` -/
theorem isFQN_eq_cur (n : Name) :
    isFQN n = (isValidNCur n && !n.host.isEmpty && !n.ns.isEmpty && !n.model.isEmpty && !n.tag.isEmpty) := by
  simp only [isFQN, isValidNCur, isValidNv]
  generalize isValidN n = a
  generalize n.host.isEmpty = e
  generalize n.ns.isEmpty = f
  generalize n.model.isEmpty = g
  generalize n.tag.isEmpty = i
  revert a e f g i; decide

/-- **names, bare round trip (full strength on the current tree).**  For every byte string `s`: if
    `names.Parse(s).IsValid()` (the repaired `IsValid`) then `Parse(Parse(s).String()) = Parse(s)` — no
    qualification needed, any subset of host/namespace/tag may be absent. -/
theorem roundtrip_names_bare (s : Bytes) (h : isValidNCur (parseN s) = true) :
    parseN (toStr (parseN s)) = parseN s :=
  roundtrip_names_bare_partial _ h

/-! ## 9d. the two digest validators accept the same language -/

theorem hexNibble_isSome_fin :
    ∀ n : Fin 256, (hexNibble (UInt8.ofNat n.val)).isSome = isHexB (UInt8.ofNat n.val) := by decide +kernel

theorem hexNibble_isSome (c : UInt8) : (hexNibble c).isSome = isHexB c := by
  have := hexNibble_isSome_fin ⟨c.toNat, c.toNat_lt⟩
  simpa using this

theorem hexDecode_step (a b : UInt8) (rest : Bytes)
    (ih : (hexDecode rest).isSome = (rest.length % 2 == 0 && rest.all isHexB)) :
    (hexDecode (a :: b :: rest)).isSome
      = ((a :: b :: rest).length % 2 == 0 && (a :: b :: rest).all isHexB) := by
  have h1 := hexNibble_isSome a; have h2 := hexNibble_isSome b
  have hp : ((rest.length + 1 + 1) % 2 == 0) = (rest.length % 2 == 0) := by
    congr 1; omega
  simp only [List.length_cons, List.all_cons, hp, ← h1, ← h2]
  simp only [hexDecode]
  cases ha : hexNibble a <;> cases hb : hexNibble b <;> cases hr : hexDecode rest <;>
    simp_all

theorem hexDecode_isSome (hex : Bytes) :
    (hexDecode hex).isSome = (hex.length % 2 == 0 && hex.all isHexB) := by
  induction hex using hexDecode.induct with
  | case1 => rfl
  | case2 x => simp [hexDecode]
  | case3 a b rest _ _ _ _ _ _ ih => exact hexDecode_step a b rest ih
  | case4 a b rest _ ih => exact hexDecode_step a b rest ih

theorem splitFirst_some (p : UInt8 → Bool) (s b a : Bytes) (c : UInt8)
    (h : splitFirst p s = some (b, a, c)) : s = b ++ c :: a ∧ p c = true := by
  induction s generalizing b with
  | nil => simp [splitFirst] at h
  | cons x xs ih =>
    simp only [splitFirst] at h
    split at h
    · rename_i hx
      simp only [Option.some.injEq, Prod.mk.injEq] at h
      obtain ⟨rfl, rfl, rfl⟩ := h
      exact ⟨rfl, hx⟩
    · split at h
      · rename_i b' a' c' hrec
        simp only [Option.some.injEq, Prod.mk.injEq] at h
        obtain ⟨rfl, rfl, rfl⟩ := h
        obtain ⟨e, hp⟩ := ih b' hrec
        exact ⟨by rw [e]; rfl, hp⟩
      · cases h

theorem matchDigestRe_shape (sep : UInt8) (hex : Bytes) :
    matchDigestRe (sSha256 ++ sep :: hex)
      = ((sep == cColon || sep == cDash) && hex.length == 64 && hex.all isHexB) := by
  have h6 : (sSha256 ++ sep :: hex).take 6 = sSha256 := by simp [sSha256]
  have hd : (sSha256 ++ sep :: hex).drop 6 = sep :: hex := by simp [sSha256]
  simp only [matchDigestRe, h6, hd, beq_self_eq_true, Bool.true_and]

/-- **The two digest validators accept exactly the same strings**: the legacy regexp
    `^sha256[:-][0-9a-fA-F]{64}$` (`GetBlobsPath`) and `blob.ParseDigest` (first `:`/`-`, prefix `sha256`,
    64 characters that `hex.Decode` accepts) — for every byte string. -/
theorem digest_validators_agree (s : Bytes) : matchDigestRe s = (parseDigest s).isSome := by
  have hsha : ∀ x ∈ sSha256, (fun c => c == cColon || c == cDash) x = false := by decide
  rw [Bool.eq_iff_iff]
  constructor
  · intro h
    obtain ⟨sep, hex, rfl, hsep, hlen, hhex⟩ := digest_re_shape s h
    have hp : (fun c => c == cColon || c == cDash) sep = true := by
      rcases hsep with rfl | rfl <;> decide
    simp only [parseDigest, splitFirst_append _ sSha256 hex sep hp hsha, hlen, bne_self_eq_false,
      Bool.false_or, Bool.false_eq_true, if_false]
    rw [hexDecode_isSome, hlen]
    simpa using hhex
  · intro h
    unfold parseDigest at h
    split at h
    · cases h
    · rename_i pre sum sep hsf
      obtain ⟨rfl, hp⟩ := splitFirst_some _ _ _ _ _ hsf
      split at h
      · cases h
      · rename_i hcond
        simp only [Bool.or_eq_true, bne_iff_ne, ne_eq, not_or, Decidable.not_not] at hcond
        obtain ⟨rfl, hlen⟩ := hcond
        rw [hexDecode_isSome] at h
        simp only [Bool.and_eq_true] at h
        rw [matchDigestRe_shape]
        simp only [Bool.and_eq_true, beq_iff_eq]
        exact ⟨⟨by simpa using hp, hlen⟩, h.2⟩

/-- the blob file of an accepted digest in the new cache: `ParseDigest` then `GetFile`, for every string -/
theorem digest_rejected_or_confined_cache (rc : List Bytes) (hrc : rc ≠ []) (hs : ∀ c ∈ rc, CleanComp c) (s : Bytes) :
    parseDigest s = none ∨
    ∃ sum, parseDigest s = some sum ∧
      getFile (absPath rc) sum = absPath (rc ++ [sBlobs, sSha256 ++ cDash :: hexEncode sum]) ∧
      SafeComp (sSha256 ++ cDash :: hexEncode sum) := by
  cases h : parseDigest s with
  | none => exact Or.inl rfl
  | some sum => exact Or.inr ⟨sum, rfl, blob_path_confined_cache rc hrc hs sum⟩

/-! ## 9e. EXPORT — interface for other properties (C08: the cache's manifest paths)

  `import OllamaVerif.Properties.C13`, `open OllamaVerif.Names OllamaVerif.C13`.
  * `names_isValidPart_safe`            names.isValidPart ⇒ safe path component
  * `names_manifestPath_accepts_iff`    DiskCache.manifestPath accepts s ⇔ names.Parse(s).IsFullyQualified()
  * `names_manifestPath_confined`       names.Parse → DiskCache.manifestPath: refused or `<dir>/manifests/a/b/c/d`
  * `client_manifestPath_confined`      the same for every extended name (`scheme://h/ns/m:t@digest`) the registry
                                        client accepts and hands to the cache as `n.String()`
  * `cacheResolve_confined`             DiskCache.Resolve (name or name@digest): what file it goes on to read
-/

/-- a path as returned by `fs.Glob(os.DirFS(dir), "manifests/*/*/*/*")`: `manifests/` followed by four directory
    entry names (an entry name is non-empty, is not `.`/`..`, contains no `/`) -/
def GlobLink (l : Bytes) : Prop :=
  ∃ a b c d, (∀ x ∈ [a, b, c, d], CleanComp x) ∧ l = joinWith cSlash [sManifests, a, b, c, d]

/-- `p` is `<root>/manifests/a/b/c/d`: the root's components, then `manifests`, then exactly four components that
    `filepath.Clean` leaves alone (no `..`, no separator) — inside `<root>/manifests` at depth 4 -/
def ConfinedManifest (rc : List Bytes) (p : Bytes) : Prop :=
  ∃ a b c d, (∀ x ∈ [a, b, c, d], CleanComp x) ∧ p = absPath (rc ++ [sManifests, a, b, c, d])

/-- names.isValidPart ⇒ safe path component (alias of `valid_part_safe_names`) -/
theorem names_isValidPart_safe (k : Kind) (s : Bytes) (hne : s ≠ []) (h : validPartN k s = true) :
    SafeComp s ∧ CleanComp s ∧ s.length ≤ maxLen k :=
  ⟨(valid_part_safe_names k s hne h).1, (valid_part_safe_names k s hne h).1.toClean, (valid_part_safe_names k s hne h).2⟩

theorem names_manifestPath_accepts_iff (dir : Bytes) (links : List Bytes) (s : Bytes) :
    (manifestPath dir links s).isSome = isFQN (parseN s) := by
  unfold manifestPath nameToPath
  cases h : isFQN (parseN s) with
  | false => simp [h]
  | true =>
    simp only [h, if_true]
    split <;> rfl

/-- **names.Parse → DiskCache.manifestPath confinement.**  For every cache directory (absolute, clean), every
    on-disk listing of glob shape and EVERY input byte string `s`: `manifestPath` refuses (`errInvalidName`,
    exactly when `names.Parse(s)` is not fully qualified), or returns `<dir>/manifests/a/b/c/d` — either an
    existing link that equals the wanted path under case folding, or the four safe parts of the parsed name. -/
theorem names_manifestPath_confined (rc : List Bytes) (hrc : rc ≠ []) (hs : ∀ c ∈ rc, CleanComp c)
    (links : List Bytes) (hl : ∀ l ∈ links, GlobLink l) (s : Bytes) :
    manifestPath (absPath rc) links s = none ∨
    ∃ p, manifestPath (absPath rc) links s = some p ∧ ConfinedManifest rc p ∧
      ((∃ l ∈ links, p = pathJoin [absPath rc, l] ∧ equalFold (joinWith cSlash
          [sManifests, (parseN s).host, (parseN s).ns, (parseN s).model, (parseN s).tag]) l = true) ∨
       (p = absPath (rc ++ [sManifests, (parseN s).host, (parseN s).ns, (parseN s).model, (parseN s).tag]) ∧
        ∀ c ∈ [(parseN s).host, (parseN s).ns, (parseN s).model, (parseN s).tag], SafeComp c)) := by
  rcases nameToPath_shape s with h | ⟨_, hp, hsafe⟩
  · left; simp [manifestPath, h]
  · right
    have hwant := pathJoin_manifests _ (by simp) hsafe
    simp only [manifestPath, hp, hwant]
    have hclean : ∀ c ∈ [sManifests, (parseN s).host, (parseN s).ns, (parseN s).model, (parseN s).tag],
        CleanComp c := by
      intro c hc
      rcases List.mem_cons.mp hc with rfl | hc
      · exact safe_manifests.toClean
      · exact (hsafe c hc).toClean
    cases hfind : links.find? (equalFold (joinWith cSlash
        [sManifests, (parseN s).host, (parseN s).ns, (parseN s).model, (parseN s).tag])) with
    | some l =>
      have hmem := List.mem_of_find?_eq_some hfind
      have hpred := List.find?_some hfind
      obtain ⟨a, b, c, d, habcd, rfl⟩ := hl l hmem
      refine ⟨_, rfl, ⟨a, b, c, d, habcd, ?_⟩, Or.inl ⟨_, hmem, rfl, hpred⟩⟩
      apply pathJoin_abs_rel rc hrc hs _ (by simp)
      intro x hx
      rcases List.mem_cons.mp hx with rfl | hx
      · exact safe_manifests.toClean
      · exact habcd x hx
    | none =>
      have := pathJoin_abs_rel rc hrc hs _ (by simp) hclean
      refine ⟨_, rfl, ⟨_, _, _, _, fun x hx => (hsafe x hx).toClean, this⟩, Or.inr ⟨this, hsafe⟩⟩

/-- **Registry client → cache.**  For every extended name string (`scheme://host/ns/model:tag@digest`, any part
    optional, any mask) that `parseNameExtended` accepts with a name: the string the client hands to the cache
    (`n.String()`) is accepted by `DiskCache.manifestPath` and resolves inside `<dir>/manifests` at depth 4. -/
theorem client_manifestPath_confined (rc : List Bytes) (hrc : rc ≠ []) (hs : ∀ c ∈ rc, CleanComp c)
    (links : List Bytes) (hl : ∀ l ∈ links, GlobLink l) (mask : Name) (s scheme d : Bytes) (n : Name)
    (h : parseNameExtended mask s = .ok (scheme, n, d)) (hn : n ≠ Name.zero) :
    isFQN n = true ∧ ∃ p, manifestPath (absPath rc) links (toStr n) = some p ∧ ConfinedManifest rc p := by
  rcases ext_accepted_fq mask s scheme d n h with h0 | ⟨hfq, hnp⟩
  · exact absurd h0 hn
  · refine ⟨hfq, ?_⟩
    rcases names_manifestPath_confined rc hrc hs links hl (toStr n) with hnone | ⟨p, hp, hc, _⟩
    · have := names_manifestPath_accepts_iff (absPath rc) links (toStr n)
      rw [hnone, print_parse_names n hfq, hfq] at this
      cases this
    · exact ⟨p, hp, hc⟩

/-- **DiskCache.Resolve addressing.**  For every input string: invalid, or a digest (whose blob file is
    `<dir>/blobs/sha256-<hex>`, see `blob_path_confined_cache`), or a manifest file inside `<dir>/manifests` at
    depth 4. -/
theorem cacheResolve_confined (rc : List Bytes) (hrc : rc ≠ []) (hs : ∀ c ∈ rc, CleanComp c)
    (links : List Bytes) (hl : ∀ l ∈ links, GlobLink l) (s : Bytes) :
    cacheResolve (absPath rc) links s = .invalid ∨
    (∃ sum, cacheResolve (absPath rc) links s = .digest sum ∧ parseDigest (splitNameDigest s).2 = some sum) ∨
    ∃ p, cacheResolve (absPath rc) links s = .manifest p ∧ ConfinedManifest rc p := by
  unfold cacheResolve
  simp only
  split
  · cases hd : parseDigest (splitNameDigest s).2 with
    | none => left; rfl
    | some sum => right; left; exact ⟨sum, rfl, rfl⟩
  · rcases names_manifestPath_confined rc hrc hs links hl (splitNameDigest s).1 with hnone | ⟨p, hp, hc, _⟩
    · left; simp [hnone]
    · right; right; exact ⟨p, by simp [hp], hc⟩

/-! ## 9f. the property statement, entry point by entry point -/

/-- **C13, top level.**  For every byte string `s` and every models directory `<root>` (absolute, safe components):
    (1) as a name through the legacy `ParseModelPath`/`GetManifestPath`: refused or `<root>/manifests/h/ns/m/t`;
    (2) as a name through `model.ParseName`/`Filepath`: refused (panic guard) or four safe components;
    (3) as a name relative path: zero name, or exactly `Filepath()` of the returned qualified name;
    (4) as a digest through `GetBlobsPath`: refused, blobs dir for the empty string, or `<root>/blobs/sha256-<hex>`;
    (5) as a digest through `blob.ParseDigest`/`GetFile`: refused or `<root>/blobs/sha256-<lower hex>`;
    (6) as a name through the new cache (any glob-shaped listing): refused or `<root>/manifests/a/b/c/d`. -/
theorem C13_rejected_or_confined (rc : List Bytes) (hrc : rc ≠ []) (hs : ∀ c ∈ rc, CleanComp c)
    (links : List Bytes) (hl : ∀ l ∈ links, GlobLink l) (s : Bytes) :
    (mpManifestPath (absPath rc) (parseModelPath s) = none ∨
      ∃ h ns m t, (∀ c ∈ [h, ns, m, t], SafeComp c) ∧
        mpManifestPath (absPath rc) (parseModelPath s) = some (absPath (rc ++ [sManifests, h, ns, m, t]))) ∧
    (filepathM (parseName s) = none ∨
      (filepathM (parseName s) = some (joinWith cSlash
          [(parseName s).host, (parseName s).ns, (parseName s).model, (parseName s).tag]) ∧
        ∀ c ∈ [(parseName s).host, (parseName s).ns, (parseName s).model, (parseName s).tag], SafeComp c)) ∧
    (parseNameFromFilepath s = Name.zero ∨
      (isFQM (parseNameFromFilepath s) = true ∧ filepathM (parseNameFromFilepath s) = some s)) ∧
    (getBlobsPath (absPath rc) s = none ∨
      (s = [] ∧ getBlobsPath (absPath rc) s = some (absPath (rc ++ [sBlobs]))) ∨
      ∃ hex, hex.length = 64 ∧ (∀ c ∈ hex, isHexB c = true) ∧ SafeComp (sSha256 ++ cDash :: hex) ∧
        getBlobsPath (absPath rc) s = some (absPath (rc ++ [sBlobs, sSha256 ++ cDash :: hex]))) ∧
    (parseDigest s = none ∨
      ∃ sum, parseDigest s = some sum ∧
        getFile (absPath rc) sum = absPath (rc ++ [sBlobs, sSha256 ++ cDash :: hexEncode sum]) ∧
        SafeComp (sSha256 ++ cDash :: hexEncode sum)) ∧
    (manifestPath (absPath rc) links s = none ∨
      ∃ p, manifestPath (absPath rc) links s = some p ∧ ConfinedManifest rc p) := by
  refine ⟨rejected_or_confined_legacy rc hrc hs s, ?_, relpath_accepted s,
    blob_path_confined_legacy rc hrc hs s, digest_rejected_or_confined_cache rc hrc hs s, ?_⟩
  · cases h : isFQM (parseName s) with
    | false => exact Or.inl ((filepath_shape _).1 h)
    | true => exact Or.inr ((filepath_shape _).2 h)
  · rcases names_manifestPath_confined rc hrc hs links hl s with h | ⟨p, hp, hc, _⟩
    · exact Or.inl h
    · exact Or.inr ⟨p, hp, hc⟩

/-! ## 9g. the model's formulations are the literal Go text -/

/-- `strings.LastIndex(s, string(c))` (`none` = -1) -/
def lastIndex (c : UInt8) : Bytes → Option Nat
  | [] => none
  | x :: xs =>
    match lastIndex c xs with
    | some i => some (i + 1)
    | none => if x == c then some 0 else none

/-- `i > j` on Go's index results, `none` standing for -1 -/
def gtIdx : Option Nat → Option Nat → Bool
  | some i, some j => decide (i > j)
  | some _, none => true
  | none, _ => false

/-- the literal text of ParseNameBare's first statement:
    `if strings.LastIndex(s, ":") > strings.LastIndex(s, "/") { s, n.Tag, _ = cutPromised(s, ":") }` -/
def cutTagLit (s : Bytes) : Bytes × Bytes :=
  if gtIdx (lastIndex cColon s) (lastIndex cSlash s) then
    match cutPromised cColon s with
    | some (b, a) => (b, a)
    | none => (s, [])
  else (s, [])

theorem splitLast_none_all (p : UInt8 → Bool) (s : Bytes) (h : splitLast p s = none) : ∀ c ∈ s, p c = false := by
  induction s with
  | nil => intro c hc; cases hc
  | cons x xs ih =>
    simp only [splitLast] at h
    cases hq : splitLast p xs with
    | some t => rw [hq] at h; cases h
    | none =>
      rw [hq] at h
      simp only at h
      have hx : p x = false := by
        cases hp : p x with
        | false => rfl
        | true => rw [hp] at h; simp at h
      intro c hc
      rcases List.mem_cons.mp hc with rfl | hc
      · exact hx
      · exact ih hq c hc

/-- invariant relating the one-pass `splitLast` on `:`/`/` to the two `LastIndex` calls -/
theorem splitLast_lastIndex (s : Bytes) :
    match splitLast (fun c => c == cColon || c == cSlash) s with
    | none => lastIndex cColon s = none ∧ lastIndex cSlash s = none
    | some (b, a, sep) =>
      (sep = cColon ∧ lastIndex cColon s = some b.length ∧
        (∀ j, lastIndex cSlash s = some j → j < b.length) ∧
        splitLast (· == cColon) s = some (b, a, cColon)) ∨
      (sep = cSlash ∧ lastIndex cSlash s = some b.length ∧
        (∀ j, lastIndex cColon s = some j → j < b.length)) := by
  induction s with
  | nil => simp [splitLast, lastIndex]
  | cons x xs ih =>
    simp only [splitLast]
    cases h : splitLast (fun c => c == cColon || c == cSlash) xs with
    | some t =>
      obtain ⟨b, a, sep⟩ := t
      rw [h] at ih
      simp only at ih ⊢
      rcases ih with ⟨rfl, hc, hs, hsp⟩ | ⟨rfl, hs, hc⟩
      · left
        refine ⟨rfl, by simp [lastIndex, hc], ?_, by simp [splitLast, hsp]⟩
        intro j hj
        simp only [lastIndex] at hj
        cases hl : lastIndex cSlash xs with
        | some j' => rw [hl] at hj; simp at hj; have := hs j' hl; simp; omega
        | none => rw [hl] at hj; simp only at hj; split at hj <;> simp at hj; simp [← hj]
      · right
        refine ⟨rfl, by simp [lastIndex, hs], ?_⟩
        intro j hj
        simp only [lastIndex] at hj
        cases hl : lastIndex cColon xs with
        | some j' => rw [hl] at hj; simp at hj; have := hc j' hl; simp; omega
        | none => rw [hl] at hj; simp only at hj; split at hj <;> simp at hj; simp [← hj]
    | none =>
      rw [h] at ih
      simp only at ih ⊢
      obtain ⟨hc, hs⟩ := ih
      have hall := splitLast_none_all _ _ h
      by_cases hx : x = cColon
      · subst hx
        have hp : (cColon == cColon || cColon == cSlash) = true := by decide
        rw [if_pos hp]
        have hn : splitLast (· == cColon) xs = none := by
          apply splitLast_none
          intro c hcm
          have := hall c hcm
          simp only [Bool.or_eq_false_iff] at this
          exact this.1
        refine Or.inl ⟨rfl, by simp [lastIndex, hc], ?_, by simp [splitLast, hn]⟩
        intro j hj
        simp [lastIndex, hs] at hj
        exact absurd hj.1 (by decide)
      · by_cases hx' : x = cSlash
        · subst hx'
          have hp : (cSlash == cColon || cSlash == cSlash) = true := by decide
          rw [if_pos hp]
          refine Or.inr ⟨rfl, by simp [lastIndex, hs], ?_⟩
          intro j hj
          simp [lastIndex, hc] at hj
          exact absurd hj.1 (by decide)
        · have hp : (x == cColon || x == cSlash) = false := by simp [hx, hx']
          rw [if_neg (by simp [hp])]
          simp [lastIndex, hc, hs, hx, hx']

/-- **The model's `cutTag` is the literal Go statement**: comparing the two `strings.LastIndex` results (with -1
    for "absent") and then cutting at the last `:` is the same, for every byte string, as the one-pass
    formulation used in `parseNameBare`. -/
theorem cutTag_literal (s : Bytes) : cutTagLit s = cutTag s := by
  have inv := splitLast_lastIndex s
  unfold cutTagLit cutTag cutPromised
  cases h : splitLast (fun c => c == cColon || c == cSlash) s with
  | none =>
    rw [h] at inv
    simp [inv.1, inv.2, gtIdx]
  | some t =>
    obtain ⟨b, a, sep⟩ := t
    rw [h] at inv
    simp only at inv
    rcases inv with ⟨rfl, hc, hs, hsp⟩ | ⟨rfl, hs, hc⟩
    · have hgt : gtIdx (lastIndex cColon s) (lastIndex cSlash s) = true := by
        rw [hc]
        cases hl : lastIndex cSlash s with
        | none => rfl
        | some j => simp [gtIdx, hs j hl]
      simp [hgt, hsp]
    · have hgt : gtIdx (lastIndex cColon s) (lastIndex cSlash s) = false := by
        rw [hs]
        cases hl : lastIndex cColon s with
        | none => rfl
        | some j => have := hc j hl; simp [gtIdx]; omega
      have hsc : (cSlash == cColon) = false := by decide
      simp [hgt, hsc]


theorem splitLast_length (p : UInt8 → Bool) (s b a : Bytes) (c : UInt8)
    (h : splitLast p s = some (b, a, c)) : b.length + a.length + 1 = s.length := by
  induction s generalizing b with
  | nil => simp [splitLast] at h
  | cons x xs ih =>
    simp only [splitLast] at h
    cases hq : splitLast p xs with
    | some t =>
      obtain ⟨b', a', c'⟩ := t
      rw [hq] at h
      simp only [Option.some.injEq, Prod.mk.injEq] at h
      obtain ⟨rfl, rfl, rfl⟩ := h
      have := ih b' hq
      simp only [List.length_cons]; omega
    | none =>
      rw [hq] at h
      simp only at h
      split at h
      · simp only [Option.some.injEq, Prod.mk.injEq] at h
        obtain ⟨rfl, rfl, rfl⟩ := h
        simp
      · cases h

/-- **The fuel of `parseNLoop` is an artefact**: any two fuels larger than `len(s)` give the same result, so
    the `fuel = 0` branch is never reached from `parseN` and the Lean function is the Go `for` loop. -/
theorem parseNLoop_fuel (fuel : Nat) : ∀ (s t : Bytes) (fuel' : Nat), s.length < fuel → s.length < fuel' →
    parseNLoop fuel s t = parseNLoop fuel' s t := by
  induction fuel with
  | zero => intro s t fuel' h; omega
  | succ k ih =>
    intro s t fuel' h h'
    cases fuel' with
    | zero => omega
    | succ k' =>
      simp only [parseNLoop]
      cases hq : splitLast (fun c => c == cSlash || c == cColon) s with
      | none => rfl
      | some tr =>
        obtain ⟨b, a, sep⟩ := tr
        simp only
        split
        · have := splitLast_length _ _ _ _ _ hq
          exact ih b a k' (by omega) (by omega)
        · rfl

/-! ## 9h. the left operand of EqualFold is ASCII -/

theorem restOk_ascii_fin : ∀ k : Fin 5, ∀ n : Fin 256,
    restOk (Kind.ofIdx k.val) (UInt8.ofNat n.val) = true → n.val < 128 := by decide +kernel

theorem restOk_ascii (k : Kind) (c : UInt8) (h : restOk k c = true) : c.toNat < 128 := by
  have key : ∀ i : Fin 5, Kind.ofIdx i.val = k → c.toNat < 128 := by
    intro i hi
    have := restOk_ascii_fin i ⟨c.toNat, c.toNat_lt⟩
    simp only [hi, UInt8.ofNat_toNat] at this
    exact this h
  cases k
  · exact key ⟨0, by omega⟩ rfl
  · exact key ⟨1, by omega⟩ rfl
  · exact key ⟨2, by omega⟩ rfl
  · exact key ⟨3, by omega⟩ rfl
  · exact key ⟨4, by omega⟩ rfl

/-- every byte of an accepted part is ASCII -/
theorem charsOk_ascii (k : Kind) (s : Bytes) (h : charsOk k s = true) : ∀ c ∈ s, c.toNat < 128 :=
  fun c hc => restOk_ascii k c (charsOk_all k s h c hc)

/-- **The wanted manifest path is pure ASCII** for every accepted name — the precondition under which the
    model's `equalFold` is exactly `strings.EqualFold` (any bytes on the link side). -/
theorem manifest_want_ascii (s : Bytes) (h : isFQN (parseN s) = true) :
    ∀ c ∈ joinWith cSlash [sManifests, (parseN s).host, (parseN s).ns, (parseN s).model, (parseN s).tag],
      c.toNat < 128 := by
  have hm : isFQM (parseN s) = true := by rw [isFQM_eq_isFQN]; exact h
  simp only [isFQM, Bool.and_eq_true] at hm
  obtain ⟨⟨⟨hh, hn⟩, hmo⟩, ht⟩ := hm
  have a := charsOk_ascii _ _ (validPartM_charsOk hh)
  have b := charsOk_ascii _ _ (validPartM_charsOk hn)
  have c' := charsOk_ascii _ _ (validPartM_charsOk hmo)
  have d := charsOk_ascii _ _ (validPartM_charsOk ht)
  have e : ∀ c ∈ sManifests, c.toNat < 128 := by decide
  intro c hc
  simp only [joinWith, List.mem_append, List.mem_cons] at hc
  have hs : cSlash.toNat < 128 := by decide
  rcases hc with hc | rfl | hc | rfl | hc | rfl | hc | rfl | hc
  · exact e c hc
  · exact hs
  · exact a c hc
  · exact hs
  · exact b c hc
  · exact hs
  · exact c' c hc
  · exact hs
  · exact d c hc

/-! ## 9i. histories on one DiskCache over a shared manifests directory (foreign writers) -/

/-- `manifestPath` is `manifestRel` under the cache directory -/
theorem manifestPath_eq_rel (dir : Bytes) (links : List Bytes) (s : Bytes) :
    manifestPath dir links s = (manifestRel links s).map (fun r => pathJoin [dir, r]) := by
  unfold manifestPath manifestRel
  cases nameToPath s with
  | none => rfl
  | some np =>
    simp only
    cases links.find? (equalFold (pathJoin [sManifests, np])) <;> rfl

/-- **No state between calls.**  Running a history and then one more operation is one `stepH` on the directory
    contents the history left behind: the result of every call is a function of the CURRENT directory contents
    (and the operation) only — nothing is carried in the `DiskCache` from earlier calls. -/
theorem runH_append (disk : List Bytes) (h : List HOp) (op : HOp) :
    runH disk (h ++ [op]) = ((stepH (runH disk h).1 op).1, (runH disk h).2 ++ [(stepH (runH disk h).1 op).2]) := by
  induction h generalizing disk with
  | nil => simp [runH]
  | cons o os ih =>
    simp only [List.cons_append, runH]
    rw [ih]

/-- no two manifests on disk differ only by (ASCII) letter case -/
def NoTwins (disk : List Bytes) : Prop :=
  ∀ x ∈ disk, ∀ y ∈ disk, x.map toLowerB = y.map toLowerB → x = y

theorem mem_insertLink (l : Bytes) (disk : List Bytes) (y : Bytes) (h : y ∈ insertLink l disk) :
    y = l ∨ y ∈ disk := by
  induction disk with
  | nil => simp [insertLink] at h; exact Or.inl h
  | cons x xs ih =>
    simp only [insertLink] at h
    split at h
    · exact Or.inr h
    · split at h
      · rcases List.mem_cons.mp h with rfl | h
        · exact Or.inl rfl
        · exact Or.inr h
      · rcases List.mem_cons.mp h with rfl | h
        · exact Or.inr List.mem_cons_self
        · rcases ih h with e | m
          · exact Or.inl e
          · exact Or.inr (List.mem_cons_of_mem _ m)

theorem mem_removeLink (l : Bytes) (disk : List Bytes) (y : Bytes) (h : y ∈ removeLink l disk) : y ∈ disk := by
  simp only [removeLink, List.mem_filter] at h; exact h.1

theorem toLowerB_fin : ∀ n : Fin 256, (n.val < 128 → (toLowerB (UInt8.ofNat n.val)).toNat < 128) ∧
    (128 ≤ n.val → toLowerB (UInt8.ofNat n.val) = UInt8.ofNat n.val) := by decide +kernel

theorem toLowerB_lt (c : UInt8) (h : c.toNat < 128) : (toLowerB c).toNat < 128 := by
  have := (toLowerB_fin ⟨c.toNat, c.toNat_lt⟩).1 h
  simpa using this

theorem toLowerB_ge (c : UInt8) (h : 128 ≤ c.toNat) : toLowerB c = c := by
  have := (toLowerB_fin ⟨c.toNat, c.toNat_lt⟩).2 h
  simpa using this

/-- a string that is equal to the ASCII string `w` up to case is matched by `EqualFold(w, ·)` -/
theorem equalFold_of_lowerEq (w y : Bytes) (hw : ∀ c ∈ w, c.toNat < 128)
    (h : w.map toLowerB = y.map toLowerB) : equalFold w y = true := by
  unfold equalFold
  induction w generalizing y with
  | nil =>
    cases y with
    | nil => rfl
    | cons b ys => simp at h
  | cons c cs ih =>
    cases y with
    | nil => simp at h
    | cons b ys =>
      simp only [List.map_cons, List.cons.injEq] at h
      have hc := hw c List.mem_cons_self
      have hb : b.toNat < 128 := by
        by_cases hb : b.toNat < 128
        · exact hb
        · exfalso
          have := toLowerB_ge b (by omega)
          have hl := toLowerB_lt c hc
          rw [h.1, this] at hl
          omega
      have hb' : b < 128 := by
        rw [UInt8.lt_iff_toNat_lt]; simpa using hb
      simp only [List.map_cons, foldMatch, hb', if_true, h.1, beq_self_eq_true, Bool.true_and]
      exact ih ys (fun c' hc' => hw c' (List.mem_cons_of_mem _ hc')) h.2

/-- what `manifestRel` returns when no existing link matches is pure ASCII -/
theorem manifestRel_cases (disk : List Bytes) (s : Bytes) :
    manifestRel disk s = none ∨
    (∃ l ∈ disk, manifestRel disk s = some l) ∨
    (∃ w, manifestRel disk s = some w ∧ (∀ c ∈ w, c.toNat < 128) ∧ ∀ l ∈ disk, equalFold w l = false) := by
  rcases nameToPath_shape s with h | ⟨hfq, hp, hsafe⟩
  · left; simp [manifestRel, h]
  · right
    have hwant := pathJoin_manifests _ (by simp) hsafe
    simp only [manifestRel, hp, hwant]
    cases hfind : disk.find? (equalFold (joinWith cSlash
        [sManifests, (parseN s).host, (parseN s).ns, (parseN s).model, (parseN s).tag])) with
    | some l => left; exact ⟨l, List.mem_of_find?_eq_some hfind, rfl⟩
    | none =>
      right
      refine ⟨_, rfl, manifest_want_ascii s hfq, ?_⟩
      intro l hl
      have := List.find?_eq_none.mp hfind l hl
      simpa using this

/-- **Cache operations never create a case twin.**  If no two manifests on disk differ only by case, then after
    `Resolve`, `Link` or `Unlink` of ANY name string none do (`Link` writes to the existing spelling when one
    exists; it creates a new path only when no link equals it under case folding). -/
theorem stepH_cache_noTwins (disk : List Bytes) (h : NoTwins disk) (n : Bytes) :
    NoTwins (stepH disk (.resolve n)).1 ∧ NoTwins (stepH disk (.link n)).1 ∧ NoTwins (stepH disk (.unlink n)).1 := by
  refine ⟨h, ?_, ?_⟩
  · simp only [stepH]
    rcases manifestRel_cases disk n with h0 | ⟨l, hl, h1⟩ | ⟨w, h1, hascii, hno⟩
    · rw [h0]; exact h
    · rw [h1]
      intro x hx y hy
      have hx' : x ∈ disk := by rcases mem_insertLink _ _ _ hx with rfl | m; exact hl; exact m
      have hy' : y ∈ disk := by rcases mem_insertLink _ _ _ hy with rfl | m; exact hl; exact m
      exact h x hx' y hy'
    · rw [h1]
      intro x hx y hy hxy
      rcases mem_insertLink _ _ _ hx with rfl | mx <;> rcases mem_insertLink _ _ _ hy with rfl | my
      · rfl
      · have := equalFold_of_lowerEq _ y hascii hxy
        rw [hno y my] at this; cases this
      · have := equalFold_of_lowerEq _ x hascii hxy.symm
        rw [hno x mx] at this; cases this
      · exact h x mx y my hxy
  · simp only [stepH]
    cases manifestRel disk n with
    | none => exact h
    | some r =>
      intro x hx y hy
      exact h x (mem_removeLink _ _ _ hx) y (mem_removeLink _ _ _ hy)

def HOp.isCache : HOp → Bool
  | .resolve _ | .link _ | .unlink _ => true
  | .fwrite _ | .fremove _ => false

/-- foreign removals cannot create twins either; only a foreign WRITE can -/
theorem stepH_noTwins (disk : List Bytes) (h : NoTwins disk) (op : HOp)
    (hop : ∀ rel, op ≠ .fwrite rel) : NoTwins (stepH disk op).1 := by
  cases op with
  | resolve n => exact (stepH_cache_noTwins disk h n).1
  | link n => exact (stepH_cache_noTwins disk h n).2.1
  | unlink n => exact (stepH_cache_noTwins disk h n).2.2
  | fwrite rel => exact absurd rfl (hop rel)
  | fremove rel =>
    intro x hx y hy
    exact h x (mem_removeLink _ _ _ hx) y (mem_removeLink _ _ _ hy)

/-- **After any history without a foreign write, no two manifest paths differ only by case** (from a twin-free
    directory, e.g. the empty one). -/
theorem runH_noTwins (disk : List Bytes) (h : NoTwins disk) (ops : List HOp)
    (hops : ∀ op ∈ ops, ∀ rel, op ≠ .fwrite rel) : NoTwins (runH disk ops).1 := by
  induction ops generalizing disk with
  | nil => exact h
  | cons op rest ih =>
    simp only [runH]
    exact ih _ (stepH_noTwins disk h op (hops op List.mem_cons_self))
      (fun o ho => hops o (List.mem_cons_of_mem _ ho))

/-- **Every spelling resolves to the same file**, whatever the directory contains (twins made by foreign writers
    included: the first in glob order wins for all spellings): two accepted names equal up to case select the
    same existing link, or both select none. -/
theorem manifestRel_fold (disk : List Bytes) (s1 s2 : Bytes)
    (h1 : nameToPath s1 ≠ none) (h2 : nameToPath s2 ≠ none) (hf : foldEqName (parseN s1) (parseN s2)) :
    (∀ l ∈ disk, manifestRel disk s1 = some l → manifestRel disk s2 = some l) ∧
    ((∀ l ∈ disk, manifestRel disk s1 ≠ some l) → ∀ l ∈ disk, manifestRel disk s2 ≠ some l) := by
  have key := fold_same_path [] disk s1 s2 h1 h2 hf
  simp only at key
  obtain ⟨hfind, _, _⟩ := key
  rcases nameToPath_shape s1 with h | ⟨_, hp1, hs1⟩
  · exact absurd h h1
  rcases nameToPath_shape s2 with h | ⟨_, hp2, hs2⟩
  · exact absurd h h2
  have e1 : manifestRel disk s1 = match disk.find? (equalFold (pathJoin [sManifests, joinWith cSlash
      [(parseN s1).host, (parseN s1).ns, (parseN s1).model, (parseN s1).tag]])) with
      | some l => some l
      | none => some (pathJoin [sManifests, joinWith cSlash
          [(parseN s1).host, (parseN s1).ns, (parseN s1).model, (parseN s1).tag]]) := by
    simp only [manifestRel, hp1]; rfl
  have e2 : manifestRel disk s2 = match disk.find? (equalFold (pathJoin [sManifests, joinWith cSlash
      [(parseN s2).host, (parseN s2).ns, (parseN s2).model, (parseN s2).tag]])) with
      | some l => some l
      | none => some (pathJoin [sManifests, joinWith cSlash
          [(parseN s2).host, (parseN s2).ns, (parseN s2).model, (parseN s2).tag]]) := by
    simp only [manifestRel, hp2]; rfl
  rw [e1, e2, ← hfind]
  cases hq : disk.find? (equalFold (pathJoin [sManifests, joinWith cSlash
      [(parseN s1).host, (parseN s1).ns, (parseN s1).model, (parseN s1).tag]])) with
  | some l0 =>
    simp only
    exact ⟨fun l _ h => h, fun hno => absurd rfl (hno l0 (List.mem_of_find?_eq_some hq))⟩
  | none =>
    simp only
    have hn1 := List.find?_eq_none.mp hq
    have hn2 := List.find?_eq_none.mp (hfind ▸ hq)
    have w1 := pathJoin_manifests _ (by simp) hs1
    have w2 := pathJoin_manifests _ (by simp) hs2
    have a1 := manifest_want_ascii s1 (by rcases nameToPath_shape s1 with h | ⟨hfq, _, _⟩; exact absurd h h1; exact hfq)
    have a2 := manifest_want_ascii s2 (by rcases nameToPath_shape s2 with h | ⟨hfq, _, _⟩; exact absurd h h2; exact hfq)
    constructor
    · intro l hl hsome
      exfalso
      have : pathJoin [sManifests, joinWith cSlash
          [(parseN s1).host, (parseN s1).ns, (parseN s1).model, (parseN s1).tag]] = l := Option.some.inj hsome
      have hm := hn1 l hl
      rw [this] at hm
      rw [← this, w1] at hl
      have := equalFold_of_lowerEq l l (by rw [← this, w1]; exact a1) rfl
      simp [this] at hm
    · intro _ l hl hsome
      have : pathJoin [sManifests, joinWith cSlash
          [(parseN s2).host, (parseN s2).ns, (parseN s2).model, (parseN s2).tag]] = l := Option.some.inj hsome
      have hm := hn2 l hl
      rw [this] at hm
      have := equalFold_of_lowerEq l l (by rw [← this, w2]; exact a2) rfl
      simp [this] at hm

/-! ## 10. non-vacuity -/

/-- the hypotheses of the theorems above are met by non-trivial concrete values: a fully qualified name with a
    port in the host and dots/dashes, a two-component models directory, a well-formed digest -/
example :
    let n : Name := { host := [104, 58, 56, 48], ns := [110, 45, 49], model := [109, 46, 50], tag := [118, 95, 51] }
    isFQM n = true ∧ isFQN n = true ∧ isFQM (parseName [109]) = true ∧
    registryParseName defaultMask [104, 47, 47, 109] ≠ none ∧
    nameToPath (toStr n) ≠ none ∧
    matchDigestRe (sSha256 ++ cColon :: List.replicate 64 97) = true ∧
    parseNameFromFilepath [104, 47, 110, 47, 109, 47, 116] ≠ Name.zero := by
  decide

/-- the DEFAULT models directory `/home/u/.ollama/models` meets the root hypothesis of every confinement theorem
    (`CleanComp` components: `.ollama` starts with a dot and is not a `SafeComp`, which the theorems required of the root
    before round 7 — reviewer finding B.1), and the headline statement applied to it is not vacuous: the legacy manifest
    path of `m` and the blob path of a digest are the expected files below it. -/
def defaultRoot : List Bytes := [[104, 111, 109, 101], [117], [46, 111, 108, 108, 97, 109, 97], [109, 111, 100, 101, 108, 115]]

theorem defaultRoot_clean : defaultRoot ≠ [] ∧ (∀ c ∈ defaultRoot, CleanComp c) ∧ ¬ SafeComp [46, 111, 108, 108, 97, 109, 97] := by
  refine ⟨by decide, ?_, ?_⟩
  · intro c hc
    simp only [defaultRoot, List.mem_cons, List.not_mem_nil, or_false] at hc
    rcases hc with rfl | rfl | rfl | rfl <;> exact ⟨by decide, by decide, by decide, by decide⟩
  · intro h; exact h.2.2.2.2 rfl

theorem defaultRoot_nonvacuous :
    mpManifestPath (absPath defaultRoot) (parseModelPath [109])
      = some (absPath (defaultRoot ++ [sManifests, sDefaultHost, sLibrary, [109], sLatest])) ∧
    getBlobsPath (absPath defaultRoot) (sSha256 ++ cColon :: List.replicate 64 97)
      = some (absPath (defaultRoot ++ [sBlobs, sSha256 ++ cDash :: List.replicate 64 97])) := by
  constructor <;> decide

/-- **The legacy store keeps the case of the hex digits** (reviewer finding B.4): `sha256:AA…` and `sha256:aa…` are both
    accepted by `GetBlobsPath` and address two DIFFERENT files, while the new cache (`ParseDigest` → `GetFile`) maps both
    to the one lower-case file.  Both are confined; "one digest, one blob" holds in the legacy store only for the
    spelling `NewLayer` itself prints (`%x`, lower case). -/
theorem legacy_hex_case_witness :
    let up := sSha256 ++ cColon :: List.replicate 64 65
    let lo := sSha256 ++ cColon :: List.replicate 64 97
    getBlobsPath [47, 111] up ≠ none ∧ getBlobsPath [47, 111] lo ≠ none ∧
    getBlobsPath [47, 111] up ≠ getBlobsPath [47, 111] lo ∧
    (parseDigest up).map (getFile [47, 111]) = (parseDigest lo).map (getFile [47, 111]) ∧ parseDigest up ≠ none := by
  decide

/-- a concrete history (the shape of seeded change C13-F): lookup, FOREIGN write of `h/n/Phi/t`, then `h/n/phi:t`
    resolves to the foreign file, `Link` under `h/n/PHI:t` goes to that same file and creates no twin -/
example :
    let phiRel : Bytes := [109, 97, 110, 105, 102, 101, 115, 116, 115, 47, 104, 47, 110, 47, 80, 104, 105, 47, 116]
    let lower : Bytes := [104, 47, 110, 47, 112, 104, 105, 58, 116]
    let upper : Bytes := [104, 47, 110, 47, 80, 72, 73, 58, 116]
    runH [] [.resolve lower, .fwrite phiRel, .resolve lower, .link upper, .resolve lower]
      = ([phiRel], [some ⟨some [109, 97, 110, 105, 102, 101, 115, 116, 115, 47, 104, 47, 110, 47, 112, 104, 105, 47, 116], false⟩,
          none, some ⟨some phiRel, true⟩, some ⟨some phiRel, true⟩, some ⟨some phiRel, true⟩]) := by
  decide

end OllamaVerif.C13
