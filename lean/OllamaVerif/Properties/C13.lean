/-
  C13 — Model names and digests cannot address anything outside the model store.

  Property theorems over the byte-level model `OllamaVerif.Names` (Model/Names.lean); helper lemmas are
  in Proofs/Names.lean.  Every theorem is for ALL byte strings / all names (no length or alphabet bound).
-/
import OllamaVerif.Proofs.Names
namespace OllamaVerif.C13
open OllamaVerif OllamaVerif.Names

theorem orMissing_ne {s : Bytes} (h : s ≠ []) : orMissing s = s := by
  cases s with
  | nil => exact absurd rfl h
  | cons x xs => simp [orMissing, orElse]

theorem orElse_ne {s d : Bytes} (h : s ≠ []) : orElse s d = s := by
  cases s with
  | nil => exact absurd rfl h
  | cons x xs => simp [orElse]

structure FQParts (n : Name) : Prop where
  hne : n.host ≠ []
  nne : n.ns ≠ []
  mne : n.model ≠ []
  tne : n.tag ≠ []
  hslash : ∀ c ∈ n.host, c ≠ cSlash
  nslash : ∀ c ∈ n.ns, c ≠ cSlash
  mslash : ∀ c ∈ n.model, c ≠ cSlash
  tslash : ∀ c ∈ n.tag, c ≠ cSlash
  ncolon : ∀ c ∈ n.ns, c ≠ cColon
  mcolon : ∀ c ∈ n.model, c ≠ cColon
  tcolon : ∀ c ∈ n.tag, c ≠ cColon

theorem fqParts_of_isFQM {n : Name} (h : isFQM n = true) : FQParts n := by
  simp only [isFQM, Bool.and_eq_true] at h
  obtain ⟨⟨⟨hh, hn⟩, hm⟩, ht⟩ := h
  exact {
    hne := validPartM_ne_nil hh, nne := validPartM_ne_nil hn, mne := validPartM_ne_nil hm, tne := validPartM_ne_nil ht
    hslash := (validPartM_safe hh).noSlash, nslash := (validPartM_safe hn).noSlash
    mslash := (validPartM_safe hm).noSlash, tslash := (validPartM_safe ht).noSlash
    ncolon := validPart_noColon (by decide) (by decide) (validPartM_charsOk hn)
    mcolon := validPart_noColon (by decide) (by decide) (validPartM_charsOk hm)
    tcolon := validPart_noColon (by decide) (by decide) (validPartM_charsOk ht) }

theorem toStr_fq {n : Name} (p : FQParts n) :
    toStr n = (n.host ++ cSlash :: n.ns ++ cSlash :: n.model) ++ cColon :: n.tag := by
  have h1 : n.host.isEmpty = false := by simpa [List.isEmpty_iff] using p.hne
  have h2 : n.ns.isEmpty = false := by simpa [List.isEmpty_iff] using p.nne
  have h3 : n.tag.isEmpty = false := by simpa [List.isEmpty_iff] using p.tne
  simp [toStr, h1, h2, h3]

theorem print_parse_model_parts {n : Name} (p : FQParts n) : parseNameBare (toStr n) = n := by
  rw [toStr_fq p]
  have hb : n.host ++ cSlash :: n.ns ++ cSlash :: n.model ≠ [] := by simp
  have hcut : cutTag ((n.host ++ cSlash :: n.ns ++ cSlash :: n.model) ++ cColon :: n.tag)
      = (n.host ++ cSlash :: n.ns ++ cSlash :: n.model, n.tag) := by
    unfold cutTag
    rw [splitLast_append _ _ _ cColon (by decide)]
    · simp only [orMissing_ne hb, orMissing_ne p.tne]; simp
    · intro x hx
      have := p.tslash x hx; have := p.tcolon x hx
      simp [*]
  have hc1 : cutPromised cSlash (n.host ++ cSlash :: n.ns ++ cSlash :: n.model)
      = some (n.host ++ cSlash :: n.ns, n.model) := by
    unfold cutPromised
    rw [splitLast_append _ (n.host ++ cSlash :: n.ns) n.model cSlash (by simp)]
    · have : n.host ++ cSlash :: n.ns ≠ [] := by simp
      simp only [orMissing_ne this, orMissing_ne p.mne]
    · intro x hx; simpa using p.mslash x hx
  have hc2 : cutPromised cSlash (n.host ++ cSlash :: n.ns) = some (n.host, n.ns) := by
    unfold cutPromised
    rw [splitLast_append _ n.host n.ns cSlash (by simp)]
    · simp only [orMissing_ne p.hne, orMissing_ne p.nne]
    · intro x hx; simpa using p.nslash x hx
  unfold parseNameBare
  simp only [hcut, hc1, hc2, cutScheme_none n.host p.hslash]


theorem print_parse_names_parts {n : Name} (p : FQParts n) (hlen : (toStr n).length ≤ maxNameLength) :
    parseN (toStr n) = n := by
  unfold parseN
  rw [if_neg (by omega)]
  rw [toStr_fq p] at hlen ⊢
  have hlen' : ((n.host ++ cSlash :: n.ns ++ cSlash :: n.model) ++ cColon :: n.tag).length + 1
      = ((n.host ++ cSlash :: n.ns ++ cSlash :: n.model).length + n.tag.length) + 1 + 1 := by
    simp only [List.length_append, List.length_cons]; omega
  rw [hlen']
  have s1 : splitLast (fun c => c == cSlash || c == cColon)
      ((n.host ++ cSlash :: n.ns ++ cSlash :: n.model) ++ cColon :: n.tag)
      = some (n.host ++ cSlash :: n.ns ++ cSlash :: n.model, n.tag, cColon) := by
    apply splitLast_append _ _ _ cColon (by decide)
    intro x hx
    have := p.tslash x hx; have := p.tcolon x hx
    simp [*]
  have s2 : splitLast (fun c => c == cSlash || c == cColon) (n.host ++ cSlash :: n.ns ++ cSlash :: n.model)
      = some (n.host ++ cSlash :: n.ns, n.model, cSlash) := by
    apply splitLast_append _ (n.host ++ cSlash :: n.ns) n.model cSlash (by decide)
    intro x hx
    have := p.mslash x hx; have := p.mcolon x hx
    simp [*]
  have s3 : splitLast (fun c => c == cSlash) (n.host ++ cSlash :: n.ns) = some (n.host, n.ns, cSlash) := by
    apply splitLast_append _ n.host n.ns cSlash (by simp)
    intro x hx; simpa using p.nslash x hx
  have hcc : (cColon == cColon) = true := by decide
  have hsc : (cSlash == cColon) = false := by decide
  simp only [parseNLoop, s1, s2, s3, hcc, hsc, if_true, Bool.false_eq_true, if_false]


/-! ## 1. accepted parts are safe path components -/

/-- **types/model**: a part accepted by `isValidPart` (any kind) is non-empty, within its length limit, is not
    `.` or `..`, does not start with `.`, and contains none of `/`, `\`, NUL, `@`. -/
theorem valid_part_safe_model (k : Kind) (s : Bytes) (h : validPartM k s = true) :
    SafeComp s ∧ 1 ≤ s.length ∧ s.length ≤ maxLen k := by
  refine ⟨validPartM_safe h, ?_, validPartM_len h⟩
  have := validPartM_ne_nil h
  cases s with
  | nil => exact absurd rfl this
  | cons x xs => simp

/-- **names**: the same for the new parser's `isValidPart` on a non-empty part. -/
theorem valid_part_safe_names (k : Kind) (s : Bytes) (hne : s ≠ []) (h : validPartN k s = true) :
    SafeComp s ∧ s.length ≤ maxLen k := by
  refine ⟨validPartN_safe hne h, ?_⟩
  simp only [validPartN, Bool.and_eq_true, decide_eq_true_eq] at h; exact h.1

/-! ## 2. print / parse round trips -/

theorem merge_fq {n d : Name} (p : FQParts n) : merge n d = n := by
  cases n with
  | mk h ns m t =>
    simp only [merge, orElse_ne p.hne, orElse_ne p.nne, orElse_ne p.tne]

/-- **types/model**: printing a fully qualified name and parsing it (with or without defaults) gives the
    same four parts back. -/
theorem print_parse_model (n : Name) (h : isFQM n = true) :
    parseNameBare (toStr n) = n ∧ parseName (toStr n) = n := by
  have p := fqParts_of_isFQM h
  have hb := print_parse_model_parts p
  exact ⟨hb, by rw [parseName, hb, merge_fq p]⟩

/-- **types/model round trip**: for every byte string `s` that `ParseName` accepts,
    `ParseName(ParseName(s).String()) = ParseName(s)`. -/
theorem roundtrip_model (s : Bytes) (h : isFQM (parseName s) = true) :
    parseName (toStr (parseName s)) = parseName s :=
  (print_parse_model _ h).2

theorem validPartM_eq (k : Kind) (s : Bytes) : validPartM k s = (!s.isEmpty && validPartN k s) := by
  cases s with
  | nil => simp [validPartM, validPartN]
  | cons x xs => simp [validPartM, validPartN]

/-- the two packages' notions of "fully qualified" coincide on every name -/
theorem isFQM_eq_isFQN (n : Name) : isFQM n = isFQN n := by
  simp only [isFQM, isFQN, isValidN, validPartM_eq]
  generalize validPartN .host n.host = a
  generalize validPartN .ns n.ns = b
  generalize validPartN .model n.model = c
  generalize validPartN .tag n.tag = d
  generalize n.host.isEmpty = e
  generalize n.ns.isEmpty = f
  generalize n.model.isEmpty = g
  generalize n.tag.isEmpty = i
  revert a b c d e f g i; decide

theorem toStr_len_fq {n : Name} (h : isFQM n = true) : (toStr n).length ≤ maxNameLength := by
  have p := fqParts_of_isFQM h
  rw [toStr_fq p]
  simp only [isFQM, Bool.and_eq_true] at h
  obtain ⟨⟨⟨hh, hn⟩, hm⟩, ht⟩ := h
  have := validPartM_len hh; have := validPartM_len hn; have := validPartM_len hm; have := validPartM_len ht
  simp only [maxLen] at *
  simp only [List.length_append, List.length_cons, maxNameLength]
  omega

/-- **names**: printing a fully qualified name and parsing it gives the same four parts back. -/
theorem print_parse_names (n : Name) (h : isFQN n = true) : parseN (toStr n) = n := by
  rw [← isFQM_eq_isFQN] at h
  exact print_parse_names_parts (fqParts_of_isFQM h) (toStr_len_fq h)

/-- **names round trip through the registry client**: whatever `Registry.parseName` accepts (any mask, any
    input) prints to a string that parses back to the same name, bare (as the cache's `nameToPath` does) and
    through `parseName` again. -/
theorem roundtrip_names (mask : Name) (s : Bytes) (n : Name) (h : registryParseName mask s = some n) :
    parseN (toStr n) = n ∧ registryParseName mask (toStr n) = some n ∧ isFQN n = true := by
  unfold registryParseName at h
  simp only at h
  split at h
  · rename_i hfq
    cases h
    have hp := print_parse_names _ hfq
    have hfq' := hfq
    rw [← isFQM_eq_isFQN] at hfq'
    refine ⟨hp, ?_, hfq⟩
    unfold registryParseName
    simp only [hp, merge_fq (fqParts_of_isFQM hfq'), hfq, if_true]
  · cases h

/-- a bare `names.Parse` result that is valid and does not have a host without a namespace -/
def bareOk (n : Name) : Bool := isValidN n && (n.host.isEmpty || !n.ns.isEmpty)

/-! ## 3. cross-parser agreement on fully qualified names -/

/-- **cross**: a fully qualified name printed by types/model is read back with the same parts (and as fully
    qualified) by `names.Parse`, and vice versa. -/
theorem cross_parsers (n : Name) :
    (isFQM n = true → isFQN n = true ∧ parseN (toStr n) = n) ∧
    (isFQN n = true → isFQM n = true ∧ parseName (toStr n) = n ∧ parseNameBare (toStr n) = n) := by
  constructor
  · intro h
    have h' : isFQN n = true := by rw [← isFQM_eq_isFQN]; exact h
    exact ⟨h', print_parse_names n h'⟩
  · intro h
    have h' : isFQM n = true := by rw [isFQM_eq_isFQN]; exact h
    exact ⟨h', (print_parse_model n h').2, (print_parse_model n h').1⟩

/-! ## 4. path confinement -/

theorem safe_manifests : SafeComp sManifests := by
  refine ⟨by decide, by decide, by decide, by decide, by decide⟩

theorem safe_blobs : SafeComp sBlobs := by
  refine ⟨by decide, by decide, by decide, by decide, by decide⟩

/-- `filepath.Join(root, sub, rel)` for an absolute root given by safe components `rc`, a safe directory
    name `sub` and a relative path of safe components: exactly `rc ++ sub :: comps`, nothing cleaned away. -/
theorem pathJoin_root (rc : List Bytes) (hrc : rc ≠ []) (hs : ∀ c ∈ rc, SafeComp c) (sub : Bytes)
    (hsub : SafeComp sub) (comps : List Bytes) (hne : comps ≠ []) (hc : ∀ c ∈ comps, SafeComp c) :
    pathJoin [absPath rc, sub, joinWith cSlash comps] = absPath (rc ++ sub :: comps) := by
  have hroot : (absPath rc).isEmpty = false := by simp [absPath]
  have hj : joinWith cSlash [absPath rc, sub, joinWith cSlash comps] = absPath (rc ++ sub :: comps) := by
    obtain ⟨c0, cs, rfl⟩ := List.exists_cons_of_ne_nil hne
    simp only [absPath, joinWith_append cSlash rc (sub :: c0 :: cs) hrc (by simp), joinWith]
    simp
  unfold pathJoin
  simp only [List.dropWhile, hroot]
  rw [hj]
  apply clean_absPath _ (by simp)
  intro c hcm
  rcases List.mem_append.mp hcm with h | h
  · exact hs c h
  · rcases List.mem_cons.mp h with rfl | h
    · exact hsub
    · exact hc c h

theorem fq_safe {n : Name} (h : isFQM n = true) :
    ∀ c ∈ [n.host, n.ns, n.model, n.tag], SafeComp c := by
  simp only [isFQM, Bool.and_eq_true] at h
  obtain ⟨⟨⟨hh, hn⟩, hm⟩, ht⟩ := h
  intro c hc
  simp only [List.mem_cons, List.not_mem_nil, or_false] at hc
  rcases hc with rfl | rfl | rfl | rfl
  · exact validPartM_safe hh
  · exact validPartM_safe hn
  · exact validPartM_safe hm
  · exact validPartM_safe ht

theorem pathJoin_parts {n : Name} (h : isFQM n = true) :
    pathJoin [n.host, n.ns, n.model, n.tag] = joinWith cSlash [n.host, n.ns, n.model, n.tag] := by
  have p := fqParts_of_isFQM h
  have hh : n.host.isEmpty = false := by simpa [List.isEmpty_iff] using p.hne
  unfold pathJoin
  simp only [List.dropWhile, hh]
  exact clean_relPath _ (by simp) (fq_safe h)

/-- **`Name.Filepath`**: defined exactly for fully qualified names, and then it is the four parts joined by
    `/` — four components, each a safe one. -/
theorem filepath_shape (n : Name) :
    (isFQM n = false → filepathM n = none) ∧
    (isFQM n = true → filepathM n = some (joinWith cSlash [n.host, n.ns, n.model, n.tag]) ∧
      ∀ c ∈ [n.host, n.ns, n.model, n.tag], SafeComp c) := by
  constructor
  · intro h; simp [filepathM, h]
  · intro h; exact ⟨by simp [filepathM, h, pathJoin_parts h], fq_safe h⟩

/-- **Legacy manifest path confinement** (`ModelPath.GetManifestPath`, i.e. `filepath.Join(models,
    "manifests", name.Filepath())`): for every name whatsoever, either the call is refused or the result is
    `<models>/manifests/<host>/<ns>/<model>/<tag>` with exactly these components, each safe — the models
    directory's own components are a prefix, the depth below it is exactly 5, nothing is `..`. -/
theorem manifest_path_confined_legacy (rc : List Bytes) (hrc : rc ≠ []) (hs : ∀ c ∈ rc, SafeComp c)
    (mp : ModelPath) :
    mpManifestPath (absPath rc) mp = none ∨
    (mpManifestPath (absPath rc) mp =
        some (absPath (rc ++ [sManifests, mp.registry, mp.ns, mp.repo, mp.tag])) ∧
      ∀ c ∈ [mp.registry, mp.ns, mp.repo, mp.tag], SafeComp c) := by
  cases hfq : isFQM mp.toName with
  | false => left; simp [mpManifestPath, (filepath_shape mp.toName).1 hfq]
  | true =>
    right
    obtain ⟨hfp, hsafe⟩ := (filepath_shape mp.toName).2 hfq
    refine ⟨?_, hsafe⟩
    simp only [mpManifestPath, hfp]
    exact congrArg some (pathJoin_root rc hrc hs sManifests safe_manifests _ (by simp) hsafe)

/-- the same for every input STRING through `ParseModelPath` -/
theorem rejected_or_confined_legacy (rc : List Bytes) (hrc : rc ≠ []) (hs : ∀ c ∈ rc, SafeComp c) (s : Bytes) :
    mpManifestPath (absPath rc) (parseModelPath s) = none ∨
    ∃ h ns m t, (∀ c ∈ [h, ns, m, t], SafeComp c) ∧
      mpManifestPath (absPath rc) (parseModelPath s) = some (absPath (rc ++ [sManifests, h, ns, m, t])) := by
  rcases manifest_path_confined_legacy rc hrc hs (parseModelPath s) with h | ⟨h, hsafe⟩
  · exact Or.inl h
  · exact Or.inr ⟨_, _, _, _, hsafe, h⟩

/-- **New cache** (`blob.nameToPath`): for every input string, either `errInvalidName` or the relative path
    `<host>/<ns>/<model>/<tag>` of four safe components of the parsed (fully qualified) name. -/
theorem nameToPath_shape (s : Bytes) :
    nameToPath s = none ∨
    (isFQN (parseN s) = true ∧
     nameToPath s = some (joinWith cSlash [(parseN s).host, (parseN s).ns, (parseN s).model, (parseN s).tag]) ∧
     ∀ c ∈ [(parseN s).host, (parseN s).ns, (parseN s).model, (parseN s).tag], SafeComp c) := by
  cases hfq : isFQN (parseN s) with
  | false => left; simp [nameToPath, hfq]
  | true =>
    right
    have hfq' : isFQM (parseN s) = true := by rw [isFQM_eq_isFQN]; exact hfq
    exact ⟨rfl, by simp [nameToPath, hfq, pathJoin_parts hfq'], fq_safe hfq'⟩

/-! ## 5. name relative paths -/

theorem joinWith_splitOn (c : UInt8) (s : Bytes) : joinWith c (splitOn c s) = s := by
  induction s with
  | nil => rfl
  | cons x xs ih =>
    simp only [splitOn]
    split
    · rename_i hx
      have hx' : x = c := by simpa using hx
      obtain ⟨y, ys, hy⟩ := List.exists_cons_of_ne_nil (splitOn_ne_nil c xs)
      rw [hy] at ih ⊢
      simp [joinWith, ih, hx']
    · split
      · rename_i y ys hy
        rw [hy] at ih
        cases ys with
        | nil => simp [joinWith] at ih ⊢; exact ih
        | cons z zs => simp [joinWith] at ih ⊢; exact ih
      · rename_i hy; exact absurd hy (splitOn_ne_nil c xs)

/-- **`ParseNameFromFilepath` ∘ `Filepath` = id** on fully qualified names. -/
theorem filepath_inverse (n : Name) (h : isFQM n = true) :
    filepathM n = some (joinWith cSlash [n.host, n.ns, n.model, n.tag]) ∧
    parseNameFromFilepath (joinWith cSlash [n.host, n.ns, n.model, n.tag]) = n := by
  refine ⟨((filepath_shape n).2 h).1, ?_⟩
  unfold parseNameFromFilepath
  rw [splitOn_joinWith cSlash _ (by simp) (fun p hp => (fq_safe h p hp).noSlash)]
  simp [h]

/-- **Accepted relative paths**: for every byte string `s`, `ParseNameFromFilepath(s)` is either the zero
    name or a fully qualified name whose `Filepath()` is `s` itself (so `s` has exactly four safe components). -/
theorem relpath_accepted (s : Bytes) :
    parseNameFromFilepath s = Name.zero ∨
    (isFQM (parseNameFromFilepath s) = true ∧ filepathM (parseNameFromFilepath s) = some s) := by
  unfold parseNameFromFilepath
  split
  · rename_i h ns m t hsp
    by_cases hfq : isFQM { host := h, ns := ns, model := m, tag := t } = true
    · right
      simp only [hfq, if_true]
      refine ⟨trivial, ?_⟩
      have := joinWith_splitOn cSlash s
      rw [hsp] at this
      rw [((filepath_shape _).2 hfq).1]
      exact congrArg some this
    · left; simp only [hfq]; rfl
  · left; rfl

/-- the legacy path is injective on fully qualified names: names that differ (in case or otherwise) never
    share a path.  Case-insensitive lookup in the legacy store is therefore entirely the business of
    `routes.go getExistingName` (C04). -/
theorem legacy_path_injective (n1 n2 : Name) (h1 : isFQM n1 = true) (h2 : isFQM n2 = true)
    (h : filepathM n1 = filepathM n2) : n1 = n2 := by
  have a := filepath_inverse n1 h1
  have b := filepath_inverse n2 h2
  rw [a.1, b.1] at h
  have h' := Option.some.inj h
  rw [← a.2, ← b.2, h']

end OllamaVerif.C13
