/-
  C14 — Streamed text stops before stop sequences and is always whole UTF-8.

  Property theorems over the model of `runner/common/stop.go`, `flushPending` and the per-token
  loop of `processBatch` (Model/Stop.lean; helper lemmas in Proofs/Stop.lean).  Every theorem is
  for ALL event lists (pieces / EOS), stop lists and limits; `run limit stops init evs` is the
  state after the script `evs` has been offered to the loop, `f.out` the chunks streamed,
  `f.genText` the concatenation of the pieces sampled up to the terminating event.
-/
import OllamaVerif.Proofs.Stop

namespace OllamaVerif.C14
open OllamaVerif OllamaVerif.Stop

/-! ### 1. every streamed chunk is valid UTF-8 (and non-empty) — no hypothesis at all -/

theorem chunks_valid (limit : Int) (stops : List Bytes) (evs : List Ev) :
    ∀ c ∈ (run limit stops init evs).out, validUtf8 c = true ∧ c ≠ [] := by
  let Inv : St → Prop := fun st => ∀ c ∈ st.out, validUtf8 c = true ∧ c ≠ []
  have hflush : ∀ st, Inv st → Inv st.flush := by
    intro st hi c hc
    rcases flush_out_chunks st with h | ⟨c', h, hv, hne⟩
    · rw [h] at hc; exact hi c hc
    · rw [h] at hc
      rcases List.mem_append.mp hc with hc | hc
      · exact hi c hc
      · simp at hc; subst hc; exact ⟨hv, hne⟩
  have hstep : ∀ st p, Inv st → Inv (stepPiece stops st p) := by
    intro st p hi
    rcases stepPiece_cases stops st p with ⟨s, _, h⟩ | ⟨_, _, h⟩ | ⟨_, _, _, h⟩
    · rw [h]; exact hflush _ hi
    · rw [h]; exact hi
    · rw [h]; exact hflush _ hi
  exact run_ind (Inv := Inv) (Post := Inv) (fun _ h _ => h) (fun st h _ => hflush st h)
    (fun st h _ => hflush _ h) (fun st p h _ _ => hstep st p h) (fun st p h _ _ => hstep st p h)
    evs init (by intro c hc; cases hc)

/-! ### 2. the finish reason: the map the code implements (two values for three causes) -/

theorem reason_map (limit : Int) (stops : List Bytes) (evs : List Ev) :
    let f := run limit stops init evs
    (f.done = some .length ↔ f.cause = some .limit) ∧
    (f.done = some .stop ↔ (f.cause = some .eos ∨ ∃ s, f.cause = some (.stopString s))) ∧
    (f.done = none ↔ f.cause = none) := by
  let Inv : St → Prop := fun st => st.done = none ∧ st.cause = none
  let Post : St → Prop := fun f =>
    (f.done = some .length ↔ f.cause = some .limit) ∧
    (f.done = some .stop ↔ (f.cause = some .eos ∨ ∃ s, f.cause = some (.stopString s))) ∧
    (f.done = none ↔ f.cause = none)
  have hInvPost : ∀ st, Inv st → Post st := by
    intro st ⟨h1, h2⟩; simp [Post, h1, h2]
  have hstep : ∀ st p, Inv st → (Post (stepPiece stops st p)) ∧
      ((stepPiece stops st p).done.isSome = false → Inv (stepPiece stops st p)) := by
    intro st p ⟨h1, h2⟩
    rcases stepPiece_cases stops st p with ⟨s, _, h⟩ | ⟨_, _, h⟩ | ⟨_, _, _, h⟩
    · rw [h]; simp [Post]
    · rw [h]; exact ⟨hInvPost _ ⟨h1, h2⟩, fun _ => ⟨h1, h2⟩⟩
    · rw [h]
      have : Inv (st.push p).flush := ⟨by simpa [St.push] using h1, by simpa [St.push] using h2⟩
      exact ⟨hInvPost _ this, fun _ => this⟩
  exact run_ind (Inv := Inv) (Post := Post) (fun st h _ => hInvPost st h)
    (fun st _ _ => by simp [Post]) (fun st _ _ => by simp [Post])
    (fun st p h _ _ => (hstep st p h).1) (fun st p h _ hd => (hstep st p h).2 hd)
    evs init ⟨rfl, rfl⟩

/-! ### 3. for ANY bytes: the output is the generated text with some bytes deleted -/

theorem out_sublist_gen (limit : Int) (stops : List Bytes) (evs : List Ev) :
    let f := run limit stops init evs
    (f.outText ++ f.pending.flatten).Sublist f.genText := by
  let Inv : St → Prop := fun st => (st.outText ++ st.pending.flatten).Sublist st.genText
  have hflush : ∀ st, Inv st → Inv st.flush := by
    intro st hi
    show (st.flush.out.flatten ++ st.flush.pending.flatten).Sublist st.flush.gen.flatten
    rw [flush_out, flush_pending, flush_gen]
    simp only [List.flatten_nil, List.append_nil]
    exact List.Sublist.trans
      (List.Sublist.append (List.Sublist.refl _) (trimValid_prefix _).sublist) hi
  have hpush : ∀ st p, Inv st → Inv (st.push p) := by
    intro st p hi
    show (st.out.flatten ++ (st.pending ++ [p]).flatten).Sublist (st.gen ++ [p]).flatten
    simp only [List.flatten_append, List.flatten_cons, List.flatten_nil, List.append_nil,
      ← List.append_assoc]
    exact List.Sublist.append hi (List.Sublist.refl _)
  have hfinish : ∀ st r c, Inv st → Inv (st.finish r c) := by
    intro st r c hi
    have : (st.flush.out.flatten ++ st.flush.pending.flatten).Sublist st.flush.gen.flatten := hflush st hi
    show ((st.finish r c).out.flatten ++ (st.finish r c).pending.flatten).Sublist (st.finish r c).gen.flatten
    simpa using this
  have hstep : ∀ st p, Inv st → Inv (stepPiece stops st p) := by
    intro st p hi
    rcases stepPiece_cases stops st p with ⟨s, hs, h⟩ | ⟨_, _, h⟩ | ⟨_, _, _, h⟩
    · rw [h]
      apply hfinish
      have h1 := hpush st p hi
      obtain ⟨idx, hidx⟩ := (findStop_some hs).2.indexOf
      show ((st.push p).out.flatten ++ (truncateStop (st.push p).pending s).1.flatten).Sublist (st.push p).gen.flatten
      rw [truncateStop_flatten hidx]
      exact List.Sublist.trans
        (List.Sublist.append (List.Sublist.refl _) (List.take_sublist _ _)) h1
    · rw [h]; exact hpush st p hi
    · rw [h]; exact hflush _ (hpush st p hi)
  exact run_ind (Inv := Inv) (Post := Inv) (fun _ h _ => h) (fun st h _ => hfinish st _ _ h)
    (fun st h _ => hfinish _ _ _ h) (fun st p h _ _ => hstep st p h) (fun st p h _ _ => hstep st p h)
    evs init (List.Sublist.refl _)

end OllamaVerif.C14
