/-
  C14 — Streamed text stops before stop sequences and is always whole UTF-8.

  Property theorems over the model of `runner/common/stop.go`, `flushPending` and the per-token
  loop of `processBatch` (Model/Stop.lean; helper lemmas in Proofs/Stop.lean).  Every theorem is
  for ALL event lists (pieces / EOS), stop lists and limits; `run pinned limit stops init evs` is the
  state after the script `evs` has been offered to the loop, `f.out` the chunks streamed,
  `f.genText` the concatenation of the pieces sampled up to the terminating event.
-/
import OllamaVerif.Proofs.Stop

namespace OllamaVerif.C14
open OllamaVerif OllamaVerif.Stop

/-! ### 1. every streamed chunk is valid UTF-8 (and non-empty) — no hypothesis at all -/

theorem chunks_valid (pinned : Bool) (limit : Int) (stops : List Bytes) (evs : List Ev) :
    ∀ c ∈ (run pinned limit stops init evs).out, validUtf8 c = true ∧ c ≠ [] := by
  let Inv : St → Prop := fun st => ∀ c ∈ st.out, validUtf8 c = true ∧ c ≠ []
  have hflush : ∀ st, Inv st → Inv st.flush := by
    intro st hi c hc
    rcases flush_out_chunks st with h | ⟨c', h, hv, hne⟩
    · rw [h] at hc; exact hi c hc
    · rw [h] at hc
      rcases List.mem_append.mp hc with hc | hc
      · exact hi c hc
      · simp at hc; subst hc; exact ⟨hv, hne⟩
  have hstep : ∀ st p, Inv st → Inv (stepPiece pinned stops st p) := by
    intro st p hi
    rcases stepPiece_cases pinned stops st p with ⟨s, _, h⟩ | ⟨_, _, h⟩ | ⟨_, _, _, h⟩
    · rw [h]; exact hflush _ hi
    · rw [h]; exact hi
    · rw [h]; exact hflush _ hi
  exact run_ind (pinned := pinned) (Inv := Inv) (Post := Inv) (fun _ h _ => h) (fun st h _ => hflush st h)
    (fun st h _ => hflush _ h) (fun st p h _ _ => hstep st p h) (fun st p h _ _ => hstep st p h)
    evs init (by intro c hc; cases hc)

/-! ### 2. the finish reason: the map the code implements (two values for three causes) -/

theorem reason_map (pinned : Bool) (limit : Int) (stops : List Bytes) (evs : List Ev) :
    let f := run pinned limit stops init evs
    (f.done = some .length ↔ f.cause = some .limit) ∧
    (f.done = some .stop ↔ (f.cause = some .eos ∨ ∃ s, f.cause = some (.stopString s))) ∧
    (f.done = none ↔ f.cause = none) := by
  let Inv : St → Prop := fun st => st.done = none ∧ st.cause = none
  let Post : St → Prop := fun f =>
    (f.done = some .length ↔ f.cause = some .limit) ∧
    (f.done = some .stop ↔ (f.cause = some .eos ∨ ∃ s, f.cause = some (.stopString s))) ∧
    (f.done = none ↔ f.cause = none)
  have hInvPost : ∀ st, Inv st → Post st := by
    intro st ⟨h1, h2⟩; simp [Post, h1, h2]
  have hstep : ∀ st p, Inv st → (Post (stepPiece pinned stops st p)) ∧
      ((stepPiece pinned stops st p).done.isSome = false → Inv (stepPiece pinned stops st p)) := by
    intro st p ⟨h1, h2⟩
    rcases stepPiece_cases pinned stops st p with ⟨s, _, h⟩ | ⟨_, _, h⟩ | ⟨_, _, _, h⟩
    · rw [h]; simp [Post]
    · rw [h]; exact ⟨hInvPost _ ⟨h1, h2⟩, fun _ => ⟨h1, h2⟩⟩
    · rw [h]
      have : Inv (st.push p).flush := ⟨by simpa [St.push] using h1, by simpa [St.push] using h2⟩
      exact ⟨hInvPost _ this, fun _ => this⟩
  exact run_ind (pinned := pinned) (Inv := Inv) (Post := Post) (fun st h _ => hInvPost st h)
    (fun st _ _ => by simp [Post]) (fun st _ _ => by simp [Post])
    (fun st p h _ _ => (hstep st p h).1) (fun st p h _ hd => (hstep st p h).2 hd)
    evs init ⟨rfl, rfl⟩

/-- **What "generated text" and "cause" mean in terms of the script.**  The pieces sampled (`f.gen`)
    are exactly the first events of the script, all of them pieces; the cause says why the next
    event was not consumed: EOS ⇒ the next event is EOS; limit ⇒ the limit is positive and exactly
    `limit` pieces were sampled; still running ⇒ the whole script was consumed and the limit is not
    reached; stop string ⇒ the limit was not exceeded. -/
theorem cause_spec (pinned : Bool) (limit : Int) (stops : List Bytes) (evs : List Ev) :
    let f := run pinned limit stops init evs
    f.gen.map Ev.piece <+: evs ∧
    (f.cause = some .eos → evs[f.gen.length]? = some .eos ∧ f.numPredicted = f.gen.length + 1) ∧
    (f.cause = some .limit → limit > 0 ∧ (f.gen.length : Int) = limit ∧ f.numPredicted = f.gen.length) ∧
    (f.cause = none → f.gen.length = evs.length ∧ ¬ (limit > 0 ∧ (f.gen.length : Int) ≥ limit)) ∧
    (∀ s, f.cause = some (.stopString s) → f.numPredicted = f.gen.length ∧
      ¬ (limit > 0 ∧ (f.gen.length : Int) > limit)) := by
  intro f
  obtain ⟨ps, h1, h2, h3, h4, h5, h6⟩ :=
    consumed_gen pinned limit stops evs init rfl rfl rfl (by intro h; simp [init]; omega)
  have hg : f.gen = ps := by
    have : f.gen = init.gen ++ ps := h1
    simpa [init] using this
  rw [hg]
  refine ⟨h2, ?_, ?_, ?_, ?_⟩
  · intro h; have := h3 h; rw [hg] at this; exact this
  · intro h; have := h4 h; rw [hg] at this; exact this
  · intro h; have := h5 h; rw [hg] at this; exact ⟨this.1, this.2.1⟩
  · intro s h; have := h6 s h; rw [hg] at this; exact this

/-! ### 3. for ANY bytes: the output is the generated text with some bytes deleted -/

theorem out_sublist_gen (pinned : Bool) (limit : Int) (stops : List Bytes) (evs : List Ev) :
    let f := run pinned limit stops init evs
    (f.outText ++ f.pending.flatten).Sublist f.genText := by
  let Inv : St → Prop := fun st => (st.outText ++ st.pending.flatten).Sublist st.genText
  have hflush : ∀ st, Inv st → Inv st.flush := by
    intro st hi
    show (st.flush.out.flatten ++ st.flush.pending.flatten).Sublist st.flush.gen.flatten
    rw [flush_out, flush_pending, flush_gen]
    simp only [List.flatten_nil, List.append_nil]
    exact List.Sublist.trans
      (List.Sublist.append (List.Sublist.refl _) (trimValid_prefix _).sublist) hi
  have hpush : ∀ st p, Inv st → Inv (st.push p) := by
    intro st p hi
    show (st.out.flatten ++ (st.pending ++ [p]).flatten).Sublist (st.gen ++ [p]).flatten
    simp only [List.flatten_append, List.flatten_cons, List.flatten_nil, List.append_nil,
      ← List.append_assoc]
    exact List.Sublist.append hi (List.Sublist.refl _)
  have hfinish : ∀ st r c, Inv st → Inv (st.finish r c) := by
    intro st r c hi
    have : (st.flush.out.flatten ++ st.flush.pending.flatten).Sublist st.flush.gen.flatten := hflush st hi
    show ((st.finish r c).out.flatten ++ (st.finish r c).pending.flatten).Sublist (st.finish r c).gen.flatten
    simpa using this
  have hstep : ∀ st p, Inv st → Inv (stepPiece pinned stops st p) := by
    intro st p hi
    rcases stepPiece_cases pinned stops st p with ⟨s, hs, h⟩ | ⟨_, _, h⟩ | ⟨_, _, _, h⟩
    · rw [h]
      apply hfinish
      have h1 := hpush st p hi
      obtain ⟨idx, hidx⟩ := (findStopV_some hs).2.indexOf
      show ((st.push p).out.flatten ++ (truncateStop (st.push p).pending s).1.flatten).Sublist (st.push p).gen.flatten
      rw [truncateStop_flatten hidx]
      exact List.Sublist.trans
        (List.Sublist.append (List.Sublist.refl _) (List.take_sublist _ _)) h1
    · rw [h]; exact hpush st p hi
    · rw [h]; exact hflush _ (hpush st p hi)
  exact run_ind (pinned := pinned) (Inv := Inv) (Post := Inv) (fun _ h _ => h) (fun st h _ => hfinish st _ _ h)
    (fun st h _ => hfinish _ _ _ h) (fun st p h _ _ => hstep st p h) (fun st p h _ _ => hstep st p h)
    evs init (List.Sublist.refl _)

/-! ### 4. generated text that is (a prefix of) valid UTF-8: the output is a prefix of it — ANY stops -/

/-- `ValidPrefix g`: `g` is a prefix of some valid UTF-8 string, i.e. valid except that the last
    character may still be incomplete (the limit may cut generation inside a character). -/
theorem prefix_valid (pinned : Bool) (limit : Int) (stops : List Bytes) (evs : List Ev) :
    let f := run pinned limit stops init evs
    ValidPrefix f.genText → f.outText <+: f.genText ∧ validUtf8 f.outText = true := by
  let Inv : St → Prop := fun st =>
    st.genText = st.outText ++ st.pending.flatten ∧ validUtf8 st.outText = true
  let Post : St → Prop := fun f => f.outText <+: f.genText ∧ validUtf8 f.outText = true
  have hfinish : ∀ (st : St) r c, validUtf8 st.out.flatten = true →
      (∃ x, st.gen.flatten = st.out.flatten ++ st.pending.flatten ++ x) → Post (st.finish r c) := by
    intro st r c hv ⟨x, hx⟩
    show (st.finish r c).out.flatten <+: (st.finish r c).gen.flatten ∧ validUtf8 (st.finish r c).out.flatten = true
    rw [finish_out, finish_gen, flush_out, hx]
    obtain ⟨y, hy⟩ := trimValid_prefix st.pending.flatten
    refine ⟨⟨y ++ x, ?_⟩, validUtf8_append hv (trimValid_valid _)⟩
    have hy' : flushText st.pending ++ y = st.pending.flatten := hy
    rw [List.append_assoc, ← List.append_assoc (flushText st.pending) y x, hy']
    exact (List.append_assoc _ _ _).symm
  refine run_ind (pinned := pinned) (limit := limit) (stops := stops)
    (Inv := fun st => ValidPrefix st.genText → Inv st)
    (Post := fun f => ValidPrefix f.genText → Post f) ?_ ?_ ?_ ?_ ?_ evs init
    (fun _ => ⟨rfl, by decide⟩)
  · intro st hi _ hvp
    obtain ⟨h1, h2⟩ := hi hvp
    exact ⟨⟨_, h1.symm⟩, h2⟩
  · intro st hi _ hvp
    obtain ⟨h1, h2⟩ := hi (by simpa [St.genText] using hvp)
    exact hfinish st _ _ h2 ⟨[], by rw [List.append_nil]; exact h1⟩
  · intro st hi _ hvp
    obtain ⟨h1, h2⟩ := hi (by simpa [St.genText] using hvp)
    exact hfinish { st with numPredicted := st.numPredicted + 1 } _ _ h2 ⟨[], by rw [List.append_nil]; exact h1⟩
  · intro st p hi _ hd hvp
    rw [stepPiece_genText] at hvp
    obtain ⟨h1, h2⟩ := hi hvp.left
    have h1' : st.gen.flatten = st.out.flatten ++ st.pending.flatten := h1
    rcases stepPiece_cases pinned stops st p with ⟨s, hs, h⟩ | ⟨_, _, h⟩ | ⟨_, _, hinc, h⟩
    · rw [h]
      obtain ⟨idx, hidx⟩ := (findStopV_some hs).2.indexOf
      refine hfinish { st.push p with pending := (truncateStop (st.push p).pending s).1 } _ _ h2 ?_
      refine ⟨((st.pending ++ [p]).flatten).drop idx, ?_⟩
      show (st.gen ++ [p]).flatten = st.out.flatten ++ (truncateStop (st.pending ++ [p]) s).1.flatten ++ _
      have hidx' : indexOf s (st.pending ++ [p]).flatten = some idx := hidx
      rw [truncateStop_flatten hidx', List.append_assoc, List.take_append_drop]
      simp [h1', List.append_assoc]
    · rw [h]
      exact ⟨⟨(st.push p).pending.flatten, by
        show st.out.flatten ++ (st.pending ++ [p]).flatten = (st.gen ++ [p]).flatten
        simp [h1', List.append_assoc]⟩, h2⟩
    · rw [h]
      show (st.push p).flush.out.flatten <+: (st.push p).flush.gen.flatten ∧ validUtf8 (st.push p).flush.out.flatten = true
      rw [flush_out, flush_gen]
      obtain ⟨y, hy⟩ := trimValid_prefix (st.push p).pending.flatten
      refine ⟨⟨y, ?_⟩, validUtf8_append h2 (trimValid_valid _)⟩
      show st.out.flatten ++ flushText (st.pending ++ [p]) ++ y = (st.gen ++ [p]).flatten
      rw [flushText, List.append_assoc]
      have : trimValid (st.pending ++ [p]).flatten ++ y = (st.pending ++ [p]).flatten := hy
      rw [this]; simp [h1', List.append_assoc]
  · intro st p hi _ hd hvp
    rw [stepPiece_genText] at hvp
    obtain ⟨h1, h2⟩ := hi hvp.left
    have h1' : st.gen.flatten = st.out.flatten ++ st.pending.flatten := h1
    rcases stepPiece_cases pinned stops st p with ⟨s, hs, h⟩ | ⟨_, _, h⟩ | ⟨_, _, hinc, h⟩
    · rw [h] at hd; simp at hd
    · rw [h]
      exact ⟨by
        show (st.gen ++ [p]).flatten = st.out.flatten ++ (st.pending ++ [p]).flatten
        simp [h1', List.append_assoc], h2⟩
    · rw [h]
      change incompleteUnicode (st.pending ++ [p]).flatten = false at hinc
      have hvseq : ValidPrefix (st.pending ++ [p]).flatten := by
        have : st.genText ++ p = st.out.flatten ++ (st.pending ++ [p]).flatten := by
          show st.gen.flatten ++ p = _
          simp [h1', List.append_assoc]
        rw [this] at hvp
        exact ValidPrefix.right h2 hvp
      have hvalid := valid_of_not_incomplete hvseq hinc
      have hout : (st.push p).flush.out.flatten = st.out.flatten ++ (st.pending ++ [p]).flatten := by
        rw [flush_out]
        show st.out.flatten ++ flushText (st.pending ++ [p]) = _
        rw [flushText, trimValid_of_valid hvalid]
      constructor
      · show (st.push p).flush.gen.flatten = (st.push p).flush.out.flatten ++ (st.push p).flush.pending.flatten
        rw [flush_gen, flush_pending, hout]
        show (st.gen ++ [p]).flatten = _
        simp [h1', List.append_assoc]
      · show validUtf8 (st.push p).flush.out.flatten = true
        rw [hout]; exact validUtf8_append h2 hvalid

/-- concatenations of streamed chunks are valid -/
theorem flatten_valid : ∀ (l : List Bytes), (∀ c ∈ l, validUtf8 c = true) → validUtf8 l.flatten = true := by
  intro l
  induction l with
  | nil => intro _; decide
  | cons c l ih =>
    intro h
    simp only [List.flatten_cons]
    exact validUtf8_append (h c (List.mem_cons_self ..)) (ih (fun c' hc' => h c' (List.mem_cons_of_mem _ hc')))

/-- **No streamed piece splits a character.**  Every boundary between streamed chunks (the end of
    the first `k` chunks, any `k`) is a character boundary of the generated text: what was
    streamed up to there is valid UTF-8, is a prefix of the generated text, and whatever valid
    text the generation is completed to, the part after the boundary is valid on its own. -/
theorem no_split (pinned : Bool) (limit : Int) (stops : List Bytes) (evs : List Ev) (k : Nat) :
    let f := run pinned limit stops init evs
    let cut := (f.out.take k).flatten
    ValidPrefix f.genText →
      validUtf8 cut = true ∧ cut <+: f.genText ∧
      ∀ r, validUtf8 (f.genText ++ r) = true → validUtf8 ((f.genText ++ r).drop cut.length) = true := by
  intro f cut hvp
  have hcv := chunks_valid pinned limit stops evs
  have hv : validUtf8 cut = true :=
    flatten_valid _ (fun c hc => (hcv c (List.mem_of_mem_take hc)).1)
  have hpre : cut <+: f.genText := by
    have h1 : cut <+: f.out.flatten := by
      have : f.out = f.out.take k ++ f.out.drop k := (List.take_append_drop k f.out).symm
      exact ⟨(f.out.drop k).flatten, by rw [← List.flatten_append, ← this]⟩
    exact List.IsPrefix.trans h1 (prefix_valid pinned limit stops evs hvp).1
  refine ⟨hv, hpre, ?_⟩
  intro r hr
  obtain ⟨y, hy⟩ := hpre
  rw [← hy, List.append_assoc, List.drop_left]
  rw [← hy, List.append_assoc, validUtf8_append_left hv] at hr
  exact hr

/-! ### 5. stop strings (valid, non-empty stops; generated text a prefix of valid UTF-8) -/

/-- **A stop ended the run** ⇒ the output is exactly the generated text before that stop's first
    occurrence, the reason is "stop", and no stop occurred before the last token ("as soon as").
    Which stop: on the pinned code the first *listed* stop occurring in the generated text; on the
    repaired code one whose first occurrence is the earliest of all stops. -/
theorem stop_found (pinned : Bool) (limit : Int) (stops : List Bytes) (evs : List Ev) (hok : StopsOk stops) (s : Bytes) :
    let f := run pinned limit stops init evs
    ValidPrefix f.genText → f.cause = some (.stopString s) →
      f.done = some .stop ∧ s ∈ stops ∧
      (∃ idx, indexOf s f.genText = some idx ∧ f.outText = f.genText.take idx ∧
        (pinned = false → ∀ t ∈ stops, ∀ j, indexOf t f.genText = some j → idx ≤ j)) ∧
      (pinned = true → findStop f.genText stops = some s) ∧
      (∀ t ∈ stops, ¬ Occurs t f.gen.dropLast.flatten) := by
  intro f hvp hc
  have := run_main pinned hok limit evs hvp
  unfold Post at this
  rw [hc] at this
  exact ⟨this.1, this.2.1, this.2.2.2.1, this.2.2.1, this.2.2.2.2.1⟩

/-- **No stop ended the run** (still running, EOS, or limit) ⇒ no stop occurs anywhere in the
    generated text; at EOS / at the limit the output is all of it (minus a trailing incomplete
    character); while running nothing is lost: output ++ pending = generated. -/
theorem ends_at_eos_or_limit (pinned : Bool) (limit : Int) (stops : List Bytes) (evs : List Ev) (hok : StopsOk stops) :
    let f := run pinned limit stops init evs
    ValidPrefix f.genText → (∀ s, f.cause ≠ some (.stopString s)) →
      (∀ t ∈ stops, ¬ Occurs t f.genText) ∧
      ((f.cause = some .eos ∨ f.cause = some .limit) → f.outText = trimValid f.genText) ∧
      ((f.cause = some .eos ∨ f.cause = some .limit) → validUtf8 f.genText = true → f.outText = f.genText) ∧
      (f.cause = none → f.outText ++ f.pending.flatten = f.genText) := by
  intro f hvp hc
  have := run_main pinned hok limit evs hvp
  unfold Post at this
  cases hcause : f.cause with
  | none =>
    rw [hcause] at this
    exact ⟨this.noOcc, by simp, by simp, fun _ => this.split.symm⟩
  | some c =>
    cases c with
    | stopString s => exact absurd hcause (hc s)
    | eos =>
      rw [hcause] at this
      exact ⟨this.2.2.1, fun _ => this.2.1, fun _ hv => by rw [this.2.1, trimValid_of_valid hv], by simp⟩
    | limit =>
      rw [hcause] at this
      exact ⟨this.2.2.1, fun _ => this.2.1, fun _ hv => by rw [this.2.1, trimValid_of_valid hv], by simp⟩

/-- "as soon as the generated text contains a stop the output ends": if any stop occurs in the
    generated text, the run was ended by a stop string -/
theorem stop_honoured (pinned : Bool) (limit : Int) (stops : List Bytes) (evs : List Ev) (hok : StopsOk stops) :
    let f := run pinned limit stops init evs
    ValidPrefix f.genText → (∃ t ∈ stops, Occurs t f.genText) →
      ∃ s, f.cause = some (.stopString s) ∧ f.done = some .stop := by
  intro f hvp ⟨t, ht, hocc⟩
  cases hcause : f.cause with
  | some c =>
    cases c with
    | stopString s => exact ⟨s, rfl, (stop_found pinned limit stops evs hok s hvp hcause).1⟩
    | eos => exact absurd hocc ((ends_at_eos_or_limit pinned limit stops evs hok hvp (by simp [f, hcause])).1 t ht)
    | limit => exact absurd hocc ((ends_at_eos_or_limit pinned limit stops evs hok hvp (by simp [f, hcause])).1 t ht)
  | none => exact absurd hocc ((ends_at_eos_or_limit pinned limit stops evs hok hvp (by simp [f, hcause])).1 t ht)

/-- the guard under which the multi-stop clause holds: the first *listed* stop occurring in the
    text is also the one that starts earliest -/
def firstListedIsEarliest (stops : List Bytes) (g : Bytes) : Bool :=
  match findStop g stops with
  | none => true
  | some s => stops.all fun t =>
      match indexOf t g, indexOf s g with
      | some j, some i => decide (i ≤ j)
      | _, _ => true

/-- **Multi-stop clause, partial.**  The full statement ("the output contains no stop") is FALSE on
    the pinned code (finding F7, witness below).  It holds whenever the first listed stop that
    occurs in the generated text is also the earliest occurrence. -/
theorem no_stop_in_output_partial (limit : Int) (stops : List Bytes) (evs : List Ev) (hok : StopsOk stops) :
    let f := run true limit stops init evs
    ValidPrefix f.genText → firstListedIsEarliest stops f.genText = true →
      ∀ t ∈ stops, ¬ Occurs t f.outText := by
  intro f hvp hguard t ht hocc
  by_cases hc : ∃ s, f.cause = some (.stopString s)
  · obtain ⟨s, hcs⟩ := hc
    obtain ⟨_, _, ⟨idx, hidx, hout, _⟩, hfind', _⟩ := stop_found true limit stops evs hok s hvp hcs
    have hfind := hfind' rfl
    rw [hout] at hocc
    obtain ⟨a, b, hab⟩ := hocc
    have hgen : f.genText = a ++ t ++ (b ++ f.genText.drop idx) := by
      have h0 : f.genText = f.genText.take idx ++ f.genText.drop idx :=
        (List.take_append_drop idx f.genText).symm
      have hab' : f.genText.take idx = a ++ t ++ b := hab
      rw [hab'] at h0
      rw [List.append_assoc] at h0
      exact h0
    have hOcc : Occurs t f.genText := ⟨a, _, hgen⟩
    obtain ⟨j, hj⟩ := hOcc.indexOf
    have hjle := (indexOf_spec t _ j hj).2 a _ hgen
    unfold firstListedIsEarliest at hguard
    rw [hfind] at hguard
    have := List.all_eq_true.mp hguard t ht
    rw [hj, hidx] at this
    have hij : idx ≤ j := by simpa using this
    have hlen := congrArg List.length hab
    rw [List.length_take] at hlen
    simp only [List.length_append] at hlen
    have htne : t.length ≠ 0 := fun h0 => (hok t ht).1 (List.eq_nil_of_length_eq_zero h0)
    omega
  · have hc' : ∀ s, f.cause ≠ some (.stopString s) := fun s h => hc ⟨s, h⟩
    obtain ⟨hno, _, _, _⟩ := ends_at_eos_or_limit true limit stops evs hok hvp hc'
    apply hno t ht
    obtain ⟨y, hy⟩ := (prefix_valid true limit stops evs hvp).1
    rw [← hy]; exact hocc.append_right y

/-- **Multi-stop clause, full, for the repaired `FindStop`** (proposed_fixes/C14-F7.patch,
    `pinned = false`): for every script, limit and list of valid non-empty stops, if the generated
    text is a prefix of valid UTF-8 then no stop string occurs in what was streamed. -/
theorem no_stop_in_output_fixed (limit : Int) (stops : List Bytes) (evs : List Ev) (hok : StopsOk stops) :
    let f := run false limit stops init evs
    ValidPrefix f.genText → ∀ t ∈ stops, ¬ Occurs t f.outText := by
  intro f hvp t ht hocc
  by_cases hc : ∃ s, f.cause = some (.stopString s)
  · obtain ⟨s, hcs⟩ := hc
    obtain ⟨_, _, ⟨idx, hidx, hout, hmin⟩, _, _⟩ := stop_found false limit stops evs hok s hvp hcs
    rw [hout] at hocc
    obtain ⟨a, b, hab⟩ := hocc
    have hgen : f.genText = a ++ t ++ (b ++ f.genText.drop idx) := by
      have h0 : f.genText = f.genText.take idx ++ f.genText.drop idx :=
        (List.take_append_drop idx f.genText).symm
      have hab' : f.genText.take idx = a ++ t ++ b := hab
      rw [hab'] at h0
      rw [List.append_assoc] at h0
      exact h0
    have hOcc : Occurs t f.genText := ⟨a, _, hgen⟩
    obtain ⟨j, hj⟩ := hOcc.indexOf
    have hjle := (indexOf_spec t _ j hj).2 a _ hgen
    have hij : idx ≤ j := hmin rfl t ht j hj
    have hlen := congrArg List.length hab
    rw [List.length_take] at hlen
    simp only [List.length_append] at hlen
    have htne : t.length ≠ 0 := fun h0 => (hok t ht).1 (List.eq_nil_of_length_eq_zero h0)
    omega
  · have hc' : ∀ s, f.cause ≠ some (.stopString s) := fun s h => hc ⟨s, h⟩
    obtain ⟨hno, _, _, _⟩ := ends_at_eos_or_limit false limit stops evs hok hvp hc'
    apply hno t ht
    obtain ⟨y, hy⟩ := (prefix_valid false limit stops evs hvp).1
    rw [← hy]; exact hocc.append_right y

/-- **Single stop**: the full clause.  If the stop occurs in the generated text, the output is
    exactly the text before its first occurrence, contains no stop, and the reason is "stop";
    otherwise the run was not ended by a stop string. -/
theorem single_stop (pinned : Bool) (limit : Int) (s : Bytes) (evs : List Ev) (hs : s ≠ [] ∧ validUtf8 s = true) :
    let f := run pinned limit [s] init evs
    ValidPrefix f.genText →
      (Occurs s f.genText →
        f.done = some .stop ∧ ¬ Occurs s f.outText ∧
        ∃ idx, indexOf s f.genText = some idx ∧ f.outText = f.genText.take idx) ∧
      (¬ Occurs s f.genText → ∀ s', f.cause ≠ some (.stopString s')) := by
  intro f hvp
  have hok : StopsOk [s] := by intro t ht; simp at ht; subst ht; exact hs
  constructor
  · intro hocc
    obtain ⟨s', hc, hd⟩ := stop_honoured pinned limit [s] evs hok hvp ⟨s, by simp, hocc⟩
    obtain ⟨_, hmem, ⟨idx, hidx1, hidx2, _⟩, hfind', _⟩ := stop_found pinned limit [s] evs hok s' hvp hc
    have hidx : ∃ idx, indexOf s' (run pinned limit [s] init evs).genText = some idx ∧
        (run pinned limit [s] init evs).outText = (run pinned limit [s] init evs).genText.take idx := ⟨idx, hidx1, hidx2⟩
    simp at hmem; subst hmem
    refine ⟨hd, ?_, hidx⟩
    cases pinned with
    | false => exact no_stop_in_output_fixed limit [s'] evs hok hvp s' (by simp)
    | true =>
      apply no_stop_in_output_partial limit [s'] evs hok hvp _ s' (by simp)
      unfold firstListedIsEarliest
      rw [hfind' rfl]
      simp [hidx1]
  · intro hno s' hc
    obtain ⟨_, hmem, ⟨idx, hidx1, _, _⟩, _, _⟩ := stop_found pinned limit [s] evs hok s' hvp hc
    simp at hmem; subst hmem
    exact hno (occurs_of_indexOf hidx1)

/-! ### 5b. the reader of `seq.responses` may lag: what it receives does not depend on when it reads -/

/-- **The streamed text is a function of (pieces, stops, limit) only.**  `runSched` is the loop with
    the buffered response channel (any capacity `cap`) and a reader that takes `sched[i]` chunks
    after token `i` (`0` = stalled; `tail` per token afterwards), is forced to take one chunk whenever
    the producer blocks on the full buffer, and drains the channel once it is closed.  For every
    schedule the loop ends in the state `run` computes without any channel, the chunks received plus
    the chunks still buffered are exactly `run`'s chunks in order, and when the sequence is done the
    reader has received all of them — so every theorem above about `f.out` is a theorem about what
    a client receives, however slowly it reads. -/
theorem consumer_schedule_independent (pinned : Bool) (limit : Int) (stops : List Bytes) (evs : List Ev)
    (cap tail : Nat) (sched : List Nat) :
    let r := runSched pinned limit stops cap tail init {} sched evs
    let f := run pinned limit stops init evs
    r.1 = f ∧ r.2.recv ++ r.2.buf = f.out ∧ (f.done.isSome = true → r.2.recv = f.out ∧ r.2.buf = []) := by
  intro r f
  obtain ⟨h1, h2, h3⟩ := runSched_eq_run pinned limit stops cap tail evs init {} sched rfl rfl
  refine ⟨h1, h2, fun hd => ?_⟩
  have hb := h3 hd
  have h2' : r.2.recv ++ r.2.buf = f.out := h2
  have hb' : r.2.buf = [] := hb
  rw [hb', List.append_nil] at h2'
  exact ⟨h2', hb'⟩

/-- two different schedules (non-vacuity): a reader stalled for 3 tokens on a channel of capacity 2
    is forced to read once, and still receives the same chunks as a reader that keeps up -/
example :
    let evs := [Ev.piece [0x61], Ev.piece [0x62], Ev.piece [0x63], Ev.piece [0x64], Ev.eos]
    (runSched true 0 [] 2 0 init {} [] evs).2.recv = [[0x61], [0x62], [0x63], [0x64]] ∧
    (runSched true 0 [] 2 0 init {} [] evs).2.forced = 2 ∧
    (runSched true 0 [] 2 9 init {} [] evs).2.recv = [[0x61], [0x62], [0x63], [0x64]] ∧
    (runSched true 0 [] 2 9 init {} [] evs).2.forced = 0 := by decide

/-- **Client disconnect.**  The HTTP handler closes `seq.quit` and stops reading when the client goes
    away.  Whenever that happens (after any part `e1` of the script, under any schedule and capacity),
    the chunks the reader holds are a prefix, as a list of chunks, of the chunks `run` streams for
    the whole script `e1 ++ e2` — so all the safety clauses (valid UTF-8 chunks, prefix of the
    generated text, no stop inside) hold for what a disconnecting client received.  (What the decode
    loop does after the disconnect — `DoneReasonConnectionClosed` — is not modelled: the select in
    `flushPending` is then nondeterministic; it cannot change what the reader already holds.) -/
theorem disconnect_prefix (pinned : Bool) (limit : Int) (stops : List Bytes) (cap tail : Nat)
    (sched : List Nat) (e1 e2 : List Ev) :
    (runSched pinned limit stops cap tail init {} sched e1).2.recv <+:
      (run pinned limit stops init (e1 ++ e2)).out :=
  received_prefix_any_time pinned limit stops cap tail sched e1 e2

/-- **The stream of a sequence does not depend on its batch-mates.**  `runSkips` is `run` with
    `skips[i]` extra calls of processBatch before the i-th sampling step in which the sequence is in
    `s.seqs` but not sampled (its input did not fit into the batch next to the other sequences); only
    the prediction-limit check at the top of the call is made.  For every such schedule the final
    state (chunks, reason, pending, count) is the one of `run`. -/
theorem batch_mates_independent (pinned : Bool) (limit : Int) (stops : List Bytes) (evs : List Ev)
    (skips : List Nat) :
    runSkips pinned limit stops init skips evs = run pinned limit stops init evs :=
  runSkips_eq_run pinned limit stops evs init skips rfl

/-! ### 5c. the property as stated, for the tree as it is now (repaired `FindStop`, `pinned = false`) -/

/-- **C14 for the current tree, all clauses in one statement.**  For every script of pieces/EOS, every
    list of valid non-empty stops, every limit, and every reader schedule / channel capacity: if the
    text generated up to the terminating event is (a prefix of) valid UTF-8 then
    1. every streamed chunk is valid UTF-8 and the streamed text is a prefix of the generated text;
    2. no stop string occurs in the streamed text;
    3. if some stop occurs in the generated text: the reason is "stop" and the streamed text is the
       generated text up to the earliest first occurrence of a stop (it ends immediately before one);
    4. if none occurs: the run ended at EOS (reason "stop") or at the limit (reason "length") with all
       the generated text streamed (minus a trailing incomplete character), or is still running with
       nothing lost;
    5. once the sequence is done, the reader has received exactly these chunks, whatever its schedule. -/
theorem c14_streamed_text (limit : Int) (stops : List Bytes) (evs : List Ev) (hok : StopsOk stops)
    (cap tail : Nat) (sched : List Nat) :
    let f := run false limit stops init evs
    ValidPrefix f.genText →
      ((∀ c ∈ f.out, validUtf8 c = true ∧ c ≠ []) ∧ f.outText <+: f.genText) ∧
      (∀ t ∈ stops, ¬ Occurs t f.outText) ∧
      ((∃ t ∈ stops, Occurs t f.genText) →
        f.done = some .stop ∧ ∃ s ∈ stops, ∃ idx, indexOf s f.genText = some idx ∧
          (∀ t ∈ stops, ∀ j, indexOf t f.genText = some j → idx ≤ j) ∧ f.outText = f.genText.take idx) ∧
      ((∀ t ∈ stops, ¬ Occurs t f.genText) →
        (f.done = some .stop → f.cause = some .eos ∧ f.outText = trimValid f.genText) ∧
        (f.done = some .length → f.cause = some .limit ∧ f.outText = trimValid f.genText) ∧
        (f.done = none → f.outText ++ f.pending.flatten = f.genText)) ∧
      (f.done.isSome = true → (runSched false limit stops cap tail init {} sched evs).2.recv = f.out) := by
  intro f hvp
  refine ⟨⟨chunks_valid false limit stops evs, (prefix_valid false limit stops evs hvp).1⟩,
    no_stop_in_output_fixed limit stops evs hok hvp, ?_, ?_, ?_⟩
  · intro hex
    obtain ⟨s, hc, hd⟩ := stop_honoured false limit stops evs hok hvp hex
    obtain ⟨_, hmem, ⟨idx, h1, h2, h3⟩, _, _⟩ := stop_found false limit stops evs hok s hvp hc
    exact ⟨hd, s, hmem, idx, h1, h3 rfl, h2⟩
  · intro hno
    have hns : ∀ s, f.cause ≠ some (.stopString s) := by
      intro s hc
      obtain ⟨_, hmem, ⟨idx, h1, _, _⟩, _, _⟩ := stop_found false limit stops evs hok s hvp hc
      exact hno s hmem (occurs_of_indexOf h1)
    obtain ⟨_, htrim, _, hrun⟩ := ends_at_eos_or_limit false limit stops evs hok hvp hns
    obtain ⟨hlen, hstop, hnone⟩ := reason_map false limit stops evs
    refine ⟨fun hd => ?_, fun hd => ?_, fun hd => hrun (hnone.mp hd)⟩
    · rcases hstop.mp hd with h | ⟨s, h⟩
      · exact ⟨h, htrim (Or.inl h)⟩
      · exact absurd h (hns s)
    · have h := hlen.mp hd
      exact ⟨h, htrim (Or.inr h)⟩
  · intro hd
    exact ((consumer_schedule_independent false limit stops evs cap tail sched).2.2 hd).1

/-! ### 5c'. the same statement with the hypothesis on the SCRIPT (the input), not on the run's own ghost output -/

/-- the pieces of a script, EOS events left out -/
def scriptPieces : List Ev → List Bytes
  | [] => []
  | .piece p :: r => p :: scriptPieces r
  | .eos :: r => scriptPieces r

/-- the text the whole script spells -/
def scriptText (evs : List Ev) : Bytes := (scriptPieces evs).flatten

theorem scriptPieces_append (a b : List Ev) : scriptPieces (a ++ b) = scriptPieces a ++ scriptPieces b := by
  induction a with
  | nil => rfl
  | cons e a ih => cases e <;> simp [scriptPieces, ih]

theorem scriptPieces_map_piece (g : List Bytes) : scriptPieces (g.map Ev.piece) = g := by
  induction g with
  | nil => rfl
  | cons p g ih => simp [scriptPieces, ih]

/-- the text generated by a run is a prefix of the text its script spells -/
theorem genText_prefix_script (pinned : Bool) (limit : Int) (stops : List Bytes) (evs : List Ev) :
    (run pinned limit stops init evs).genText <+: scriptText evs := by
  obtain ⟨rest, hrest⟩ := (cause_spec pinned limit stops evs).1
  refine ⟨(scriptPieces rest).flatten, ?_⟩
  have h : scriptPieces evs = (run pinned limit stops init evs).gen ++ scriptPieces rest := by
    have h0 := congrArg scriptPieces hrest
    rw [scriptPieces_append, scriptPieces_map_piece] at h0
    exact h0.symm
  show (run pinned limit stops init evs).gen.flatten ++ _ = (scriptPieces evs).flatten
  rw [h, List.flatten_append]

/-- **C14 stated on the input.**  `c14_streamed_text` with the hypothesis moved from the run's own ghost field
    (`ValidPrefix f.genText`) to the script: if the pieces of the script spell (a prefix of) valid UTF-8 — whatever
    way characters and stop strings are split over the pieces, wherever EOS events sit — then all five clauses hold. -/
theorem c14_script (limit : Int) (stops : List Bytes) (evs : List Ev) (hok : StopsOk stops)
    (cap tail : Nat) (sched : List Nat) (hscript : ValidPrefix (scriptText evs)) :
    let f := run false limit stops init evs
    ((∀ c ∈ f.out, validUtf8 c = true ∧ c ≠ []) ∧ f.outText <+: f.genText) ∧
    (∀ t ∈ stops, ¬ Occurs t f.outText) ∧
    ((∃ t ∈ stops, Occurs t f.genText) →
      f.done = some .stop ∧ ∃ s ∈ stops, ∃ idx, indexOf s f.genText = some idx ∧
        (∀ t ∈ stops, ∀ j, indexOf t f.genText = some j → idx ≤ j) ∧ f.outText = f.genText.take idx) ∧
    ((∀ t ∈ stops, ¬ Occurs t f.genText) →
      (f.done = some .stop → f.cause = some .eos ∧ f.outText = trimValid f.genText) ∧
      (f.done = some .length → f.cause = some .limit ∧ f.outText = trimValid f.genText) ∧
      (f.done = none → f.outText ++ f.pending.flatten = f.genText)) ∧
    (f.done.isSome = true → (runSched false limit stops cap tail init {} sched evs).2.recv = f.out) := by
  intro f
  obtain ⟨y, hy⟩ := genText_prefix_script false limit stops evs
  have hvp : ValidPrefix f.genText := by
    rw [← hy] at hscript
    exact hscript.left
  exact c14_streamed_text limit stops evs hok cap tail sched hvp

/-- non-vacuity of `c14_script` in the case that matters for the repaired `FindStop`: two stops, the first LISTED
    (`"z"`) is not the EARLIEST (`"<|"`), a 4-byte character over three tokens, the stop straddling two pieces.
    The repaired variant streams the emoji and ends on `"<|"`; the pinned variant streams `"<|"` too (F7). -/
example :
    let stops : List Bytes := [[0x7a], [0x3c, 0x7c]]
    let evs := [Ev.piece [0xf0, 0x9f], Ev.piece [0x98], Ev.piece [0x80, 0x3c], Ev.piece [0x7c, 0x7a],
                Ev.piece [0x71], Ev.eos]
    (∀ t ∈ stops, t ≠ [] ∧ validUtf8 t = true) ∧ validUtf8 (scriptText evs) = true ∧
    (run false 9 stops init evs).out = [[0xf0, 0x9f, 0x98, 0x80]] ∧
    (run false 9 stops init evs).cause = some (.stopString [0x3c, 0x7c]) ∧
    (run false 9 stops init evs).numPredicted = 4 ∧
    (run true 9 stops init evs).out = [[0xf0, 0x9f, 0x98, 0x80, 0x3c, 0x7c]] ∧
    (run true 9 stops init evs).cause = some (.stopString [0x7a]) := by decide

/-- empty pieces (special tokens that decode to `""`) are ordinary events: `"" "a" "" "b"` with stop `"ab"`
    streams nothing and ends with reason stop after 4 tokens -/
example :
    let f := run false 0 [[0x61, 0x62]] init [Ev.piece [], Ev.piece [0x61], Ev.piece [], Ev.piece [0x62], Ev.eos]
    f.out = [] ∧ f.done = some .stop ∧ f.numPredicted = 4 ∧ f.cause = some (.stopString [0x61, 0x62]) := by decide

/-! ### 5c''. cache trimming next to TruncateStop: the inputs kept are those of the tokens streamed in full -/

theorem shape_len : ∀ (res pieces : List Bytes) (t : Bool), Shape res pieces t → res.length ≤ pieces.length := by
  intro res
  induction res with
  | nil => intro pieces t _; simp
  | cons r rs ih =>
    intro pieces t h
    cases pieces with
    | nil => cases rs <;> simp [Shape] at h
    | cons p ps =>
      cases rs with
      | nil => simp
      | cons r' rs' =>
        simp only [Shape] at h
        have := ih ps t h.2
        simp only [List.length_cons] at this ⊢
        omega

theorem shape_trunc_nonempty (res pieces : List Bytes) (h : Shape res pieces true) : res ≠ [] := by
  intro he; subst he; simp [Shape] at h

/-- the pieces returned uncut are the original pieces at the same positions -/
theorem shape_whole : ∀ (res pieces : List Bytes) (t : Bool), Shape res pieces t →
    res.take (res.length - (if t then 1 else 0)) = pieces.take (res.length - (if t then 1 else 0)) := by
  intro res
  induction res with
  | nil => intro pieces t _; simp
  | cons r rs ih =>
    intro pieces t h
    cases pieces with
    | nil => cases rs <;> simp [Shape] at h
    | cons p ps =>
      cases rs with
      | nil =>
        simp only [Shape] at h
        cases t with
        | true => simp
        | false =>
          have : r = p := by
            by_cases hrp : r = p
            · exact hrp
            · exact absurd (h.2.mpr hrp) (by simp)
          subst this
          simp
      | cons r' rs' =>
        simp only [Shape] at h
        have ih' := ih ps t h.2
        have hk : (r :: r' :: rs').length - (if t then 1 else 0) =
            ((r' :: rs').length - (if t then 1 else 0)) + 1 := by
          cases t <;> simp
        rw [hk, List.take_succ_cons, List.take_succ_cons, ih', h.1]

/-- **Cache trimming at a stop string.**  `pieces` = `seq.pendingResponses` including the token just sampled
    (whose input is not in the cache yet), `cached = len(seq.cache.Inputs)`; every pending piece but the last has its
    input in the cache (`pieces.length ≤ cached + 1`).  For every pending list and every non-empty stop that occurs:
    * `whole` = the number of pieces `TruncateStop` returns uncut, and those ARE the first `whole` original pieces;
    * the new cache length is `cached + 1 - (pieces.length - whole)`: of the `cached + 1` tokens so far exactly the
      ones whose text is not streamed in full are dropped — the "defense-in-depth" case (`origLen == newLen` with
      nothing truncated) never arises;
    * `0 ≤ tokenLen ≤ cached`: the reslice `seq.cache.Inputs[:tokenLen]` neither panics nor extends the slice, and
      the input of the just-sampled token is never claimed. -/
theorem cacheKeep_spec (pieces : List Bytes) (stop : Bytes) (cached idx : Nat)
    (hstop : stop ≠ []) (hidx : indexOf stop pieces.flatten = some idx) (hc : pieces.length ≤ cached + 1) :
    let r := truncateStop pieces stop
    let whole := r.1.length - (if r.2 then 1 else 0)
    r.1.take whole = pieces.take whole ∧ whole < pieces.length ∧
    cacheKeep cached pieces.length r.1.length r.2 = (cached : Int) + 1 - ((pieces.length - whole : Nat) : Int) ∧
    0 ≤ cacheKeep cached pieces.length r.1.length r.2 ∧
    cacheKeep cached pieces.length r.1.length r.2 ≤ (cached : Int) := by
  intro r whole
  have hs : Shape r.1 pieces r.2 := (truncateStop_shape pieces stop).1 idx hidx
  have hlen := shape_len _ _ _ hs
  have hwhole := shape_whole _ _ _ hs
  have hflat : r.1.flatten = pieces.flatten.take idx := truncateStop_flatten hidx
  have hlt : idx < pieces.flatten.length := by
    obtain ⟨⟨a, b, hab, ha⟩, _⟩ := indexOf_spec stop _ idx hidx
    have := congrArg List.length hab
    simp only [List.length_append] at this
    have : stop.length ≠ 0 := fun h0 => hstop (List.eq_nil_of_length_eq_zero h0)
    omega
  have hcut : r.2 = true ∨ r.1.length < pieces.length := by
    by_cases h2t : r.2 = true
    · exact Or.inl h2t
    by_cases h3lt : r.1.length < pieces.length
    · exact Or.inr h3lt
    exfalso
    have h2 : r.2 = false := by
      cases h : r.2 with
      | true => exact absurd h h2t
      | false => rfl
    have h3 : r.1.length = pieces.length := by omega
    have h4 := hwhole
    rw [h2] at h4
    simp only [Bool.false_eq_true, if_false, Nat.sub_zero] at h4
    rw [List.take_length, h3, List.take_length] at h4
    rw [h4] at hflat
    have := congrArg List.length hflat
    rw [List.length_take] at this
    omega
  have hne : r.2 = true → r.1.length ≥ 1 := by
    intro h
    have : r.1 ≠ [] := shape_trunc_nonempty r.1 pieces (h ▸ hs)
    exact Nat.pos_of_ne_zero (fun h0 => this (List.eq_nil_of_length_eq_zero h0))
  refine ⟨hwhole, ?_, ?_, ?_, ?_⟩
  all_goals
    simp only [whole, cacheKeep]
    cases h : r.2 with
    | true =>
      have := hne h
      simp only [Bool.true_or, if_true]
      omega
    | false =>
      have hl : r.1.length < pieces.length := by
        rcases hcut with h' | h'
        · rw [h] at h'; cases h'
        · exact h'
      have hneq : (pieces.length == r.1.length) = false := by
        rw [beq_eq_false_iff_ne]; omega
      simp only [Bool.false_or, hneq, Bool.false_eq_true, if_false]
      omega

/-- non-vacuity: pending `"a" "b<" "|x"` with stop `"<|"`, 7 inputs cached: `TruncateStop` returns `"a" "b"` with the
    second piece cut, one piece is whole, the cache keeps 6 inputs; with the stop `"b<|x"` ending on a piece boundary
    nothing is cut and 6 are kept as well; a stop inside the first of three pending pieces drops all three tokens -/
example :
    truncateStop [[0x61], [0x62, 0x3c], [0x7c, 0x78]] [0x3c, 0x7c] = ([[0x61], [0x62]], true) ∧
    cacheKeep 7 3 2 true = 6 ∧
    truncateStop [[0x61], [0x62, 0x3c], [0x7c, 0x78]] [0x62, 0x3c, 0x7c, 0x78] = ([[0x61]], false) ∧
    cacheKeep 7 3 1 false = 6 ∧
    truncateStop [[0x61, 0x62], [0x63], [0x64]] [0x62, 0x63, 0x64] = ([[0x61]], true) ∧
    cacheKeep 7 3 1 true = 5 := by decide

/-! ### 5c-3. an EMPTY stop string (outside `StopsOk`): nothing is ever streamed -/

theorem indexOf_nil (seq : Bytes) : indexOf [] seq = some 0 := by
  cases seq <;> simp [indexOf]

/-- **The empty stop.**  `strings.Index(s, "") = 0`: with `""` among the stops the repaired `FindStop` finds a stop at
    offset 0 of the very first piece, `TruncateStop` keeps nothing, and the run ends: for every script and limit the
    streamed text is empty (the property's reading: the generated text "contains" `""` at its very beginning, the
    output ends immediately before it).  Covers the stop lists `StopsOk` excludes because of an empty member. -/
theorem empty_stop_streams_nothing (limit : Int) (stops : List Bytes) (evs : List Ev) (hmem : ([] : Bytes) ∈ stops) :
    (run false limit stops init evs).outText = [] := by
  let Inv : St → Prop := fun st => st.out.flatten = [] ∧ st.pending = []
  have hflush : ∀ st : St, st.out.flatten = [] → st.pending.flatten = [] → st.flush.out.flatten = [] := by
    intro st ho hp
    rw [flush_out, ho, flushText, hp]
    rfl
  have hnone : ∀ seq : Bytes, findStopV false seq stops ≠ none := by
    intro seq h
    exact findStopV_none h [] hmem ⟨[], seq, by simp⟩
  have hstep : ∀ st p, Inv st → (stepPiece false stops st p).out.flatten = [] ∧
      (stepPiece false stops st p).done.isSome = true := by
    intro st p ⟨ho, hp⟩
    rcases stepPiece_cases false stops st p with ⟨s, hs, h⟩ | ⟨hn, _, _⟩ | ⟨hn, _, _, _⟩
    · have hs' : findStopEarliest (st.push p).pending.flatten stops = some s := by
        simpa [findStopV] using hs
      obtain ⟨_, i, hi, hmin⟩ := findStopEarliest_spec hs'
      have hi0 : i = 0 := by
        have := hmin [] hmem 0 (indexOf_nil _)
        omega
      subst hi0
      rw [h]
      refine ⟨?_, by simp⟩
      rw [finish_out]
      apply hflush
      · exact ho
      · show (truncateStop (st.push p).pending s).1.flatten = []
        rw [truncateStop_flatten hi]; rfl
    · exact absurd hn (hnone _)
    · exact absurd hn (hnone _)
  refine run_ind (pinned := false) (limit := limit) (stops := stops) (Inv := Inv)
    (Post := fun f => f.out.flatten = []) ?_ ?_ ?_ ?_ ?_ evs init ⟨rfl, rfl⟩
  · intro st hi _; exact hi.1
  · intro st hi _; rw [finish_out]; exact hflush st hi.1 (by rw [hi.2]; rfl)
  · intro st hi _
    rw [finish_out]
    exact hflush { st with numPredicted := st.numPredicted + 1 } hi.1 (by show st.pending.flatten = []; rw [hi.2]; rfl)
  · intro st p hi _ _; exact (hstep st p hi).1
  · intro st p hi _ hd
    rw [(hstep st p hi).2] at hd
    cases hd

/-- non-vacuity / what it looks like: stops `["x", ""]`, pieces `"a" "b"` then EOS: the first token ends the run with
    reason stop and nothing streamed -/
example :
    let f := run false 0 [[0x78], []] init [Ev.piece [0x61], Ev.piece [0x62], Ev.eos]
    f.out = [] ∧ f.done = some .stop ∧ f.numPredicted = 1 ∧ f.cause = some (.stopString []) := by decide

/-! ### 5c-4. the reslice of the cache is in range on EVERY reachable state -/

/-- **`seq.cache.Inputs[:tokenLen]` never panics and never extends the cache, along every history.**  For every
    script, limit, list of non-empty stops and prompt length: whenever the sequence is removed, the cache length the
    model computes (`cacheLenRun`, compared exactly with `len(seq.cache.Inputs)` of both runners) is non-negative and at
    most the number of inputs that have been submitted by then — the prompt and every sampled token but the last
    (`promptLen + numPredicted − 1`) — with equality at EOS and at the limit.  The hypothesis of `cacheKeep_spec`
    (every pending piece but the last has its input in the cache) is discharged here from the loop invariant
    `pending.length ≤ numPredicted`. -/
theorem cacheLen_in_range (pinned : Bool) (limit : Int) (stops : List Bytes) (promptLen : Nat)
    (hne : ∀ t ∈ stops, t ≠ []) :
    ∀ (evs : List Ev) (st : St), st.pending.length ≤ st.numPredicted → st.done = none → st.cause = none → ∀ n,
      cacheLenRun pinned limit stops promptLen st evs = some n →
      0 ≤ n ∧ n ≤ (promptLen : Int) + (run pinned limit stops st evs).numPredicted - 1 := by
  intro evs
  induction evs with
  | nil =>
    intro st _ _ _ n h
    unfold cacheLenRun at h
    unfold run
    split at h
    · rename_i hl
      simp only [hl, and_self, if_true, finish_np]
      injection h with h
      omega
    · cases h
  | cons ev rest ih =>
    intro st hinv hdone hcause n h
    unfold cacheLenRun at h
    unfold run
    split at h
    · rename_i hl
      simp only [hl, and_self, if_true, finish_np]
      injection h with h
      omega
    · rename_i hl
      simp only [hl, if_false]
      cases ev with
      | eos =>
        simp only [finish_np] at h ⊢
        injection h with h
        omega
      | piece p =>
        simp only at h ⊢
        rcases stepPiece_cases pinned stops st p with ⟨s, hs, hst⟩ | ⟨_, _, hst⟩ | ⟨_, _, _, hst⟩
        · -- a stop string ends the run
          have hc : (stepPiece pinned stops st p).cause = some (.stopString s) := by rw [hst]; simp
          have hd : (stepPiece pinned stops st p).done.isSome = true := by rw [hst]; simp
          rw [hc] at h
          simp only [hd, if_true]
          rw [stepPiece_np]
          injection h with h
          obtain ⟨hmem, hocc⟩ := findStopV_some hs
          obtain ⟨idx, hidx⟩ := hocc.indexOf
          have hidx' : indexOf s (st.pending ++ [p]).flatten = some idx := hidx
          have hlen : (st.pending ++ [p]).length ≤ (promptLen + st.numPredicted) + 1 := by
            simp only [List.length_append, List.length_cons, List.length_nil]; omega
          obtain ⟨_, _, _, h0, h1⟩ := cacheKeep_spec (st.pending ++ [p]) s (promptLen + st.numPredicted) idx
            (hne s hmem) hidx' hlen
          rw [h] at h0 h1
          constructor
          · exact h0
          · have : ((promptLen + st.numPredicted : Nat) : Int) = (promptLen : Int) + (st.numPredicted : Int) := by
              simp
            omega
        · -- held back: the run goes on
          have hc : (stepPiece pinned stops st p).cause = none := by rw [hst]; exact hcause
          have hd : (stepPiece pinned stops st p).done = none := by rw [hst]; exact hdone
          rw [hc] at h
          simp only [hd, Option.isSome_none, Bool.false_eq_true, if_false] at h ⊢
          refine ih _ ?_ hd hc n h
          rw [hst]
          show (st.pending ++ [p]).length ≤ st.numPredicted + 1
          simp only [List.length_append, List.length_cons, List.length_nil]; omega
        · -- flushed: the run goes on
          have hc : (stepPiece pinned stops st p).cause = none := by rw [hst, flush_cause]; exact hcause
          have hd : (stepPiece pinned stops st p).done = none := by rw [hst, flush_done]; exact hdone
          rw [hc] at h
          simp only [hd, Option.isSome_none, Bool.false_eq_true, if_false] at h ⊢
          refine ih _ ?_ hd hc n h
          rw [hst, flush_pending]
          simp

/-- the ghost `cacheLenRun` follows `run`: it yields a cache length exactly when `run` ends with the sequence removed -/
theorem cacheLenRun_isSome_iff (pinned : Bool) (limit : Int) (stops : List Bytes) (promptLen : Nat) :
    ∀ (evs : List Ev) (st : St), st.done = none → st.cause = none →
      ((cacheLenRun pinned limit stops promptLen st evs).isSome = (run pinned limit stops st evs).done.isSome) := by
  intro evs
  induction evs with
  | nil =>
    intro st hd _
    unfold cacheLenRun run
    split
    · simp
    · simp [hd]
  | cons ev rest ih =>
    intro st hdone hcause
    unfold cacheLenRun run
    split
    · simp
    · cases ev with
      | eos => simp
      | piece p =>
        simp only
        rcases stepPiece_cases pinned stops st p with ⟨s, hs, hst⟩ | ⟨_, _, hst⟩ | ⟨_, _, _, hst⟩
        · have hc : (stepPiece pinned stops st p).cause = some (.stopString s) := by rw [hst]; simp
          have hd : (stepPiece pinned stops st p).done.isSome = true := by rw [hst]; simp
          rw [hc]
          simp [hd]
        · have hc : (stepPiece pinned stops st p).cause = none := by rw [hst]; exact hcause
          have hd : (stepPiece pinned stops st p).done = none := by rw [hst]; exact hdone
          rw [hc]
          simp only [hd, Option.isSome_none, Bool.false_eq_true, if_false]
          exact ih _ hd hc
        · have hc : (stepPiece pinned stops st p).cause = none := by rw [hst, flush_cause]; exact hcause
          have hd : (stepPiece pinned stops st p).done = none := by rw [hst, flush_done]; exact hdone
          rw [hc]
          simp only [hd, Option.isSome_none, Bool.false_eq_true, if_false]
          exact ih _ hd hc

/-- `cacheLen_in_range` from the start of a request -/
theorem cache_reslice_in_range (pinned : Bool) (limit : Int) (stops : List Bytes) (promptLen : Nat)
    (hne : ∀ t ∈ stops, t ≠ []) (evs : List Ev) (n : Int)
    (h : cacheLenRun pinned limit stops promptLen init evs = some n) :
    0 ≤ n ∧ n ≤ (promptLen : Int) + (run pinned limit stops init evs).numPredicted - 1 :=
  cacheLen_in_range pinned limit stops promptLen hne evs init (by simp [init]) rfl rfl n h

/-- non-vacuity: prompt of 3 inputs, pieces `"a" "b<" "|x"`, stop `"<|"`: at the stop 5 inputs are cached (prompt, `a`,
    `b<`), the cut token `b<` and the unsubmitted `|x` are dropped: 4 remain; with EOS instead of the third piece the
    cache holds all 5; at limit 2 it holds 4 (the second token was never submitted) -/
example :
    cacheLenRun false 0 [[0x3c, 0x7c]] 3 init [Ev.piece [0x61], Ev.piece [0x62, 0x3c], Ev.piece [0x7c, 0x78]] = some 4 ∧
    cacheLenRun false 0 [[0x3c, 0x7c]] 3 init [Ev.piece [0x61], Ev.piece [0x62, 0x3c], Ev.eos] = some 5 ∧
    cacheLenRun false 2 [[0x3c, 0x7c]] 3 init [Ev.piece [0x61], Ev.piece [0x62, 0x3c], Ev.piece [0x7c, 0x78]] = some 4 ∧
    cacheLenRun false 0 [[0x3c, 0x7c]] 3 init [Ev.piece [0x61]] = none := by decide

/-! ### 5c-5. for the whole run: at a stop string the cache holds the prompt and exactly the tokens streamed in full -/

/-- the number of leading pieces that lie entirely within the first `L` bytes of their concatenation -/
def wholeTokens : List Bytes → Nat → Nat
  | [], _ => 0
  | p :: ps, L => if p.length ≤ L then 1 + wholeTokens ps (L - p.length) else 0

theorem wholeTokens_append (fl ps : List Bytes) (L : Nat) :
    wholeTokens (fl ++ ps) (fl.flatten.length + L) = fl.length + wholeTokens ps L := by
  induction fl with
  | nil => simp
  | cons p fl ih =>
    have h1 : p.length ≤ (p :: fl).flatten.length + L := by simp; omega
    have h2 : (p :: fl).flatten.length + L - p.length = fl.flatten.length + L := by simp; omega
    simp only [List.cons_append, wholeTokens, h1, if_true, h2, ih, List.length_cons]
    omega

theorem splitBack_whole : ∀ (pieces : List Bytes) (rem : Bytes), (∀ p ∈ pieces, p ≠ []) →
    ((splitBack (pieces.map List.length) rem).2 = true → 1 ≤ (splitBack (pieces.map List.length) rem).1.length) ∧
    (splitBack (pieces.map List.length) rem).1.length - (if (splitBack (pieces.map List.length) rem).2 then 1 else 0) =
      wholeTokens pieces rem.length := by
  intro pieces
  induction pieces with
  | nil => intro rem _; simp [splitBack, wholeTokens]
  | cons p ps ih =>
    intro rem hne
    have hp : p.length ≠ 0 := fun h0 => hne p (List.mem_cons_self ..) (List.eq_nil_of_length_eq_zero h0)
    simp only [List.map_cons, splitBack, wholeTokens]
    by_cases hemp : rem.isEmpty = true
    · have : rem.length = 0 := by simp [List.isEmpty_iff.mp hemp]
      simp only [hemp, if_true]
      have : ¬ p.length ≤ rem.length := by omega
      simp [this]
    · simp only [hemp, Bool.false_eq_true, if_false]
      by_cases hgt : p.length > rem.length
      · have : ¬ p.length ≤ rem.length := by omega
        simp [hgt, this]
      · have hle : p.length ≤ rem.length := by omega
        obtain ⟨ih1, ih2⟩ := ih (rem.drop p.length) (fun q hq => hne q (List.mem_cons_of_mem _ hq))
        simp only [hgt, if_false, hle, if_true, List.length_cons]
        rw [List.length_drop] at ih2
        refine ⟨fun _ => by omega, ?_⟩
        rw [← ih2]
        cases h2 : (splitBack (List.map List.length ps) (List.drop p.length rem)).2 with
        | false => simp; omega
        | true => have := ih1 h2; simp; omega

/-- **Cache trimming, for the whole run.**  Every script of non-empty pieces that spells (a prefix of) valid UTF-8, every
    limit, every list of valid non-empty stops, every prompt length: if a stop string ends the run, the cache length at
    removal is `promptLen + wholeTokens gen |streamed text|` — the prompt and exactly those generated tokens whose text
    lies entirely within what was streamed.  (Empty pieces are excluded: an empty piece at the cut belongs to neither
    side; `cacheKeep_spec` and L1 `cachelen` cover them.) -/
theorem cache_is_streamed_tokens (pinned : Bool) (limit : Int) (stops : List Bytes) (promptLen : Nat)
    (hok : StopsOk stops) :
    ∀ (evs : List Ev) (st : St), Stop.Inv stops st →
      (∃ fl : List Bytes, st.gen = fl ++ st.pending ∧ fl.flatten = st.outText ∧
        fl.length + st.pending.length = st.numPredicted) →
      (∀ q ∈ st.gen, q ≠ []) → (∀ q, Ev.piece q ∈ evs → q ≠ []) →
      ValidPrefix (st.genText ++ scriptText evs) → ∀ n s,
      cacheLenRun pinned limit stops promptLen st evs = some n →
      (run pinned limit stops st evs).cause = some (.stopString s) →
      n = (promptLen : Int) + wholeTokens (run pinned limit stops st evs).gen
            (run pinned limit stops st evs).outText.length := by
  intro evs
  induction evs with
  | nil =>
    intro st hinv _ _ _ _ n s _ hc
    unfold run at hc
    split at hc
    · simp at hc
    · rw [hinv.cause] at hc; cases hc
  | cons ev rest ih =>
    intro st hinv ⟨fl, hgen, hfl, hcnt⟩ hgne hsne hvp n s h hc
    unfold cacheLenRun at h
    unfold run at hc ⊢
    split at h
    · rename_i hl; simp only [hl, and_self, if_true] at hc; simp at hc
    · rename_i hl
      simp only [hl, if_false] at hc ⊢
      cases ev with
      | eos => simp at hc
      | piece p =>
        simp only at h hc ⊢
        have hpne : p ≠ [] := hsne p (List.mem_cons_self ..)
        have hvp1 : ValidPrefix (st.genText ++ p) := by
          have : st.genText ++ scriptText (Ev.piece p :: rest) = (st.genText ++ p) ++ scriptText rest := by
            simp [scriptText, scriptPieces, List.append_assoc]
          rw [this] at hvp; exact hvp.left
        obtain ⟨hpost, hcontInv⟩ := step_main pinned hok p hinv hvp1
        rcases stepPiece_cases pinned stops st p with ⟨s', hs, hst⟩ | ⟨_, _, hst⟩ | ⟨_, _, _, hst⟩
        · -- the stop step
          have hcause : (stepPiece pinned stops st p).cause = some (.stopString s') := by rw [hst]; simp
          have hd : (stepPiece pinned stops st p).done.isSome = true := by rw [hst]; simp
          rw [hcause] at h
          simp only [hd, if_true] at hc ⊢
          rw [hcause] at hc
          injection hc with hc; injection hc with hc; subst hc
          injection h with h
          have hP := hpost hd
          unfold Post at hP
          rw [hcause] at hP
          obtain ⟨_, hsmem, _, ⟨idxg, hidxg, houtg, _⟩, _, _⟩ := hP
          -- the pending pieces at the stop
          have hgen' : (stepPiece pinned stops st p).gen = fl ++ (st.pending ++ [p]) := by
            rw [hst, finish_gen]; show st.gen ++ [p] = _; rw [hgen, List.append_assoc]
          obtain ⟨_, hocc⟩ := findStopV_some hs
          obtain ⟨idx, hidx⟩ := hocc.indexOf
          have hidx' : indexOf s' (st.pending ++ [p]).flatten = some idx := hidx
          obtain ⟨⟨a', b', hab', ha'len⟩, hmin'⟩ := indexOf_spec s' _ idx hidx'
          obtain ⟨⟨a, b, hab, halen⟩, hming⟩ := indexOf_spec s' _ idxg hidxg
          have hgt : (stepPiece pinned stops st p).genText = fl.flatten ++ (st.pending ++ [p]).flatten := by
            show (stepPiece pinned stops st p).gen.flatten = _
            rw [hgen', List.flatten_append]
          -- idxg = |fl| + idx
          have hle : idxg ≤ fl.flatten.length + idx := by
            have := hming (fl.flatten ++ a') b' (by rw [hgt, hab']; simp [List.append_assoc])
            simpa [ha'len] using this
          have hge : fl.flatten.length + idx ≤ idxg := by
            have hsplit := hinv.split
            have hno : ¬ Occurs s' (st.outText ++ st.pending.flatten) := by rw [← hsplit]; exact hinv.noOcc s' hsmem
            have hheld : Held stops (st.outText ++ st.pending.flatten) st.pending.flatten.length := by
              rw [← hsplit]; exact hinv.held
            have hh : (st.outText ++ st.pending.flatten) ++ p = a ++ s' ++ b := by
              rw [← hab, hgt, hfl]; simp [List.append_assoc]
            obtain ⟨z, hz1, hz2⟩ := occurrence_in_pending hsmem hno hheld hh
            have hz2' : (st.pending ++ [p]).flatten = z ++ s' ++ b := by simpa using hz2
            have := hmin' z b hz2'
            rw [← halen, hz1, List.length_append, ← hfl]
            omega
          have hidxeq : idxg = fl.flatten.length + idx := by omega
          have houtlen : (stepPiece pinned stops st p).outText.length = fl.flatten.length + idx := by
            rw [houtg, List.length_take, ← hidxeq]
            have := congrArg List.length hab
            simp only [List.length_append] at this
            omega
          -- the arithmetic of the code
          have hlen : (st.pending ++ [p]).length ≤ (promptLen + st.numPredicted) + 1 := by
            simp only [List.length_append, List.length_cons, List.length_nil]; omega
          obtain ⟨_, _, hck, _, _⟩ := cacheKeep_spec (st.pending ++ [p]) s' (promptLen + st.numPredicted) idx
            (hok s' hsmem).1 hidx' hlen
          have hpne' : ∀ q ∈ st.pending ++ [p], q ≠ [] := by
            intro q hq
            rcases List.mem_append.mp hq with hq | hq
            · exact hgne q (by rw [hgen]; exact List.mem_append_right _ hq)
            · simp at hq; subst hq; exact hpne
          have htr : truncateStop (st.pending ++ [p]) s' =
              splitBack ((st.pending ++ [p]).map List.length) ((st.pending ++ [p]).flatten.take idx) := by
            unfold truncateStop; simp only [hidx']
          have hw := (splitBack_whole (st.pending ++ [p]) ((st.pending ++ [p]).flatten.take idx) hpne').2
          rw [← htr] at hw
          have htl : ((st.pending ++ [p]).flatten.take idx).length = idx := by
            rw [List.length_take]
            have := congrArg List.length hab'
            simp only [List.length_append] at this
            omega
          rw [htl] at hw
          rw [hgen', houtlen, wholeTokens_append, ← hw, ← h, hck]
          simp only [List.length_append, List.length_cons, List.length_nil] at *
          push_cast
          omega
        · -- held back: the run goes on
          have hcause : (stepPiece pinned stops st p).cause = none := by rw [hst]; exact hinv.cause
          have hd : (stepPiece pinned stops st p).done = none := by rw [hst]; exact hinv.done
          have hd' : (stepPiece pinned stops st p).done.isSome = false := by rw [hd]; rfl
          rw [hcause] at h
          simp only [hd, Option.isSome_none, Bool.false_eq_true, if_false] at h hc ⊢
          have hgt : (stepPiece pinned stops st p).genText = st.genText ++ p := stepPiece_genText pinned stops st p
          refine ih _ (hcontInv hd') ⟨fl, ?_, ?_, ?_⟩ ?_ (fun q hq => hsne q (List.mem_cons_of_mem _ hq)) ?_ n s h hc
          · rw [hst]; show st.gen ++ [p] = fl ++ (st.pending ++ [p]); rw [hgen, List.append_assoc]
          · rw [hst]; exact hfl
          · rw [hst]; show fl.length + (st.pending ++ [p]).length = st.numPredicted + 1
            simp only [List.length_append, List.length_cons, List.length_nil]; omega
          · rw [hst]; intro q hq
            have hq' : q ∈ st.gen ++ [p] := hq
            rcases List.mem_append.mp hq' with hq' | hq'
            · exact hgne q hq'
            · simp at hq'; subst hq'; exact hpne
          · rw [hgt]
            have : st.genText ++ scriptText (Ev.piece p :: rest) = (st.genText ++ p) ++ scriptText rest := by
              simp [scriptText, scriptPieces, List.append_assoc]
            rw [← this]; exact hvp
        · -- flushed: the run goes on
          have hcause : (stepPiece pinned stops st p).cause = none := by rw [hst, flush_cause]; exact hinv.cause
          have hd : (stepPiece pinned stops st p).done = none := by rw [hst, flush_done]; exact hinv.done
          have hd' : (stepPiece pinned stops st p).done.isSome = false := by rw [hd]; rfl
          rw [hcause] at h
          simp only [hd, Option.isSome_none, Bool.false_eq_true, if_false] at h hc ⊢
          have hgt : (stepPiece pinned stops st p).genText = st.genText ++ p := stepPiece_genText pinned stops st p
          have hinv' := hcontInv hd'
          have hgen2 : (stepPiece pinned stops st p).gen = fl ++ (st.pending ++ [p]) := by
            rw [hst, flush_gen]; show st.gen ++ [p] = _; rw [hgen, List.append_assoc]
          have hpend2 : (stepPiece pinned stops st p).pending = [] := by rw [hst, flush_pending]
          refine ih _ hinv' ⟨fl ++ (st.pending ++ [p]), ?_, ?_, ?_⟩ ?_ (fun q hq => hsne q (List.mem_cons_of_mem _ hq)) ?_ n s h hc
          · rw [hgen2, hpend2, List.append_nil]
          · have := hinv'.split
            rw [hpend2] at this
            simp only [List.flatten_nil, List.append_nil] at this
            rw [← this]
            show _ = (stepPiece pinned stops st p).gen.flatten
            rw [hgen2]
          · rw [hpend2, hst, flush_np]
            show (fl ++ (st.pending ++ [p])).length + 0 = st.numPredicted + 1
            simp only [List.length_append, List.length_cons, List.length_nil]; omega
          · rw [hgen2]; intro q hq
            rcases List.mem_append.mp hq with hq | hq
            · exact hgne q (by rw [hgen]; exact List.mem_append_left _ hq)
            · rcases List.mem_append.mp hq with hq | hq
              · exact hgne q (by rw [hgen]; exact List.mem_append_right _ hq)
              · simp at hq; subst hq; exact hpne
          · rw [hgt]
            have : st.genText ++ scriptText (Ev.piece p :: rest) = (st.genText ++ p) ++ scriptText rest := by
              simp [scriptText, scriptPieces, List.append_assoc]
            rw [← this]; exact hvp

/-- `cache_is_streamed_tokens` from the start of a request (`run … init`) -/
theorem cache_at_stop_is_streamed_tokens (pinned : Bool) (limit : Int) (stops : List Bytes) (promptLen : Nat)
    (hok : StopsOk stops) (evs : List Ev) (hne : ∀ q, Ev.piece q ∈ evs → q ≠ [])
    (hvp : ValidPrefix (scriptText evs)) (n : Int) (s : Bytes)
    (h : cacheLenRun pinned limit stops promptLen init evs = some n)
    (hc : (run pinned limit stops init evs).cause = some (.stopString s)) :
    n = (promptLen : Int) + wholeTokens (run pinned limit stops init evs).gen
          (run pinned limit stops init evs).outText.length :=
  cache_is_streamed_tokens pinned limit stops promptLen hok evs init (inv_init stops hok)
    ⟨[], rfl, rfl, rfl⟩ (by intro q hq; cases hq) hne (by simpa [init, St.genText] using hvp) n s h hc

/-- non-vacuity: prompt of 3 inputs, pieces `"a" "b<" "|x"`, stop `"<|"`: the streamed text is `"ab"` (2 bytes), one token
    (`a`) lies entirely within it, the cache holds 3 + 1 inputs -/
example :
    let evs := [Ev.piece [0x61], Ev.piece [0x62, 0x3c], Ev.piece [0x7c, 0x78]]
    let f := run false 0 [[0x3c, 0x7c]] init evs
    f.cause = some (.stopString [0x3c, 0x7c]) ∧ f.outText = [0x61, 0x62] ∧ wholeTokens f.gen f.outText.length = 1 ∧
    cacheLenRun false 0 [[0x3c, 0x7c]] 3 init evs = some 4 ∧ validUtf8 (scriptText evs) = true := by decide

/-! ### 5c-6. stop strings of ARBITRARY bytes (non-empty; not necessarily valid UTF-8) -/

/-- **A stop of any bytes ended the run** ⇒ reason stop, and the streamed text is the longest valid-UTF-8 prefix of the
    generated text before that stop's first occurrence (a stop that begins inside a character leaves that character's
    first bytes behind, which `flushPending` drops); on the repaired code that occurrence is the earliest of all stops. -/
theorem stop_found_any (pinned : Bool) (limit : Int) (stops : List Bytes) (evs : List Ev) (hne : StopsNe stops)
    (s : Bytes) :
    let f := run pinned limit stops init evs
    ValidPrefix f.genText → f.cause = some (.stopString s) →
      f.done = some .stop ∧ s ∈ stops ∧
      (∃ idx, indexOf s f.genText = some idx ∧ f.outText = trimValid (f.genText.take idx) ∧
        (pinned = false → ∀ t ∈ stops, ∀ j, indexOf t f.genText = some j → idx ≤ j)) ∧
      (∀ t ∈ stops, ¬ Occurs t f.gen.dropLast.flatten) := by
  intro f hvp hc
  have := run_mainG pinned hne limit evs hvp
  unfold PostG at this
  rw [hc] at this
  exact ⟨this.1, this.2.1, this.2.2.2.1, this.2.2.2.2.1⟩

/-- no stop of any bytes ended the run ⇒ none occurs in the generated text, and at EOS / limit everything generated
    (minus a trailing incomplete character) is streamed -/
theorem ends_at_eos_or_limit_any (pinned : Bool) (limit : Int) (stops : List Bytes) (evs : List Ev) (hne : StopsNe stops) :
    let f := run pinned limit stops init evs
    ValidPrefix f.genText → (∀ s, f.cause ≠ some (.stopString s)) →
      (∀ t ∈ stops, ¬ Occurs t f.genText) ∧
      ((f.cause = some .eos ∨ f.cause = some .limit) → f.outText = trimValid f.genText) ∧
      (f.cause = none → f.outText ++ f.pending.flatten = f.genText) := by
  intro f hvp hc
  have := run_mainG pinned hne limit evs hvp
  unfold PostG at this
  cases hcause : f.cause with
  | none =>
    rw [hcause] at this
    exact ⟨this.noOcc, by simp, fun _ => this.split.symm⟩
  | some c =>
    cases c with
    | stopString s => exact absurd hcause (hc s)
    | eos => rw [hcause] at this; exact ⟨this.2.2.1, fun _ => this.2.1, by simp⟩
    | limit => rw [hcause] at this; exact ⟨this.2.2.1, fun _ => this.2.1, by simp⟩

/-- **The property for stop lists of arbitrary non-empty byte strings** (repaired `FindStop`): the streamed text contains
    no stop; if some stop occurs in the generated text the reason is stop and the streamed text is the valid part of the
    text before the EARLIEST first occurrence of a stop; otherwise the run ends at EOS / limit with everything streamed or is
    still running with nothing lost.  With `empty_stop_streams_nothing` (a list containing `""`) this covers every stop list. -/
theorem c14_any_stops (limit : Int) (stops : List Bytes) (evs : List Ev) (hne : StopsNe stops)
    (hscript : ValidPrefix (scriptText evs)) :
    let f := run false limit stops init evs
    (∀ t ∈ stops, ¬ Occurs t f.outText) ∧
    ((∃ t ∈ stops, Occurs t f.genText) →
      f.done = some .stop ∧ ∃ s ∈ stops, ∃ idx, indexOf s f.genText = some idx ∧
        (∀ t ∈ stops, ∀ j, indexOf t f.genText = some j → idx ≤ j) ∧ f.outText = trimValid (f.genText.take idx)) ∧
    ((∀ t ∈ stops, ¬ Occurs t f.genText) →
      ((f.cause = some .eos ∨ f.cause = some .limit) ∧ f.outText = trimValid f.genText) ∨
      (f.cause = none ∧ f.outText ++ f.pending.flatten = f.genText)) := by
  intro f
  have hvp : ValidPrefix f.genText := by
    obtain ⟨y, hy⟩ := genText_prefix_script false limit stops evs
    rw [← hy] at hscript; exact hscript.left
  have hcases : (∃ s, f.cause = some (.stopString s)) ∨ (∀ s, f.cause ≠ some (.stopString s)) := by
    by_cases h : ∃ s, f.cause = some (.stopString s)
    · exact Or.inl h
    · exact Or.inr (fun s hs => h ⟨s, hs⟩)
  refine ⟨?_, ?_, ?_⟩
  · intro t ht hocc
    rcases hcases with ⟨s, hcs⟩ | hns
    · obtain ⟨_, _, ⟨idx, hidx, hout, hmin⟩, _⟩ := stop_found_any false limit stops evs hne s hvp hcs
      obtain ⟨y, hy⟩ := trimValid_prefix (f.genText.take idx)
      have hocc' : Occurs t (f.genText.take idx) := by
        rw [← hy, ← hout]; exact hocc.append_right y
      obtain ⟨a, b, hab⟩ := hocc'
      have hgen : f.genText = a ++ t ++ (b ++ f.genText.drop idx) := by
        have h0 : f.genText = f.genText.take idx ++ f.genText.drop idx := (List.take_append_drop idx f.genText).symm
        rw [hab, List.append_assoc] at h0
        exact h0
      have hOcc : Occurs t f.genText := ⟨a, _, hgen⟩
      obtain ⟨j, hj⟩ := hOcc.indexOf
      have hjle := (indexOf_spec t _ j hj).2 a _ hgen
      have hij : idx ≤ j := hmin rfl t ht j hj
      have hlen := congrArg List.length hab
      rw [List.length_take] at hlen
      simp only [List.length_append] at hlen
      have htne : t.length ≠ 0 := fun h0 => hne t ht (List.eq_nil_of_length_eq_zero h0)
      omega
    · obtain ⟨hno, _, _⟩ := ends_at_eos_or_limit_any false limit stops evs hne hvp hns
      apply hno t ht
      obtain ⟨y, hy⟩ := (prefix_valid false limit stops evs hvp).1
      rw [← hy]; exact hocc.append_right y
  · intro ⟨t, ht, hocc⟩
    rcases hcases with ⟨s, hcs⟩ | hns
    · obtain ⟨hd, hmem, ⟨idx, hidx, hout, hmin⟩, _⟩ := stop_found_any false limit stops evs hne s hvp hcs
      exact ⟨hd, s, hmem, idx, hidx, hmin rfl, hout⟩
    · exact absurd hocc ((ends_at_eos_or_limit_any false limit stops evs hne hvp hns).1 t ht)
  · intro hno
    have hns : ∀ s, f.cause ≠ some (.stopString s) := by
      intro s hcs
      obtain ⟨_, hmem, ⟨idx, hidx, _, _⟩, _⟩ := stop_found_any false limit stops evs hne s hvp hcs
      exact hno s hmem (occurs_of_indexOf hidx)
    obtain ⟨_, htrim, hrun⟩ := ends_at_eos_or_limit_any false limit stops evs hne hvp hns
    cases hcause : f.cause with
    | none => exact Or.inr ⟨rfl, hrun hcause⟩
    | some c =>
      cases c with
      | stopString s => exact absurd hcause (hns s)
      | eos => exact Or.inl ⟨Or.inl rfl, htrim (Or.inl hcause)⟩
      | limit => exact Or.inl ⟨Or.inr rfl, htrim (Or.inr hcause)⟩

/-- non-vacuity: the stop `"\x82\xac"` (two continuation bytes: not valid UTF-8) occurs inside `€`: pieces `"a€"`, `"b"`:
    the run ends with reason stop, the text before the stop is `"a\xe2"`, its valid part `"a"` is what is streamed -/
example :
    let stops : List Bytes := [[0x82, 0xac]]
    let evs := [Ev.piece [0x61, 0xe2, 0x82, 0xac], Ev.piece [0x62], Ev.eos]
    let f := run false 0 stops init evs
    validUtf8 [0x82, 0xac] = false ∧ validUtf8 (scriptText evs) = true ∧
    f.cause = some (.stopString [0x82, 0xac]) ∧ f.out = [[0x61]] ∧ indexOf [0x82, 0xac] f.genText = some 2 ∧
    trimValid (f.genText.take 2) = [0x61] := by decide

/-! ### 5d. one level up: the `completion` HTTP handler and the client -/

/-- **What the client receives.**  For the handler's lines of any finished or cancelled run: the
    concatenation of the `content` fields is the streamed text `f.outText`, the `done_reason` of the
    final object is the sequence's reason, and therefore (reason_map) it is `length` exactly when the
    prediction limit ended generation and `stop` exactly when EOS or a stop string did — in
    particular when EOS or the token completing a stop string is the last token the limit permits. -/
theorem client_receives (pinned : Bool) (limit : Int) (stops : List Bytes) (evs : List Ev) (promptLen : Nat) :
    let f := run pinned limit stops init evs
    let ls := handlerLines promptLen f
    clientText ls = f.outText ∧
    (clientReason ls = some .length ↔ f.cause = some .limit) ∧
    (clientReason ls = some .stop ↔ (f.cause = some .eos ∨ ∃ s, f.cause = some (.stopString s))) ∧
    (clientReason ls = none ↔ f.cause = none) := by
  intro f ls
  obtain ⟨h1, h2⟩ := client_view promptLen f
  obtain ⟨ha, hb, hc⟩ := reason_map pinned limit stops evs
  refine ⟨h1, ?_, ?_, ?_⟩
  · rw [show clientReason ls = f.done from h2]; exact ha
  · rw [show clientReason ls = f.done from h2]; exact hb
  · rw [show clientReason ls = f.done from h2]; exact hc

/-- **EOS on the last permitted token is reported as "stop".**  If the script is `ps` pieces followed
    by EOS, the limit is unlimited or at least `ps.length + 1` (so EOS may be exactly token number
    `limit`), and no stop string ended the run earlier, then EOS ended it and the client reads `stop`. -/
theorem eos_on_last_permitted_token (pinned : Bool) (limit : Int) (stops : List Bytes)
    (ps : List Bytes) (rest : List Ev) (promptLen : Nat)
    (hl : limit ≤ 0 ∨ (ps.length : Int) < limit) :
    let f := run pinned limit stops init (ps.map Ev.piece ++ Ev.eos :: rest)
    (∀ s, f.cause ≠ some (.stopString s)) →
      f.cause = some .eos ∧ clientReason (handlerLines promptLen f) = some .stop := by
  intro f hns
  have hcs := cause_spec pinned limit stops (ps.map Ev.piece ++ Ev.eos :: rest)
  have hpre : f.gen.map Ev.piece <+: ps.map Ev.piece ++ Ev.eos :: rest := hcs.1
  have hlim : f.cause = some .limit → limit > 0 ∧ (f.gen.length : Int) = limit ∧ f.numPredicted = f.gen.length :=
    hcs.2.2.1
  have hnone : f.cause = none → f.gen.length = (ps.map Ev.piece ++ Ev.eos :: rest).length ∧
      ¬ (limit > 0 ∧ (f.gen.length : Int) ≥ limit) := hcs.2.2.2.1
  have hkey : ∀ (g : List Bytes), g.map Ev.piece <+: ps.map Ev.piece ++ Ev.eos :: rest → g.length ≤ ps.length := by
    intro g hg
    by_cases hlen : g.length ≤ ps.length
    · exact hlen
    · exfalso
      have hi : ps.length < (g.map Ev.piece).length := by simp; omega
      have h1 := List.IsPrefix.getElem hg hi
      simp [List.getElem_append_right] at h1
  have hcause : f.cause = some .eos := by
    cases hc : f.cause with
    | none =>
      have := (hnone hc).1
      have h2 := hkey f.gen hpre
      simp at this; omega
    | some c =>
      cases c with
      | eos => rfl
      | stopString s => exact absurd hc (hns s)
      | limit =>
        obtain ⟨hpos, heq, _⟩ := hlim hc
        have h2 := hkey f.gen hpre
        rcases hl with h | h <;> omega
  refine ⟨hcause, ?_⟩
  rw [(client_view promptLen f).2]
  exact ((reason_map pinned limit stops _).2.1).mpr (Or.inl hcause)

/-- the boundary situation exists: limit 2, EOS is token 2 → cause EOS, final object says `stop`,
    `eval_count = 2`; with limit 1 the limit ends it first → `length` -/
example :
    handlerLines 3 (run false 2 [] init [Ev.piece [0x61], Ev.eos]) =
      [Line.content [0x61], Line.final .stop 3 2] ∧
    handlerLines 3 (run false 1 [] init [Ev.piece [0x61], Ev.eos]) =
      [Line.content [0x61], Line.final .length 3 1] := by decide

/-! ### 6. witnesses of the defects the model shares with the code -/


/-- **F7** (`FindStop` takes the first *listed* stop, not the earliest occurrence): one token
    `"}\n\n"` with stops `["\n\n", "}"]` streams `"}"`, which contains the stop `"}"`; with the
    stops listed the other way round — or with the repaired `FindStop` (`pinned = false`) —
    nothing is streamed.  The guard of
    `no_stop_in_output_partial` is false exactly here. -/
theorem F7_first_listed_not_earliest :
    let evs := [Ev.piece [0x7d, 0x0a, 0x0a], Ev.eos]
    (run true 0 [[0x0a, 0x0a], [0x7d]] init evs).out = [[0x7d]] ∧
    (run true 0 [[0x0a, 0x0a], [0x7d]] init evs).done = some .stop ∧
    contains (run true 0 [[0x0a, 0x0a], [0x7d]] init evs).outText [0x7d] = true ∧
    firstListedIsEarliest [[0x0a, 0x0a], [0x7d]] [0x7d, 0x0a, 0x0a] = false ∧
    (run true 0 [[0x7d], [0x0a, 0x0a]] init evs).out = [] ∧
    (run false 0 [[0x0a, 0x0a], [0x7d]] init evs).out = [] := by decide

/-- **F20a** (invalid bytes are dropped mid-stream): pieces `"a" "\xff" "b"` with stop `"ab"`
    stream `"a"` then `"b"`: the output `"ab"` is not a prefix of the generated `"a\xffb"` and it
    *is* the stop string.  (The generated text is not valid UTF-8, so the valid-text clauses do not
    apply; the unconditional "prefix of the generated text" clause of the property is violated.) -/
theorem F20_invalid_bytes_dropped :
    let f := run true 0 [[0x61, 0x62]] init [Ev.piece [0x61], Ev.piece [0xff], Ev.piece [0x62], Ev.eos]
    f.out = [[0x61], [0x62]] ∧ f.genText = [0x61, 0xff, 0x62] ∧
    f.outText.isPrefixOf f.genText = false ∧ contains f.outText [0x61, 0x62] = true := by decide

/-- **F20b** (two reason values for three causes): an EOS-terminated run and a
    stop-string-terminated run report the same reason. -/
theorem F20_reason_not_injective :
    let f1 := run true 0 [[0x78]] init [Ev.piece [0x61], Ev.eos]
    let f2 := run true 0 [[0x78]] init [Ev.piece [0x61], Ev.piece [0x78]]
    f1.cause = some .eos ∧ f2.cause = some (.stopString [0x78]) ∧ f1.done = f2.done := by decide

/-! ### 7. non-vacuity: the hypotheses are met by non-trivial concrete runs -/

/-- a multi-byte character split across tokens, a stop split across tokens, two stops, a limit:
    `"a\xe2" "\x82\xac<" "|x"` with stops `["<|", "zz"]`, limit 5 -/
example :
    let stops : List Bytes := [[0x3c, 0x7c], [0x7a, 0x7a]]
    let evs := [Ev.piece [0x61, 0xe2], Ev.piece [0x82, 0xac, 0x3c], Ev.piece [0x7c, 0x78], Ev.eos]
    let f := run true 5 stops init evs
    (∀ t ∈ stops, t ≠ [] ∧ validUtf8 t = true) ∧ validUtf8 f.genText = true ∧
    f.cause = some (.stopString [0x3c, 0x7c]) ∧ f.out = [[0x61, 0xe2, 0x82, 0xac]] ∧
    firstListedIsEarliest stops f.genText = true := by decide

/-- the limit cuts generation inside a character: the text is a `ValidPrefix`, not valid -/
example :
    let f := run true 2 [] init [Ev.piece [0x61], Ev.piece [0xe2, 0x82], Ev.piece [0xac]]
    validUtf8 (f.genText ++ [0xac]) = true ∧ validUtf8 f.genText = false ∧
    f.cause = some .limit ∧ f.out = [[0x61]] := by decide

end OllamaVerif.C14
