/-
  C10 — Untrusted model files produce an error, never a crash or runaway allocation.

  The decoder model (`Model/Gguf.lean: decode`) is a total function: termination on every
  byte string holds by construction (structural recursion; Lean accepted the definitions).
  Outcomes include every Go panic site (`Err.panic`) and every allocation sized by an
  unchecked input field that exceeds the budget (`Err.alloc`).

  * `decode_safe_all`   (Proofs/GgufSafe.lean): with all ten guards the decoder is safe for EVERY input.
  * `decode_safe_partial`: the pinned decoder is safe on every input on which it agrees with the
    hardened one (explicit decidable guard).
  * ten witnesses: for each guard a concrete file (< 70 bytes) on which the pinned decoder model
    panics / over-allocates / returns an end offset before its start; the same files are the
    corpus replayed against the real decoder by the check (KNOWN_FINDINGS F11a..F11j).
-/
import OllamaVerif.Proofs.GgufSafe
import OllamaVerif.Proofs.GgufCreate
import OllamaVerif.Proofs.GgufSteps
import OllamaVerif.Proofs.GgufWeight
import OllamaVerif.Proofs.GgufApi
import OllamaVerif.Proofs.GgufBytes

namespace OllamaVerif.C10
open OllamaVerif OllamaVerif.Gguf

/-- Full-strength statement for the hardened decoder: for every byte string, every
    `maxArraySize`, every per-allocation budget of at least ONE byte per input byte (tightened in round 7 from 16: with
    the validations on, every size the decoder still allocates in one piece is bounded by the input that is left). -/
theorem decode_safe_hardened (bs : Bytes) (maxArraySize : Int) (B : Nat) (hB : bs.length ≤ B) :
    Safe (decode bs maxArraySize (some B) Guards.all) :=
  decode_safe_all bs maxArraySize B hB

/-- **The property for the working tree's decoder** (`Guards.tree`, the variant the L1
    correspondence checks against /repo on every run): for every byte string the decoder model
    ends in `ok` or an error that is neither a panic nor an over-budget allocation.
    Termination for every input holds by construction (total structural recursion). -/
theorem decode_safe_tree (bs : Bytes) (maxArraySize : Int) (B : Nat) (hB : bs.length ≤ B) :
    Safe (decode bs maxArraySize (some B)) :=
  decode_safe_all bs maxArraySize B hB

/-- Partial statement for the pinned decoder: safe wherever it agrees with the hardened one. -/
theorem decode_safe_partial (bs : Bytes) (maxArraySize : Int) (B : Nat) (hB : bs.length ≤ B)
    (hagree : decode bs maxArraySize (some B) Guards.pinned = decode bs maxArraySize (some B) Guards.all) :
    Safe (decode bs maxArraySize (some B) Guards.pinned) := by
  rw [hagree]; exact decode_safe_all bs maxArraySize B hB

/-! ### witnesses (the crafted corpus of harness/overlay/fs_ggml/zz_verif_c10_test.go) -/

def budget : Nat := 1048576 + 64 * 64

/-- outcome test usable with `decide` -/
def failsWith (x : Except Err Decoded) (e : Err) : Bool :=
  match x with
  | .error e' => e' == e
  | .ok _ => false

def wAlignZero : Bytes := [71, 71, 85, 70, 3, 0, 0, 0, 0, 0, 0, 0, 0, 0, 0, 0, 1, 0, 0, 0, 0, 0, 0, 0, 17, 0, 0, 0, 0, 0, 0, 0, 103, 101, 110, 101, 114, 97, 108, 46, 97, 108, 105, 103, 110, 109, 101, 110, 116, 4, 0, 0, 0, 0, 0, 0, 0]
def wAlignType : Bytes := [71, 71, 85, 70, 3, 0, 0, 0, 0, 0, 0, 0, 0, 0, 0, 0, 1, 0, 0, 0, 0, 0, 0, 0, 17, 0, 0, 0, 0, 0, 0, 0, 103, 101, 110, 101, 114, 97, 108, 46, 97, 108, 105, 103, 110, 109, 101, 110, 116, 8, 0, 0, 0, 1, 0, 0, 0, 0, 0, 0, 0, 120]
def wStrNeg : Bytes := [71, 71, 85, 70, 3, 0, 0, 0, 0, 0, 0, 0, 0, 0, 0, 0, 1, 0, 0, 0, 0, 0, 0, 0, 0, 0, 0, 0, 0, 0, 0, 128]
def wStrHuge : Bytes := [71, 71, 85, 70, 3, 0, 0, 0, 0, 0, 0, 0, 0, 0, 0, 0, 1, 0, 0, 0, 0, 0, 0, 0, 0, 0, 0, 0, 0, 1, 0, 0]
def wArrNeg : Bytes := [71, 71, 85, 70, 3, 0, 0, 0, 0, 0, 0, 0, 0, 0, 0, 0, 1, 0, 0, 0, 0, 0, 0, 0, 1, 0, 0, 0, 0, 0, 0, 0, 97, 9, 0, 0, 0, 4, 0, 0, 0, 0, 0, 0, 0, 0, 0, 0, 128]
def wDims : Bytes := [71, 71, 85, 70, 3, 0, 0, 0, 1, 0, 0, 0, 0, 0, 0, 0, 0, 0, 0, 0, 0, 0, 0, 0, 1, 0, 0, 0, 0, 0, 0, 0, 116, 255, 255, 255, 255]
def wV1Str : Bytes := [71, 71, 85, 70, 1, 0, 0, 0, 0, 0, 0, 0, 1, 0, 0, 0, 0, 0, 0, 0, 0, 0, 0, 0]
def wV1Arr : Bytes := [71, 71, 85, 70, 1, 0, 0, 0, 0, 0, 0, 0, 1, 0, 0, 0, 2, 0, 0, 0, 0, 0, 0, 0, 97, 0, 9, 0, 0, 0, 4, 0, 0, 0, 1, 0, 0, 0, 7, 0, 0, 0]
def wNegSeek : Bytes := [71, 71, 85, 70, 3, 0, 0, 0, 1, 0, 0, 0, 0, 0, 0, 0, 0, 0, 0, 0, 0, 0, 0, 0, 1, 0, 0, 0, 0, 0, 0, 0, 116, 1, 0, 0, 0, 240, 255, 255, 255, 255, 255, 255, 63, 0, 0, 0, 0, 0, 0, 0, 0, 0, 0, 0, 0]

theorem witness_alignment_zero :
    failsWith (decode wAlignZero 0 (some budget) Guards.pinned) (.panic "alignment-zero") = true := by decide
theorem witness_alignment_type :
    failsWith (decode wAlignType 0 (some budget) Guards.pinned) (.panic "alignment-type") = true := by decide
theorem witness_string_negative :
    failsWith (decode wStrNeg 0 (some budget) Guards.pinned) (.panic "string-slice-negative") = true := by decide
theorem witness_string_huge :
    failsWith (decode wStrHuge 0 (some budget) Guards.pinned) (.alloc "string" 1099511627776) = true := by decide
theorem witness_array_negative :
    failsWith (decode wArrNeg 0 (some budget) Guards.pinned) (.panic "array-make-negative") = true := by decide
theorem witness_dims_huge :
    failsWith (decode wDims 0 (some budget) Guards.pinned) (.alloc "shape" 34359738360) = true := by decide
theorem witness_v1_string_zero :
    failsWith (decode wV1Str 0 (some budget) Guards.pinned) (.panic "v1-string-truncate") = true := by decide
theorem witness_v1_array_index :
    failsWith (decode wV1Arr 0 (some budget) Guards.pinned) (.panic "v1-array-index") = true := by decide
/-- the decoder "succeeds" on a 57-byte file and reports an end offset of 0: a caller that loops
    `for offset < size { _, n := Decode(..); offset = n }` (server/create.go ggufLayers) never advances -/
theorem witness_end_before_start :
    (decode wNegSeek 0 (some budget) Guards.pinned).toOption.map (·.endOffset) = some 0 := by decide

/-- non-vacuity of `decode_safe_partial`: a well-formed file meets its hypotheses -/
def wGood : Bytes := [71, 71, 85, 70, 3, 0, 0, 0, 0, 0, 0, 0, 0, 0, 0, 0, 0, 0, 0, 0, 0, 0, 0, 0]
example : wGood.length ≤ budget ∧
    decode wGood 0 (some budget) Guards.pinned = decode wGood 0 (some budget) Guards.all ∧
    (decode wGood 0 (some budget)).isOk = true := ⟨by decide, by rfl, by decide⟩

/-! ### running time and result size as functions of the input length (Proofs/GgufSteps.lean, GgufWeight.lean)

  Lean's termination checker accepts `decode` because its loops recurse structurally on a count — but the count
  is READ FROM THE FILE (up to 2^64).  `decodeFromT` is `decodeFrom` with an iteration counter on every loop. -/

/-- **The decoder is total, fast and frugal on EVERY byte string**: with the working tree's validations, every
    `maxArraySize` and a per-allocation budget of one byte per input byte,
    * the instrumented decoder is the decoder (the counter is an annotation),
    * it executes at most `len + 1` loop iterations (array elements, key/values, dimensions, tensor infos, seeks),
      whatever counts the file declares,
    * it ends in a value or an error that is neither a panic nor an allocation above the budget,
    * a returned value retains at most `len + 24` bytes / cells (keys, strings, array cells, names, dimensions;
      24 = the `general.parameter_count` entry the decoder adds), i.e. at most `128·len + 3072` BYTES of Go memory with the
      sizes of string headers, interface words, boxed scalars, map slots and tensor structs made explicit
      (`Decoded.goBytes`, Proofs/GgufBytes.lean). -/
theorem decode_total_tree (bs : Bytes) (maxArraySize : Int) (B : Nat) (hB : bs.length ≤ B) :
    (decodeFromT ⟨bs, 0⟩ maxArraySize (some B) Guards.tree).1 = decode bs maxArraySize (some B) ∧
    (decodeFromT ⟨bs, 0⟩ maxArraySize (some B) Guards.tree).2 ≤ bs.length + 1 ∧
    Safe (decode bs maxArraySize (some B)) ∧
    ∀ d, decode bs maxArraySize (some B) = .ok d → d.weight ≤ bs.length + 24 ∧ d.goBytes ≤ 128 * bs.length + 3072 :=
  ⟨decodeFromT_fst _ _ _ _, decodeFromT_steps _ _ _ _, decode_safe_all bs maxArraySize B hB,
   fun d h => ⟨decodeFrom_weight ⟨bs, 0⟩ maxArraySize (some B) Guards.tree d h,
               decodeFrom_goBytes ⟨bs, 0⟩ maxArraySize (some B) Guards.tree d h⟩⟩

/-- the allocation half of `Safe` is not empty: the SAME 32-byte file (a key length of 2^40) makes upstream's decoder ask for
    1 TiB in one piece under any budget below that, and is answered with io.EOF by the tree under a budget of 0 -/
theorem alloc_clause_bites :
    failsWith (decode wStrHuge 0 (some 1099511627775) Guards.pinned) (.alloc "string" 1099511627776) = true ∧
    failsWith (decode wStrHuge 0 (some 0)) .eof = true := by decide

/-- **Progress** (restated from Proofs/GgufCreate.lean; the L2 monitor `end-not-after-start` is its run-time twin): a decode
    that succeeds from file position `p` ends at least 4 bytes later — what makes create's `for offset < size` loop advance —
    for every decoder variant that rejects tensor sizes ≥ 2^63. -/
theorem decode_progress (r : Rd) (maxArraySize : Int) (budget : Option Nat) (d : Decoded)
    (h : decodeFrom r maxArraySize budget Guards.tree = .ok d) : r.pos + 4 ≤ d.endOffset :=
  decodeFrom_progress r maxArraySize budget Guards.tree rfl d h

/-- the two bounds do not depend on the validations: upstream's pinned decoder, when it does not panic, is as fast
    and as frugal (its defects are the panics, the single huge `make`s and create's loop, not its own loops) -/
theorem decode_steps_any_guards (r : Rd) (maxArraySize : Int) (budget : Option Nat) (g : Guards) :
    (decodeFromT r maxArraySize budget g).1 = decodeFrom r maxArraySize budget g ∧
    (decodeFromT r maxArraySize budget g).2 ≤ r.rest.length + 1 ∧
    ∀ d, decodeFrom r maxArraySize budget g = .ok d → d.weight ≤ r.rest.length + 24 :=
  ⟨decodeFromT_fst _ _ _ _, decodeFromT_steps _ _ _ _, fun d h => decodeFrom_weight r maxArraySize budget g d h⟩

/-- non-vacuity: one key `a` = `[]uint32{1, 2}`: 1 key/value iteration + 2 element iterations; weight = key 1 + array
    1 + 2 cells, + the parameter count's 24 -/
def wArr2 : Bytes := [71, 71, 85, 70, 3, 0, 0, 0, 0, 0, 0, 0, 0, 0, 0, 0, 1, 0, 0, 0, 0, 0, 0, 0, 1, 0, 0, 0, 0, 0, 0, 0, 97,
  9, 0, 0, 0, 4, 0, 0, 0, 2, 0, 0, 0, 0, 0, 0, 0, 1, 0, 0, 0, 2, 0, 0, 0]
example : (decodeFromT ⟨wArr2, 0⟩ 0 (some budget)).2 = 3 ∧
    (decode wArr2 0 (some budget)).toOption.map (·.weight) = some 28 := by decide
/-- … and the same file declaring 2^40 elements: the loop stops after the two elements that are there (3rd iteration
    fails), not after 2^40 -/
def wArrMany : Bytes := [71, 71, 85, 70, 3, 0, 0, 0, 0, 0, 0, 0, 0, 0, 0, 0, 1, 0, 0, 0, 0, 0, 0, 0, 1, 0, 0, 0, 0, 0, 0, 0, 97,
  9, 0, 0, 0, 4, 0, 0, 0, 0, 0, 0, 0, 0, 1, 0, 0, 1, 0, 0, 0, 2, 0, 0, 0]
example : (decodeFromT ⟨wArrMany, 0⟩ 0 (some budget)).2 = 4 ∧
    failsWith (decode wArrMany 0 (some budget)) .eof = true := by decide

/-! ### `POST /api/create` on an uploaded file: `server/create.go ggufLayers`

  The handler decodes the upload model after model (`for offset < size { _, n := Decode(blob); offset = n }`).
  The model makes non-termination an explicit outcome (`none`). -/

/-- **create terminates on every upload** (working tree's decoder, every budget) -/
theorem create_terminates_tree (bs : Bytes) (budget : Option Nat) (maxSeek : Nat) :
    (ggufLayers bs budget Guards.tree maxSeek).isSome = true :=
  ggufLayers_terminates bs budget Guards.tree rfl maxSeek

/-- **create is safe on every upload**: no panic site, no allocation above the budget, however many
    models the upload holds and wherever it is cut -/
theorem create_safe_tree (bs : Bytes) (B : Nat) (hB : bs.length ≤ B) (maxSeek : Nat) :
    SafeL (ggufLayers bs (some B) Guards.tree maxSeek) :=
  ggufLayers_safe bs B hB maxSeek

/-- the layers create produces lie inside the upload -/
theorem create_layers_within (bs : Bytes) (budget : Option Nat) (maxSeek : Nat) (out : List GLayer)
    (h : ggufLayers bs budget Guards.tree maxSeek = some (.ok out)) : Within bs.length out :=
  ggufLayers_within bs budget Guards.tree maxSeek out h

/-- **The whole metadata side of create** (`ggufLayers` + every typed accessor `detectChatTemplate` and
    `createModel` call on the decoded key/values: ChatTemplate, Architecture, Kind, FileType, ParameterCount):
    terminates and is safe on every byte string; with type mismatches treated as missing keys the accessors
    never fail, so it is `ggufLayers`. -/
theorem create_upload_terminates_tree (bs : Bytes) (budget : Option Nat) (maxSeek : Nat) :
    (createUpload bs budget Guards.tree maxSeek).isSome = true := by
  rw [show Guards.tree = Guards.all from rfl, createUpload_eq_ggufLayers]
  exact ggufLayers_terminates bs budget Guards.all rfl maxSeek

theorem create_upload_safe_tree (bs : Bytes) (B : Nat) (hB : bs.length ≤ B) (maxSeek : Nat) :
    SafeL (createUpload bs (some B) Guards.tree maxSeek) := by
  rw [show Guards.tree = Guards.all from rfl, createUpload_eq_ggufLayers]
  exact ggufLayers_safe bs B hB maxSeek

/-- `general.architecture` stored as a uint32 in an otherwise well-formed 60-byte file -/
def wArchType : Bytes :=
  [71, 71, 85, 70, 3, 0, 0, 0, 0, 0, 0, 0, 0, 0, 0, 0, 1, 0, 0, 0, 0, 0, 0, 0, 20, 0, 0, 0, 0, 0, 0, 0] ++
  bytesOf "general.architecture" ++ [4, 0, 0, 0, 7, 0, 0, 0]

/-- **Witness (upstream's accessors)**: `keyValue[T]` asserts the stored type unchecked; on this file create's
    goroutine — outside the HTTP recovery middleware — panics and takes the server down (finding F11k; repaired by
    `fix: treat a metadata key stored with another type as missing`). -/
theorem witness_pinned_accessor_panics :
    (createUpload wArchType (some budget) { Guards.all with accessorType := false }).map
        (fun r => match r with | .error e => some e | .ok _ => none)
      = some (some (.panic "interface-conversion")) := by decide

/-- … the working tree's accessors take the default instead: one model layer -/
example : (createUpload wArchType (some budget)).map (fun r => r.toOption.map (fun ls => ls.map (fun l => (l.size, l.media))))
    = some (some [(60, 0)]) := by decide

/-! ### the other handlers that decode an installed (pulled, hence untrusted) model file: Model/GgufApi.lean -/

/-- **`POST /api/create {"from": m}`** (`server/model.go parseFromModel` decodes every model layer of the installed model,
    `createModel` reads the metadata through the typed accessors): for every list of blobs, no panic site and no
    allocation above the budget — the request ends in success or an error answer -/
theorem create_from_safe_tree (blobs : List Bytes) (B : Nat) (hB : ∀ b ∈ blobs, b.length ≤ B) (maxSeek : Nat) :
    Safe (createFrom blobs (some B) Guards.tree maxSeek) :=
  createFrom_safe blobs B hB maxSeek

/-- **`POST /api/show`** (`Model.Capabilities`: decode with the default array limit, failure tolerated, architecture-
    prefixed look-ups; `getModelData`: decode without array limit when verbose): safe on every blob -/
theorem show_safe_tree (blob : Bytes) (verbose : Bool) (B : Nat) (hB : blob.length ≤ B) (maxSeek : Nat) :
    Safe (showModel blob verbose (some B) Guards.tree maxSeek) :=
  showModel_safe blob verbose B hB maxSeek

/-- upstream's unchecked accessor takes the handler down on the 60-byte file of `witness_pinned_accessor_panics` in
    both handlers as well -/
theorem witness_pinned_from_and_show_panic :
    (match createFrom [wArchType] (some budget) { Guards.all with accessorType := false } with
      | .error e => some e | .ok _ => none) = some (.panic "interface-conversion") ∧
    (match showModel wArchType true (some budget) { Guards.all with accessorType := false } with
      | .error e => some e | .ok _ => none) = some (.panic "interface-conversion") := by decide

/-- non-vacuity: the working tree answers both requests on that file, and rejects a truncated one with an error -/
example : (createFrom [wArchType] (some budget)).isOk = true ∧ (showModel wArchType true (some budget)).isOk = true ∧
    (showModel (wArchType.take 40) true (some budget)).isOk = false := by decide

/-- a decode that starts at 0 and ends at 0 keeps the loop where it is: no fuel is ever enough -/
theorem loop_stuck (bs : Bytes) (budget : Option Nat) (g : Guards) (maxSeek : Nat) (d : Decoded) (m : Nat) (hpos : 0 < bs.length)
    (hd : decodeFrom ⟨bs, 0⟩ 0 budget g = .ok d) (hend : d.endOffset = 0) (hm : mediaType g d.kvs = .ok m) :
    ∀ (fuel : Nat) (acc : List GLayer), ggufLayersLoop bs budget g maxSeek fuel 0 acc = none := by
  intro fuel
  induction fuel with
  | zero => intro acc; unfold ggufLayersLoop; rw [if_pos hpos]
  | succ fuel ih =>
    intro acc
    unfold ggufLayersLoop
    rw [if_pos hpos, List.drop_zero, hd]
    simp only [hend]
    rw [if_neg (by omega), hm]
    exact ih _

/-- **Witness (pinned decoder)**: on the 57-byte file of `witness_end_before_start` upstream's
    create never answers: the decode "succeeds" with end offset 0 and the loop starts over, for ever
    (KNOWN_FINDINGS C10 F11j; repaired by `fix: reject GGUF tensors whose size does not fit an int64 offset`). -/
theorem witness_pinned_create_never_answers :
    ggufLayers wNegSeek (some budget) Guards.pinned = none := by
  have key : (decode wNegSeek 0 (some budget) Guards.pinned).toOption.map
      (fun d => (d.endOffset, (mediaType Guards.pinned d.kvs).toOption)) = some (0, some 0) := by decide
  unfold decode at key
  cases h : decodeFrom ⟨wNegSeek, 0⟩ 0 (some budget) Guards.pinned with
  | error e => rw [h] at key; cases key
  | ok d =>
    rw [h] at key
    simp only [Except.toOption, Option.map_some, Option.some.injEq, Prod.mk.injEq] at key
    obtain ⟨hend, hmo⟩ := key
    have hm : mediaType Guards.pinned d.kvs = .ok 0 := by
      cases hmt : mediaType Guards.pinned d.kvs with
      | error e => rw [hmt] at hmo; cases hmo
      | ok m => rw [hmt] at hmo; simp only [Except.toOption, Option.some.injEq] at hmo; rw [hmo]
    unfold ggufLayers
    simp only []
    rw [if_neg (by decide)]
    exact loop_stuck wNegSeek (some budget) Guards.pinned _ d 0 (by decide) h hend hm _ _

/-- … and the working tree's decoder rejects that file: create answers with an error -/
theorem tree_rejects_negative_seek_file :
    (ggufLayers wNegSeek (some budget)).map (fun r => match r with | .error e => some e | .ok _ => none)
    = some (some (.invalid "tensor size")) := by decide

/-- non-vacuity: two header-only models back to back give two layers of 24 bytes each, a trailing
    bare magic ends the loop quietly (clean EOF), a trailing partial magic is an error -/
example : (ggufLayers (wGood ++ wGood)).map (fun r => r.toOption.map (fun ls => ls.map (fun l => (l.start, l.size, l.whole))))
    = some (some [(0, 24, false), (24, 24, false)]) := by decide
example : (ggufLayers wGood).map (fun r => r.toOption.map (fun ls => ls.map (fun l => (l.start, l.size, l.whole))))
    = some (some [(0, 24, true)]) := by decide
example : (ggufLayers (wGood ++ [71, 71, 85, 70])).map (fun r => r.toOption.map (fun ls => ls.map (fun l => (l.start, l.size))))
    = some (some [(0, 24)]) := by decide
example : (ggufLayers (wGood ++ [71, 71, 85])).map (fun r => r.toOption.isSome) = some false := by decide

end OllamaVerif.C10
