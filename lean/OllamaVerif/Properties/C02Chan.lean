/-
  C01 / C02 / C11 over the BOUNDED model (`Model/SchedChan.lean`): channel capacities (all four channels have
  capacity OLLAMA_MAX_QUEUE), sends made while holding mutexes, and the order in which loadedMu / refMu are taken.

  1. Refinement: every step of the bounded model is a stutter (a goroutine parks inside its region) or a step of
     the base model (`stepB_refines`), hence every reachable bounded state projects to a reachable base state
     (`reachB_reach`) and ALL safety theorems of the base model hold with bounded channels and blocking mutexes:
     `bounded_closed_runner_has_no_user` (C01), `bounded_at_most_one_reply` (C02), `bounded_one_runner_per_model`,
     `bounded_live_count_le_max`, `bounded_live_count` (C11).
  2. What the base model cannot show — goroutines parked for good (`wedged`) — with a kernel-checked witness per class:
       F12d   `F12d_expiredCh_capacity_wedges`   /repo's tree (known finding): expireRunner parks in its send on a full
              expiredCh holding loadedMu + refMu; processCompleted, the only receiver, needs loadedMu
       F12c   `F12c_lock_order_wedges_upstream` / `F12c_repo_order_refuses`: upstream's expired case takes refMu before
              loadedMu, expireRunner the other way round: hold-and-wait cycle; with /repo's order the same schedule cannot park
       C02-K  `no_idle_drain_wedges` / `idle_drain_releases`: without the idle receive from unloadedCh the second unload
              that nobody waits for parks processCompleted for good; with it the parked send is released
  3. For /repo's lock order (`Cfg.repo`), in EVERY reachable state no goroutine waits for loadedMu while holding a
     mutex (`repo_no_hold_and_wait_on_loadedMu`): there is no lock-order cycle through loadedMu.
  4. `parked_unloaded_send_is_released`: with the idle receive, a processCompleted parked sending on unloadedCh is
     always one pending-loop step away from being released when the pending loop is idle or waiting for an unload.
-/
import OllamaVerif.Model.SchedChan
import OllamaVerif.Properties.C11
import OllamaVerif.Properties.C02

namespace OllamaVerif.C02Chan
open OllamaVerif.Sched OllamaVerif.SchedChan

/-! ### refinement -/

theorem stepB_refines {v : Variant} {c : Cfg} {b b' : BState} {a : Act} (h : stepB v c b a = some b') :
    b'.base = b.base ∨ step v b.base a = some b'.base := by
  unfold stepB at h
  simp only [] at h
  split at h
  · cases h
  · split at h
    · cases h
    · split at h
      · split at h
        · cases h
        · split at h
          · cases h
          · cases h; left; rfl
      · split at h
        · split at h
          · split at h
            · cases h
            · cases h; left; rfl
          · cases hs : step v b.base a with
            | none => simp [hs] at h
            | some s' => simp [hs] at h; right; rw [← h]
        · cases hs : step v b.base a with
          | none => simp [hs] at h
          | some s' => simp [hs] at h; right; rw [← h]

/-- every reachable state of the bounded model projects to a reachable state of the base model -/
theorem reachB_reach {v : Variant} {c : Cfg} {mr mq ds : Nat} {b : BState}
    (h : ReachB v c (initB mr mq ds) b) : Reach v (Sched.init mr mq ds) b.base := by
  induction h with
  | init => exact Reach.init
  | step a _ hs ih =>
    rcases stepB_refines hs with h | h
    · rw [h]; exact ih
    · exact Reach.step a ih h

/-! ### the safety theorems hold with bounded channels and blocking mutexes -/

/-- C01 -/
theorem bounded_closed_runner_has_no_user {c : Cfg} {mr mq ds : Nat} {b : BState}
    (h : ReachB Variant.good c (initB mr mq ds) b) (r : Rid) (hr : r < b.base.nRunners)
    (hc : (b.base.runners r).closed = true) : ∀ q, ¬ OllamaVerif.C01.uses b.base q r :=
  OllamaVerif.C01.closed_runner_has_no_user (reachB_reach h) r hr hc

/-- C01: a runner is shut down at most once -/
theorem bounded_closed_at_most_once {c : Cfg} {mr mq ds : Nat} {b : BState}
    (h : ReachB Variant.good c (initB mr mq ds) b) (r : Rid) (hr : r < b.base.nRunners) :
    (b.base.runners r).closeCount ≤ 1 :=
  OllamaVerif.C01.closed_at_most_once (reachB_reach h) r hr

/-- C02 -/
theorem bounded_at_most_one_reply {v : Variant} {c : Cfg} {mr mq ds : Nat} {b : BState}
    (h : ReachB v c (initB mr mq ds) b) (q : ReqId) : (b.base.reqs q).replies ≤ 1 :=
  OllamaVerif.C02.at_most_one_reply (reachB_reach h) q

/-- C11 -/
theorem bounded_one_runner_per_model {c : Cfg} {mr mq ds : Nat} {b : BState}
    (h : ReachB Variant.good c (initB mr mq ds) b) (r r' : Rid)
    (hl : OllamaVerif.C11.live b.base r) (hl' : OllamaVerif.C11.live b.base r')
    (hm : (b.base.runners r).model = (b.base.runners r').model) : r = r' :=
  OllamaVerif.C11.one_runner_per_model (reachB_reach h) r r' hl hl' hm

theorem bounded_live_count_le_max {c : Cfg} {mr mq ds : Nat} {b : BState}
    (h : ReachB Variant.good c (initB mr mq ds) b) (l : List Rid) (hn : l.Nodup)
    (hl : ∀ r, r ∈ l → OllamaVerif.C11.live b.base r) : l.length ≤ b.base.maxRunners :=
  OllamaVerif.C11.live_count_le_max (reachB_reach h) l hn hl

/-- the number of live runners, counted outright -/
def liveCount (s : State) : Nat := ((List.range s.nRunners).filter (fun r => !(s.runners r).closed)).length

/-- **C11, counted form, every reachable state**: the NUMBER of started-and-not-shut-down runners never exceeds the
    limit in force (base model) -/
theorem live_count {mr mq ds : Nat} {s : State} (h : Reach Variant.good (Sched.init mr mq ds) s) :
    liveCount s ≤ s.maxRunners := by
  unfold liveCount
  apply OllamaVerif.C11.live_count_le_max h
  · exact List.Nodup.sublist List.filter_sublist List.nodup_range
  · intro r hr
    have := List.mem_filter.mp hr
    exact ⟨List.mem_range.mp this.1, by simpa using this.2⟩

theorem bounded_live_count {c : Cfg} {mr mq ds : Nat} {b : BState}
    (h : ReachB Variant.good c (initB mr mq ds) b) : liveCount b.base ≤ b.base.maxRunners :=
  live_count (reachB_reach h)

/-! ### deadlock witnesses -/

def cpuFit : Fit := { cpu := true }

/-- driver script `sched-trace 0 1 1 1 1 | submit 0 0 L | unload 0 | unload 0 | loaddone 0 0` (deadlock corpus
    `queue_capacity`, known finding F12d): two expireRunner calls while the model is loading, the load fails -/
def expiredCapTrace : List Act :=
  [.submit 0 0 (some 2), .pTake, .pLookup cpuFit, .pLoad true, .explicitUnload 0, .unloadBind 0,
   .explicitUnload 0, .loadDone 0 false, .cTakeExpired, .unloadRun 0, .unloadBind 0]

/-- F12d on /repo's tree with OLLAMA_MAX_QUEUE=1: the second expireRunner call is parked sending on the full expiredCh,
    holding loadedMu and the runner's refMu; processCompleted (the only receiver) waits for loadedMu: wedged -/
theorem F12d_expiredCh_capacity_wedges :
    (runB Variant.good Cfg.repo (initB 0 1 1) expiredCapTrace).map
      (fun b => wedged Variant.good Cfg.repo b &&
                b.parked == [⟨.unloadBind 0, [.loadedMu, .refMu 0], .chan .expired⟩] &&
                b.base.cpc == .exp 0) = some true := by decide

/-- with room in the channel (capacity 2) the same schedule does not park anybody -/
theorem F12d_needs_full_channel :
    (runB Variant.good Cfg.repo (initB 0 2 1) expiredCapTrace).map
      (fun b => b.parked.isEmpty && !wedged Variant.good Cfg.repo b) = some true := by decide

/-- one load / use / expire / unload cycle of model 0 with keep_alive 0, nobody waiting for the unload -/
def unloadCycle (q : Nat) : List Act :=
  [.submit 0 0 (some 0), .pTake, .pLookup cpuFit, .pLoad true, .loadDone q true, .done q, .finishSend q,
   .cTakeFinished, .cFin, .cTakeExpired, .cExp, .cVram]

def noIdleDrain : Cfg := ⟨true, false⟩

/-- seeded C02-C / C02-K class (capacity 1: the 2nd unload; capacity n: the (n+1)-th): without the idle receive
    processCompleted is parked for good sending on unloadedCh, nothing else can move -/
theorem no_idle_drain_wedges :
    (runB Variant.good noIdleDrain (initB 0 1 1) (unloadCycle 0 ++ unloadCycle 1)).map
      (fun b => wedged Variant.good noIdleDrain b && b.parked == [⟨.cVram, [], .chan .unloaded⟩]) = some true := by decide

/-- with the idle receive (/repo) the same schedule parks the send only until the pending loop drains the event -/
theorem idle_drain_releases :
    (runB Variant.good Cfg.repo (initB 0 1 1) (unloadCycle 0 ++ unloadCycle 1 ++ [.pDrainUnloaded, .cVram])).map
      (fun b => b.parked.isEmpty && !wedged Variant.good Cfg.repo b && b.base.unloadedQ == 1 && b.base.loaded.isEmpty) = some true := by
  decide

/-- F12c schedule: runner 0 idle with its keep-alive armed; model 1 loading; expireRunner(model 1) parks on the loading
    runner's refMu holding loadedMu; runner 0's timer fires and processCompleted handles the expired event; a second
    expireRunner(model 0) is issued; the load completes -/
def lockOrderTrace : List Act :=
  [.submit 0 0 (some 1), .pTake, .pLookup {}, .pLoad true, .loadDone 0 true, .done 0, .finishSend 0, .cTakeFinished, .cFin,
   .submit 1 0 none, .pTake, .pLookup {}, .pLoad true, .explicitUnload 1, .unloadBind 1,
   .timerFire 0, .timerCb 0, .cTakeExpired, .cExp, .explicitUnload 0, .loadDone 1 true, .unloadRun 1, .unloadBind 0]

/-- upstream's lock order: processCompleted holds refMu(0) and waits for loadedMu, expireRunner holds loadedMu and waits
    for refMu(0): a hold-and-wait cycle, wedged -/
theorem F12c_lock_order_wedges_upstream :
    (runB Variant.good Cfg.upstream (initB 2 8 1) lockOrderTrace).map
      (fun b => wedged Variant.good Cfg.upstream b &&
                b.parked == [⟨.unloadBind 0, [.loadedMu], .lock (.refMu 0)⟩, ⟨.cExp, [.refMu 0], .lock .loadedMu⟩]) = some true := by
  decide

/-- /repo's order (loadedMu first): at the point where upstream's processCompleted parks holding refMu(0), /repo's is
    simply not scheduled (it holds nothing), so the schedule cannot even be followed -/
theorem F12c_repo_order_refuses :
    (runB Variant.good Cfg.repo (initB 2 8 1) (lockOrderTrace.take 18)).map
      (fun b => b.parked.isEmpty && (stepB Variant.good Cfg.repo b .cExp).isNone) = some true := by decide

/-! ### /repo's lock order: nobody holds a mutex while waiting for loadedMu -/

/-- the lock lists of /repo's profiles have loadedMu, if at all, in first position -/
def loadedMuFirst : List Lock → Bool
  | [] => true
  | _ :: rest => !rest.contains .loadedMu

theorem profile_repo_loadedMu_first (s : State) (a : Act) : loadedMuFirst (profile Cfg.repo s a).1 = true := by
  cases a <;> simp only [profile, Cfg.repo] <;> (try rfl) <;> (repeat' split) <;> simp_all [loadedMuFirst]

theorem acquire_loadedMu_holds_nothing (b : BState) (me : Act) :
    ∀ (ls held0 held : List Lock), acquire b me ls held0 = some (held, .loadedMu) →
      ¬ ls.contains .loadedMu = true ∨ (held0 = [] → loadedMuFirst ls = true → held = []) := by
  intro ls
  cases ls with
  | nil => intro held0 held h; simp [acquire] at h
  | cons l rest =>
    intro held0 held h
    right
    intro h0 hf
    subst h0
    simp only [acquire] at h
    split at h
    · -- l was free: the block happened in `rest`, which does not contain loadedMu
      exfalso
      have hnot : ¬ rest.contains Lock.loadedMu = true := by simpa [loadedMuFirst] using hf
      have : ∀ (ls h0 : List Lock), acquire b me ls h0 = some (held, Lock.loadedMu) → ls.contains Lock.loadedMu = true := by
        intro ls
        induction ls with
        | nil => intro h0 hh; simp [acquire] at hh
        | cons x xs ih =>
          intro h0 hh
          simp only [acquire] at hh
          split at hh
          · have := ih _ hh
            simp only [List.contains_cons, this, Bool.or_true]
          · cases hh; simp
      exact hnot (this _ _ h)
    · cases h; rfl

/-- **No hold-and-wait on loadedMu with /repo's lock order**: in every reachable state of the bounded model a goroutine
    that waits for loadedMu holds no mutex (so no cycle of mutex waits can pass through loadedMu — the F12c class) -/
theorem repo_no_hold_and_wait_on_loadedMu {v : Variant} {mr mq ds : Nat} {b : BState}
    (h : ReachB v Cfg.repo (initB mr mq ds) b) :
    ∀ p, p ∈ b.parked → p.wait = .lock .loadedMu → p.holds = [] := by
  induction h with
  | init => intro p hp; simp [initB] at hp
  | @step b b' a _ hs ih =>
    intro p hp hw
    unfold stepB at hs
    simp only [] at hs
    have keep : ∀ q, q ∈ b.parked.filter (fun x => x.act != a) → q.wait = .lock .loadedMu → q.holds = [] :=
      fun q hq => ih q (List.mem_filter.mp hq).1
    split at hs
    · cases hs
    · split at hs
      · cases hs
      · split at hs
        · rename_i held l hacq
          split at hs
          · cases hs
          · split at hs
            · cases hs
            · cases hs
              simp only [setParked, List.mem_cons] at hp
              rcases hp with rfl | hp
              · simp only [Wait.lock.injEq] at hw
                subst hw
                rcases acquire_loadedMu_holds_nothing b a _ [] held hacq with h1 | h1
                · exfalso
                  apply h1
                  clear h1
                  have : ∀ (ls h0 : List Lock), acquire b a ls h0 = some (held, Lock.loadedMu) → ls.contains Lock.loadedMu = true := by
                    intro ls
                    induction ls with
                    | nil => intro h0 hh; simp [acquire] at hh
                    | cons x xs ih2 =>
                      intro h0 hh
                      simp only [acquire] at hh
                      split at hh
                      · have := ih2 _ hh
                        simp only [List.contains_cons, this, Bool.or_true]
                      · cases hh; simp
                  exact this _ _ hacq
                · exact h1 rfl (profile_repo_loadedMu_first b.base a)
              · exact keep p hp hw
        · split at hs
          · split at hs
            · split at hs
              · cases hs
              · cases hs
                simp only [setParked, List.mem_cons] at hp
                rcases hp with rfl | hp
                · cases hw
                · exact keep p hp hw
            · cases hst : step v b.base a with
              | none => simp [hst] at hs
              | some s' =>
                simp [hst] at hs; subst hs
                exact keep p hp hw
          · cases hst : step v b.base a with
            | none => simp [hst] at hs
            | some s' =>
              simp [hst] at hs; subst hs
              exact keep p hp hw

/-! ### the idle receive releases a parked unload notification -/

/-- With the idle receive from unloadedCh (`idleDrains`), whenever processCompleted is parked sending on the full
    unloadedCh and the pending loop is idle or waiting for an unload, the receive that makes room is enabled (the
    C02-K class cannot wedge there).  `maxQueue > 0`: a zero-capacity channel is never "full with something in it". -/
theorem parked_unloaded_send_is_released {v : Variant} {c : Cfg} {b : BState} (hc : c.idleDrains = true)
    (hq : 0 < b.base.maxQueue) (hfull : full b.base .unloaded = true) :
    (b.base.ppc = .idle → (stepB v c b .pDrainUnloaded).isSome) ∧
    (∀ q r, b.base.ppc = .waitUnload q r → (stepB v c b .pWaitUnload).isSome) := by
  have hpos : b.base.unloadedQ > 0 := by
    simp [full, chanLen] at hfull
    omega
  constructor
  · intro hi
    simp [stepB, hc, entered, takesLocks, step, hi, hpos, profile, acquire]
  · intro q r hw
    simp [stepB, entered, takesLocks, step, hw, hpos, profile, acquire]

/-! ### non-vacuity -/

/-- a reachable bounded state with a parked goroutine that is later released (so `ReachB` is not just `Reach`) -/
example : ∃ b, ReachB Variant.good Cfg.repo (initB 0 1 1) b ∧ b.parked ≠ [] ∧ wedged Variant.good Cfg.repo b = false := by
  have key : ∀ (l : List Act) (b0 b : BState), ReachB Variant.good Cfg.repo (initB 0 1 1) b0 →
      runB Variant.good Cfg.repo b0 l = some b → ReachB Variant.good Cfg.repo (initB 0 1 1) b := by
    intro l
    induction l with
    | nil => intro b0 b h0 hr; simp [runB] at hr; subst hr; exact h0
    | cons a as ih =>
      intro b0 b h0 hr
      simp only [runB] at hr
      cases hs : stepB Variant.good Cfg.repo b0 a with
      | none => simp [hs] at hr
      | some b1 => simp only [hs] at hr; exact ih b1 b (ReachB.step a h0 hs) hr
  cases hr : runB Variant.good Cfg.repo (initB 0 1 1) (unloadCycle 0 ++ unloadCycle 1) with
  | none => exact absurd hr (by decide)
  | some b =>
    refine ⟨b, key _ _ _ ReachB.init hr, ?_, ?_⟩
    · have : (runB Variant.good Cfg.repo (initB 0 1 1) (unloadCycle 0 ++ unloadCycle 1)).map (fun b => !b.parked.isEmpty) = some true := by decide
      rw [hr] at this
      intro he; simp [he] at this
    · have : (runB Variant.good Cfg.repo (initB 0 1 1) (unloadCycle 0 ++ unloadCycle 1)).map (fun b => wedged Variant.good Cfg.repo b) = some false := by decide
      rw [hr] at this
      simpa using this

end OllamaVerif.C02Chan
