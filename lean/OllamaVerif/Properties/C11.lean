/-
  C11 — Loaded-runner limit, one runner per model, reuse when compatible, idle-first eviction,
        fit-before-load.

  Model: `Model/Sched.lean`.  "Live" = started and not shut down.  In the good variant every live
  runner is the entry of its model in `loaded` (no orphans), which yields the count bound and
  one-runner-per-model for every reachable state; the decision clauses (reuse, idle-first victim,
  fit before load) are theorems about the decision functions the model shares with the code
  (`decideLoad`, `findVictim`, the needsReload region).  Upstream's pinned variant violates
  one-runner-per-model: witness `F12a_two_live_runners_one_model`.
-/
import OllamaVerif.Properties.C01

namespace OllamaVerif.C11
open OllamaVerif.Sched OllamaVerif.C01

def live (s : State) (r : Rid) : Prop := r < s.nRunners ∧ (s.runners r).closed = false

/-- every live runner is THE loaded runner of its model -/
theorem live_runner_is_loaded {mr mq ds : Nat} {s : State} (h : Reach Variant.good (init0 mr mq ds) s)
    (r : Rid) (hl : live s r) : lookup s.loaded (s.runners r).model = some r :=
  (reach_inv (inv_init mr mq ds) h).i3.live r hl.1 hl.2

/-- **At most one runner per model.** -/
theorem one_runner_per_model {mr mq ds : Nat} {s : State} (h : Reach Variant.good (init0 mr mq ds) s)
    (r r' : Rid) (hl : live s r) (hl' : live s r') (hm : (s.runners r).model = (s.runners r').model) : r = r' := by
  have h1 := live_runner_is_loaded h r hl
  have h2 := live_runner_is_loaded h r' hl'
  rw [hm, h2] at h1
  cases h1; rfl

theorem length_le_of_nodup_subset {α : Type} [DecidableEq α] :
    ∀ (l1 l2 : List α), l1.Nodup → (∀ x, x ∈ l1 → x ∈ l2) → l1.length ≤ l2.length := by
  intro l1
  induction l1 with
  | nil => intro l2 _ _; simp
  | cons a l ih =>
    intro l2 hn hs
    have ha : a ∈ l2 := hs a (by simp)
    have hn' := List.nodup_cons.mp hn
    have := ih (l2.erase a) hn'.2 (by
      intro x hx
      have hx2 : x ∈ l2 := hs x (by simp [hx])
      have hne : x ≠ a := by intro e; subst e; exact hn'.1 hx
      exact (List.mem_erase_of_ne hne).mpr hx2)
    have hl : (l2.erase a).length + 1 = l2.length := by
      rw [List.length_erase_of_mem ha]
      have : 0 < l2.length := List.length_pos_of_mem ha
      omega
    simp only [List.length_cons]; omega

/-- **The number of simultaneously live runners never exceeds the limit in force**
    (`maxRunners` = OLLAMA_MAX_LOADED_MODELS, or the automatic value once it has been set):
    any duplicate-free list of live runners is no longer than it. -/
theorem live_count_le_max {mr mq ds : Nat} {s : State} (h : Reach Variant.good (init0 mr mq ds) s)
    (l : List Rid) (hn : l.Nodup) (hl : ∀ r, r ∈ l → live s r) : l.length ≤ s.maxRunners := by
  have hi := reach_inv (inv_init mr mq ds) h
  have hsub : ∀ p, p ∈ l.map (fun r => ((s.runners r).model, r)) → p ∈ s.loaded := by
    intro p hp
    obtain ⟨r, hr, rfl⟩ := List.mem_map.mp hp
    exact lookup_some_mem _ _ _ (live_runner_is_loaded h r (hl r hr))
  have hnd : (l.map (fun r => ((s.runners r).model, r))).Nodup := by
    clear hsub hl
    induction l with
    | nil => simp
    | cons a l ih =>
      have hn' := List.nodup_cons.mp hn
      simp only [List.map_cons, List.nodup_cons]
      refine ⟨?_, ih hn'.2⟩
      intro hmem
      obtain ⟨b, hb, hab⟩ := List.mem_map.mp hmem
      have : b = a := (Prod.mk.inj hab).2
      subst this; exact hn'.1 hb
  have := length_le_of_nodup_subset _ _ hnd hsub
  simp only [List.length_map] at this
  exact Nat.le_trans this hi.i3.bound

/-- **Reuse when compatible**: a request for a model whose runner is loaded, open, healthy and was
    started with the same options is handed that very runner, and no runner is started. -/
theorem reuse_compatible {s : State} {q : ReqId} {r : Rid} {fit : Fit}
    (hpc : s.ppc = .eval q) (hg : fit.ngpus ≠ 0)
    (hl : lookup s.loaded (s.reqs q).model = some r)
    (hopts : (s.runners r).opts = (s.reqs q).opts) (hping : (s.runners r).pingOk = true)
    (hopen : (s.runners r).closed = false) (hmu : (s.runners r).locked = false)
    (hnb : (s.runners r).pingBlock = false) :
    ∃ s3, run Variant.good s [.pLookup fit, .pNeedsReload, .pUse] = some s3 ∧
      (s3.reqs q).gotRunner = some r ∧ s3.nRunners = s.nRunners ∧ s3.loaded = s.loaded ∧ s3.ppc = .idle := by
  have hd : decideLoad s fit q = .reuse r := by unfold decideLoad; simp [hl]
  have h1 : step Variant.good s (.pLookup fit) = some { s with ppc := .needsReload q r } := by
    simp only [step, hpc, hg, hd]; rfl
  have h2 : step Variant.good { s with ppc := .needsReload q r } .pNeedsReload = some { s with ppc := .use q r } := by
    simp only [step, hmu, hopen, hopts, hping, hnb]; simp
  have h3 : ∃ s3, step Variant.good { s with ppc := .use q r } .pUse = some s3 ∧
      (s3.reqs q).gotRunner = some r ∧ s3.nRunners = s.nRunners ∧ s3.loaded = s.loaded ∧ s3.ppc = .idle := by
    simp only [step, hmu, hopen, Variant.good]
    simp [replyRunner, setReq, setRunner, upd]
  obtain ⟨s3, h3a, h3b⟩ := h3
  exact ⟨s3, by simp [run, h1, h2, h3a], h3b⟩

/-- a request with different options (or a failed health check) makes the scheduler expire that
    runner rather than hand it out … -/
theorem incompatible_expires {v : Variant} {s s' : State} {q : ReqId} {r : Rid}
    (hpc : s.ppc = .needsReload q r) (hmu : (s.runners r).locked = false)
    (hbad : (s.runners r).opts ≠ (s.reqs q).opts ∨
            ((s.runners r).pingOk = false ∧ (s.runners r).pingBlock = false))
    (hs : step v s .pNeedsReload = some s') : s'.ppc = .expire q r := by
  simp only [step, hpc, hmu] at hs
  rcases hbad with h | ⟨h1, h2⟩
  · simp [h] at hs; rw [← hs]
  · simp [h1, h2] at hs
    rw [← hs]

/-- … and a runner that is started is started with the options of the request it is started for -/
theorem started_with_request_options {v : Variant} {s s' : State} {q : ReqId}
    (hpc : s.ppc = .load q) (hs : step v s (.pLoad true) = some s') :
    s'.nRunners = s.nRunners + 1 ∧ (s'.runners s.nRunners).opts = (s.reqs q).opts ∧
    (s'.runners s.nRunners).model = (s.reqs q).model := by
  simp only [step, hpc] at hs
  simp at hs
  rw [← hs]; simp [upd]

/-! ### eviction prefers an idle runner -/

def idle (s : State) (r : Rid) : Bool := (s.runners r).refCount = 0 && !(s.runners r).wrapped

theorem mem_insertBy (s : State) (x y : Rid) (l : List Rid) : y ∈ insertBy s x l ↔ y = x ∨ y ∈ l := by
  induction l with
  | nil => simp [insertBy]
  | cons a l ih =>
    simp only [insertBy]
    split
    · simp
    · simp only [List.mem_cons, ih]
      constructor
      · rintro (h | h | h) <;> simp [h]
      · rintro (h | h | h) <;> simp [h]

theorem mem_sortVictims (s : State) (l : List Rid) (y : Rid) : y ∈ sortVictims s l ↔ y ∈ l := by
  induction l with
  | nil => simp [sortVictims]
  | cons a l ih =>
    have : sortVictims s (a :: l) = insertBy s a (sortVictims s l) := rfl
    rw [this, mem_insertBy, ih]; simp

/-- **Making room evicts an idle runner when one exists.** -/
theorem victim_idle_first (s : State) (r : Rid) (hr : r ∈ s.loaded.map (·.2)) (hidle : idle s r = true) :
    ∃ vic, findVictim s = some vic ∧ idle s vic = true ∧ vic ∈ s.loaded.map (·.2) := by
  unfold findVictim
  simp only []
  have hmem : r ∈ sortVictims s (s.loaded.map (·.2)) := (mem_sortVictims s _ r).mpr hr
  cases hf : (sortVictims s (s.loaded.map (·.2))).find?
      (fun r => (s.runners r).refCount = 0 && !(s.runners r).wrapped) with
  | none =>
    have := List.find?_eq_none.mp hf r hmem
    unfold idle at hidle
    simp_all
  | some vic =>
    refine ⟨vic, rfl, ?_, ?_⟩
    · have := List.find?_some hf
      unfold idle; simpa using this
    · exact (mem_sortVictims s _ vic).mp (List.mem_of_find?_eq_some hf)

/-- the victim is always one of the loaded runners -/
theorem victim_is_loaded (s : State) (vic : Rid) (h : findVictim s = some vic) : vic ∈ s.loaded.map (·.2) := by
  unfold findVictim at h
  simp only [] at h
  split at h
  · rename_i r hf
    cases h
    exact (mem_sortVictims s _ _).mp (List.mem_of_find?_eq_some hf)
  · exact (mem_sortVictims s _ _).mp (List.mem_of_mem_head? h)

/-! ### fit before load -/

/-- **While other models are loaded, a new runner is started only if it is predicted to fit** in
    the memory they leave free (GPU mode: full fit on the GPUs not busy loading; CPU mode: fits
    in free system memory); otherwise a runner is evicted first, or the request waits for loads
    in progress. -/
theorem fit_before_load (s : State) (fit : Fit) (q : ReqId) (hne : s.loaded ≠ [])
    (h : decideLoad s fit q = .load) :
    fit.loadModelOk = true ∧ (if fit.cpu then fit.cpuFits = true else fit.fitsFull = true) := by
  unfold decideLoad at h
  have hlen : s.loaded.length ≠ 0 := by
    intro h0; exact hne (List.eq_nil_of_length_eq_zero h0)
  cases hl : lookup s.loaded (s.reqs q).model with
  | some r => simp [hl] at h
  | none =>
    simp only [hl] at h
    repeat' split at h
    all_goals (first | cases h | skip)
    all_goals simp_all

/-- and when it does not fit (and nothing is still loading) the decision is to evict -/
theorem no_fit_evicts (s : State) (fit : Fit) (q : ReqId) (hne : s.loaded ≠ [])
    (hl : lookup s.loaded (s.reqs q).model = none) (hok : fit.loadModelOk = true)
    (hroom : ¬ (s.maxRunners > 0 ∧ s.loaded.length ≥ s.maxRunners))
    (hgpu : fit.cpu = false) (hno : fit.fitsFull = false) (hquiet : fit.someBusy = false) :
    decideLoad s fit q = .evict := by
  have hlen : s.loaded.length ≠ 0 := by
    intro h0; exact hne (List.eq_nil_of_length_eq_zero h0)
  unfold decideLoad
  simp [hl, hok, hroom, hgpu, hno, hquiet, hlen]

/-- at the limit the decision is always to evict (never to start) -/
theorem at_limit_evicts (s : State) (fit : Fit) (q : ReqId)
    (hl : lookup s.loaded (s.reqs q).model = none)
    (hfull : s.maxRunners > 0 ∧ s.loaded.length ≥ s.maxRunners) : decideLoad s fit q = .evict := by
  unfold decideLoad
  simp [hl, hfull]

/-! ### witness for the pinned variant -/

/-- F12a on upstream's pinned variant: after the duplicate expired event, runners 1 and 2 are
    both alive for model 0 (30 actions into the trace of Properties/C01.lean) -/
theorem F12a_two_live_runners_one_model :
    (run Variant.pinned (init0 0 512 1) (dupExpiredTrace.take 31)).map
      (fun s => !(s.runners 1).closed && !(s.runners 2).closed &&
                (s.runners 1).model == (s.runners 2).model && s.nRunners == 3) = some true := by decide

end OllamaVerif.C11
