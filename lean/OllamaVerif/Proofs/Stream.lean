/-
  Helper definitions and lemmas for C17 (Model/Stream.lean): projections used to state the
  property (what a client obtains by aggregating a stream), closed forms of the callbacks and
  of the non-stream loop.
-/
import OllamaVerif.Model.Stream
namespace OllamaVerif.Stream
open OllamaVerif

/-- the model output: concatenation of the chunk contents -/
def texts (cs : List Chunk) : Bytes := (cs.map (·.content)).flatten

/-- last element, `d` for the empty list -/
def lastOr {α : Type} (d : α) : List α → α
  | [] => d
  | x :: xs => lastOr x xs

def Item.msg? {α : Type} : Item α → Option α
  | .msg m => some m
  | .err _ => none

def Item.err? {α : Type} : Item α → Option Bytes
  | .msg _ => none
  | .err e => some e

/-- the messages / the errors of a native stream, in order -/
def msgsOf {α : Type} (items : List (Item α)) : List α := items.filterMap Item.msg?
def errsOf {α : Type} (items : List (Item α)) : List Bytes := items.filterMap Item.err?

@[simp] theorem texts_nil : texts [] = [] := rfl
@[simp] theorem texts_cons (c : Chunk) (cs : List Chunk) : texts (c :: cs) = c.content ++ texts cs := by
  simp [texts]
theorem texts_append (a b : List Chunk) : texts (a ++ b) = texts a ++ texts b := by
  simp [texts]

@[simp] theorem lastOr_nil {α : Type} (d : α) : lastOr d [] = d := rfl
@[simp] theorem lastOr_cons {α : Type} (d x : α) (xs : List α) : lastOr d (x :: xs) = lastOr x xs := rfl

theorem lastOr_append_singleton {α : Type} (d x : α) (xs : List α) : lastOr d (xs ++ [x]) = x := by
  induction xs generalizing d with
  | nil => rfl
  | cons y ys ih => simp [ih]

theorem lastOr_map {α β : Type} (f : α → β) (d : α) (xs : List α) :
    lastOr (f d) (xs.map f) = f (lastOr d xs) := by
  induction xs generalizing d with
  | nil => rfl
  | cons y ys ih => simp [ih]

@[simp] theorem msgsOf_map_msg {α : Type} (ms : List α) : msgsOf (ms.map Item.msg) = ms := by
  induction ms with
  | nil => rfl
  | cons m ms ih => simp_all [msgsOf, Item.msg?]

@[simp] theorem errsOf_map_msg {α : Type} (ms : List α) : errsOf (ms.map Item.msg) = [] := by
  induction ms with
  | nil => rfl
  | cons m ms ih => simp_all [errsOf, Item.err?]

theorem msgsOf_append {α : Type} (a b : List (Item α)) : msgsOf (a ++ b) = msgsOf a ++ msgsOf b := by
  simp [msgsOf, List.filterMap_append]

theorem errsOf_append {α : Type} (a b : List (Item α)) : errsOf (a ++ b) = errsOf a ++ errsOf b := by
  simp [errsOf, List.filterMap_append]

theorem msgsOf_chan {α : Type} (ms : List α) (e : End) : msgsOf (ms.map Item.msg ++ endItems e) = ms := by
  rw [msgsOf_append, msgsOf_map_msg]
  cases e <;> simp [msgsOf, endItems, Item.msg?]

theorem errsOf_chan {α : Type} (ms : List α) (e : End) :
    errsOf (ms.map Item.msg ++ (endItems e : List (Item α))) = match e with | .ok => [] | .err m => [m] := by
  rw [errsOf_append, errsOf_map_msg]
  cases e <;> simp [errsOf, endItems, Item.err?]

/-! ### the non-stream loop -/

theorem onceLoop_msgs {α : Type} (content : α → Bytes) (ms : List α) (sb : Bytes) (r : α) :
    onceLoop content (ms.map Item.msg) sb r = .ok (sb ++ (ms.map content).flatten, lastOr r ms) := by
  induction ms generalizing sb r with
  | nil => simp [onceLoop]
  | cons m ms ih => simp [onceLoop, ih, List.append_assoc]

theorem onceLoop_err {α : Type} (content : α → Bytes) (ms : List α) (e : Bytes) (rest : List (Item α))
    (sb : Bytes) (r : α) :
    onceLoop content (ms.map Item.msg ++ Item.err e :: rest) sb r = .error e := by
  induction ms generalizing sb r with
  | nil => simp [onceLoop]
  | cons m ms ih => simp [onceLoop, ih]

theorem onceLoop_chan {α : Type} (content : α → Bytes) (ms : List α) (e : End) (r : α) :
    onceLoop content (ms.map Item.msg ++ endItems e) [] r =
      match e with
      | .ok => .ok ((ms.map content).flatten, lastOr r ms)
      | .err m => .error m := by
  cases e with
  | ok => simp [endItems, onceLoop_msgs]
  | err m => simp [endItems, onceLoop_err]

/-! ### GenerateHandler callback -/

theorem genCallback_resp (raw : Bool) (pl : Nat) (cs : List Chunk) (sb : Bytes) :
    (genCallback raw pl cs sb).map (·.resp) = cs.map (·.content) := by
  induction cs generalizing sb with
  | nil => rfl
  | cons c cs ih => simp [genCallback, genMsgOf, ih]

theorem genCallback_last (raw : Bool) (pl : Nat) (cs : List Chunk) (sb : Bytes) (d : GenMsg) :
    lastOr d (genCallback raw pl cs sb) =
      match cs with
      | [] => d
      | c :: cs' => genMsgOf raw pl (sb ++ texts (c :: cs')) (lastOr c cs') := by
  induction cs generalizing sb d with
  | nil => rfl
  | cons c cs ih =>
    simp only [genCallback, lastOr_cons]
    rw [ih]
    cases cs with
    | nil => simp
    | cons c2 cs2 => simp [List.append_assoc]

/-- closed form of the non-stream generate reply -/
theorem genOnce_ok_cons (raw : Bool) (pl : Nat) (c : Chunk) (cs : List Chunk) :
    genOnce raw pl (c :: cs) .ok =
      .ok { genMsgOf raw pl (texts (c :: cs)) (lastOr c cs) with resp := texts (c :: cs) } := by
  unfold genOnce genChan
  rw [onceLoop_chan]
  simp only [genCallback_resp, genCallback_last]
  simp [texts]

theorem genOnce_ok_nil (raw : Bool) (pl : Nat) : genOnce raw pl [] .ok = .ok default := by
  rfl

theorem genOnce_err (raw : Bool) (pl : Nat) (cs : List Chunk) (m : Bytes) :
    genOnce raw pl cs (.err m) = .error m := by
  unfold genOnce genChan
  rw [onceLoop_chan]

/-! ### ChatHandler callback, unbuffered (stream == false, or no tools) -/

def chatMsgOf (c : Chunk) : ChatMsg := { content := c.content, calls := [], info := chunkInfo c }

theorem chatCallback_unbuffered (parse : Bytes → List Call) (cs : List Chunk) (sb : Bytes) (idx : Nat) :
    chatCallback parse false cs sb idx = cs.map chatMsgOf := by
  induction cs generalizing sb idx with
  | nil => rfl
  | cons c cs ih => simp [chatCallback, chatMsgOf, ih]

theorem chatOnce_ok_cons (parse : Bytes → List Call) (tools : Bool) (c : Chunk) (cs : List Chunk) :
    chatOnce parse tools (c :: cs) .ok =
      let t := texts (c :: cs)
      let l := lastOr c cs
      if tools && !(parse t).isEmpty then .ok { content := [], calls := parse t, info := chunkInfo l }
      else .ok { content := t, calls := [], info := chunkInfo l } := by
  unfold chatOnce chatChan
  rw [onceLoop_chan, chatCallback_unbuffered]
  have h1 : (List.map (fun x : ChatMsg => x.content) (List.map chatMsgOf (c :: cs))).flatten = texts (c :: cs) := by
    simp [texts, chatMsgOf, List.map_map, Function.comp_def]
  have h2 : lastOr (default : ChatMsg) (List.map chatMsgOf (c :: cs)) = chatMsgOf (lastOr c cs) := by
    simp only [List.map_cons, lastOr_cons]
    exact lastOr_map chatMsgOf c cs
  simp only [h1, h2]
  simp [chatMsgOf]

theorem chatOnce_err (parse : Bytes → List Call) (tools : Bool) (cs : List Chunk) (m : Bytes) :
    chatOnce parse tools cs (.err m) = .error m := by
  unfold chatOnce chatChan
  rw [onceLoop_chan]

/-! ### ChatHandler callback, buffered (streaming with tools) -/

/-- no chunk is a done chunk -/
def NoneDone (cs : List Chunk) : Prop := ∀ c ∈ cs, c.done = false

/-- as long as nothing parses and nothing is done, the buffered callback only accumulates -/
theorem chatCallback_buffered_quiet (parse : Bytes → List Call) (init rest : List Chunk) (sb : Bytes) (idx : Nat)
    (hnd : NoneDone init)
    (hnp : ∀ k, k < init.length → parse (sb ++ texts (init.take (k + 1))) = []) :
    chatCallback parse true (init ++ rest) sb idx = chatCallback parse true rest (sb ++ texts init) idx := by
  induction init generalizing sb with
  | nil => simp
  | cons c cs ih =>
    have h0 : parse (sb ++ c.content) = [] := by
      have := hnp 0 (by simp)
      simpa using this
    have hd : c.done = false := hnd c (by simp)
    have hnd' : NoneDone cs := fun x hx => hnd x (by simp [hx])
    have hnp' : ∀ k, k < cs.length → parse ((sb ++ c.content) ++ texts (cs.take (k + 1))) = [] := by
      intro k hk
      have := hnp (k + 1) (by simp; omega)
      simpa [List.append_assoc] using this
    simp only [List.cons_append, chatCallback, h0, hd]
    simp only [Bool.not_true, Bool.false_eq_true, ↓reduceIte, List.isEmpty_nil]
    rw [ih (sb ++ c.content) hnd' hnp']
    simp [List.append_assoc]

/-- messages produced for non-done chunks are never final -/
theorem chatCallback_nonfinal (parse : Bytes → List Call) (b : Bool) (cs : List Chunk) (sb : Bytes) (idx : Nat)
    (hnd : NoneDone cs) : ∀ m ∈ chatCallback parse b cs sb idx, m.info.done = false := by
  induction cs generalizing sb idx with
  | nil => intro m hm; simp [chatCallback] at hm
  | cons c cs ih =>
    have hd : c.done = false := hnd c (by simp)
    have hnd' : NoneDone cs := fun x hx => hnd x (by simp [hx])
    intro m hm
    simp only [chatCallback] at hm
    split at hm
    · rcases List.mem_cons.mp hm with rfl | h
      · simp [chunkInfo, hd]
      · exact ih _ _ hnd' m h
    · split at hm
      · rcases List.mem_cons.mp hm with rfl | h
        · simp [chunkInfo, hd]
        · exact ih _ _ hnd' m h
      · rw [if_neg (by simp [hd])] at hm
        exact ih _ _ hnd' m hm

/-- a done chunk always produces exactly one (final) message, whatever the path -/
theorem chatCallback_done_chunk (parse : Bytes → List Call) (b : Bool) (l : Chunk) (sb : Bytes) (idx : Nat)
    (hl : l.done = true) : ∃ m, chatCallback parse b [l] sb idx = [m] ∧ m.info.done = true := by
  simp only [chatCallback]
  split
  · exact ⟨_, rfl, by simp [chunkInfo, hl]⟩
  · split
    all_goals first | exact ⟨_, rfl, by simp [chunkInfo, hl]⟩ | (exfalso; simp_all)

/-- the callback's output over `init ++ [l]` is its output over `init` followed by what the last
    chunk yields in the state reached -/
theorem chatCallback_append (parse : Bytes → List Call) (b : Bool) (init rest : List Chunk) (sb : Bytes) (idx : Nat) :
    ∃ sb' idx', chatCallback parse b (init ++ rest) sb idx
      = chatCallback parse b init sb idx ++ chatCallback parse b rest sb' idx' := by
  induction init generalizing sb idx with
  | nil => exact ⟨sb, idx, by simp [chatCallback]⟩
  | cons c cs ih =>
    simp only [List.cons_append, chatCallback]
    split
    · obtain ⟨sb', idx', h⟩ := ih sb idx
      exact ⟨sb', idx', by simp [h]⟩
    · split
      · obtain ⟨sb', idx', h⟩ := ih [] (idx + (parse (sb ++ c.content)).length)
        exact ⟨sb', idx', by simp [h]⟩
      · split
        · obtain ⟨sb', idx', h⟩ := ih (sb ++ c.content) idx
          exact ⟨sb', idx', by simp [h]⟩
        · exact ih (sb ++ c.content) idx

/-! ### setIdx -/

def eraseIdx (c : Call) : Call := { c with index := 0 }

theorem setIdx_erase (i : Nat) (cs : List Call) : (setIdx i cs).map eraseIdx = cs.map eraseIdx := by
  induction cs generalizing i with
  | nil => rfl
  | cons c cs ih => simp [setIdx, eraseIdx, ih]

theorem setIdx_index (i : Nat) (cs : List Call) : (setIdx i cs).map (·.index) = List.range' i cs.length := by
  induction cs generalizing i with
  | nil => rfl
  | cons c cs ih => simp [setIdx, ih, List.range'_succ]

@[simp] theorem setIdx_length (i : Nat) (cs : List Call) : (setIdx i cs).length = cs.length := by
  induction cs generalizing i with
  | nil => rfl
  | cons c cs ih => simp [setIdx, ih]

theorem setIdx_isEmpty (i : Nat) (cs : List Call) : (setIdx i cs).isEmpty = cs.isEmpty := by
  cases cs <;> simp [setIdx]

/-! ### OpenAI writers: projections -/

def OaEv.text? : OaEv → Bytes
  | .chunk c _ _ => c
  | .tchunk t _ _ => t
  | .chat _ c _ _ _ => c
  | .text t _ _ => t
  | _ => []

def OaEv.calls? : OaEv → List Call
  | .chunk _ cs _ => cs
  | .chat _ _ cs _ _ => cs
  | _ => []

def OaEv.isDone : OaEv → Bool
  | .done => true
  | _ => false

def OaEv.isError : OaEv → Bool
  | .error _ => true
  | _ => false

/-- concatenated delta contents / tool calls of an OpenAI stream, number of `[DONE]` lines -/
def oaText (evs : List OaEv) : Bytes := (evs.map OaEv.text?).flatten
def oaCalls (evs : List OaEv) : List Call := (evs.map OaEv.calls?).flatten
def oaDones (evs : List OaEv) : Nat := (evs.filter OaEv.isDone).length

theorem oaText_append (a b : List OaEv) : oaText (a ++ b) = oaText a ++ oaText b := by simp [oaText]
theorem oaCalls_append (a b : List OaEv) : oaCalls (a ++ b) = oaCalls a ++ oaCalls b := by simp [oaCalls]
theorem oaDones_append (a b : List OaEv) : oaDones (a ++ b) = oaDones a + oaDones b := by simp [oaDones]

/-- the tail a writer adds after the chunk of a done message -/
def oaTail (usage : Bool) (m : Info) : List OaEv :=
  (if usage then [OaEv.usage (usageOf m)] else []) ++ [OaEv.done]

theorem oaTail_text (u : Bool) (m : Info) : oaText (oaTail u m) = [] := by
  cases u <;> simp [oaTail, oaText, OaEv.text?]
theorem oaTail_calls (u : Bool) (m : Info) : oaCalls (oaTail u m) = [] := by
  cases u <;> simp [oaTail, oaCalls, OaEv.calls?]
theorem oaTail_dones (u : Bool) (m : Info) : oaDones (oaTail u m) = 1 := by
  cases u <;> rfl

end OllamaVerif.Stream
