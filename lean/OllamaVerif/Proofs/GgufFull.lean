/-
  C05 — the round trip at full strength.

  `decode_encode_any_order` (Proofs/GgufSort.lean) carries size hypotheses on every string, array,
  count and declared offset.  All of them follow from ONE bound, the length of the written file
  (`file.length < 2^63`, which every file a file system can hold meets): a string / array / tensor
  list that is part of the file is no longer than the file.  What remains as a hypothesis is what Go's
  types say about the input (`TypedVal`: a uint32 is below 2^32; `TypedTensor`: a dimension is a uint64,
  the kind a uint32, `uint32(len(Shape))` does not wrap), the data source contract (`WfT`: the tensor's
  `WriterTo` writes `Size()` bytes), distinct keys (a Go map), no written `general.parameter_count` (the
  decoder overwrites that key) and a non-zero alignment.

  The conclusion is one record (`RoundTrip`) with every clause of the property statement: keys and values
  (as the list in key order AND as look-ups), tensor names / kinds / reversed shapes, for every tensor the
  written bytes at its decoded location, that location a multiple of the alignment, end offset = file length.
-/
import OllamaVerif.Proofs.Gguf
import OllamaVerif.Proofs.GgufRoundTrip
import OllamaVerif.Proofs.GgufSort

namespace OllamaVerif.Gguf
open OllamaVerif

/-! ### what the Go types guarantee -/

/-- 32-bit payloads are 32-bit values (Go: `uint32`, `float32`, `[]int32`, `[]uint32`, `[]float32`) -/
def TypedVal : KVal → Prop
  | .u32 n => n < 4294967296
  | .f32 b => b < 4294967296
  | .bool _ => True
  | .str _ => True
  | .ai32 l => ∀ x ∈ l, x < 4294967296
  | .au32 l => ∀ x ∈ l, x < 4294967296
  | .af32 l => ∀ x ∈ l, x < 4294967296
  | .astr _ => True

/-- `Tensor.Shape []uint64`, `Tensor.Kind uint32`, `uint32(len(t.Shape))` does not wrap -/
structure TypedTensor (t : TIn) : Prop where
  dims : t.shape.length < 4294967296
  dim : ∀ x ∈ t.shape, x < two64
  kind : t.kind < 4294967296

/-! ### a part of the file is no longer than the file -/

theorem length_le_flatMap {α : Type} (f : α → Bytes) (l : List α) (x : α) (hx : x ∈ l) :
    (f x).length ≤ (l.flatMap f).length := by
  induction l with
  | nil => cases hx
  | cons y ys ih =>
    simp only [List.flatMap_cons, List.length_append]
    rcases List.mem_cons.mp hx with rfl | h
    · omega
    · have := ih h; omega

theorem count_le_flatMap {α : Type} (f : α → Bytes) (l : List α) (h : ∀ x ∈ l, 1 ≤ (f x).length) :
    l.length ≤ (l.flatMap f).length := by
  induction l with
  | nil => simp
  | cons y ys ih =>
    simp only [List.flatMap_cons, List.length_append, List.length_cons]
    have := ih (fun x hx => h x (by simp [hx]))
    have := h y (by simp)
    omega

theorem encStr_length (s : Bytes) : (encStr s).length = 8 + s.length := by
  simp [encStr, u64le]

theorem encKV_length (kv : Bytes × KVal) : (encKV kv).length = 8 + kv.1.length + (encVal kv.2).length := by
  simp [encKV, encStr_length]

theorem encVal_pos (v : KVal) : 4 ≤ (encVal v).length := by
  cases v <;> simp [encVal, u32le] <;> omega

/-- a value whose encoding is shorter than 2^63 bytes has lengths and counts below 2^63 -/
theorem WfVal_of_length (v : KVal) (ht : TypedVal v) (hl : (encVal v).length < two63) : WfVal v := by
  cases v with
  | u32 n => exact ht
  | f32 b => exact ht
  | bool b => trivial
  | str s =>
    simp only [encVal, List.length_append, encStr_length] at hl
    show s.length < two63
    omega
  | ai32 l =>
    simp only [encVal, List.length_append, flatMap_u32le_length] at hl
    exact ⟨by omega, ht⟩
  | au32 l =>
    simp only [encVal, List.length_append, flatMap_u32le_length] at hl
    exact ⟨by omega, ht⟩
  | af32 l =>
    simp only [encVal, List.length_append, flatMap_u32le_length] at hl
    exact ⟨by omega, ht⟩
  | astr l =>
    simp only [encVal, List.length_append] at hl
    refine ⟨?_, ?_⟩
    · have := count_le_flatMap encStr l (fun x _ => by rw [encStr_length]; omega)
      omega
    · intro x hx
      have := length_le_flatMap encStr l x hx
      rw [encStr_length] at this
      omega

theorem WfKV_of_length (kv : Bytes × KVal) (ht : TypedVal kv.2) (hl : (encKV kv).length < two63) : WfKV kv := by
  rw [encKV_length] at hl
  exact ⟨by omega, WfVal_of_length kv.2 ht (by omega)⟩

theorem encTInfo_length (t : TIn) (o : Nat) :
    (encTInfo t o).length = 8 + t.name.length + 4 + 8 * t.shape.length + 4 + 8 := by
  simp only [encTInfo, List.length_append, encStr_length, u32le_length, u64le_length, flatMap_u64le_length,
    List.length_reverse]

theorem encTInfos_bounds : ∀ (ts : List TIn) (os : List Nat), os.length = ts.length →
    ts.length ≤ (encTInfos ts os).length ∧ ∀ t ∈ ts, t.name.length ≤ (encTInfos ts os).length := by
  intro ts
  induction ts with
  | nil => intro os _; simp [encTInfos]
  | cons t ts ih =>
    intro os hlen
    cases os with
    | nil => simp at hlen
    | cons o os =>
      obtain ⟨h1, h2⟩ := ih os (by simpa using hlen)
      simp only [encTInfos, List.length_append, encTInfo_length, List.length_cons]
      refine ⟨by omega, ?_⟩
      intro t' ht'
      rcases List.mem_cons.mp ht' with rfl | h
      · omega
      · have := h2 t' h; omega

/-- every declared offset lies inside the data section that was written -/
theorem offsets_le_encData (align base : Nat) (hb : base % align = 0) :
    ∀ (ts : List TIn) (P s : Nat),
      P + padding P align = base + (s + padding s align) →
      (∀ t ∈ ts, WfT t) →
      ∀ o ∈ offsets false align ts s, base + o ≤ P + (encData align ts P).length := by
  intro ts
  induction ts with
  | nil => intro P s _ _ o ho; simp [offsets] at ho
  | cons t0 ts ih =>
    intro P s hP hwf o ho
    have hsz : t0.data.length = tensorSize t0.kind t0.shape := hwf t0 (by simp)
    simp only [offsets, List.mem_cons, Bool.false_eq_true, ↓reduceIte] at ho
    simp only [encData, List.length_append, List.length_replicate]
    rcases ho with rfl | ho
    · omega
    · let P' := P + padding P align + t0.data.length
      have hP' : P' = base + (s + padding s align + tensorSize t0.kind t0.shape) := by
        simp only [P']; omega
      have hinv : P' + padding P' align
          = base + ((s + padding s align + tensorSize t0.kind t0.shape)
              + padding (s + padding s align + tensorSize t0.kind t0.shape) align) := by
        rw [hP', padding_add_base base _ align hb]; omega
      have := ih P' _ hinv (fun t ht => hwf t (by simp [ht])) o ho
      simp only [P'] at this
      omega

/-! ### element-wise view of the decoded tensor infos -/

theorem infosOf_length : ∀ (ts : List TIn) (os : List Nat), os.length = ts.length →
    (infosOf ts os).length = ts.length := by
  intro ts
  induction ts with
  | nil => intro os _; cases os <;> simp [infosOf]
  | cons t ts ih =>
    intro os h
    cases os with
    | nil => simp at h
    | cons o os => simp [infosOf, ih os (by simpa using h)]

theorem infosOf_getElem : ∀ (ts : List TIn) (os : List Nat) (hl : os.length = ts.length) (i : Nat)
    (hi : i < ts.length) (hi' : i < (infosOf ts os).length),
    (infosOf ts os)[i] = infoOf ts[i] (os[i]'(by omega)) := by
  intro ts
  induction ts with
  | nil => intro os _ i hi; simp at hi
  | cons t ts ih =>
    intro os hl i hi hi'
    cases os with
    | nil => simp at hl
    | cons o os =>
      cases i with
      | zero => simp [infosOf]
      | succ i =>
        simp only [infosOf, List.getElem_cons_succ]
        exact ih os (by simpa using hl) i (by simpa using hi) _

/-! ### look-ups in the decoded key/values -/

theorem kvLookup_written (maxA : Int) (l : List (Bytes × KVal)) (hnd : (l.map (·.1)).Nodup)
    (tail : List (Bytes × Val)) (kv : Bytes × KVal) (hkv : kv ∈ l) :
    kvLookup (l.map (fun kv => (kv.1, toVal maxA kv.2)) ++ tail) kv.1 = some (toVal maxA kv.2) := by
  induction l with
  | nil => cases hkv
  | cons x xs ih =>
    simp only [List.map_cons, List.nodup_cons, List.mem_map, not_exists, not_and] at hnd
    unfold kvLookup
    simp only [List.map_cons, List.cons_append, List.find?_cons]
    rcases List.mem_cons.mp hkv with rfl | h
    · simp
    · have hne : ¬ (x.1 = kv.1) := fun he => hnd.1 kv h he.symm
      simp only [hne, decide_false]
      exact ih hnd.2 h

theorem kvLookup_only_written (maxA : Int) (l : List (Bytes × KVal)) (k : Bytes) (extra : Val) (key : Bytes)
    (h : (kvLookup (l.map (fun kv => (kv.1, toVal maxA kv.2)) ++ [(k, extra)]) key).isSome) :
    key = k ∨ key ∈ l.map (·.1) := by
  induction l with
  | nil =>
    unfold kvLookup at h
    simp only [List.map_nil, List.nil_append, List.find?_cons] at h
    by_cases hk : k = key
    · exact Or.inl hk.symm
    · simp [hk] at h
  | cons x xs ih =>
    unfold kvLookup at h
    simp only [List.map_cons, List.cons_append, List.find?_cons] at h
    by_cases hx : x.1 = key
    · exact Or.inr (by simp [hx])
    · simp only [hx, decide_false] at h
      rcases ih h with h1 | h2
      · exact Or.inl h1
      · exact Or.inr (by simp only [List.map_cons, List.mem_cons]; exact Or.inr h2)

/-! ### the statement -/

/-- everything the property says about decoding `file`, the file written from `kvs` and `ts` -/
structure RoundTrip (kvs : List (Bytes × KVal)) (ts : List TIn) (file : Bytes) (align : Nat) (maxA : Int)
    (d : Decoded) : Prop where
  version : d.version = 3
  /-- the end offset reported by the decoder equals the file length -/
  endOffset : d.endOffset = file.length
  /-- the decoded key/values: the written ones in key order, then the parameter count -/
  kvs_eq : ∃ params, d.kvs = (sortKVs kvs).map (fun kv => (kv.1, toVal maxA kv.2)) ++ [(keyParamCount, .scalar 10 params)]
  /-- as a map: every written key is found with its written value … -/
  lookup : ∀ kv ∈ kvs, kvLookup d.kvs kv.1 = some (toVal maxA kv.2)
  /-- … and nothing else is found but the parameter count -/
  only : ∀ key, (kvLookup d.kvs key).isSome → key = keyParamCount ∨ key ∈ kvs.map (·.1)
  count : d.tensors.length = ts.length
  /-- the data section starts at a multiple of the alignment -/
  base_aligned : d.tensorOffset % align = 0
  /-- tensor by tensor: name, kind, reversed shape; the location is aligned, lies in the file and holds the written bytes -/
  tensor : ∀ (i : Nat) (hi : i < ts.length) (hd : i < d.tensors.length),
    d.tensors[i].name = ts[i].name ∧ d.tensors[i].kind = ts[i].kind ∧ d.tensors[i].shape = ts[i].shape.reverse ∧
    d.tensors[i].offset % align = 0 ∧
    d.tensorOffset + d.tensors[i].offset + ts[i].data.length ≤ file.length ∧
    slice file (d.tensorOffset + d.tensors[i].offset) ts[i].data.length = ts[i].data

/-- **The round trip at full strength**: every key/value list over the eight value types the writer supports
    (keys in any order, empty strings / arrays included), every tensor list (any count, any kind, any shape, any size
    residue), every non-zero alignment, every `maxArraySize`; the only size bound is the length of the written file. -/
theorem write_decode_full (kvs : List (Bytes × KVal)) (ts : List TIn) (file : Bytes) (align : Nat) (maxArraySize : Int)
    (hnodup : (kvs.map (·.1)).Nodup)
    (hnoparam : ∀ kv ∈ kvs, kv.1 ≠ keyParamCount)
    (htv : ∀ kv ∈ kvs, TypedVal kv.2) (htt : ∀ t ∈ ts, TypedTensor t ∧ WfT t)
    (halign : alignmentIn kvs = .ok align) (hpos : 0 < align)
    (henc : encode false kvs ts = .ok file) (hlen : file.length < two63) :
    ∃ d, decode file maxArraySize none = .ok d ∧
      RoundTrip kvs ts file align (if maxArraySize = 0 then 1024 else maxArraySize) d := by
  -- the file and its parts
  obtain ⟨head, hheadd⟩ : ∃ head, head = encHead false align kvs ts := ⟨_, rfl⟩
  have hfile : file = head ++ encData align ts head.length := by
    unfold encode at henc
    simp only [writerAlignment_lenient _ _ halign, bind, Except.bind] at henc
    split at henc
    · cases henc
    · simp only [pure, Except.pure] at henc
      injection henc with h; rw [hheadd]; exact h.symm
  have hflen : file.length = head.length + (encData align ts head.length).length := by
    rw [hfile, List.length_append]
  have hheadlen : head.length = 24 + ((sortKVs kvs).flatMap encKV).length
      + (encTInfos ts (offsets false align ts 0)).length := by
    rw [hheadd]; simp [encHead, encHeader, u32le, u64le]; omega
  have hperm := sortKVs_perm kvs
  have holen : (offsets false align ts 0).length = ts.length := offsets_length _ _ _ _
  -- the size hypotheses of `decode_encode_any_order`, from the file length
  have hwkv : ∀ kv ∈ kvs, WfKV kv := by
    intro kv hkv
    have := length_le_flatMap encKV (sortKVs kvs) kv (hperm.mem_iff.mpr hkv)
    exact WfKV_of_length kv (htv kv hkv) (by omega)
  have hnk : kvs.length < two64 := by
    have := count_le_flatMap encKV (sortKVs kvs) (fun kv _ => by rw [encKV_length]; omega)
    rw [hperm.length_eq] at this
    unfold two63 at hlen; unfold two64; omega
  obtain ⟨hti1, hti2⟩ := encTInfos_bounds ts (offsets false align ts 0) holen
  have hnt : ts.length < two64 := by unfold two63 at hlen; unfold two64; omega
  have hwt : ∀ t ∈ ts, WfTensor t ∧ WfT t := by
    intro t ht
    obtain ⟨⟨h1, h2, h3⟩, h4⟩ := htt t ht
    have := hti2 t ht
    exact ⟨⟨by omega, h1, h2, h3⟩, h4⟩
  have hbase : (head.length + padding head.length align) % align = 0 := padding_aligned _ _ hpos
  have hinv : head.length + padding head.length align
      = (head.length + padding head.length align) + (0 + padding 0 align) := by
    simp [padding]
  have hofile : ∀ o ∈ offsets false align ts 0,
      (head.length + padding head.length align) + o ≤ file.length := by
    intro o ho
    have := offsets_le_encData align _ hbase ts head.length 0 hinv (fun t ht => (htt t ht).2) o ho
    omega
  have hoff : ∀ o ∈ offsets false align ts 0, o < two64 := by
    intro o ho
    have := hofile o ho
    unfold two63 at hlen; unfold two64; omega
  have hdec := decode_encode_any_order kvs ts file align maxArraySize hnodup hnoparam hwkv hwt hnk hnt halign hpos
    hoff henc hlen
  rw [← hheadd] at hdec
  refine ⟨_, hdec, ?_⟩
  have hsnd : ((sortKVs kvs).map (·.1)).Nodup := (hperm.map (·.1)).nodup_iff.mpr hnodup
  refine ⟨rfl, rfl, ⟨_, rfl⟩, ?_, ?_, ?_, hbase, ?_⟩
  · intro kv hkv
    exact kvLookup_written _ (sortKVs kvs) hsnd _ kv (hperm.mem_iff.mpr hkv)
  · intro key hkey
    rcases kvLookup_only_written _ (sortKVs kvs) _ _ key hkey with h | h
    · exact Or.inl h
    · exact Or.inr (((hperm.map (·.1)).mem_iff).mp h)
  · exact infosOf_length ts _ holen
  · intro i hi hd
    simp only [] at hd ⊢
    rw [infosOf_getElem ts _ holen i hi hd]
    have hio : i < (offsets false align ts 0).length := by omega
    have hmem : (ts[i], (offsets false align ts 0)[i]) ∈ ts.zip (offsets false align ts 0) := by
      have : (ts.zip (offsets false align ts 0))[i]'(by simp [List.length_zip]; omega)
          = (ts[i], (offsets false align ts 0)[i]) := by simp
      rw [← this]; exact List.getElem_mem _
    have homem : (offsets false align ts 0)[i] ∈ offsets false align ts 0 := List.getElem_mem _
    obtain ⟨hle, hsl⟩ := encData_slice align _ hbase ts head.length 0 hinv (fun t ht => (htt t ht).2) _ _ hmem
    refine ⟨rfl, rfl, rfl, offsets_aligned align hpos ts 0 _ homem, ?_, ?_⟩
    · -- inside the file: the slice equation pins the length unless the tensor is empty
      simp only [infoOf]
      by_cases hz : ts[i].data.length = 0
      · have := hofile _ homem; omega
      · have hl := congrArg List.length hsl
        simp only [slice, List.length_take, List.length_drop] at hl
        rw [hflen]
        omega
    · simp only [infoOf]
      rw [hfile, slice_append_right _ _ _ _ (by omega)]
      exact hsl


/-- **The property for the list the CALLER passed.**  `WriteGGUF` sorts the tensor list before writing it (stable sort by
    block index, `slices.SortStableFunc`); the model takes the written order `written` as a parameter.  Whatever order the
    sort produced — any permutation of the caller's list `ts` (the driver checks on every run that every tensor's data
    source is asked for its bytes exactly once, i.e. that the written order IS a permutation) — every tensor of the caller's
    list is found in the decoded file with its name, kind, dimension-reversed shape, at an aligned location inside the file
    that holds exactly its bytes; and nothing else is found (same count). -/
theorem write_decode_caller_list (kvs : List (Bytes × KVal)) (ts written : List TIn) (file : Bytes) (align : Nat)
    (maxArraySize : Int) (hperm : written.Perm ts)
    (hnodup : (kvs.map (·.1)).Nodup)
    (hnoparam : ∀ kv ∈ kvs, kv.1 ≠ keyParamCount)
    (htv : ∀ kv ∈ kvs, TypedVal kv.2) (htt : ∀ t ∈ ts, TypedTensor t ∧ WfT t)
    (halign : alignmentIn kvs = .ok align) (hpos : 0 < align)
    (henc : encode false kvs written = .ok file) (hlen : file.length < two63) :
    ∃ d, decode file maxArraySize none = .ok d ∧ d.endOffset = file.length ∧ d.tensors.length = ts.length ∧
      ∀ t ∈ ts, ∃ (i : Nat) (hi : i < d.tensors.length),
        d.tensors[i].name = t.name ∧ d.tensors[i].kind = t.kind ∧ d.tensors[i].shape = t.shape.reverse ∧
        d.tensors[i].offset % align = 0 ∧
        d.tensorOffset + d.tensors[i].offset + t.data.length ≤ file.length ∧
        slice file (d.tensorOffset + d.tensors[i].offset) t.data.length = t.data := by
  obtain ⟨d, hd, hr⟩ := write_decode_full kvs written file align maxArraySize hnodup hnoparam htv
    (fun t ht => htt t (hperm.mem_iff.mp ht)) halign hpos henc hlen
  refine ⟨d, hd, hr.endOffset, by rw [hr.count, hperm.length_eq], ?_⟩
  intro t ht
  have htw : t ∈ written := hperm.mem_iff.mpr ht
  obtain ⟨i, hi, hti⟩ := List.getElem_of_mem htw
  have hdi : i < d.tensors.length := by rw [hr.count]; exact hi
  have := hr.tensor i hi hdi
  rw [hti] at this
  exact ⟨i, hdi, this⟩

end OllamaVerif.Gguf
