/-
  Safety of the hardened GGUF decoder model (C10): with every guard on, and a per-allocation
  budget of at least 16 bytes per input byte, the decoder never reaches a panic site and never
  requests an allocation above the budget — for every byte string.
-/
import OllamaVerif.Model.Gguf

namespace OllamaVerif.Gguf
open OllamaVerif

def isBad : Err → Bool
  | .panic _ => true
  | .alloc _ _ => true
  | _ => false

/-- outcome is not a panic / over-budget allocation -/
def Safe {α : Type} (x : Except Err α) : Prop :=
  match x with
  | .ok _ => True
  | .error e => isBad e = false

/-- reader outcome: safe, and the remaining input did not grow beyond `n` -/
def GoodR {α : Type} (n : Nat) (x : Except Err (α × Rd)) : Prop :=
  match x with
  | .ok (_, r') => r'.rest.length ≤ n
  | .error e => isBad e = false

theorem GoodR.bind {α β : Type} {x : Except Err (α × Rd)} {f : α × Rd → Except Err (β × Rd)} {n : Nat}
    (hx : GoodR n x) (hf : ∀ a r', r'.rest.length ≤ n → GoodR n (f (a, r'))) : GoodR n (x >>= f) := by
  cases x with
  | error e => exact hx
  | ok p => obtain ⟨a, r'⟩ := p; exact hf a r' hx

theorem GoodR.safe_bind {α β : Type} {x : Except Err (α × Rd)} {f : α × Rd → Except Err β} {n : Nat}
    (hx : GoodR n x) (hf : ∀ a r', r'.rest.length ≤ n → Safe (f (a, r'))) : Safe (x >>= f) := by
  cases x with
  | error e => exact hx
  | ok p => obtain ⟨a, r'⟩ := p; exact hf a r' hx

theorem GoodR.mono {α : Type} {x : Except Err (α × Rd)} {n m : Nat} (h : GoodR n x) (hnm : n ≤ m) : GoodR m x := by
  cases x with
  | error e => exact h
  | ok p => obtain ⟨a, r'⟩ := p; exact Nat.le_trans h hnm

theorem readN_good (k : Nat) (r : Rd) : GoodR r.rest.length (readN k r) := by
  unfold readN; split
  · simp [GoodR]
  · split <;> simp [GoodR, isBad]

theorem readNCopy_good (k : Nat) (r : Rd) : GoodR r.rest.length (readNCopy k r) := by
  unfold readNCopy; split
  · simp [GoodR]
  · simp [GoodR, isBad]

theorem readUint_good (be : Bool) (w : Nat) (r : Rd) : GoodR r.rest.length (readUint be w r) := by
  unfold readUint
  have := readN_good w r
  cases h : readN w r with
  | error e => rw [h] at this; simpa [GoodR] using this
  | ok p => obtain ⟨bs, r'⟩ := p; rw [h] at this; simpa [GoodR] using this

theorem readUintIn_good (be : Bool) (w total : Nat) (r : Rd) : GoodR r.rest.length (readUintIn be w total r) := by
  unfold readUintIn; split
  · exact readUint_good be w r
  · split <;> simp [GoodR, isBad]

/-- the hardened configuration: all guards, a budget covering 16 bytes per input byte -/
structure Hard (c : Cfg) (B : Nat) : Prop where
  g : c.g = Guards.all
  b : c.budget = some B

theorem checkAlloc_ok {c : Cfg} {B : Nat} (hc : Hard c B) (site : String) (n : Nat) (h : n ≤ B) :
    checkAlloc c site n = .ok () := by
  unfold checkAlloc; rw [hc.b]; simp; omega


theorem readStrV1_good {c : Cfg} {B : Nat} (hc : Hard c B) (r : Rd) :
    GoodR r.rest.length (readStrV1 c r) := by
  unfold readStrV1
  refine GoodR.bind (readUint_good _ _ r) ?_
  intro n r' hr'
  simp only []
  split
  · simp [hc.g, Guards.all, GoodR, isBad]
  · refine GoodR.bind (GoodR.mono (readNCopy_good _ r') hr') ?_
    intro bs r'' h; simpa [GoodR, pure, Except.pure] using h

theorem readStrV23_good {c : Cfg} {B : Nat} (hc : Hard c B) (r : Rd) (hB : r.rest.length ≤ B) :
    GoodR r.rest.length (readStrV23 c r) := by
  unfold readStrV23
  refine GoodR.bind (readUint_good _ _ r) ?_
  intro n r' hr'
  simp only []
  split
  · split
    · simp [GoodR, isBad]
    · rename_i hlen hnot
      have hle : (toI64 n).toNat ≤ r'.rest.length := by
        simp only [hc.g, Guards.all, true_and, Nat.not_lt] at hnot; exact hnot
      rw [show checkAlloc c "string" (toI64 n).toNat = .ok () from checkAlloc_ok hc _ _ (by omega)]
      exact GoodR.mono (readNCopy_good _ r') hr'
  · split
    · simp [hc.g, Guards.all, GoodR, isBad]
    · exact GoodR.mono (readN_good _ r') hr'

theorem readStr_good {c : Cfg} {B : Nat} (hc : Hard c B) (r : Rd) (hB : r.rest.length ≤ B) :
    GoodR r.rest.length (readStr c r) := by
  unfold readStr; split
  · exact readStrV1_good hc r
  · exact readStrV23_good hc r hB

theorem discardStr_good (c : Cfg) (r : Rd) : GoodR r.rest.length (discardStr c r) := by
  unfold discardStr
  refine GoodR.bind (readUint_good _ _ r) ?_
  intro n r' hr'
  simp only []
  split
  · simpa [GoodR, pure, Except.pure] using hr'
  · refine GoodR.bind (GoodR.mono (readNCopy_good _ r') hr') ?_
    intro bs r'' h; simpa [GoodR, pure, Except.pure] using h

theorem readScalar_good (c : Cfg) (t w : Nat) (r : Rd) : GoodR r.rest.length (readScalar c t w r) := by
  unfold readScalar
  refine GoodR.bind (readUint_good _ _ r) ?_
  intro n r' hr'; simpa [GoodR, pure, Except.pure] using hr'

theorem readElem_good {c : Cfg} {B : Nat} (hc : Hard c B) (t : Nat) (collect : Bool) (r : Rd)
    (hB : r.rest.length ≤ B) : GoodR r.rest.length (readElem c t collect r) := by
  unfold readElem
  split
  · refine GoodR.bind (readScalar_good _ _ _ r) ?_
    intro n r' hr'; simpa [GoodR, pure, Except.pure] using hr'
  · split
    · split
      · refine GoodR.bind (readStrV1_good hc r) ?_
        intro n r' hr'; simpa [GoodR, pure, Except.pure] using hr'
      · split
        · refine GoodR.bind (readStrV23_good hc r hB) ?_
          intro n r' hr'; simpa [GoodR, pure, Except.pure] using hr'
        · refine GoodR.bind (discardStr_good c r) ?_
          intro n r' hr'; simpa [GoodR, pure, Except.pure] using hr'
    · simp [GoodR, isBad]

theorem readElems_good {c : Cfg} {B : Nat} (hc : Hard c B) (t : Nat) (collect : Bool) :
    ∀ (k : Nat) (r : Rd), r.rest.length ≤ B → GoodR r.rest.length (readElems c t collect k r) := by
  intro k
  induction k with
  | zero => intro r _; simp [readElems, GoodR]
  | succ k ih =>
    intro r hB
    unfold readElems
    refine GoodR.bind (readElem_good hc t collect r hB) ?_
    intro e r' hr'
    simp only []
    split
    · rename_i h; simp [hc.g, Guards.all] at h
    · refine GoodR.bind (GoodR.mono (ih r' (by omega)) hr') ?_
      intro es r'' h; simpa [GoodR, pure, Except.pure] using h

theorem readArr_good {c : Cfg} {B : Nat} (hc : Hard c B) (r : Rd) (hB : r.rest.length ≤ B) :
    GoodR r.rest.length (readArr c r) := by
  unfold readArr
  refine GoodR.bind (readUint_good _ _ r) ?_
  intro t r1 h1
  refine GoodR.bind (GoodR.mono (readUint_good _ _ r1) h1) ?_
  intro n r2 h2
  simp only []
  generalize (decide (c.maxArray < 0) || decide (toI64 n ≤ c.maxArray)) = collect
  have hel := GoodR.mono (readElems_good hc t collect n r2 (by omega)) h2
  cases collect with
  | false =>
    simp only [Bool.false_eq_true, false_and, ↓reduceIte]
    show GoodR _ (readElems c t false n r2 >>= _)
    refine GoodR.bind hel ?_
    intro es r3 h3; simpa [GoodR, pure, Except.pure] using h3
  | true =>
    simp only [true_and, ↓reduceIte]
    split
    · simp [hc.g, Guards.all, GoodR, isBad]
    · simp only [hc.g, Guards.all, not_true_eq_false, ↓reduceIte]
      show GoodR _ (readElems c t true n r2 >>= _)
      refine GoodR.bind hel ?_
      intro es r3 h3; simpa [GoodR, pure, Except.pure] using h3

theorem readValue_good {c : Cfg} {B : Nat} (hc : Hard c B) (t : Nat) (r : Rd) (hB : r.rest.length ≤ B) :
    GoodR r.rest.length (readValue c t r) := by
  unfold readValue
  split
  · refine GoodR.bind (readScalar_good _ _ _ r) ?_
    intro n r' hr'; simpa [GoodR, pure, Except.pure] using hr'
  · split
    · refine GoodR.bind (readStr_good hc r hB) ?_
      intro n r' hr'; simpa [GoodR, pure, Except.pure] using hr'
    · split
      · exact readArr_good hc r hB
      · simp [GoodR, isBad]

theorem readKVs_good {c : Cfg} {B : Nat} (hc : Hard c B) :
    ∀ (k : Nat) (acc : List (Bytes × Val)) (r : Rd), r.rest.length ≤ B →
      GoodR r.rest.length (readKVs c k acc r) := by
  intro k
  induction k with
  | zero => intro acc r _; simp [readKVs, GoodR]
  | succ k ih =>
    intro acc r hB
    unfold readKVs
    refine GoodR.bind (readStr_good hc r hB) ?_
    intro key r1 h1
    refine GoodR.bind (GoodR.mono (readUint_good _ _ r1) h1) ?_
    intro t r2 h2
    refine GoodR.bind (GoodR.mono (readValue_good hc t r2 (by omega)) h2) ?_
    intro v r3 h3
    exact GoodR.mono (ih _ r3 (by omega)) h3

theorem readShape_good (c : Cfg) : ∀ (k : Nat) (r : Rd), GoodR r.rest.length (readShape c k r) := by
  intro k
  induction k with
  | zero => intro r; simp [readShape, GoodR]
  | succ k ih =>
    intro r
    unfold readShape
    refine GoodR.bind (readUint_good _ _ r) ?_
    intro d r1 h1
    refine GoodR.bind (GoodR.mono (ih r1) h1) ?_
    intro ds r2 h2; simpa [GoodR, pure, Except.pure] using h2

theorem readTensor_good {c : Cfg} {B : Nat} (hc : Hard c B) (r : Rd) (hB : r.rest.length ≤ B) :
    GoodR r.rest.length (readTensor c r) := by
  unfold readTensor
  refine GoodR.bind (readStr_good hc r hB) ?_
  intro name r1 h1
  refine GoodR.bind (GoodR.mono (readUint_good _ _ r1) h1) ?_
  intro dims r2 h2
  simp only []
  split
  · split <;> simp [GoodR, isBad]
  · rename_i hd
    simp only [hc.g, Guards.all, true_and, Nat.not_lt] at hd
    rw [show checkAlloc c "shape" (8 * dims) = .ok () from checkAlloc_ok hc _ _ (by omega)]
    show GoodR _ (readShape c dims r2 >>= _)
    refine GoodR.bind (GoodR.mono (readShape_good c dims r2) h2) ?_
    intro shape r3 h3
    refine GoodR.bind (GoodR.mono (readUint_good _ _ r3) h3) ?_
    intro kind r4 h4
    refine GoodR.bind (GoodR.mono (readUint_good _ _ r4) h4) ?_
    intro off r5 h5; simpa [GoodR, pure, Except.pure] using h5

theorem readTensors_good {c : Cfg} {B : Nat} (hc : Hard c B) :
    ∀ (k : Nat) (r : Rd), r.rest.length ≤ B → GoodR r.rest.length (readTensors c k r) := by
  intro k
  induction k with
  | zero => intro r _; simp [readTensors, GoodR]
  | succ k ih =>
    intro r hB
    unfold readTensors
    refine GoodR.bind (readTensor_good hc r hB) ?_
    intro t r1 h1
    refine GoodR.bind (GoodR.mono (ih r1 (by omega)) h1) ?_
    intro ts r2 h2; simpa [GoodR, pure, Except.pure] using h2

theorem seekTensors_safe (g : Guards) (align : Nat) : ∀ (ts : List TInfo) (pos : Nat), Safe (seekTensors g align ts pos) := by
  intro ts
  induction ts with
  | nil => intro pos; simp [seekTensors, Safe]
  | cons t ts ih =>
    intro pos
    unfold seekTensors
    simp only []
    split
    · simp [Safe, isBad]
    · split
      · simp [Safe, isBad]
      · exact ih _

theorem alignmentOf_safe (kvs : List (Bytes × Val)) : Safe (alignmentOf Guards.all kvs) := by
  unfold alignmentOf
  split <;> simp [Safe, Guards.all, isBad]

theorem decodeBody_safe {c : Cfg} {B : Nat} (hc : Hard c B) (numKV numTensor : Nat) (r : Rd)
    (hB : r.rest.length ≤ B) : Safe (decodeBody c numKV numTensor r) := by
  unfold decodeBody
  refine GoodR.safe_bind (readKVs_good hc numKV [] r hB) ?_
  intro kvs r1 h1
  refine GoodR.safe_bind (GoodR.mono (readTensors_good hc numTensor r1 (by omega)) h1) ?_
  intro ts r2 h2
  simp only []
  have ha := alignmentOf_safe (kvInsert kvs keyParamCount (Val.scalar 10 (sumParameters ts)))
  rw [hc.g]
  cases hal : alignmentOf Guards.all (kvInsert kvs keyParamCount (Val.scalar 10 (sumParameters ts))) with
  | error e => rw [hal] at ha; simpa [Safe, bind, Except.bind] using ha
  | ok align =>
    simp only [bind, Except.bind]
    split
    · simp [Safe, Guards.all, isBad]
    · have hs := seekTensors_safe Guards.all align ts r2.pos
      cases hse : seekTensors Guards.all align ts r2.pos with
      | error e => rw [hse] at hs; simpa [Safe] using hs
      | ok e => simp [Safe, pure, Except.pure]

/-- decoder safety from any reader state (the file positioned anywhere): what `ggufLayers` relies on
    for the second and later models of an upload -/
theorem decodeFrom_safe_all (r : Rd) (maxArraySize : Int) (B : Nat) (hB : r.rest.length ≤ B) :
    Safe (decodeFrom r maxArraySize (some B) Guards.all) := by
  unfold decodeFrom
  simp only []
  refine GoodR.safe_bind (readUint_good false 4 r) ?_
  intro magic r1 h1
  split
  · simp [Safe, isBad]
  · refine GoodR.safe_bind (GoodR.mono (readUint_good _ 4 r1) h1) ?_
    intro version r2 h2
    refine GoodR.safe_bind (GoodR.mono (readUintIn_good _ _ _ r2) h2) ?_
    intro nT r3 h3
    refine GoodR.safe_bind (GoodR.mono (readUint_good _ _ r3) h3) ?_
    intro nKV r4 h4
    exact decodeBody_safe ⟨rfl, rfl⟩ nKV nT r4 (by omega)

/-- **Decoder safety (hardened variant), for every byte string.** -/
theorem decode_safe_all (bs : Bytes) (maxArraySize : Int) (B : Nat) (hB : bs.length ≤ B) :
    Safe (decode bs maxArraySize (some B) Guards.all) :=
  decodeFrom_safe_all ⟨bs, 0⟩ maxArraySize B hB

end OllamaVerif.Gguf
