/-
  C14 — helper lemmas for the model in Model/Stop.lean (core Lean only).
  A. the UTF-8 automaton and `incompleteUnicode`;  B. `trimValid` / `flushChunk`;
  C. occurrence combinatorics (`indexOf`, `contains`, prefixes of stops at the end of the text);
  D. `truncateStop`.
-/
import OllamaVerif.Model.Stop

namespace OllamaVerif.Stop
open OllamaVerif

/-! ## A. bytes, the UTF-8 automaton, IncompleteUnicode -/

theorem u8_all (P : UInt8 → Prop) [DecidablePred P] (h : ∀ n : Fin 256, P (UInt8.ofNat n.val)) :
    ∀ b : UInt8, P b := by
  intro b
  have := h ⟨b.toNat, b.toNat_lt⟩
  simpa using this

/-- a byte in 80..BF is a continuation byte for `IncompleteUnicode` -/
theorem cont_of_range : ∀ b : UInt8, 0x80 ≤ b → b ≤ 0xBF → (b &&& 0xc0 == 0x80) = true := by
  apply u8_all; decide +kernel

/-- every range list the automaton can be in: at most 3 ranges, all inside 80..BF -/
def Good (st : Ranges) : Prop := st.length ≤ 3 ∧ ∀ r ∈ st, 0x80 ≤ r.1 ∧ r.2 ≤ 0xBF

/-- per-byte facts about accepted lead bytes, in decidable form -/
def leadFacts (b : UInt8) : Bool :=
  match leadRanges b with
  | none => true
  | some st =>
    decide (st.length ≤ 3) && st.all (fun r => decide (0x80 ≤ r.1) && decide (r.2 ≤ 0xBF))
      && !(b &&& 0xc0 == 0x80)
      && (if b &&& 0xe0 == 0xc0 then st.length == 1
          else if b &&& 0xf0 == 0xe0 then st.length == 2
          else if b &&& 0xf8 == 0xf0 then st.length == 3
          else st.length == 0)

theorem leadFacts_all : ∀ b : UInt8, leadFacts b = true := by
  apply u8_all; decide +kernel

/-- what `IncompleteUnicode` computes at a lead byte, for every lead the automaton accepts:
    at distance `k+1` from the end, a lead that still needs `n` more bytes is reported incomplete iff `k < n`. -/
theorem lead_incomplete (b : UInt8) (st : Ranges) (h : leadRanges b = some st) :
    Good st ∧ (!(b &&& 0xc0 == 0x80)) = true ∧
      ∀ k, k < st.length → ∀ tl, incompleteAux (k + 1) (b :: tl) = true := by
  have hf := leadFacts_all b
  simp only [leadFacts, h, Bool.and_eq_true, decide_eq_true_eq, List.all_eq_true] at hf
  obtain ⟨⟨⟨hlen, hall⟩, hnc⟩, hcls⟩ := hf
  refine ⟨⟨hlen, fun r hr => by simpa using hall r hr⟩, hnc, ?_⟩
  intro k hk tl
  have hnc' : (b &&& 0xc0 == 0x80) = false := by simpa using hnc
  unfold incompleteAux
  have h5 : ¬ (k + 1 ≥ 5) := by omega
  simp only [h5, if_false, hnc']
  split at hcls
  · rename_i h1; simp only [h1, if_true]; have : st.length = 1 := by simpa using hcls
    simp; omega
  · rename_i h1
    split at hcls
    · rename_i h2; simp only [h1, h2, if_true]; have : st.length = 2 := by simpa using hcls
      simp; omega
    · rename_i h2
      split at hcls
      · rename_i h3; simp only [h1, h2, h3, if_true]; have : st.length = 3 := by simpa using hcls
        simp; omega
      · have : st.length = 0 := by simpa using hcls
        omega

theorem utf8Run_append (st : Option Ranges) (a b : Bytes) :
    utf8Run st (a ++ b) = utf8Run (utf8Run st a) b := by
  simp [utf8Run, List.foldl_append]

@[simp] theorem utf8Run_nil (st : Option Ranges) : utf8Run st [] = st := rfl

theorem utf8Run_none (l : Bytes) : utf8Run none l = none := by
  induction l with
  | nil => rfl
  | cons b l ih => simpa [utf8Run, utf8Step] using ih

theorem utf8Run_snoc (st : Option Ranges) (a : Bytes) (b : UInt8) :
    utf8Run st (a ++ [b]) = utf8Step (utf8Run st a) b := by
  simp [utf8Run, List.foldl_append]

theorem validUtf8_iff (l : Bytes) : validUtf8 l = true ↔ utf8Run (some []) l = some [] := by
  simp [validUtf8]

@[simp] theorem validUtf8_nil : validUtf8 [] = true := by decide

theorem validUtf8_append {a b : Bytes} (ha : validUtf8 a = true) (hb : validUtf8 b = true) :
    validUtf8 (a ++ b) = true := by
  rw [validUtf8_iff] at *
  rw [utf8Run_append, ha, hb]

/-- after a valid prefix the rest is judged on its own -/
theorem validUtf8_append_left {a : Bytes} (ha : validUtf8 a = true) (b : Bytes) :
    validUtf8 (a ++ b) = validUtf8 b := by
  rw [validUtf8_iff] at ha
  simp [validUtf8, utf8Run_append, ha]

/-- `g` is a prefix of some valid UTF-8 string (valid up to a trailing incomplete character) -/
def ValidPrefix (g : Bytes) : Prop := ∃ r, validUtf8 (g ++ r) = true

theorem ValidPrefix.left {a b : Bytes} (h : ValidPrefix (a ++ b)) : ValidPrefix a := by
  obtain ⟨r, hr⟩ := h
  exact ⟨b ++ r, by simpa [List.append_assoc] using hr⟩

theorem ValidPrefix.right {a b : Bytes} (ha : validUtf8 a = true) (h : ValidPrefix (a ++ b)) :
    ValidPrefix b := by
  obtain ⟨r, hr⟩ := h
  exact ⟨r, by rw [List.append_assoc, validUtf8_append_left ha] at hr; exact hr⟩

theorem ValidPrefix.of_valid {a : Bytes} (h : validUtf8 a = true) : ValidPrefix a :=
  ⟨[], by simpa using h⟩

theorem ValidPrefix.run_some {a : Bytes} (h : ValidPrefix a) : ∃ st, utf8Run (some []) a = some st := by
  obtain ⟨r, hr⟩ := h
  rw [validUtf8_iff, utf8Run_append] at hr
  cases hst : utf8Run (some []) a with
  | none => rw [hst, utf8Run_none] at hr; cases hr
  | some st => exact ⟨st, rfl⟩

theorem snoc_induction {α} {P : List α → Prop} (nil : P [])
    (append_singleton : ∀ a b, P a → P (a ++ [b])) : ∀ l, P l := by
  have h : ∀ l : List α, P l.reverse := by
    intro l
    induction l with
    | nil => exact nil
    | cons b l ih => simpa using append_singleton _ b ih
  intro l
  simpa using h l.reverse

/-- reachable automaton states are `Good` -/
theorem good_of_run (a : Bytes) : ∀ st, utf8Run (some []) a = some st → Good st := by
  induction a using snoc_induction with
  | nil => intro st h; cases h; exact ⟨by simp, by simp⟩
  | append_singleton a b ih =>
    intro st h
    rw [utf8Run_snoc] at h
    cases hst' : utf8Run (some []) a with
    | none => rw [hst'] at h; cases h
    | some st' =>
      rw [hst'] at h
      have hg := ih st' hst'
      cases st' with
      | nil => exact (lead_incomplete b st h).1
      | cons r rest =>
        obtain ⟨lo, hi⟩ := r
        simp only [utf8Step] at h
        split at h
        · cases h
          exact ⟨by have := hg.1; simp at this; omega, fun r hr => hg.2 r (List.mem_cons_of_mem _ hr)⟩
        · cases h

/-- the automaton state counts the bytes still missing; `IncompleteUnicode` sees them -/
theorem incomplete_of_run (a : Bytes) : ∀ st, utf8Run (some []) a = some st →
    ∀ k, k < st.length → incompleteAux (k + 1) a.reverse = true := by
  induction a using snoc_induction with
  | nil => intro st h; cases h; intro k hk; simp at hk
  | append_singleton a b ih =>
    intro st h k hk
    rw [utf8Run_snoc] at h
    cases hst' : utf8Run (some []) a with
    | none => rw [hst'] at h; cases h
    | some st' =>
      rw [hst'] at h
      have hg := good_of_run a st' hst'
      simp only [List.reverse_append, List.reverse_cons, List.reverse_nil, List.nil_append,
        List.singleton_append]
      cases st' with
      | nil => exact (lead_incomplete b st h).2.2 k hk _
      | cons r rest =>
        obtain ⟨lo, hi⟩ := r
        simp only [utf8Step] at h
        split at h
        · rename_i hc
          cases h
          have hr := hg.2 (lo, hi) (List.mem_cons_self ..)
          have hcont := cont_of_range b (UInt8.le_trans hr.1 hc.1) (UInt8.le_trans hc.2 hr.2)
          have hlen := hg.1
          simp only [List.length_cons] at hlen
          have := ih (((lo, hi)) :: st) hst' (k + 1) (by simp; omega)
          unfold incompleteAux
          have h5 : ¬ (k + 1 ≥ 5) := by omega
          simp only [h5, if_false, hcont, if_true]
          exact this
        · cases h

/-- **Key fact for the unicode hold.** On a prefix of valid UTF-8, "IncompleteUnicode is false"
    means the text is valid as it stands (no character is cut). -/
theorem valid_of_not_incomplete {a : Bytes} (hp : ValidPrefix a)
    (hi : incompleteUnicode a = false) : validUtf8 a = true := by
  obtain ⟨st, hst⟩ := hp.run_some
  rw [validUtf8_iff, hst]
  cases st with
  | nil => rfl
  | cons r rest =>
    have := incomplete_of_run a _ hst 0 (by simp)
    simp [incompleteUnicode] at hi
    rw [hi] at this; cases this

/-- and conversely a valid text is never held back by `IncompleteUnicode`… is NOT needed and not
    claimed: `IncompleteUnicode` only looks at byte classes. -/
theorem first_byte_of_valid {c : UInt8} {s : Bytes} (h : ValidPrefix (c :: s)) :
    ∃ st, leadRanges c = some st := by
  obtain ⟨st, hst⟩ := h.run_some
  have : utf8Run (some []) (c :: s) = utf8Run (leadRanges c) s := rfl
  rw [this] at hst
  cases hl : leadRanges c with
  | none => rw [hl, utf8Run_none] at hst; cases hst
  | some st' => exact ⟨st', rfl⟩

/-- **Self-synchronisation.** If a text that is a prefix of valid UTF-8 is cut right before an
    occurrence of a non-empty valid string, the part before the cut is valid. -/
theorem valid_before_valid {a s : Bytes} (hs : validUtf8 s = true) (hne : s ≠ [])
    (h : ValidPrefix (a ++ s)) : validUtf8 a = true := by
  obtain ⟨st, hst⟩ := h.left.run_some
  rw [validUtf8_iff, hst]
  cases st with
  | nil => rfl
  | cons r rest =>
    exfalso
    obtain ⟨lo, hi⟩ := r
    have hg := good_of_run a _ hst
    cases s with
    | nil => exact hne rfl
    | cons c s' =>
      obtain ⟨stc, hc⟩ := first_byte_of_valid (ValidPrefix.of_valid hs)
      have hnc := (lead_incomplete c stc hc).2.1
      obtain ⟨st2, hst2⟩ := h.run_some
      rw [utf8Run_append, hst] at hst2
      have : utf8Run (some ((lo, hi) :: rest)) (c :: s') = utf8Run (utf8Step (some ((lo, hi) :: rest)) c) s' := rfl
      rw [this] at hst2
      simp only [utf8Step] at hst2
      split at hst2
      · rename_i hcond
        have hr := hg.2 (lo, hi) (List.mem_cons_self ..)
        have := cont_of_range c (UInt8.le_trans hr.1 hcond.1) (UInt8.le_trans hcond.2 hr.2)
        rw [this] at hnc; cases hnc
      · rw [utf8Run_none] at hst2; cases hst2

/-! ## B. trimValid / flushChunk -/

theorem trimTo_valid (l : Bytes) (n : Nat) : validUtf8 (trimTo l n) = true := by
  induction n with
  | zero => simp [trimTo]
  | succ n ih =>
    unfold trimTo
    split
    · assumption
    · exact ih

theorem trimTo_take (l : Bytes) (n : Nat) : ∃ m, m ≤ n ∧ trimTo l n = l.take m := by
  induction n with
  | zero => exact ⟨0, Nat.le_refl _, by simp [trimTo]⟩
  | succ n ih =>
    unfold trimTo
    split
    · exact ⟨n + 1, Nat.le_refl _, rfl⟩
    · obtain ⟨m, hm, h⟩ := ih
      exact ⟨m, by omega, h⟩

theorem trimValid_valid (l : Bytes) : validUtf8 (trimValid l) = true := trimTo_valid l _

theorem trimValid_prefix (l : Bytes) : trimValid l <+: l := by
  obtain ⟨m, _, h⟩ := trimTo_take l l.length
  rw [trimValid, h]
  exact List.take_prefix m l

theorem trimValid_of_valid {l : Bytes} (h : validUtf8 l = true) : trimValid l = l := by
  unfold trimValid
  cases hl : l.length with
  | zero => simp [trimTo, List.eq_nil_of_length_eq_zero hl]
  | succ n =>
    unfold trimTo
    have : l.take (n + 1) = l := by rw [← hl]; exact List.take_length
    rw [this, if_pos h]

theorem trimTo_append_valid {a : Bytes} (ha : validUtf8 a = true) (b : Bytes) (n : Nat) :
    trimTo (a ++ b) (a.length + n) = a ++ trimTo b n := by
  induction n with
  | zero =>
    simp only [Nat.add_zero, trimTo, List.append_nil]
    cases hl : a.length with
    | zero => simp [trimTo, List.eq_nil_of_length_eq_zero hl]
    | succ m =>
      unfold trimTo
      have : (a ++ b).take (m + 1) = a := by rw [← hl]; simp
      rw [this, if_pos ha]
  | succ n ih =>
    have e : a.length + (n + 1) = (a.length + n) + 1 := by omega
    rw [e]
    unfold trimTo
    have : (a ++ b).take (a.length + n + 1) = a ++ b.take (n + 1) := by
      rw [List.take_append]
      have h1 : a.take (a.length + n + 1) = a := List.take_of_length_le (by omega)
      have h2 : a.length + n + 1 - a.length = n + 1 := by omega
      rw [h1, h2]
    rw [this, validUtf8_append_left ha]
    split
    · rfl
    · exact ih

theorem trimValid_append_valid {a : Bytes} (ha : validUtf8 a = true) (b : Bytes) :
    trimValid (a ++ b) = a ++ trimValid b := by
  unfold trimValid
  rw [List.length_append, trimTo_append_valid ha]

/-- the text a flush adds to the output -/
def flushText (pending : List Bytes) : Bytes := trimValid pending.flatten

theorem flush_out (st : St) : st.flush.out.flatten = st.out.flatten ++ flushText st.pending := by
  unfold St.flush flushChunk flushText
  simp only
  split
  · rename_i h
    split at h
    · rename_i he
      simp [List.isEmpty_iff.mp he]
    · cases h
  · rename_i c h
    split at h
    · cases h
    · cases h; simp

theorem flush_out_chunks (st : St) :
    st.flush.out = st.out ∨ ∃ c, st.flush.out = st.out ++ [c] ∧ validUtf8 c = true ∧ c ≠ [] := by
  unfold St.flush flushChunk
  simp only
  split
  · left; rfl
  · rename_i c h
    right
    split at h
    · cases h
    · rename_i hne
      cases h
      exact ⟨_, rfl, trimValid_valid _, by intro h0; rw [h0] at hne; exact hne rfl⟩

@[simp] theorem flush_pending (st : St) : st.flush.pending = [] := by
  unfold St.flush; split <;> rfl
@[simp] theorem flush_gen (st : St) : st.flush.gen = st.gen := by
  unfold St.flush; split <;> rfl
@[simp] theorem flush_np (st : St) : st.flush.numPredicted = st.numPredicted := by
  unfold St.flush; split <;> rfl
@[simp] theorem flush_done (st : St) : st.flush.done = st.done := by
  unfold St.flush; split <;> rfl
@[simp] theorem flush_cause (st : St) : st.flush.cause = st.cause := by
  unfold St.flush; split <;> rfl

/-! ## C. occurrences -/

/-- `sub` occurs in `s` -/
def Occurs (sub s : Bytes) : Prop := ∃ a b, s = a ++ sub ++ b

theorem indexOf_spec (sub : Bytes) : ∀ (s : Bytes) (i : Nat), indexOf sub s = some i →
    (∃ a b, s = a ++ sub ++ b ∧ a.length = i) ∧ ∀ a' b', s = a' ++ sub ++ b' → i ≤ a'.length := by
  intro s
  induction s with
  | nil =>
    intro i h
    simp only [indexOf] at h
    split at h
    · rename_i he
      cases h
      exact ⟨⟨[], [], by simp [List.isEmpty_iff.mp he], rfl⟩, fun _ _ _ => Nat.zero_le _⟩
    · cases h
  | cons c t ih =>
    intro i h
    simp only [indexOf] at h
    split at h
    · rename_i hp
      cases h
      obtain ⟨b, hb⟩ := List.isPrefixOf_iff_prefix.mp hp
      exact ⟨⟨[], b, by simp [hb], rfl⟩, fun _ _ _ => Nat.zero_le _⟩
    · rename_i hp
      split at h
      · rename_i j hj
        cases h
        obtain ⟨⟨a, b, hab, hlen⟩, hmin⟩ := ih j hj
        refine ⟨⟨c :: a, b, by simp [hab], by simp [hlen]⟩, ?_⟩
        intro a' b' h'
        cases a' with
        | nil =>
          exfalso; apply hp
          exact List.isPrefixOf_iff_prefix.mpr ⟨b', by simpa using h'.symm⟩
        | cons c' a'' =>
          simp only [List.cons_append, List.cons.injEq] at h'
          have := hmin a'' b' h'.2
          simp; omega
      · cases h

theorem indexOf_none (sub : Bytes) : ∀ (s : Bytes), indexOf sub s = none → ¬ Occurs sub s := by
  intro s
  induction s with
  | nil =>
    intro h ⟨a, b, hab⟩
    simp only [indexOf] at h
    split at h
    · cases h
    · rename_i he
      have : sub = [] := by
        have := congrArg List.length hab
        simp at this
        exact List.eq_nil_of_length_eq_zero (by omega)
      exact he (by simp [this])
  | cons c t ih =>
    intro h ⟨a, b, hab⟩
    simp only [indexOf] at h
    split at h
    · cases h
    · rename_i hp
      split at h
      · cases h
      · rename_i hn
        cases a with
        | nil => exact hp (List.isPrefixOf_iff_prefix.mpr ⟨b, by simpa using hab.symm⟩)
        | cons c' a' =>
          simp only [List.cons_append, List.cons.injEq] at hab
          exact ih hn ⟨a', b, hab.2⟩

theorem contains_iff (s sub : Bytes) : contains s sub = true ↔ Occurs sub s := by
  unfold contains
  cases h : indexOf sub s with
  | none => simp; exact indexOf_none sub s h
  | some i =>
    simp
    obtain ⟨⟨a, b, hab, _⟩, _⟩ := indexOf_spec sub s i h
    exact ⟨a, b, hab⟩

theorem occurs_of_indexOf {sub s : Bytes} {i : Nat} (h : indexOf sub s = some i) : Occurs sub s := by
  obtain ⟨⟨a, b, hab, _⟩, _⟩ := indexOf_spec sub s i h
  exact ⟨a, b, hab⟩

theorem Occurs.indexOf {sub s : Bytes} (h : Occurs sub s) : ∃ i, indexOf sub s = some i := by
  cases hi : Stop.indexOf sub s with
  | none => exact absurd h (indexOf_none sub s hi)
  | some i => exact ⟨i, rfl⟩

theorem Occurs.append_left {sub s : Bytes} (x : Bytes) (h : Occurs sub s) : Occurs sub (x ++ s) := by
  obtain ⟨a, b, hab⟩ := h
  exact ⟨x ++ a, b, by simp [hab]⟩

theorem Occurs.append_right {sub s : Bytes} (x : Bytes) (h : Occurs sub s) : Occurs sub (s ++ x) := by
  obtain ⟨a, b, hab⟩ := h
  exact ⟨a, b ++ x, by simp [hab]⟩

theorem findStop_none {seq : Bytes} {stops : List Bytes} (h : findStop seq stops = none) :
    ∀ t ∈ stops, ¬ Occurs t seq := by
  intro t ht ho
  have := List.find?_eq_none.mp h t ht
  exact this ((contains_iff seq t).mpr ho)

theorem findStop_some {seq s : Bytes} {stops : List Bytes} (h : findStop seq stops = some s) :
    s ∈ stops ∧ Occurs s seq :=
  ⟨List.mem_of_find?_eq_some h, (contains_iff seq s).mp (List.find?_some h)⟩

theorem findStop_congr {seq seq' : Bytes} {stops : List Bytes}
    (h : ∀ t ∈ stops, Occurs t seq ↔ Occurs t seq') : findStop seq stops = findStop seq' stops := by
  unfold findStop
  induction stops with
  | nil => rfl
  | cons t ts ih =>
    have ht : contains seq t = contains seq' t := by
      have := h t (List.mem_cons_self ..)
      rw [← contains_iff, ← contains_iff] at this
      exact Bool.eq_iff_iff.mpr this
    simp only [List.find?, ht]
    split
    · rfl
    · exact ih (fun t' ht' => h t' (List.mem_cons_of_mem _ ht'))

/-! the repaired variant -/

theorem earliestAux_sound (seq : Bytes) (S : List Bytes) : ∀ (stops : List Bytes) (best : Option (Nat × Bytes)),
    (∀ t ∈ stops, t ∈ S) → (∀ j s, best = some (j, s) → indexOf s seq = some j ∧ s ∈ S) →
    ∀ j s, earliestAux seq stops best = some (j, s) → indexOf s seq = some j ∧ s ∈ S := by
  intro stops
  induction stops with
  | nil => intro best _ hb j s h; exact hb j s h
  | cons t ts ih =>
    intro best hS hb
    unfold earliestAux
    apply ih _ (fun t' ht' => hS t' (List.mem_cons_of_mem _ ht'))
    intro j s h
    cases hi : indexOf t seq with
    | none => rw [hi] at h; exact hb j s h
    | some i =>
      rw [hi] at h
      cases best with
      | none => simp at h; obtain ⟨rfl, rfl⟩ := h; exact ⟨hi, hS _ (List.mem_cons_self ..)⟩
      | some b =>
        obtain ⟨j', s'⟩ := b
        simp only at h
        split at h
        · simp at h; obtain ⟨rfl, rfl⟩ := h; exact ⟨hi, hS _ (List.mem_cons_self ..)⟩
        · exact hb j s h

theorem earliestAux_none (seq : Bytes) : ∀ (stops : List Bytes) (best : Option (Nat × Bytes)),
    earliestAux seq stops best = none → best = none ∧ ∀ t ∈ stops, indexOf t seq = none := by
  intro stops
  induction stops with
  | nil => intro best h; exact ⟨h, by simp⟩
  | cons t ts ih =>
    intro best h
    unfold earliestAux at h
    obtain ⟨h1, h2⟩ := ih _ h
    cases hi : indexOf t seq with
    | none =>
      rw [hi] at h1
      exact ⟨h1, fun t' ht' => by
        rcases List.mem_cons.mp ht' with rfl | h'
        · exact hi
        · exact h2 t' h'⟩
    | some i =>
      rw [hi] at h1
      cases best with
      | none => simp at h1
      | some b => obtain ⟨j', s'⟩ := b; simp only at h1; split at h1 <;> cases h1

theorem earliestAux_min (seq : Bytes) : ∀ (stops : List Bytes) (best : Option (Nat × Bytes)) (i : Nat) (s : Bytes),
    earliestAux seq stops best = some (i, s) →
    (∀ j s', best = some (j, s') → i ≤ j) ∧ ∀ t ∈ stops, ∀ j, indexOf t seq = some j → i ≤ j := by
  intro stops
  induction stops with
  | nil => intro best i s h; exact ⟨fun j s' hb => (by rw [hb] at h; cases h; exact Nat.le_refl _), by simp⟩
  | cons t ts ih =>
    intro best i s h
    unfold earliestAux at h
    obtain ⟨h1, h2⟩ := ih _ i s h
    cases hi : indexOf t seq with
    | none =>
      rw [hi] at h1
      refine ⟨h1, fun t' ht' j hj => ?_⟩
      rcases List.mem_cons.mp ht' with rfl | h'
      · rw [hi] at hj; cases hj
      · exact h2 t' h' j hj
    | some k =>
      rw [hi] at h1
      cases best with
      | none =>
        have := h1 k t rfl
        refine ⟨fun _ _ hb => (by cases hb), fun t' ht' j hj => ?_⟩
        rcases List.mem_cons.mp ht' with rfl | h'
        · rw [hi] at hj; cases hj; exact this
        · exact h2 t' h' j hj
      | some b =>
        obtain ⟨j', s'⟩ := b
        simp only at h1
        by_cases hlt : k < j'
        · rw [if_pos hlt] at h1
          have := h1 k t rfl
          refine ⟨fun j s'' hb => (by cases hb; omega), fun t' ht' j hj => ?_⟩
          rcases List.mem_cons.mp ht' with rfl | h'
          · rw [hi] at hj; cases hj; exact this
          · exact h2 t' h' j hj
        · rw [if_neg hlt] at h1
          have := h1 j' s' rfl
          refine ⟨fun j s'' hb => (by cases hb; exact this), fun t' ht' j hj => ?_⟩
          rcases List.mem_cons.mp ht' with rfl | h'
          · rw [hi] at hj; cases hj; omega
          · exact h2 t' h' j hj

theorem findStopV_some {pinned : Bool} {seq s : Bytes} {stops : List Bytes}
    (h : findStopV pinned seq stops = some s) : s ∈ stops ∧ Occurs s seq := by
  unfold findStopV at h
  split at h
  · exact findStop_some h
  · unfold findStopEarliest at h
    cases he : earliestAux seq stops none with
    | none => rw [he] at h; cases h
    | some b =>
      obtain ⟨j, s'⟩ := b
      rw [he] at h; simp at h; subst h
      obtain ⟨hi, hm⟩ := earliestAux_sound seq stops stops none (fun _ h => h) (by simp) j s' he
      exact ⟨hm, (contains_iff seq s').mp (by simp [contains, hi])⟩

theorem findStopV_none {pinned : Bool} {seq : Bytes} {stops : List Bytes}
    (h : findStopV pinned seq stops = none) : ∀ t ∈ stops, ¬ Occurs t seq := by
  unfold findStopV at h
  split at h
  · exact findStop_none h
  · unfold findStopEarliest at h
    cases he : earliestAux seq stops none with
    | some b => rw [he] at h; simp at h
    | none =>
      intro t ht ho
      have := (earliestAux_none seq stops none he).2 t ht
      obtain ⟨i, hi⟩ := ho.indexOf
      rw [hi] at this; cases this

/-- the repaired `FindStop` returns a listed stop whose first occurrence is the earliest of all -/
theorem findStopEarliest_spec {seq s : Bytes} {stops : List Bytes} (h : findStopEarliest seq stops = some s) :
    s ∈ stops ∧ ∃ i, indexOf s seq = some i ∧ ∀ t ∈ stops, ∀ j, indexOf t seq = some j → i ≤ j := by
  unfold findStopEarliest at h
  cases he : earliestAux seq stops none with
  | none => rw [he] at h; cases h
  | some b =>
    obtain ⟨i, s'⟩ := b
    rw [he] at h; simp at h; subst h
    obtain ⟨hi, hm⟩ := earliestAux_sound seq stops stops none (fun _ h => h) (by simp) i s' he
    exact ⟨hm, i, hi, (earliestAux_min seq stops none i s' he).2⟩

theorem stopSuffix_false {seq : Bytes} {stops : List Bytes} (h : containsStopSuffix seq stops = false) :
    ∀ t ∈ stops, ∀ i, 1 ≤ i → i ≤ t.length → ¬ (t.take i <:+ seq) := by
  intro t ht i h1 hi hs
  unfold containsStopSuffix at h
  have h2 := List.any_eq_false.mp h t ht
  apply h2
  apply List.any_eq_true.mpr
  refine ⟨i - 1, List.mem_range.mpr (by omega), ?_⟩
  have : i - 1 + 1 = i := by omega
  rw [this]
  exact List.isSuffixOf_iff_suffix.mpr hs

/-- a suffix of `o ++ p` no longer than `p` is a suffix of `p` -/
theorem suffix_of_append_short {x o p : Bytes} (h : x <:+ o ++ p) (hl : x.length ≤ p.length) : x <:+ p := by
  obtain ⟨w, hw⟩ := h
  rcases List.append_eq_append_iff.mp hw with ⟨as, h1, h2⟩ | ⟨bs, h1, h2⟩
  · -- o = w ++ as, x = as ++ p
    have := congrArg List.length h2
    simp at this
    have : as = [] := List.eq_nil_of_length_eq_zero (by omega)
    subst this
    simp at h2; subst h2
    exact List.suffix_refl _
  · exact ⟨bs, h2.symm⟩

/-- the invariant about partially matched stops: a non-empty prefix of a stop at the very end of
    the generated text lies entirely in the pending (unsent) part -/
def Held (stops : List Bytes) (g : Bytes) (pendLen : Nat) : Prop :=
  ∀ t ∈ stops, ∀ i, 1 ≤ i → i ≤ t.length → t.take i <:+ g → i ≤ pendLen

/-- appending a piece keeps `Held` when the piece is kept pending -/
theorem Held.append {stops : List Bytes} {g : Bytes} {n : Nat} (h : Held stops g n) (p : Bytes) :
    Held stops (g ++ p) (n + p.length) := by
  intro t ht i h1 hi hs
  obtain ⟨w, hw⟩ := hs
  have hlen : (t.take i).length = i := by simp; omega
  rcases List.append_eq_append_iff.mp hw with ⟨as, h1', h2⟩ | ⟨bs, h1', h2⟩
  · -- g = w ++ as... no: w ++ take = g ++ p with g = w ++ as?  (ws=w, xs=take, ys=g, zs=p)
    -- g = w ++ as ∧ take = as ++ p
    have hl := congrArg List.length h2
    rw [hlen] at hl
    simp at hl
    by_cases has : as.length = 0
    · omega
    · have hpre : as = t.take as.length := by
        have := congrArg (List.take as.length) h2
        simp [List.take_take] at this
        rw [Nat.min_eq_left (by omega)] at this
        exact this.symm
      have := h t ht as.length (by omega) (by omega) (by rw [← hpre]; exact ⟨w, h1'.symm⟩)
      omega
  · -- w = g ++ bs ∧ p = bs ++ take
    have hl := congrArg List.length h2
    rw [List.length_append, hlen] at hl
    omega

/-- the occurrence lemma: under the two invariants, an occurrence of a stop in `o ++ pend ++ p`
    starts inside `pend ++ p` -/
theorem occurrence_in_pending {stops : List Bytes} {o pend p t a b : Bytes} (ht : t ∈ stops)
    (hno : ¬ Occurs t (o ++ pend)) (hheld : Held stops (o ++ pend) pend.length)
    (h : (o ++ pend) ++ p = a ++ t ++ b) : ∃ z, a = o ++ z ∧ pend ++ p = z ++ t ++ b := by
  have key : o.length ≤ a.length := by
    rw [List.append_assoc a t b] at h
    rcases List.append_eq_append_iff.mp h with ⟨as, h1, h2⟩ | ⟨bs, h1, h2⟩
    · -- a = (o ++ pend) ++ as
      rw [h1]; simp
    · -- o ++ pend = a ++ bs ∧ t ++ b = bs ++ p
      rcases List.append_eq_append_iff.mp h2 with ⟨cs, h3, h4⟩ | ⟨ds, h3, h4⟩
      · -- bs = t ++ cs : occurrence inside o ++ pend
        exfalso; apply hno
        exact ⟨a, cs, by rw [h1, h3, List.append_assoc]⟩
      · -- t = bs ++ ds ∧ p = ds ++ b
        by_cases hbs : bs.length = 0
        · have : bs = [] := List.eq_nil_of_length_eq_zero hbs
          subst this
          have := congrArg List.length h1
          simp at this; omega
        · have hpre : bs = t.take bs.length := by rw [h3]; simp
          have hlt : bs.length ≤ t.length := by rw [h3]; simp
          have := hheld t ht bs.length (by omega) hlt (by rw [← hpre]; exact ⟨a, h1.symm⟩)
          have hl := congrArg List.length h1
          simp at hl; omega
  -- now cut `a` at |o|
  have h' : o ++ (pend ++ p) = a ++ (t ++ b) := by simpa [List.append_assoc] using h
  rcases List.append_eq_append_iff.mp h' with ⟨as, h1, h2⟩ | ⟨bs, h1, h2⟩
  · exact ⟨as, h1, by rw [h2, List.append_assoc]⟩
  · have hl := congrArg List.length h1
    simp at hl
    have : bs = [] := List.eq_nil_of_length_eq_zero (by omega)
    subst this
    exact ⟨[], by simpa using h1.symm, by simpa [List.append_assoc] using h2.symm⟩

/-! ## D. TruncateStop -/

theorem splitBack_flatten : ∀ (lens : List Nat) (rem : Bytes), rem.length ≤ lens.sum →
    (splitBack lens rem).1.flatten = rem := by
  intro lens
  induction lens with
  | nil =>
    intro rem h
    have : rem = [] := List.eq_nil_of_length_eq_zero (by simpa using h)
    simp [splitBack, this]
  | cons len ls ih =>
    intro rem h
    unfold splitBack
    split
    · rename_i he; simp [List.isEmpty_iff.mp he]
    · split
      · simp
      · rename_i hlen
        simp only [List.flatten_cons]
        rw [ih (rem.drop len) (by simp at h ⊢; omega)]
        exact List.take_append_drop len rem

theorem truncateStop_flatten {pieces : List Bytes} {stop : Bytes} {idx : Nat}
    (h : indexOf stop pieces.flatten = some idx) :
    (truncateStop pieces stop).1.flatten = pieces.flatten.take idx := by
  unfold truncateStop
  simp only [h]
  apply splitBack_flatten
  rw [List.length_take, List.length_flatten]
  exact Nat.min_le_right _ _


/-! ## E. the loop -/

@[simp] theorem finish_out (st : St) (r : Reason) (c : Cause) : (st.finish r c).out = st.flush.out := rfl
@[simp] theorem finish_done (st : St) (r : Reason) (c : Cause) : (st.finish r c).done = some r := rfl
@[simp] theorem finish_cause (st : St) (r : Reason) (c : Cause) : (st.finish r c).cause = some c := rfl
@[simp] theorem finish_gen (st : St) (r : Reason) (c : Cause) : (st.finish r c).gen = st.gen := by
  simp [St.finish]
@[simp] theorem finish_pending (st : St) (r : Reason) (c : Cause) : (st.finish r c).pending = [] := by
  simp [St.finish]
@[simp] theorem finish_np (st : St) (r : Reason) (c : Cause) :
    (st.finish r c).numPredicted = st.numPredicted := by
  simp [St.finish]

/-- the state after `numPredicted++` and the append of the piece -/
def St.push (st : St) (p : Bytes) : St :=
  { st with numPredicted := st.numPredicted + 1, pending := st.pending ++ [p], gen := st.gen ++ [p] }

/-- the three outcomes of the loop body for a piece -/
theorem stepPiece_cases (pinned : Bool) (stops : List Bytes) (st : St) (p : Bytes) :
    let st1 := st.push p
    let seq := st1.pending.flatten
    (∃ s, findStopV pinned seq stops = some s ∧
        stepPiece pinned stops st p =
          ({ st1 with pending := (truncateStop st1.pending s).1 }).finish .stop (.stopString s)) ∨
    (findStopV pinned seq stops = none ∧ (containsStopSuffix seq stops = true ∨ incompleteUnicode seq = true) ∧
        stepPiece pinned stops st p = st1) ∨
    (findStopV pinned seq stops = none ∧ containsStopSuffix seq stops = false ∧ incompleteUnicode seq = false ∧
        stepPiece pinned stops st p = st1.flush) := by
  intro st1 seq
  unfold stepPiece
  simp only
  cases hf : findStopV pinned (st.pending ++ [p]).flatten stops with
  | some s => left; exact ⟨s, hf, rfl⟩
  | none =>
    right
    cases hs : containsStopSuffix (st.pending ++ [p]).flatten stops with
    | true => left; exact ⟨hf, Or.inl hs, rfl⟩
    | false =>
      cases hi : incompleteUnicode (st.pending ++ [p]).flatten with
      | true => left; exact ⟨hf, Or.inr hi, rfl⟩
      | false => right; exact ⟨hf, hs, hi, rfl⟩

/-- induction over the loop: `Inv` holds between iterations, `Post` of every way to leave it -/
theorem run_ind {pinned : Bool} {limit : Int} {stops : List Bytes} {Inv Post : St → Prop}
    (hrun : ∀ st, Inv st → ¬ (limit > 0 ∧ (st.numPredicted : Int) ≥ limit) → Post st)
    (hlim : ∀ st, Inv st → (limit > 0 ∧ (st.numPredicted : Int) ≥ limit) →
      Post (st.finish .length .limit))
    (heos : ∀ st, Inv st → ¬ (limit > 0 ∧ (st.numPredicted : Int) ≥ limit) →
      Post (({ st with numPredicted := st.numPredicted + 1 }).finish .stop .eos))
    (hstop : ∀ st p, Inv st → ¬ (limit > 0 ∧ (st.numPredicted : Int) ≥ limit) →
      (stepPiece pinned stops st p).done.isSome = true → Post (stepPiece pinned stops st p))
    (hcont : ∀ st p, Inv st → ¬ (limit > 0 ∧ (st.numPredicted : Int) ≥ limit) →
      (stepPiece pinned stops st p).done.isSome = false → Inv (stepPiece pinned stops st p)) :
    ∀ evs st, Inv st → Post (run pinned limit stops st evs) := by
  intro evs
  induction evs with
  | nil =>
    intro st hi
    unfold run
    split
    · rename_i h; exact hlim st hi h
    · rename_i h; exact hrun st hi h
  | cons ev rest ih =>
    intro st hi
    unfold run
    split
    · rename_i h; exact hlim st hi h
    · rename_i h
      cases ev with
      | eos => exact heos st hi h
      | piece p =>
        simp only
        split
        · rename_i hd; exact hstop st p hi h hd
        · rename_i hd
          exact ih _ (hcont st p hi h (by simpa using hd))

/-! ## F. the main invariant (valid-UTF-8 generated text, valid non-empty stops) -/

/-- the stops the stop clauses speak about: non-empty and valid UTF-8 (they reach the runner
    through JSON) -/
def StopsOk (stops : List Bytes) : Prop := ∀ t ∈ stops, t ≠ [] ∧ validUtf8 t = true

/-- holds between iterations while the sequence is running -/
structure Inv (stops : List Bytes) (st : St) : Prop where
  done : st.done = none
  cause : st.cause = none
  split : st.genText = st.outText ++ st.pending.flatten
  outValid : validUtf8 st.outText = true
  noOcc : ∀ t ∈ stops, ¬ Occurs t st.genText
  held : Held stops st.genText st.pending.flatten.length

/-- what is true of the state in which the loop is left -/
def Post (pinned : Bool) (stops : List Bytes) (f : St) : Prop :=
  match f.cause with
  | none => Inv stops f
  | some (.stopString s) =>
      f.done = some .stop ∧ s ∈ stops ∧ (pinned = true → findStop f.genText stops = some s) ∧
      (∃ idx, indexOf s f.genText = some idx ∧ f.outText = f.genText.take idx ∧
        (pinned = false → ∀ t ∈ stops, ∀ j, indexOf t f.genText = some j → idx ≤ j)) ∧
      (∀ t ∈ stops, ¬ Occurs t f.gen.dropLast.flatten) ∧ f.pending = []
  | some .eos =>
      f.done = some .stop ∧ f.outText = trimValid f.genText ∧ (∀ t ∈ stops, ¬ Occurs t f.genText) ∧
      f.pending = []
  | some .limit =>
      f.done = some .length ∧ f.outText = trimValid f.genText ∧ (∀ t ∈ stops, ¬ Occurs t f.genText) ∧
      f.pending = []

theorem inv_init (stops : List Bytes) (h : StopsOk stops) : Inv stops init := by
  refine ⟨rfl, rfl, rfl, by decide, ?_, ?_⟩
  · intro t ht ⟨a, b, hab⟩
    have : t = [] := by
      have := congrArg List.length hab
      simp [init, St.genText] at this
      exact List.eq_nil_of_length_eq_zero (by omega)
    exact (h t ht).1 this
  · intro t ht i h1 hi hs
    have := hs.length_le
    rw [List.length_take] at this
    have h0 : init.genText.length = 0 := rfl
    omega

theorem post_finish_flush {stops : List Bytes} {st : St} (hi : Inv stops st) (r : Reason) (c : Cause) :
    (st.finish r c).outText = trimValid (st.finish r c).genText ∧
    (∀ t ∈ stops, ¬ Occurs t (st.finish r c).genText) := by
  constructor
  · show (st.finish r c).out.flatten = trimValid (st.finish r c).gen.flatten
    rw [finish_out, finish_gen, flush_out]
    have := hi.split
    simp only [St.genText, St.outText] at this
    have hov : validUtf8 st.out.flatten = true := hi.outValid
    rw [this, flushText, trimValid_append_valid hov]
  · intro t ht
    show ¬ Occurs t (st.finish r c).gen.flatten
    rw [finish_gen]; exact hi.noOcc t ht

/-- one iteration with a piece, when the text generated so far (this piece included) is a prefix
    of valid UTF-8 -/
theorem step_main (pinned : Bool) {stops : List Bytes} (hok : StopsOk stops) {st : St} (p : Bytes)
    (hi : Inv stops st) (hvp : ValidPrefix (st.genText ++ p)) :
    let st' := stepPiece pinned stops st p
    (st'.done.isSome = true → Post pinned stops st') ∧ (st'.done.isSome = false → Inv stops st') := by
  intro st'
  have hsplit : st.gen.flatten = st.out.flatten ++ st.pending.flatten := hi.split
  have hov : validUtf8 st.out.flatten = true := hi.outValid
  have hgen' : (st.push p).gen.flatten = st.out.flatten ++ ((st.pending ++ [p]).flatten) := by
    show (st.gen ++ [p]).flatten = _
    simp [List.flatten_append, hsplit, List.append_assoc]
  have hseq : (st.pending ++ [p]).flatten = st.pending.flatten ++ p := by simp
  have hvp' : ValidPrefix (st.out.flatten ++ (st.pending.flatten ++ p)) := by
    have : st.genText ++ p = st.out.flatten ++ (st.pending.flatten ++ p) := by
      show st.gen.flatten ++ p = _
      rw [hsplit, List.append_assoc]
    rw [← this]; exact hvp
  have hvseq : ValidPrefix (st.pending.flatten ++ p) := ValidPrefix.right hov hvp'
  -- an occurrence of a stop in the new text lies in the pending part
  have hocc : ∀ t ∈ stops, ∀ a b, (st.out.flatten ++ st.pending.flatten) ++ p = a ++ t ++ b →
      ∃ z, a = st.out.flatten ++ z ∧ st.pending.flatten ++ p = z ++ t ++ b := by
    intro t ht a b h
    have hno : ¬ Occurs t (st.out.flatten ++ st.pending.flatten) := by
      rw [← hsplit]; exact hi.noOcc t ht
    have hheld : Held stops (st.out.flatten ++ st.pending.flatten) st.pending.flatten.length := by
      rw [← hsplit]; exact hi.held
    exact occurrence_in_pending ht hno hheld h
  rcases stepPiece_cases pinned stops st p with ⟨s, hs, h⟩ | ⟨hnone, _, h⟩ | ⟨hnone, hsuf, hinc, h⟩
  · -- a stop was found
    have hst' : st' = _ := h
    rw [hst']
    refine ⟨fun _ => ?_, fun hd => by simp at hd⟩
    obtain ⟨hsmem, hsocc⟩ := findStopV_some hs
    change Occurs s (st.pending ++ [p]).flatten at hsocc
    change findStopV pinned (st.pending ++ [p]).flatten stops = some s at hs
    rw [hseq] at hsocc hs
    obtain ⟨idx, hidx⟩ := hsocc.indexOf
    obtain ⟨⟨a, b, hab, halen⟩, hmin⟩ := indexOf_spec s _ idx hidx
    have hva : validUtf8 a = true := by
      apply valid_before_valid (hok s hsmem).2 (hok s hsmem).1
      have : ValidPrefix ((a ++ s) ++ b) := by rw [← hab]; exact hvseq
      exact this.left
    have htake : (st.pending.flatten ++ p).take idx = a := by
      rw [hab, ← halen]; simp [List.append_assoc]
    -- the output
    have hout : (({ st.push p with pending := (truncateStop (st.push p).pending s).1 }).finish
        .stop (.stopString s)).out.flatten = st.out.flatten ++ a := by
      rw [finish_out, flush_out]
      show st.out.flatten ++ flushText (truncateStop (st.pending ++ [p]) s).1 = _
      have hidx' : indexOf s (st.pending ++ [p]).flatten = some idx := by rw [hseq]; exact hidx
      rw [flushText, truncateStop_flatten hidx', hseq, htake, trimValid_of_valid hva]
    have hgenf : (({ st.push p with pending := (truncateStop (st.push p).pending s).1 }).finish
        .stop (.stopString s)).gen.flatten = st.out.flatten ++ (st.pending.flatten ++ p) := by
      rw [finish_gen]; show (st.push p).gen.flatten = _; rw [hgen', hseq]
    have hG : st.out.flatten ++ (st.pending.flatten ++ p) = (st.out.flatten ++ a) ++ s ++ b := by
      rw [hab]; simp [List.append_assoc]
    show Post pinned stops _
    unfold Post
    simp only [finish_cause, finish_done, finish_pending, St.genText, St.outText, true_and, and_true]
    rw [hgenf, hout]
    refine ⟨hsmem, ?_, ?_, ?_⟩
    · intro hp
      subst hp
      have hs : findStop (st.pending.flatten ++ p) stops = some s := hs
      rw [← hs]
      apply findStop_congr
      intro t ht
      constructor
      · rintro ⟨a', b', h'⟩
        have h'' : (st.out.flatten ++ st.pending.flatten) ++ p = a' ++ t ++ b' := by
          rw [List.append_assoc]; exact h'
        obtain ⟨z, _, hz⟩ := hocc t ht a' b' h''
        exact ⟨z, b', hz⟩
      · exact Occurs.append_left _
    · have hOcc : Occurs s (st.out.flatten ++ (st.pending.flatten ++ p)) := ⟨_, _, hG⟩
      obtain ⟨j, hj⟩ := hOcc.indexOf
      obtain ⟨⟨a', b', hab', halen'⟩, hmin'⟩ := indexOf_spec s _ j hj
      have h'' : (st.out.flatten ++ st.pending.flatten) ++ p = a' ++ s ++ b' := by
        rw [List.append_assoc]; exact hab'
      obtain ⟨z, hz1, hz2⟩ := hocc s hsmem a' b' h''
      have h1 := hmin z b' hz2
      have h2 := hmin' _ _ hG
      have hjeq : j = st.out.flatten.length + idx := by
        rw [← halen', hz1] at *
        simp at h2 ⊢
        omega
      refine ⟨j, hj, ?_, ?_⟩
      · rw [hjeq, hG, ← halen]
        have hl : (st.out.flatten ++ a).length = st.out.flatten.length + a.length := List.length_append
        rw [List.append_assoc (st.out.flatten ++ a) s b, ← hl, List.take_left]
      · intro hp t ht jt hjt
        subst hp
        have hs : findStopEarliest (st.pending.flatten ++ p) stops = some s := hs
        obtain ⟨_, i0, hi0, hmin0⟩ := findStopEarliest_spec hs
        have hi0' : i0 = idx := by rw [hidx] at hi0; cases hi0; rfl
        subst hi0'
        obtain ⟨⟨at', bt', habt, halent⟩, _⟩ := indexOf_spec t _ jt hjt
        have h3 : (st.out.flatten ++ st.pending.flatten) ++ p = at' ++ t ++ bt' := by
          rw [List.append_assoc]; exact habt
        obtain ⟨zt, hzt1, hzt2⟩ := hocc t ht at' bt' h3
        have hoc : Occurs t (st.pending.flatten ++ p) := ⟨zt, bt', hzt2⟩
        obtain ⟨k, hk⟩ := hoc.indexOf
        have hk1 := hmin0 t ht k hk
        have hk2 := (indexOf_spec t _ k hk).2 zt bt' hzt2
        rw [hjeq, ← halent, hzt1]
        simp only [List.length_append]
        omega
    · intro t ht
      rw [finish_gen]
      show ¬ Occurs t ((st.push p).gen.dropLast.flatten)
      have : (st.push p).gen.dropLast = st.gen := by
        show (st.gen ++ [p]).dropLast = st.gen
        simp
      rw [this]; exact hi.noOcc t ht
  · -- held back (stop suffix or incomplete character)
    have hst' : st' = st.push p := h
    rw [hst']
    refine ⟨fun hd => ?_, fun _ => ?_⟩
    · have : (st.push p).done = none := hi.done
      rw [this] at hd; cases hd
    · change findStopV pinned (st.pending ++ [p]).flatten stops = none at hnone
      refine ⟨hi.done, hi.cause, hgen', hov, ?_, ?_⟩
      · intro t ht ⟨a, b, hab⟩
        have hab' : (st.push p).gen.flatten = a ++ t ++ b := hab
        rw [hgen', hseq, ← List.append_assoc] at hab'
        obtain ⟨z, _, hz⟩ := hocc t ht a b hab'
        exact findStopV_none hnone t ht ⟨z, b, by rw [hseq]; exact hz⟩
      · show Held stops (st.push p).gen.flatten (st.pending ++ [p]).flatten.length
        rw [hgen', hseq, ← List.append_assoc, List.length_append, ← hsplit]
        exact hi.held.append p
  · -- flushed
    have hst' : st' = (st.push p).flush := h
    rw [hst']
    change findStopV pinned (st.pending ++ [p]).flatten stops = none at hnone
    change containsStopSuffix (st.pending ++ [p]).flatten stops = false at hsuf
    change incompleteUnicode (st.pending ++ [p]).flatten = false at hinc
    have hvalid : validUtf8 (st.pending ++ [p]).flatten = true := by
      apply valid_of_not_incomplete _ hinc
      rw [hseq]; exact hvseq
    have hd : (st.push p).flush.done = none := by rw [flush_done]; exact hi.done
    refine ⟨fun h => (by rw [hd] at h; cases h), fun _ => ?_⟩
    have hout : (st.push p).flush.out.flatten = st.out.flatten ++ (st.pending ++ [p]).flatten := by
      rw [flush_out]
      show st.out.flatten ++ flushText (st.pending ++ [p]) = _
      rw [flushText, trimValid_of_valid hvalid]
    refine ⟨hd, by rw [flush_cause]; exact hi.cause, ?_, ?_, ?_, ?_⟩
    · show (st.push p).flush.gen.flatten = (st.push p).flush.out.flatten ++ (st.push p).flush.pending.flatten
      rw [flush_gen, flush_pending, hout, hgen']; simp
    · show validUtf8 (st.push p).flush.out.flatten = true
      rw [hout]; exact validUtf8_append hov hvalid
    · intro t ht ⟨a, b, hab⟩
      have hab' : (st.push p).flush.gen.flatten = a ++ t ++ b := hab
      rw [flush_gen, hgen', hseq, ← List.append_assoc] at hab'
      obtain ⟨z, _, hz⟩ := hocc t ht a b hab'
      exact findStopV_none hnone t ht ⟨z, b, by rw [hseq]; exact hz⟩
    · show Held stops (st.push p).flush.gen.flatten (st.push p).flush.pending.flatten.length
      rw [flush_gen, flush_pending, hgen']
      intro t ht i h1 hile hs
      exfalso
      have hheld : Held stops ((st.out.flatten ++ st.pending.flatten) ++ p)
          (st.pending.flatten.length + p.length) := by
        rw [← hsplit]; exact hi.held.append p
      rw [hseq, ← List.append_assoc] at hs
      have hle := hheld t ht i h1 hile hs
      have hs' : t.take i <:+ st.out.flatten ++ (st.pending.flatten ++ p) := by
        rw [← List.append_assoc]; exact hs
      have := suffix_of_append_short hs' (by rw [List.length_take, List.length_append]; omega)
      exact stopSuffix_false hsuf t ht i h1 hile (by rw [hseq]; exact this)

theorem stepPiece_gen (pinned : Bool) (stops : List Bytes) (st : St) (p : Bytes) :
    (stepPiece pinned stops st p).gen = st.gen ++ [p] := by
  rcases stepPiece_cases pinned stops st p with ⟨s, _, h⟩ | ⟨_, _, h⟩ | ⟨_, _, _, h⟩
  · rw [h, finish_gen]; rfl
  · rw [h]; rfl
  · rw [h, flush_gen]; rfl

theorem stepPiece_genText (pinned : Bool) (stops : List Bytes) (st : St) (p : Bytes) :
    (stepPiece pinned stops st p).genText = st.genText ++ p := by
  show (stepPiece pinned stops st p).gen.flatten = st.gen.flatten ++ p
  rw [stepPiece_gen]; simp

/-- **The whole run.** For every script, every limit and every list of valid non-empty stops: if
    the text generated up to the terminating event is a prefix of valid UTF-8, the final state
    satisfies `Post`. -/
theorem run_main (pinned : Bool) {stops : List Bytes} (hok : StopsOk stops) (limit : Int) (evs : List Ev) :
    ValidPrefix (run pinned limit stops init evs).genText →
      Post pinned stops (run pinned limit stops init evs) := by
  refine run_ind (pinned := pinned) (limit := limit) (stops := stops)
    (Inv := fun st => ValidPrefix st.genText → Inv stops st)
    (Post := fun f => ValidPrefix f.genText → Post pinned stops f) ?_ ?_ ?_ ?_ ?_ evs init
    (fun _ => inv_init stops hok)
  · intro st hi _ hvp
    have := hi hvp
    unfold Post; rw [this.cause]; exact this
  · intro st hi _ hvp
    have hinv : Inv stops st := hi (by simpa [St.genText] using hvp)
    have := post_finish_flush hinv .length .limit
    unfold Post; rw [finish_cause]
    exact ⟨rfl, this.1, this.2, finish_pending _ _ _⟩
  · intro st hi _ hvp
    have hinv : Inv stops st := hi (by simpa [St.genText] using hvp)
    have hinv' : Inv stops { st with numPredicted := st.numPredicted + 1 } :=
      ⟨hinv.done, hinv.cause, hinv.split, hinv.outValid, hinv.noOcc, hinv.held⟩
    have := post_finish_flush hinv' .stop .eos
    unfold Post; rw [finish_cause]
    exact ⟨rfl, this.1, this.2, finish_pending _ _ _⟩
  · intro st p hi _ hd hvp
    rw [stepPiece_genText] at hvp
    exact (step_main pinned hok p (hi hvp.left) hvp).1 hd
  · intro st p hi _ hd hvp
    rw [stepPiece_genText] at hvp
    exact (step_main pinned hok p (hi hvp.left) hvp).2 hd

/-! ## G. the ghost fields and the script -/

theorem stepPiece_np (pinned : Bool) (stops : List Bytes) (st : St) (p : Bytes) :
    (stepPiece pinned stops st p).numPredicted = st.numPredicted + 1 := by
  rcases stepPiece_cases pinned stops st p with ⟨s, _, h⟩ | ⟨_, _, h⟩ | ⟨_, _, _, h⟩
  · rw [h, finish_np]; rfl
  · rw [h]; rfl
  · rw [h, flush_np]; rfl

theorem stepPiece_cause (pinned : Bool) (stops : List Bytes) (st : St) (p : Bytes) (h0 : st.done = none)
    (h1 : st.cause = none) :
    ((stepPiece pinned stops st p).done.isSome = true → ∃ s, (stepPiece pinned stops st p).cause = some (.stopString s)) ∧
    ((stepPiece pinned stops st p).done.isSome = false →
      (stepPiece pinned stops st p).done = none ∧ (stepPiece pinned stops st p).cause = none) := by
  rcases stepPiece_cases pinned stops st p with ⟨s, _, h⟩ | ⟨_, _, h⟩ | ⟨_, _, _, h⟩
  · rw [h]; exact ⟨fun _ => ⟨s, rfl⟩, fun hd => by simp at hd⟩
  · rw [h]
    have hd : (st.push p).done = none := h0
    have hc : (st.push p).cause = none := h1
    exact ⟨fun h => (by rw [hd] at h; cases h), fun _ => ⟨hd, hc⟩⟩
  · rw [h]
    have hd : (st.push p).flush.done = none := by rw [flush_done]; exact h0
    have hc : (st.push p).flush.cause = none := by rw [flush_cause]; exact h1
    exact ⟨fun h => (by rw [hd] at h; cases h), fun _ => ⟨hd, hc⟩⟩

/-- what the ghost fields `gen` and `cause` mean in terms of the script: the sampled pieces are
    the first events of the script, and the cause says why the next event was not consumed -/
theorem consumed_gen (pinned : Bool) (limit : Int) (stops : List Bytes) :
    ∀ (evs : List Ev) (st : St), st.done = none → st.cause = none →
      st.numPredicted = st.gen.length → (limit > 0 → (st.numPredicted : Int) ≤ limit) →
      let f := run pinned limit stops st evs
      ∃ ps, f.gen = st.gen ++ ps ∧ ps.map Ev.piece <+: evs ∧
        (f.cause = some .eos → evs[ps.length]? = some .eos ∧ f.numPredicted = f.gen.length + 1) ∧
        (f.cause = some .limit → limit > 0 ∧ (f.gen.length : Int) = limit ∧ f.numPredicted = f.gen.length) ∧
        (f.cause = none → ps.length = evs.length ∧ ¬ (limit > 0 ∧ (f.gen.length : Int) ≥ limit) ∧
          f.numPredicted = f.gen.length) ∧
        (∀ s, f.cause = some (.stopString s) → f.numPredicted = f.gen.length ∧
          ¬ (limit > 0 ∧ (f.gen.length : Int) > limit)) := by
  intro evs
  induction evs with
  | nil =>
    intro st hd hc hnp hle
    simp only [run]
    split
    · rename_i hl
      refine ⟨[], by simp, by simp, by simp, ?_, by simp, by simp⟩
      intro _
      have := hle hl.1
      refine ⟨hl.1, ?_, by simpa using hnp⟩
      simp only [finish_gen]; rw [← hnp]; omega
    · rename_i hl
      refine ⟨[], by simp, by simp, by simp [hc], by simp [hc], ?_, by simp [hc]⟩
      intro _
      exact ⟨rfl, by rw [← hnp]; exact hl, hnp⟩
  | cons ev rest ih =>
    intro st hd hc hnp hle
    simp only [run]
    split
    · rename_i hl
      refine ⟨[], by simp, by simp, by simp, ?_, by simp, by simp⟩
      intro _
      have := hle hl.1
      refine ⟨hl.1, ?_, by simpa using hnp⟩
      simp only [finish_gen]; rw [← hnp]; omega
    · rename_i hl
      cases ev with
      | eos =>
        refine ⟨[], by simp, by simp, ?_, by simp, by simp, by simp⟩
        intro _
        simp [hnp]
      | piece p =>
        simp only
        have hnp' := stepPiece_np pinned stops st p
        have hgen' := stepPiece_gen pinned stops st p
        have hcs := stepPiece_cause pinned stops st p hd hc
        split
        · rename_i hdone
          obtain ⟨s, hs⟩ := hcs.1 hdone
          refine ⟨[p], hgen', by simp, by simp [hs], by simp [hs], by simp [hs], ?_⟩
          intro s' _
          rw [hnp', hgen']
          refine ⟨by simp [hnp], ?_⟩
          simp only [List.length_append, List.length_singleton]
          rw [← hnp]
          intro ⟨h1, h2⟩
          apply hl
          exact ⟨h1, by omega⟩
        · rename_i hdone
          have hdone' : (stepPiece pinned stops st p).done.isSome = false := by simpa using hdone
          obtain ⟨hd', hc'⟩ := hcs.2 hdone'
          have hnp2 : (stepPiece pinned stops st p).numPredicted = (stepPiece pinned stops st p).gen.length := by
            rw [hnp', hgen', hnp]; simp
          have hle2 : limit > 0 → ((stepPiece pinned stops st p).numPredicted : Int) ≤ limit := by
            intro hpos
            rw [hnp']
            have : ¬ ((st.numPredicted : Int) ≥ limit) := fun h => hl ⟨hpos, h⟩
            omega
          obtain ⟨ps, h1, h2, h3, h4, h5, h6⟩ := ih _ hd' hc' hnp2 hle2
          refine ⟨p :: ps, by rw [h1, hgen']; simp, ?_, ?_, h4, ?_, h6⟩
          · obtain ⟨w, hw⟩ := h2
            exact ⟨w, by simp [← hw]⟩
          · intro he
            have := h3 he
            simpa using this
          · intro hn
            have := h5 hn
            simpa using this

/-! ## H. the response channel: what the reader receives does not depend on its schedule -/

theorem Chan.send_all (cap : Nat) (c : Chan) (x : Bytes) :
    (c.send cap x).recv ++ (c.send cap x).buf = c.recv ++ c.buf ++ [x] := by
  unfold Chan.send
  split
  · simp
  · split
    · rename_i h; simp [h]
    · rename_i h; simp [h]

theorem Chan.read_all (c : Chan) (n : Nat) : (c.read n).recv ++ (c.read n).buf = c.recv ++ c.buf := by
  simp [Chan.read]

theorem Chan.drain_buf (c : Chan) : c.drain.buf = [] := by
  simp [Chan.drain, Chan.read]

theorem Chan.drain_all (c : Chan) : c.drain.recv ++ c.drain.buf = c.recv ++ c.buf :=
  Chan.read_all c _

theorem Chan.foldl_send_all (cap : Nat) : ∀ (l : List Bytes) (c : Chan),
    (l.foldl (Chan.send cap) c).recv ++ (l.foldl (Chan.send cap) c).buf = c.recv ++ c.buf ++ l := by
  intro l
  induction l with
  | nil => intro c; simp
  | cons x l ih =>
    intro c
    simp only [List.foldl_cons]
    rw [ih, Chan.send_all]; simp

theorem Chan.deliver_all (cap : Nat) (c : Chan) (st st' : St) (new : List Bytes)
    (hc : c.recv ++ c.buf = st.out) (hout : st'.out = st.out ++ new) :
    (c.deliver cap st st').recv ++ (c.deliver cap st st').buf = st'.out := by
  unfold Chan.deliver
  rw [Chan.foldl_send_all, hout, hc]
  simp

theorem flush_out_grows (st : St) : ∃ new, st.flush.out = st.out ++ new := by
  rcases flush_out_chunks st with h | ⟨c, h, _, _⟩
  · exact ⟨[], by simp [h]⟩
  · exact ⟨[c], h⟩

theorem finish_out_grows (st : St) (r : Reason) (c : Cause) : ∃ new, (st.finish r c).out = st.out ++ new := by
  rw [finish_out]; exact flush_out_grows st

theorem stepPiece_out_grows (pinned : Bool) (stops : List Bytes) (st : St) (p : Bytes) :
    ∃ new, (stepPiece pinned stops st p).out = st.out ++ new := by
  rcases stepPiece_cases pinned stops st p with ⟨s, _, h⟩ | ⟨_, _, h⟩ | ⟨_, _, _, h⟩
  · rw [h]; exact finish_out_grows _ _ _
  · rw [h]; exact ⟨[], by simp [St.push]⟩
  · rw [h]; exact flush_out_grows _

/-- **The consumer's schedule does not matter.**  For every channel capacity, every schedule of the
    reader (how many chunks it takes after each token, `0` = stalled, for how long) and every
    script: the loop ends in the same state as with no channel at all (`run`), everything streamed
    is either received or still in the buffer, in order, and once the sequence is done the reader
    has received exactly `run`'s chunks. -/
theorem runSched_eq_run (pinned : Bool) (limit : Int) (stops : List Bytes) (cap tail : Nat) :
    ∀ (evs : List Ev) (st : St) (c : Chan) (sched : List Nat), st.done = none → c.recv ++ c.buf = st.out →
      (runSched pinned limit stops cap tail st c sched evs).1 = run pinned limit stops st evs ∧
      (runSched pinned limit stops cap tail st c sched evs).2.recv ++
        (runSched pinned limit stops cap tail st c sched evs).2.buf = (run pinned limit stops st evs).out ∧
      ((run pinned limit stops st evs).done.isSome = true →
        (runSched pinned limit stops cap tail st c sched evs).2.buf = []) := by
  intro evs
  induction evs with
  | nil =>
    intro st c sched hd hc
    unfold runSched run
    split
    · obtain ⟨new, hnew⟩ := finish_out_grows st .length .limit
      refine ⟨rfl, ?_, fun _ => Chan.drain_buf _⟩
      simp only []
      rw [Chan.drain_all]; exact Chan.deliver_all cap c st _ new hc hnew
    · exact ⟨rfl, hc, fun h => by rw [hd] at h; cases h⟩
  | cons ev rest ih =>
    intro st c sched hd hc
    unfold runSched run
    split
    · obtain ⟨new, hnew⟩ := finish_out_grows st .length .limit
      refine ⟨rfl, ?_, fun _ => Chan.drain_buf _⟩
      simp only []
      rw [Chan.drain_all]; exact Chan.deliver_all cap c st _ new hc hnew
    · cases ev with
      | eos =>
        obtain ⟨new, hnew⟩ := finish_out_grows { st with numPredicted := st.numPredicted + 1 } .stop .eos
        refine ⟨rfl, ?_, fun _ => Chan.drain_buf _⟩
        simp only []
        rw [Chan.drain_all]; exact Chan.deliver_all cap c st _ new hc hnew
      | piece p =>
        obtain ⟨new, hnew⟩ := stepPiece_out_grows pinned stops st p
        have hdel := Chan.deliver_all cap c st _ new hc hnew
        simp only []
        split
        · refine ⟨rfl, ?_, fun _ => Chan.drain_buf _⟩
          rw [Chan.drain_all]; exact hdel
        · rename_i hdone
          have hd' : (stepPiece pinned stops st p).done = none := by
            cases h : (stepPiece pinned stops st p).done with
            | none => rfl
            | some r => rw [h] at hdone; simp at hdone
          cases sched with
          | nil => exact ih _ _ [] hd' (by rw [Chan.read_all]; exact hdel)
          | cons r rs => exact ih _ _ rs hd' (by rw [Chan.read_all]; exact hdel)

/-! ## I. the shape of TruncateStop's result (piece-preserving) -/

/-- `Shape res pieces t`: `res` is `pieces` cut somewhere: every returned piece but the last equals
    the original piece at the same position, the last is a prefix of it, and `t` (tokenTruncated)
    says whether that last piece was cut. -/
def Shape : List Bytes → List Bytes → Bool → Prop
  | [], _, t => t = false
  | _ :: _, [], _ => False
  | [r], p :: _, t => r <+: p ∧ (t = true ↔ r ≠ p)
  | r :: r' :: rs, p :: ps, t => r = p ∧ Shape (r' :: rs) ps t

theorem splitBack_shape : ∀ (pieces : List Bytes) (rem : Bytes), rem <+: pieces.flatten →
    Shape (splitBack (pieces.map List.length) rem).1 pieces (splitBack (pieces.map List.length) rem).2 := by
  intro pieces
  induction pieces with
  | nil => intro rem _; simp [splitBack, Shape]
  | cons p ps ih =>
    intro rem h
    simp only [List.map_cons]
    unfold splitBack
    split
    · simp [Shape]
    · rename_i hne
      simp only [List.flatten_cons] at h
      split
      · rename_i hlen
        -- rem is shorter than p: a proper prefix of it
        have hp : rem <+: p := by
          obtain ⟨w, hw⟩ := h
          rcases List.append_eq_append_iff.mp hw with ⟨as, h1, _⟩ | ⟨bs, h1, _⟩
          · exact ⟨as, h1.symm⟩
          · have := congrArg List.length h1; simp at this; omega
        refine ⟨hp, ?_⟩
        constructor
        · intro _ he; rw [he] at hlen; omega
        · intro _; rfl
      · rename_i hlen
        have hp : ∃ r', rem = p ++ r' := by
          obtain ⟨w, hw⟩ := h
          rcases List.append_eq_append_iff.mp hw with ⟨as, h1, _⟩ | ⟨bs, h1, _⟩
          · have := congrArg List.length h1; simp at this
            have : as = [] := List.eq_nil_of_length_eq_zero (by omega)
            subst this; exact ⟨[], by simpa using h1.symm⟩
          · exact ⟨bs, h1⟩
        obtain ⟨r', hr'⟩ := hp
        subst hr'
        have htake : (p ++ r').take p.length = p := by simp
        have hdrop : (p ++ r').drop p.length = r' := by simp
        rw [htake, hdrop]
        have hr : r' <+: ps.flatten := (List.prefix_append_right_inj p).mp h
        have := ih r' hr
        show Shape (p :: (splitBack (ps.map List.length) r').1) (p :: ps) (splitBack (ps.map List.length) r').2
        cases hres : (splitBack (ps.map List.length) r').1 with
        | nil =>
          rw [hres] at this
          simp only [Shape] at this ⊢
          refine ⟨List.prefix_refl _, ?_⟩
          rw [this]; simp
        | cons x xs =>
          rw [hres] at this
          simp only [Shape]
          exact ⟨trivial, this⟩

/-- **TruncateStop is piece-preserving.**  If the stop occurs, the returned pieces are the original
    pieces cut at the stop's first occurrence (`truncateStop_flatten`) with `Shape`; if not, the pieces
    come back unchanged and `tokenTruncated = false`. -/
theorem truncateStop_shape (pieces : List Bytes) (stop : Bytes) :
    (∀ idx, indexOf stop pieces.flatten = some idx →
      Shape (truncateStop pieces stop).1 pieces (truncateStop pieces stop).2) ∧
    (indexOf stop pieces.flatten = none → truncateStop pieces stop = (pieces, false)) := by
  constructor
  · intro idx h
    unfold truncateStop
    simp only [h]
    exact splitBack_shape pieces _ (List.take_prefix _ _)
  · intro h
    unfold truncateStop
    simp only [h]

/-! ## J. other sequences in the batch do not matter -/

theorem skipCalls_cases (limit : Int) (st : St) (k : Nat) :
    skipCalls limit st k = st ∨
    ((limit > 0 ∧ (st.numPredicted : Int) ≥ limit) ∧ skipCalls limit st k = st.finish .length .limit) := by
  induction k with
  | zero => left; rfl
  | succ k ih =>
    unfold skipCalls
    split
    · rename_i h; right; exact ⟨h, rfl⟩
    · exact ih

/-- **Batch-mates do not matter.**  However many calls of processBatch pass in which the sequence is
    not sampled (because of other sequences in the batch), it ends in the state `run` computes. -/
theorem runSkips_eq_run (pinned : Bool) (limit : Int) (stops : List Bytes) :
    ∀ (evs : List Ev) (st : St) (skips : List Nat), st.done = none →
      runSkips pinned limit stops st skips evs = run pinned limit stops st evs := by
  intro evs
  induction evs with
  | nil =>
    intro st skips hd
    unfold runSkips run
    rcases skipCalls_cases limit st (skips.headD 0) with h | ⟨hl, h⟩
    · simp only [h, hd, Option.isSome_none, Bool.false_eq_true, if_false]
    · simp only [h, finish_done, Option.isSome_some, if_true, hl, and_self]
  | cons ev rest ih =>
    intro st skips hd
    unfold runSkips run
    rcases skipCalls_cases limit st (skips.headD 0) with h | ⟨hl, h⟩
    · simp only [h, hd, Option.isSome_none, Bool.false_eq_true, if_false]
      split
      · rfl
      · cases ev with
        | eos => rfl
        | piece p =>
          simp only
          split
          · rfl
          · rename_i hdone
            apply ih
            cases h' : (stepPiece pinned stops st p).done with
            | none => rfl
            | some r => rw [h'] at hdone; simp at hdone
    · simp only [h, finish_done, Option.isSome_some, if_true, hl, and_self]

/-! ## K. a reader that stops reading (client disconnect) -/

/-- the chunks only grow -/
theorem run_out_grows (pinned : Bool) (limit : Int) (stops : List Bytes) :
    ∀ (evs : List Ev) (st : St), ∃ new, (run pinned limit stops st evs).out = st.out ++ new := by
  intro evs
  induction evs with
  | nil =>
    intro st
    unfold run
    split
    · exact finish_out_grows st _ _
    · exact ⟨[], by simp⟩
  | cons ev rest ih =>
    intro st
    unfold run
    split
    · exact finish_out_grows st _ _
    · cases ev with
      | eos => exact finish_out_grows { st with numPredicted := st.numPredicted + 1 } _ _
      | piece p =>
        simp only
        obtain ⟨n1, h1⟩ := stepPiece_out_grows pinned stops st p
        split
        · exact ⟨n1, h1⟩
        · obtain ⟨n2, h2⟩ := ih (stepPiece pinned stops st p)
          exact ⟨n1 ++ n2, by rw [h2, h1, List.append_assoc]⟩

/-- running the script `e1 ++ e2` is running `e1` and, if the sequence is still running, `e2` -/
theorem run_append (pinned : Bool) (limit : Int) (stops : List Bytes) (e2 : List Ev) :
    ∀ (e1 : List Ev) (st : St), st.done = none →
      run pinned limit stops st (e1 ++ e2) =
        if (run pinned limit stops st e1).done.isSome then run pinned limit stops st e1
        else run pinned limit stops (run pinned limit stops st e1) e2 := by
  intro e1
  induction e1 with
  | nil =>
    intro st hd
    simp only [List.nil_append]
    by_cases hl : limit > 0 ∧ (st.numPredicted : Int) ≥ limit
    · have h1 : run pinned limit stops st [] = st.finish .length .limit := by simp [run, hl]
      rw [h1]
      simp only [finish_done, Option.isSome_some, if_true]
      cases e2 with
      | nil => simp [run, hl]
      | cons e es => simp [run, hl]
    · have h1 : run pinned limit stops st [] = st := by simp [run, hl]
      rw [h1, hd]; simp
  | cons ev rest ih =>
    intro st hd
    simp only [List.cons_append]
    by_cases hl : limit > 0 ∧ (st.numPredicted : Int) ≥ limit
    · have h1 : ∀ X, run pinned limit stops st (ev :: X) = st.finish .length .limit := by
        intro X; simp [run, hl]
      rw [h1, h1]; simp
    · cases ev with
      | eos =>
        have h1 : ∀ X, run pinned limit stops st (.eos :: X) =
            ({ st with numPredicted := st.numPredicted + 1 }).finish .stop .eos := by
          intro X; simp [run, hl]
        rw [h1, h1]; simp
      | piece p =>
        have h1 : ∀ X, run pinned limit stops st (.piece p :: X) =
            if (stepPiece pinned stops st p).done.isSome then stepPiece pinned stops st p
            else run pinned limit stops (stepPiece pinned stops st p) X := by
          intro X; simp [run, hl]
        rw [h1, h1]
        by_cases hdone : (stepPiece pinned stops st p).done.isSome = true
        · simp [hdone]
        · simp only [hdone]
          apply ih
          cases h' : (stepPiece pinned stops st p).done with
          | none => rfl
          | some r => rw [h'] at hdone; simp at hdone

/-- **A reader that stops reading at any time holds a prefix of the chunks.**  Whatever the script
    continues with (`e2`), whatever the reader's schedule and the channel capacity were up to the
    moment it stops (`e1` consumed), the chunks it has received are a prefix (as a list of chunks) of
    the chunks `run` streams for the whole script. -/
theorem received_prefix_any_time (pinned : Bool) (limit : Int) (stops : List Bytes) (cap tail : Nat)
    (sched : List Nat) (e1 e2 : List Ev) :
    (runSched pinned limit stops cap tail init {} sched e1).2.recv <+:
      (run pinned limit stops init (e1 ++ e2)).out := by
  obtain ⟨_, h2, _⟩ := runSched_eq_run pinned limit stops cap tail e1 init {} sched rfl rfl
  have h3 : (run pinned limit stops init e1).out <+: (run pinned limit stops init (e1 ++ e2)).out := by
    rw [run_append pinned limit stops e2 e1 init rfl]
    split
    · exact List.prefix_refl _
    · obtain ⟨new, hnew⟩ := run_out_grows pinned limit stops e2 (run pinned limit stops init e1)
      exact ⟨new, hnew.symm⟩
  exact List.IsPrefix.trans ⟨_, h2⟩ h3

/-! ## L. the completion handler -/

theorem runN_eq_run (pinned : Bool) (limit : Int) (stops : List Bytes) :
    ∀ (evs : List Ev) (n : Nat) (st : St), evs.length < n →
      runN pinned limit stops n st evs = run pinned limit stops st evs := by
  intro evs
  induction evs with
  | nil =>
    intro n st h
    cases n with
    | zero => simp at h
    | succ n => simp [runN, run]
  | cons ev rest ih =>
    intro n st h
    cases n with
    | zero => simp at h
    | succ n =>
      unfold runN run
      split
      · rfl
      · cases ev with
        | eos => rfl
        | piece p =>
          simp only
          split
          · rfl
          · exact ih n _ (by simp at h; omega)

theorem clientText_append (a b : List Line) : clientText (a ++ b) = clientText a ++ clientText b := by
  induction a with
  | nil => rfl
  | cons l ls ih => cases l <;> simp [clientText, ih]

theorem clientText_contents (out : List Bytes) : clientText (out.map Line.content) = out.flatten := by
  induction out with
  | nil => rfl
  | cons c cs ih => simp [clientText, ih]

theorem clientReason_contents (out : List Bytes) (tl : List Line) :
    clientReason (out.map Line.content ++ tl) = clientReason tl := by
  induction out with
  | nil => rfl
  | cons c cs ih => simp [clientReason, ih]

/-- what the client assembles from the handler's lines is the streamed text, and the finish reason
    it reads is the sequence's -/
theorem client_view (promptLen : Nat) (f : St) :
    clientText (handlerLines promptLen f) = f.outText ∧
    clientReason (handlerLines promptLen f) = f.done := by
  unfold handlerLines
  constructor
  · rw [clientText_append, clientText_contents]
    cases f.done <;> simp [clientText, St.outText]
  · rw [clientReason_contents]
    cases f.done <;> simp [clientReason]


/-! ## K. arbitrary non-empty stops (any bytes, not only valid UTF-8)

`step_main` / `run_main` once more with the hypothesis on the stops weakened from `StopsOk` (non-empty and valid UTF-8) to
`StopsNe` (non-empty): the only place where validity of the stop was used is the final flush at a stop — the text before
a stop that is valid UTF-8 is valid, so nothing is trimmed.  For a stop of arbitrary bytes (it may begin or end inside a
character) the flush trims: the streamed text is `trimValid` of the text before the stop's first occurrence. -/

def StopsNe (stops : List Bytes) : Prop := ∀ t ∈ stops, t ≠ []

/-- `Post` with the stop clause for arbitrary non-empty stops -/
def PostG (pinned : Bool) (stops : List Bytes) (f : St) : Prop :=
  match f.cause with
  | none => Inv stops f
  | some (.stopString s) =>
      f.done = some .stop ∧ s ∈ stops ∧ (pinned = true → findStop f.genText stops = some s) ∧
      (∃ idx, indexOf s f.genText = some idx ∧ f.outText = trimValid (f.genText.take idx) ∧
        (pinned = false → ∀ t ∈ stops, ∀ j, indexOf t f.genText = some j → idx ≤ j)) ∧
      (∀ t ∈ stops, ¬ Occurs t f.gen.dropLast.flatten) ∧ f.pending = []
  | some .eos =>
      f.done = some .stop ∧ f.outText = trimValid f.genText ∧ (∀ t ∈ stops, ¬ Occurs t f.genText) ∧
      f.pending = []
  | some .limit =>
      f.done = some .length ∧ f.outText = trimValid f.genText ∧ (∀ t ∈ stops, ¬ Occurs t f.genText) ∧
      f.pending = []

theorem inv_initG (stops : List Bytes) (h : StopsNe stops) : Inv stops init := by
  refine ⟨rfl, rfl, rfl, by decide, ?_, ?_⟩
  · intro t ht ⟨a, b, hab⟩
    have : t = [] := by
      have := congrArg List.length hab
      simp [init, St.genText] at this
      exact List.eq_nil_of_length_eq_zero (by omega)
    exact h t ht this
  · intro t ht i h1 hi hs
    have := hs.length_le
    rw [List.length_take] at this
    have h0 : init.genText.length = 0 := rfl
    omega

theorem step_mainG (pinned : Bool) {stops : List Bytes} (_hne : StopsNe stops) {st : St} (p : Bytes)
    (hi : Inv stops st) (hvp : ValidPrefix (st.genText ++ p)) :
    let st' := stepPiece pinned stops st p
    (st'.done.isSome = true → PostG pinned stops st') ∧ (st'.done.isSome = false → Inv stops st') := by
  intro st'
  have hsplit : st.gen.flatten = st.out.flatten ++ st.pending.flatten := hi.split
  have hov : validUtf8 st.out.flatten = true := hi.outValid
  have hgen' : (st.push p).gen.flatten = st.out.flatten ++ ((st.pending ++ [p]).flatten) := by
    show (st.gen ++ [p]).flatten = _
    simp [List.flatten_append, hsplit, List.append_assoc]
  have hseq : (st.pending ++ [p]).flatten = st.pending.flatten ++ p := by simp
  have hvp' : ValidPrefix (st.out.flatten ++ (st.pending.flatten ++ p)) := by
    have : st.genText ++ p = st.out.flatten ++ (st.pending.flatten ++ p) := by
      show st.gen.flatten ++ p = _
      rw [hsplit, List.append_assoc]
    rw [← this]; exact hvp
  have hvseq : ValidPrefix (st.pending.flatten ++ p) := ValidPrefix.right hov hvp'
  -- an occurrence of a stop in the new text lies in the pending part
  have hocc : ∀ t ∈ stops, ∀ a b, (st.out.flatten ++ st.pending.flatten) ++ p = a ++ t ++ b →
      ∃ z, a = st.out.flatten ++ z ∧ st.pending.flatten ++ p = z ++ t ++ b := by
    intro t ht a b h
    have hno : ¬ Occurs t (st.out.flatten ++ st.pending.flatten) := by
      rw [← hsplit]; exact hi.noOcc t ht
    have hheld : Held stops (st.out.flatten ++ st.pending.flatten) st.pending.flatten.length := by
      rw [← hsplit]; exact hi.held
    exact occurrence_in_pending ht hno hheld h
  rcases stepPiece_cases pinned stops st p with ⟨s, hs, h⟩ | ⟨hnone, _, h⟩ | ⟨hnone, hsuf, hinc, h⟩
  · -- a stop was found
    have hst' : st' = _ := h
    rw [hst']
    refine ⟨fun _ => ?_, fun hd => by simp at hd⟩
    obtain ⟨hsmem, hsocc⟩ := findStopV_some hs
    change Occurs s (st.pending ++ [p]).flatten at hsocc
    change findStopV pinned (st.pending ++ [p]).flatten stops = some s at hs
    rw [hseq] at hsocc hs
    obtain ⟨idx, hidx⟩ := hsocc.indexOf
    obtain ⟨⟨a, b, hab, halen⟩, hmin⟩ := indexOf_spec s _ idx hidx
    have htake : (st.pending.flatten ++ p).take idx = a := by
      rw [hab, ← halen]; simp [List.append_assoc]
    -- the output
    have hout : (({ st.push p with pending := (truncateStop (st.push p).pending s).1 }).finish
        .stop (.stopString s)).out.flatten = st.out.flatten ++ trimValid a := by
      rw [finish_out, flush_out]
      show st.out.flatten ++ flushText (truncateStop (st.pending ++ [p]) s).1 = _
      have hidx' : indexOf s (st.pending ++ [p]).flatten = some idx := by rw [hseq]; exact hidx
      rw [flushText, truncateStop_flatten hidx', hseq, htake]
    have hgenf : (({ st.push p with pending := (truncateStop (st.push p).pending s).1 }).finish
        .stop (.stopString s)).gen.flatten = st.out.flatten ++ (st.pending.flatten ++ p) := by
      rw [finish_gen]; show (st.push p).gen.flatten = _; rw [hgen', hseq]
    have hG : st.out.flatten ++ (st.pending.flatten ++ p) = (st.out.flatten ++ a) ++ s ++ b := by
      rw [hab]; simp [List.append_assoc]
    show PostG pinned stops _
    unfold PostG
    simp only [finish_cause, finish_done, finish_pending, St.genText, St.outText, true_and, and_true]
    rw [hgenf, hout]
    refine ⟨hsmem, ?_, ?_, ?_⟩
    · intro hp
      subst hp
      have hs : findStop (st.pending.flatten ++ p) stops = some s := hs
      rw [← hs]
      apply findStop_congr
      intro t ht
      constructor
      · rintro ⟨a', b', h'⟩
        have h'' : (st.out.flatten ++ st.pending.flatten) ++ p = a' ++ t ++ b' := by
          rw [List.append_assoc]; exact h'
        obtain ⟨z, _, hz⟩ := hocc t ht a' b' h''
        exact ⟨z, b', hz⟩
      · exact Occurs.append_left _
    · have hOcc : Occurs s (st.out.flatten ++ (st.pending.flatten ++ p)) := ⟨_, _, hG⟩
      obtain ⟨j, hj⟩ := hOcc.indexOf
      obtain ⟨⟨a', b', hab', halen'⟩, hmin'⟩ := indexOf_spec s _ j hj
      have h'' : (st.out.flatten ++ st.pending.flatten) ++ p = a' ++ s ++ b' := by
        rw [List.append_assoc]; exact hab'
      obtain ⟨z, hz1, hz2⟩ := hocc s hsmem a' b' h''
      have h1 := hmin z b' hz2
      have h2 := hmin' _ _ hG
      have hjeq : j = st.out.flatten.length + idx := by
        rw [← halen', hz1] at *
        simp at h2 ⊢
        omega
      refine ⟨j, hj, ?_, ?_⟩
      · have htk : List.take j (st.out.flatten ++ (st.pending.flatten ++ p)) = st.out.flatten ++ a := by
          rw [hjeq, hG, ← halen]
          have hl : (st.out.flatten ++ a).length = st.out.flatten.length + a.length := List.length_append
          rw [List.append_assoc (st.out.flatten ++ a) s b, ← hl, List.take_left]
        rw [htk, trimValid_append_valid hov]
      · intro hp t ht jt hjt
        subst hp
        have hs : findStopEarliest (st.pending.flatten ++ p) stops = some s := hs
        obtain ⟨_, i0, hi0, hmin0⟩ := findStopEarliest_spec hs
        have hi0' : i0 = idx := by rw [hidx] at hi0; cases hi0; rfl
        subst hi0'
        obtain ⟨⟨at', bt', habt, halent⟩, _⟩ := indexOf_spec t _ jt hjt
        have h3 : (st.out.flatten ++ st.pending.flatten) ++ p = at' ++ t ++ bt' := by
          rw [List.append_assoc]; exact habt
        obtain ⟨zt, hzt1, hzt2⟩ := hocc t ht at' bt' h3
        have hoc : Occurs t (st.pending.flatten ++ p) := ⟨zt, bt', hzt2⟩
        obtain ⟨k, hk⟩ := hoc.indexOf
        have hk1 := hmin0 t ht k hk
        have hk2 := (indexOf_spec t _ k hk).2 zt bt' hzt2
        rw [hjeq, ← halent, hzt1]
        simp only [List.length_append]
        omega
    · intro t ht
      rw [finish_gen]
      show ¬ Occurs t ((st.push p).gen.dropLast.flatten)
      have : (st.push p).gen.dropLast = st.gen := by
        show (st.gen ++ [p]).dropLast = st.gen
        simp
      rw [this]; exact hi.noOcc t ht
  · -- held back (stop suffix or incomplete character)
    have hst' : st' = st.push p := h
    rw [hst']
    refine ⟨fun hd => ?_, fun _ => ?_⟩
    · have : (st.push p).done = none := hi.done
      rw [this] at hd; cases hd
    · change findStopV pinned (st.pending ++ [p]).flatten stops = none at hnone
      refine ⟨hi.done, hi.cause, hgen', hov, ?_, ?_⟩
      · intro t ht ⟨a, b, hab⟩
        have hab' : (st.push p).gen.flatten = a ++ t ++ b := hab
        rw [hgen', hseq, ← List.append_assoc] at hab'
        obtain ⟨z, _, hz⟩ := hocc t ht a b hab'
        exact findStopV_none hnone t ht ⟨z, b, by rw [hseq]; exact hz⟩
      · show Held stops (st.push p).gen.flatten (st.pending ++ [p]).flatten.length
        rw [hgen', hseq, ← List.append_assoc, List.length_append, ← hsplit]
        exact hi.held.append p
  · -- flushed
    have hst' : st' = (st.push p).flush := h
    rw [hst']
    change findStopV pinned (st.pending ++ [p]).flatten stops = none at hnone
    change containsStopSuffix (st.pending ++ [p]).flatten stops = false at hsuf
    change incompleteUnicode (st.pending ++ [p]).flatten = false at hinc
    have hvalid : validUtf8 (st.pending ++ [p]).flatten = true := by
      apply valid_of_not_incomplete _ hinc
      rw [hseq]; exact hvseq
    have hd : (st.push p).flush.done = none := by rw [flush_done]; exact hi.done
    refine ⟨fun h => (by rw [hd] at h; cases h), fun _ => ?_⟩
    have hout : (st.push p).flush.out.flatten = st.out.flatten ++ (st.pending ++ [p]).flatten := by
      rw [flush_out]
      show st.out.flatten ++ flushText (st.pending ++ [p]) = _
      rw [flushText, trimValid_of_valid hvalid]
    refine ⟨hd, by rw [flush_cause]; exact hi.cause, ?_, ?_, ?_, ?_⟩
    · show (st.push p).flush.gen.flatten = (st.push p).flush.out.flatten ++ (st.push p).flush.pending.flatten
      rw [flush_gen, flush_pending, hout, hgen']; simp
    · show validUtf8 (st.push p).flush.out.flatten = true
      rw [hout]; exact validUtf8_append hov hvalid
    · intro t ht ⟨a, b, hab⟩
      have hab' : (st.push p).flush.gen.flatten = a ++ t ++ b := hab
      rw [flush_gen, hgen', hseq, ← List.append_assoc] at hab'
      obtain ⟨z, _, hz⟩ := hocc t ht a b hab'
      exact findStopV_none hnone t ht ⟨z, b, by rw [hseq]; exact hz⟩
    · show Held stops (st.push p).flush.gen.flatten (st.push p).flush.pending.flatten.length
      rw [flush_gen, flush_pending, hgen']
      intro t ht i h1 hile hs
      exfalso
      have hheld : Held stops ((st.out.flatten ++ st.pending.flatten) ++ p)
          (st.pending.flatten.length + p.length) := by
        rw [← hsplit]; exact hi.held.append p
      rw [hseq, ← List.append_assoc] at hs
      have hle := hheld t ht i h1 hile hs
      have hs' : t.take i <:+ st.out.flatten ++ (st.pending.flatten ++ p) := by
        rw [← List.append_assoc]; exact hs
      have := suffix_of_append_short hs' (by rw [List.length_take, List.length_append]; omega)
      exact stopSuffix_false hsuf t ht i h1 hile (by rw [hseq]; exact this)

theorem run_mainG (pinned : Bool) {stops : List Bytes} (hne : StopsNe stops) (limit : Int) (evs : List Ev) :
    ValidPrefix (run pinned limit stops init evs).genText →
      PostG pinned stops (run pinned limit stops init evs) := by
  refine run_ind (pinned := pinned) (limit := limit) (stops := stops)
    (Inv := fun st => ValidPrefix st.genText → Inv stops st)
    (Post := fun f => ValidPrefix f.genText → PostG pinned stops f) ?_ ?_ ?_ ?_ ?_ evs init
    (fun _ => inv_initG stops hne)
  · intro st hi _ hvp
    have := hi hvp
    unfold PostG; rw [this.cause]; exact this
  · intro st hi _ hvp
    have hinv : Inv stops st := hi (by simpa [St.genText] using hvp)
    have := post_finish_flush hinv .length .limit
    unfold PostG; rw [finish_cause]
    exact ⟨rfl, this.1, this.2, finish_pending _ _ _⟩
  · intro st hi _ hvp
    have hinv : Inv stops st := hi (by simpa [St.genText] using hvp)
    have hinv' : Inv stops { st with numPredicted := st.numPredicted + 1 } :=
      ⟨hinv.done, hinv.cause, hinv.split, hinv.outValid, hinv.noOcc, hinv.held⟩
    have := post_finish_flush hinv' .stop .eos
    unfold PostG; rw [finish_cause]
    exact ⟨rfl, this.1, this.2, finish_pending _ _ _⟩
  · intro st p hi _ hd hvp
    rw [stepPiece_genText] at hvp
    exact (step_mainG pinned hne p (hi hvp.left) hvp).1 hd
  · intro st p hi _ hd hvp
    rw [stepPiece_genText] at hvp
    exact (step_mainG pinned hne p (hi hvp.left) hvp).2 hd

end OllamaVerif.Stop
