/-
  C14 — helper lemmas for the model in Model/Stop.lean (core Lean only).
  A. the UTF-8 automaton and `incompleteUnicode`;  B. `trimValid` / `flushChunk`;
  C. occurrence combinatorics (`indexOf`, `contains`, prefixes of stops at the end of the text);
  D. `truncateStop`.
-/
import OllamaVerif.Model.Stop

namespace OllamaVerif.Stop
open OllamaVerif

/-! ## A. bytes, the UTF-8 automaton, IncompleteUnicode -/

theorem u8_all (P : UInt8 → Prop) [DecidablePred P] (h : ∀ n : Fin 256, P (UInt8.ofNat n.val)) :
    ∀ b : UInt8, P b := by
  intro b
  have := h ⟨b.toNat, b.toNat_lt⟩
  simpa using this

/-- a byte in 80..BF is a continuation byte for `IncompleteUnicode` -/
theorem cont_of_range : ∀ b : UInt8, 0x80 ≤ b → b ≤ 0xBF → (b &&& 0xc0 == 0x80) = true := by
  apply u8_all; decide +kernel

/-- every range list the automaton can be in: at most 3 ranges, all inside 80..BF -/
def Good (st : Ranges) : Prop := st.length ≤ 3 ∧ ∀ r ∈ st, 0x80 ≤ r.1 ∧ r.2 ≤ 0xBF

/-- per-byte facts about accepted lead bytes, in decidable form -/
def leadFacts (b : UInt8) : Bool :=
  match leadRanges b with
  | none => true
  | some st =>
    decide (st.length ≤ 3) && st.all (fun r => decide (0x80 ≤ r.1) && decide (r.2 ≤ 0xBF))
      && !(b &&& 0xc0 == 0x80)
      && (if b &&& 0xe0 == 0xc0 then st.length == 1
          else if b &&& 0xf0 == 0xe0 then st.length == 2
          else if b &&& 0xf8 == 0xf0 then st.length == 3
          else st.length == 0)

theorem leadFacts_all : ∀ b : UInt8, leadFacts b = true := by
  apply u8_all; decide +kernel

/-- what `IncompleteUnicode` computes at a lead byte, for every lead the automaton accepts:
    at distance `k+1` from the end, a lead that still needs `n` more bytes is reported incomplete iff `k < n`. -/
theorem lead_incomplete (b : UInt8) (st : Ranges) (h : leadRanges b = some st) :
    Good st ∧ (!(b &&& 0xc0 == 0x80)) = true ∧
      ∀ k, k < st.length → ∀ tl, incompleteAux (k + 1) (b :: tl) = true := by
  have hf := leadFacts_all b
  simp only [leadFacts, h, Bool.and_eq_true, decide_eq_true_eq, List.all_eq_true] at hf
  obtain ⟨⟨⟨hlen, hall⟩, hnc⟩, hcls⟩ := hf
  refine ⟨⟨hlen, fun r hr => by simpa using hall r hr⟩, hnc, ?_⟩
  intro k hk tl
  have hnc' : (b &&& 0xc0 == 0x80) = false := by simpa using hnc
  unfold incompleteAux
  have h5 : ¬ (k + 1 ≥ 5) := by omega
  simp only [h5, if_false, hnc']
  split at hcls
  · rename_i h1; simp only [h1, if_true]; have : st.length = 1 := by simpa using hcls
    simp; omega
  · rename_i h1
    split at hcls
    · rename_i h2; simp only [h1, h2, if_true]; have : st.length = 2 := by simpa using hcls
      simp; omega
    · rename_i h2
      split at hcls
      · rename_i h3; simp only [h1, h2, h3, if_true]; have : st.length = 3 := by simpa using hcls
        simp; omega
      · have : st.length = 0 := by simpa using hcls
        omega

theorem utf8Run_append (st : Option Ranges) (a b : Bytes) :
    utf8Run st (a ++ b) = utf8Run (utf8Run st a) b := by
  simp [utf8Run, List.foldl_append]

@[simp] theorem utf8Run_nil (st : Option Ranges) : utf8Run st [] = st := rfl

theorem utf8Run_none (l : Bytes) : utf8Run none l = none := by
  induction l with
  | nil => rfl
  | cons b l ih => simpa [utf8Run, utf8Step] using ih

theorem utf8Run_snoc (st : Option Ranges) (a : Bytes) (b : UInt8) :
    utf8Run st (a ++ [b]) = utf8Step (utf8Run st a) b := by
  simp [utf8Run, List.foldl_append]

theorem validUtf8_iff (l : Bytes) : validUtf8 l = true ↔ utf8Run (some []) l = some [] := by
  simp [validUtf8]

@[simp] theorem validUtf8_nil : validUtf8 [] = true := by decide

theorem validUtf8_append {a b : Bytes} (ha : validUtf8 a = true) (hb : validUtf8 b = true) :
    validUtf8 (a ++ b) = true := by
  rw [validUtf8_iff] at *
  rw [utf8Run_append, ha, hb]

/-- after a valid prefix the rest is judged on its own -/
theorem validUtf8_append_left {a : Bytes} (ha : validUtf8 a = true) (b : Bytes) :
    validUtf8 (a ++ b) = validUtf8 b := by
  rw [validUtf8_iff] at ha
  simp [validUtf8, utf8Run_append, ha]

/-- `g` is a prefix of some valid UTF-8 string (valid up to a trailing incomplete character) -/
def ValidPrefix (g : Bytes) : Prop := ∃ r, validUtf8 (g ++ r) = true

theorem ValidPrefix.left {a b : Bytes} (h : ValidPrefix (a ++ b)) : ValidPrefix a := by
  obtain ⟨r, hr⟩ := h
  exact ⟨b ++ r, by simpa [List.append_assoc] using hr⟩

theorem ValidPrefix.right {a b : Bytes} (ha : validUtf8 a = true) (h : ValidPrefix (a ++ b)) :
    ValidPrefix b := by
  obtain ⟨r, hr⟩ := h
  exact ⟨r, by rw [List.append_assoc, validUtf8_append_left ha] at hr; exact hr⟩

theorem ValidPrefix.of_valid {a : Bytes} (h : validUtf8 a = true) : ValidPrefix a :=
  ⟨[], by simpa using h⟩

theorem ValidPrefix.run_some {a : Bytes} (h : ValidPrefix a) : ∃ st, utf8Run (some []) a = some st := by
  obtain ⟨r, hr⟩ := h
  rw [validUtf8_iff, utf8Run_append] at hr
  cases hst : utf8Run (some []) a with
  | none => rw [hst, utf8Run_none] at hr; cases hr
  | some st => exact ⟨st, rfl⟩

theorem snoc_induction {α} {P : List α → Prop} (nil : P [])
    (append_singleton : ∀ a b, P a → P (a ++ [b])) : ∀ l, P l := by
  have h : ∀ l : List α, P l.reverse := by
    intro l
    induction l with
    | nil => exact nil
    | cons b l ih => simpa using append_singleton _ b ih
  intro l
  simpa using h l.reverse

/-- reachable automaton states are `Good` -/
theorem good_of_run (a : Bytes) : ∀ st, utf8Run (some []) a = some st → Good st := by
  induction a using snoc_induction with
  | nil => intro st h; cases h; exact ⟨by simp, by simp⟩
  | append_singleton a b ih =>
    intro st h
    rw [utf8Run_snoc] at h
    cases hst' : utf8Run (some []) a with
    | none => rw [hst'] at h; cases h
    | some st' =>
      rw [hst'] at h
      have hg := ih st' hst'
      cases st' with
      | nil => exact (lead_incomplete b st h).1
      | cons r rest =>
        obtain ⟨lo, hi⟩ := r
        simp only [utf8Step] at h
        split at h
        · cases h
          exact ⟨by have := hg.1; simp at this; omega, fun r hr => hg.2 r (List.mem_cons_of_mem _ hr)⟩
        · cases h

/-- the automaton state counts the bytes still missing; `IncompleteUnicode` sees them -/
theorem incomplete_of_run (a : Bytes) : ∀ st, utf8Run (some []) a = some st →
    ∀ k, k < st.length → incompleteAux (k + 1) a.reverse = true := by
  induction a using snoc_induction with
  | nil => intro st h; cases h; intro k hk; simp at hk
  | append_singleton a b ih =>
    intro st h k hk
    rw [utf8Run_snoc] at h
    cases hst' : utf8Run (some []) a with
    | none => rw [hst'] at h; cases h
    | some st' =>
      rw [hst'] at h
      have hg := good_of_run a st' hst'
      simp only [List.reverse_append, List.reverse_cons, List.reverse_nil, List.nil_append,
        List.singleton_append]
      cases st' with
      | nil => exact (lead_incomplete b st h).2.2 k hk _
      | cons r rest =>
        obtain ⟨lo, hi⟩ := r
        simp only [utf8Step] at h
        split at h
        · rename_i hc
          cases h
          have hr := hg.2 (lo, hi) (List.mem_cons_self ..)
          have hcont := cont_of_range b (UInt8.le_trans hr.1 hc.1) (UInt8.le_trans hc.2 hr.2)
          have hlen := hg.1
          simp only [List.length_cons] at hlen
          have := ih (((lo, hi)) :: st) hst' (k + 1) (by simp; omega)
          unfold incompleteAux
          have h5 : ¬ (k + 1 ≥ 5) := by omega
          simp only [h5, if_false, hcont, if_true]
          exact this
        · cases h

/-- **Key fact for the unicode hold.** On a prefix of valid UTF-8, "IncompleteUnicode is false"
    means the text is valid as it stands (no character is cut). -/
theorem valid_of_not_incomplete {a : Bytes} (hp : ValidPrefix a)
    (hi : incompleteUnicode a = false) : validUtf8 a = true := by
  obtain ⟨st, hst⟩ := hp.run_some
  rw [validUtf8_iff, hst]
  cases st with
  | nil => rfl
  | cons r rest =>
    have := incomplete_of_run a _ hst 0 (by simp)
    simp [incompleteUnicode] at hi
    rw [hi] at this; cases this

/-- and conversely a valid text is never held back by `IncompleteUnicode`… is NOT needed and not
    claimed: `IncompleteUnicode` only looks at byte classes. -/
theorem first_byte_of_valid {c : UInt8} {s : Bytes} (h : ValidPrefix (c :: s)) :
    ∃ st, leadRanges c = some st := by
  obtain ⟨st, hst⟩ := h.run_some
  have : utf8Run (some []) (c :: s) = utf8Run (leadRanges c) s := rfl
  rw [this] at hst
  cases hl : leadRanges c with
  | none => rw [hl, utf8Run_none] at hst; cases hst
  | some st' => exact ⟨st', rfl⟩

/-- **Self-synchronisation.** If a text that is a prefix of valid UTF-8 is cut right before an
    occurrence of a non-empty valid string, the part before the cut is valid. -/
theorem valid_before_valid {a s : Bytes} (hs : validUtf8 s = true) (hne : s ≠ [])
    (h : ValidPrefix (a ++ s)) : validUtf8 a = true := by
  obtain ⟨st, hst⟩ := h.left.run_some
  rw [validUtf8_iff, hst]
  cases st with
  | nil => rfl
  | cons r rest =>
    exfalso
    obtain ⟨lo, hi⟩ := r
    have hg := good_of_run a _ hst
    cases s with
    | nil => exact hne rfl
    | cons c s' =>
      obtain ⟨stc, hc⟩ := first_byte_of_valid (ValidPrefix.of_valid hs)
      have hnc := (lead_incomplete c stc hc).2.1
      obtain ⟨st2, hst2⟩ := h.run_some
      rw [utf8Run_append, hst] at hst2
      have : utf8Run (some ((lo, hi) :: rest)) (c :: s') = utf8Run (utf8Step (some ((lo, hi) :: rest)) c) s' := rfl
      rw [this] at hst2
      simp only [utf8Step] at hst2
      split at hst2
      · rename_i hcond
        have hr := hg.2 (lo, hi) (List.mem_cons_self ..)
        have := cont_of_range c (UInt8.le_trans hr.1 hcond.1) (UInt8.le_trans hcond.2 hr.2)
        rw [this] at hnc; cases hnc
      · rw [utf8Run_none] at hst2; cases hst2
