/-
  C04, "every model that is listed can be shown": the model layers of every readable manifest, through every
  operation (helper lemmas; the theorems are in Properties/C04.lean).  Core Lean only.
-/
import OllamaVerif.Proofs.Store

namespace OllamaVerif.Store

/-- the model layers of a layer list (`GetModel` uses the LAST one) -/
def ml (ls : List Layer) : List Layer := ls.filter (fun l => l.media = .model)

theorem ml_append (a b : List Layer) : ml (a ++ b) = ml a ++ ml b := by
  unfold ml; exact List.filter_append ..

theorem ml_filter_ne (ls : List Layer) (μ : Media) (h : μ ≠ .model) :
    ml (ls.filter (fun l => l.media ≠ μ)) = ml ls := by
  unfold ml
  rw [List.filter_filter]
  apply List.filter_congr
  intro l _
  by_cases hm : l.media = .model
  · simp [hm, h.symm]
  · simp [hm]

theorem ml_replaceLayer (env : Env) (st : Store) (ls : List Layer) (μ : Media) (h : μ ≠ .model) (c : Bytes) :
    ml (replaceLayer env st ls μ c).2 = ml ls := by
  rw [replaceLayer_snd, ml_append, ml_filter_ne ls μ h]
  simp [ml, h]

theorem ml_stepTemplate (env : Env) (st : Store) (ls : List Layer) (t : Option (Bytes × Bool)) :
    ∀ ls', (stepTemplate env st ls t).2 = some ls' → ml ls' = ml ls := by
  intro ls' h
  cases t with
  | none => simp only [stepTemplate] at h; injection h with e; rw [← e]
  | some tb =>
    obtain ⟨c, ok⟩ := tb
    cases ok with
    | false => simp [stepTemplate] at h
    | true =>
      simp only [stepTemplate, if_true] at h
      injection h with e; rw [← e]
      exact ml_replaceLayer env st ls .template (by decide) c

theorem ml_stepSystem (env : Env) (st : Store) (ls : List Layer) (s : Option Bytes) :
    ml (stepSystem env st ls s).2 = ml ls := by
  cases s with
  | none => rfl
  | some c => exact ml_replaceLayer env st ls .system (by decide) c

theorem ml_stepLicense (env : Env) (lics : List Bytes) (st : Store) (ls : List Layer) :
    ml (stepLicense env st ls lics).2 = ml ls := by
  induction lics generalizing st ls with
  | nil => rfl
  | cons c t ih =>
    simp only [stepLicense, newLayer]
    rw [ih, ml_append]
    simp [ml]

theorem ml_stepParams (env : Env) (st : Store) (ls : List Layer) (p : List (String × String)) :
    ∀ ls', (stepParams env st ls p).2 = some ls' → ml ls' = ml ls := by
  intro ls' h
  unfold stepParams at h
  split at h
  · cases h
  · injection h with e; rw [← e]
  · simp only at h
    injection h with e; rw [← e]
    exact ml_replaceLayer env st ls .params (by decide) _

theorem ml_stepMessages (env : Env) (st : Store) (ls : List Layer) (ms : List (String × String)) :
    ml (stepMessages env st ls ms).2 = ml ls := by
  cases ms with
  | nil => rfl
  | cons m t => exact ml_replaceLayer env st ls .messages (by decide) _

/-- on success `createModel` writes, at `name`, a manifest whose model layers are those of the base list -/
theorem createModel_manifest (env : Env) (st : Store) (name : Name) (base : List (Layer × Option Meta))
    (r : CreateReq) (h : (createModel env st name base r).2 = none) :
    ∃ m, (createModel env st name base r).1.man name = some (.readable m) ∧ ml m.layers = ml (base.map (·.1)) := by
  unfold createModel at h ⊢
  simp only at h ⊢
  have e1 := ml_stepTemplate env st (base.map (·.1)) r.template
  cases h1 : stepTemplate env st (base.map (·.1)) r.template with
  | mk st1 o1 =>
    rw [h1] at e1 h; simp only at e1 h ⊢
    cases o1 with
    | none => simp at h
    | some l1 =>
      simp only at h ⊢
      have e1 := e1 l1 rfl
      have e2 := ml_stepSystem env st1 l1 r.system
      cases h2 : stepSystem env st1 l1 r.system with
      | mk st2a l2a =>
        rw [h2] at e2 h; simp only at e2 h ⊢
        have e2l := ml_stepLicense env r.licenses st2a l2a
        cases h2l : stepLicense env st2a l2a r.licenses with
        | mk st2 l2 =>
          rw [h2l] at e2l h; simp only at e2l h ⊢
          have e3 := ml_stepParams env st2 l2 r.params
          cases h3 : stepParams env st2 l2 r.params with
          | mk st3 o3 =>
            rw [h3] at e3 h; simp only at e3 h ⊢
            cases o3 with
            | none => simp at h
            | some l3a =>
              simp only
              have e3m := ml_stepMessages env st3 l3a r.messages
              cases h3m : stepMessages env st3 l3a r.messages with
              | mk st3m l3 =>
              rw [h3m] at e3m; simp only at e3m ⊢
              refine ⟨⟨(newLayer env st3m (configJSON (base.filterMap (·.2)) (l3.map (·.digest))) .config).2, l3⟩, ?_, ?_⟩
              · rw [setManifest_man]; simp
              · simp only
                rw [e3m, e3 l3a rfl, e2l, e2, e1]

/-- the digest of a layer is the hash of a content the GGUF decoder accepts -/
def DecL (env : Env) (l : Layer) : Prop := ∃ c, env.hash c = l.digest.hex ∧ (env.gguf c).isSome = true

/-- every readable manifest has a model layer, and every model layer names a decodable content -/
def ShowInv (env : Env) (st : Store) : Prop :=
  ∀ n m, st.man n = some (.readable m) → ml m.layers ≠ [] ∧ ∀ l ∈ ml m.layers, DecL env l

theorem mem_ml {ls : List Layer} {l : Layer} : l ∈ ml ls ↔ l ∈ ls ∧ l.media = .model := by
  unfold ml; simp [List.mem_filter]

theorem autoLayers_ml (env : Env) (st : Store) (mt : Meta) : ml ((autoLayers env st mt).2.map (·.1)) = [] := by
  unfold autoLayers
  cases mt.auto with
  | none => rfl
  | some tp =>
    obtain ⟨t, p⟩ := tp
    cases p <;> simp [newLayer, ml]

/-- no GGUF the decoder accepts is an adapter or a projector (`general.type`): every file layer of a create is a
    MODEL layer.  Without it a create from `files` that hold only an adapter is listed and cannot be shown
    (finding N6, `N6_witness`). -/
def ModelKinds (env : Env) : Prop := ∀ c mt, env.gguf c = some mt → mt.kind = .model

theorem fileLayers_dec {env : Env} (hinj : HashInj env) (hkind : ModelKinds env) (ds : List Digest) {st : Store}
    (hb : BlobsOk env st) :
    ∀ b, (fileLayers env st ds).2 = .ok b →
      (∀ l ∈ ml (b.map (·.1)), DecL env l) ∧ (ds ≠ [] → ml (b.map (·.1)) ≠ []) := by
  induction ds generalizing st with
  | nil =>
    intro b h
    simp only [fileLayers] at h
    injection h with e; subst e
    exact ⟨by simp [ml], fun h => absurd rfl h⟩
  | cons d t ih =>
    intro b h
    simp only [fileLayers] at h
    cases hc : st.blob d.key with
    | none => rw [hc] at h; cases h
    | some c =>
      rw [hc] at h; simp only at h
      cases hg : env.gguf c with
      | none => rw [hg] at h; cases h
      | some mt =>
        rw [hg] at h; simp only at h
        have sa := (autoLayers_spec hinj hb mt).1
        have ea := autoLayers_ml env st mt
        cases hal : autoLayers env st mt with
        | mk st1 auto =>
          rw [hal] at h sa ea; simp only at h sa ea
          cases hfl : fileLayers env st1 t with
          | mk st2 res =>
            rw [hfl] at h
            cases res with
            | error e => cases h
            | ok r =>
              simp only at h
              injection h with e; subst e
              have ihr := ih (st := st1) (sa.blobsOk hb) r (by rw [hfl])
              have hkm : mt.kind = .model := hkind c mt hg
              rw [hkm]
              have hd : DecL env ⟨.model, env.recorded d, c.length⟩ :=
                ⟨c, by rw [recorded_hex]; exact hb _ _ hc, by rw [hg]; rfl⟩
              have hcons : ∀ (x : Layer) (xs : List Layer), x.media = .model → ml (x :: xs) = x :: ml xs := by
                intro x xs hx; simp [ml, hx]
              have hml : ml (((⟨.model, env.recorded d, c.length⟩, some mt) :: auto ++ r).map (·.1)) =
                  ⟨.model, env.recorded d, c.length⟩ :: ml (r.map (·.1)) := by
                simp only [List.map_append, List.map_cons, ml_append]
                rw [hcons _ _ rfl, ea]
                rfl
              rw [hml]
              refine ⟨?_, fun _ => by simp⟩
              intro l hl
              simp only [List.mem_cons] at hl
              rcases hl with hl | hl
              · subst hl; exact hd
              · exact ihr.1 l hl

/-- `parseFromModel` keeps media type and hex of every layer of the source manifest -/
theorem fromLayers_shape {env : Env} {st : Store} (ls : List Layer) :
    ∀ b, fromLayers env st ls = some b →
      (∀ x ∈ b.map (·.1), ∃ l ∈ ls, x.media = l.media ∧ x.digest.hex = l.digest.hex) ∧
      (∀ l ∈ ls, ∃ x ∈ b.map (·.1), x.media = l.media ∧ x.digest.hex = l.digest.hex) := by
  induction ls with
  | nil =>
    intro b h
    simp only [fromLayers] at h
    injection h with e; subst e
    simp
  | cons l t ih =>
    intro b h
    simp only [fromLayers] at h
    cases hc : st.blob l.digest.key with
    | none => simp [hc] at h
    | some c =>
      simp only [hc] at h
      have key : ∀ (mt : Option Meta) (r : List (Layer × Option Meta)), fromLayers env st t = some r →
          (∀ x ∈ (((⟨l.media, env.recorded l.digest, c.length⟩, mt) :: r).map (·.1)),
            ∃ l' ∈ l :: t, x.media = l'.media ∧ x.digest.hex = l'.digest.hex) ∧
          (∀ l' ∈ l :: t, ∃ x ∈ (((⟨l.media, env.recorded l.digest, c.length⟩, mt) :: r).map (·.1)),
            x.media = l'.media ∧ x.digest.hex = l'.digest.hex) := by
        intro mt r hr
        obtain ⟨i1, i2⟩ := ih r hr
        refine ⟨?_, ?_⟩
        · intro x hx
          simp only [List.map_cons, List.mem_cons] at hx
          rcases hx with hx | hx
          · subst hx; exact ⟨l, by simp, rfl, recorded_hex env l.digest⟩
          · obtain ⟨l', hl', h'⟩ := i1 x hx
            exact ⟨l', by simp [hl'], h'⟩
        · intro l' hl'
          simp only [List.mem_cons] at hl'
          rcases hl' with hl' | hl'
          · subst hl'
            exact ⟨⟨l'.media, env.recorded l'.digest, c.length⟩, by simp, rfl, recorded_hex env l'.digest⟩
          · obtain ⟨x, hx, h'⟩ := i2 l' hl'
            exact ⟨x, by simp only [List.map_cons, List.mem_cons]; exact Or.inr hx, h'⟩
      split at h
      · cases hg : env.gguf c with
        | none => simp [hg] at h
        | some mt =>
          simp only [hg] at h
          cases hr : fromLayers env st t with
          | none => simp [hr] at h
          | some r =>
            simp only [hr, Option.map_some] at h
            injection h with e; subst e
            exact key _ r hr
      · cases hr : fromLayers env st t with
        | none => simp [hr] at h
        | some r =>
          simp only [hr, Option.map_some] at h
          injection h with e; subst e
          exact key _ r hr

/-- with N1 repaired, the base layers of a create have a model layer and all their model layers are decodable -/
theorem baseLayers_dec {env : Env} (hv : env.v.fixReturn = true) (hinj : HashInj env) (hkind : ModelKinds env)
    {st : Store}
    (hb : BlobsOk env st) (hs : ShowInv env st) (r : CreateReq) (frev : Bool) :
    ∀ b, (baseLayers env st r frev).2.1 = some b →
      ml (b.map (·.1)) ≠ [] ∧ ∀ l ∈ ml (b.map (·.1)), DecL env l := by
  intro b h
  unfold baseLayers at h
  simp only [hv, if_true] at h
  cases hsrc : r.src with
  | some f =>
    rw [hsrc] at h; simp only at h
    cases hm : st.readableAt f with
    | none => rw [hm] at h; cases h
    | some m =>
      rw [hm] at h; simp only at h
      cases hfl : fromLayers env st m.layers with
      | none => rw [hfl] at h; cases h
      | some b' =>
        rw [hfl] at h; simp only at h
        injection h with e; subst e
        obtain ⟨hne, hdec⟩ := hs f m (readableAt_eq_some.mp hm)
        obtain ⟨s1, s2⟩ := fromLayers_shape m.layers b' hfl
        refine ⟨?_, ?_⟩
        · cases hl : ml m.layers with
          | nil => exact absurd hl hne
          | cons l0 _ =>
            have hl0 : l0 ∈ ml m.layers := by rw [hl]; simp
            obtain ⟨h1, h2⟩ := mem_ml.mp hl0
            obtain ⟨x, hx, hxm, _⟩ := s2 l0 h1
            intro hnil
            have : x ∈ ml (b'.map (·.1)) := mem_ml.mpr ⟨hx, hxm.trans h2⟩
            rw [hnil] at this; cases this
        · intro x hx
          obtain ⟨hx1, hx2⟩ := mem_ml.mp hx
          obtain ⟨l, hl, hlm, hlh⟩ := s1 x hx1
          obtain ⟨c, hc1, hc2⟩ := hdec l (mem_ml.mpr ⟨hl, hlm ▸ hx2⟩)
          exact ⟨c, hc1.trans hlh.symm, hc2⟩
  | none =>
    rw [hsrc] at h; simp only at h
    split at h
    · cases h
    · rename_i hne
      cases hfl : fileLayers env st (if frev = true then r.files.reverse else r.files) with
      | mk st' res =>
        rw [hfl] at h
        cases res with
        | error e => cases h
        | ok b' =>
          simp only at h
          injection h with e; subst e
          have := fileLayers_dec hinj hkind _ hb b' (by rw [hfl])
          refine ⟨this.2 ?_, this.1⟩
          intro hnil
          apply hne
          cases frev with
          | true => simp only [if_true] at hnil; simpa using hnil
          | false => simpa using hnil

theorem showInv_of {env : Env} {st st' : Store} (hs : ShowInv env st)
    (h : ∀ n m, st'.man n = some (.readable m) →
      st.man n = some (.readable m) ∨ (ml m.layers ≠ [] ∧ ∀ l ∈ ml m.layers, DecL env l)) : ShowInv env st' := by
  intro n m hm
  rcases h n m hm with h' | h'
  · exact hs n m h'
  · exact h'

theorem createModel_err_mans (env : Env) (st : Store) (name : Name) (base : List (Layer × Option Meta))
    (r : CreateReq) (e : String) (h : (createModel env st name base r).2 = some e) :
    (createModel env st name base r).1.mans = st.mans := by
  unfold createModel at h ⊢
  simp only at h ⊢
  have e1 := stepTemplate_mans env st (base.map (·.1)) r.template
  cases h1 : stepTemplate env st (base.map (·.1)) r.template with
  | mk st1 o1 =>
    rw [h1] at e1 h; simp only at e1 h ⊢
    cases o1 with
    | none => exact e1
    | some l1 =>
      simp only at h ⊢
      have e2 := stepSystem_mans env st1 l1 r.system
      cases h2 : stepSystem env st1 l1 r.system with
      | mk st2a l2a =>
        rw [h2] at e2 h; simp only at e2 h ⊢
        have e2l := stepLicense_mans env r.licenses st2a l2a
        cases h2l : stepLicense env st2a l2a r.licenses with
        | mk st2 l2 =>
          rw [h2l] at e2l h; simp only at e2l h ⊢
          have e3 := stepParams_mans env st2 l2 r.params
          cases h3 : stepParams env st2 l2 r.params with
          | mk st3 o3 =>
            rw [h3] at e3 h; simp only at e3 h ⊢
            cases o3 with
            | none => exact e3.trans (e2l.trans (e2.trans e1))
            | some l3 => simp at h

/-- create keeps `ShowInv` once N1 is repaired (pinned: a FROM error leaves a manifest without model layer) -/
theorem createAt_showInv {env : Env} (hv : env.v.fixReturn = true) (hinj : HashInj env) (hkind : ModelKinds env)
    {st : Store}
    (hb : BlobsOk env st) (hs : ShowInv env st) (r : CreateReq) (name : Name) (frev : Bool) :
    ShowInv env (createAt env st r name frev).1 := by
  have hbm := baseLayers_mans env st r frev
  have hdec := baseLayers_dec hv hinj hkind hb hs r frev
  unfold createAt
  simp only
  cases hbl : baseLayers env st r frev with
  | mk stb rest =>
    obtain ⟨ob, ev⟩ := rest
    rw [hbl] at hbm hdec
    simp only at hbm hdec
    cases ob with
    | none => exact showInv_of hs (fun n m hm => Or.inl (by rw [← man_congr hbm n]; exact hm))
    | some base =>
      simp only
      obtain ⟨hne, hd⟩ := hdec base rfl
      cases hcm : createModel env stb name base r with
      | mk st1 o =>
        cases o with
        | some err =>
          simp only
          have := createModel_err_mans env stb name base r err (by rw [hcm])
          rw [hcm] at this
          exact showInv_of hs (fun n m hm => Or.inl (by
            rw [← man_congr hbm n, ← man_congr this n]; exact hm))
        | none =>
          obtain ⟨m0, hm0, hml⟩ := createModel_manifest env stb name base r (by rw [hcm])
          rw [hcm] at hm0
          simp only at hm0
          have other : ∀ n, n ≠ name → st1.man n = st.man n := by
            intro n hn
            rcases createModel_mans env stb name base r with h | ⟨m', h⟩
            · rw [hcm] at h; rw [man_congr h n, man_congr hbm n]
            · rw [hcm] at h
              unfold Store.man
              rw [h, aget_aset]
              simp only [hn, if_false]
              exact man_congr hbm n
          have key : ∀ (stf : Store), stf.mans = st1.mans → ShowInv env stf := by
            intro stf hf
            refine showInv_of hs (fun n m hm => ?_)
            rw [man_congr hf n] at hm
            by_cases hn : n = name
            · subst hn
              rw [hm0] at hm
              injection hm with e; injection e with e; subst e
              exact Or.inr ⟨by rw [hml]; exact hne, fun l hl => hd l (by rw [← hml]; exact hl)⟩
            · exact Or.inl (by rw [← other n hn]; exact hm)
          simp only
          cases st.readableAt name with
          | none => exact key st1 rfl
          | some mo => exact key _ (gcOld_mans env mo.all st1)

theorem dashed_ml (m : Manifest) :
    ml m.dashed.layers = (ml m.layers).map (fun l => { l with digest := ⟨.dash, l.digest.hex⟩ }) := by
  unfold Manifest.dashed ml
  simp only
  induction m.layers with
  | nil => rfl
  | cons l t ih =>
    by_cases h : l.media = .model
    · simp [List.filter_cons, h, ih]
    · simp [List.filter_cons, h, ih]

/-- what a pulled manifest must offer for `show` to work: a model layer, all model layers decodable -/
def PullShowOk (env : Env) : Op → Prop
  | .pull _ (some m) _ => ml m.layers ≠ [] ∧ ∀ l ∈ ml m.layers, DecL env l
  | _ => True

/-- every operation keeps `ShowInv` (create: with N1 repaired; pull: of a manifest that can be shown) -/
theorem step_showInv {env : Env} (hv : env.v.fixReturn = true) (hinj : HashInj env) (hkind : ModelKinds env)
    {st : Store}
    (hb : BlobsOk env st) (hs : ShowInv env st) (op : Op) (ch : Choice) (hp : PullShowOk env op) :
    ShowInv env (step env st op ch).1 := by
  have frame := step_man_frame env st op ch
  have same : targets env st op ch = [] → ShowInv env (step env st op ch).1 := fun ht =>
    showInv_of hs (fun n m hm => Or.inl (by rw [← frame n (by rw [ht]; simp)]; exact hm))
  cases op with
  | upload d c => exact same rfl
  | prune => exact same rfl
  | litter j c => exact same rfl
  | litterBlob k c => exact same rfl
  | litterMan p => exact same rfl
  | create r => exact createAt_showInv hv hinj hkind hb hs r _ _
  | pull t reg served =>
    refine showInv_of hs (fun n m hm => ?_)
    by_cases hn : n = pullTarget env (resolveName env st ch.ord1 t)
    · subst hn
      simp only [step] at hm
      rcases pullAt_mans env st (pullTarget env (resolveName env st ch.ord1 t)) reg served with h | ⟨m0, hreg, h⟩
      · exact Or.inl (by rw [← man_congr h _]; exact hm)
      · unfold Store.man at hm
        rw [h, aget_aset] at hm
        simp only [if_true] at hm
        injection hm with e; injection e with e; subst e
        subst hreg
        exact Or.inr hp
    · exact Or.inl (by rw [← frame n (by simp [targets, hn])]; exact hm)
  | copy s d =>
    refine showInv_of hs (fun n m hm => ?_)
    by_cases hn : n = resolveName env st ch.ord2 d
    · subst hn
      simp only [step, copyAt] at hm
      split at hm
      · exact Or.inl hm
      · cases hsrc : st.man (resolveName env st ch.ord1 s) with
        | none => rw [hsrc] at hm; exact Or.inl hm
        | some f =>
          rw [hsrc] at hm
          simp only [setManifest_man, if_true] at hm
          injection hm with e; subst e
          exact Or.inr (hs _ m hsrc)
    · exact Or.inl (by rw [← frame n (by simp [targets, hn])]; exact hm)
  | delete t =>
    refine showInv_of hs (fun n m hm => ?_)
    by_cases hn : n = resolveName env st ch.ord1 t
    · subst hn
      simp only [step, deleteAt] at hm
      split at hm
      · exact Or.inl hm
      · exact Or.inl hm
      · rw [man_congr (removeLayers_mans _ _ _)] at hm
        have hm' : (delManifest st (resolveName env st ch.ord1 t)).man (resolveName env st ch.ord1 t) =
            some (.readable m) := hm
        rw [delManifest_man] at hm'
        simp at hm'
    · exact Or.inl (by rw [← frame n (by simp [targets, hn])]; exact hm)
  | plant s d =>
    refine showInv_of hs (fun n m hm => ?_)
    by_cases hn : n = d
    · subst hn
      simp only [step] at hm
      cases hsrc : st.man s with
      | none => rw [hsrc] at hm; exact Or.inl hm
      | some f =>
        rw [hsrc] at hm
        simp only [setManifest_man, if_true] at hm
        injection hm with e; subst e
        exact Or.inr (hs _ m hsrc)
    · exact Or.inl (by rw [← frame n (by simp [targets, hn])]; exact hm)
  | corrupt t =>
    refine showInv_of hs (fun n m hm => ?_)
    by_cases hn : n = t
    · subst hn
      simp only [step] at hm
      cases hsrc : st.man n with
      | none => rw [hsrc] at hm; simp only at hm; rw [hsrc] at hm; cases hm
      | some f =>
        rw [hsrc] at hm
        simp only [setManifest_man, if_true] at hm
        cases hm
    · exact Or.inl (by rw [← frame n (by simp [targets, hn])]; exact hm)
  | dashify t =>
    refine showInv_of hs (fun n m hm => ?_)
    by_cases hn : n = t
    · subst hn
      simp only [step] at hm
      cases hsrc : st.man n with
      | none => rw [hsrc] at hm; simp only at hm; rw [hsrc] at hm; cases hm
      | some f =>
        cases f with
        | corrupt => rw [hsrc] at hm; simp only at hm; rw [hsrc] at hm; cases hm
        | readable m0 =>
          rw [hsrc] at hm
          simp only [setManifest_man, if_true] at hm
          injection hm with e; injection e with e; subst e
          obtain ⟨hne, hd⟩ := hs n m0 hsrc
          refine Or.inr ⟨?_, ?_⟩
          · rw [dashed_ml]; intro h; exact hne (List.map_eq_nil_iff.mp h)
          · intro l hl
            rw [dashed_ml, List.mem_map] at hl
            obtain ⟨l0, hl0, e⟩ := hl
            subst e
            exact hd l0 hl0
    · exact Or.inl (by rw [← frame n (by simp [targets, hn])]; exact hm)

end OllamaVerif.Store
