/-
  C20 helper lemmas, part 5: the special-token splitting loop as the Go code runs it (one slice edited in place while
  it is scanned) computes the model's `fragments` (`goFragments_eq`).
-/
import OllamaVerif.Proofs.Tokenizer
namespace OllamaVerif.Tok

/-! ## the special-token splitting loop as the Go code runs it: one slice, edited in place while it is scanned

```go
for i := 0; i < len(fragments); i++ {
    frag := fragments[i]
    if len(frag.ids) > 0 { continue }
    ... middle ...
    fragments = append(fragments[:i], append(middle, fragments[i+1:]...)...)
}
```
`goSplitPass` is that loop (index `i`, the slice rebuilt around `middle`, `i++` stepping INTO the pieces just inserted);
`goSplitPass_eq`: it computes the model's `splitFrags` (which splits every text fragment recursively). -/

/-- `middle` for the text fragment `v` -/
def goMiddle (sp : Special) (v : Str) : List Frag :=
  match indexOf v sp.lit with
  | none => [.text v]
  | some j =>
    (if j > 0 then [.text (v.take j)] else []) ++ [.special sp] ++
      (let rest := v.drop (j + sp.lit.length)
       if rest.isEmpty then [] else [.text rest])

def goSplitPass (sp : Special) : Nat → List Frag → Nat → List Frag
  | 0, frs, _ => frs
  | fuel+1, frs, i =>
    match frs[i]? with
    | none => frs
    | some (.special _) => goSplitPass sp fuel frs (i + 1)
    | some (.text v) => goSplitPass sp fuel (frs.take i ++ goMiddle sp v ++ frs.drop (i + 1)) (i + 1)

/-- iterations the loop still needs: one per special fragment, `2·len + 1` bounds a text fragment -/
def splitMeasure : List Frag → Nat
  | [] => 0
  | .special _ :: tl => 1 + splitMeasure tl
  | .text v :: tl => 2 * v.length + 1 + splitMeasure tl

theorem splitMeasure_append (a b : List Frag) : splitMeasure (a ++ b) = splitMeasure a + splitMeasure b := by
  induction a with
  | nil => simp [splitMeasure]
  | cons x a ih => cases x <;> simp [splitMeasure, ih] <;> omega

/-- `splitSpecial` does not depend on its fuel once the fuel exceeds the length -/
theorem splitSpecial_fuel (sp : Special) (hne : sp.lit ≠ []) (f g : Nat) (s : Str) (hf : s.length < f) (hg : s.length < g) :
    splitSpecial sp f s = splitSpecial sp g s := by
  have hpos : 0 < sp.lit.length := List.length_pos_iff.mpr hne
  induction f generalizing g s with
  | zero => omega
  | succ f ih =>
    cases g with
    | zero => omega
    | succ g =>
      unfold splitSpecial
      cases hi : indexOf s sp.lit with
      | none => rfl
      | some i =>
        simp only
        have hs := indexOf_spec s sp.lit i hi
        have hlen := congrArg List.length hs
        simp only [List.length_append, List.length_take, List.length_drop] at hlen
        congr 1
        split
        · rfl
        · apply ih
          · simp only [List.length_drop]; omega
          · simp only [List.length_drop]; omega

theorem splitFrags_cons (sp : Special) (fr : Frag) (frs : List Frag) :
    splitFrags sp (fr :: frs) = (match fr with
      | .text s => splitSpecial sp (s.length + 1) s
      | .special q => [.special q]) ++ splitFrags sp frs := by
  cases fr <;> simp [splitFrags]

theorem getElem?_append_len {α} (a : List α) (x : α) (b : List α) : (a ++ x :: b)[a.length]? = some x := by
  simp

/-- the loop, started at position `done.length` of `done ++ todo`, leaves `done` untouched and computes the model's
    split of `todo` -/
theorem goSplitPass_sim (sp : Special) (hne : sp.lit ≠ []) (fuel : Nat) (done todo : List Frag)
    (hf : splitMeasure todo < fuel) :
    goSplitPass sp fuel (done ++ todo) done.length = done ++ splitFrags sp todo := by
  have hpos : 0 < sp.lit.length := List.length_pos_iff.mpr hne
  induction fuel generalizing done todo with
  | zero => omega
  | succ fuel ih =>
    unfold goSplitPass
    cases todo with
    | nil => simp [splitFrags]
    | cons fr tl =>
      rw [getElem?_append_len]
      cases fr with
      | special q =>
        simp only
        have := ih (done ++ [.special q]) tl (by simp [splitMeasure] at hf; omega)
        simp only [List.append_assoc, List.singleton_append, List.length_append, List.length_singleton] at this
        rw [this, splitFrags_cons]
        simp
      | text v =>
        simp only
        have htake : (done ++ Frag.text v :: tl).take done.length = done := by simp
        have hdrop : (done ++ Frag.text v :: tl).drop (done.length + 1) = tl := by simp
        rw [htake, hdrop, splitFrags_cons]
        simp only [splitMeasure] at hf
        unfold goMiddle
        cases hi : indexOf v sp.lit with
        | none =>
          simp only
          have := ih (done ++ [.text v]) tl (by omega)
          simp only [List.append_assoc, List.singleton_append, List.length_append, List.length_singleton] at this
          rw [List.append_assoc, List.singleton_append, this]
          unfold splitSpecial
          simp [hi]
        | some j =>
          simp only
          have hs := indexOf_spec v sp.lit j hi
          have hlen := congrArg List.length hs
          simp only [List.length_append, List.length_take, List.length_drop] at hlen
          -- the model's split of v
          have hspec : splitSpecial sp (v.length + 1) v =
              (if j > 0 then [Frag.text (v.take j)] else []) ++ [Frag.special sp] ++
                (if (v.drop (j + sp.lit.length)).isEmpty then []
                 else splitSpecial sp ((v.drop (j + sp.lit.length)).length + 1) (v.drop (j + sp.lit.length))) := by
            conv => lhs; unfold splitSpecial
            simp only [hi]
            congr 1
            split
            · rfl
            · apply splitSpecial_fuel sp hne
              · simp only [List.length_drop]; omega
              · omega
          rw [hspec]
          -- what is left to scan after the step: [special]? ++ rest? ++ tl, with `before` (if any) already passed
          by_cases hj : j > 0
          · simp only [hj, if_true]
            by_cases hr : (v.drop (j + sp.lit.length)).isEmpty = true
            · simp only [hr, if_true, List.append_nil]
              have := ih (done ++ [.text (v.take j)]) (.special sp :: tl) (by simp [splitMeasure]; omega)
              simp only [List.append_assoc, List.singleton_append, List.length_append, List.length_singleton] at this
              simp only [List.append_assoc, List.singleton_append, List.cons_append, List.nil_append]
              rw [this, splitFrags_cons]
              simp
            · simp only [hr, if_false, Bool.false_eq_true]
              have hm : splitMeasure (Frag.special sp :: Frag.text (v.drop (j + sp.lit.length)) :: tl) < fuel := by
                simp only [splitMeasure, List.length_drop]; omega
              have := ih (done ++ [.text (v.take j)]) (.special sp :: .text (v.drop (j + sp.lit.length)) :: tl) hm
              simp only [List.append_assoc, List.singleton_append, List.length_append, List.length_singleton] at this
              simp only [List.append_assoc, List.singleton_append, List.cons_append, List.nil_append]
              rw [this, splitFrags_cons, splitFrags_cons]
              simp
          · have hj0 : j = 0 := by omega
            subst hj0
            simp only [Nat.lt_irrefl, if_false, List.nil_append]
            by_cases hr : (v.drop (0 + sp.lit.length)).isEmpty = true
            · simp only [hr, if_true, List.append_nil]
              have := ih (done ++ [.special sp]) tl (by omega)
              simp only [List.append_assoc, List.singleton_append, List.length_append, List.length_singleton] at this
              simp only [List.append_assoc, List.singleton_append]
              rw [this]
            · simp only [hr, if_false, Bool.false_eq_true]
              have hm : splitMeasure (Frag.text (v.drop (0 + sp.lit.length)) :: tl) < fuel := by
                simp only [splitMeasure, List.length_drop]; omega
              have := ih (done ++ [.special sp]) (.text (v.drop (0 + sp.lit.length)) :: tl) hm
              simp only [List.append_assoc, List.singleton_append, List.length_append, List.length_singleton] at this
              simp only [List.append_assoc, List.singleton_append, List.cons_append, List.nil_append]
              rw [this, splitFrags_cons]

/-- one pass of the Go loop over the whole slice = the model's `splitFrags` -/
theorem goSplitPass_eq (sp : Special) (hne : sp.lit ≠ []) (frs : List Frag) (fuel : Nat) (hf : splitMeasure frs < fuel) :
    goSplitPass sp fuel frs 0 = splitFrags sp frs := by
  have := goSplitPass_sim sp hne fuel [] frs hf
  simpa using this

/-- the outer loop over `SpecialVocabulary()` -/
def goFragments (specials : List Special) (s : Str) : List Frag :=
  specials.foldl (fun frs sp => goSplitPass sp (splitMeasure frs + 1) frs 0) [.text s]

/-- **The in-place splitting loops of `Encode` compute the model's `fragments`** (any specials with non-empty
    literals, any text). -/
theorem goFragments_eq (specials : List Special) (hne : ∀ q ∈ specials, q.lit ≠ []) (s : Str) :
    goFragments specials s = fragments specials s := by
  unfold goFragments fragments
  generalize ([Frag.text s] : List Frag) = init
  induction specials generalizing init with
  | nil => rfl
  | cons sp rest ih =>
    simp only [List.foldl_cons]
    rw [goSplitPass_eq sp (hne sp (by simp)) init _ (by omega)]
    exact ih (fun q hq => hne q (List.mem_cons_of_mem _ hq)) _

/-! ### an empty special literal: the loop never terminates -/

theorem indexOf_nil (v : Str) : indexOf v [] = some 0 := by
  unfold indexOf
  simp [isPrefixOf]

/-- **Divergence witness (finding `empty-special-hang`).**  With an empty special literal and a non-empty text fragment the
    loop inserts one more special fragment in front of the SAME text on every iteration: after `fuel` iterations the slice
    is `done ++ fuel × [special] ++ [text v]` and the scan position still points at the text — the exit condition
    `i >= len(fragments)` is never met and the slice grows without bound. -/
theorem goSplitPass_empty_diverges (sp : Special) (hlit : sp.lit = []) (v : Str) (hv : v ≠ []) (fuel : Nat)
    (done : List Frag) :
    goSplitPass sp fuel (done ++ [.text v]) done.length = done ++ List.replicate fuel (.special sp) ++ [.text v] := by
  induction fuel generalizing done with
  | zero => simp [goSplitPass]
  | succ fuel ih =>
    unfold goSplitPass
    rw [getElem?_append_len]
    simp only
    have htake : (done ++ [Frag.text v]).take done.length = done := by simp
    have hdrop : (done ++ [Frag.text v]).drop (done.length + 1) = [] := by simp
    have hmid : goMiddle sp v = [.special sp, .text v] := by
      unfold goMiddle
      rw [hlit, indexOf_nil]
      simp [hv]
    rw [htake, hdrop, hmid]
    have := ih (done ++ [.special sp])
    simp only [List.append_assoc, List.singleton_append, List.length_append, List.length_singleton,
      List.cons_append, List.nil_append, List.append_nil] at this ⊢
    rw [this, List.replicate_succ]
    simp

end OllamaVerif.Tok
