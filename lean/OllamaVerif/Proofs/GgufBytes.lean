/-
  C10 — the retained size of a decoded value in BYTES of the Go representation (64-bit), not in cells.

  Upper bounds per Go value the decoder keeps:
    key / string / tensor name   16 B string header + its bytes
    value in the `KV` map        16 B interface word pair + payload (a scalar boxed in ≤ 8 B; a string: header + bytes;
                                 an array: `*array` = 8 B pointer, 32 B struct (size + slice header), 16 B per collected
                                 element interface + the element's payload)
    map bucket overhead          ≤ 48 B per entry (bucket slot, tophash, overflow share)
    tensor                       8 B pointer in the slice + 80 B struct (name header, kind, offset, shape header, WriterTo)
                                 + name bytes + 8 B per dimension
  `Decoded.goBytes ≤ 128 * weight`, hence `≤ 128 * (input length + 24)` on every successful decode.
-/
import OllamaVerif.Proofs.GgufWeight

namespace OllamaVerif.Gguf
open OllamaVerif

def Elem.goBytes : Elem → Nat
  | .scalar _ => 16 + 8
  | .str s => 16 + 16 + s.length

def elemsGoBytes (es : List Elem) : Nat := (es.map Elem.goBytes).sum

def Val.goBytes : Val → Nat
  | .scalar _ _ => 16 + 8
  | .str s => 16 + 16 + s.length
  | .arr _ _ none => 16 + 8 + 32
  | .arr _ _ (some es) => 16 + 8 + 32 + elemsGoBytes es

def kvsGoBytes (kvs : List (Bytes × Val)) : Nat := (kvs.map (fun p => 48 + 16 + p.1.length + p.2.goBytes)).sum

def TInfo.goBytes (t : TInfo) : Nat := 8 + 80 + t.name.length + 8 * t.shape.length

def Decoded.goBytes (d : Decoded) : Nat := kvsGoBytes d.kvs + (d.tensors.map TInfo.goBytes).sum

theorem Elem.goBytes_le (e : Elem) : e.goBytes ≤ 32 * e.weight := by
  cases e <;> simp only [Elem.goBytes, Elem.weight] <;> omega

theorem elemsGoBytes_le (es : List Elem) : elemsGoBytes es ≤ 32 * elemsWeight es := by
  induction es with
  | nil => simp [elemsGoBytes, elemsWeight]
  | cons e es ih =>
    have := Elem.goBytes_le e
    simp only [elemsGoBytes, elemsWeight, List.map_cons, List.sum_cons] at ih ⊢
    omega

theorem Val.goBytes_le (v : Val) : v.goBytes ≤ 64 * v.weight := by
  cases v with
  | scalar t raw => simp only [Val.goBytes, Val.weight]; omega
  | str s => simp only [Val.goBytes, Val.weight]; omega
  | arr t size vals =>
    cases vals with
    | none => simp only [Val.goBytes, Val.weight]; omega
    | some es =>
      have := elemsGoBytes_le es
      simp only [Val.goBytes, Val.weight]; omega

theorem kvsGoBytes_le (kvs : List (Bytes × Val)) : kvsGoBytes kvs ≤ 128 * kvsWeight kvs := by
  induction kvs with
  | nil => simp [kvsGoBytes, kvsWeight]
  | cons p ps ih =>
    have hv := Val.goBytes_le p.2
    have hw : 1 ≤ p.2.weight := by
      cases p.2 with
      | scalar _ _ => simp [Val.weight]
      | str _ => simp only [Val.weight]; omega
      | arr _ _ vals => cases vals <;> simp only [Val.weight] <;> omega
    simp only [kvsGoBytes, kvsWeight, List.map_cons, List.sum_cons] at ih ⊢
    omega

theorem tensorsGoBytes_le (ts : List TInfo) : (ts.map TInfo.goBytes).sum ≤ 128 * tensorsWeight ts := by
  induction ts with
  | nil => simp [tensorsWeight]
  | cons t ts ih =>
    simp only [tensorsWeight, List.map_cons, List.sum_cons, TInfo.goBytes, TInfo.weight] at ih ⊢
    omega

theorem Decoded.goBytes_le (d : Decoded) : d.goBytes ≤ 128 * d.weight := by
  have h1 := kvsGoBytes_le d.kvs
  have h2 := tensorsGoBytes_le d.tensors
  simp only [Decoded.goBytes, Decoded.weight]
  omega

/-- **Retained bytes**: a successful decode keeps at most 128 bytes per input byte (+ 3 KiB for the entry it adds) -/
theorem decodeFrom_goBytes (r : Rd) (maxArraySize : Int) (budget : Option Nat) (g : Guards) (d : Decoded)
    (h : decodeFrom r maxArraySize budget g = .ok d) : d.goBytes ≤ 128 * r.rest.length + 3072 := by
  have h1 := Decoded.goBytes_le d
  have h2 := decodeFrom_weight r maxArraySize budget g d h
  omega

end OllamaVerif.Gguf
