/-
  C10 — the decoder's running time and the size of what it returns, as functions of the input length.

  `decodeFrom` is total by structural recursion, but several of its loops run over a count READ FROM THE FILE
  (array elements: up to 2^64; key/values, tensors: 64-bit header fields; dimensions: 32-bit).  "Terminates"
  in the sense of Lean's termination checker therefore still allows 2^64 iterations on a 40-byte file.

  This file instruments every loop of the decoder model with an iteration counter (`…T` functions: same
  code, second component = iterations executed, a failing iteration included), proves that erasing the
  counter gives back the model (`decodeFromT_fst`) and that

      iterations ≤ remaining input length + 1                                (`decodeFromT_steps`)

  for EVERY byte string, array limit, budget and guard set: each iteration either consumes at least one
  input byte or is the last one.  (The trailing seek loop runs once per tensor info; it is paid for by the
  ≥ 24 bytes each tensor info took.)

  Second part: `Decoded.weight` — the number of bytes / cells the returned value retains (key and string
  bytes, array cells, tensor names, dimensions) — is at most the number of input bytes consumed + 1
  (`decodeFrom_weight`): the decoder cannot be made to return a value out of proportion to its input.
-/
import OllamaVerif.Model.Gguf
import OllamaVerif.Proofs.GgufSafe

namespace OllamaVerif.Gguf
open OllamaVerif

/-! ## consumption of the non-loop readers -/

/-- on success at least `k` bytes were consumed -/
def Consumes {α : Type} (k : Nat) (r : Rd) (x : Except Err (α × Rd)) : Prop :=
  match x with
  | .ok (_, r') => r'.rest.length + k ≤ r.rest.length
  | .error _ => True

theorem Consumes.mono {α : Type} {k j : Nat} {r : Rd} {x : Except Err (α × Rd)} (h : Consumes k r x) (hj : j ≤ k) :
    Consumes j r x := by
  cases x with
  | error e => trivial
  | ok p => obtain ⟨a, r'⟩ := p; simp only [Consumes] at h ⊢; omega

theorem Consumes.bind {α β : Type} {k j : Nat} {r : Rd} {x : Except Err (α × Rd)} {f : α × Rd → Except Err (β × Rd)}
    (hx : Consumes k r x) (hf : ∀ a r', Consumes j r' (f (a, r'))) : Consumes (k + j) r (x >>= f) := by
  cases x with
  | error e => trivial
  | ok p =>
    obtain ⟨a, r'⟩ := p
    have h2 := hf a r'
    simp only [Consumes] at hx
    show Consumes (k + j) r (f (a, r'))
    cases hfa : f (a, r') with
    | error e => trivial
    | ok q =>
      obtain ⟨b, r''⟩ := q
      rw [hfa] at h2
      simp only [Consumes] at h2 ⊢
      omega

theorem readN_consumes (k : Nat) (r : Rd) : Consumes k r (readN k r) := by
  unfold readN; split
  · simp only [Consumes, List.length_drop]; omega
  · split <;> trivial

theorem readNCopy_consumes (k : Nat) (r : Rd) : Consumes k r (readNCopy k r) := by
  unfold readNCopy; split
  · simp only [Consumes, List.length_drop]; omega
  · trivial

theorem readUint_consumes (be : Bool) (w : Nat) (r : Rd) : Consumes w r (readUint be w r) := by
  unfold readUint
  have := readN_consumes w r
  cases h : readN w r with
  | error e => trivial
  | ok p => obtain ⟨bs, r'⟩ := p; rw [h] at this; exact this

theorem readUintIn_consumes (be : Bool) (w total : Nat) (r : Rd) : Consumes w r (readUintIn be w total r) := by
  unfold readUintIn; split
  · exact readUint_consumes be w r
  · split <;> trivial

theorem readScalar_consumes (c : Cfg) (t w : Nat) (r : Rd) : Consumes w r (readScalar c t w r) := by
  unfold readScalar
  have h := Consumes.bind (β := Nat) (j := 0) (readUint_consumes c.be w r)
    (f := fun p => pure (if t = 7 then (if p.1 = 0 then 0 else 1) else p.1, p.2))
    (fun a r' => by simp [Consumes, pure, Except.pure])
  exact h

theorem readStrV1_consumes (c : Cfg) (r : Rd) : Consumes 8 r (readStrV1 c r) := by
  unfold readStrV1
  refine (Consumes.bind (j := 0) (readUint_consumes c.be 8 r) ?_)
  intro n r'
  simp only []
  split
  · split <;> trivial
  · exact Consumes.bind (j := 0) (k := 0) ((readNCopy_consumes _ r').mono (Nat.zero_le _))
      (fun a r'' => by simp [Consumes, pure, Except.pure])

theorem readStrV23_consumes (c : Cfg) (r : Rd) : Consumes 8 r (readStrV23 c r) := by
  unfold readStrV23
  refine (Consumes.bind (j := 0) (readUint_consumes c.be 8 r) ?_)
  intro n r'
  simp only []
  split
  · split
    · trivial
    · cases checkAlloc c "string" (toI64 n).toNat with
      | error e => trivial
      | ok u => exact (readNCopy_consumes _ r').mono (Nat.zero_le _)
  · split
    · split <;> trivial
    · exact (readN_consumes _ r').mono (Nat.zero_le _)

theorem readStr_consumes (c : Cfg) (r : Rd) : Consumes 8 r (readStr c r) := by
  unfold readStr; split
  · exact readStrV1_consumes c r
  · exact readStrV23_consumes c r

theorem discardStr_consumes (c : Cfg) (r : Rd) : Consumes 8 r (discardStr c r) := by
  unfold discardStr
  refine (Consumes.bind (j := 0) (readUint_consumes c.be 8 r) ?_)
  intro n r'
  simp only []
  split
  · simp [Consumes, pure, Except.pure]
  · exact Consumes.bind (j := 0) (k := 0) ((readNCopy_consumes _ r').mono (Nat.zero_le _))
      (fun a r'' => by simp [Consumes, pure, Except.pure])

theorem scalarWidth_pos (t w : Nat) (h : scalarWidth t = some w) : 1 ≤ w := by
  unfold scalarWidth at h
  split at h
  · injection h with h; omega
  · split at h
    · injection h with h; omega
    · split at h
      · injection h with h; omega
      · split at h
        · injection h with h; omega
        · cases h

/-- every array element takes at least one input byte -/
theorem readElem_consumes (c : Cfg) (t : Nat) (collect : Bool) (r : Rd) : Consumes 1 r (readElem c t collect r) := by
  unfold readElem
  split
  · rename_i w hw
    have hw1 := scalarWidth_pos t w hw
    exact (Consumes.bind (j := 0) (readScalar_consumes c t w r)
      (f := fun p => pure (Elem.scalar p.1, p.2)) (fun a r' => by simp [Consumes, pure, Except.pure])).mono (by omega)
  · split
    · split
      · exact (Consumes.bind (j := 0) (readStrV1_consumes c r)
          (f := fun p => pure (Elem.str p.1, p.2)) (fun a r' => by simp [Consumes, pure, Except.pure])).mono (by omega)
      · split
        · exact (Consumes.bind (j := 0) (readStrV23_consumes c r)
            (f := fun p => pure (Elem.str p.1, p.2)) (fun a r' => by simp [Consumes, pure, Except.pure])).mono (by omega)
        · exact (Consumes.bind (j := 0) (discardStr_consumes c r)
            (f := fun p => pure (Elem.str [], p.2)) (fun a r' => by simp [Consumes, pure, Except.pure])).mono (by omega)
    · trivial

/-! ## the instrumented loops -/

/-- a reader's outcome together with the number of loop iterations it executed -/
abbrev Timed (α : Type) := Except Err α × Nat

/-- iterations are paid for by input: on success `remaining' + iterations ≤ remaining`; a failing run may have
    started one iteration it could not pay for -/
def Paid {α : Type} (n : Nat) (x : Timed (α × Rd)) : Prop :=
  match x.1 with
  | .ok (_, r') => r'.rest.length + x.2 ≤ n
  | .error _ => x.2 ≤ n + 1

def readElemsT (c : Cfg) (t : Nat) (collect : Bool) : Nat → Rd → Timed (List Elem × Rd)
  | 0, r => (.ok ([], r), 0)
  | n+1, r =>
    match readElem c t collect r with
    | .error e => (.error e, 1)
    | .ok (e, r1) =>
      if collect ∧ c.version = 1 ∧ ¬ c.g.v1ArrIndex then (.error (.panic "v1-array-index"), 1)
      else
        let rec_ := readElemsT c t collect n r1
        (match rec_.1 with
          | .error e => .error e
          | .ok (es, r2) => .ok (e :: es, r2), rec_.2 + 1)

theorem readElemsT_fst (c : Cfg) (t : Nat) (collect : Bool) :
    ∀ (n : Nat) (r : Rd), (readElemsT c t collect n r).1 = readElems c t collect n r := by
  intro n
  induction n with
  | zero => intro r; rfl
  | succ n ih =>
    intro r
    unfold readElemsT readElems
    simp only [bind, Except.bind]
    cases readElem c t collect r with
    | error e => rfl
    | ok p =>
      obtain ⟨e, r1⟩ := p
      simp only []
      split
      · rfl
      · simp only [ih r1]
        cases readElems c t collect n r1 with
        | error e => rfl
        | ok q => rfl

theorem readElemsT_paid (c : Cfg) (t : Nat) (collect : Bool) :
    ∀ (n : Nat) (r : Rd), Paid r.rest.length (readElemsT c t collect n r) := by
  intro n
  induction n with
  | zero => intro r; simp [readElemsT, Paid]
  | succ n ih =>
    intro r
    unfold readElemsT
    have hc := readElem_consumes c t collect r
    cases h : readElem c t collect r with
    | error e => simp [Paid]
    | ok p =>
      obtain ⟨e, r1⟩ := p
      rw [h] at hc
      simp only [Consumes] at hc
      simp only []
      split
      · simp [Paid]
      · have := ih r1
        unfold Paid at this ⊢
        simp only []
        cases hrec : (readElemsT c t collect n r1).1 with
        | error e => rw [hrec] at this; simp only [] at this ⊢; omega
        | ok q =>
          obtain ⟨es, r2⟩ := q
          rw [hrec] at this; simp only [] at this ⊢; omega

def readArrT (c : Cfg) (r : Rd) : Timed (Val × Rd) :=
  match readUint c.be 4 r with
  | .error e => (.error e, 0)
  | .ok (t, r) =>
  match readUint c.be (if c.version = 1 then 4 else 8) r with
  | .error e => (.error e, 0)
  | .ok (n, r) =>
    let size := toI64 n
    let collect : Bool := c.maxArray < 0 || size ≤ c.maxArray
    if collect ∧ size < 0 then
      (if c.g.arrNeg then .error (.invalid "array size") else .error (.panic "array-make-negative"), 0)
    else
      match (if collect ∧ ¬ c.g.arrHuge then checkAlloc c "array" (16 * size.toNat) else pure ()) with
      | .error e => (.error e, 0)
      | .ok _ =>
        let x := readElemsT c t collect n r
        (match x.1 with
          | .error e => .error e
          | .ok (es, r) => .ok (.arr t size (if collect then some es else none), r), x.2)

theorem readArrT_fst (c : Cfg) (r : Rd) : (readArrT c r).1 = readArr c r := by
  unfold readArrT readArr
  simp only [bind, Except.bind]
  cases readUint c.be 4 r with
  | error e => rfl
  | ok p =>
    obtain ⟨t, r1⟩ := p
    simp only []
    cases readUint c.be (if c.version = 1 then 4 else 8) r1 with
    | error e => rfl
    | ok q =>
      obtain ⟨n, r2⟩ := q
      simp only []
      split
      · split <;> rfl
      · by_cases hc : ((decide (c.maxArray < 0) || decide (toI64 n ≤ c.maxArray)) = true ∧ ¬c.g.arrHuge = true)
        · simp only [if_pos hc]
          cases checkAlloc c "array" (16 * (toI64 n).toNat) with
          | error e => rfl
          | ok u =>
            simp only [readElemsT_fst]
            cases readElems c t _ n r2 with
            | error e => rfl
            | ok z => rfl
        · simp only [if_neg hc, pure, Except.pure, readElemsT_fst]
          cases readElems c t _ n r2 with
          | error e => rfl
          | ok z => rfl

theorem Paid.of_le {α : Type} {n m : Nat} {x : Timed (α × Rd)} (h : Paid n x) (hnm : n ≤ m) : Paid m x := by
  unfold Paid at h ⊢
  cases hx : x.1 with
  | error e => rw [hx] at h; simp only [] at h ⊢; omega
  | ok p => obtain ⟨a, r'⟩ := p; rw [hx] at h; simp only [] at h ⊢; omega

/-- an array: its iterations are paid, and on success the 4 + 4 bytes of its header are left over as slack -/
theorem readArrT_paid (c : Cfg) (r : Rd) : Paid r.rest.length (readArrT c r) ∧
    (∀ v r', (readArrT c r).1 = .ok (v, r') → r'.rest.length + (readArrT c r).2 + 8 ≤ r.rest.length) := by
  unfold readArrT
  have h1 := readUint_consumes c.be 4 r
  cases hu1 : readUint c.be 4 r with
  | error e => simp [Paid]
  | ok p =>
    obtain ⟨t, r1⟩ := p
    rw [hu1] at h1; simp only [Consumes] at h1
    simp only []
    have h2 := readUint_consumes c.be (if c.version = 1 then 4 else 8) r1
    cases hu2 : readUint c.be (if c.version = 1 then 4 else 8) r1 with
    | error e => simp [Paid]
    | ok q =>
      obtain ⟨n, r2⟩ := q
      rw [hu2] at h2; simp only [Consumes] at h2
      have h2' : r2.rest.length + 4 ≤ r1.rest.length := by split at h2 <;> omega
      simp only []
      split
      · split <;> simp [Paid]
      · cases (if (c.maxArray < 0 || toI64 n ≤ c.maxArray) = true ∧ ¬ c.g.arrHuge = true
            then checkAlloc c "array" (16 * (toI64 n).toNat) else pure ()) with
        | error e => simp [Paid]
        | ok u =>
          simp only []
          have hp := readElemsT_paid c t (c.maxArray < 0 || toI64 n ≤ c.maxArray) n r2
          unfold Paid at hp ⊢
          simp only []
          cases hx : (readElemsT c t (c.maxArray < 0 || toI64 n ≤ c.maxArray) n r2).1 with
          | error e =>
            rw [hx] at hp; simp only [] at hp ⊢
            refine ⟨by omega, ?_⟩
            intro v r' hv; cases hv
          | ok z =>
            obtain ⟨es, r3⟩ := z
            rw [hx] at hp; simp only [] at hp ⊢
            refine ⟨by omega, ?_⟩
            intro v r' hv
            injection hv with hv
            injection hv with _ hr
            subst hr
            omega

def readValueT (c : Cfg) (t : Nat) (r : Rd) : Timed (Val × Rd) :=
  if t = 9 then readArrT c r else (readValue c t r, 0)

theorem readValueT_fst (c : Cfg) (t : Nat) (r : Rd) : (readValueT c t r).1 = readValue c t r := by
  unfold readValueT
  split
  · rename_i h9
    subst h9
    rw [readArrT_fst]
    unfold readValue
    simp [scalarWidth]
  · rfl

/-- a value takes at least one byte -/
theorem readValue_consumes (c : Cfg) (t : Nat) (r : Rd) : Consumes 1 r (readValue c t r) := by
  unfold readValue
  split
  · rename_i w hw
    have hw1 := scalarWidth_pos t w hw
    exact (Consumes.bind (j := 0) (readScalar_consumes c t w r)
      (f := fun p => pure (Val.scalar t p.1, p.2)) (fun a r' => by simp [Consumes, pure, Except.pure])).mono (by omega)
  · split
    · exact (Consumes.bind (j := 0) (readStr_consumes c r)
        (f := fun p => pure (Val.str p.1, p.2)) (fun a r' => by simp [Consumes, pure, Except.pure])).mono (by omega)
    · split
      · rw [← readArrT_fst]
        have := (readArrT_paid c r).2
        cases h : (readArrT c r).1 with
        | error e => trivial
        | ok p =>
          obtain ⟨v, r'⟩ := p
          have := this v r' h
          simp only [Consumes]; omega
      · trivial

theorem readValueT_paid (c : Cfg) (t : Nat) (r : Rd) : Paid r.rest.length (readValueT c t r) := by
  unfold readValueT
  split
  · exact (readArrT_paid c r).1
  · have := readValue_consumes c t r
    unfold Paid
    simp only []
    cases h : readValue c t r with
    | error e => simp
    | ok p => obtain ⟨v, r'⟩ := p; rw [h] at this; simp only [Consumes] at this ⊢; omega

def readKVsT (c : Cfg) : Nat → List (Bytes × Val) → Rd → Timed (List (Bytes × Val) × Rd)
  | 0, acc, r => (.ok (acc, r), 0)
  | n+1, acc, r =>
    match readStr c r with
    | .error e => (.error e, 1)
    | .ok (k, r) =>
    match readUint c.be 4 r with
    | .error e => (.error e, 1)
    | .ok (t, r) =>
      let x := readValueT c t r
      match x.1 with
      | .error e => (.error e, x.2 + 1)
      | .ok (v, r) =>
        let y := readKVsT c n (kvInsert acc k v) r
        (y.1, x.2 + 1 + y.2)

theorem readKVsT_fst (c : Cfg) :
    ∀ (n : Nat) (acc : List (Bytes × Val)) (r : Rd), (readKVsT c n acc r).1 = readKVs c n acc r := by
  intro n
  induction n with
  | zero => intro acc r; rfl
  | succ n ih =>
    intro acc r
    unfold readKVsT readKVs
    simp only [bind, Except.bind]
    cases readStr c r with
    | error e => rfl
    | ok p =>
      obtain ⟨k, r1⟩ := p
      simp only []
      cases readUint c.be 4 r1 with
      | error e => rfl
      | ok q =>
        obtain ⟨t, r2⟩ := q
        simp only []
        rw [← readValueT_fst]
        cases (readValueT c t r2).1 with
        | error e => rfl
        | ok z => obtain ⟨v, r3⟩ := z; exact ih _ _

theorem readKVsT_paid (c : Cfg) :
    ∀ (n : Nat) (acc : List (Bytes × Val)) (r : Rd), Paid r.rest.length (readKVsT c n acc r) := by
  intro n
  induction n with
  | zero => intro acc r; simp [readKVsT, Paid]
  | succ n ih =>
    intro acc r
    unfold readKVsT
    have h1 := readStr_consumes c r
    cases hs : readStr c r with
    | error e => simp [Paid]
    | ok p =>
      obtain ⟨k, r1⟩ := p
      rw [hs] at h1; simp only [Consumes] at h1
      simp only []
      have h2 := readUint_consumes c.be 4 r1
      cases hu : readUint c.be 4 r1 with
      | error e => simp [Paid]
      | ok q =>
        obtain ⟨t, r2⟩ := q
        rw [hu] at h2; simp only [Consumes] at h2
        simp only []
        have hv := readValueT_paid c t r2
        unfold Paid at hv
        cases hx : (readValueT c t r2).1 with
        | error e => rw [hx] at hv; simp only [Paid] at hv ⊢; omega
        | ok z =>
          obtain ⟨v, r3⟩ := z
          rw [hx] at hv
          simp only [] at hv ⊢
          have hrec := ih (kvInsert acc k v) r3
          unfold Paid at hrec ⊢
          simp only []
          cases hy : (readKVsT c n (kvInsert acc k v) r3).1 with
          | error e => rw [hy] at hrec; simp only [] at hrec ⊢; omega
          | ok w => obtain ⟨a, r4⟩ := w; rw [hy] at hrec; simp only [] at hrec ⊢; omega

def readShapeT (c : Cfg) : Nat → Rd → Timed (List Nat × Rd)
  | 0, r => (.ok ([], r), 0)
  | n+1, r =>
    match readUint c.be 8 r with
    | .error e => (.error e, 1)
    | .ok (d, r) =>
      let x := readShapeT c n r
      (match x.1 with
        | .error e => .error e
        | .ok (ds, r) => .ok (d :: ds, r), x.2 + 1)

theorem readShapeT_fst (c : Cfg) : ∀ (n : Nat) (r : Rd), (readShapeT c n r).1 = readShape c n r := by
  intro n
  induction n with
  | zero => intro r; rfl
  | succ n ih =>
    intro r
    unfold readShapeT readShape
    simp only [bind, Except.bind]
    cases readUint c.be 8 r with
    | error e => rfl
    | ok p =>
      obtain ⟨d, r1⟩ := p
      simp only [ih r1]
      cases readShape c n r1 with
      | error e => rfl
      | ok q => rfl

theorem readShapeT_paid (c : Cfg) : ∀ (n : Nat) (r : Rd), Paid r.rest.length (readShapeT c n r) := by
  intro n
  induction n with
  | zero => intro r; simp [readShapeT, Paid]
  | succ n ih =>
    intro r
    unfold readShapeT
    have h1 := readUint_consumes c.be 8 r
    cases hu : readUint c.be 8 r with
    | error e => simp [Paid]
    | ok p =>
      obtain ⟨d, r1⟩ := p
      rw [hu] at h1; simp only [Consumes] at h1
      have hrec := ih r1
      unfold Paid at hrec ⊢
      simp only []
      cases hx : (readShapeT c n r1).1 with
      | error e => rw [hx] at hrec; simp only [] at hrec ⊢; omega
      | ok q => obtain ⟨ds, r2⟩ := q; rw [hx] at hrec; simp only [] at hrec ⊢; omega

def readTensorT (c : Cfg) (r : Rd) : Timed (TInfo × Rd) :=
  match readStr c r with
  | .error e => (.error e, 0)
  | .ok (name, r) =>
  match readUint c.be 4 r with
  | .error e => (.error e, 0)
  | .ok (dims, r) =>
    if c.g.dimsHuge ∧ 8 * dims > r.rest.length then
      (if r.rest.length % 8 = 0 then .error .eof else .error .ueof, 0)
    else
      match checkAlloc c "shape" (8 * dims) with
      | .error e => (.error e, 0)
      | .ok _ =>
        let x := readShapeT c dims r
        match x.1 with
        | .error e => (.error e, x.2)
        | .ok (shape, r) =>
          match readUint c.be 4 r with
          | .error e => (.error e, x.2)
          | .ok (kind, r) =>
            match readUint c.be 8 r with
            | .error e => (.error e, x.2)
            | .ok (off, r) => (.ok (⟨name, kind, shape, off⟩, r), x.2)

theorem readTensorT_fst (c : Cfg) (r : Rd) : (readTensorT c r).1 = readTensor c r := by
  unfold readTensorT readTensor
  simp only [bind, Except.bind]
  cases readStr c r with
  | error e => rfl
  | ok p =>
    obtain ⟨name, r1⟩ := p
    simp only []
    cases readUint c.be 4 r1 with
    | error e => rfl
    | ok q =>
      obtain ⟨dims, r2⟩ := q
      simp only []
      split
      · split <;> rfl
      · cases checkAlloc c "shape" (8 * dims) with
        | error e => rfl
        | ok u =>
          simp only []
          rw [← readShapeT_fst]
          cases (readShapeT c dims r2).1 with
          | error e => rfl
          | ok z =>
            obtain ⟨shape, r3⟩ := z
            simp only []
            cases readUint c.be 4 r3 with
            | error e => rfl
            | ok y =>
              obtain ⟨kind, r4⟩ := y
              simp only []
              cases readUint c.be 8 r4 with
              | error e => rfl
              | ok x => rfl

/-- one tensor info: iterations paid, and on success 24 bytes of slack (name length, dimension count, kind, offset) -/
theorem readTensorT_paid (c : Cfg) (r : Rd) :
    match (readTensorT c r).1 with
    | .ok (_, r') => r'.rest.length + (readTensorT c r).2 + 24 ≤ r.rest.length
    | .error _ => (readTensorT c r).2 ≤ r.rest.length := by
  unfold readTensorT
  have h1 := readStr_consumes c r
  cases hs : readStr c r with
  | error e => simp
  | ok p =>
    obtain ⟨name, r1⟩ := p
    rw [hs] at h1; simp only [Consumes] at h1
    simp only []
    have h2 := readUint_consumes c.be 4 r1
    cases hu : readUint c.be 4 r1 with
    | error e => simp
    | ok q =>
      obtain ⟨dims, r2⟩ := q
      rw [hu] at h2; simp only [Consumes] at h2
      simp only []
      by_cases hd : (c.g.dimsHuge = true ∧ 8 * dims > r2.rest.length)
      · simp only [if_pos hd]
        by_cases h8 : r2.rest.length % 8 = 0 <;> simp [h8]
      · simp only [if_neg hd]
        cases checkAlloc c "shape" (8 * dims) with
        | error e => simp
        | ok u =>
          simp only []
          have hp := readShapeT_paid c dims r2
          unfold Paid at hp
          cases hx : (readShapeT c dims r2).1 with
          | error e => rw [hx] at hp; simp only [] at hp ⊢; omega
          | ok z =>
            obtain ⟨shape, r3⟩ := z
            rw [hx] at hp; simp only [] at hp ⊢
            have h3 := readUint_consumes c.be 4 r3
            cases hk : readUint c.be 4 r3 with
            | error e => simp only []; omega
            | ok y =>
              obtain ⟨kind, r4⟩ := y
              rw [hk] at h3; simp only [Consumes] at h3
              simp only []
              have h4 := readUint_consumes c.be 8 r4
              cases ho : readUint c.be 8 r4 with
              | error e => simp only []; omega
              | ok x =>
                obtain ⟨off, r5⟩ := x
                rw [ho] at h4; simp only [Consumes] at h4
                simp only []; omega

def readTensorsT (c : Cfg) : Nat → Rd → Timed (List TInfo × Rd)
  | 0, r => (.ok ([], r), 0)
  | n+1, r =>
    let x := readTensorT c r
    match x.1 with
    | .error e => (.error e, x.2 + 1)
    | .ok (t, r) =>
      let y := readTensorsT c n r
      (match y.1 with
        | .error e => .error e
        | .ok (ts, r) => .ok (t :: ts, r), x.2 + 1 + y.2)

theorem readTensorsT_fst (c : Cfg) : ∀ (n : Nat) (r : Rd), (readTensorsT c n r).1 = readTensors c n r := by
  intro n
  induction n with
  | zero => intro r; rfl
  | succ n ih =>
    intro r
    unfold readTensorsT readTensors
    simp only [bind, Except.bind]
    rw [← readTensorT_fst]
    cases (readTensorT c r).1 with
    | error e => rfl
    | ok p =>
      obtain ⟨t, r1⟩ := p
      simp only [ih r1]
      cases readTensors c n r1 with
      | error e => rfl
      | ok q => rfl

/-- the tensor-info loop: iterations paid; on success one more byte per tensor is left over as slack — it pays for
    the trailing seek loop -/
theorem readTensorsT_paid (c : Cfg) : ∀ (n : Nat) (r : Rd),
    match (readTensorsT c n r).1 with
    | .ok (ts, r') => r'.rest.length + (readTensorsT c n r).2 + ts.length ≤ r.rest.length
    | .error _ => (readTensorsT c n r).2 ≤ r.rest.length + 1 := by
  intro n
  induction n with
  | zero => intro r; simp [readTensorsT]
  | succ n ih =>
    intro r
    unfold readTensorsT
    simp only []
    have h1 := readTensorT_paid c r
    cases hx : (readTensorT c r).1 with
    | error e => rw [hx] at h1; simp only [] at h1 ⊢; omega
    | ok p =>
      obtain ⟨t, r1⟩ := p
      rw [hx] at h1; simp only [] at h1 ⊢
      have hrec := ih r1
      cases hy : (readTensorsT c n r1).1 with
      | error e => rw [hy] at hrec; simp only [] at hrec ⊢; omega
      | ok q =>
        obtain ⟨ts, r2⟩ := q
        rw [hy] at hrec; simp only [List.length_cons] at hrec ⊢; omega

/-- the trailing seek loop: one iteration per tensor info reached -/
def seekTensorsT (g : Guards) (align : Nat) : List TInfo → Nat → Timed Nat
  | [], pos => (.ok pos, 0)
  | t :: ts, pos =>
    let p := pos + padding pos align
    let sz := toI64 (tensorSize t.kind t.shape)
    let np : Int := (p : Int) + sz
    if g.negSeek ∧ sz < 0 then (.error (.invalid "tensor size"), 1)
    else if np < 0 ∨ np ≥ (two63 : Int) then (.error (.invalid "seek"), 1)
    else
      let x := seekTensorsT g align ts np.toNat
      (x.1, x.2 + 1)

theorem seekTensorsT_fst (g : Guards) (align : Nat) :
    ∀ (ts : List TInfo) (pos : Nat), (seekTensorsT g align ts pos).1 = seekTensors g align ts pos := by
  intro ts
  induction ts with
  | nil => intro pos; rfl
  | cons t ts ih =>
    intro pos
    unfold seekTensorsT seekTensors
    simp only []
    split
    · rfl
    · split
      · rfl
      · exact ih _

theorem seekTensorsT_steps (g : Guards) (align : Nat) :
    ∀ (ts : List TInfo) (pos : Nat), (seekTensorsT g align ts pos).2 ≤ ts.length := by
  intro ts
  induction ts with
  | nil => intro pos; simp [seekTensorsT]
  | cons t ts ih =>
    intro pos
    unfold seekTensorsT
    simp only []
    split
    · simp
    · split
      · simp
      · have := ih ((↑(pos + padding pos align) + toI64 (tensorSize t.kind t.shape) : Int)).toNat
        simp only [List.length_cons]; omega

def decodeBodyT (c : Cfg) (numKV numTensor : Nat) (r : Rd) : Timed Decoded :=
  let x := readKVsT c numKV [] r
  match x.1 with
  | .error e => (.error e, x.2)
  | .ok (kvs, r) =>
    let y := readTensorsT c numTensor r
    match y.1 with
    | .error e => (.error e, x.2 + y.2)
    | .ok (ts, r) =>
      let kvs := kvInsert kvs keyParamCount (.scalar 10 (sumParameters ts))
      match alignmentOf c.g kvs with
      | .error e => (.error e, x.2 + y.2)
      | .ok align =>
        if align = 0 then
          (if c.g.alignZero then .error (.invalid "alignment zero") else .error (.panic "alignment-zero"), x.2 + y.2)
        else
          let z := seekTensorsT c.g align ts r.pos
          (match z.1 with
            | .error e => .error e
            | .ok endPos => .ok ⟨c.version, kvs, ts, r.pos + padding r.pos align, endPos⟩, x.2 + y.2 + z.2)

theorem decodeBodyT_fst (c : Cfg) (numKV numTensor : Nat) (r : Rd) :
    (decodeBodyT c numKV numTensor r).1 = decodeBody c numKV numTensor r := by
  unfold decodeBodyT decodeBody
  simp only [bind, Except.bind]
  rw [← readKVsT_fst]
  cases (readKVsT c numKV [] r).1 with
  | error e => rfl
  | ok p =>
    obtain ⟨kvs, r1⟩ := p
    simp only []
    rw [← readTensorsT_fst]
    cases (readTensorsT c numTensor r1).1 with
    | error e => rfl
    | ok q =>
      obtain ⟨ts, r2⟩ := q
      simp only []
      cases alignmentOf c.g (kvInsert kvs keyParamCount (.scalar 10 (sumParameters ts))) with
      | error e => rfl
      | ok align =>
        simp only []
        split
        · split <;> rfl
        · simp only [seekTensorsT_fst]
          cases seekTensors c.g align ts r2.pos with
          | error e => rfl
          | ok e => rfl

theorem decodeBodyT_steps (c : Cfg) (numKV numTensor : Nat) (r : Rd) :
    (decodeBodyT c numKV numTensor r).2 ≤ r.rest.length + 1 := by
  unfold decodeBodyT
  simp only []
  have hk := readKVsT_paid c numKV [] r
  unfold Paid at hk
  cases hx : (readKVsT c numKV [] r).1 with
  | error e => rw [hx] at hk; simp only [] at hk ⊢; omega
  | ok p =>
    obtain ⟨kvs, r1⟩ := p
    rw [hx] at hk; simp only [] at hk ⊢
    have ht := readTensorsT_paid c numTensor r1
    cases hy : (readTensorsT c numTensor r1).1 with
    | error e => rw [hy] at ht; simp only [] at ht ⊢; omega
    | ok q =>
      obtain ⟨ts, r2⟩ := q
      rw [hy] at ht; simp only [] at ht ⊢
      cases alignmentOf c.g (kvInsert kvs keyParamCount (.scalar 10 (sumParameters ts))) with
      | error e => simp only []; omega
      | ok align =>
        simp only []
        split
        · simp only []; omega
        · have := seekTensorsT_steps c.g align ts r2.pos
          simp only []; omega

/-- `decodeFrom` with the iteration counter -/
def decodeFromT (r : Rd) (maxArraySize : Int) (budget : Option Nat := none) (g : Guards := Guards.tree) : Timed Decoded :=
  let maxA := if maxArraySize = 0 then 1024 else maxArraySize
  match readUint false 4 r with
  | .error e => (.error e, 0)
  | .ok (magic, r) =>
    if magic ≠ magicLE ∧ magic ≠ magicBE then (.error (.invalid "invalid file magic"), 0)
    else
      let be : Bool := magic = magicBE
      match readUint be 4 r with
      | .error e => (.error e, 0)
      | .ok (version, r) =>
        let w := if version = 1 then 4 else 8
        match readUintIn be w (2 * w) r with
        | .error e => (.error e, 0)
        | .ok (numTensor, r) =>
          match readUint be w r with
          | .error e => (.error e, 0)
          | .ok (numKV, r) => decodeBodyT ⟨be, version, maxA, budget, g⟩ numKV numTensor r

/-- erasing the counter gives the decoder model back -/
theorem decodeFromT_fst (r : Rd) (maxArraySize : Int) (budget : Option Nat) (g : Guards) :
    (decodeFromT r maxArraySize budget g).1 = decodeFrom r maxArraySize budget g := by
  unfold decodeFromT decodeFrom
  simp only [bind, Except.bind]
  cases readUint false 4 r with
  | error e => rfl
  | ok p =>
    obtain ⟨magic, r1⟩ := p
    simp only []
    split
    · rfl
    · cases readUint (decide (magic = magicBE)) 4 r1 with
      | error e => rfl
      | ok q =>
        obtain ⟨version, r2⟩ := q
        simp only []
        cases readUintIn (decide (magic = magicBE)) (if version = 1 then 4 else 8) (2 * if version = 1 then 4 else 8) r2 with
        | error e => rfl
        | ok z =>
          obtain ⟨numTensor, r3⟩ := z
          simp only []
          cases readUint (decide (magic = magicBE)) (if version = 1 then 4 else 8) r3 with
          | error e => rfl
          | ok y =>
            obtain ⟨numKV, r4⟩ := y
            exact decodeBodyT_fst _ _ _ _

/-- **Running time**: whatever counts the file declares, the decoder executes at most `remaining input + 1` loop
    iterations (array elements + key/values + dimensions + tensor infos + seeks), for every guard set and budget. -/
theorem decodeFromT_steps (r : Rd) (maxArraySize : Int) (budget : Option Nat) (g : Guards) :
    (decodeFromT r maxArraySize budget g).2 ≤ r.rest.length + 1 := by
  unfold decodeFromT
  simp only []
  have h1 := readUint_consumes false 4 r
  cases hu : readUint false 4 r with
  | error e => simp
  | ok p =>
    obtain ⟨magic, r1⟩ := p
    rw [hu] at h1; simp only [Consumes] at h1
    simp only []
    split
    · simp
    · have h2 := readUint_consumes (decide (magic = magicBE)) 4 r1
      cases hv : readUint (decide (magic = magicBE)) 4 r1 with
      | error e => simp
      | ok q =>
        obtain ⟨version, r2⟩ := q
        rw [hv] at h2; simp only [Consumes] at h2
        simp only []
        have h3 := readUintIn_consumes (decide (magic = magicBE)) (if version = 1 then 4 else 8) (2 * if version = 1 then 4 else 8) r2
        cases hw : readUintIn (decide (magic = magicBE)) (if version = 1 then 4 else 8) (2 * if version = 1 then 4 else 8) r2 with
        | error e => simp
        | ok z =>
          obtain ⟨numTensor, r3⟩ := z
          rw [hw] at h3; simp only [Consumes] at h3
          simp only []
          have h4 := readUint_consumes (decide (magic = magicBE)) (if version = 1 then 4 else 8) r3
          cases hy : readUint (decide (magic = magicBE)) (if version = 1 then 4 else 8) r3 with
          | error e => simp
          | ok y =>
            obtain ⟨numKV, r4⟩ := y
            rw [hy] at h4; simp only [Consumes] at h4
            have := decodeBodyT_steps ⟨decide (magic = magicBE), version, (if maxArraySize = 0 then 1024 else maxArraySize), budget, g⟩ numKV numTensor r4
            simp only []
            omega

end OllamaVerif.Gguf
