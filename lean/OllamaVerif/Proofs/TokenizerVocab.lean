/-
  C20 helper lemmas, part 2: the concrete `Vocabulary` (Model/TokenizerVocab.lean) and fuel sufficiency of the
  merge loop.
-/
import OllamaVerif.Proofs.Tokenizer
import OllamaVerif.Model.TokenizerVocab
namespace OllamaVerif.Tok

/-! ## `Vocabulary.Encode` / `Merge` / `SpecialVocabulary` -/

theorem lastIdxFrom_spec (vs : List Str) (i : Nat) (s : Str) (j : Nat) (h : lastIdxFrom vs i s = some j) :
    i ≤ j ∧ j < i + vs.length ∧ vs[j - i]? = some s := by
  induction vs generalizing i with
  | nil => simp [lastIdxFrom] at h
  | cons v vs ih =>
    simp only [lastIdxFrom] at h
    split at h
    · rename_i k hk
      cases h
      obtain ⟨h1, h2, h3⟩ := ih (i + 1) hk
      refine ⟨by omega, by simp only [List.length_cons]; omega, ?_⟩
      have : j - i = (j - (i + 1)) + 1 := by omega
      rw [this, List.getElem?_cons_succ]; exact h3
    · split at h
      · rename_i hv
        cases h
        refine ⟨Nat.le_refl _, by simp, ?_⟩
        simp [hv]
      · cases h

theorem lastIdxFrom_isSome (vs : List Str) (i : Nat) (s : Str) (h : s ∈ vs) : (lastIdxFrom vs i s).isSome = true := by
  induction vs generalizing i with
  | nil => cases h
  | cons v vs ih =>
    simp only [lastIdxFrom]
    split
    · rfl
    · rename_i hn
      rcases List.mem_cons.mp h with h | h
      · simp [h]
      · have := ih (i + 1) h
        rw [hn] at this; cases this

/-- the LAST occurrence: no later index holds the same string -/
theorem lastIdxFrom_last (vs : List Str) (i : Nat) (s : Str) (j : Nat) (h : lastIdxFrom vs i s = some j) :
    ∀ k, j - i < k → vs[k]? ≠ some s := by
  induction vs generalizing i with
  | nil => simp [lastIdxFrom] at h
  | cons v vs ih =>
    simp only [lastIdxFrom] at h
    intro k hk
    split at h
    · rename_i m hm
      cases h
      obtain ⟨h1, _, _⟩ := lastIdxFrom_spec vs (i + 1) s j hm
      cases k with
      | zero => omega
      | succ k =>
        rw [List.getElem?_cons_succ]
        exact ih (i + 1) hm k (by omega)
    · rename_i hn
      split at h
      · cases h
        cases k with
        | zero => omega
        | succ k =>
          rw [List.getElem?_cons_succ]
          intro hc
          have := lastIdxFrom_isSome vs (j + 1) s (List.mem_of_getElem? hc)
          rw [hn] at this; cases this
      · cases h

/-- **`Values[values[s]] = s` and the id is in range — for EVERY `Values` slice** (duplicates included):
    the well-formedness hypothesis `Wf` of the round-trip theorems holds for the vocabulary the code builds. -/
theorem VocabData.vocab_wf (D : VocabData) : D.vocab.Wf := by
  intro t i h
  obtain ⟨_, h2, h3⟩ := lastIdxFrom_spec D.values 0 t i h
  simp only [Nat.sub_zero, Nat.zero_add] at h2 h3
  refine ⟨?_, h2⟩
  simp [VocabData.vocab, List.getD, h3]

theorem specialStringsFrom_mem (sk : Bool) (types : List Nat) (vs : List Str) (i : Nat) (l : List Str)
    (h : specialStringsFrom sk types vs i = some l) : ∀ s ∈ l, s ∈ vs := by
  induction vs generalizing i l with
  | nil => simp [specialStringsFrom] at h; subst h; simp
  | cons v vs ih =>
    simp only [specialStringsFrom] at h
    split at h
    · intro s hs
      exact List.mem_cons_of_mem _ (ih _ _ h s hs)
    · split at h
      · simp only [Option.map_eq_some_iff] at h
        obtain ⟨r, hr, rfl⟩ := h
        intro s hs
        rcases List.mem_cons.mp hs with rfl | hs
        · simp
        · exact List.mem_cons_of_mem _ (ih _ _ hr s hs)
      · split at h
        · cases h
        · simp only [Option.map_eq_some_iff] at h
          obtain ⟨r, hr, rfl⟩ := h
          intro s hs
          split at hs
          · rcases List.mem_cons.mp hs with rfl | hs
            · simp
            · exact List.mem_cons_of_mem _ (ih _ _ hr s hs)
          · exact List.mem_cons_of_mem _ (ih _ _ hr s hs)

/-- the repaired loop never returns the empty string -/
theorem specialStringsFrom_skip_nonempty (types : List Nat) (vs : List Str) (i : Nat) (l : List Str)
    (h : specialStringsFrom true types vs i = some l) : [] ∉ l := by
  induction vs generalizing i l with
  | nil => simp [specialStringsFrom] at h; subst h; simp
  | cons v vs ih =>
    simp only [specialStringsFrom] at h
    split at h
    · exact ih _ _ h
    · rename_i hv
      have hvne : v ≠ [] := fun hc => hv ⟨trivial, hc⟩
      split at h
      · simp only [Option.map_eq_some_iff] at h
        obtain ⟨r, hr, rfl⟩ := h
        intro hm
        rcases List.mem_cons.mp hm with hm | hm
        · exact hvne hm.symm
        · exact ih _ _ hr hm
      · split at h
        · cases h
        · simp only [Option.map_eq_some_iff] at h
          obtain ⟨r, hr, rfl⟩ := h
          intro hm
          split at hm
          · rcases List.mem_cons.mp hm with hm | hm
            · exact hvne hm.symm
            · exact ih _ _ hr hm
          · exact ih _ _ hr hm

/-- which strings `SpecialVocabulary` returns: exactly the `Values[i]` that are a turn marker or whose
    `Types[i]` is CONTROL (when the call does not panic) — and, in the repaired variant, are not empty -/
theorem specialStringsFrom_iff (sk : Bool) (types : List Nat) (vs : List Str) (i : Nat) (l : List Str)
    (h : specialStringsFrom sk types vs i = some l) (s : Str) :
    s ∈ l ↔ ¬ (sk = true ∧ s = []) ∧
      ∃ k, vs[k]? = some s ∧ (s = startOfTurn ∨ s = endOfTurn ∨ types[i + k]? = some tokenTypeControl) := by
  induction vs generalizing i l with
  | nil => simp [specialStringsFrom] at h; subst h; simp
  | cons v vs ih =>
    simp only [specialStringsFrom] at h
    have shift : ∀ (P : Str → Nat → Prop), (∃ k, (v :: vs)[k]? = some s ∧ P s (i + k)) ↔
        ((v = s ∧ P s i) ∨ ∃ k, vs[k]? = some s ∧ P s (i + 1 + k)) := by
      intro P
      constructor
      · rintro ⟨k, hk, hp⟩
        cases k with
        | zero => left; simp at hk; exact ⟨hk, by simpa using hp⟩
        | succ k =>
          right; rw [List.getElem?_cons_succ] at hk
          exact ⟨k, hk, by have : i + 1 + k = i + (k + 1) := by omega
                           rw [this]; exact hp⟩
      · rintro (⟨hv, hp⟩ | ⟨k, hk, hp⟩)
        · exact ⟨0, by simp [hv], by simpa using hp⟩
        · exact ⟨k + 1, by rw [List.getElem?_cons_succ]; exact hk,
            by have : i + (k + 1) = i + 1 + k := by omega
               rw [this]; exact hp⟩
    rw [shift (fun s j => s = startOfTurn ∨ s = endOfTurn ∨ types[j]? = some tokenTypeControl)]
    split at h
    · -- skipped empty value
      rename_i hskip
      rw [ih _ _ h]
      constructor
      · rintro ⟨h1, h2⟩; exact ⟨h1, Or.inr h2⟩
      · rintro ⟨h1, h2 | h2⟩
        · exfalso; exact h1 ⟨hskip.1, by rw [← h2.1]; exact hskip.2⟩
        · exact ⟨h1, h2⟩
    · rename_i hnskip
      split at h
      · rename_i hv
        simp only [Option.map_eq_some_iff] at h
        obtain ⟨r, hr, rfl⟩ := h
        rw [List.mem_cons, ih _ _ hr]
        constructor
        · rintro (rfl | ⟨h1, h2⟩)
          · exact ⟨hnskip, Or.inl ⟨rfl, by rcases hv with h | h <;> simp [h]⟩⟩
          · exact ⟨h1, Or.inr h2⟩
        · rintro ⟨h1, ⟨h, _⟩ | h2⟩
          · left; exact h.symm
          · right; exact ⟨h1, h2⟩
      · rename_i hv
        split at h
        · cases h
        · rename_i t ht
          simp only [Option.map_eq_some_iff] at h
          obtain ⟨r, hr, rfl⟩ := h
          split
          · rename_i htc
            rw [List.mem_cons, ih _ _ hr]
            constructor
            · rintro (rfl | ⟨h1, h2⟩)
              · exact ⟨hnskip, Or.inl ⟨rfl, Or.inr (Or.inr (by rw [ht, htc]))⟩⟩
              · exact ⟨h1, Or.inr h2⟩
            · rintro ⟨h1, ⟨h, _⟩ | h2⟩
              · left; exact h.symm
              · right; exact ⟨h1, h2⟩
          · rename_i htc
            rw [ih _ _ hr]
            constructor
            · rintro ⟨h1, h2⟩; exact ⟨h1, Or.inr h2⟩
            · rintro ⟨h1, ⟨h, hp⟩ | h2⟩
              · subst h
                rcases hp with hp | hp | hp
                · exact absurd (Or.inl hp) hv
                · exact absurd (Or.inr hp) hv
                · rw [ht] at hp; cases hp; exact absurd rfl htc
              · exact ⟨h1, h2⟩

/-- every special token `Encode` works with (the strings `SpecialVocabulary()` returned) has its id in range and
    `Values[id]` = its string -/
theorem VocabData.specialsOf_wf (D : VocabData) (sk : Bool) (toLit : Str → Str) (sps : List Str)
    (hsp : D.specialStrings sk = some sps) :
    ∀ q ∈ D.specialsOf toLit sps, q.id < D.vocab.size ∧ D.vocab.tokStr q.id = q.runes ∧ q.lit = toLit q.runes ∧
      q.runes ∈ sps := by
  intro q hq
  simp only [VocabData.specialsOf, List.mem_map] at hq
  obtain ⟨s, hs, rfl⟩ := hq
  have hmem : s ∈ D.values := specialStringsFrom_mem _ _ _ _ _ hsp s hs
  have hsome := lastIdxFrom_isSome D.values 0 s hmem
  obtain ⟨i, hi⟩ := Option.isSome_iff_exists.mp hsome
  have hi' : D.vocab.tokId s = some i := hi
  have := D.vocab_wf s i hi'
  simp only [hi', Option.getD_some]
  exact ⟨this.2, this.1, trivial, hs⟩

theorem VocabData.specials_eq (D : VocabData) (sk : Bool) (toLit : Str → Str) (sps : List Str)
    (hsp : D.specialStrings sk = some sps) : D.specials sk toLit = D.specialsOf toLit sps := by
  simp [VocabData.specials, hsp]

/-! ## fuel sufficiency: the model's merge loop stops because the queue is empty, never because fuel ran out -/

theorem size_heapUp (less : Cand → Cand → Bool) (f : Nat) (h : Array Cand) (j : Nat) :
    (heapUp less f h j).size = h.size := by
  induction f generalizing h j with
  | zero => rfl
  | succ f ih =>
    simp only [heapUp]
    split
    · rfl
    · split
      · rw [ih]; simp
      · rfl

theorem size_heapDown (less : Cand → Cand → Bool) (f : Nat) (h : Array Cand) (i : Nat) :
    (heapDown less f h i).size = h.size := by
  induction f generalizing h i with
  | zero => rfl
  | succ f ih =>
    simp only [heapDown]
    repeat' split
    all_goals first | rfl | (rw [ih]; simp)

theorem size_heapPush (less : Cand → Cand → Bool) (h : Array Cand) (c : Cand) :
    (heapPush less h c).size = h.size + 1 := by
  simp [heapPush, size_heapUp]

theorem size_heapPop (less : Cand → Cand → Bool) (h h' : Array Cand) (c : Cand)
    (hp : heapPop less h = some (c, h')) : h'.size + 1 = h.size := by
  unfold heapPop at hp
  split at hp
  · cases hp
  · rename_i hne
    simp only [Option.some.injEq, Prod.mk.injEq] at hp
    rw [← hp.2, size_heapDown]
    simp
    omega

theorem heapPop_none (less : Cand → Cand → Bool) (h : Array Cand) (hs : h.size = 0) : heapPop less h = none := by
  simp [heapPop, hs]

theorem size_pushCand (cfg : Cfg) (ps : List Part) (h : Array Cand) (a b : Nat) :
    (pushCand cfg ps h a b).size ≤ h.size + 1 := by
  unfold pushCand
  split
  · split
    · rw [size_heapPush]; omega
    · omega
  · omega

theorem length_joinAt (ok : Str → Str → Bool) (ps ps' : List Part) (a b : Nat)
    (h : joinAt ok ps a b = some ps') : ps'.length + 1 = ps.length := by
  induction ps generalizing ps' with
  | nil => simp [joinAt] at h
  | cons p rest ih =>
    cases rest with
    | nil => simp [joinAt] at h
    | cons q rest =>
      simp only [joinAt] at h
      split at h
      · split at h
        · cases h; simp
        · cases h
      · simp only [Option.map_eq_some_iff] at h
        obtain ⟨r, hr, rfl⟩ := h
        have := ih r hr
        simp only [List.length_cons] at this ⊢
        omega

/-- each iteration pops one entry and either discards it or removes one part and pushes at most two entries:
    `queue size + 2 · live parts` strictly decreases, so any fuel above it gives the same result -/
theorem mergeLoop_fuel (cfg : Cfg) (n f : Nat) (ps : List Part) (h : Array Cand)
    (hm : h.size + 2 * ps.length ≤ f) : ∀ g, f ≤ g → mergeLoop cfg n g ps h = mergeLoop cfg n f ps h := by
  induction f generalizing ps h with
  | zero =>
    intro g _
    have hs : h.size = 0 := by omega
    cases g with
    | zero => rfl
    | succ g => simp [mergeLoop, heapPop_none _ _ hs]
  | succ f ih =>
    intro g hg
    cases g with
    | zero => omega
    | succ g =>
      simp only [mergeLoop]
      cases hp : heapPop cfg.less h with
      | none => rfl
      | some ch =>
        obtain ⟨c, h'⟩ := ch
        have hsz := size_heapPop _ _ _ _ hp
        simp only
        cases hj : joinAt (cfg.ok c) ps c.a c.b with
        | none => exact ih ps h' (by omega) g (by omega)
        | some ps' =>
          have hl := length_joinAt _ _ _ _ _ hj
          simp only
          have h1 : (match prevStart ps' c.a with
              | some p => pushCand cfg ps' h' p c.a
              | none => h').size ≤ h'.size + 1 := by
            split
            · exact size_pushCand _ _ _ _ _
            · omega
          have key : ∀ (H : Array Cand), H.size ≤ h'.size + 1 →
              (if nextStart ps' c.a n < n then pushCand cfg ps' H c.a (nextStart ps' c.a n) else H).size
                + 2 * ps'.length ≤ f := by
            intro H hH
            split
            · have := size_pushCand cfg ps' H c.a (nextStart ps' c.a n); omega
            · omega
          exact ih _ _ (key _ h1) g (by omega)

theorem length_initParts (rs : Str) (i : Nat) : (initParts rs i).length = rs.length := by
  induction rs generalizing i with
  | nil => rfl
  | cons r rs ih => simp [initParts, ih]

theorem size_initHeap (cfg : Cfg) (ps l : List Part) (h : Array Cand) :
    (initHeap cfg ps l h).size + 1 ≤ h.size + max l.length 1 := by
  induction l generalizing h with
  | nil => simp [initHeap]
  | cons p rest ih =>
    cases rest with
    | nil => simp [initHeap]
    | cons q rest =>
      simp only [initHeap]
      have h1 := ih (pushCand cfg ps h p.start q.start)
      have h2 := size_pushCand cfg ps h p.start q.start
      simp only [List.length_cons] at h1 ⊢
      omega

/-- **The fuel `3n+3` of `mergeAll` is sufficient**: running the loop with ANY larger fuel gives the same parts,
    i.e. the model's loop ends with an empty queue like the Go loop `for !pairs.Empty()` (both families). -/
theorem mergeAll_fuel_sufficient (cfg : Cfg) (rs : Str) (g : Nat) (hg : 3 * rs.length + 3 ≤ g) :
    mergeLoop cfg rs.length g (initParts rs 0) (initHeap cfg (initParts rs 0) (initParts rs 0) #[]) = mergeAll cfg rs := by
  unfold mergeAll
  apply mergeLoop_fuel _ _ _ _ _ _ g hg
  have h1 := size_initHeap cfg (initParts rs 0) (initParts rs 0) #[]
  rw [length_initParts] at h1 ⊢
  simp only [Array.size_empty] at h1
  omega

end OllamaVerif.Tok
